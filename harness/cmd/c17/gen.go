package main

import (
	"math/big"

	"verif/harness/internal/vh"
)

// genCtx holds what the generators share: the size bound and a pool of primes (found
// with math/big, so every modulus built from it has a factorisation the harness knows).
type genCtx struct {
	// tight: every operand of the current case is announced exactly at its true bit length
	// (as NewIntFromBig(x, x.BitLen()) / num.Z().FromBig do); set per case for a fixed 30 % share
	tight   bool
	maxBits int
	tier    string
	primes  map[int][]*big.Int // bit size -> primes
	sizes   []int
	special []*big.Int // primes with large 2-adic valuation of p-1 (Tonelli-Shanks)
}

var one = big.NewInt(1)
var two = big.NewInt(2)

func findPrime(r *vh.Rng, bits int) *big.Int {
	for {
		p := r.BigBits(bits)
		p.SetBit(p, bits-1, 1)
		p.SetBit(p, 0, 1)
		if p.ProbablyPrime(24) {
			return p
		}
	}
}

func newGenCtx(seed int64, maxBits int, tier string) *genCtx {
	g := &genCtx{maxBits: maxBits, tier: tier, primes: map[int][]*big.Int{}}
	g.sizes = []int{3, 4, 5, 8, 13, 16, 31, 32, 33, 63, 64, 65, 96, 127, 128, 129, 192, 256, 384, 512}
	per := 6
	if maxBits > 2048 {
		g.sizes = append(g.sizes, 1024, 2048)
	} else {
		g.sizes = append(g.sizes, 1024)
	}
	for _, s := range g.sizes {
		n := per
		if s >= 1024 {
			n = 2
		} else if s >= 256 {
			n = 4
		}
		seen := map[string]bool{}
		for i := 0; len(g.primes[s]) < n && i < 200; i++ {
			p := findPrime(vh.NewRng(seed, "C17", "prime-pool", s*1000+i), s)
			if !seen[p.String()] {
				seen[p.String()] = true
				g.primes[s] = append(g.primes[s], p)
			}
		}
	}
	for _, h := range []string{"11", "61", "101", "10001", "3001", "ffffffff00000001", "7fffffffffffffffffffffffffffffffffffffffffffffffffffffffffffffed",
		"ffffffff00000001000000000000000000000000ffffffffffffffffffffffff", "73eda753299d7d483339d80809a1d80553bda402fffe5bfeffffffff00000001",
		"40000000000000000000000000000000224698fc094cf91b992d30ed00000001", "3", "5", "7", "d", "1d"} {
		g.special = append(g.special, vh.UnZHex(h))
	}
	return g
}

var bitLadder = []int{0, 1, 2, 3, 7, 8, 9, 31, 32, 33, 63, 64, 65, 127, 128, 129, 191, 192, 193, 255, 256, 257, 511, 512, 513, 1023, 1024, 1025}

func (g *genCtx) bits(r *vh.Rng) int {
	switch r.Intn(10) {
	case 0, 1, 2, 3:
		b := vh.Pick(r, bitLadder)
		if b > g.maxBits {
			b = g.maxBits
		}
		return b
	case 4, 5, 6:
		return r.Intn(130)
	case 7:
		return g.maxBits - r.Intn(3)
	default:
		return r.Intn(g.maxBits + 1)
	}
}

// val returns a non-negative value of about g.bits() bits with boundary shapes.
func (g *genCtx) val(r *vh.Rng) *big.Int { return g.valBits(r, g.bits(r)) }

func (g *genCtx) valBits(r *vh.Rng, b int) *big.Int {
	if b <= 0 {
		return new(big.Int)
	}
	switch r.Intn(12) {
	case 0: // 2^b - 1
		x := new(big.Int).Lsh(one, uint(b))
		return x.Sub(x, one)
	case 1: // 2^(b-1)
		return new(big.Int).Lsh(one, uint(b-1))
	case 2: // 2^(b-1) + 1
		x := new(big.Int).Lsh(one, uint(b-1))
		return x.Add(x, one)
	case 3: // small
		return big.NewInt(int64(r.Intn(4)))
	case 4: // sparse
		x := new(big.Int)
		for i := 0; i < 3; i++ {
			x.SetBit(x, r.Intn(b), 1)
		}
		return x
	default:
		x := r.BigBits(b)
		x.SetBit(x, b-1, 1)
		return x
	}
}

// sval returns a signed value.
func (g *genCtx) sval(r *vh.Rng) *big.Int {
	x := g.val(r)
	if r.Intn(2) == 0 {
		x.Neg(x)
	}
	return x
}

// capFor returns an announced length relative to the true length of v:
// equal, limb-rounded, above, or below (truncating).
func (g *genCtx) capFor(r *vh.Rng, v *big.Int) int {
	tl := v.BitLen()
	if g.tight {
		return tl
	}
	switch r.Intn(20) {
	case 0, 1, 2, 3, 4, 5:
		return tl
	case 6, 7, 8:
		return (tl + 63) / 64 * 64
	case 9, 10:
		return tl + 1
	case 11, 12, 13, 14:
		return tl + 1 + r.Intn(130)
	case 15, 16, 17:
		if tl == 0 {
			return 0
		}
		d := 1 + r.Intn(70)
		if d > tl {
			d = tl
		}
		return tl - d
	case 18:
		return 0
	default:
		return tl + 64
	}
}

// capOK returns an announced length that does not truncate v.
func (g *genCtx) capOK(r *vh.Rng, v *big.Int) int {
	tl := v.BitLen()
	if g.tight {
		return tl
	}
	switch r.Intn(6) {
	case 0, 1:
		return tl
	case 2:
		return (tl + 63) / 64 * 64
	case 3:
		return tl + 1
	default:
		return tl + 1 + r.Intn(130)
	}
}

// opCap returns a capacity argument for an operation whose exact result has rl bits:
// default (-1), exact, above, below (truncating).
func (g *genCtx) opCap(r *vh.Rng, rl int) int {
	switch r.Intn(10) {
	case 0, 1, 2, 3:
		return -1
	case 4:
		return rl
	case 5:
		return rl + 1 + r.Intn(70)
	case 6:
		return (rl + 63) / 64 * 64
	case 7, 8:
		if rl == 0 {
			return 0
		}
		d := 1 + r.Intn(70)
		if d > rl {
			d = rl
		}
		return rl - d
	default:
		return r.Intn(rl + 2)
	}
}

func (g *genCtx) prime(r *vh.Rng, maxBits int) *big.Int {
	if r.Intn(5) == 0 {
		for i := 0; i < 10; i++ {
			p := vh.Pick(r, g.special)
			if p.BitLen() <= maxBits {
				return p
			}
		}
	}
	var ok []int
	for _, s := range g.sizes {
		if s <= maxBits {
			ok = append(ok, s)
		}
	}
	if len(ok) == 0 {
		return big.NewInt(3)
	}
	return vh.Pick(r, g.primes[vh.Pick(r, ok)])
}

// modulus kinds
const (
	mPrime = iota
	mOddComposite
	mEvenComposite
	mPow2
	mOne
	mTwo
	mPrimePower
	nModKinds
)

type modulus struct {
	m       *big.Int
	factors []*big.Int // p1, e1, p2, e2, ... (sorted as generated; 2 included for even moduli)
	kind    int
}

func (g *genCtx) modulusKind(r *vh.Rng, kind int) modulus {
	switch kind {
	case mPrime:
		p := g.prime(r, g.maxBits)
		return modulus{m: new(big.Int).Set(p), factors: []*big.Int{p, one}, kind: kind}
	case mOne:
		return modulus{m: big.NewInt(1), kind: kind}
	case mTwo:
		return modulus{m: big.NewInt(2), factors: []*big.Int{two, one}, kind: kind}
	case mPow2:
		k := 1 + g.bits(r)%g.maxBits
		if k >= g.maxBits {
			k = g.maxBits - 1
		}
		return modulus{m: new(big.Int).Lsh(one, uint(k)), factors: []*big.Int{two, big.NewInt(int64(k))}, kind: kind}
	case mPrimePower:
		p := g.prime(r, g.maxBits/3)
		e := 2 + r.Intn(2)
		return modulus{m: new(big.Int).Exp(p, big.NewInt(int64(e)), nil), factors: []*big.Int{p, big.NewInt(int64(e))}, kind: kind}
	}
	// composite from distinct pool primes with small exponents
	m := big.NewInt(1)
	var fs []*big.Int
	used := map[string]bool{}
	if kind == mEvenComposite {
		e := 1 + r.Intn(3)
		if r.Intn(4) == 0 {
			e = 1 + r.Intn(70)
		}
		m.Lsh(m, uint(e))
		fs = append(fs, two, big.NewInt(int64(e)))
		used["2"] = true
	}
	n := 2 + r.Intn(3)
	if kind == mEvenComposite {
		n = 1 + r.Intn(3)
	}
	budget := g.maxBits
	for i := 0; i < n; i++ {
		p := g.prime(r, budget/2+3)
		if used[p.String()] {
			continue
		}
		e := 1
		if r.Intn(4) == 0 {
			e = 2 + r.Intn(2)
		}
		pe := new(big.Int).Exp(p, big.NewInt(int64(e)), nil)
		if pe.BitLen() > budget {
			continue
		}
		budget -= pe.BitLen()
		used[p.String()] = true
		m.Mul(m, pe)
		fs = append(fs, p, big.NewInt(int64(e)))
	}
	if len(fs) == 0 || (kind == mOddComposite && len(fs) == 2 && fs[1].Cmp(one) == 0) {
		// degenerate: fall back to 3*5 (or 2*3)
		if kind == mEvenComposite {
			return modulus{m: big.NewInt(6), factors: []*big.Int{two, one, big.NewInt(3), one}, kind: kind}
		}
		return modulus{m: big.NewInt(15), factors: []*big.Int{big.NewInt(3), one, big.NewInt(5), one}, kind: kind}
	}
	return modulus{m: m, factors: fs, kind: kind}
}

func (g *genCtx) modulus(r *vh.Rng) modulus {
	switch k := r.Intn(20); {
	case k < 7:
		return g.modulusKind(r, mPrime)
	case k < 12:
		return g.modulusKind(r, mOddComposite)
	case k < 15:
		return g.modulusKind(r, mEvenComposite)
	case k < 17:
		return g.modulusKind(r, mPow2)
	case k < 18:
		return g.modulusKind(r, mPrimePower)
	case k < 19:
		return g.modulusKind(r, mTwo)
	default:
		return g.modulusKind(r, mOne)
	}
}

func (g *genCtx) oddModulus(r *vh.Rng) modulus {
	switch k := r.Intn(10); {
	case k < 5:
		return g.modulusKind(r, mPrime)
	case k < 9:
		return g.modulusKind(r, mOddComposite)
	default:
		return g.modulusKind(r, mPrimePower)
	}
}

// residue returns an operand for arithmetic modulo m: mostly reduced, sometimes a
// multiple of a factor, 0, 1, m-1, m, m+1, or far above m (>= 2m).
func (g *genCtx) residue(r *vh.Rng, m modulus) *big.Int {
	switch r.Intn(16) {
	case 0:
		return new(big.Int)
	case 1:
		return big.NewInt(1)
	case 2:
		return new(big.Int).Sub(m.m, one)
	case 3:
		return new(big.Int).Set(m.m)
	case 4:
		return new(big.Int).Add(m.m, one)
	case 5, 6: // >= 2m
		x := new(big.Int).Mul(m.m, big.NewInt(int64(2+r.Intn(5))))
		return x.Add(x, r.BigBelow(m.m))
	case 7: // far above
		x := new(big.Int).Lsh(m.m, uint(1+r.Intn(200)))
		return x.Add(x, r.BigBits(64))
	case 8, 9: // multiple of a prime factor
		if len(m.factors) >= 2 {
			p := m.factors[2*r.Intn(len(m.factors)/2)]
			q := new(big.Int).Div(m.m, p)
			x := r.BigBelow(q)
			return x.Mul(x, p)
		}
		return r.BigBelow(m.m)
	case 10: // a square
		x := r.BigBelow(m.m)
		return x.Mul(x, x).Mod(x, m.m)
	case 11: // small perfect square (recognised for composite moduli)
		x := big.NewInt(int64(r.Intn(1 << 15)))
		return x.Mul(x, x)
	default:
		return r.BigBelow(m.m)
	}
}

func tr(capBits int, v *big.Int) *big.Int {
	if capBits <= 0 {
		return new(big.Int)
	}
	m := new(big.Int).Lsh(one, uint(capBits))
	return new(big.Int).Mod(v, m)
}

func dflt(c, d int) int {
	if c < 0 {
		return d
	}
	return c
}

func maxi(a, b int) int {
	if a > b {
		return a
	}
	return b
}

// ---- boundary family for division / quotient style operations -------------------------------
//
// Numerators of magnitude 2^k-1, 2^k, 2^k+1 (k around the limb boundaries 1..130 and random up to
// the tier's size) or built as |d|*(2^j+e)+rem so that the quotient hits 2^j and 2^j +- 1 exactly,
// both signs, divisors +-2^s, +-(2^s +- 1), small odd numbers; operands announced exactly at their
// true length (mostly) or one bit above/below.  The quotient of such a pair needs every bit of the
// quotient bound "announced(n) - bitlen(d) + 2" (e.g. -255 [8 bits] / 2 = -128 rounds away from zero).

func (g *genCtx) boundaryK(r *vh.Rng, limit int) int {
	if limit < 2 {
		limit = 2
	}
	var k int
	switch r.Intn(6) {
	case 0, 1, 2:
		k = 1 + r.Intn(130)
	case 3:
		k = vh.Pick(r, []int{1, 2, 7, 8, 9, 31, 32, 33, 63, 64, 65, 127, 128, 129})
	default:
		k = 1 + r.Intn(limit)
	}
	if k > limit {
		k = limit
	}
	return k
}

func pow2pm(r *vh.Rng, k int) *big.Int {
	x := new(big.Int).Lsh(one, uint(k))
	switch r.Intn(3) {
	case 0:
		x.Sub(x, one)
	case 1:
		x.Add(x, one)
	}
	return x
}

// tightCap: announced length at the true length (70 %), one above (20 %), one below (10 %, truncating).
func tightCap(r *vh.Rng, v *big.Int) int {
	tl := v.BitLen()
	switch k := r.Intn(10); {
	case k < 7:
		return tl
	case k < 9:
		return tl + 1
	default:
		if tl == 0 {
			return 0
		}
		return tl - 1
	}
}

// divBoundary returns a (numerator, divisor) pair of the boundary family; signed says whether
// negative values are allowed; limit bounds the bit size (the bit-serial division is slow).
func (g *genCtx) divBoundary(r *vh.Rng, signed bool, limit int) (x, y *big.Int) {
	if limit > g.maxBits {
		limit = g.maxBits
	}
	k := g.boundaryK(r, limit)
	// divisor
	s := vh.Pick(r, []int{0, 1, 1, 2, k / 2, k - 1, k, r.Intn(k + 1)})
	if s < 0 {
		s = 0
	}
	switch r.Intn(8) {
	case 0, 1, 2:
		y = new(big.Int).Lsh(one, uint(s))
	case 3, 4:
		y = pow2pm(r, s)
	case 5:
		y = big.NewInt(int64(vh.Pick(r, []int{1, 3, 5, 7, 9, 17, 34, 255, 257})))
	default:
		y = new(big.Int).Lsh(one, uint(s))
		y.Add(y, big.NewInt(int64(r.Intn(4))))
	}
	if y.Sign() == 0 {
		y = big.NewInt(1)
	}
	// numerator
	if r.Intn(2) == 0 {
		x = pow2pm(r, k)
	} else { // quotient exactly 2^j + e, remainder 0 / 1 / |d|-1
		j := r.Intn(k + 1)
		q := pow2pm(r, j)
		x = new(big.Int).Mul(y, q)
		switch r.Intn(3) {
		case 0:
			x.Add(x, one)
		case 1:
			x.Add(x, new(big.Int).Sub(y, one))
		}
	}
	if signed {
		if r.Intn(3) != 0 { // mostly negative numerators: the rounding-away-from-zero side
			x.Neg(x)
		}
		if r.Intn(3) == 0 {
			y.Neg(y)
		}
	}
	return x, y
}
