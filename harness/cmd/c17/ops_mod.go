package main

import (
	"fmt"
	"math/big"

	"github.com/bronlabs/bron-crypto/pkg/base/ct"
	"github.com/bronlabs/bron-crypto/pkg/base/nt"
	"github.com/bronlabs/bron-crypto/pkg/base/nt/crt"
	"github.com/bronlabs/bron-crypto/pkg/base/nt/num"
	"github.com/bronlabs/bron-crypto/pkg/base/nt/numct"

	"verif/harness/internal/vh"
)

func mkMod(m *big.Int) *numct.Modulus {
	md, ok := numct.NewModulus(mkNat(m, m.BitLen()+0))
	if ok != ct.True {
		panic("modulus")
	}
	return md
}

// factorisations of the moduli of the current run, keyed by hex (for predicates)
var factorsOf = map[string][]*big.Int{}

func remember(m modulus) { factorsOf[m.m.Text(16)] = m.factors }

func isPrimeModulus(m *big.Int) bool {
	f := factorsOf[m.Text(16)]
	return len(f) == 2 && f[1].Cmp(one) == 0
}

// genMod1: m x ax ; genMod2: m x ax y ay
func genMod(nops int, odd bool) func(r *vh.Rng, g *genCtx) *tcase {
	return func(r *vh.Rng, g *genCtx) *tcase {
		var m modulus
		if odd {
			m = g.oddModulus(r)
		} else {
			m = g.modulus(r)
		}
		remember(m)
		args := []*big.Int{m.m}
		var first *big.Int
		mode := 0
		if r.Intn(2) == 0 {
			mode = 1 + r.Intn(5)
		}
		for i := 0; i < nops; i++ {
			x := g.residue(r, m)
			if i == 1 && (mode == 3 || mode == 4) {
				x = first
			}
			if i == 0 {
				first = x
			}
			args = append(args, x, zi(g.capOK(r, x)))
		}
		if nops == 2 && (mode == 3 || mode == 4) {
			args[4] = args[2]
		}
		if nops == 1 && mode > 1 {
			mode = 5
		}
		return &tcase{args: args, mode: mode}
	}
}

func modImpl2(f func(m *numct.Modulus, out, x, y *numct.Nat) ct.Bool) func(c *tcase) (string, string) {
	return func(c *tcase) (string, string) {
		m := mkMod(c.args[0])
		x, y := mkNat(c.args[1], ai(c, 2)), mkNat(c.args[3], ai(c, 4))
		out, x, y := alias3(c.mode, x, y)
		w := &watch{}
		w.add("x", x)
		w.add("y", y)
		if f(m, out, x, y) != ct.True {
			return "refuse", w.changed(out)
		}
		return okz(out.Big()), w.changed(out)
	}
}

func modImpl1(f func(m *numct.Modulus, out, x *numct.Nat) ct.Bool) func(c *tcase) (string, string) {
	return func(c *tcase) (string, string) {
		m := mkMod(c.args[0])
		x := mkNat(c.args[1], ai(c, 2))
		out, x, _ := alias3(c.mode, x, x)
		w := &watch{}
		w.add("x", x)
		if f(m, out, x) != ct.True {
			return "refuse", w.changed(out)
		}
		return okz(out.Big()), w.changed(out)
	}
}

func bmod(x, m *big.Int) *big.Int { return new(big.Int).Mod(x, m) }

func symmetric(x, m *big.Int) *big.Int {
	r := bmod(x, m)
	if new(big.Int).Lsh(r, 1).Cmp(m) >= 0 {
		r.Sub(r, m)
	}
	return r
}

// sqrtPred: a returned root squares back; for an odd prime modulus a root is returned
// exactly for the residues.
func sqrtPred(m, x *big.Int, impl string) string {
	xr := bmod(x, m)
	if v := parseOk(impl); v != nil {
		r := v[0]
		if r.Sign() < 0 || r.Cmp(m) >= 0 {
			return "returned root " + trunc(r.Text(16)) + " is not reduced"
		}
		if bmod(new(big.Int).Mul(r, r), m).Cmp(xr) != 0 {
			return "returned root " + trunc(r.Text(16)) + " does not square back to the argument"
		}
		return ""
	}
	if isPrimeModulus(m) && m.Bit(0) == 1 {
		has := new(big.Int).ModSqrt(xr, m) != nil
		if impl == "refuse" && has {
			return "no root returned for a quadratic residue modulo an odd prime"
		}
		if impl == "panic" {
			return "panic"
		}
	}
	if impl == "refuse" {
		s := new(big.Int).Sqrt(xr)
		if s.Mul(s, s).Cmp(xr) == 0 {
			return "no root returned although the reduced argument is a perfect square"
		}
	}
	return ""
}

func sqrtRel(impl, model string) string {
	ci, cm := impl, model
	if parseOk(impl) != nil {
		ci = "ok"
	}
	if parseOk(model) != nil {
		cm = "ok"
	}
	if ci != cm {
		return fmt.Sprintf("implementation %s, model %s", trunc(impl), trunc(model))
	}
	return ""
}

func init() {
	register(&opDef{name: "mod.new", weight: 4,
		gen: func(r *vh.Rng, g *genCtx) *tcase {
			m := g.modulus(r).m
			if r.Intn(6) == 0 {
				m = new(big.Int)
			}
			return &tcase{args: []*big.Int{m, zi(g.capFor(r, m))}, mode: r.Intn(3)}
		},
		impl: func(c *tcase) (string, string) {
			n := mkNat(c.args[0], ai(c, 1))
			var m *numct.Modulus
			var ok ct.Bool
			switch c.mode {
			case 0:
				m, ok = numct.NewModulus(n)
			case 1:
				m, ok = numct.NewModulusFromBytesBE(n.Bytes())
			default:
				m = mkMod(big.NewInt(77))
				ok = m.SetNat(n)
			}
			if ok != ct.True {
				return "refuse", ""
			}
			if m.Nat().Big().Cmp(m.Big()) != 0 || new(big.Int).SetBytes(m.Bytes()).Cmp(m.Big()) != 0 {
				return "ok:accessors-differ", ""
			}
			return okz(m.Big(), zi(m.BitLen())), ""
		},
		orac: func(c *tcase) string {
			m := tr(ai(c, 1), c.args[0])
			if m.Sign() == 0 {
				return "refuse"
			}
			return okz(m, zi(m.BitLen()))
		}})
	register(&opDef{name: "mod.mod", weight: 10, gen: genMod(1, false),
		impl: modImpl1(func(m *numct.Modulus, o, x *numct.Nat) ct.Bool { m.Mod(o, x); return ct.True }),
		orac: func(c *tcase) string { return okz(bmod(tr(ai(c, 2), c.args[1]), c.args[0])) }})
	register(&opDef{name: "mod.modi", weight: 6,
		gen: func(r *vh.Rng, g *genCtx) *tcase {
			c := genMod(1, false)(r, g)
			if r.Intn(2) == 0 {
				c.args[1] = new(big.Int).Neg(c.args[1])
			}
			return c
		},
		impl: func(c *tcase) (string, string) {
			m := mkMod(c.args[0])
			out := new(numct.Nat)
			m.ModI(out, mkInt(c.args[1], ai(c, 2)))
			return okz(out.Big()), ""
		},
		orac: func(c *tcase) string { return okz(bmod(intIn(ai(c, 2), c.args[1]), c.args[0])) }})
	register(&opDef{name: "mod.modsym", weight: 6, gen: genMod(1, false),
		impl: func(c *tcase) (string, string) {
			m := mkMod(c.args[0])
			out := new(numct.Int)
			m.ModSymmetric(out, mkNat(c.args[1], ai(c, 2)))
			return okz(out.Big()), ""
		},
		orac: func(c *tcase) string { return okz(symmetric(tr(ai(c, 2), c.args[1]), c.args[0])) }})
	register(&opDef{name: "mod.quo", weight: 6,
		gen: func(r *vh.Rng, g *genCtx) *tcase {
			c := genMod(1, false)(r, g)
			if r.Intn(3) == 0 { // boundary family: quotient 2^j, 2^j +- 1, tight announcements
				x, m := g.divBoundary(r, false, g.maxBits/2)
				c = &tcase{args: []*big.Int{m, x, zi(tightCap(r, x))}, mode: c.mode}
			}
			// Quo sizes the quotient like the modulus; operands whose quotient does not fit are out of contract
			lim := new(big.Int).Lsh(c.args[0], uint(c.args[0].BitLen()))
			if c.args[1].Cmp(lim) >= 0 {
				c.args[1] = new(big.Int).Mod(c.args[1], lim)
				c.args[2] = zi(g.capOK(r, c.args[1]))
			}
			return c
		},
		impl: modImpl1(func(m *numct.Modulus, o, x *numct.Nat) ct.Bool { m.Quo(o, x); return ct.True }),
		orac: func(c *tcase) string {
			m := c.args[0]
			return okz(tr(m.BitLen(), new(big.Int).Div(tr(ai(c, 2), c.args[1]), m)))
		}})
	bin := func(name string, w int, f func(m *numct.Modulus, o, x, y *numct.Nat) ct.Bool, spec func(x, y, m *big.Int) *big.Int) {
		register(&opDef{name: name, weight: w, gen: genMod(2, false), impl: modImpl2(f),
			orac: func(c *tcase) string {
				return okz(spec(tr(ai(c, 2), c.args[1]), tr(ai(c, 4), c.args[3]), c.args[0]))
			}})
	}
	bin("mod.add", 10, func(m *numct.Modulus, o, x, y *numct.Nat) ct.Bool { m.ModAdd(o, x, y); return ct.True },
		func(x, y, m *big.Int) *big.Int { return bmod(new(big.Int).Add(x, y), m) })
	bin("mod.sub", 10, func(m *numct.Modulus, o, x, y *numct.Nat) ct.Bool { m.ModSub(o, x, y); return ct.True },
		func(x, y, m *big.Int) *big.Int { return bmod(new(big.Int).Sub(x, y), m) })
	bin("mod.mul", 10, func(m *numct.Modulus, o, x, y *numct.Nat) ct.Bool { m.ModMul(o, x, y); return ct.True },
		func(x, y, m *big.Int) *big.Int { return bmod(new(big.Int).Mul(x, y), m) })
	register(&opDef{name: "mod.neg", weight: 5, gen: genMod(1, false),
		impl: modImpl1(func(m *numct.Modulus, o, x *numct.Nat) ct.Bool { m.ModNeg(o, x); return ct.True }),
		orac: func(c *tcase) string { return okz(bmod(new(big.Int).Neg(tr(ai(c, 2), c.args[1])), c.args[0])) }})
	reusedOut := func(name string) func(c *tcase) string {
		return func(c *tcase) string {
			if c.args[0].Bit(0) == 0 && c.mode != 0 && c.mode != 3 {
				return "even-modulus-reused-output"
			}
			if name == "mod.inv" && (c.mode == 1 || c.mode == 4) {
				return "modinv-output-aliases-input"
			}
			return "arith-" + name
		}
	}
	register(&opDef{name: "mod.inv", weight: 14, gen: genMod(1, false), key: reusedOut("mod.inv"),
		impl: modImpl1(func(m *numct.Modulus, o, x *numct.Nat) ct.Bool { return m.ModInv(o, x) }),
		rel: func(c *tcase, impl, model string) string {
			if impl == model || c.args[0].Cmp(one) == 0 { // modulo 1 every residue is a unit and 0 = 1: no claim
				return ""
			}
			return diffDetail("implementation", impl, "model", model)
		},
		orac: func(c *tcase) string {
			m := c.args[0]
			if m.Cmp(one) == 0 {
				return "" // every residue is a unit modulo 1; the code refuses (1 mod 1 is not "one")
			}
			inv := new(big.Int).ModInverse(tr(ai(c, 2), c.args[1]), m)
			if inv == nil {
				return "refuse"
			}
			return okz(inv)
		},
		trivial: func(c *tcase, impl string) bool { return impl == "refuse" }})
	register(&opDef{name: "mod.div", weight: 10, gen: genMod(2, false),
		impl: modImpl2(func(m *numct.Modulus, o, x, y *numct.Nat) ct.Bool { return m.ModDiv(o, x, y) }),
		rel: func(c *tcase, impl, model string) string {
			if impl == model || c.args[0].Cmp(one) == 0 {
				return ""
			}
			return diffDetail("implementation", impl, "model", model)
		},
		// predicate: a returned u solves y*u = x (mod m); division by a unit is never refused
		pred: func(c *tcase, impl string) string {
			m, x, y := c.args[0], tr(ai(c, 2), c.args[1]), tr(ai(c, 4), c.args[3])
			if v := parseOk(impl); v != nil {
				if bmod(new(big.Int).Mul(y, v[0]), m).Cmp(bmod(x, m)) != 0 {
					return "returned quotient u does not satisfy y*u = x (mod m)"
				}
				return ""
			}
			if impl == "refuse" && m.Cmp(one) > 0 && new(big.Int).GCD(nil, nil, y, m).Cmp(one) == 0 {
				return "division by a unit refused"
			}
			if impl == "panic" {
				return "panic"
			}
			return ""
		},
		trivial: func(c *tcase, impl string) bool { return impl == "refuse" }})
	register(&opDef{name: "mod.exp", weight: 12, key: reusedOut("mod.exp"),
		gen: func(r *vh.Rng, g *genCtx) *tcase {
			c := genMod(2, false)(r, g)
			if c.args[0].BitLen() > 1100 && r.Intn(3) != 0 { // keep the quick tier fast
				e := g.valBits(r, r.Intn(200))
				c.args[3], c.args[4] = e, zi(g.capOK(r, e))
			} else if r.Intn(3) == 0 {
				e := g.val(r)
				c.args[3], c.args[4] = e, zi(g.capFor(r, e))
			}
			if c.mode == 3 || c.mode == 4 {
				c.args[3], c.args[4] = c.args[1], c.args[2]
			}
			return c
		},
		impl: modImpl2(func(m *numct.Modulus, o, x, y *numct.Nat) ct.Bool {
			if o != x && o != y && x != y {
				// the multi-base variant must agree (two bases: x and 1)
				outs := []*numct.Nat{new(numct.Nat), new(numct.Nat)}
				m.ModMultiBaseExp(outs, []*numct.Nat{x, numct.NatOne()}, y)
				m.ModExp(o, x, y)
				var oneExp numct.Nat
				m.ModExp(&oneExp, numct.NatOne(), y)
				if outs[0].Big().Cmp(o.Big()) != 0 || outs[1].Big().Cmp(oneExp.Big()) != 0 {
					o.SetUint64(0)
					o.Resize(0)
					return ct.False // reported as "refuse": never expected for ModExp
				}
				return ct.True
			}
			m.ModExp(o, x, y)
			return ct.True
		}),
		orac: func(c *tcase) string {
			return okz(new(big.Int).Exp(tr(ai(c, 2), c.args[1]), tr(ai(c, 4), c.args[3]), c.args[0]))
		}})
	register(&opDef{name: "mod.expi", weight: 8, key: reusedOut("mod.expi"),
		gen: func(r *vh.Rng, g *genCtx) *tcase {
			m := g.modulus(r)
			remember(m)
			x := g.residue(r, m)
			e := g.valBits(r, r.Intn(300))
			if r.Intn(2) == 0 {
				e.Neg(e)
			}
			ae := g.capOK(r, e)
			return &tcase{args: []*big.Int{m.m, x, zi(g.capOK(r, x)), e, zi(ae)}, mode: r.Intn(2)}
		},
		impl: func(c *tcase) (string, string) {
			m := mkMod(c.args[0])
			x := mkNat(c.args[1], ai(c, 2))
			out := new(numct.Nat)
			if c.mode == 1 {
				out = x
			}
			m.ModExpI(out, x, mkInt(c.args[3], ai(c, 4)))
			return okz(out.Big()), ""
		},
		// a negative exponent of a non-unit has no value: compared only when defined
		rel: func(c *tcase, impl, model string) string {
			if model == "refuse" {
				return ""
			}
			if impl != model {
				return diffDetail("implementation", impl, "model", model)
			}
			return ""
		},
		orac: func(c *tcase) string {
			m, x, e := c.args[0], tr(ai(c, 2), c.args[1]), intIn(ai(c, 4), c.args[3])
			if e.Sign() < 0 {
				if m.Cmp(one) == 0 || new(big.Int).GCD(nil, nil, x, m).Cmp(one) != 0 {
					return ""
				}
			}
			return okz(new(big.Int).Exp(x, e, m))
		}})
	register(&opDef{name: "mod.sqrt", weight: 16,
		gen: func(r *vh.Rng, g *genCtx) *tcase {
			c := genMod(1, false)(r, g)
			if c.args[0].BitLen() > 1100 && r.Intn(3) != 0 {
				return genMod(1, false)(vh.NewRng(int64(r.Uint64()), "C17", "sqrt-small", 0), &genCtx{tight: g.tight, maxBits: 600, sizes: g.sizes, primes: g.primes, special: g.special})
			}
			return c
		},
		impl: modImpl1(func(m *numct.Modulus, o, x *numct.Nat) ct.Bool { return m.ModSqrt(o, x) }),
		rel: func(c *tcase, impl, model string) string {
			if c.args[0].Cmp(two) == 0 {
				return "" // modulus 2 is not an odd prime; the code panics (saferith refuses even moduli), no claim
			}
			return sqrtRel(impl, model)
		},
		pred: func(c *tcase, impl string) string {
			if c.args[0].Cmp(two) == 0 && impl == "panic" {
				return "" // modulus 2: saferith refuses even moduli by panicking; not an odd prime
			}
			return sqrtPred(c.args[0], tr(ai(c, 2), c.args[1]), impl)
		},
		trivial: func(c *tcase, impl string) bool { return impl != "refuse" && parseOk(impl) == nil }})
	register(&opDef{name: "mod.inrange", weight: 5,
		gen: func(r *vh.Rng, g *genCtx) *tcase {
			m := g.modulus(r)
			x := g.residue(r, m)
			switch r.Intn(6) {
			case 0:
				x = new(big.Int).Rsh(m.m, 1)
			case 1:
				x = new(big.Int).Rsh(m.m, 1)
				x.Add(x, one)
			case 2:
				x = new(big.Int).Rsh(m.m, 1)
				x.Neg(x)
			case 3:
				x.Neg(x)
			}
			return &tcase{args: []*big.Int{m.m, x, zi(g.capOK(r, x))}}
		},
		impl: func(c *tcase) (string, string) {
			m := mkMod(c.args[0])
			xi := mkInt(c.args[1], ai(c, 2))
			inr := false
			if c.args[1].Sign() >= 0 {
				inr = m.IsInRange(mkNat(c.args[1], ai(c, 2))) == ct.True
			}
			return okz(zb(inr), zb(m.IsInRangeSymmetric(xi) == ct.True)), ""
		},
		orac: func(c *tcase) string {
			m, x := c.args[0], intIn(ai(c, 2), c.args[1])
			x2 := new(big.Int).Lsh(x, 1)
			return okz(zb(x.Sign() >= 0 && x.Cmp(m) < 0), zb(x2.Cmp(new(big.Int).Neg(m)) >= 0 && x2.Cmp(m) < 0))
		}})
	register(&opDef{name: "mod.isunit", weight: 5, gen: genMod(1, false),
		impl: func(c *tcase) (string, string) {
			m := mkMod(c.args[0])
			return okz(zb(m.IsUnit(mkNat(c.args[1], ai(c, 2))) == ct.True)), ""
		},
		orac: func(c *tcase) string {
			return okz(zb(new(big.Int).GCD(nil, nil, tr(ai(c, 2), c.args[1]), c.args[0]).Cmp(one) == 0))
		}})

	// ---- nt.Jacobi
	register(&opDef{name: "jacobi", weight: 30,
		gen: func(r *vh.Rng, g *genCtx) *tcase {
			var m modulus
			switch r.Intn(12) {
			case 0:
				m = g.modulusKind(r, mEvenComposite)
			case 1:
				m = g.modulusKind(r, mOne)
			case 2:
				m = modulus{m: big.NewInt(3), factors: []*big.Int{big.NewInt(3), one}}
			case 3:
				m = modulus{m: big.NewInt(59), factors: []*big.Int{big.NewInt(59), one}}
			default:
				m = g.oddModulus(r)
			}
			x := g.residue(r, m)
			switch r.Intn(8) {
			case 0:
				x = g.val(r)
			case 1:
				x = big.NewInt(int64(r.Intn(20)))
			case 2: // power of two times a residue
				x.Lsh(x, uint(1+r.Intn(70)))
			}
			if r.Intn(2) == 0 {
				x.Neg(x)
			}
			args := append([]*big.Int{x, m.m}, m.factors...)
			return &tcase{args: args}
		},
		impl: func(c *tcase) (string, string) {
			x, err := num.Z().FromBig(c.args[0])
			if err != nil {
				return "panic", ""
			}
			y, err := num.NPlus().FromBig(c.args[1])
			if err != nil {
				return "panic", ""
			}
			j, err := nt.Jacobi(x, y)
			if err != nil {
				return "refuse", ""
			}
			return okz(zi(j)), ""
		},
		// the model returns [loop result; specification from the factorisation]
		rel: func(c *tcase, impl, model string) string {
			mv := parseOk(model)
			if mv == nil {
				if impl != model {
					return fmt.Sprintf("implementation %s, model %s", impl, model)
				}
				return ""
			}
			iv := parseOk(impl)
			if iv == nil || iv[0].Cmp(mv[0]) != 0 {
				return fmt.Sprintf("implementation %s, model loop %s", impl, mv[0].String())
			}
			return ""
		},
		pred: func(c *tcase, impl string) string {
			x, y := c.args[0], c.args[1]
			if y.Bit(0) == 0 {
				if impl != "refuse" {
					return "even y not refused"
				}
				return ""
			}
			want := big.Jacobi(x, y)
			// second, independent specification: Euler's criterion on the known prime factors
			spec := 1
			for i := 0; i+1 < len(c.args[2:]); i += 2 {
				p, e := c.args[2+i], int(c.args[3+i].Int64())
				l := new(big.Int).Exp(bmod(x, p), new(big.Int).Rsh(new(big.Int).Sub(p, one), 1), p)
				s := -1
				if l.Sign() == 0 {
					s = 0
				} else if l.Cmp(one) == 0 {
					s = 1
				}
				for k := 0; k < e; k++ {
					spec *= s
				}
			}
			if spec != want {
				return fmt.Sprintf("harness oracles disagree: big.Jacobi %d, Euler/factorisation %d", want, spec)
			}
			if impl != okz(zi(want)) {
				return fmt.Sprintf("Jacobi(%s, %s) = %s, expected %d", trunc(x.Text(16)), trunc(y.Text(16)), impl, want)
			}
			return ""
		},
		key: func(c *tcase) string {
			if c.args[0].Sign() < 0 {
				return "jacobi-negative-numerator"
			}
			return "arith-jacobi"
		},
		trivial: func(c *tcase, impl string) bool { return impl == "refuse" }})

	// ---- crt.Recombine(mp, mq, p, q)
	register(&opDef{name: "crt.recombine", weight: 20,
		gen: func(r *vh.Rng, g *genCtx) *tcase {
			h := &genCtx{tight: g.tight, maxBits: g.maxBits / 2, sizes: g.sizes, primes: g.primes, special: g.special}
			pm, qm := h.modulus(r), h.modulus(r)
			switch r.Intn(12) {
			case 0:
				qm = pm
			case 1:
				pm = modulus{m: new(big.Int)}
			case 2:
				qm = modulus{m: new(big.Int)}
			}
			if r.Intn(3) != 0 { // mostly coprime: strip common factors
				gq := new(big.Int).GCD(nil, nil, pm.m, qm.m)
				for gq.Cmp(one) > 0 && qm.m.Sign() > 0 {
					qm.m = new(big.Int).Div(qm.m, gq)
					gq = new(big.Int).GCD(nil, nil, pm.m, qm.m)
				}
			}
			p, q := pm.m, qm.m
			var mp, mq *big.Int
			if p.Sign() > 0 {
				mp = h.residue(r, modulus{m: p})
			} else {
				mp = h.val(r)
			}
			if q.Sign() > 0 && r.Intn(5) != 0 {
				mq = r.BigBelow(q)
			} else if q.Sign() > 0 {
				mq = h.residue(r, modulus{m: q})
			} else {
				mq = h.val(r)
			}
			return &tcase{args: []*big.Int{p, zi(h.capOK(r, p)), q, zi(h.capOK(r, q)), mp, zi(h.capOK(r, mp)), mq, zi(h.capOK(r, mq))}, mode: r.Intn(3)}
		},
		impl: func(c *tcase) (string, string) {
			p, q := mkNat(c.args[0], ai(c, 1)), mkNat(c.args[2], ai(c, 3))
			mp, mq := mkNat(c.args[4], ai(c, 5)), mkNat(c.args[6], ai(c, 7))
			w := &watch{}
			w.add("p", p)
			w.add("q", q)
			w.add("mp", mp)
			w.add("mq", mq)
			var out *numct.Nat
			var ok ct.Bool
			switch c.mode {
			case 0:
				out, ok = crt.Recombine(mp, mq, p, q)
			case 1:
				var prm *crt.Params
				prm, ok = crt.Precompute(p, q)
				out = prm.Recombine(mp, mq)
			default:
				var prm *crt.ParamsExtended
				prm, ok = crt.PrecomputePairExtended(p, q)
				if ok == ct.True {
					out = prm.Recombine(mp, mq)
					if prm.Modulus().Big().Cmp(new(big.Int).Mul(p.Big(), q.Big())) != 0 {
						return "ok:extended-modulus-differs", ""
					}
					// Decompose of the product modulus gives zero residues
					dp, dq := prm.Decompose(prm.Modulus())
					if dp.Big().Sign() != 0 || dq.Big().Sign() != 0 {
						return "ok:decompose-differs", ""
					}
				}
			}
			if ok != ct.True {
				return "refuse", w.changed()
			}
			return okz(out.Big()), w.changed()
		},
		rel: func(c *tcase, impl, model string) string {
			if impl == model {
				return ""
			}
			p, q := tr(ai(c, 1), c.args[0]), tr(ai(c, 3), c.args[2])
			mp, mq := tr(ai(c, 5), c.args[4]), tr(ai(c, 7), c.args[6])
			if p.Cmp(one) == 0 || q.Cmp(one) == 0 {
				return "" // a modulus 1: no claim
			}
			// an unreduced second residue is outside the documented contract: any value with the right
			// residues is accepted
			if v := parseOk(impl); v != nil && parseOk(model) != nil && p.Sign() > 0 && q.Sign() > 0 && mq.Cmp(q) >= 0 &&
				bmod(v[0], p).Cmp(bmod(mp, p)) == 0 && bmod(v[0], q).Cmp(bmod(mq, q)) == 0 {
				return ""
			}
			return diffDetail("implementation", impl, "model", model)
		},
		pred: func(c *tcase, impl string) string {
			p, q := tr(ai(c, 1), c.args[0]), tr(ai(c, 3), c.args[2])
			mp, mq := tr(ai(c, 5), c.args[4]), tr(ai(c, 7), c.args[6])
			if p.Sign() == 0 || q.Sign() == 0 {
				return ""
			}
			cop := new(big.Int).GCD(nil, nil, p, q).Cmp(one) == 0
			if !cop {
				if impl != "refuse" {
					return "moduli with a common factor not refused"
				}
				return ""
			}
			if p.Cmp(one) == 0 {
				return "" // modulus 1 refused by the code (no inverse modulo 1)
			}
			v := parseOk(impl)
			if v == nil {
				return "coprime moduli: " + impl
			}
			if mq.Cmp(q) >= 0 {
				// unreduced second residue: only the congruences are claimed when nothing was truncated
				return ""
			}
			if bmod(v[0], p).Cmp(bmod(mp, p)) != 0 || bmod(v[0], q).Cmp(mq) != 0 || v[0].Cmp(new(big.Int).Mul(p, q)) >= 0 {
				return "result is not the residue modulo p*q with the given residues"
			}
			return ""
		},
		trivial: func(c *tcase, impl string) bool { return impl != "refuse" && parseOk(impl) == nil || impl == "refuse" }})

	// ---- crt multi
	genMulti := func(r *vh.Rng, g *genCtx) *tcase {
		k := 2 + r.Intn(5)
		var ps, rs []*big.Int
		used := map[string]bool{}
		for len(ps) < k {
			var p *big.Int
			if r.Intn(4) == 0 { // prime power / composite factor
				a := g.prime(r, 40)
				p = new(big.Int).Exp(a, big.NewInt(int64(1+r.Intn(3))), nil)
				if used[a.String()] {
					continue
				}
				used[a.String()] = true
			} else {
				p = g.prime(r, g.maxBits/k)
				if used[p.String()] {
					if r.Intn(10) != 0 {
						continue
					}
				}
				used[p.String()] = true
			}
			ps = append(ps, p)
			if r.Intn(8) == 0 {
				rs = append(rs, g.residue(r, modulus{m: p}))
			} else {
				rs = append(rs, r.BigBelow(p))
			}
		}
		return &tcase{args: append(ps, rs...)}
	}
	multiImpl := func(serial bool) func(c *tcase) (string, string) {
		return func(c *tcase) (string, string) {
			k := len(c.args) / 2
			fs := make([]*numct.Nat, k)
			rs := make([]*numct.Nat, k)
			for i := 0; i < k; i++ {
				fs[i] = mkNat(c.args[i], c.args[i].BitLen())
				rs[i] = mkNat(c.args[k+i], c.args[k+i].BitLen())
			}
			prm, ok := crt.PrecomputeMulti(fs...)
			if ok != ct.True {
				return "refuse", ""
			}
			var out *numct.Nat
			if serial {
				out, ok = prm.RecombineSerial(rs...)
			} else {
				out, ok = prm.RecombineParallel(rs...)
			}
			if ok != ct.True {
				return "refuse", ""
			}
			def, _ := prm.Recombine(rs...)
			n := prm.Modulus.Big()
			if bmod(def.Big(), n).Cmp(bmod(out.Big(), n)) != 0 {
				return "ok:recombine-variants-differ", ""
			}
			// decompose the result again
			if md, okm := numct.NewModulus(out); okm == ct.True {
				for i, d := range prm.Decompose(md) {
					if d.Big().Cmp(bmod(c.args[k+i], c.args[i])) != 0 {
						return "ok:decompose-differs", ""
					}
				}
			}
			return okz(out.Big()), ""
		}
	}
	multiPred := func(c *tcase, impl string) string {
		k := len(c.args) / 2
		n := big.NewInt(1)
		cop := true
		for i := 0; i < k; i++ {
			if new(big.Int).GCD(nil, nil, n, c.args[i]).Cmp(one) != 0 {
				cop = false
			}
			n.Mul(n, c.args[i])
		}
		v := parseOk(impl)
		if !cop {
			if v != nil {
				return "factors with a common divisor not refused"
			}
			return ""
		}
		if v == nil {
			return "pairwise coprime factors: " + impl
		}
		reduced := true
		for i := 0; i < k; i++ {
			if bmod(v[0], c.args[i]).Cmp(bmod(c.args[k+i], c.args[i])) != 0 {
				return fmt.Sprintf("result has the wrong residue modulo factor %d", i)
			}
			if c.args[k+i].Cmp(c.args[i]) >= 0 {
				reduced = false
			}
		}
		if reduced && v[0].Cmp(n) >= 0 {
			return "result not below the product of the factors"
		}
		return ""
	}
	multiRel := func(c *tcase, impl, model string) string {
		if impl == model {
			return ""
		}
		k := len(c.args) / 2
		reduced := true
		for i := 0; i < k; i++ {
			if c.args[k+i].Cmp(c.args[i]) >= 0 {
				reduced = false
			}
		}
		if !reduced && parseOk(impl) != nil && parseOk(model) != nil && multiPred(c, impl) == "" {
			return "" // unreduced residues: any value with the right residues is accepted
		}
		return diffDetail("implementation", impl, "model", model)
	}
	register(&opDef{name: "crt.multi.serial", weight: 8, gen: genMulti, impl: multiImpl(true), pred: multiPred, rel: multiRel})
	register(&opDef{name: "crt.multi.parallel", weight: 8, gen: genMulti, impl: multiImpl(false), pred: multiPred, rel: multiRel})
}
