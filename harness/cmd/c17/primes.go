package main

import "verif/harness/internal/vh"

func primeChecks(a vh.Args, res *vh.Result, g *genCtx) {}
func replayPrime(a vh.Args, res *vh.Result, txt string) {}
