package main

import (
	"fmt"
	"io"
	"math/big"
	"os"
	"strings"
	"sync"

	"github.com/bronlabs/bron-crypto/pkg/base/nt"
	"github.com/bronlabs/bron-crypto/pkg/base/nt/num"

	"verif/harness/internal/vh"
)

// lockedReader makes the seeded stream safe for the generators that draw from two goroutines.
type lockedReader struct {
	mu sync.Mutex
	r  io.Reader
}

func (l *lockedReader) Read(p []byte) (int, error) {
	l.mu.Lock()
	defer l.mu.Unlock()
	return l.r.Read(p)
}

type primeReq struct {
	form string // prime | blum | safe | pair | blumpair | safepair
	bits int    // requested bit length of each prime (pairs: keyLen = 2*bits)
}

func (q primeReq) text() string { return fmt.Sprintf("prime %s %d", q.form, q.bits) }

func generate(q primeReq, rd io.Reader) (ps []*big.Int, err error) {
	set := num.NPlus()
	var p, p2 *num.NatPlus
	if pn := vh.Safely(func() {
		switch q.form {
		case "prime":
			p, err = nt.GeneratePrime(set, uint(q.bits), rd)
		case "blum":
			p, err = nt.GenerateBlumPrime(set, uint(q.bits), rd)
		case "safe":
			p, err = nt.GenerateSafePrime(set, uint(q.bits), rd)
		case "pair":
			p, p2, err = nt.GeneratePrimePair(set, uint(2*q.bits), rd)
		case "blumpair":
			p, p2, err = nt.GenerateBlumPrimePair(set, uint(2*q.bits), rd)
		case "safepair":
			p, p2, err = nt.GenerateSafePrimePair(set, uint(2*q.bits), rd)
		}
	}); pn != "" {
		return nil, fmt.Errorf("panic: %s", pn)
	}
	if err != nil {
		return nil, err
	}
	ps = append(ps, p.Big())
	if p2 != nil {
		ps = append(ps, p2.Big())
	}
	return ps, nil
}

// checkPrimes evaluates one request: every returned prime is tested by the model's
// deterministic Miller-Rabin (and by math/big as oracle) for primality, bit length and form.
func checkPrimes(a vh.Args, res *vh.Result, q primeReq, idx int) {
	rd := &lockedReader{r: vh.NewRng(a.Seed, "C17", "primegen-"+q.form, idx*1000+q.bits)}
	ps, err := generate(q, rd)
	res.Count("prime-"+q.form, q.text()+fmt.Sprintf(" #%d", idx), err == nil)
	if err != nil {
		report(res, vh.Mismatch{ID: q.text(), Kind: "prop", Key: "primegen-" + q.form + "-fails", Detail: "generator failed: " + err.Error(), Case: q.text(), PropFail: true, What: "prime generation returns a prime"})
		return
	}
	var lines []string
	for _, p := range ps {
		lines = append(lines, fmt.Sprintf("prime.check %s %x", vh.ZHex(p), q.bits))
	}
	out, derr := vh.Driver(a.Driver, lines)
	if derr != nil {
		fmt.Fprintln(os.Stderr, derr)
		os.Exit(3)
	}
	blum := strings.HasPrefix(q.form, "blum")
	safe := strings.HasPrefix(q.form, "safe")
	for i, p := range ps {
		v := parseOk(out[i])
		what := ""
		switch {
		case v == nil || len(v) != 4:
			what = "model failed: " + out[i]
		case v[0].Sign() == 0 || !p.ProbablyPrime(32):
			what = "not prime"
		case v[1].Sign() == 0 || p.BitLen() != q.bits:
			what = fmt.Sprintf("bit length %d, requested %d", p.BitLen(), q.bits)
		case blum && (v[2].Int64() != 3 || p.Bit(1) != 1):
			what = "not congruent 3 mod 4 (Blum form)"
		case safe && (v[3].Sign() == 0 || !new(big.Int).Rsh(p, 1).ProbablyPrime(32)):
			what = "(p-1)/2 is not prime (safe form)"
		}
		if what != "" {
			key := "primegen-" + q.form
			if strings.HasPrefix(what, "bit length") {
				key += "-bitlength"
			}
			report(res, vh.Mismatch{ID: q.text(), Kind: "prop", Key: key, Detail: fmt.Sprintf("generated %s: %s", vh.ZHex(p), what),
				Case: q.text() + fmt.Sprintf(" #%d", idx), PropFail: true, What: "generated primes are prime, of the requested bit length and form (model Miller-Rabin + math/big)"})
		}
	}
	if len(ps) == 2 {
		n := new(big.Int).Mul(ps[0], ps[1])
		if ps[0].Cmp(ps[1]) == 0 || n.BitLen() != 2*q.bits {
			report(res, vh.Mismatch{ID: q.text(), Kind: "prop", Key: "primegen-" + q.form, Detail: fmt.Sprintf("pair %s,%s: equal primes or product of %d bits (requested %d)", vh.ZHex(ps[0]), vh.ZHex(ps[1]), n.BitLen(), 2*q.bits),
				Case: q.text() + fmt.Sprintf(" #%d", idx), PropFail: true, What: "generated prime pairs are distinct and their product has the requested length"})
		}
	}
}

func primeChecks(a vh.Args, res *vh.Result, g *genCtx) {
	reqs := []primeReq{
		{"prime", 16}, {"prime", 17}, {"prime", 32}, {"prime", 64}, {"prime", 127}, {"prime", 256},
		{"blum", 16}, {"blum", 20}, {"blum", 24}, {"blum", 32}, {"blum", 64}, {"blum", 128},
		{"safe", 16}, {"safe", 20}, {"safe", 24}, {"safe", 32}, {"safe", 64},
		{"pair", 32}, {"pair", 64}, {"blumpair", 32}, {"blumpair", 64}, {"safepair", 32},
	}
	reps := 2
	if a.Tier == "thorough" {
		reps = 8
		reqs = append(reqs, primeReq{"prime", 512}, primeReq{"blum", 256}, primeReq{"blum", 512}, primeReq{"safe", 128}, primeReq{"pair", 512},
			primeReq{"blumpair", 256}, primeReq{"safepair", 64}, primeReq{"blum", 20}, primeReq{"blum", 33}, primeReq{"safe", 20}, primeReq{"safe", 33}, primeReq{"prime", 20})
	}
	for _, q := range reqs {
		n := reps
		if a.Tier != "thorough" && (strings.HasSuffix(q.form, "pair") || (q.form == "safe" && q.bits >= 32) || q.bits >= 128) {
			n = 1 // the expensive generators once in the quick tier
		}
		for i := 0; i < n; i++ {
			checkPrimes(a, res, q, i)
		}
	}
}

func replayPrime(a vh.Args, res *vh.Result, txt string) {
	var q primeReq
	idx := 0
	f := strings.Fields(txt)
	if len(f) < 3 {
		return
	}
	q.form = f[1]
	fmt.Sscanf(f[2], "%d", &q.bits)
	if len(f) > 3 {
		fmt.Sscanf(f[3], "#%d", &idx)
	}
	checkPrimes(a, res, q, idx)
}
