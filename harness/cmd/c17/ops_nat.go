package main

import (
	"fmt"
	"math/big"

	"github.com/bronlabs/bron-crypto/pkg/base/ct"
	"github.com/bronlabs/bron-crypto/pkg/base/nt/numct"

	"verif/harness/internal/vh"
)

func mkNat(v *big.Int, capBits int) *numct.Nat { return numct.NewNatFromBig(v, capBits) }

func snap(n *numct.Nat) string { return fmt.Sprintf("%s/%d", n.Big().Text(16), n.AnnouncedLen()) }

// alias3 applies an aliasing mode to (out, x, y): 0 fresh output, 1 out = x, 2 out = y,
// 3 x and y the same object, 4 all three the same object.
func alias3(mode int, x, y *numct.Nat) (out, xx, yy *numct.Nat) {
	switch mode {
	case 1:
		return x, x, y
	case 2:
		return y, x, y
	case 3:
		return new(numct.Nat), x, x
	case 4:
		return x, x, x
	case 5: // a receiver that held another value before
		d := new(big.Int).Abs(dirtyValue)
		return numct.NewNatFromBig(d, d.BitLen()), x, y
	}
	return new(numct.Nat), x, y
}

// watch records operands and reports those modified although they are not the output.
type watch struct {
	ns   []*numct.Nat
	pre  []string
	name []string
}

func (w *watch) add(name string, n *numct.Nat) {
	w.ns = append(w.ns, n)
	w.pre = append(w.pre, snap(n))
	w.name = append(w.name, name)
}

func (w *watch) changed(out ...*numct.Nat) string {
	for i, n := range w.ns {
		isOut := false
		for _, o := range out {
			if o == n {
				isOut = true
			}
		}
		if !isOut && snap(n) != w.pre[i] {
			return fmt.Sprintf("%s was %s, is %s", w.name[i], w.pre[i], snap(n))
		}
	}
	return ""
}

// genBin: x ax y ay cap with aliasing; rl estimates the exact result length.
func genNatBin(rl func(x, y *big.Int) int, withCap bool) func(r *vh.Rng, g *genCtx) *tcase {
	return func(r *vh.Rng, g *genCtx) *tcase {
		x, y := g.val(r), g.val(r)
		if r.Intn(8) == 0 {
			y = new(big.Int).Set(x)
		}
		ax, ay := g.capFor(r, x), g.capFor(r, y)
		mode := 0
		if r.Intn(2) == 0 {
			mode = 1 + r.Intn(5)
		}
		if mode == 3 || mode == 4 {
			y, ay = x, ax
		}
		args := []*big.Int{x, zi(ax), y, zi(ay)}
		if withCap {
			args = append(args, zi(g.opCap(r, rl(tr(ax, x), tr(ay, y)))))
		}
		return &tcase{args: args, mode: mode}
	}
}

func natBinImpl(f func(out, x, y *numct.Nat, c int)) func(c *tcase) (string, string) {
	return func(c *tcase) (string, string) {
		x, y := mkNat(c.args[0], ai(c, 1)), mkNat(c.args[2], ai(c, 3))
		out, x, y := alias3(c.mode, x, y)
		w := &watch{}
		w.add("x", x)
		w.add("y", y)
		cp := 0
		if len(c.args) > 4 {
			cp = ai(c, 4)
		}
		f(out, x, y, cp)
		return okz(out.Big()), w.changed(out)
	}
}

func natBinOrac(f func(x, y *big.Int, ax, ay, c int) *big.Int) func(c *tcase) string {
	return func(c *tcase) string {
		ax, ay := ai(c, 1), ai(c, 3)
		cp := -1
		if len(c.args) > 4 {
			cp = ai(c, 4)
		}
		return okz(f(tr(ax, c.args[0]), tr(ay, c.args[2]), ax, ay, cp))
	}
}

func init() {
	register(&opDef{name: "nat.set", weight: 4,
		gen: func(r *vh.Rng, g *genCtx) *tcase {
			x := g.val(r)
			return &tcase{args: []*big.Int{x, zi(g.capFor(r, x))}}
		},
		impl: func(c *tcase) (string, string) {
			n := mkNat(c.args[0], ai(c, 1))
			cl := n.Clone()
			var s numct.Nat
			s.Set(n)
			if cl.Big().Cmp(n.Big()) != 0 || s.Big().Cmp(n.Big()) != 0 || n.Lift().Big().Cmp(n.Big()) != 0 {
				return "ok:clone-differs", ""
			}
			return okz(n.Big()), ""
		},
		orac: func(c *tcase) string { return okz(tr(ai(c, 1), c.args[0])) }})

	register(&opDef{name: "nat.add", weight: 14,
		gen:  genNatBin(func(x, y *big.Int) int { return new(big.Int).Add(x, y).BitLen() }, true),
		impl: natBinImpl(func(o, x, y *numct.Nat, c int) { o.AddCap(x, y, c) }),
		orac: natBinOrac(func(x, y *big.Int, ax, ay, c int) *big.Int {
			return tr(dflt(c, maxi(ax, ay)+1), new(big.Int).Add(x, y))
		})})
	register(&opDef{name: "nat.sub", weight: 14,
		gen:  genNatBin(func(x, y *big.Int) int { return maxi(x.BitLen(), y.BitLen()) }, true),
		impl: natBinImpl(func(o, x, y *numct.Nat, c int) { o.SubCap(x, y, c) }),
		orac: natBinOrac(func(x, y *big.Int, ax, ay, c int) *big.Int {
			return tr(dflt(c, maxi(ax, ay)), new(big.Int).Sub(x, y))
		})})
	register(&opDef{name: "nat.mul", weight: 14,
		gen:  genNatBin(func(x, y *big.Int) int { return new(big.Int).Mul(x, y).BitLen() }, true),
		impl: natBinImpl(func(o, x, y *numct.Nat, c int) { o.MulCap(x, y, c) }),
		orac: natBinOrac(func(x, y *big.Int, ax, ay, c int) *big.Int {
			return tr(dflt(c, ax+ay), new(big.Int).Mul(x, y))
		})})
	register(&opDef{name: "nat.and", weight: 5,
		gen:  genNatBin(func(x, y *big.Int) int { return maxi(x.BitLen(), y.BitLen()) }, true),
		impl: natBinImpl(func(o, x, y *numct.Nat, c int) { o.AndCap(x, y, c) }),
		orac: natBinOrac(func(x, y *big.Int, ax, ay, c int) *big.Int {
			return tr(dflt(c, maxi(ax, ay)), new(big.Int).And(x, y))
		})})
	register(&opDef{name: "nat.or", weight: 5,
		gen:  genNatBin(func(x, y *big.Int) int { return maxi(x.BitLen(), y.BitLen()) }, true),
		impl: natBinImpl(func(o, x, y *numct.Nat, c int) { o.OrCap(x, y, c) }),
		orac: natBinOrac(func(x, y *big.Int, ax, ay, c int) *big.Int {
			return tr(dflt(c, maxi(ax, ay)), new(big.Int).Or(x, y))
		})})
	register(&opDef{name: "nat.xor", weight: 5,
		gen:  genNatBin(func(x, y *big.Int) int { return maxi(x.BitLen(), y.BitLen()) }, true),
		impl: natBinImpl(func(o, x, y *numct.Nat, c int) { o.XorCap(x, y, c) }),
		orac: natBinOrac(func(x, y *big.Int, ax, ay, c int) *big.Int {
			return tr(dflt(c, maxi(ax, ay)), new(big.Int).Xor(x, y))
		})})

	// shifts: x ax s cap
	genShift := func(left bool) func(r *vh.Rng, g *genCtx) *tcase {
		return func(r *vh.Rng, g *genCtx) *tcase {
			x := g.val(r)
			ax := g.capFor(r, x)
			s := vh.Pick(r, []int{0, 1, 7, 8, 63, 64, 65, 128, r.Intn(200), r.Intn(ax + 70)})
			rl := tr(ax, x).BitLen() + s
			if !left {
				rl = maxi(0, tr(ax, x).BitLen()-s)
			}
			return &tcase{args: []*big.Int{x, zi(ax), zi(s), zi(g.opCap(r, rl))}, mode: r.Intn(2)}
		}
	}
	shiftImpl := func(f func(o, x *numct.Nat, s uint, c int)) func(c *tcase) (string, string) {
		return func(c *tcase) (string, string) {
			x := mkNat(c.args[0], ai(c, 1))
			out := new(numct.Nat)
			if c.mode == 1 {
				out = x
			}
			w := &watch{}
			w.add("x", x)
			f(out, x, uint(ai(c, 2)), ai(c, 3))
			return okz(out.Big()), w.changed(out)
		}
	}
	register(&opDef{name: "nat.lsh", weight: 8, gen: genShift(true),
		key: func(c *tcase) string {
			if cp := ai(c, 3); cp >= 0 && tr(ai(c, 1), c.args[0]).BitLen()+ai(c, 2) > cp {
				return "lsh-cap-not-truncated"
			}
			return "arith-nat.lsh"
		},
		impl: shiftImpl(func(o, x *numct.Nat, s uint, c int) { o.LshCap(x, s, c) }),
		orac: func(c *tcase) string {
			ax, s := ai(c, 1), ai(c, 2)
			return okz(tr(dflt(ai(c, 3), ax+s), new(big.Int).Lsh(tr(ax, c.args[0]), uint(s))))
		}})
	register(&opDef{name: "nat.rsh", weight: 8, gen: genShift(false),
		impl: shiftImpl(func(o, x *numct.Nat, s uint, c int) { o.RshCap(x, s, c) }),
		orac: func(c *tcase) string {
			ax, s := ai(c, 1), ai(c, 2)
			return okz(tr(dflt(ai(c, 3), maxi(0, ax-s)), new(big.Int).Rsh(tr(ax, c.args[0]), uint(s))))
		}})

	// x ax cap
	genUnCap := func(r *vh.Rng, g *genCtx) *tcase {
		x := g.val(r)
		ax := g.capFor(r, x)
		return &tcase{args: []*big.Int{x, zi(ax), zi(g.opCap(r, tr(ax, x).BitLen()))}, mode: r.Intn(2)}
	}
	register(&opDef{name: "nat.not", weight: 4, gen: genUnCap,
		impl: func(c *tcase) (string, string) {
			x := mkNat(c.args[0], ai(c, 1))
			out := new(numct.Nat)
			if c.mode == 1 {
				out = x
			}
			w := &watch{}
			w.add("x", x)
			out.NotCap(x, ai(c, 2))
			return okz(out.Big()), w.changed(out)
		},
		orac: func(c *tcase) string {
			ax := ai(c, 1)
			cp := dflt(ai(c, 2), ax)
			return okz(tr(cp, new(big.Int).Not(tr(ax, c.args[0]))))
		}})
	register(&opDef{name: "nat.resize", weight: 5, gen: genUnCap,
		impl: func(c *tcase) (string, string) {
			x := mkNat(c.args[0], ai(c, 1))
			x.Resize(ai(c, 2))
			return okz(x.Big()), ""
		},
		orac: func(c *tcase) string {
			ax := ai(c, 1)
			return okz(tr(dflt(ai(c, 2), ax), tr(ax, c.args[0])))
		}})

	// division: modes 0 EuclideanDiv, 1 EuclideanDivVarTime, 2 Div, 3 DivVarTime, 4 EuclideanDiv with q = numerator, 5 with r = denominator
	register(&opDef{name: "nat.div", weight: 10,
		gen: func(r *vh.Rng, g *genCtx) *tcase {
			x, y := g.val(r), g.val(r)
			switch r.Intn(8) {
			case 0:
				y = new(big.Int).Set(x)
			case 1:
				x = new(big.Int).Mul(y, g.valBits(r, r.Intn(130)))
			case 2:
				y = g.valBits(r, r.Intn(66))
			}
			ax, ay := g.capFor(r, x), g.capFor(r, y)
			if g.maxBits > 600 && ax > 600 && ay > 600 && r.Intn(4) != 0 { // the bit-serial division is slow
				x, y = g.valBits(r, r.Intn(600)), g.valBits(r, r.Intn(600))
				ax, ay = g.capFor(r, x), g.capFor(r, y)
			}
			if r.Intn(3) == 0 { // boundary family: quotient 2^j, 2^j +- 1, tight announcements
				x, y = g.divBoundary(r, false, 600)
				ax, ay = tightCap(r, x), tightCap(r, y)
			}
			return &tcase{args: []*big.Int{x, zi(ax), y, zi(ay)}, mode: r.Intn(6)}
		},
		impl: func(c *tcase) (string, string) {
			x, y := mkNat(c.args[0], ai(c, 1)), mkNat(c.args[2], ai(c, 3))
			q, rem := new(numct.Nat), new(numct.Nat)
			w := &watch{}
			w.add("x", x)
			w.add("y", y)
			var ok ct.Bool
			switch c.mode {
			case 0:
				ok = q.EuclideanDiv(rem, x, y)
			case 1:
				ok = q.EuclideanDivVarTime(rem, x, y)
			case 2:
				ok = q.Div(rem, x, y)
			case 3:
				ok = q.DivVarTime(rem, x, y)
			case 4:
				q = x
				ok = q.EuclideanDiv(rem, x, y)
			default:
				rem = y
				ok = q.EuclideanDivVarTime(rem, x, y)
			}
			if ok != ct.True {
				return "refuse", w.changed(q, rem)
			}
			return okz(q.Big(), rem.Big()), w.changed(q, rem)
		},
		orac: func(c *tcase) string {
			x, y := tr(ai(c, 1), c.args[0]), tr(ai(c, 3), c.args[2])
			if y.Sign() == 0 {
				return "refuse"
			}
			q, m := new(big.Int).DivMod(x, y, new(big.Int))
			return okz(q, m)
		},
		key: func(c *tcase) string {
			if (c.mode == 1 || c.mode == 3 || c.mode == 5) && ai(c, 1)-tr(ai(c, 3), c.args[2]).BitLen()+2 < 0 {
				return "divvartime-small-numerator-panics"
			}
			return "arith-nat.div"
		},
		trivial: func(c *tcase, impl string) bool { return impl == "refuse" }})

	genUn := func(r *vh.Rng, g *genCtx) *tcase {
		x := g.val(r)
		return &tcase{args: []*big.Int{x, zi(g.capFor(r, x))}, mode: r.Intn(2)}
	}
	register(&opDef{name: "nat.sqrt", weight: 8,
		gen: func(r *vh.Rng, g *genCtx) *tcase {
			x := g.valBits(r, g.bits(r)/2)
			x.Mul(x, x)
			switch r.Intn(4) {
			case 0:
				x.Add(x, one)
			case 1:
				if x.Sign() > 0 {
					x.Sub(x, one)
				}
			}
			if r.Intn(4) == 0 { // a square whose top bit is the only bit of the last two-bit group (odd length)
				k := 33 + r.Intn(g.maxBits/2-33)
				rt := new(big.Int).Lsh(one, uint(k))
				rt.Add(rt, r.BigBits(k/2))
				x = new(big.Int).Mul(rt, rt)
				return &tcase{args: []*big.Int{x, zi(x.BitLen())}, mode: r.Intn(2)}
			}
			return &tcase{args: []*big.Int{x, zi(g.capFor(r, x))}, mode: r.Intn(2)}
		},
		impl: func(c *tcase) (string, string) {
			x := mkNat(c.args[0], ai(c, 1))
			out := new(numct.Nat)
			if c.mode == 1 {
				out = x
			}
			if out.Sqrt(x) != ct.True {
				return "refuse", ""
			}
			return okz(out.Big()), ""
		},
		orac: func(c *tcase) string {
			x := tr(ai(c, 1), c.args[0])
			s := new(big.Int).Sqrt(x)
			if new(big.Int).Mul(s, s).Cmp(x) != 0 {
				return "refuse"
			}
			return okz(s)
		}})

	genPair := func(r *vh.Rng, g *genCtx) *tcase {
		x, y := g.val(r), g.val(r)
		switch r.Intn(7) {
		case 0:
			y = new(big.Int).Set(x)
		case 1: // common factor
			f := g.valBits(r, 1+r.Intn(200))
			x, y = new(big.Int).Mul(x, f), new(big.Int).Mul(y, f)
		case 2:
			y = new(big.Int).Add(x, one)
		case 3: // long subtract-and-halve chains for the binary GCD: 2^b-1 against 2^b-3 / 1 / 3
			b := 2 + g.bits(r)
			x = new(big.Int).Sub(new(big.Int).Lsh(one, uint(b)), one)
			y = vh.Pick(r, []*big.Int{new(big.Int).Sub(x, two), big.NewInt(1), big.NewInt(3), new(big.Int).Rsh(x, 1)})
		}
		mode := r.Intn(6)
		ax, ay := g.capFor(r, x), g.capFor(r, y)
		if r.Intn(3) == 0 { // exact announced lengths: the iteration bound of the binary GCD is tight
			ax, ay = x.BitLen(), y.BitLen()
		}
		if mode == 3 || mode == 4 {
			y, ay = x, ax
		}
		return &tcase{args: []*big.Int{x, zi(ax), y, zi(ay)}, mode: mode}
	}
	register(&opDef{name: "nat.gcd", weight: 8, gen: genPair,
		impl: natBinImpl(func(o, x, y *numct.Nat, _ int) { o.GCD(x, y) }),
		orac: natBinOrac(func(x, y *big.Int, _, _, _ int) *big.Int { return new(big.Int).GCD(nil, nil, x, y) })})
	register(&opDef{name: "nat.lcm", weight: 5, gen: genPair,
		impl: natBinImpl(func(o, x, y *numct.Nat, _ int) { numct.LCM(o, x, y) }),
		orac: natBinOrac(func(x, y *big.Int, _, _, _ int) *big.Int {
			if x.Sign() == 0 || y.Sign() == 0 {
				return new(big.Int)
			}
			g := new(big.Int).GCD(nil, nil, x, y)
			l := new(big.Int).Mul(x, y)
			return l.Div(l, g)
		})})
	register(&opDef{name: "nat.coprime", weight: 6, gen: genPair,
		impl: func(c *tcase) (string, string) {
			x, y := mkNat(c.args[0], ai(c, 1)), mkNat(c.args[2], ai(c, 3))
			if c.mode == 3 || c.mode == 4 {
				y = x
			}
			w := &watch{}
			w.add("x", x)
			w.add("y", y)
			return okz(zb(x.Coprime(y) == ct.True)), w.changed()
		},
		orac: func(c *tcase) string {
			g := new(big.Int).GCD(nil, nil, tr(ai(c, 1), c.args[0]), tr(ai(c, 3), c.args[2]))
			return okz(zb(g.Cmp(one) == 0))
		}})
	register(&opDef{name: "nat.cmp", weight: 6, gen: genPair,
		impl: func(c *tcase) (string, string) {
			x, y := mkNat(c.args[0], ai(c, 1)), mkNat(c.args[2], ai(c, 3))
			if c.mode == 3 || c.mode == 4 {
				y = x
			}
			w := &watch{}
			w.add("x", x)
			w.add("y", y)
			lt, eq, gt := x.Compare(y)
			if (x.Equal(y) == ct.True) != (eq == ct.True) {
				return "ok:equal-differs-from-compare", ""
			}
			return okz(zb(lt == ct.True), zb(eq == ct.True), zb(gt == ct.True)), w.changed()
		},
		orac: func(c *tcase) string {
			k := tr(ai(c, 1), c.args[0]).Cmp(tr(ai(c, 3), c.args[2]))
			return okz(zb(k < 0), zb(k == 0), zb(k > 0))
		}})

	register(&opDef{name: "nat.bits", weight: 6,
		gen: func(r *vh.Rng, g *genCtx) *tcase {
			x := g.val(r)
			ax := g.capFor(r, x)
			i := r.Intn(ax/8 + 3)
			if r.Intn(4) == 0 {
				i = r.Intn(ax + 70)
			}
			return &tcase{args: []*big.Int{x, zi(ax), zi(i)}}
		},
		impl: func(c *tcase) (string, string) {
			x := mkNat(c.args[0], ai(c, 1))
			i := uint(ai(c, 2))
			u64 := new(big.Int).SetUint64(x.Uint64())
			if ai(c, 1) > 64 { // Uint64 is documented as undefined above 64 announced bits: not compared
				u64 = new(big.Int).And(x.Big(), new(big.Int).SetUint64(^uint64(0)))
			}
			return okz(zi(x.TrueLen()), zi(int(x.Bit(i))), zi(int(x.Byte(i))), zb(x.IsOdd() == ct.True && x.IsEven() == ct.False),
				zb(x.IsZero() == ct.True && x.IsNonZero() == ct.False), zb(x.IsOne() == ct.True), u64), ""
		},
		orac: func(c *tcase) string {
			x := tr(ai(c, 1), c.args[0])
			i := ai(c, 2)
			by := new(big.Int).Rsh(x, uint(8*i))
			by.And(by, big.NewInt(255))
			return okz(zi(x.BitLen()), zi(int(x.Bit(i))), by, zb(x.Bit(0) == 1), zb(x.Sign() == 0), zb(x.Cmp(one) == 0),
				new(big.Int).And(x, new(big.Int).SetUint64(^uint64(0))))
		}})
	register(&opDef{name: "nat.setbit", weight: 4,
		gen: func(r *vh.Rng, g *genCtx) *tcase {
			x := g.val(r)
			ax := g.capFor(r, x)
			return &tcase{args: []*big.Int{x, zi(ax), zi(r.Intn(ax + 70)), zi(r.Intn(2))}}
		},
		impl: func(c *tcase) (string, string) {
			x := mkNat(c.args[0], ai(c, 1))
			x.SetBit(ai(c, 2), uint(ai(c, 3)))
			return okz(x.Big()), ""
		},
		orac: func(c *tcase) string {
			x := tr(ai(c, 1), c.args[0])
			return okz(x.SetBit(x, ai(c, 2), uint(ai(c, 3))))
		}})
	register(&opDef{name: "nat.bytes", weight: 5, gen: genUn,
		impl: func(c *tcase) (string, string) {
			x := mkNat(c.args[0], ai(c, 1))
			b := x.Bytes()
			if string(b) != string(x.BytesBE()) {
				return "ok:bytes-differs-from-bytesbe", ""
			}
			return okBytes(b), ""
		},
		orac: func(c *tcase) string {
			ax := ai(c, 1)
			return okBytes(tr(ax, c.args[0]).FillBytes(make([]byte, (ax+7)/8)))
		}})
	register(&opDef{name: "nat.fillbytes", weight: 5,
		gen: func(r *vh.Rng, g *genCtx) *tcase {
			x := g.val(r)
			ax := g.capFor(r, x)
			k := (ax + 7) / 8
			switch r.Intn(4) {
			case 0:
				k += 1 + r.Intn(9)
			case 1:
				k = r.Intn(k + 1)
			}
			return &tcase{args: []*big.Int{x, zi(ax), zi(k)}}
		},
		impl: func(c *tcase) (string, string) {
			x := mkNat(c.args[0], ai(c, 1))
			buf := make([]byte, ai(c, 2))
			for i := range buf {
				buf[i] = 0xa5
			}
			return okBytes(x.FillBytes(buf)), ""
		},
		orac: func(c *tcase) string {
			k := ai(c, 2)
			return okBytes(tr(8*k, tr(ai(c, 1), c.args[0])).FillBytes(make([]byte, k)))
		}})
	register(&opDef{name: "nat.setbytes", weight: 5,
		gen: func(r *vh.Rng, g *genCtx) *tcase {
			n := vh.Pick(r, []int{0, 1, 2, 7, 8, 9, 16, 17, r.Intn(g.maxBits/8 + 1)})
			b := r.Bytes(n)
			if n > 0 && r.Intn(3) == 0 {
				for i := 0; i < 1+r.Intn(n); i++ {
					b[i] = 0
				}
			}
			args := make([]*big.Int, n)
			for i := range b {
				args[i] = zi(int(b[i]))
			}
			return &tcase{args: args, mode: r.Intn(2)}
		},
		impl: func(c *tcase) (string, string) {
			b := make([]byte, len(c.args))
			for i := range b {
				b[i] = byte(ai(c, i))
			}
			var n *numct.Nat
			if c.mode == 0 {
				n = numct.NewNatFromBytes(b)
			} else {
				n = numct.NewNat(77)
				if n.SetBytes(b) != ct.True {
					return "refuse", ""
				}
			}
			return okz(n.Big(), zi(n.AnnouncedLen())), ""
		},
		orac: func(c *tcase) string {
			b := make([]byte, len(c.args))
			for i := range b {
				b[i] = byte(ai(c, i))
			}
			return okz(new(big.Int).SetBytes(b), zi(8*len(b)))
		}})
	register(&opDef{name: "nat.incdec", weight: 4,
		gen: func(r *vh.Rng, g *genCtx) *tcase {
			c := genUn(r, g)
			if tr(ai(c, 1), c.args[0]).Sign() == 0 { // Decrement of zero wraps; not claimed
				c.args[0], c.args[1] = big.NewInt(1), zi(1+r.Intn(70))
			}
			return c
		},
		impl: func(c *tcase) (string, string) {
			x, y := mkNat(c.args[0], ai(c, 1)), mkNat(c.args[0], ai(c, 1))
			x.Increment()
			y.Decrement()
			return okz(x.Big(), y.Big()), ""
		},
		orac: func(c *tcase) string {
			ax := ai(c, 1)
			x := tr(ax, c.args[0])
			return okz(tr(maxi(ax, 1)+1, new(big.Int).Add(x, one)), tr(maxi(ax, 1), new(big.Int).Sub(x, one)))
		}})
	register(&opDef{name: "nat.select", weight: 4,
		gen: func(r *vh.Rng, g *genCtx) *tcase {
			x, y := g.val(r), g.val(r)
			return &tcase{args: []*big.Int{zi(r.Intn(2)), x, zi(g.capFor(r, x)), y, zi(g.capFor(r, y))}, mode: r.Intn(3)}
		},
		impl: func(c *tcase) (string, string) {
			x, y := mkNat(c.args[1], ai(c, 2)), mkNat(c.args[3], ai(c, 4))
			ch := ct.Choice(ai(c, 0))
			w := &watch{}
			w.add("x", x)
			w.add("y", y)
			out := new(numct.Nat)
			switch c.mode {
			case 0:
				out.Select(ch, x, y)
			case 1:
				out = x
				out.CondAssign(ch, y)
			default:
				out = x
				out.Select(ch, x, y)
			}
			return okz(out.Big()), w.changed(out)
		},
		orac: func(c *tcase) string {
			if ai(c, 0) == 1 {
				return okz(tr(ai(c, 4), c.args[3]))
			}
			return okz(tr(ai(c, 2), c.args[1]))
		}})
	register(&opDef{name: "nat.isprime", weight: 4,
		gen: func(r *vh.Rng, g *genCtx) *tcase {
			var x *big.Int
			switch r.Intn(5) {
			case 0:
				x = big.NewInt(int64(r.Intn(300)))
			case 1, 2:
				x = new(big.Int).Set(g.prime(r, g.maxBits))
			case 3:
				x = new(big.Int).Mul(g.prime(r, 300), g.prime(r, 300))
			default:
				x = g.valBits(r, r.Intn(300))
			}
			return &tcase{args: []*big.Int{x, zi(g.capOK(r, x))}}
		},
		impl: func(c *tcase) (string, string) {
			return okz(zb(mkNat(c.args[0], ai(c, 1)).IsProbablyPrime() == ct.True)), ""
		},
		orac: func(c *tcase) string { return okz(zb(tr(ai(c, 1), c.args[0]).ProbablyPrime(32))) }})
}
