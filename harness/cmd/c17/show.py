import json,sys
r=json.load(open(sys.argv[1]))
print(r['evaluations'], r['distinct_nontrivial'], r['wall_s'])
for n in r['notes'] or []: print('NOTE', n)
seen=set()
for m in r['mismatches'] or []:
    k=(m['key'],m['kind'])
    if k in seen: continue
    seen.add(k)
    print(m['kind'], m['key'], 'PF' if m['propfail'] else '', m['case'][:300], '\n   ', m['detail'][:500])
