package main

import (
	"math/big"

	"github.com/bronlabs/bron-crypto/pkg/base/ct"
	"github.com/bronlabs/bron-crypto/pkg/base/nt/numct"

	"verif/harness/internal/vh"
)

func mkInt(v *big.Int, capBits int) *numct.Int { return numct.NewIntFromBig(v, capBits) }

// intIn: value of an Int operand (v, a): sign kept, magnitude truncated.
func intIn(capBits int, v *big.Int) *big.Int {
	m := tr(capBits, new(big.Int).Abs(v))
	if v.Sign() < 0 {
		m.Neg(m)
	}
	return m
}

func ialias3(mode int, x, y *numct.Int) (out, xx, yy *numct.Int) {
	switch mode {
	case 1:
		return x, x, y
	case 2:
		return y, x, y
	case 3:
		return new(numct.Int), x, x
	case 4:
		return x, x, x
	case 5: // a receiver that held another value before
		return numct.NewIntFromBig(dirtyValue, dirtyValue.BitLen()), x, y
	}
	return new(numct.Int), x, y
}

// dirtyValue is what a reused receiver holds before the operation (mode 5).
var dirtyValue, _ = new(big.Int).SetString("-5a5a5a5a5a5a5a5a5a5a5a5a5a5a5a5a5a5a5a5a5a5a5a5a5a5a5a5a5a5a5a5a5a5a5a5a5a5a5a5a5a5a5a5a5a5a5a5a5a5a", 16)

// noNegZero: an operand whose magnitude truncates to zero is given as zero (a "negative
// zero" cannot be built through the constructors otherwise; it is probed by int.mulsign).
func noNegZero(capBits int, v *big.Int) *big.Int {
	if intIn(capBits, v).Sign() == 0 {
		return new(big.Int)
	}
	return v
}

func sgnTrunc(l int, x *big.Int) *big.Int { return intIn(l, x) }

func wrapSigned(l int, s *big.Int) *big.Int {
	m := tr(l, s)
	if m.Cmp(new(big.Int).Lsh(one, uint(l-1))) >= 0 {
		m.Sub(m, new(big.Int).Lsh(one, uint(l)))
	}
	return m
}

// intAddCap: saferith.Int.Add on limbCount(cap+1) 64-bit limbs.
func intAddCap(x, y *big.Int, ax, ay, c int) *big.Int {
	cp := dflt(c, maxi(ax, ay)+1)
	l := 64 * ((cp + 1 + 63) / 64)
	s := wrapSigned(l, new(big.Int).Add(sgnTrunc(l, x), sgnTrunc(l, y)))
	return intIn(cp, s)
}

func genIntBin(withCap bool, rl func(x, y *big.Int) int) func(r *vh.Rng, g *genCtx) *tcase {
	return func(r *vh.Rng, g *genCtx) *tcase {
		x, y := g.sval(r), g.sval(r)
		switch r.Intn(8) {
		case 0:
			y = new(big.Int).Set(x)
		case 1:
			y = new(big.Int).Neg(x)
		}
		ax, ay := g.capFor(r, x), g.capFor(r, y)
		mode := 0
		if r.Intn(2) == 0 {
			mode = 1 + r.Intn(5)
		}
		if mode == 3 || mode == 4 {
			y, ay = x, ax
		}
		x, y = noNegZero(ax, x), noNegZero(ay, y)
		args := []*big.Int{x, zi(ax), y, zi(ay)}
		if withCap {
			args = append(args, zi(g.opCap(r, rl(intIn(ax, x), intIn(ay, y)))))
		}
		return &tcase{args: args, mode: mode}
	}
}

func intBinImpl(f func(out, x, y *numct.Int, c int)) func(c *tcase) (string, string) {
	return func(c *tcase) (string, string) {
		x, y := mkInt(c.args[0], ai(c, 1)), mkInt(c.args[2], ai(c, 3))
		out, x, y := ialias3(c.mode, x, y)
		px, py := x.Big().String(), y.Big().String()
		cp := 0
		if len(c.args) > 4 {
			cp = ai(c, 4)
		}
		f(out, x, y, cp)
		mut := ""
		if out != x && x.Big().String() != px {
			mut = "x was " + px + ", is " + x.Big().String()
		}
		if out != y && y.Big().String() != py {
			mut = "y was " + py + ", is " + y.Big().String()
		}
		return okz(out.Big()), mut
	}
}

func init() {
	genIUn := func(r *vh.Rng, g *genCtx) *tcase {
		x := g.sval(r)
		ax := g.capFor(r, x)
		return &tcase{args: []*big.Int{noNegZero(ax, x), zi(ax)}, mode: r.Intn(2)}
	}
	register(&opDef{name: "int.set", weight: 4, gen: genIUn,
		impl: func(c *tcase) (string, string) {
			n := mkInt(c.args[0], ai(c, 1))
			var s numct.Int
			s.Set(n)
			if n.Clone().Big().Cmp(n.Big()) != 0 || s.Big().Cmp(n.Big()) != 0 {
				return "ok:clone-differs", ""
			}
			return okz(n.Big()), ""
		},
		orac: func(c *tcase) string { return okz(intIn(ai(c, 1), c.args[0])) }})
	reusedKey := func(name string) func(c *tcase) string {
		return func(c *tcase) string {
			if c.mode == 2 || c.mode == 5 {
				return "int-add-reused-receiver"
			}
			return "arith-" + name
		}
	}
	register(&opDef{name: "int.add", weight: 12, key: reusedKey("int.add"),
		gen:  genIntBin(true, func(x, y *big.Int) int { return new(big.Int).Add(x, y).BitLen() }),
		impl: intBinImpl(func(o, x, y *numct.Int, c int) { o.AddCap(x, y, c) }),
		orac: func(c *tcase) string {
			ax, ay := ai(c, 1), ai(c, 3)
			return okz(intAddCap(intIn(ax, c.args[0]), intIn(ay, c.args[2]), ax, ay, ai(c, 4)))
		}})
	register(&opDef{name: "int.sub", weight: 12, key: reusedKey("int.sub"),
		gen:  genIntBin(true, func(x, y *big.Int) int { return new(big.Int).Sub(x, y).BitLen() }),
		impl: intBinImpl(func(o, x, y *numct.Int, c int) { o.SubCap(x, y, c) }),
		orac: func(c *tcase) string {
			ax, ay := ai(c, 1), ai(c, 3)
			return okz(intAddCap(intIn(ax, c.args[0]), new(big.Int).Neg(intIn(ay, c.args[2])), ax, ay, ai(c, 4)))
		}})
	register(&opDef{name: "int.mul", weight: 12,
		gen:  genIntBin(true, func(x, y *big.Int) int { return new(big.Int).Mul(x, y).BitLen() }),
		impl: intBinImpl(func(o, x, y *numct.Int, c int) { o.MulCap(x, y, c) }),
		orac: func(c *tcase) string {
			ax, ay := ai(c, 1), ai(c, 3)
			p := new(big.Int).Mul(intIn(ax, c.args[0]), intIn(ay, c.args[2]))
			return okz(intIn(dflt(ai(c, 4), ax+ay), p))
		}})
	// sign and comparison of a product (a zero product of a negative factor must not be "negative")
	register(&opDef{name: "int.mulsign", weight: 4,
		gen: func(r *vh.Rng, g *genCtx) *tcase {
			x, y := g.sval(r), g.sval(r)
			if r.Intn(2) == 0 {
				y = new(big.Int)
			}
			if r.Intn(4) == 0 {
				x, y = y, x
			}
			ax, ay := g.capOK(r, x), g.capOK(r, y)
			return &tcase{args: []*big.Int{x, zi(ax), y, zi(ay)}}
		},
		key: func(c *tcase) string {
			if c.args[0].Sign() == 0 || c.args[2].Sign() == 0 {
				return "int-negative-zero"
			}
			return "arith-int.mulsign"
		},
		impl: func(c *tcase) (string, string) {
			x, y := mkInt(c.args[0], ai(c, 1)), mkInt(c.args[2], ai(c, 3))
			var p numct.Int
			p.Mul(x, y)
			lt, eq, gt := p.Compare(numct.IntZero())
			return okz(zb(p.IsNegative() == ct.True), zb(lt == ct.True), zb(eq == ct.True), zb(gt == ct.True)), ""
		},
		orac: func(c *tcase) string {
			k := new(big.Int).Mul(c.args[0], c.args[2]).Sign()
			return okz(zb(k < 0), zb(k < 0), zb(k == 0), zb(k > 0))
		}})
	register(&opDef{name: "int.neg", weight: 4, gen: genIUn,
		impl: func(c *tcase) (string, string) {
			x := mkInt(c.args[0], ai(c, 1))
			n, a := new(numct.Int), new(numct.Int)
			if c.mode == 1 {
				n = x.Clone()
				n.Neg(n)
				a = x.Clone()
				a.Abs(a)
			} else {
				n.Neg(x)
				a.Abs(x)
			}
			var an numct.Nat
			an.Abs(x)
			if an.Big().Cmp(a.Big()) != 0 {
				return "ok:nat-abs-differs", ""
			}
			return okz(n.Big(), a.Big()), ""
		},
		orac: func(c *tcase) string {
			x := intIn(ai(c, 1), c.args[0])
			return okz(new(big.Int).Neg(x), new(big.Int).Abs(x))
		}})

	genIDiv := func(r *vh.Rng, g *genCtx) *tcase {
		x, y := g.sval(r), g.sval(r)
		switch r.Intn(8) {
		case 0:
			y = new(big.Int).Set(x)
		case 1:
			x = new(big.Int).Mul(y, g.valBits(r, r.Intn(130)))
		case 2:
			y = g.valBits(r, r.Intn(66))
			if r.Intn(2) == 0 {
				y.Neg(y)
			}
		}
		ax, ay := g.capFor(r, x), g.capFor(r, y)
		if ax > 600 && ay > 600 && r.Intn(4) != 0 {
			x, y = g.valBits(r, r.Intn(600)), g.valBits(r, 1+r.Intn(600))
			if r.Intn(2) == 0 {
				x.Neg(x)
			}
			if r.Intn(2) == 0 {
				y.Neg(y)
			}
			ax, ay = g.capFor(r, x), g.capFor(r, y)
		}
		if r.Intn(3) == 0 { // boundary family: |quotient| 2^j, 2^j +- 1, both signs, tight announcements
			x, y = g.divBoundary(r, true, 600)
			ax, ay = tightCap(r, x), tightCap(r, y)
		}
		return &tcase{args: []*big.Int{noNegZero(ax, x), zi(ax), noNegZero(ay, y), zi(ay)}, mode: r.Intn(2)}
	}
	divKey := func(name string) func(c *tcase) string {
		return func(c *tcase) string {
			if c.mode == 1 && ai(c, 1)-intIn(ai(c, 3), c.args[2]).BitLen()+2 < 0 {
				return "divvartime-small-numerator-panics"
			}
			return "arith-" + name
		}
	}
	register(&opDef{name: "int.eucdiv", weight: 10, gen: genIDiv, key: divKey("int.eucdiv"),
		impl: func(c *tcase) (string, string) {
			x, y := mkInt(c.args[0], ai(c, 1)), mkInt(c.args[2], ai(c, 3))
			q, rem := new(numct.Int), new(numct.Nat)
			var ok ct.Bool
			if c.mode == 0 {
				ok = q.EuclideanDiv(rem, x, y)
			} else {
				ok = q.EuclideanDivVarTime(rem, x, y)
			}
			if ok != ct.True {
				return "refuse", ""
			}
			return okz(q.Big(), rem.Big()), ""
		},
		orac: func(c *tcase) string {
			x, y := intIn(ai(c, 1), c.args[0]), intIn(ai(c, 3), c.args[2])
			if y.Sign() == 0 {
				return "refuse"
			}
			q, m := new(big.Int).DivMod(x, y, new(big.Int)) // Euclidean
			return okz(q, m)
		},
		trivial: func(c *tcase, impl string) bool { return impl == "refuse" }})
	register(&opDef{name: "int.truncdiv", weight: 10, gen: genIDiv, key: divKey("int.truncdiv"),
		impl: func(c *tcase) (string, string) {
			x, y := mkInt(c.args[0], ai(c, 1)), mkInt(c.args[2], ai(c, 3))
			q, rem := new(numct.Int), new(numct.Int)
			var ok ct.Bool
			if c.mode == 0 {
				ok = q.Div(rem, x, y)
			} else {
				ok = q.DivVarTime(rem, x, y)
			}
			if ok != ct.True {
				return "refuse", ""
			}
			return okz(q.Big(), rem.Big()), ""
		},
		orac: func(c *tcase) string {
			x, y := intIn(ai(c, 1), c.args[0]), intIn(ai(c, 3), c.args[2])
			if y.Sign() == 0 {
				return "refuse"
			}
			q, m := new(big.Int).QuoRem(x, y, new(big.Int)) // truncated
			return okz(q, m)
		},
		trivial: func(c *tcase, impl string) bool { return impl == "refuse" }})

	genIPair := func(r *vh.Rng, g *genCtx) *tcase {
		x, y := g.sval(r), g.sval(r)
		switch r.Intn(6) {
		case 0:
			y = new(big.Int).Set(x)
		case 1:
			f := g.valBits(r, 1+r.Intn(200))
			x, y = new(big.Int).Mul(x, f), new(big.Int).Mul(y, f)
		case 2:
			y = new(big.Int).Neg(x)
		}
		ax, ay := g.capFor(r, x), g.capFor(r, y)
		return &tcase{args: []*big.Int{noNegZero(ax, x), zi(ax), noNegZero(ay, y), zi(ay)}}
	}
	register(&opDef{name: "int.gcd", weight: 5, gen: genIPair,
		impl: intBinImpl(func(o, x, y *numct.Int, _ int) { o.GCD(x, y) }),
		orac: func(c *tcase) string {
			x, y := intIn(ai(c, 1), c.args[0]), intIn(ai(c, 3), c.args[2])
			return okz(new(big.Int).GCD(nil, nil, x.Abs(x), y.Abs(y)))
		}})
	register(&opDef{name: "int.coprime", weight: 4, gen: genIPair,
		impl: func(c *tcase) (string, string) {
			x, y := mkInt(c.args[0], ai(c, 1)), mkInt(c.args[2], ai(c, 3))
			return okz(zb(x.Coprime(y) == ct.True)), ""
		},
		orac: func(c *tcase) string {
			x, y := intIn(ai(c, 1), c.args[0]), intIn(ai(c, 3), c.args[2])
			return okz(zb(new(big.Int).GCD(nil, nil, x.Abs(x), y.Abs(y)).Cmp(one) == 0))
		}})
	register(&opDef{name: "int.cmp", weight: 6, gen: genIPair,
		impl: func(c *tcase) (string, string) {
			x, y := mkInt(c.args[0], ai(c, 1)), mkInt(c.args[2], ai(c, 3))
			lt, eq, gt := x.Compare(y)
			if (x.Equal(y) == ct.True) != (eq == ct.True) {
				return "ok:equal-differs-from-compare", ""
			}
			return okz(zb(lt == ct.True), zb(eq == ct.True), zb(gt == ct.True)), ""
		},
		orac: func(c *tcase) string {
			k := intIn(ai(c, 1), c.args[0]).Cmp(intIn(ai(c, 3), c.args[2]))
			return okz(zb(k < 0), zb(k == 0), zb(k > 0))
		}})
	register(&opDef{name: "int.sqrt", weight: 5,
		gen: func(r *vh.Rng, g *genCtx) *tcase {
			x := g.valBits(r, g.bits(r)/2)
			x.Mul(x, x)
			switch r.Intn(5) {
			case 0:
				x.Add(x, one)
			case 1:
				x.Neg(x)
			}
			ax := g.capFor(r, x)
			return &tcase{args: []*big.Int{noNegZero(ax, x), zi(ax)}}
		},
		impl: func(c *tcase) (string, string) {
			x := mkInt(c.args[0], ai(c, 1))
			out := new(numct.Int)
			if out.Sqrt(x) != ct.True {
				return "refuse", ""
			}
			return okz(out.Big()), ""
		},
		orac: func(c *tcase) string {
			x := intIn(ai(c, 1), c.args[0])
			if x.Sign() < 0 {
				return "refuse"
			}
			s := new(big.Int).Sqrt(x)
			if new(big.Int).Mul(s, s).Cmp(x) != 0 {
				return "refuse"
			}
			return okz(s)
		}})
	register(&opDef{name: "int.inv", weight: 3,
		gen: func(r *vh.Rng, g *genCtx) *tcase {
			x := big.NewInt(int64(r.Intn(5) - 2))
			if r.Intn(3) == 0 {
				x = g.sval(r)
			}
			return &tcase{args: []*big.Int{x, zi(g.capFor(r, x))}}
		},
		impl: func(c *tcase) (string, string) {
			x := mkInt(c.args[0], ai(c, 1))
			out := new(numct.Int)
			if out.Inv(x) != ct.True {
				return "refuse", ""
			}
			return okz(out.Big()), ""
		},
		orac: func(c *tcase) string {
			x := intIn(ai(c, 1), c.args[0])
			if new(big.Int).Abs(x).Cmp(one) != 0 {
				return "refuse"
			}
			return okz(x)
		}})

	genIShift := func(left bool) func(r *vh.Rng, g *genCtx) *tcase {
		return func(r *vh.Rng, g *genCtx) *tcase {
			x := g.sval(r)
			ax := g.capFor(r, x)
			s := vh.Pick(r, []int{0, 1, 7, 8, 63, 64, 65, 128, r.Intn(200), r.Intn(ax + 70)})
			rl := intIn(ax, x).BitLen() + s
			if !left {
				rl = maxi(0, intIn(ax, x).BitLen()-s)
			}
			return &tcase{args: []*big.Int{noNegZero(ax, x), zi(ax), zi(s), zi(g.opCap(r, rl))}, mode: r.Intn(2)}
		}
	}
	ishiftImpl := func(f func(o, x *numct.Int, s uint, c int)) func(c *tcase) (string, string) {
		return func(c *tcase) (string, string) {
			x := mkInt(c.args[0], ai(c, 1))
			out := new(numct.Int)
			if c.mode == 1 {
				out = x
			}
			f(out, x, uint(ai(c, 2)), ai(c, 3))
			return okz(out.Big()), ""
		}
	}
	register(&opDef{name: "int.lsh", weight: 5, gen: genIShift(true),
		key: func(c *tcase) string {
			if cp := ai(c, 3); cp >= 0 && intIn(ai(c, 1), c.args[0]).BitLen()+ai(c, 2) > cp {
				return "lsh-cap-not-truncated"
			}
			return "arith-int.lsh"
		},
		impl: ishiftImpl(func(o, x *numct.Int, s uint, c int) { o.LshCap(x, s, c) }),
		orac: func(c *tcase) string {
			ax, s := ai(c, 1), ai(c, 2)
			x := intIn(ax, c.args[0])
			return okz(intIn(dflt(ai(c, 3), ax+s), new(big.Int).Lsh(x, uint(s))))
		}})
	register(&opDef{name: "int.rsh", weight: 5, gen: genIShift(false),
		impl: ishiftImpl(func(o, x *numct.Int, s uint, c int) { o.RshCap(x, s, c) }),
		orac: func(c *tcase) string {
			ax, s := ai(c, 1), ai(c, 2)
			x := intIn(ax, c.args[0])
			m := new(big.Int).Rsh(new(big.Int).Abs(x), uint(s)) // magnitude shifted (rounds towards zero)
			m = tr(dflt(ai(c, 3), maxi(0, ax-s)), m)
			if x.Sign() < 0 {
				m.Neg(m)
			}
			return okz(m)
		}})
	register(&opDef{name: "int.resize", weight: 4,
		gen: func(r *vh.Rng, g *genCtx) *tcase {
			x := g.sval(r)
			ax := g.capFor(r, x)
			return &tcase{args: []*big.Int{noNegZero(ax, x), zi(ax), zi(g.opCap(r, intIn(ax, x).BitLen()))}}
		},
		impl: func(c *tcase) (string, string) {
			x := mkInt(c.args[0], ai(c, 1))
			x.Resize(ai(c, 2))
			return okz(x.Big()), ""
		},
		orac: func(c *tcase) string {
			ax := ai(c, 1)
			return okz(intIn(dflt(ai(c, 2), ax), intIn(ax, c.args[0])))
		}})
	register(&opDef{name: "int.bits", weight: 4, gen: genIUn,
		impl: func(c *tcase) (string, string) {
			x := mkInt(c.args[0], ai(c, 1))
			return okz(zi(x.TrueLen()), zb(x.IsNegative() == ct.True), zb(x.IsOdd() == ct.True && x.IsEven() == ct.False),
				zb(x.IsZero() == ct.True && x.IsNonZero() == ct.False), zb(x.IsOne() == ct.True), zb(x.IsUnit() == ct.True)), ""
		},
		orac: func(c *tcase) string {
			x := intIn(ai(c, 1), c.args[0])
			return okz(zi(x.BitLen()), zb(x.Sign() < 0), zb(x.Bit(0) == 1), zb(x.Sign() == 0), zb(x.Cmp(one) == 0), zb(new(big.Int).Abs(x).Cmp(one) == 0))
		}})
	twos := func(x *big.Int, k int) []byte {
		return tr(8*k, x).FillBytes(make([]byte, k))
	}
	register(&opDef{name: "int.conv64", weight: 4,
		gen: func(r *vh.Rng, g *genCtx) *tcase {
			var v int64
			switch r.Intn(8) {
			case 0:
				v = 0
			case 1:
				v = -1
			case 2:
				v = 1<<63 - 1
			case 3:
				v = -(1<<63 - 1) - 1
			case 4:
				v = int64(r.Intn(1000)) - 500
			default:
				v = int64(r.Uint64())
				if r.Intn(2) == 0 {
					v >>= uint(r.Intn(63))
				}
			}
			return &tcase{args: []*big.Int{big.NewInt(v)}}
		},
		impl: func(c *tcase) (string, string) {
			v := c.args[0].Int64()
			x := numct.NewInt(v)
			var y numct.Int
			y.SetInt64(v)
			if v >= 0 {
				u := numct.NewIntFromUint64(uint64(v))
				n := numct.NewNat(uint64(v))
				var w numct.Int
				w.SetUint64(uint64(v))
				if u.Big().Cmp(c.args[0]) != 0 || n.Big().Cmp(c.args[0]) != 0 || w.Big().Cmp(c.args[0]) != 0 || n.Uint64() != uint64(v) {
					return "ok:uint64-constructors-differ", ""
				}
			}
			if numct.NatZero().Big().Sign() != 0 || numct.NatOne().Big().Int64() != 1 || numct.NatTwo().Big().Int64() != 2 || numct.NatThree().Big().Int64() != 3 ||
				numct.IntZero().Big().Sign() != 0 || numct.IntOne().Big().Int64() != 1 {
				return "ok:constants-differ", ""
			}
			if y.Big().Cmp(x.Big()) != 0 {
				return "ok:setint64-differs-from-newint", ""
			}
			return okz(x.Big(), new(big.Int).SetUint64(x.Uint64()), big.NewInt(x.Int64())), ""
		},
		orac: func(c *tcase) string {
			v := c.args[0]
			return okz(v, new(big.Int).And(new(big.Int).Abs(v), new(big.Int).SetUint64(^uint64(0))), v)
		}})
	register(&opDef{name: "int.twos", weight: 5, gen: genIUn,
		impl: func(c *tcase) (string, string) {
			return okBytes(mkInt(c.args[0], ai(c, 1)).TwosComplementBytesBE()), ""
		},
		orac: func(c *tcase) string {
			ax := ai(c, 1)
			return okBytes(twos(intIn(ax, c.args[0]), (ax+1+7)/8))
		}})
	genBytes := func(r *vh.Rng, g *genCtx) *tcase {
		n := vh.Pick(r, []int{0, 1, 2, 7, 8, 9, 16, 17, r.Intn(g.maxBits/8 + 1)})
		b := r.Bytes(n)
		if n > 0 {
			switch r.Intn(5) {
			case 0:
				b[0] = 0x80
				for i := 1; i < n; i++ {
					b[i] = 0
				}
			case 1:
				for i := range b {
					b[i] = 0xff
				}
			case 2:
				b[0] = byte(r.Intn(2))
			}
		}
		args := make([]*big.Int, n)
		for i := range b {
			args[i] = zi(int(b[i]))
		}
		return &tcase{args: args}
	}
	argBytes := func(c *tcase) []byte {
		b := make([]byte, len(c.args))
		for i := range b {
			b[i] = byte(ai(c, i))
		}
		return b
	}
	register(&opDef{name: "int.settwos", weight: 5, gen: genBytes,
		impl: func(c *tcase) (string, string) {
			var x numct.Int
			if x.SetTwosComplementBytesBE(argBytes(c)) != ct.True {
				return "refuse", ""
			}
			// and back
			b := argBytes(c)
			back := x.TwosComplementBytesBE()
			if new(big.Int).SetBytes(twos(x.Big(), len(b))).Cmp(new(big.Int).SetBytes(b)) != 0 || len(back) < len(b) {
				return "ok:twos-roundtrip-differs", ""
			}
			return okz(x.Big()), ""
		},
		orac: func(c *tcase) string {
			b := argBytes(c)
			if len(b) == 0 {
				return "refuse"
			}
			v := new(big.Int).SetBytes(b)
			if b[0]&0x80 != 0 {
				v.Sub(v, new(big.Int).Lsh(one, uint(8*len(b))))
			}
			return okz(v)
		}})
	register(&opDef{name: "int.bytes", weight: 4, gen: genIUn,
		impl: func(c *tcase) (string, string) { return okBytes(mkInt(c.args[0], ai(c, 1)).Bytes()), "" },
		orac: func(c *tcase) string {
			ax := ai(c, 1)
			x := intIn(ax, c.args[0])
			s := byte(0)
			if x.Sign() < 0 {
				s = 1
			}
			return okBytes(append([]byte{s}, new(big.Int).Abs(x).FillBytes(make([]byte, (ax+7)/8))...))
		}})
	register(&opDef{name: "int.setbytes", weight: 4, gen: genBytes,
		impl: func(c *tcase) (string, string) {
			var x numct.Int
			if x.SetBytes(argBytes(c)) != ct.True {
				return "refuse", ""
			}
			return okz(x.Big()), ""
		},
		orac: func(c *tcase) string {
			b := argBytes(c)
			if len(b) == 0 {
				return "refuse"
			}
			v := new(big.Int).SetBytes(b[1:])
			if b[0]&1 == 1 {
				v.Neg(v)
			}
			return okz(v)
		}})
	register(&opDef{name: "int.bitwise", weight: 8,
		gen: genIntBin(true, func(x, y *big.Int) int { return maxi(x.BitLen(), y.BitLen()) }),
		impl: func(c *tcase) (string, string) {
			x, y := mkInt(c.args[0], ai(c, 1)), mkInt(c.args[2], ai(c, 3))
			if c.mode == 3 || c.mode == 4 {
				y = x
			}
			cp := ai(c, 4)
			var a, o, xo, n numct.Int
			a.AndCap(x, y, cp)
			o.OrCap(x, y, cp)
			xo.XorCap(x, y, cp)
			if cp < 0 {
				cp = maxi(ai(c, 1), ai(c, 3))
			}
			n.NotCap(x, cp)
			return okz(a.Big(), o.Big(), xo.Big(), n.Big()), ""
		},
		orac: func(c *tcase) string {
			ax, ay := ai(c, 1), ai(c, 3)
			cp := dflt(ai(c, 4), maxi(ax, ay))
			x, y := intIn(cp, intIn(ax, c.args[0])), intIn(cp, intIn(ay, c.args[2]))
			k := (cp + 1 + 7) / 8
			w := func(v *big.Int) *big.Int { return wrapSigned(8*k, v) }
			return okz(w(new(big.Int).And(x, y)), w(new(big.Int).Or(x, y)), w(new(big.Int).Xor(x, y)), w(new(big.Int).Not(x)))
		}})
}
