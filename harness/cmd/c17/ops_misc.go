package main

import (
	"fmt"
	"math/big"

	"github.com/bronlabs/bron-crypto/pkg/base/ct"
	"github.com/bronlabs/bron-crypto/pkg/base/nt/cardinal"
	"github.com/bronlabs/bron-crypto/pkg/base/nt/num"
	"github.com/bronlabs/bron-crypto/pkg/base/nt/numct"
	"github.com/bronlabs/bron-crypto/pkg/base/nt/znstar"

	"verif/harness/internal/vh"
)

func ctChoice(i int) ct.Choice { return ct.Choice(i) }

func init() {
	// ---- sampling in a range: lo hi seed; the sampled value is judged by the model entry range.check
	register(&opDef{name: "random.range", model: "range.check", weight: 8,
		gen: func(r *vh.Rng, g *genCtx) *tcase {
			h := *g
			if h.maxBits > 600 {
				h.maxBits = 600
			}
			lo, hi := h.val(r), h.val(r)
			if lo.Cmp(hi) > 0 && r.Intn(6) != 0 {
				lo, hi = hi, lo
			}
			switch r.Intn(6) {
			case 0:
				hi = new(big.Int).Add(lo, one)
			case 1:
				hi = new(big.Int).Add(lo, big.NewInt(int64(2+r.Intn(3))))
			}
			mode := r.Intn(6)
			if mode == 4 || mode == 5 { // signed ranges
				switch r.Intn(3) {
				case 0:
					lo = new(big.Int).Neg(lo)
				case 1:
					lo, hi = new(big.Int).Neg(hi), new(big.Int).Neg(lo)
				}
			}
			if mode == 0 || mode == 2 {
				lo = new(big.Int)
			}
			return &tcase{args: []*big.Int{lo, hi, zi(r.Intn(1 << 30))}, mode: mode}
		},
		impl: func(c *tcase) (string, string) {
			lo, hi := c.args[0], c.args[1]
			rd := vh.NewRng(c.args[2].Int64(), "C17", "sample", c.mode)
			var v *big.Int
			var err error
			switch c.mode {
			case 0:
				var n numct.Nat
				err = n.SetRandomRangeH(mkNat(hi, hi.BitLen()), rd)
				v = n.Big()
			case 1:
				var n numct.Nat
				err = n.SetRandomRangeLH(mkNat(lo, lo.BitLen()), mkNat(hi, hi.BitLen()), rd)
				v = n.Big()
			case 2:
				if hi.Sign() == 0 {
					return "refuse", ""
				}
				var n *numct.Nat
				n, err = mkMod(hi).Random(rd)
				if err == nil {
					v = n.Big()
				}
			case 3:
				var n *num.Nat
				n, err = num.N().Random(nN(lo), nN(hi), rd)
				if err == nil {
					v = n.Big()
				}
			case 4:
				var n numct.Int
				err = n.SetRandomRangeLH(mkInt(lo, lo.BitLen()), mkInt(hi, hi.BitLen()), rd)
				v = n.Big()
			default:
				var n *num.Int
				n, err = num.Z().Random(nZ(lo), nZ(hi), rd)
				if err == nil {
					v = n.Big()
				}
			}
			if err != nil {
				return "refuse", ""
			}
			c.extra = []*big.Int{v}
			return okz(zb(v.Cmp(lo) >= 0 && v.Cmp(hi) < 0)), ""
		},
		orac: func(c *tcase) string {
			if c.args[1].Cmp(c.args[0]) <= 0 {
				return "refuse"
			}
			return "ok:1"
		},
		trivial: func(c *tcase, impl string) bool { return impl == "refuse" }})
	opByName["random.range"].lineArgs = func(c *tcase) []*big.Int {
		if len(c.extra) == 1 {
			return []*big.Int{c.args[0], c.args[1], c.extra[0]}
		}
		return []*big.Int{c.args[0], c.args[1], c.args[0]}
	}

	// ---- cardinal.Known
	register(&opDef{name: "card.arith", weight: 5,
		gen: func(r *vh.Rng, g *genCtx) *tcase {
			x, y := g.val(r), g.val(r)
			if r.Intn(5) == 0 {
				y = new(big.Int).Set(x)
			}
			return &tcase{args: []*big.Int{x, y}}
		},
		impl: func(c *tcase) (string, string) {
			x, y := cardinal.NewFromBig(c.args[0]), cardinal.NewFromBig(c.args[1])
			if cardinal.NewFromNumeric(mkNat(c.args[0], c.args[0].BitLen()+3)).Big().Cmp(c.args[0]) != 0 || !x.IsFinite() || x.IsUnknown() {
				return "ok:constructors-differ", ""
			}
			kx, ok := x.(cardinal.Known)
			if !ok {
				return "ok:not-known", ""
			}
			return okz(x.Add(y).Big(), x.Mul(y).Big(), kx.Sub(y).Big(), zb(x.IsLessThanOrEqual(y)), zb(x.Equal(y)), zi(c.args[0].BitLen())), "" // Known.BitLen is the byte-rounded announced length: not compared
		},
		orac: func(c *tcase) string {
			x, y := c.args[0], c.args[1]
			d := new(big.Int).Sub(x, y)
			if d.Sign() < 0 {
				d.SetInt64(0)
			}
			return okz(new(big.Int).Add(x, y), new(big.Int).Mul(x, y), d, zb(x.Cmp(y) <= 0), zb(x.Cmp(y) == 0), zi(x.BitLen()))
		}})

	// ---- znstar: Jacobi symbol of a unit (kind 3 RSA known order, 4 RSA unknown order, 5 Paillier): kind p q x
	register(&opDef{name: "znstar.jacobi", model: "jacobi", weight: 6,
		gen: func(r *vh.Rng, g *genCtx) *tcase {
			kind := 3 + r.Intn(3)
			mb := g.maxBits / 2
			if kind == 5 {
				mb = g.maxBits / 4
			}
			p, q := g.twoPrimes(r, mb)
			n := new(big.Int).Mul(p, q)
			if kind == 5 {
				n.Mul(n, n)
			}
			x := r.BigBelow(n)
			for new(big.Int).GCD(nil, nil, x, n).Cmp(one) != 0 {
				x = r.BigBelow(n)
			}
			return &tcase{args: []*big.Int{zi(kind), p, q, x}}
		},
		impl: func(c *tcase) (string, string) {
			kind, p, q, x := ai(c, 0), c.args[1], c.args[2], c.args[3]
			var j int
			var err error
			switch kind {
			case 3, 4:
				gk, e := znstar.NewRSAGroup(nP(p), nP(q))
				if e != nil {
					return "refuse", ""
				}
				if kind == 3 {
					u, e := gk.FromNatCT(mkNat(x, x.BitLen()))
					if e != nil {
						return "refuse", ""
					}
					j, err = u.Jacobi()
				} else {
					u, e := gk.ForgetOrder().FromNatCT(mkNat(x, x.BitLen()))
					if e != nil {
						return "refuse", ""
					}
					j, err = u.Jacobi()
				}
			default:
				gk, e := znstar.NewPaillierGroup(nP(p), nP(q))
				if e != nil {
					return "refuse", ""
				}
				u, e := gk.FromNatCT(mkNat(x, x.BitLen()))
				if e != nil {
					return "refuse", ""
				}
				j, err = u.Jacobi()
			}
			if err != nil {
				return "refuse", ""
			}
			return okz(zi(j)), ""
		},
		rel: func(c *tcase, impl, model string) string {
			mv, iv := parseOk(model), parseOk(impl)
			if mv == nil || iv == nil || iv[0].Cmp(mv[0]) != 0 {
				return fmt.Sprintf("implementation %s, model %s", impl, model)
			}
			return ""
		},
		pred: func(c *tcase, impl string) string {
			n := new(big.Int).Mul(c.args[1], c.args[2])
			want := big.Jacobi(c.args[3], n)
			if impl != okz(zi(want)) {
				return fmt.Sprintf("Jacobi of the unit = %s, expected %d", impl, want)
			}
			return ""
		}})
	opByName["znstar.jacobi"].lineArgs = func(c *tcase) []*big.Int {
		n := new(big.Int).Mul(c.args[1], c.args[2])
		return []*big.Int{c.args[3], n, c.args[1], one, c.args[2], one}
	}
}

func init() {
	// ---- numct.Int Select / CondAssign / CondNeg / Increment / Decrement / Double / Square
	register(&opDef{name: "int.misc", weight: 5,
		gen: func(r *vh.Rng, g *genCtx) *tcase {
			x, y := g.sval(r), g.sval(r)
			ax, ay := g.capOK(r, x), g.capOK(r, y)
			return &tcase{args: []*big.Int{zi(r.Intn(2)), x, zi(ax), y, zi(ay)}, mode: r.Intn(2)}
		},
		impl: func(c *tcase) (string, string) {
			ch := ctChoice(ai(c, 0))
			x, y := mkInt(c.args[1], ai(c, 2)), mkInt(c.args[3], ai(c, 4))
			sel := new(numct.Int)
			if c.mode == 0 {
				sel.Select(ch, x, y)
			} else {
				sel = x.Clone()
				sel.CondAssign(ch, y)
			}
			inc, dec, dbl, sq, cn := x.Clone(), x.Clone(), new(numct.Int), new(numct.Int), x.Clone()
			inc.Increment()
			dec.Decrement()
			dbl.Double(x)
			sq.Square(x)
			cn.CondNeg(ch)
			if x.Big().Cmp(intIn(ai(c, 2), c.args[1])) != 0 {
				return "ok:operand-changed", ""
			}
			return okz(sel.Big(), inc.Big(), dec.Big(), dbl.Big(), sq.Big(), cn.Big()), ""
		},
		orac: func(c *tcase) string {
			x, y := intIn(ai(c, 2), c.args[1]), intIn(ai(c, 4), c.args[3])
			sel, cn := x, x
			if ai(c, 0) == 1 {
				sel, cn = y, new(big.Int).Neg(x)
			}
			return okz(sel, new(big.Int).Add(x, one), new(big.Int).Sub(x, one), new(big.Int).Lsh(x, 1), new(big.Int).Mul(x, x), cn)
		}})

	// ---- conversions between num structures: x m
	register(&opDef{name: "num.convert", weight: 6,
		gen: func(r *vh.Rng, g *genCtx) *tcase {
			m := g.modulus(r)
			x := g.residue(r, m)
			if r.Intn(2) == 0 {
				x.Neg(x)
			}
			return &tcase{args: []*big.Int{x, m.m}}
		},
		impl: func(c *tcase) (string, string) {
			x, m := c.args[0], c.args[1]
			xi := nZ(x)
			_, errN := num.N().FromInt(xi)
			ab := xi.Abs()
			fromBytes, err := num.N().FromBytes(ab.Bytes())
			if err != nil || fromBytes.Big().Cmp(ab.Big()) != 0 {
				return "ok:nat-bytes-roundtrip-differs", ""
			}
			if back, err := num.Z().FromNat(ab); err != nil || back.Big().Cmp(ab.Big()) != 0 {
				return "ok:int-from-nat-differs", ""
			}
			if x.Sign() != 0 {
				if np, err := num.NPlus().FromNat(ab); err != nil || np.Big().Cmp(ab.Big()) != 0 {
					return "ok:natplus-from-nat-differs", ""
				}
			} else if _, err := num.NPlus().FromNat(ab); err == nil {
				return "ok:natplus-accepts-zero", ""
			}
			zn, err := num.NewZMod(nP(m))
			if err != nil {
				return "panic", ""
			}
			u, err := zn.FromInt(xi)
			if err != nil {
				return "refuse", ""
			}
			red, err := zn.FromBytesBEReduce(ab.Bytes())
			if err != nil {
				return "refuse", ""
			}
			sym, err := num.Z().FromUintSymmetric(u)
			if err != nil {
				return "refuse", ""
			}
			if u.Lift().Big().Cmp(u.Big()) != 0 || u.Nat().Big().Cmp(u.Big()) != 0 {
				return "ok:uint-lift-differs", ""
			}
			// FromBytes of an unreduced value must be refused, of a reduced one accepted
			if _, err := zn.FromBytes(ab.Bytes()); (err == nil) != (ab.Big().Cmp(m) < 0) {
				return "ok:zmod-frombytes-range-check-differs", ""
			}
			return okz(zb(errN == nil), ab.Big(), u.Big(), red.Big(), sym.Big()), ""
		},
		orac: func(c *tcase) string {
			x, m := c.args[0], c.args[1]
			ab := new(big.Int).Abs(x)
			return okz(zb(x.Sign() >= 0), ab, bmod(x, m), bmod(ab, m), symmetric(x, m))
		}})

	// ---- znstar sampling with a prescribed Jacobi symbol / quadratic residues: kind p q j seed
	register(&opDef{name: "znstar.random", model: "jacobi", weight: 4,
		gen: func(r *vh.Rng, g *genCtx) *tcase {
			kind := 3 + r.Intn(3)
			p, q := g.twoPrimes(r, 256)
			return &tcase{args: []*big.Int{zi(kind), p, q, zi(1 - 2*r.Intn(2)), zi(r.Intn(1 << 30))}, mode: r.Intn(2)}
		},
		impl: func(c *tcase) (string, string) {
			kind, p, q, j := ai(c, 0), c.args[1], c.args[2], ai(c, 3)
			rd := vh.NewRng(c.args[4].Int64(), "C17", "znstar-sample", c.mode)
			var v *big.Int
			sample := func(withJ func() (*big.Int, error), qr func() (*big.Int, error)) error {
				var err error
				if c.mode == 0 {
					v, err = withJ()
				} else {
					v, err = qr()
				}
				return err
			}
			var err error
			switch kind {
			case 3, 4:
				gk, e := znstar.NewRSAGroup(nP(p), nP(q))
				if e != nil {
					return "refuse", ""
				}
				err = sample(func() (*big.Int, error) {
					u, e := gk.RandomWithJacobi(j, rd)
					if e != nil {
						return nil, e
					}
					return u.Value().Big(), nil
				}, func() (*big.Int, error) {
					u, e := gk.RandomQuadraticResidue(rd)
					if e != nil {
						return nil, e
					}
					return u.Value().Big(), nil
				})
			default:
				gk, e := znstar.NewPaillierGroup(nP(p), nP(q))
				if e != nil {
					return "refuse", ""
				}
				err = sample(func() (*big.Int, error) {
					u, e := gk.RandomWithJacobi(j, rd)
					if e != nil {
						return nil, e
					}
					return u.Value().Big(), nil
				}, func() (*big.Int, error) {
					u, e := gk.RandomQuadraticResidue(rd)
					if e != nil {
						return nil, e
					}
					return u.Value().Big(), nil
				})
			}
			if err != nil {
				return "refuse", ""
			}
			c.extra = []*big.Int{v}
			return okz(v), ""
		},
		// the model computes the Jacobi symbol of the sampled value (loop and factorisation spec)
		rel: func(c *tcase, impl, model string) string {
			mv := parseOk(model)
			if mv == nil || len(mv) != 2 || parseOk(impl) == nil {
				return fmt.Sprintf("implementation %s, model %s", trunc(impl), model)
			}
			want := int64(ai(c, 3))
			if c.mode == 1 {
				want = 1
			}
			if mv[0].Int64() != want || mv[1].Int64() != want {
				return fmt.Sprintf("sampled element has Jacobi symbol %s (model), requested %d", mv[1].String(), want)
			}
			return ""
		},
		pred: func(c *tcase, impl string) string {
			v := parseOk(impl)
			if v == nil {
				return "sampling failed: " + impl
			}
			p, q := c.args[1], c.args[2]
			n := new(big.Int).Mul(p, q)
			if new(big.Int).GCD(nil, nil, v[0], n).Cmp(one) != 0 {
				return "sampled element is not a unit"
			}
			if c.mode == 1 {
				if big.Jacobi(v[0], p) != 1 || big.Jacobi(v[0], q) != 1 {
					return "sampled 'quadratic residue' is not a square modulo both primes"
				}
				return ""
			}
			if big.Jacobi(v[0], n) != ai(c, 3) {
				return fmt.Sprintf("sampled element has Jacobi symbol %d, requested %d", big.Jacobi(v[0], n), ai(c, 3))
			}
			return ""
		}})
	opByName["znstar.random"].lineArgs = func(c *tcase) []*big.Int {
		n := new(big.Int).Mul(c.args[1], c.args[2])
		v := big.NewInt(1)
		if len(c.extra) == 1 {
			v = c.extra[0]
		}
		return []*big.Int{v, n, c.args[1], one, c.args[2], one}
	}
}
