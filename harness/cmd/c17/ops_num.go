package main

import (
	"math/big"

	"github.com/bronlabs/bron-crypto/pkg/base/ct"
	"github.com/bronlabs/bron-crypto/pkg/base/nt/modular"
	"github.com/bronlabs/bron-crypto/pkg/base/nt/num"
	"github.com/bronlabs/bron-crypto/pkg/base/nt/numct"
	"github.com/bronlabs/bron-crypto/pkg/base/nt/znstar"

	"verif/harness/internal/vh"
)

func nN(x *big.Int) *num.Nat {
	n, err := num.N().FromBig(x)
	if err != nil {
		panic(err)
	}
	return n
}

func nZ(x *big.Int) *num.Int {
	n, err := num.Z().FromBig(x)
	if err != nil {
		panic(err)
	}
	return n
}

func nP(x *big.Int) *num.NatPlus {
	n, err := num.NPlus().FromBig(x)
	if err != nil {
		panic(err)
	}
	return n
}

func nU(zn *num.ZMod, x *big.Int) *num.Uint {
	u, err := zn.FromNat(nN(x))
	if err != nil {
		panic(err)
	}
	return u
}

// twoPrimes returns two distinct pool primes of the same bit length.
func (g *genCtx) twoPrimes(r *vh.Rng, maxBits int) (p, q *big.Int) {
	var ok []int
	for _, s := range g.sizes {
		if s <= maxBits && s >= 3 && len(g.primes[s]) >= 2 {
			ok = append(ok, s)
		}
	}
	s := vh.Pick(r, ok)
	i := r.Intn(len(g.primes[s]))
	j := (i + 1 + r.Intn(len(g.primes[s])-1)) % len(g.primes[s])
	return g.primes[s][i], g.primes[s][j]
}

// znCheck: result modulo n equals the expected value (math/big), refusal classes agree.
func orac3(f func(n, x, y *big.Int) *big.Int) func(c *tcase) string {
	return func(c *tcase) string {
		v := f(c.args[0], c.args[1], c.args[2])
		if v == nil {
			return "refuse"
		}
		return okz(v)
	}
}

func bexp(n, x, e *big.Int) *big.Int {
	if e.Sign() < 0 {
		inv := new(big.Int).ModInverse(x, n)
		if inv == nil {
			return nil
		}
		return new(big.Int).Exp(inv, new(big.Int).Neg(e), n)
	}
	return new(big.Int).Exp(x, e, n)
}

func init() {
	// ---- num.Int / num.Nat / num.NatPlus plain arithmetic
	genZZ := func(signed bool) func(r *vh.Rng, g *genCtx) *tcase {
		return func(r *vh.Rng, g *genCtx) *tcase {
			x, y := g.val(r), g.val(r)
			switch r.Intn(8) {
			case 0:
				y = new(big.Int).Set(x)
			case 1:
				x = new(big.Int).Mul(y, g.valBits(r, r.Intn(130)))
			case 2:
				f := g.valBits(r, 1+r.Intn(100))
				x, y = new(big.Int).Mul(x, f), new(big.Int).Mul(y, f)
			}
			if signed {
				if r.Intn(2) == 0 {
					x.Neg(x)
				}
				if r.Intn(2) == 0 {
					y.Neg(y)
				}
			}
			if r.Intn(3) == 0 { // boundary family (num values are always announced at their true length)
				x, y = g.divBoundary(r, signed, g.maxBits)
			}
			return &tcase{args: []*big.Int{x, y}, mode: r.Intn(2)}
		}
	}
	small := func(gen func(r *vh.Rng, g *genCtx) *tcase, bits int) func(r *vh.Rng, g *genCtx) *tcase {
		return func(r *vh.Rng, g *genCtx) *tcase {
			h := *g
			if h.maxBits > bits {
				h.maxBits = bits
			}
			return gen(r, &h)
		}
	}
	register(&opDef{name: "num.int.arith", model: "z.arith", weight: 8, gen: genZZ(true),
		impl: func(c *tcase) (string, string) {
			x, y := nZ(c.args[0]), nZ(c.args[1])
			if x.Double().Big().Cmp(x.Add(x).Big()) != 0 || x.Square().Big().Cmp(x.Mul(x).Big()) != 0 || x.Neg().Neg().Big().Cmp(x.Big()) != 0 {
				return "ok:derived-ops-differ", ""
			}
			return okz(x.Add(y).Big(), x.Sub(y).Big(), x.Mul(y).Big()), ""
		},
		orac: func(c *tcase) string {
			x, y := c.args[0], c.args[1]
			return okz(new(big.Int).Add(x, y), new(big.Int).Sub(x, y), new(big.Int).Mul(x, y))
		}})
	register(&opDef{name: "num.nat.arith", model: "z.arith", weight: 6,
		gen: func(r *vh.Rng, g *genCtx) *tcase {
			c := genZZ(false)(r, g)
			if c.args[0].Cmp(c.args[1]) < 0 {
				c.args[0], c.args[1] = c.args[1], c.args[0]
			}
			return c
		},
		impl: func(c *tcase) (string, string) {
			x, y := nN(c.args[0]), nN(c.args[1])
			d, err := x.TrySub(y)
			if err != nil {
				return "refuse", ""
			}
			if _, err := y.TrySub(x.Increment()); err == nil {
				return "ok:negative-difference-accepted", ""
			}
			return okz(x.Add(y).Big(), d.Big(), x.Mul(y).Big()), ""
		},
		orac: func(c *tcase) string {
			x, y := c.args[0], c.args[1]
			return okz(new(big.Int).Add(x, y), new(big.Int).Sub(x, y), new(big.Int).Mul(x, y))
		}})
	eucOrac := func(c *tcase) string {
		if c.args[1].Sign() == 0 {
			return "refuse"
		}
		q, m := new(big.Int).DivMod(c.args[0], c.args[1], new(big.Int))
		return okz(q, m)
	}
	divKey2 := func(name string) func(c *tcase) string {
		return func(c *tcase) string {
			if c.mode == 1 && c.args[0].BitLen()-c.args[1].BitLen()+2 < 0 {
				return "divvartime-small-numerator-panics"
			}
			return "arith-" + name
		}
	}
	register(&opDef{name: "num.int.eucdiv", model: "z.eucdiv", weight: 8, gen: small(genZZ(true), 700), key: divKey2("num.int.eucdiv"),
		impl: func(c *tcase) (string, string) {
			x, y := nZ(c.args[0]), nZ(c.args[1])
			var q, rem *num.Int
			var err error
			if c.mode == 0 {
				q, rem, err = x.EuclideanDiv(y)
			} else {
				q, rem, err = x.EuclideanDivVarTime(y)
			}
			if err != nil {
				return "refuse", ""
			}
			return okz(q.Big(), rem.Big()), ""
		}, orac: eucOrac})
	register(&opDef{name: "num.nat.eucdiv", model: "z.eucdiv", weight: 8, gen: small(genZZ(false), 700), key: divKey2("num.nat.eucdiv"),
		impl: func(c *tcase) (string, string) {
			x, y := nN(c.args[0]), nN(c.args[1])
			var q, rem *num.Nat
			var err error
			if c.mode == 0 {
				q, rem, err = x.EuclideanDiv(y)
			} else {
				q, rem, err = x.EuclideanDivVarTime(y)
			}
			if err != nil {
				return "refuse", ""
			}
			if dr, err := x.DivRound(y); err != nil || dr.Big().Cmp(q.Big()) != 0 {
				return "ok:divround-differs", ""
			}
			return okz(q.Big(), rem.Big()), ""
		}, orac: eucOrac})
	exactOrac := func(c *tcase) string {
		if c.args[1].Sign() == 0 {
			return "refuse"
		}
		q, m := new(big.Int).QuoRem(c.args[0], c.args[1], new(big.Int))
		if m.Sign() != 0 {
			return "refuse"
		}
		return okz(q)
	}
	register(&opDef{name: "num.int.exactdiv", model: "z.exactdiv", weight: 6, gen: small(genZZ(true), 700), key: divKey2("num.int.exactdiv"),
		impl: func(c *tcase) (string, string) {
			x, y := nZ(c.args[0]), nZ(c.args[1])
			var q *num.Int
			var err error
			if c.mode == 0 {
				q, err = x.TryDiv(y)
			} else {
				q, err = x.TryDivVarTime(y)
			}
			if err != nil {
				return "refuse", ""
			}
			return okz(q.Big()), ""
		}, orac: exactOrac})
	register(&opDef{name: "num.nat.exactdiv", model: "z.exactdiv", weight: 6, gen: small(genZZ(false), 700),
		impl: func(c *tcase) (string, string) {
			x, y := nN(c.args[0]), nN(c.args[1])
			var q *num.Nat
			var err error
			if c.mode == 0 {
				q, err = x.TryDiv(y)
			} else {
				q, err = x.TryDivVarTime(y)
			}
			if err != nil {
				return "refuse", ""
			}
			return okz(q.Big()), ""
		}, orac: exactOrac})
	cmpOrac := func(c *tcase) string {
		k := c.args[0].Cmp(c.args[1])
		return okz(zb(k < 0), zb(k == 0), zb(k > 0))
	}
	register(&opDef{name: "num.int.cmp", model: "z.cmp", weight: 4, gen: genZZ(true),
		impl: func(c *tcase) (string, string) {
			x, y := nZ(c.args[0]), nZ(c.args[1])
			o := x.Compare(y)
			if x.Equal(y) != o.IsEqual() || x.IsLessThanOrEqual(y) != (o.IsLessThan() || o.IsEqual()) {
				return "ok:order-predicates-differ", ""
			}
			return okz(zb(o.IsLessThan()), zb(o.IsEqual()), zb(o.IsGreaterThan())), ""
		}, orac: cmpOrac})
	register(&opDef{name: "num.nat.cmp", model: "z.cmp", weight: 4, gen: genZZ(false),
		impl: func(c *tcase) (string, string) {
			x, y := nN(c.args[0]), nN(c.args[1])
			o := x.Compare(y)
			if x.Equal(y) != o.IsEqual() || x.IsLessThanOrEqual(y) != (o.IsLessThan() || o.IsEqual()) {
				return "ok:order-predicates-differ", ""
			}
			return okz(zb(o.IsLessThan()), zb(o.IsEqual()), zb(o.IsGreaterThan())), ""
		}, orac: cmpOrac})
	register(&opDef{name: "num.nat.gcd", model: "z.gcd", weight: 4, gen: small(genZZ(false), 1024),
		impl: func(c *tcase) (string, string) {
			x, y := nN(c.args[0]), nN(c.args[1])
			g := x.GCD(y)
			if x.Coprime(y) != (g.Big().Cmp(one) == 0) {
				return "ok:coprime-differs-from-gcd", ""
			}
			return okz(g.Big()), ""
		},
		orac: func(c *tcase) string { return okz(new(big.Int).GCD(nil, nil, c.args[0], c.args[1])) }})
	sqrtOrac := func(c *tcase) string {
		x := c.args[0]
		if x.Sign() < 0 {
			return "refuse"
		}
		s := new(big.Int).Sqrt(x)
		if new(big.Int).Mul(s, s).Cmp(x) != 0 {
			return "refuse"
		}
		return okz(s)
	}
	register(&opDef{name: "num.nat.sqrt", model: "z.sqrt", weight: 4,
		gen: func(r *vh.Rng, g *genCtx) *tcase {
			x := g.valBits(r, g.bits(r)/2)
			x.Mul(x, x)
			if r.Intn(3) == 0 {
				x.Add(x, big.NewInt(int64(1+r.Intn(3))))
			}
			return &tcase{args: []*big.Int{x}}
		},
		impl: func(c *tcase) (string, string) {
			s, err := nN(c.args[0]).Sqrt()
			if err != nil {
				return "refuse", ""
			}
			return okz(s.Big()), ""
		}, orac: sqrtOrac})
	register(&opDef{name: "num.shift", model: "z.shift", weight: 5,
		gen: func(r *vh.Rng, g *genCtx) *tcase {
			x := g.sval(r)
			return &tcase{args: []*big.Int{x, zi(vh.Pick(r, []int{0, 1, 7, 8, 63, 64, 65, 128, r.Intn(300)}))}}
		},
		impl: func(c *tcase) (string, string) {
			s := uint(ai(c, 1))
			x := nZ(c.args[0])
			l, rr := x.Lsh(s).Big(), x.Rsh(s).Big()
			if c.args[0].Sign() >= 0 {
				n := nN(c.args[0])
				if n.Lsh(s).Big().Cmp(l) != 0 || n.Rsh(s).Big().Cmp(rr) != 0 {
					return "ok:nat-shift-differs-from-int-shift", ""
				}
			}
			return okz(l, rr), ""
		},
		orac: func(c *tcase) string {
			x, s := c.args[0], uint(ai(c, 1))
			m := new(big.Int).Rsh(new(big.Int).Abs(x), s)
			if x.Sign() < 0 {
				m.Neg(m)
			}
			return okz(new(big.Int).Lsh(x, s), m)
		}})
	register(&opDef{name: "num.mod", model: "z.mod", weight: 6,
		gen: func(r *vh.Rng, g *genCtx) *tcase {
			m := g.modulus(r)
			x := g.residue(r, m)
			if r.Intn(2) == 0 {
				x.Neg(x)
			}
			return &tcase{args: []*big.Int{x, m.m}}
		},
		impl: func(c *tcase) (string, string) {
			m := nP(c.args[1])
			v := nZ(c.args[0]).Mod(m)
			if c.args[0].Sign() >= 0 {
				if nN(c.args[0]).Mod(m).Big().Cmp(v.Big()) != 0 {
					return "ok:nat-mod-differs-from-int-mod", ""
				}
			}
			return okz(v.Big()), ""
		},
		orac: func(c *tcase) string { return okz(bmod(c.args[0], c.args[1])) }})

	// ---- num.Uint (Z/nZ): n x y
	genZn := func(odd bool, expo bool) func(r *vh.Rng, g *genCtx) *tcase {
		return func(r *vh.Rng, g *genCtx) *tcase {
			var m modulus
			if odd {
				m = g.oddModulus(r)
			} else {
				m = g.modulus(r)
			}
			remember(m)
			x, y := bmod(g.residue(r, m), m.m), bmod(g.residue(r, m), m.m)
			if expo {
				y = g.valBits(r, r.Intn(260))
				if m.m.BitLen() < 600 && r.Intn(4) == 0 {
					y = g.val(r)
				}
			}
			return &tcase{args: []*big.Int{m.m, x, y}}
		}
	}
	uintOp := func(name, model string, w int, expo bool, f func(x, y *num.Uint, c *tcase) (*num.Uint, error), spec func(n, x, y *big.Int) *big.Int) {
		register(&opDef{name: name, model: model, weight: w, gen: genZn(false, expo),
			impl: func(c *tcase) (string, string) {
				zn, err := num.NewZMod(nP(c.args[0]))
				if err != nil {
					return "panic", ""
				}
				x := nU(zn, c.args[1])
				var y *num.Uint
				if !expo {
					y = nU(zn, c.args[2])
				}
				v, err := f(x, y, c)
				if err != nil {
					return "refuse", ""
				}
				return okz(v.Big()), ""
			},
			orac: orac3(spec)})
	}
	uintOp("num.uint.add", "zn.add", 5, false, func(x, y *num.Uint, _ *tcase) (*num.Uint, error) { return x.Add(y), nil },
		func(n, x, y *big.Int) *big.Int { return bmod(new(big.Int).Add(x, y), n) })
	uintOp("num.uint.sub", "zn.sub", 5, false, func(x, y *num.Uint, _ *tcase) (*num.Uint, error) { return x.Sub(y), nil },
		func(n, x, y *big.Int) *big.Int { return bmod(new(big.Int).Sub(x, y), n) })
	uintOp("num.uint.mul", "zn.mul", 5, false, func(x, y *num.Uint, _ *tcase) (*num.Uint, error) { return x.Mul(y), nil },
		func(n, x, y *big.Int) *big.Int { return bmod(new(big.Int).Mul(x, y), n) })
	uintOp("num.uint.exp", "zn.exp", 6, true, func(x, _ *num.Uint, c *tcase) (*num.Uint, error) { return x.Exp(nN(c.args[2])), nil },
		func(n, x, y *big.Int) *big.Int { return new(big.Int).Exp(x, y, n) })
	register(&opDef{name: "num.uint.expi", model: "zn.expi", weight: 5,
		gen: func(r *vh.Rng, g *genCtx) *tcase {
			c := genZn(false, true)(r, g)
			if r.Intn(2) == 0 {
				c.args[2] = new(big.Int).Neg(c.args[2])
			}
			return c
		},
		impl: func(c *tcase) (string, string) {
			zn, _ := num.NewZMod(nP(c.args[0]))
			return okz(nU(zn, c.args[1]).ExpI(nZ(c.args[2])).Big()), ""
		},
		rel: func(c *tcase, impl, model string) string {
			if model == "refuse" || impl == model {
				return "" // negative power of a non-unit: no value
			}
			return diffDetail("implementation", impl, "model", model)
		},
		orac: func(c *tcase) string {
			if c.args[0].Cmp(one) == 0 {
				return ""
			}
			v := bexp(c.args[0], c.args[1], c.args[2])
			if v == nil {
				return ""
			}
			return okz(v)
		}})
	register(&opDef{name: "num.uint.expbounded", model: "zn.expbounded", weight: 5,
		gen: func(r *vh.Rng, g *genCtx) *tcase {
			c := genZn(false, true)(r, g)
			if r.Intn(2) == 0 {
				c.args[2] = new(big.Int).Neg(c.args[2])
			}
			bits := vh.Pick(r, []int{0, 1, 8, 63, 64, 65, c.args[2].BitLen(), c.args[2].BitLen() + 5, r.Intn(c.args[2].BitLen() + 2)})
			c.args = append(c.args, zi(bits))
			return c
		},
		impl: func(c *tcase) (string, string) {
			zn, _ := num.NewZMod(nP(c.args[0]))
			x := nU(zn, c.args[1])
			if c.args[2].Sign() >= 0 {
				v := x.ExpBounded(nN(c.args[2]), uint(ai(c, 3)))
				if w := x.ExpIBounded(nZ(c.args[2]), uint(ai(c, 3))); w.Big().Cmp(v.Big()) != 0 {
					return "ok:expibounded-differs-from-expbounded", ""
				}
				return okz(v.Big()), ""
			}
			return okz(x.ExpIBounded(nZ(c.args[2]), uint(ai(c, 3))).Big()), ""
		},
		rel: func(c *tcase, impl, model string) string {
			if model == "refuse" || impl == model {
				return ""
			}
			return diffDetail("implementation", impl, "model", model)
		},
		orac: func(c *tcase) string {
			if c.args[0].Cmp(one) == 0 {
				return ""
			}
			v := bexp(c.args[0], c.args[1], intIn(ai(c, 3), c.args[2]))
			if v == nil {
				return ""
			}
			return okz(v)
		}})
	register(&opDef{name: "num.uint.shift", model: "zn.shift", weight: 4,
		gen: func(r *vh.Rng, g *genCtx) *tcase {
			c := genZn(false, false)(r, g)
			c.args[2] = zi(vh.Pick(r, []int{0, 1, 7, 8, 63, 64, 65, r.Intn(200)}))
			return c
		},
		impl: func(c *tcase) (string, string) {
			zn, _ := num.NewZMod(nP(c.args[0]))
			x := nU(zn, c.args[1])
			return okz(x.Lsh(uint(ai(c, 2))).Big(), x.Rsh(uint(ai(c, 2))).Big()), ""
		},
		orac: func(c *tcase) string {
			s := uint(ai(c, 2))
			return okz(bmod(new(big.Int).Lsh(c.args[1], s), c.args[0]), bmod(new(big.Int).Rsh(c.args[1], s), c.args[0]))
		}})
	register(&opDef{name: "num.uint.div", model: "mod.div", weight: 5, gen: genZn(false, false),
		rel: func(c *tcase, impl, model string) string {
			if impl == model || c.args[0].Cmp(one) == 0 {
				return ""
			}
			return diffDetail("implementation", impl, "model", model)
		},
		impl: func(c *tcase) (string, string) {
			zn, _ := num.NewZMod(nP(c.args[0]))
			v, err := nU(zn, c.args[1]).TryDiv(nU(zn, c.args[2]))
			if err != nil {
				return "refuse", ""
			}
			return okz(v.Big()), ""
		},
		pred: func(c *tcase, impl string) string {
			m, x, y := c.args[0], c.args[1], c.args[2]
			if v := parseOk(impl); v != nil {
				if bmod(new(big.Int).Mul(y, v[0]), m).Cmp(bmod(x, m)) != 0 {
					return "returned quotient u does not satisfy y*u = x (mod m)"
				}
				return ""
			}
			if impl == "refuse" && m.Cmp(one) > 0 && new(big.Int).GCD(nil, nil, y, m).Cmp(one) == 0 {
				return "division by a unit refused"
			}
			if impl == "panic" {
				return "panic"
			}
			return ""
		}})
	register(&opDef{name: "num.natplus.arith", model: "z.arith", weight: 4,
		gen: func(r *vh.Rng, g *genCtx) *tcase {
			x, y := g.val(r), g.val(r)
			x.Add(x, one)
			y.Add(y, one)
			if x.Cmp(y) <= 0 {
				x.Add(y, big.NewInt(int64(1+r.Intn(5))))
			}
			return &tcase{args: []*big.Int{x, y}}
		},
		impl: func(c *tcase) (string, string) {
			x, y := nP(c.args[0]), nP(c.args[1])
			d, err := x.TrySub(y)
			if err != nil {
				return "refuse", ""
			}
			if _, err := y.TrySub(x); err == nil {
				return "ok:non-positive-difference-accepted", ""
			}
			if _, err := x.TrySub(x); err == nil {
				return "ok:zero-difference-accepted", ""
			}
			return okz(x.Add(y).Big(), d.Big(), x.Mul(y).Big()), ""
		},
		orac: func(c *tcase) string {
			x, y := c.args[0], c.args[1]
			return okz(new(big.Int).Add(x, y), new(big.Int).Sub(x, y), new(big.Int).Mul(x, y))
		}})
	register(&opDef{name: "num.uint.neg", model: "zn.neg", weight: 3, gen: genZn(false, false),
		impl: func(c *tcase) (string, string) {
			zn, _ := num.NewZMod(nP(c.args[0]))
			return okz(nU(zn, c.args[1]).Neg().Big()), ""
		},
		orac: func(c *tcase) string { return okz(bmod(new(big.Int).Neg(c.args[1]), c.args[0])) }})
	register(&opDef{name: "num.uint.inv", model: "zn.inv", weight: 6, gen: genZn(false, false),
		impl: func(c *tcase) (string, string) {
			zn, _ := num.NewZMod(nP(c.args[0]))
			x := nU(zn, c.args[1])
			v, err := x.TryInv()
			if err != nil {
				return "refuse", ""
			}
			return okz(v.Big()), ""
		},
		// modulus 1: the code treats every element as a unit and returns 0; no claim
		rel: func(c *tcase, impl, model string) string {
			if c.args[0].Cmp(one) == 0 || impl == model {
				return ""
			}
			return diffDetail("implementation", impl, "model", model)
		},
		orac: func(c *tcase) string {
			if c.args[0].Cmp(one) == 0 {
				return ""
			}
			inv := new(big.Int).ModInverse(c.args[1], c.args[0])
			if inv == nil {
				return "refuse"
			}
			return okz(inv)
		}})
	register(&opDef{name: "num.uint.sqrt", model: "zn.sqrt", weight: 6,
		gen: func(r *vh.Rng, g *genCtx) *tcase {
			h := *g
			if h.maxBits > 600 {
				h.maxBits = 600
			}
			return genZn(false, false)(r, &h)
		},
		impl: func(c *tcase) (string, string) {
			zn, _ := num.NewZMod(nP(c.args[0]))
			x := nU(zn, c.args[1])
			v, err := x.Sqrt()
			if (err == nil) != x.IsQuadraticResidue() {
				return "ok:isquadraticresidue-differs-from-sqrt", ""
			}
			if err != nil {
				return "refuse", ""
			}
			return okz(v.Big()), ""
		},
		rel: func(c *tcase, impl, model string) string {
			if c.args[0].Cmp(two) == 0 {
				return ""
			}
			return sqrtRel(impl, model)
		},
		pred: func(c *tcase, impl string) string {
			if c.args[0].Cmp(two) == 0 && impl == "panic" {
				return ""
			}
			return sqrtPred(c.args[0], c.args[1], impl)
		}})

	// ---- num.Rat: a/b, c/d
	genQ := func(r *vh.Rng, g *genCtx) *tcase {
		h := *g
		if h.maxBits > 512 {
			h.maxBits = 512
		}
		a, cc := h.sval(r), h.sval(r)
		b, d := h.val(r), h.val(r)
		if b.Sign() == 0 {
			b = big.NewInt(1)
		}
		if d.Sign() == 0 {
			d = big.NewInt(1)
		}
		switch r.Intn(6) {
		case 0: // equal values, different representation
			f := big.NewInt(int64(2 + r.Intn(50)))
			cc, d = new(big.Int).Mul(a, f), new(big.Int).Mul(b, f)
		case 1:
			b = big.NewInt(1)
		case 2:
			f := h.valBits(r, 1+r.Intn(64))
			if f.Sign() == 0 {
				f = big.NewInt(6)
			}
			a, b = new(big.Int).Mul(a, f), new(big.Int).Mul(b, f)
		}
		if b.Sign() == 0 {
			b = big.NewInt(1)
		}
		if d.Sign() == 0 {
			d = big.NewInt(1)
		}
		return &tcase{args: []*big.Int{a, b, cc, d}}
	}
	mkQ := func(a, b *big.Int) *num.Rat {
		q, err := num.Q().New(nZ(a), nP(b))
		if err != nil {
			panic(err)
		}
		return q
	}
	canon := func(q *num.Rat) (*big.Int, *big.Int) {
		c := q.Canonical()
		return c.Numerator().Big(), c.Denominator().Big()
	}
	ratCanon := func(a, b *big.Int) (*big.Int, *big.Int) {
		q := new(big.Rat).SetFrac(a, b)
		return new(big.Int).Set(q.Num()), new(big.Int).Set(q.Denom())
	}
	register(&opDef{name: "num.rat.arith", model: "q.arith", weight: 8, gen: genQ,
		impl: func(c *tcase) (string, string) {
			x, y := mkQ(c.args[0], c.args[1]), mkQ(c.args[2], c.args[3])
			sn, sd := canon(x.Add(y))
			dn, dd := canon(x.Sub(y))
			mn, md := canon(x.Mul(y))
			return okz(sn, sd, dn, dd, mn, md, zb(x.Equal(y)), zb(x.IsLessThanOrEqual(y))), ""
		},
		orac: func(c *tcase) string {
			x, y := new(big.Rat).SetFrac(c.args[0], c.args[1]), new(big.Rat).SetFrac(c.args[2], c.args[3])
			s, d, m := new(big.Rat).Add(x, y), new(big.Rat).Sub(x, y), new(big.Rat).Mul(x, y)
			return okz(s.Num(), s.Denom(), d.Num(), d.Denom(), m.Num(), m.Denom(), zb(x.Cmp(y) == 0), zb(x.Cmp(y) <= 0))
		}})
	register(&opDef{name: "num.rat.div", model: "q.div", weight: 4, gen: genQ,
		impl: func(c *tcase) (string, string) {
			x, y := mkQ(c.args[0], c.args[1]), mkQ(c.args[2], c.args[3])
			q, err := x.TryDiv(y)
			if err != nil {
				return "refuse", ""
			}
			n, d := canon(q)
			return okz(n, d), ""
		},
		orac: func(c *tcase) string {
			if c.args[2].Sign() == 0 {
				return "refuse"
			}
			n, d := ratCanon(new(big.Int).Mul(c.args[0], c.args[3]), new(big.Int).Mul(c.args[1], c.args[2]))
			return okz(n, d)
		}})
	register(&opDef{name: "num.rat.round", model: "q.round", weight: 4,
		gen: func(r *vh.Rng, g *genCtx) *tcase {
			c := genQ(r, g)
			c.args = c.args[:2]
			if r.Intn(3) == 0 { // boundary family: floor/ceil hit 2^j, 2^j +- 1 from both sides
				a, b := g.divBoundary(r, true, 512)
				c.args = []*big.Int{a, new(big.Int).Abs(b)}
			}
			return c
		},
		impl: func(c *tcase) (string, string) {
			x := mkQ(c.args[0], c.args[1])
			n, d := canon(x)
			fl, err1 := x.Floor()
			ce, err2 := x.Ceil()
			if err1 != nil || err2 != nil {
				return "refuse", ""
			}
			return okz(n, d, fl.Big(), ce.Big(), zb(x.IsInt())), ""
		},
		orac: func(c *tcase) string {
			n, d := ratCanon(c.args[0], c.args[1])
			fl := new(big.Int).Div(c.args[0], c.args[1]) // Euclidean = floor for positive denominators
			ce := new(big.Int).Neg(new(big.Int).Div(new(big.Int).Neg(c.args[0]), c.args[1]))
			return okz(n, d, fl, ce, zb(d.Cmp(one) == 0))
		}})

	// ---- modular.Arithmetic implementations and znstar groups over n = p*q (and n^2): kind p q x y
	// kinds: 0 SimpleModulus(pq) 1 OddPrimeFactors 2 OddPrimeSquareFactors 3 RSA group (known order)
	// 4 RSA group (unknown order) 5 Paillier group (known order)
	type arithCase struct {
		n    *big.Int
		ar   modular.Arithmetic
		unit func(x *big.Int) (mul func(y *big.Int) (*big.Int, error), exp func(e *big.Int) *big.Int, inv func() (*big.Int, error), err error)
	}
	build := func(kind int, p, q *big.Int) (n *big.Int, ar modular.Arithmetic, ok bool) {
		pn, qn := mkNat(p, p.BitLen()), mkNat(q, q.BitLen())
		switch kind {
		case 0:
			n = new(big.Int).Mul(p, q)
			a, okc := modular.NewSimple(mkMod(n))
			return n, a, okc == ct.True
		case 1:
			n = new(big.Int).Mul(p, q)
			a, okc := modular.NewOddPrimeFactors(pn, qn)
			return n, a, okc == ct.True
		default:
			n = new(big.Int).Mul(p, q)
			n.Mul(n, n)
			a, okc := modular.NewOddPrimeSquareFactors(pn, qn)
			return n, a, okc == ct.True
		}
	}
	_ = arithCase{}
	genAr := func(expo bool) func(r *vh.Rng, g *genCtx) *tcase {
		return func(r *vh.Rng, g *genCtx) *tcase {
			kind := r.Intn(6)
			mb := g.maxBits / 2
			if kind == 2 || kind == 5 {
				mb = g.maxBits / 4
			}
			if expo && mb > 512 {
				mb = 512
			}
			p, q := g.twoPrimes(r, mb)
			n := new(big.Int).Mul(p, q)
			if kind == 2 || kind == 5 {
				n.Mul(n, n)
			}
			m := modulus{m: n, factors: []*big.Int{p, one, q, one}}
			x, y := bmod(g.residue(r, m), n), bmod(g.residue(r, m), n)
			if kind >= 3 { // group elements are units
				for new(big.Int).GCD(nil, nil, x, n).Cmp(one) != 0 {
					x = r.BigBelow(n)
				}
				for !expo && new(big.Int).GCD(nil, nil, y, n).Cmp(one) != 0 {
					y = r.BigBelow(n)
				}
			}
			if expo {
				y = g.valBits(r, r.Intn(300))
				if r.Intn(4) == 0 {
					y = g.valBits(r, n.BitLen()+r.Intn(64))
				}
				if r.Intn(2) == 0 {
					y.Neg(y)
				}
				if r.Intn(3) == 0 {
					// exponents that vanish modulo the group orders (the CRT code reduces exponents modulo
					// p-1 / p(p-1)), with bases that are not units
					pm, qm := new(big.Int).Sub(p, one), new(big.Int).Sub(q, one)
					y = vh.Pick(r, []*big.Int{pm, qm, new(big.Int).Mul(pm, qm), new(big.Int).Mul(p, pm), new(big.Int).Mul(q, qm),
						new(big.Int).Mul(new(big.Int).Mul(p, pm), new(big.Int).Mul(q, qm))})
					y = new(big.Int).Mul(y, big.NewInt(int64(1+r.Intn(3))))
					if kind <= 2 {
						f := vh.Pick(r, []*big.Int{p, q, new(big.Int).Mul(p, q)})
						x = bmod(new(big.Int).Mul(f, big.NewInt(int64(1+r.Intn(1000)))), n)
					}
				}
			}
			return &tcase{args: []*big.Int{zi(kind), p, q, x, y}, mode: r.Intn(2)}
		}
	}
	nOf := func(c *tcase) *big.Int {
		n := new(big.Int).Mul(c.args[1], c.args[2])
		if k := ai(c, 0); k == 2 || k == 5 {
			n.Mul(n, n)
		}
		return n
	}
	// arithmetic entry: op 0 mul, 1 exp/expi, 2 inv, 3 div
	runAr := func(c *tcase, op int) string {
		kind, p, q, x, y := ai(c, 0), c.args[1], c.args[2], c.args[3], c.args[4]
		if kind <= 2 {
			n, ar, ok := build(kind, p, q)
			if !ok {
				return "refuse"
			}
			if ar.Modulus().Big().Cmp(n) != 0 {
				return "ok:modulus-differs"
			}
			out := new(numct.Nat)
			xn, yn := mkNat(x, x.BitLen()), mkNat(new(big.Int).Abs(y), y.BitLen())
			if c.mode == 1 {
				out = xn
			}
			switch op {
			case 0:
				ar.ModMul(out, xn, yn)
			case 1:
				if y.Sign() >= 0 && c.mode == 0 {
					ar.ModExp(out, xn, yn)
					// MultiBaseExp must agree
					o2 := []*numct.Nat{new(numct.Nat), new(numct.Nat)}
					ar.MultiBaseExp(o2, []*numct.Nat{xn, mkNat(one, 1)}, yn)
					if o2[0].Big().Cmp(out.Big()) != 0 || o2[1].Big().Cmp(bmod(one, n)) != 0 {
						return "ok:multibaseexp-differs-from-modexp"
					}
				} else {
					ar.ModExpI(out, xn, mkInt(y, y.BitLen()))
				}
			case 2:
				if ar.ModInv(out, xn) != ct.True {
					return "refuse"
				}
			case 3:
				if ar.ModDiv(out, xn, yn) != ct.True {
					return "refuse"
				}
			}
			return okz(out.Big())
		}
		// znstar groups
		switch kind {
		case 3, 4:
			gk, err := znstar.NewRSAGroup(nP(p), nP(q))
			if err != nil {
				return "refuse"
			}
			if kind == 3 {
				return groupOp(gk, op, x, y)
			}
			return groupOp(gk.ForgetOrder(), op, x, y)
		default:
			gk, err := znstar.NewPaillierGroup(nP(p), nP(q))
			if err != nil {
				return "refuse"
			}
			return groupOp(gk, op, x, y)
		}
	}
	arOp := func(name, model string, w, op int, expo bool, spec func(n, x, y *big.Int) *big.Int) {
		register(&opDef{name: name, model: model, weight: w, gen: genAr(expo),
			key: func(c *tcase) string {
				if op == 2 && ai(c, 0) == 0 && c.mode == 1 {
					return "modinv-output-aliases-input"
				}
				if op == 3 && (ai(c, 0) == 1 || ai(c, 0) == 2) && c.mode == 1 {
					return "moddiv-output-aliases-dividend"
				}
				return "arith-" + name
			},
			impl: func(c *tcase) (string, string) { return guard(func() string { return runAr(c, op) }), "" },
			orac: func(c *tcase) string {
				v := spec(nOf(c), c.args[3], c.args[4])
				if v == nil {
					if op == 1 {
						return "" // negative power of a non-unit: no value, the code returns something unspecified
					}
					return "refuse"
				}
				return okz(v)
			},
			rel: func(c *tcase, impl, model string) string {
				if op == 1 && model == "refuse" {
					return ""
				}
				if impl != model {
					return diffDetail("implementation", impl, "model", model)
				}
				return ""
			}})
	}
	// the model lines take n x y
	for _, o := range []struct {
		name, model string
		w, op       int
		expo        bool
		spec        func(n, x, y *big.Int) *big.Int
	}{
		{"modular.mul", "zn.mul", 12, 0, false, func(n, x, y *big.Int) *big.Int { return bmod(new(big.Int).Mul(x, y), n) }},
		{"modular.exp", "zn.expi", 14, 1, true, bexp},
		{"modular.inv", "zn.inv", 10, 2, false, func(n, x, _ *big.Int) *big.Int { return new(big.Int).ModInverse(x, n) }},
		{"modular.div", "zn.div", 8, 3, false, func(n, x, y *big.Int) *big.Int {
			inv := new(big.Int).ModInverse(y, n)
			if inv == nil {
				return nil
			}
			return bmod(inv.Mul(inv, x), n)
		}},
	} {
		arOp(o.name, o.model, o.w, o.op, o.expo, o.spec)
	}
	// ExpToN of the Paillier arithmetic: a^N mod N^2
	register(&opDef{name: "modular.exptoN", model: "zn.exp", weight: 5,
		gen: func(r *vh.Rng, g *genCtx) *tcase {
			p, q := g.twoPrimes(r, 256)
			n := new(big.Int).Mul(p, q)
			n2 := new(big.Int).Mul(n, n)
			x := bmod(g.residue(r, modulus{m: n2, factors: []*big.Int{p, two, q, two}}), n2)
			return &tcase{args: []*big.Int{n2, x, n, p, q}}
		},
		impl: func(c *tcase) (string, string) {
			p, q := c.args[3], c.args[4]
			ar, ok := modular.NewOddPrimeSquareFactors(mkNat(p, p.BitLen()), mkNat(q, q.BitLen()))
			if ok != ct.True {
				return "refuse", ""
			}
			out := new(numct.Nat)
			ar.ExpToN(out, mkNat(c.args[1], c.args[1].BitLen()))
			return okz(out.Big()), ""
		},
		orac: func(c *tcase) string { return okz(new(big.Int).Exp(c.args[1], c.args[2], c.args[0])) }})
}

// modelLine override for the modular/znstar ops: the model entries take n x y.
func init() {
	for _, name := range []string{"modular.mul", "modular.exp", "modular.inv", "modular.div"} {
		o := opByName[name]
		o.lineArgs = func(c *tcase) []*big.Int {
			n := new(big.Int).Mul(c.args[1], c.args[2])
			if k := ai(c, 0); k == 2 || k == 5 {
				n.Mul(n, n)
			}
			if name == "modular.inv" {
				return []*big.Int{n, c.args[3]}
			}
			return []*big.Int{n, c.args[3], c.args[4]}
		}
	}
	opByName["modular.exptoN"].lineArgs = func(c *tcase) []*big.Int { return c.args[:3] }
	opByName["num.uint.div"].lineArgs = func(c *tcase) []*big.Int {
		return []*big.Int{c.args[0], c.args[1], zi(c.args[1].BitLen()), c.args[2], zi(c.args[2].BitLen())}
	}
	for _, name := range []string{"num.uint.inv", "num.uint.neg", "num.uint.sqrt"} {
		opByName[name].lineArgs = func(c *tcase) []*big.Int { return c.args[:2] }
	}
}

type unitLike[W any] interface {
	Mul(W) W
	Exp(*num.Nat) W
	ExpI(*num.Int) W
	TryInv() (W, error)
	TryDiv(W) (W, error)
	Square() W
	Value() *num.Uint
}

type groupLike[W any] interface {
	FromNatCT(*numct.Nat) (W, error)
}

func groupOp[W unitLike[W], G groupLike[W]](g G, op int, x, y *big.Int) string {
	xe, err := g.FromNatCT(mkNat(x, x.BitLen()))
	if err != nil {
		return "refuse"
	}
	switch op {
	case 0:
		ye, err := g.FromNatCT(mkNat(y, y.BitLen()))
		if err != nil {
			return "refuse"
		}
		if x.Cmp(y) == 0 && xe.Square().Value().Big().Cmp(xe.Mul(ye).Value().Big()) != 0 {
			return "ok:square-differs-from-mul"
		}
		return okz(xe.Mul(ye).Value().Big())
	case 1:
		if y.Sign() >= 0 {
			return okz(xe.Exp(nN(y)).Value().Big())
		}
		return okz(xe.ExpI(nZ(y)).Value().Big())
	case 2:
		v, err := xe.TryInv()
		if err != nil {
			return "refuse"
		}
		return okz(v.Value().Big())
	default:
		ye, err := g.FromNatCT(mkNat(y, y.BitLen()))
		if err != nil {
			return "refuse"
		}
		v, err := xe.TryDiv(ye)
		if err != nil {
			return "refuse"
		}
		return okz(v.Value().Big())
	}
}
