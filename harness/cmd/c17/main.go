// c17 — correspondence harness for property C17 (big-number and modular arithmetic
// return the mathematically correct value).  See /verif/DESIGN.md §5 C17.
//
// Every operation of the table in ops_*.go is run on generated operands through the
// public API of the implementation (numct, num, modular, crt, znstar, nt.Jacobi, prime
// generators), through the extracted Coq model (coq/model/NumTheory.v, table entry of
// the same name) and through an independent math/big oracle.  Relation R (model vs
// implementation) is equality of the canonical result text unless the operation
// defines a weaker one (any valid square root, any solution of a modular division);
// the property predicate (PropFail) is implementation vs math/big.
package main

import (
	"fmt"
	"math/big"
	"os"
	"sort"
	"strings"

	"verif/harness/internal/vh"
)

// ---- cases ---------------------------------------------------------------------------

type tcase struct {
	op    *opDef
	args  []*big.Int // sent to the model
	mode  int        // aliasing / API variant, implementation only
	extra []*big.Int // values produced by the implementation that the model judges (sampled values)
}

func (c *tcase) line() string {
	parts := make([]string, 0, len(c.args)+1)
	parts = append(parts, c.op.model)
	args := c.args
	if c.op.lineArgs != nil {
		args = c.op.lineArgs(c)
	}
	for _, a := range args {
		parts = append(parts, vh.ZHex(a))
	}
	return strings.Join(parts, " ")
}

func (c *tcase) canon() string {
	parts := make([]string, 0, len(c.args)+2)
	parts = append(parts, c.op.name, fmt.Sprintf("m%d", c.mode))
	for _, a := range c.args {
		parts = append(parts, vh.ZHex(a))
	}
	return strings.Join(parts, " ")
}

func parseCase(s string) (*tcase, error) {
	f := strings.Fields(s)
	if len(f) < 2 {
		return nil, fmt.Errorf("bad case %q", s)
	}
	op := opByName[f[0]]
	if op == nil {
		return nil, fmt.Errorf("unknown op %q", f[0])
	}
	c := &tcase{op: op}
	fmt.Sscanf(f[1], "m%d", &c.mode)
	for _, h := range f[2:] {
		c.args = append(c.args, vh.UnZHex(h))
	}
	return c, nil
}

// opDef is one exported operation (or a small family sharing one specification).
type opDef struct {
	name   string // unique, used in canonical case text and distribution
	model  string // entry of NumTheory.table
	weight int    // relative number of cases
	gen    func(r *vh.Rng, g *genCtx) *tcase
	// impl drives the implementation; returns canonical result text and, if an operand
	// that is not the output was modified, a description of it.
	impl func(c *tcase) (res string, mutated string)
	// orac is the math/big specification; "" = no opinion.
	orac func(c *tcase) string
	// rel, when set, replaces equality as relation between model and implementation
	// result; returns "" when they agree.
	rel func(c *tcase, impl, model string) string
	// pred, when set, replaces "impl == orac" as property predicate; returns "" when it holds.
	pred func(c *tcase, impl string) string
	// key for mismatches of this op (default "arith-"+name)
	key func(c *tcase) string
	// lineArgs, when set, selects/derives the arguments sent to the model entry
	lineArgs func(c *tcase) []*big.Int
	// trivial says whether the case is rejected at the first guard
	trivial func(c *tcase, impl string) bool
}

var ops []*opDef
var opByName = map[string]*opDef{}

func register(o *opDef) {
	if o.model == "" {
		o.model = o.name
	}
	if o.weight == 0 {
		o.weight = 10
	}
	if opByName[o.name] != nil {
		panic("duplicate op " + o.name)
	}
	opByName[o.name] = o
	ops = append(ops, o)
}

// ---- canonical results ------------------------------------------------------------------

func okz(vals ...*big.Int) string {
	parts := make([]string, len(vals))
	for i, v := range vals {
		parts[i] = vh.ZHex(v)
	}
	return "ok:" + strings.Join(parts, ",")
}

func okBytes(b []byte) string {
	parts := make([]string, len(b))
	for i, v := range b {
		parts[i] = fmt.Sprintf("%x", v)
	}
	return "ok:" + strings.Join(parts, ",")
}

func zb(b bool) *big.Int {
	if b {
		return big.NewInt(1)
	}
	return big.NewInt(0)
}

func zi(i int) *big.Int { return big.NewInt(int64(i)) }

func ai(c *tcase, i int) int { return int(c.args[i].Int64()) }

func parseOk(s string) []*big.Int {
	if !strings.HasPrefix(s, "ok:") {
		return nil
	}
	var out []*big.Int
	for _, h := range strings.Split(s[3:], ",") {
		if h == "" {
			continue
		}
		x, ok := new(big.Int).SetString(h, 16)
		if !ok {
			return nil // a consistency marker such as "ok:clone-differs", not a value list
		}
		out = append(out, x)
	}
	return out
}

// guard runs f and maps a panic to "panic".
func guard(f func() string) (res string) {
	if p := vh.Safely(func() { res = f() }); p != "" {
		return "panic"
	}
	return res
}

// ---- evaluation ----------------------------------------------------------------------------

type outcome struct {
	c       *tcase
	impl    string
	mutated string
}

// report forwards a mismatch, keeping at most a few (the shortest cases come first in the
// result file anyway) per key so that one frequent discrepancy cannot crowd out the others.
var perKey = map[string]int{}

func report(res *vh.Result, m vh.Mismatch) {
	perKey[m.Key+"/"+m.Kind]++
	if perKey[m.Key+"/"+m.Kind] <= 4 {
		res.Mismatch(m)
	}
}

func evaluate(a vh.Args, res *vh.Result, cases []*tcase) {
	if len(cases) == 0 {
		return
	}
	lines := make([]string, len(cases))
	outs := make([]outcome, len(cases))
	for i, c := range cases {
		c := c
		var r, m string
		if p := vh.Safely(func() { r, m = c.op.impl(c) }); p != "" {
			r = "panic"
		}
		outs[i] = outcome{c: c, impl: r, mutated: m}
		lines[i] = c.line() // after the implementation ran: sampled values are part of the line
	}
	model, err := vh.Driver(a.Driver, lines)
	if err != nil {
		fmt.Fprintln(os.Stderr, err)
		os.Exit(3)
	}
	for i, o := range outs {
		c := o.c
		nontrivial := true
		if c.op.trivial != nil {
			nontrivial = !c.op.trivial(c, o.impl)
		}
		res.Count(c.op.name, c.canon(), nontrivial)
		key := "arith-" + c.op.name
		if c.op.key != nil {
			key = c.op.key(c)
		}
		// property predicate on the implementation alone
		propDetail := ""
		if p := vh.Safely(func() {
			if c.op.pred != nil {
				propDetail = c.op.pred(c, o.impl)
			} else if c.op.orac != nil {
				if want := c.op.orac(c); want != "" && want != o.impl {
					propDetail = diffDetail("implementation", o.impl, "math/big", want)
				}
			}
		}); p != "" {
			res.Note("harness oracle panicked on %s: %s", trunc(c.canon()), p)
		}
		if o.mutated != "" {
			report(res, vh.Mismatch{ID: fmt.Sprintf("%s-%d", c.op.name, i), Kind: "prop", Key: "cap-below-announced-modifies-operand",
				Detail: "an input operand that is not the output was modified: " + o.mutated, Case: c.canon(), PropFail: true,
				What: "operands are values: an operation must not change its inputs"})
		}
		// relation R model vs implementation
		corr := ""
		if c.op.rel != nil {
			corr = c.op.rel(c, o.impl, model[i])
		} else if o.impl != model[i] {
			corr = diffDetail("implementation", o.impl, "model", model[i])
		}
		switch {
		case corr != "":
			m := vh.Mismatch{ID: fmt.Sprintf("%s-%d", c.op.name, i), Kind: "corr", Key: key, Detail: corr, Case: c.canon(),
				PropFail: propDetail != "", What: "correspondence " + c.op.name + " = NumTheory.table[" + c.op.model + "]"}
			if propDetail != "" {
				m.Detail += " ; property: " + propDetail
			}
			report(res, m)
		case propDetail != "":
			report(res, vh.Mismatch{ID: fmt.Sprintf("%s-%d", c.op.name, i), Kind: "prop", Key: key, Detail: propDetail, Case: c.canon(),
				PropFail: true, What: "mathematical value of " + c.op.name + " (math/big oracle)"})
		}
	}
}

// diffDetail describes the first differing component of two canonical results.
func diffDetail(na, a, nb, b string) string {
	la, lb := strings.Split(strings.TrimPrefix(a, "ok:"), ","), strings.Split(strings.TrimPrefix(b, "ok:"), ",")
	if strings.HasPrefix(a, "ok:") && strings.HasPrefix(b, "ok:") && len(la) == len(lb) && len(la) > 1 {
		for i := range la {
			if la[i] != lb[i] {
				return fmt.Sprintf("output %d of %d: %s %s, %s %s", i, len(la), na, trunc(la[i]), nb, trunc(lb[i]))
			}
		}
	}
	return fmt.Sprintf("%s %s, %s %s", na, trunc(a), nb, trunc(b))
}

func trunc(s string) string {
	if len(s) > 160 {
		return s[:160] + "…"
	}
	return s
}

func main() {
	a := vh.ParseArgs()
	res := vh.NewResult("C17", a.Seed, a.Tier)
	res.Rule = "per operation (numct Nat/Int/Modulus, num Nat/Int/Uint/Rat, modular, crt, znstar, nt.Jacobi, prime generators): operands from a size ladder 0..2048 bits (thorough 4096) with boundary shapes (0, 1, 2^k, 2^k-1, limb boundaries), announced capacities below/at/above the true length, negatives, moduli 1/2/2^k/even/odd prime/odd composite with known factorisation, operands >= modulus, output aliased with inputs and the same operand passed twice; non-trivial = not refused at the first guard; distinct by canonical case text"

	if a.Replay != "" {
		replay(a, res)
		res.Write(a.Out)
		return
	}

	total := 7000
	maxBits := 2048
	if a.Tier == "thorough" {
		total, maxBits = 120000, 4096
	}
	if a.Search {
		total *= 4
	}
	g := newGenCtx(a.Seed, maxBits, a.Tier)
	wsum := 0
	for _, o := range ops {
		wsum += o.weight
	}
	sort.SliceStable(ops, func(i, j int) bool { return ops[i].name < ops[j].name })
	var cases []*tcase
	for _, o := range ops {
		n := total * o.weight / wsum
		if n < 8 {
			n = 8
		}
		stream := o.name
		if a.Search {
			stream = "search-" + o.name
		}
		for i := 0; i < n; i++ {
			r := vh.NewRng(a.Seed, "C17", stream, i)
			g.tight = i%10 < 3 // a fixed 30 % share of every operation's cases has tightly announced operands
			c := o.gen(r, g)
			if c == nil {
				continue
			}
			c.op = o
			cases = append(cases, c)
		}
	}
	evaluate(a, res, cases)
	if !a.Search {
		primeChecks(a, res, g)
	}
	var ks []string
	for k := range perKey {
		ks = append(ks, k)
	}
	sort.Strings(ks)
	for _, k := range ks {
		res.Note("mismatching cases %s: %d", k, perKey[k])
	}
	res.Write(a.Out)
}

func replay(a vh.Args, res *vh.Result) {
	b, err := os.ReadFile(a.Replay)
	if err != nil {
		fmt.Fprintln(os.Stderr, err)
		os.Exit(3)
	}
	for _, l := range strings.Split(string(b), "\n") {
		if strings.HasPrefix(l, "case: ") {
			txt := strings.TrimPrefix(l, "case: ")
			if strings.HasPrefix(txt, "prime ") {
				replayPrime(a, res, txt)
				return
			}
			c, err := parseCase(txt)
			if err != nil {
				fmt.Fprintln(os.Stderr, err)
				os.Exit(3)
			}
			evaluate(a, res, []*tcase{c})
			return
		}
	}
	fmt.Fprintln(os.Stderr, "no case: line in replay file")
	os.Exit(3)
}
