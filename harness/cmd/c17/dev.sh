#!/bin/bash
# developer loop: rebuild model, extraction, driver, harness; run quick tier
set -e
export GOFLAGS=-mod=mod GOPROXY=off GOSUMDB=off GOTOOLCHAIN=local GOCACHE=/verif/.cache/go-build CGO_ENABLED=0
cd /verif/coq && timeout 600 coqc -Q . V model/NumTheory.v
cd /verif/ocaml/c17 && timeout 600 coqc -Q /verif/coq V -w -extraction-opaque-accessed,-extraction-reserved-identifier,-notation-overridden /verif/coq/extract/ExtractC17.v
cp ../common/helpers.ml . && ocamlfind ocamlopt -inline 50 -package zarith -linkpkg -w -a model.mli model.ml helpers.ml driver.ml -o driver
cd /verif/harness && go1.26 build -tags purego,verif -o bin/c17 ./cmd/c17
time ./bin/c17 -seed ${SEED:-1} -tier ${TIER:-quick} -driver /verif/ocaml/c17/driver -out /tmp/c17.json
python3 cmd/c17/show.py /tmp/c17.json
