package main

// Object-history family: short sequences of operations on the same objects.  The wrapper types of
// num carry lazily cached state (num.NatPlus caches its numct.Modulus, num.Uint carries the modulus
// of its ring, saferith.Nat remembers the modulus it was last reduced by).  An object is first put
// into its "used" states, then a derived object is produced by a value-changing method, then the
// derived object is used in every role (value, modulus, exponent).  Model and math/big oracle are
// computed from the VALUES only, so stale cached state in a derived object shows as a mismatch.

import (
	"fmt"
	"math/big"

	"github.com/bronlabs/bron-crypto/pkg/base/ct"
	"github.com/bronlabs/bron-crypto/pkg/base/nt/num"
	"github.com/bronlabs/bron-crypto/pkg/base/nt/numct"

	"verif/harness/internal/vh"
)

// useNatPlus puts n into the "used" states selected by mask.
func useNatPlus(n *num.NatPlus, mask int, x *big.Int) *num.NatPlus {
	if mask&8 != 0 {
		n = n.Clone()
	}
	if mask&1 != 0 {
		if zn, err := num.NewZMod(n); err == nil {
			if u, err := zn.FromInt(nZ(x)); err == nil {
				_ = u.Add(u).Mul(u)
			}
		}
	}
	if mask&2 != 0 {
		_ = n.ModulusCT().BitLen()
	}
	if mask&4 != 0 {
		_ = nZ(x).Mod(n)
		_ = nN(new(big.Int).Abs(x)).Mod(n)
	}
	if mask&16 != 0 {
		_, _, _, _ = n.Big(), n.Bytes(), n.Cardinal(), n.TrueLen()
		_, _, _ = n.IsProbablyPrime(), n.HashCode(), n.String()
	}
	if mask&32 != 0 {
		_ = nN(new(big.Int).Abs(x)).IsUnit(n)
		_ = nZ(x).IsInRange(n)
		if q, err := num.Q().New(nZ(x), n); err == nil {
			_ = q.Canonical()
		}
	}
	if mask&64 != 0 {
		c := n.Clone()
		_ = c.ModulusCT()
	}
	return n
}

// deriveNatPlus applies one value-changing (or converting) method.
func deriveNatPlus(op int, n, a *num.NatPlus, ai *num.Int, s uint) (*num.NatPlus, error) {
	switch op {
	case 0:
		return n.Increment(), nil
	case 1:
		return n.Decrement()
	case 2:
		return n.Add(a), nil
	case 3:
		return n.TrySub(a)
	case 4:
		return n.Mul(a), nil
	case 5:
		return n.Lsh(s), nil
	case 6:
		return n.TryRsh(s)
	case 7:
		return n.Clone(), nil
	case 8:
		return n.Abs(), nil
	case 9:
		return n.Double(), nil
	case 10:
		return n.Square(), nil
	case 11:
		return n.TryDiv(a)
	case 12:
		return num.NPlus().FromNat(n.Nat())
	case 13:
		return num.NPlus().FromInt(n.Lift())
	case 14:
		return num.NPlus().FromCardinal(n.Cardinal())
	case 15:
		return num.NPlus().FromModulusCT(n.ModulusCT())
	case 16:
		return num.NPlus().FromBytes(n.Bytes())
	default: // 17: denominator of the canonical form of ai/n
		q, err := num.Q().New(ai, n)
		if err != nil {
			return nil, err
		}
		return q.Canonical().Denominator(), nil
	}
}

var npOps = []int{0, 1, 2, 3, 4, 5, 6, 7, 8, 9, 10, 11, 12, 13, 14, 15, 16, 17}

func bigDerive(op int, n, a *big.Int, s uint) *big.Int {
	var v *big.Int
	switch op {
	case 0:
		v = new(big.Int).Add(n, one)
	case 1:
		v = new(big.Int).Sub(n, one)
	case 2:
		v = new(big.Int).Add(n, a)
	case 3:
		v = new(big.Int).Sub(n, a)
	case 4:
		v = new(big.Int).Mul(n, a)
	case 5:
		v = new(big.Int).Lsh(n, s)
	case 6:
		v = new(big.Int).Rsh(n, s)
	case 9:
		v = new(big.Int).Lsh(n, 1)
	case 10:
		v = new(big.Int).Mul(n, n)
	case 11:
		if a.Sign() <= 0 || new(big.Int).Mod(n, a).Sign() != 0 {
			return nil
		}
		v = new(big.Int).Div(n, a)
	case 17:
		v = new(big.Int).Div(n, new(big.Int).GCD(nil, nil, new(big.Int).Abs(a), n))
	default:
		v = new(big.Int).Set(n)
	}
	if v.Sign() <= 0 {
		return nil
	}
	return v
}

func init() {
	// ---- num.NatPlus histories: n p x y e used1 used2 op1 op2 s   (model: n p x y e op1 op2 s)
	register(&opDef{name: "num.history", weight: 22,
		gen: func(r *vh.Rng, g *genCtx) *tcase {
			h := *g
			if h.maxBits > 512 {
				h.maxBits = 512
			}
			var n *big.Int
			switch r.Intn(6) {
			case 0:
				n = big.NewInt(int64(1 + r.Intn(300)))
			case 1:
				n = new(big.Int).Set(h.prime(r, h.maxBits))
			case 2:
				n = h.modulus(r).m
			default:
				n = h.val(r)
			}
			if n.Sign() <= 0 {
				n = big.NewInt(101)
			}
			p := h.valBits(r, 1+r.Intn(n.BitLen()+2))
			switch r.Intn(5) {
			case 0:
				p = big.NewInt(1)
			case 1: // a divisor of n
				p = new(big.Int).GCD(nil, nil, n, big.NewInt(int64(2*3*5*7*11*13)))
			case 2:
				p = new(big.Int).Set(n)
			}
			if p.Sign() <= 0 {
				p = big.NewInt(1)
			}
			x, y := h.sval(r), h.sval(r)
			if r.Intn(3) == 0 { // a value between the original and the derived modulus (250 mod 100 vs mod 101)
				x = new(big.Int).Add(new(big.Int).Lsh(n, 1), big.NewInt(int64(r.Intn(97))))
			}
			e := h.valBits(r, r.Intn(70))
			op1 := vh.Pick(r, npOps)
			op2 := -1
			if r.Intn(2) == 0 {
				op2 = vh.Pick(r, npOps)
			}
			used1, used2 := r.Intn(128), r.Intn(128)
			if r.Intn(4) == 0 {
				used1 = 0
			}
			s := vh.Pick(r, []int{0, 1, 2, 7, 8, 63, 64, 65, r.Intn(100)})
			return &tcase{args: []*big.Int{n, p, x, y, e, zi(used1), zi(used2), zi(op1), zi(op2), zi(s)}}
		},
		impl: func(c *tcase) (string, string) {
			nv, pv, x, y, e := c.args[0], c.args[1], c.args[2], c.args[3], c.args[4]
			used1, used2, op1, op2, s := ai(c, 5), ai(c, 6), ai(c, 7), ai(c, 8), uint(ai(c, 9))
			n := useNatPlus(nP(nv), used1, x)
			a := nP(pv)
			aInt := nZ(new(big.Int).Neg(pv))
			d, err := deriveNatPlus(op1, n, a, aInt, s)
			if err != nil {
				return "refuse", ""
			}
			if op2 >= 0 {
				d = useNatPlus(d, used2, y)
				if d, err = deriveNatPlus(op2, d, a, aInt, s); err != nil {
					return "refuse", ""
				}
			}
			// the original object still has its value and a consistent cached modulus
			if n.Big().Cmp(nv) != 0 || n.ModulusCT().Big().Cmp(nv) != 0 {
				return "ok:original-object-changed", ""
			}
			// --- d as a value
			dv := d.Big()
			if d.Value().Big().Cmp(dv) != 0 || new(big.Int).SetBytes(d.Bytes()).Cmp(dv) != 0 || d.Nat().Big().Cmp(dv) != 0 ||
				d.Lift().Big().Cmp(dv) != 0 || d.Cardinal().Big().Cmp(dv) != 0 || d.TrueLen() != dv.BitLen() {
				return "ok:value-accessors-disagree", ""
			}
			o := d.Compare(nP(nv))
			// --- d as a modulus
			if d.ModulusCT().Big().Cmp(dv) != 0 {
				return fmt.Sprintf("ok:ModulusCT-%s-differs-from-value-%s", d.ModulusCT().Big().Text(16), dv.Text(16)), ""
			}
			zn, err := num.NewZMod(d)
			if err != nil {
				return "panic", ""
			}
			if zn.Modulus().Big().Cmp(dv) != 0 || zn.ModulusCT().Big().Cmp(dv) != 0 || zn.Order().Big().Cmp(dv) != 0 {
				return "ok:ZMod-Modulus-and-ModulusCT-disagree", ""
			}
			xm := nZ(x).Mod(d)
			if x.Sign() >= 0 {
				if nN(x).Mod(d).Big().Cmp(xm.Big()) != 0 {
					return "ok:nat-mod-differs-from-int-mod", ""
				}
			}
			ux, err1 := zn.FromInt(nZ(x))
			uy, err2 := zn.FromInt(nZ(y))
			if err1 != nil || err2 != nil {
				return "refuse", ""
			}
			if ux.Modulus().Big().Cmp(dv) != 0 || ux.ModulusCT().Big().Cmp(dv) != 0 {
				return "ok:element-modulus-differs", ""
			}
			inRange := nZ(x).IsInRange(d)
			if x.Sign() >= 0 && zn.IsInRange(nN(x)) != inRange {
				return "ok:range-checks-disagree", ""
			}
			// --- d as an exponent (in the ring of the original n)
			zn0, _ := num.NewZMod(nP(nv))
			ex0, _ := zn0.FromInt(nZ(x))
			return okz(dv, xm.Big(), ux.Add(uy).Big(), ux.Mul(uy).Big(), ux.Exp(nN(e)).Big(), zb(inRange),
				zb(o.IsLessThan()), zb(o.IsEqual()), zb(o.IsGreaterThan()), ex0.Exp(d.Nat()).Big()), ""
		},
		orac: func(c *tcase) string {
			nv, pv, x, y, e := c.args[0], c.args[1], c.args[2], c.args[3], c.args[4]
			op1, op2, s := ai(c, 7), ai(c, 8), uint(ai(c, 9))
			param := func(op int) *big.Int {
				if op == 17 {
					return new(big.Int).Neg(pv)
				}
				return pv
			}
			d := bigDerive(op1, nv, param(op1), s)
			if d != nil && op2 >= 0 {
				d = bigDerive(op2, d, param(op2), s)
			}
			if d == nil {
				return "refuse"
			}
			k := d.Cmp(nv)
			return okz(d, bmod(x, d), bmod(new(big.Int).Add(x, y), d), bmod(new(big.Int).Mul(x, y), d), new(big.Int).Exp(bmod(x, d), e, d),
				zb(x.Sign() >= 0 && x.Cmp(d) < 0), zb(k < 0), zb(k == 0), zb(k > 0), new(big.Int).Exp(bmod(x, nv), d, nv))
		},
		key:     func(c *tcase) string { return "history-num.natplus" },
		trivial: func(c *tcase, impl string) bool { return impl == "refuse" }})
	opByName["num.history"].lineArgs = func(c *tcase) []*big.Int {
		p := c.args[1]
		return []*big.Int{c.args[0], p, c.args[2], c.args[3], c.args[4], c.args[7], c.args[8], c.args[9]}
	}

	// ---- num.Uint histories: n x y e op1 op2 s
	uintOps := []int{0, 1, 2, 3, 4, 5, 6, 7, 8, 9, 10, 11, 12}
	stepU := func(op int, u, y *num.Uint, e *num.Nat, s uint) (*num.Uint, error) {
		switch op {
		case 0:
			return u.Add(y), nil
		case 1:
			return u.Sub(y), nil
		case 2:
			return u.Mul(y), nil
		case 3:
			return u.Neg(), nil
		case 4:
			return u.Exp(e), nil
		case 5:
			return u.Lsh(s), nil
		case 6:
			return u.Rsh(s), nil
		case 7:
			return u.Clone(), nil
		case 8:
			return u.Increment(), nil
		case 9:
			return u.Decrement(), nil
		case 10:
			return u.Double(), nil
		case 11:
			return u.Square(), nil
		default:
			return u.TryInv()
		}
	}
	bigStepU := func(op int, n, u, y, e *big.Int, s uint) *big.Int {
		switch op {
		case 0:
			return bmod(new(big.Int).Add(u, y), n)
		case 1:
			return bmod(new(big.Int).Sub(u, y), n)
		case 2:
			return bmod(new(big.Int).Mul(u, y), n)
		case 3:
			return bmod(new(big.Int).Neg(u), n)
		case 4:
			return new(big.Int).Exp(u, e, n)
		case 5:
			return bmod(new(big.Int).Lsh(u, s), n)
		case 6:
			return bmod(new(big.Int).Rsh(u, s), n)
		case 8:
			return bmod(new(big.Int).Add(u, one), n)
		case 9:
			return bmod(new(big.Int).Sub(u, one), n)
		case 10:
			return bmod(new(big.Int).Lsh(u, 1), n)
		case 11:
			return bmod(new(big.Int).Mul(u, u), n)
		case 12:
			if n.Cmp(one) == 0 {
				return new(big.Int)
			}
			return new(big.Int).ModInverse(u, n)
		}
		return bmod(u, n)
	}
	register(&opDef{name: "uint.history", weight: 10,
		gen: func(r *vh.Rng, g *genCtx) *tcase {
			h := *g
			if h.maxBits > 512 {
				h.maxBits = 512
			}
			m := h.modulus(r)
			x, y := h.residue(r, m), h.residue(r, m)
			op2 := -1
			if r.Intn(2) == 0 {
				op2 = vh.Pick(r, uintOps)
			}
			return &tcase{args: []*big.Int{m.m, x, y, h.valBits(r, r.Intn(70)), zi(vh.Pick(r, uintOps)), zi(op2), zi(vh.Pick(r, []int{0, 1, 7, 8, 63, 64, 65, r.Intn(100)}))},
				mode: r.Intn(128)}
		},
		impl: func(c *tcase) (string, string) {
			nv, x, y, e := c.args[0], c.args[1], c.args[2], c.args[3]
			op1, op2, s := ai(c, 4), ai(c, 5), uint(ai(c, 6))
			n := useNatPlus(nP(nv), c.mode, x)
			zn, err := num.NewZMod(n)
			if err != nil {
				return "panic", ""
			}
			ux, _ := zn.FromNat(nN(bmod(x, nv)))
			uy, _ := zn.FromNat(nN(bmod(y, nv)))
			u, err := stepU(op1, ux, uy, nN(e), s)
			if err == nil && op2 >= 0 {
				u, err = stepU(op2, u, uy, nN(e), s)
			}
			if err != nil {
				return "refuse", ""
			}
			if u.Modulus().Big().Cmp(nv) != 0 || u.ModulusCT().Big().Cmp(nv) != 0 || u.Group().Modulus().Big().Cmp(nv) != 0 ||
				u.Value().Big().Cmp(u.Big()) != 0 || u.Nat().Big().Cmp(u.Big()) != 0 || ux.Big().Cmp(bmod(x, nv)) != 0 {
				return "ok:accessors-disagree", ""
			}
			sym, err := num.Z().FromUintSymmetric(u)
			if err != nil {
				return "refuse", ""
			}
			return okz(u.Big(), u.Modulus().Big(), u.Add(ux).Big(), sym.Big()), ""
		},
		// modulus 1: the inverse is a matter of convention, not compared
		rel: func(c *tcase, impl, model string) string {
			if impl == model || (c.args[0].Cmp(one) == 0 && (ai(c, 4) == 12 || ai(c, 5) == 12)) {
				return ""
			}
			return diffDetail("implementation", impl, "model", model)
		},
		orac: func(c *tcase) string {
			nv, e := c.args[0], c.args[3]
			if nv.Cmp(one) == 0 {
				return ""
			}
			x, y := bmod(c.args[1], nv), bmod(c.args[2], nv)
			op1, op2, s := ai(c, 4), ai(c, 5), uint(ai(c, 6))
			u := bigStepU(op1, nv, x, y, e, s)
			if u != nil && op2 >= 0 {
				u = bigStepU(op2, nv, u, y, e, s)
			}
			if u == nil {
				return "refuse"
			}
			return okz(u, nv, bmod(new(big.Int).Add(u, x), nv), symmetric(u, nv))
		},
		key: func(c *tcase) string { return "history-num.uint" }})
	opByName["uint.history"].lineArgs = func(c *tcase) []*big.Int { return c.args }

	// ---- numct.Nat "reduced modulo m" cache: m x ax y ay mut s
	register(&opDef{name: "nat.reduced", weight: 8,
		gen: func(r *vh.Rng, g *genCtx) *tcase {
			h := *g
			if h.maxBits > 600 {
				h.maxBits = 600
			}
			m := h.modulus(r)
			x, y := h.residue(r, m), h.residue(r, m)
			if r.Intn(3) == 0 {
				y = h.val(r)
			}
			return &tcase{args: []*big.Int{m.m, x, zi(h.capOK(r, x)), y, zi(h.capOK(r, y)), zi(r.Intn(11)), zi(r.Intn(m.m.BitLen() + 70))}}
		},
		impl: func(c *tcase) (string, string) {
			m := mkMod(c.args[0])
			x, y := mkNat(c.args[1], ai(c, 2)), mkNat(c.args[3], ai(c, 4))
			r := new(numct.Nat)
			m.Mod(r, x) // r now remembers that it is reduced modulo m
			s := ai(c, 6)
			switch ai(c, 5) {
			case 0:
				r.AddCap(r, y, -1)
			case 1:
				r.Increment()
			case 2:
				r.Lsh(r, uint(s))
			case 3:
				r.Mul(r, y)
			case 4:
				r.Set(y)
			case 5:
				r.SetBit(s, 1)
			case 6:
				r.Or(r, y)
			case 7:
				r.Double(r)
			case 8:
				r.Resize(r.AnnouncedLen() + 7)
			case 9:
				r.CondAssign(ct.False, y)
			default:
				r = r.Clone()
			}
			o1, o2, o3 := new(numct.Nat), new(numct.Nat), new(numct.Nat)
			m.Mod(o1, r)
			m.ModAdd(o2, r, y)
			m.ModMul(o3, r, y)
			return okz(r.Big(), o1.Big(), o2.Big(), o3.Big()), ""
		},
		orac: func(c *tcase) string {
			m := c.args[0]
			r, y := bmod(tr(ai(c, 2), c.args[1]), m), tr(ai(c, 4), c.args[3])
			s := ai(c, 6)
			v := r
			switch ai(c, 5) {
			case 0:
				v = new(big.Int).Add(r, y)
			case 1:
				v = new(big.Int).Add(r, one)
			case 2:
				v = new(big.Int).Lsh(r, uint(s))
			case 3:
				v = new(big.Int).Mul(r, y)
			case 4:
				v = y
			case 5:
				v = new(big.Int).SetBit(new(big.Int).Set(r), s, 1)
			case 6:
				v = new(big.Int).Or(r, y)
			case 7:
				v = new(big.Int).Lsh(r, 1)
			}
			return okz(v, bmod(v, m), bmod(new(big.Int).Add(v, y), m), bmod(new(big.Int).Mul(v, y), m))
		},
		key: func(c *tcase) string { return "history-numct.nat-reduced" }})
}
