package main

import (
	"crypto/sha256"
	"fmt"

	"github.com/bronlabs/bron-crypto/pkg/base/curves/k256"
	"github.com/bronlabs/bron-crypto/pkg/mpc"
	rsess "github.com/bronlabs/bron-crypto/pkg/mpc/session"
	"github.com/bronlabs/bron-crypto/pkg/mpc/sharing"
	rdkls "github.com/bronlabs/bron-crypto/pkg/mpc/signatures/ecdsa/dkls23"
	"github.com/bronlabs/bron-crypto/pkg/mpc/signatures/ecdsa/dkls23/keygen"
	"github.com/bronlabs/bron-crypto/pkg/mpc/signatures/ecdsa/dkls23/signing_bbot"
	"github.com/bronlabs/bron-crypto/pkg/signatures/ecdsa"

	"verif/harness/internal/drive"
	"verif/harness/internal/drive/keys"
	"verif/harness/internal/vh"
)

// signDklsK256 runs one real DKLs23 (BBOT multiplier) threshold-ECDSA signing over secp256k1 / SHA-256,
// wired as verif/harness/internal/drive/dkls23 does (that driver deals its own keys), with the given
// base shards and quorum, and verifies the signature with the library's ECDSA verifier under the
// public key of `orig` (a shard of the FIRST epoch).  Returns "" when the signature verifies.
func signDklsK256(seed int64, label string, msg []byte, orig *mpc.BaseShard[*k256.Point, *k256.Scalar], shards map[uint64]*mpc.BaseShard[*k256.Point, *k256.Scalar], quorum []uint64) (res string) {
	if p := vh.Safely(func() { res = signDklsK256Inner(seed, label, msg, orig, shards, quorum) }); p != "" {
		return "panic: " + p
	}
	return res
}

func signDklsK256Inner(seed int64, label string, msg []byte, orig *mpc.BaseShard[*k256.Point, *k256.Scalar], shards map[uint64]*mpc.BaseShard[*k256.Point, *k256.Scalar], quorum []uint64) string {
	curve := k256.NewCurve()
	suite, err := ecdsa.NewSuite(curve, sha256.New)
	if err != nil {
		return "suite: " + err.Error()
	}
	labels := map[sharing.ID]string{}
	for _, x := range quorum {
		labels[sharing.ID(x)] = label
	}
	common := keys.Common{Seed: seed, Prop: prop, Labels: labels, Quorum: idList(quorum), Session: "seeded", Message: msg}
	e := keys.NewEngine("dkls23-c06", common)
	ds := map[sharing.ID]*rdkls.Shard[*k256.Point, *k256.BaseFieldElement, *k256.Scalar]{}
	for _, id := range e.IDs {
		bs := shards[uint64(id)]
		if bs == nil {
			return fmt.Sprintf("quorum member %d holds no shard", uint64(id))
		}
		sh, err := keygen.NewShard(bs)
		if err != nil {
			return fmt.Sprintf("keygen.NewShard(%d): %v", uint64(id), err)
		}
		ds[id] = sh
	}
	var ctxs map[sharing.ID]*rsess.Context
	if ctxs, err = keys.Contexts(common); err != nil {
		return "session contexts: " + err.Error()
	}
	type C = signing_bbot.Cosigner[*k256.Point, *k256.BaseFieldElement, *k256.Scalar]
	cs := map[sharing.ID]*C{}
	e.Construct(func(id sharing.ID) error {
		c, err := signing_bbot.NewCosigner(ctxs[id], suite, ds[id], e.Tr.Tapes[id])
		if err != nil {
			return err
		}
		cs[id] = c
		return nil
	})
	b1 := map[sharing.ID]*signing_bbot.Round1Broadcast[*k256.Point, *k256.BaseFieldElement, *k256.Scalar]{}
	u1 := map[sharing.ID]map[sharing.ID]*signing_bbot.Round1P2P[*k256.Point, *k256.BaseFieldElement, *k256.Scalar]{}
	e.Each(1, func(id sharing.ID) error {
		b, u, err := cs[id].Round1()
		if err != nil {
			return err
		}
		b1[id], u1[id] = b, keys.Thaw(u)
		return nil
	})
	ib1, iu1 := keys.Deliver(e, 1, b1, u1)
	b2 := map[sharing.ID]*signing_bbot.Round2Broadcast[*k256.Point, *k256.BaseFieldElement, *k256.Scalar]{}
	u2 := map[sharing.ID]map[sharing.ID]*signing_bbot.Round2P2P[*k256.Point, *k256.BaseFieldElement, *k256.Scalar]{}
	e.Each(2, func(id sharing.ID) error {
		b, u, err := cs[id].Round2(keys.Freeze(ib1[id]), keys.Freeze(iu1[id]))
		if err != nil {
			return err
		}
		b2[id], u2[id] = b, keys.Thaw(u)
		return nil
	})
	ib2, iu2 := keys.Deliver(e, 2, b2, u2)
	b3 := map[sharing.ID]*signing_bbot.Round3Broadcast[*k256.Point, *k256.BaseFieldElement, *k256.Scalar]{}
	u3 := map[sharing.ID]map[sharing.ID]*signing_bbot.Round3P2P[*k256.Point, *k256.BaseFieldElement, *k256.Scalar]{}
	e.Each(3, func(id sharing.ID) error {
		b, u, err := cs[id].Round3(keys.Freeze(ib2[id]), keys.Freeze(iu2[id]))
		if err != nil {
			return err
		}
		b3[id], u3[id] = b, keys.Thaw(u)
		return nil
	})
	ib3, iu3 := keys.Deliver(e, 3, b3, u3)
	partials := map[sharing.ID]*rdkls.PartialSignature[*k256.Point, *k256.BaseFieldElement, *k256.Scalar]{}
	e.Each(4, func(id sharing.ID) error {
		ps, err := cs[id].Round4(keys.Freeze(ib3[id]), keys.Freeze(iu3[id]), msg)
		if err != nil {
			return err
		}
		partials[id] = ps
		return nil
	})
	if !e.AllOK() {
		var bad []string
		for _, id := range e.IDs {
			if v := e.Tr.Verdicts[id]; v.Class != "ok" {
				bad = append(bad, fmt.Sprintf("%d:%s@r%d(%s)", uint64(id), v.String(), v.Round, v.Detail))
			}
		}
		return fmt.Sprintf("signing rejected: %v", bad)
	}
	var atAgg []*rdkls.PartialSignature[*k256.Point, *k256.BaseFieldElement, *k256.Scalar]
	for _, id := range e.IDs {
		got, dropped, err := drive.Pass(e.Tr, nil, 4, id, 0, 0, partials[id])
		if err != nil || dropped {
			return fmt.Sprintf("partial signature of %d does not round-trip: %v", uint64(id), err)
		}
		atAgg = append(atAgg, got)
	}
	pk, err := ecdsa.NewPublicKey(orig.PublicKeyValue())
	if err != nil {
		return "public key: " + err.Error()
	}
	sig, err := rdkls.Aggregate(suite, pk, msg, atAgg...)
	if err != nil {
		return "aggregate (under the ORIGINAL public key): " + err.Error()
	}
	vf, err := ecdsa.NewVerifier(suite)
	if err != nil {
		return "verifier: " + err.Error()
	}
	if err := vf.Verify(sig, pk, msg); err != nil {
		return "signature does not verify under the ORIGINAL public key: " + err.Error()
	}
	return ""
}
