package main

import (
	"fmt"
	"math/big"
	"sort"
	"strconv"
	"strings"

	"github.com/bronlabs/bron-crypto/pkg/base/algebra"
	"github.com/bronlabs/bron-crypto/pkg/base/serde"
	"github.com/bronlabs/bron-crypto/pkg/mpc"
	"github.com/bronlabs/bron-crypto/pkg/mpc/dkg/trusteddealer"
	rredist "github.com/bronlabs/bron-crypto/pkg/mpc/redistribute"
	"github.com/bronlabs/bron-crypto/pkg/mpc/sharing"
	"github.com/bronlabs/bron-crypto/pkg/mpc/sharing/accessstructures"
	"github.com/bronlabs/bron-crypto/pkg/mpc/sharing/accessstructures/unanimity"
	"github.com/bronlabs/bron-crypto/pkg/mpc/sharing/scheme/kw"
	"github.com/bronlabs/bron-crypto/pkg/mpc/sharing/scheme/kw/msp"
	"github.com/bronlabs/bron-crypto/pkg/mpc/sharing/vss/feldman"

	"verif/harness/internal/drive"
	dred "verif/harness/internal/drive/redistribute"
	"verif/harness/internal/vh"
)

// verifyIndependently checks the Feldman equation of a share against a verification vector with the
// group operations only (no feldman.Scheme.Verify / LiftedShare.Equal): for every row r of the holder,
// share[r]·G = Σ_j M[r][j]·V[j].  Returns "" or the first component that fails.
func verifyIndependently[G algebra.PrimeGroupElement[G, S], S algebra.PrimeFieldElement[S]](c *gctx[G, S], m *msp.MSP[S], sh *kw.Share[S], vv *feldman.VerificationVector[G, S]) string {
	rows := sortedRows(m, sh.ID())
	if len(rows) != len(sh.Value()) {
		return fmt.Sprintf("share has %d components, holder owns %d rows", len(sh.Value()), len(rows))
	}
	_, cols := m.Matrix().Dimensions()
	vr, _ := vv.Value().Dimensions()
	if vr != cols {
		return fmt.Sprintf("verification vector has %d entries, MSP %d columns", vr, cols)
	}
	for k, r := range rows {
		acc := c.g.OpIdentity()
		for j := 0; j < cols; j++ {
			e, _ := m.Matrix().Get(r, j)
			p, _ := vv.Value().Get(j, 0)
			acc = acc.Op(p.ScalarOp(e))
		}
		if !c.g.ScalarBaseOp(sh.Value()[k]).Equal(acc) {
			return fmt.Sprintf("component %d (MSP row %d) does not match the verification vector", k, r)
		}
	}
	return ""
}

func kSubsets(ids []uint64, k int) [][]uint64 {
	var out [][]uint64
	for mask := 0; mask < 1<<len(ids); mask++ {
		if s := subsetOf(ids, mask); len(s) == k {
			out = append(out, s)
		}
	}
	return out
}

// nonIdealPolicy: a structure on h (|h| = 3 or 4) in which every holder owns 2 or 3 MSP rows.
func nonIdealPolicy(r *vh.Rng, h []uint64) dred.Policy {
	n := len(h)
	leaf := func(x uint64) *dred.Tree { return &dred.Tree{Leaf: true, ID: x} }
	switch r.Intn(3) {
	case 0: // CNF of the t-of-n structure: the maximal unqualified sets are the (t-1)-subsets
		t := 2 + r.Intn(n-1)
		if t > n {
			t = n
		}
		if t == n { // n-of-n as CNF: every holder owns one row only; use t = n-1 instead
			t = n - 1
		}
		if t < 2 {
			t = 2
		}
		return dred.Policy{Fam: 'N', Sets: kSubsets(h, t-1)}
	case 1: // gate tree with repeated leaves: 2 of { (a|b), (b|c), (c|a) [, d] }
		cs := []*dred.Tree{
			{T: 1, Cs: []*dred.Tree{leaf(h[0]), leaf(h[1])}},
			{T: 1, Cs: []*dred.Tree{leaf(h[1]), leaf(h[2])}},
			{T: 1, Cs: []*dred.Tree{leaf(h[2]), leaf(h[0])}},
		}
		if n > 3 {
			cs = append(cs, &dred.Tree{T: 2, Cs: []*dred.Tree{leaf(h[3]), leaf(h[0]), leaf(h[1])}})
		}
		return dred.Policy{Fam: 'G', Root: &dred.Tree{T: 2, Cs: cs}}
	default: // gate tree: (a&b) | (b&c) | (c&a) [| (d&a)]  — every holder in two or three AND gates
		cs := []*dred.Tree{
			{T: 2, Cs: []*dred.Tree{leaf(h[0]), leaf(h[1])}},
			{T: 2, Cs: []*dred.Tree{leaf(h[1]), leaf(h[2])}},
			{T: 2, Cs: []*dred.Tree{leaf(h[2]), leaf(h[0])}},
		}
		if n > 3 {
			cs = append(cs, &dred.Tree{T: 2, Cs: []*dred.Tree{leaf(h[3]), leaf(h[0])}}, &dred.Tree{T: 2, Cs: []*dred.Tree{leaf(h[3]), leaf(h[1])}})
		}
		return dred.Policy{Fam: 'G', Root: &dred.Tree{T: 1, Cs: cs}}
	}
}

// runPieceTamper: refresh / recover / redistribute into a NON-IDEAL next structure (every holder owns
// several MSP rows) in which one previous holder alters exactly ONE component (first / middle / last) of
// the piece it sends to one next holder.  The recipient must reject (the model: blame the sender), or,
// if it accepts, every post-step predicate must hold.
func (rn *runner[G, S]) runPieceTamper(idx int) *devCase {
	c := rn.c
	r := vh.NewRng(rn.a.Seed, prop, "piece/"+c.name, idx)
	id := fmt.Sprintf("P-%s-%d", c.name, idx)
	kind := []string{"refresh", "recover", "redistribute"}[idx%3]
	n := 3 + r.Intn(2)
	h := pickDistinct(r, poolSmall, n, nil)
	var cur, next *epoch[G, S]
	var err error
	mk := func(hs []uint64) *epoch[G, S] {
		for t := 0; t < 6; t++ {
			if e, err := rn.mkEpoch(nonIdealPolicy(r, hs)); err == nil {
				return e
			}
		}
		return nil
	}
	if kind == "redistribute" {
		cur = rn.genEpoch(r, h, "TUNG")
		avoid := map[uint64]bool{}
		var kept []uint64
		for _, x := range h {
			avoid[x] = true
			if r.Chance(1, 2) {
				kept = append(kept, x)
			}
		}
		nn := 3 + r.Intn(2)
		if len(kept) > nn {
			kept = kept[:nn]
		}
		hs := append(kept, pickDistinct(r, poolSmall, nn-len(kept), avoid)...)
		sort.Slice(hs, func(i, j int) bool { return hs[i] < hs[j] })
		next = mk(hs)
	} else {
		cur = mk(h)
		if cur != nil {
			next = &epoch[G, S]{pol: cur.pol, ac: cur.ac, m: cur.m, sch: cur.sch, holders: cur.holders, shards: map[uint64]*mpc.BaseShard[G, S]{}}
		}
	}
	if cur == nil || next == nil {
		return nil
	}
	dealer := drive.NewTape(vh.NewRng(rn.a.Seed, prop, "piecedealer/"+c.name, idx))
	shards, err := trusteddealer.Deal(c.g, cur.ac, dealer)
	if err != nil {
		return nil
	}
	for sid, sh := range shards.Iter() {
		cur.shards[uint64(sid)] = sh
	}
	pk0 := cur.shards[cur.holders[0]].PublicKeyValue()
	sec, err := cur.sch.Reconstruct(sharesOf(cur.shards, cur.holders)...)
	if err != nil {
		return nil
	}
	s0 := bigOf(sec.Value())
	lost := uint64(0)
	if kind == "recover" {
		var cands []uint64
		for _, x := range cur.holders {
			if all, _ := cur.qualifiedSets(x); len(all) > 0 {
				cands = append(cands, x)
			}
		}
		if len(cands) == 0 {
			kind = "refresh"
		} else {
			lost = vh.Pick(r, cands)
		}
	}
	all, _ := cur.qualifiedSets(lost)
	if len(all) == 0 {
		return nil
	}
	quorum := vh.Pick(r, all)
	dev := vh.Pick(r, quorum)
	// recipient: a next holder other than the sender owning at least two rows (the lost one when recovering, half of the time)
	var rcands []uint64
	for _, x := range next.holders {
		if x != dev && len(sortedRows(next.m, sharing.ID(x))) >= 2 {
			rcands = append(rcands, x)
		}
	}
	if len(rcands) == 0 {
		return nil
	}
	rcpt := vh.Pick(r, rcands)
	if (idx/3)%3 == 2 { // the "middle" case wants a recipient with three or more rows when there is one
		for _, x := range rcands {
			if len(sortedRows(next.m, sharing.ID(x))) > len(sortedRows(next.m, sharing.ID(rcpt))) {
				rcpt = x
			}
		}
	}
	if lost != 0 && lost != dev && len(sortedRows(next.m, sharing.ID(lost))) >= 2 && r.Chance(1, 2) {
		rcpt = lost
	}
	nrows := len(sortedRows(next.m, sharing.ID(rcpt)))
	pos := 0
	switch (idx / 3) % 3 { // first, last, middle
	case 1:
		pos = nrows - 1
	case 2:
		pos = nrows / 2
		if nrows == 2 {
			pos = 0
		}
	}
	anchor := uint64(0)
	if r.Chance(1, 2) {
		anchor = vh.Pick(r, quorum)
	}
	delta := c.fe(new(big.Int).Add(big.NewInt(1), r.BigBelow(new(big.Int).Sub(c.q, big.NewInt(1)))))
	hook := drive.HookFunc(func(m *drive.Msg, to sharing.ID) []byte {
		if m.Round != 2 || uint64(m.From) != dev || uint64(m.To) != rcpt {
			return m.Payload
		}
		u, err := serde.UnmarshalCBOR[*rredist.Round2P2P[G, S]](m.Payload)
		if err != nil || u.NextShareContribution == nil || pos >= len(u.NextShareContribution.Value()) {
			return m.Payload
		}
		vals := append([]S(nil), u.NextShareContribution.Value()...)
		vals[pos] = vals[pos].Add(delta)
		ns, err := kw.NewShare(u.NextShareContribution.ID(), vals...)
		if err != nil {
			return m.Payload
		}
		out, err := serde.MarshalCBOR(&rredist.Round2P2P[G, S]{NextShareContribution: ns})
		if err != nil {
			return m.Payload
		}
		return out
	})
	prevShards := map[sharing.ID]*mpc.BaseShard[G, S]{}
	for _, j := range quorum {
		prevShards[sharing.ID(j)] = cur.shards[j]
	}
	labels := map[sharing.ID]string{}
	for _, x := range append(append([]uint64(nil), quorum...), next.holders...) {
		labels[sharing.ID(x)] = fmt.Sprintf("%s-piece%d", c.name, idx)
	}
	full := dred.RunFull(dred.Config[G, S]{Seed: rn.a.Seed, Prop: prop, Labels: labels, Hook: hook, Group: c.g,
		PrevShards: prevShards, PrevQuorum: idList(quorum), Next: next.ac, Anchor: sharing.ID(anchor)})
	cs := fmt.Sprintf("P group=%s idx=%d :: %s prev=%s Q=%s next=%s anchor=%d sender=%d recipient=%d (%d rows) component=%d",
		c.name, idx, kind, cur.pol.Text(), idsText(quorum), next.pol.Text(), anchor, dev, rcpt, nrows, pos)
	what := "C06_round3_accept_sound / C06_redist_step_preserves: a piece that does not verify against its sender's contribution is rejected; an accepted step leaves verifying shares of the same secret"
	v := full.Trace.Verdicts[sharing.ID(rcpt)]
	accepted := v.Class == "ok" && full.Shards[sharing.ID(rcpt)] != nil
	failed := false
	if accepted {
		// the recipient accepted the tampered piece: the post-step predicates must hold all the same
		for sid, sh := range full.Shards {
			next.shards[uint64(sid)] = sh
		}
		for _, x := range next.holders {
			sh := next.shards[x]
			if sh == nil {
				continue
			}
			if !sh.PublicKeyValue().Equal(pk0) {
				failed = true
				rn.propFail(id, "tampered-piece-accepted-key-changed", fmt.Sprintf("holder %d ends with another public key", x), cs, what)
			}
			if bad := verifyIndependently(c, next.m, sh.Share(), sh.VerificationVector()); bad != "" {
				failed = true
				rn.propFail(id, "tampered-piece-accepted-share-does-not-verify", fmt.Sprintf("holder %d accepted a shard whose share fails the Feldman equation: %s", x, bad), cs, what)
			}
		}
		for mask := 1; mask < 1<<len(next.holders); mask++ {
			set := subsetOf(next.holders, mask)
			if !next.qualified(set) || len(sharesOf(next.shards, set)) != len(set) {
				continue
			}
			var rs *kw.Secret[S]
			var rerr error
			vh.Safely(func() { rs, rerr = next.sch.Reconstruct(sharesOf(next.shards, set)...) })
			if rerr != nil || bigOf(rs.Value()).Cmp(s0) != 0 {
				got := "error"
				if rerr == nil {
					got = vh.ZHex(bigOf(rs.Value()))
				}
				failed = true
				rn.propFail(id, "tampered-piece-accepted-key-changed",
					fmt.Sprintf("holder %d accepted the piece of %d altered in component %d; qualified set %v now reconstructs %s, original secret %s (public key unchanged)", rcpt, dev, pos, set, got, vh.ZHex(s0)), cs, what)
				break
			}
		}
	}
	rn.res.Count(fmt.Sprintf("tampered piece %s component=%s accepted=%v", kind, map[bool]string{true: "last", false: "not-last"}[pos == nrows-1], accepted), cs, true)
	rn.res.Distribution[fmt.Sprintf("tampered piece: next family %c, recipient rows %d", next.pol.Fam, nrows)]++

	dc := &devCase{id: id, text: cs, verdicts: map[uint64]drive.Verdict{}, otherKey: map[uint64]bool{}}
	for _, x := range next.holders {
		if x != dev {
			dc.holders = append(dc.holders, x)
			dc.verdicts[x] = full.Trace.Verdicts[sharing.ID(x)]
		}
	}
	dc.otherKey[rcpt] = failed // a model/implementation disagreement on this recipient is then a property failure too
	un, uerr := unanimity.NewUnanimityAccessStructure(dred.IDSet(quorum))
	if uerr != nil {
		return nil
	}
	zm, uerr := accessstructures.InducedMSP(c.f, un)
	if uerr != nil {
		return nil
	}
	var dreads []string
	for i := range dealer.Reads {
		dreads = append(dreads, vh.Hex(dealer.Slice(i)))
	}
	dc.line = strings.Join([]string{"V", id, vh.ZHex(c.q), mspText(cur.m), strings.Join(dreads, ","), mspText(next.m),
		idsText(quorum), strconv.FormatUint(anchor, 10), mspText(zm), rndText(full.Trace, quorum, "r1"), rndText(full.Trace, quorum, "r2"),
		coefsText(cur.m, quorum), coefsText(zm, quorum), strconv.FormatUint(dev, 10), fmt.Sprintf("3:%d:%d", rcpt, pos), vh.ZHex(bigOf(delta))}, " ")
	return dc
}
