package main

import (
	"crypto/sha256"
	"fmt"

	"github.com/bronlabs/bron-crypto/pkg/base/algebra"
	"github.com/bronlabs/bron-crypto/pkg/base/curves/k256"
	"github.com/bronlabs/bron-crypto/pkg/base/datastructures/hashmap"
	"github.com/bronlabs/bron-crypto/pkg/mpc"
	rsess "github.com/bronlabs/bron-crypto/pkg/mpc/session"
	"github.com/bronlabs/bron-crypto/pkg/mpc/sharing"
	mpcschnorr "github.com/bronlabs/bron-crypto/pkg/mpc/signatures/schnorr"
	rl22 "github.com/bronlabs/bron-crypto/pkg/mpc/signatures/schnorr/lindell22"
	"github.com/bronlabs/bron-crypto/pkg/mpc/signatures/schnorr/lindell22/keygen"
	"github.com/bronlabs/bron-crypto/pkg/mpc/signatures/schnorr/lindell22/signing"
	"github.com/bronlabs/bron-crypto/pkg/proofs/sigma/compiler/fiatshamir"
	"github.com/bronlabs/bron-crypto/pkg/signatures/schnorrlike"
	vanilla "github.com/bronlabs/bron-crypto/pkg/signatures/schnorrlike/schnorr"

	"verif/harness/internal/drive"
	"verif/harness/internal/drive/keys"
	"verif/harness/internal/vh"
)

// signLindell22 runs one real Lindell22 threshold-Schnorr signing (Round1..Round3 + aggregator, wired as
// verif/harness/internal/drive/lindell22 does, which deals its own keys and therefore cannot be
// handed the shards of an epoch) with the given base shards and quorum, and verifies the
// signature with the library's verifier under the public key of `orig` (a shard of the FIRST epoch).
// Returns "" when the signature verifies, else what went wrong.
func signLindell22[
	SCH mpcschnorr.MPCFriendlyScheme[VR, GE, S, M, KG, SG, VF],
	VR mpcschnorr.MPCFriendlyVariant[GE, S, M],
	GE algebra.PrimeGroupElement[GE, S], S algebra.PrimeFieldElement[S], M schnorrlike.Message,
	KG schnorrlike.KeyGenerator[GE, S], SG schnorrlike.Signer[VR, GE, S, M], VF schnorrlike.Verifier[VR, GE, S, M],
](seed int64, label string, scheme SCH, msg M, orig *mpc.BaseShard[GE, S], shards map[uint64]*mpc.BaseShard[GE, S], quorum []uint64) string {
	labels := map[sharing.ID]string{}
	for _, x := range quorum {
		labels[sharing.ID(x)] = label
	}
	common := keys.Common{Seed: seed, Prop: prop, Labels: labels, Quorum: idList(quorum), Session: "seeded"}
	e := keys.NewEngine("lindell22-c06", common)
	ls := map[sharing.ID]*rl22.Shard[GE, S]{}
	for _, id := range e.IDs {
		bs := shards[uint64(id)]
		if bs == nil {
			return fmt.Sprintf("quorum member %d holds no shard", uint64(id))
		}
		sh, err := keygen.NewShard(bs)
		if err != nil {
			return fmt.Sprintf("keygen.NewShard(%d): %v", uint64(id), err)
		}
		ls[id] = sh
	}
	origShard, err := keygen.NewShard(orig)
	if err != nil {
		return "keygen.NewShard(original): " + err.Error()
	}
	var ctxs map[sharing.ID]*rsess.Context
	if p := vh.Safely(func() { ctxs, err = keys.Contexts(common) }); p != "" || err != nil {
		return fmt.Sprintf("session contexts: %v %s", err, p)
	}
	variant := scheme.Variant()
	cs := map[sharing.ID]*signing.Cosigner[GE, S, M]{}
	e.Construct(func(id sharing.ID) error {
		c, err := signing.NewCosigner[GE, S, M](ctxs[id], ls[id], fiatshamir.Name, variant, e.Tr.Tapes[id])
		if err != nil {
			return err
		}
		cs[id] = c
		return nil
	})
	b1 := map[sharing.ID]*signing.Round1Broadcast[GE, S, M]{}
	u1 := map[sharing.ID]map[sharing.ID]*signing.Round1P2P[GE, S, M]{}
	e.Each(1, func(id sharing.ID) error {
		b, u, err := cs[id].Round1()
		if err != nil {
			return err
		}
		b1[id], u1[id] = b, keys.Thaw(u)
		return nil
	})
	ib1, iu1 := keys.Deliver(e, 1, b1, u1)
	b2 := map[sharing.ID]*signing.Round2Broadcast[GE, S, M]{}
	e.Each(2, func(id sharing.ID) error {
		b, err := cs[id].Round2(keys.Freeze(ib1[id]), keys.Freeze(iu1[id]))
		if err != nil {
			return err
		}
		b2[id] = b
		return nil
	})
	ib2, _ := keys.Deliver[*signing.Round2Broadcast[GE, S, M], keys.None](e, 2, b2, nil)
	psigs := map[sharing.ID]*rl22.PartialSignature[GE, S]{}
	e.Each(3, func(id sharing.ID) error {
		ps, err := cs[id].Round3(keys.Freeze(ib2[id]), msg)
		if err != nil {
			return err
		}
		psigs[id] = ps
		return nil
	})
	if !e.AllOK() {
		var bad []string
		for _, id := range e.IDs {
			if v := e.Tr.Verdicts[id]; v.Class != "ok" {
				bad = append(bad, fmt.Sprintf("%d:%s@r%d(%s)", uint64(id), v.String(), v.Round, v.Detail))
			}
		}
		return fmt.Sprintf("signing rejected: %v", bad)
	}
	atAgg := hashmap.NewComparable[sharing.ID, *rl22.PartialSignature[GE, S]]()
	for _, id := range e.IDs {
		got, dropped, err := drive.Pass(e.Tr, nil, 3, id, 0, 0, psigs[id])
		if err != nil || dropped {
			return fmt.Sprintf("partial signature of %d does not round-trip: %v", uint64(id), err)
		}
		atAgg.Put(id, got)
	}
	var out string
	v := drive.Step(e.Tr, 0, 4, func() error {
		agg, err := signing.NewAggregator(ls[e.IDs[0]].PublicKeyMaterial(), scheme)
		if err != nil {
			return err
		}
		sig, err := agg.Aggregate(atAgg.Freeze(), msg)
		if err != nil {
			return err
		}
		vf, err := scheme.Verifier()
		if err != nil {
			return err
		}
		if err := vf.Verify(sig, origShard.PublicKey(), msg); err != nil {
			out = "signature does not verify under the ORIGINAL public key: " + err.Error()
		}
		return nil
	})
	if v.Class != "ok" {
		return "aggregation: " + v.String() + " " + v.Detail
	}
	return out
}

// signK256 is signLindell22 for vanilla Schnorr over secp256k1 with SHA-256.
func signK256(seed int64, label string, msg []byte, orig *mpc.BaseShard[*k256.Point, *k256.Scalar], shards map[uint64]*mpc.BaseShard[*k256.Point, *k256.Scalar], quorum []uint64) string {
	sch, err := vanilla.NewScheme(k256.NewCurve(), sha256.New, false, false, nil, vh.NewRng(seed, prop, "scheme", 0))
	if err != nil {
		return "scheme: " + err.Error()
	}
	var res string
	if p := vh.Safely(func() { res = signLindell22(seed, label, sch, vanilla.Message(msg), orig, shards, quorum) }); p != "" {
		return "panic: " + p
	}
	return res
}
