// c06 — correspondence harness for property C06 (refresh, recovery and redistribution never
// change the key).  See /verif/DESIGN.md §5 C06.
//
// It drives the real protocols through verif/harness/internal/drive/{redistribute,hjky}:
//
//	H  random histories of {refresh, recover i, redistribute} steps over pairs of access-structure
//	   families / holder sets (newcomers, leavers), with and without the trusted anchor; after every
//	   step the property predicate is evaluated on the implementation (public key unchanged, shares
//	   verify, every subset reconstructs the original secret iff qualified, mixed-epoch share sets
//	   do not reconstruct it nor sign; a Lindell22 Schnorr signature per history and a DKLs23 ECDSA
//	   signature per run with the post-epoch shards verify under the ORIGINAL key) and the model
//	   (extracted history machine fed with the tapes) predicts the new column: shares are compared
//	   as scalars, verification vectors through the exponent.
//	Z  HJKY alone under every family (zero column, zero shares, identity first entry), and with one
//	   dealer dealing a non-zero value (every other party must blame it).
//	V  redistribution with one deviating previous holder (consistent dealing of a wrong value,
//	   wrong previous vector): no party may end with a shard for another key; the model's Round3
//	   evaluated on the same deviation gives every victim's verdict (refuse / blame j), which the
//	   implementation must not contradict by accepting or by blaming somebody else.
//	P  refresh / recover / redistribute into a NON-IDEAL next structure where one previous holder alters ONE
//	   component (first, middle, last) of the piece it sends to one next holder: the recipient rejects
//	   (model: blames the sender) or, if it accepts, every post-step predicate still holds.
//	R  an unqualified driving set is refused.
package main

import (
	"fmt"
	"math/big"
	"os"
	"runtime/debug"
	"sort"
	"strconv"
	"strings"

	"github.com/bronlabs/bron-crypto/pkg/base/algebra"
	"github.com/bronlabs/bron-crypto/pkg/base/curves/k256"
	"github.com/bronlabs/bron-crypto/pkg/base/curves/pairable/bls12381"
	"github.com/bronlabs/bron-crypto/pkg/base/mat"
	"github.com/bronlabs/bron-crypto/pkg/base/serde"
	"github.com/bronlabs/bron-crypto/pkg/mpc"
	"github.com/bronlabs/bron-crypto/pkg/mpc/dkg/trusteddealer"
	rredist "github.com/bronlabs/bron-crypto/pkg/mpc/redistribute"
	"github.com/bronlabs/bron-crypto/pkg/mpc/sharing"
	"github.com/bronlabs/bron-crypto/pkg/mpc/sharing/accessstructures"
	"github.com/bronlabs/bron-crypto/pkg/mpc/sharing/accessstructures/unanimity"
	"github.com/bronlabs/bron-crypto/pkg/mpc/sharing/scheme/kw"
	"github.com/bronlabs/bron-crypto/pkg/mpc/sharing/scheme/kw/msp"
	"github.com/bronlabs/bron-crypto/pkg/mpc/sharing/vss/feldman"
	rhjky "github.com/bronlabs/bron-crypto/pkg/mpc/zero/hjky"

	"verif/harness/internal/drive"
	dhjky "verif/harness/internal/drive/hjky"
	dred "verif/harness/internal/drive/redistribute"
	"verif/harness/internal/vh"
)

const prop = "C06"

// ---- group context -----------------------------------------------------------------------

type gctx[G algebra.PrimeGroupElement[G, S], S algebra.PrimeFieldElement[S]] struct {
	name string
	g    algebra.PrimeGroup[G, S]
	f    algebra.PrimeField[S]
	q    *big.Int
}

func newCtx[G algebra.PrimeGroupElement[G, S], S algebra.PrimeFieldElement[S]](name string, g algebra.PrimeGroup[G, S]) *gctx[G, S] {
	f := algebra.StructureMustBeAs[algebra.PrimeField[S]](g.ScalarStructure())
	return &gctx[G, S]{name: name, g: g, f: f, q: f.Order().Big()}
}

func (c *gctx[G, S]) fe(x *big.Int) S {
	y := new(big.Int).Mod(x, c.q)
	b := make([]byte, 64)
	y.FillBytes(b)
	e, err := c.f.FromBytesBEReduce(b)
	if err != nil {
		panic(err)
	}
	return e
}

func bigOf(e interface{ BytesBE() []byte }) *big.Int { return new(big.Int).SetBytes(e.BytesBE()) }

func scalarsText[S algebra.PrimeFieldElement[S]](es []S) string {
	if len(es) == 0 {
		return "-"
	}
	p := make([]string, len(es))
	for i, e := range es {
		p[i] = vh.ZHex(bigOf(e))
	}
	return strings.Join(p, ",")
}

func idList(ids []uint64) []sharing.ID {
	l := make([]sharing.ID, len(ids))
	for i, x := range ids {
		l[i] = sharing.ID(x)
	}
	return l
}

func idsText(ids []uint64) string {
	if len(ids) == 0 {
		return "-"
	}
	p := make([]string, len(ids))
	for i, x := range ids {
		p[i] = strconv.FormatUint(x, 10)
	}
	return strings.Join(p, ",")
}

func sortedRows[S algebra.PrimeFieldElement[S]](m *msp.MSP[S], id sharing.ID) []int {
	rs, ok := m.HoldersToRows().Get(id)
	if !ok {
		return nil
	}
	l := rs.List()
	sort.Ints(l)
	return l
}

func mspHolders[S algebra.PrimeFieldElement[S]](m *msp.MSP[S]) []uint64 {
	var ids []uint64
	for _, id := range m.Shareholders().List() {
		ids = append(ids, uint64(id))
	}
	sort.Slice(ids, func(i, j int) bool { return ids[i] < ids[j] })
	return ids
}

// mspText renders an MSP as the model's linear sharing: <D>~<id>=<row>/<row>~...
func mspText[S algebra.PrimeFieldElement[S]](m *msp.MSP[S]) string {
	_, cols := m.Matrix().Dimensions()
	parts := []string{strconv.Itoa(cols)}
	for _, id := range mspHolders(m) {
		var rows []string
		for _, r := range sortedRows(m, sharing.ID(id)) {
			es := make([]S, cols)
			for j := 0; j < cols; j++ {
				es[j], _ = m.Matrix().Get(r, j)
			}
			rows = append(rows, scalarsText(es))
		}
		parts = append(parts, fmt.Sprintf("%d=%s", id, strings.Join(rows, "/")))
	}
	return strings.Join(parts, "~")
}

// coefsText renders the library's reconstruction coefficients of every member of set under m.
func coefsText[S algebra.PrimeFieldElement[S]](m *msp.MSP[S], set []uint64) string {
	var parts []string
	for _, j := range set {
		var cs []S
		var err error
		if p := vh.Safely(func() { cs, err = m.ReconstructionCoefficients(sharing.ID(j), idList(set)...) }); p != "" || err != nil {
			return "-"
		}
		parts = append(parts, fmt.Sprintf("%d=%s", j, scalarsText(cs)))
	}
	if len(parts) == 0 {
		return "-"
	}
	return strings.Join(parts, "~")
}

func readsText(t *drive.Tape, tag string) string {
	var parts []string
	for i, r := range t.Reads {
		if r.Tag == tag {
			parts = append(parts, vh.Hex(t.Slice(i)))
		}
	}
	if len(parts) == 0 {
		return "-"
	}
	return strings.Join(parts, ",")
}

func rndText(tr *drive.Trace, q []uint64, tag string) string {
	var parts []string
	for _, j := range q {
		t := tr.Tapes[sharing.ID(j)]
		if t == nil {
			return "-"
		}
		parts = append(parts, fmt.Sprintf("%d=%s", j, readsText(t, tag)))
	}
	return strings.Join(parts, "~")
}

// ---- expectations filled while running the implementation, compared with the model output ---

type expWorld[G algebra.PrimeGroupElement[G, S], S algebra.PrimeFieldElement[S]] struct {
	performed bool
	vv        *feldman.VerificationVector[G, S]
	shares    map[uint64]*kw.Share[S]
}

type expItem[G algebra.PrimeGroupElement[G, S], S algebra.PrimeFieldElement[S]] struct {
	kind  byte // 'W' world (genesis or step), 'S' sign observation, 'X' mixed observation
	world *expWorld[G, S]
	value *big.Int // S: the original secret; X: what the implementation reconstructed from the mixed set (nil = error)
	desc  string
}

type histCase[G algebra.PrimeGroupElement[G, S], S algebra.PrimeFieldElement[S]] struct {
	id    string
	text  string // replayable case text
	line  string // model input
	items []expItem[G, S]
	steps int
	ops   []string
}

type signFn[G algebra.PrimeGroupElement[G, S], S algebra.PrimeFieldElement[S]] func(scheme string, label string, msg []byte, orig *mpc.BaseShard[G, S], shards map[uint64]*mpc.BaseShard[G, S], quorum []uint64) string

type runner[G algebra.PrimeGroupElement[G, S], S algebra.PrimeFieldElement[S]] struct {
	c    *gctx[G, S]
	a    vh.Args
	res  *vh.Result
	sign signFn[G, S] // nil: no threshold signing wired for this group
}

func (rn *runner[G, S]) propFail(id, key, detail, cs, what string) {
	rn.res.Mismatch(vh.Mismatch{ID: id, Kind: "prop", Key: key, Detail: detail, Case: cs, PropFail: true, What: what})
}

type epoch[G algebra.PrimeGroupElement[G, S], S algebra.PrimeFieldElement[S]] struct {
	pol     dred.Policy
	ac      accessstructures.Monotone
	m       *msp.MSP[S]
	sch     *feldman.Scheme[G, S]
	holders []uint64
	shards  map[uint64]*mpc.BaseShard[G, S]
}

func (rn *runner[G, S]) mkEpoch(pol dred.Policy) (*epoch[G, S], error) {
	var ac accessstructures.Monotone
	var sch *feldman.Scheme[G, S]
	var err error
	if p := vh.Safely(func() {
		ac, err = pol.Build()
		if err == nil {
			sch, err = feldman.NewScheme(rn.c.g, ac)
		}
	}); p != "" {
		return nil, fmt.Errorf("panic: %s", p)
	}
	if err != nil {
		return nil, err
	}
	// structures the library cannot deal under (one-column MSPs, ...) or in which a shareholder owns
	// no row (a CNF holder that lies in every maximal unqualified set) are refused by design: not used
	hs := pol.Holders()
	mh := mspHolders(sch.MSP())
	if len(mh) != len(hs) {
		return nil, fmt.Errorf("a shareholder owns no MSP row")
	}
	if p := vh.Safely(func() {
		_, err = sch.Deal(kw.NewSecret(rn.c.f.One()), vh.NewRng(1, prop, "trial", 0))
	}); p != "" {
		return nil, fmt.Errorf("panic: %s", p)
	}
	if err != nil {
		return nil, err
	}
	return &epoch[G, S]{pol: pol, ac: ac, m: sch.MSP(), sch: sch, holders: hs, shards: map[uint64]*mpc.BaseShard[G, S]{}}, nil
}

// genEpoch draws policies until the library accepts one (families may refuse by design).
func (rn *runner[G, S]) genEpoch(r *vh.Rng, h []uint64, fams string) *epoch[G, S] {
	for i := 0; i < 10; i++ {
		e, err := rn.mkEpoch(genPolicy(r, h, fams))
		if err == nil {
			return e
		}
	}
	e, err := rn.mkEpoch(dred.Policy{Fam: 'T', T: 2, IDs: h})
	if err != nil {
		panic(err)
	}
	return e
}

func (e *epoch[G, S]) qualified(s []uint64) bool { return e.ac.IsQualified(idList(s)...) }

// qualifiedSets lists the subsets (of size >= 2) of the holders, split in qualified / minimal qualified.
func (e *epoch[G, S]) qualifiedSets(exclude uint64) (all [][]uint64, minimal [][]uint64) {
	n := len(e.holders)
	for mask := 1; mask < 1<<n; mask++ {
		s := subsetOf(e.holders, mask)
		skip := false
		for _, x := range s {
			if x == exclude {
				skip = true
			}
		}
		if skip || len(s) < 2 || !e.qualified(s) {
			continue
		}
		all = append(all, s)
		min := true
		for k := range s {
			sub := append(append([]uint64(nil), s[:k]...), s[k+1:]...)
			if len(sub) > 0 && e.qualified(sub) {
				min = false
				break
			}
		}
		if min {
			minimal = append(minimal, s)
		}
	}
	return
}

func sharesOf[G algebra.PrimeGroupElement[G, S], S algebra.PrimeFieldElement[S]](shards map[uint64]*mpc.BaseShard[G, S], s []uint64) []*kw.Share[S] {
	var l []*kw.Share[S]
	for _, id := range s {
		if sh, ok := shards[id]; ok {
			l = append(l, sh.Share())
		}
	}
	return l
}

// checkEpoch evaluates the property predicate on the shards of an epoch: same public key for
// everybody, shares verify, every subset reconstructs the original secret iff it is qualified.
func (rn *runner[G, S]) checkEpoch(id, cs, stepDesc string, e *epoch[G, S], pk0 G, s0 *big.Int) (nontrivial bool) {
	what := "C06_history_invariant / C06_redist_step_preserves (property predicate on the implementation)"
	var vv0 *feldman.VerificationVector[G, S]
	for _, h := range e.holders {
		sh := e.shards[h]
		if sh == nil {
			rn.propFail(id, "holder-without-shard", fmt.Sprintf("%s: next holder %d has no shard", stepDesc, h), cs, what)
			return false
		}
		if !sh.PublicKeyValue().Equal(pk0) {
			rn.propFail(id, "public-key-changed", fmt.Sprintf("%s: holder %d public key %s != original %s", stepDesc, h, vh.Hex(sh.PublicKeyValue().Bytes()), vh.Hex(pk0.Bytes())), cs, what)
		}
		if vv0 == nil {
			vv0 = sh.VerificationVector()
		} else if !vv0.Equal(sh.VerificationVector()) {
			rn.propFail(id, "verification-vectors-differ", fmt.Sprintf("%s: holder %d holds a different verification vector", stepDesc, h), cs, what)
		}
		var err error
		if p := vh.Safely(func() { err = e.sch.Verify(sh.Share(), sh.VerificationVector()) }); p != "" || err != nil {
			rn.propFail(id, "new-share-does-not-verify", fmt.Sprintf("%s: holder %d: %v %s", stepDesc, h, err, p), cs, what)
		}
		if bad := verifyIndependently(rn.c, e.m, sh.Share(), sh.VerificationVector()); bad != "" {
			rn.propFail(id, "new-share-fails-feldman-equation", fmt.Sprintf("%s: holder %d: %s", stepDesc, h, bad), cs, what)
		}
		if !sh.MSP().Equal(e.m) {
			rn.propFail(id, "shard-msp-differs", fmt.Sprintf("%s: holder %d shard MSP is not the next structure's", stepDesc, h), cs, what)
		}
	}
	n := len(e.holders)
	for mask := 1; mask < 1<<n; mask++ {
		s := subsetOf(e.holders, mask)
		qual := e.qualified(s)
		var sec *kw.Secret[S]
		var err error
		p := vh.Safely(func() { sec, err = e.sch.Reconstruct(sharesOf(e.shards, s)...) })
		switch {
		case p != "":
			rn.propFail(id, "reconstruct-panic", fmt.Sprintf("%s: set %v: %s", stepDesc, s, p), cs, what)
		case qual && err != nil:
			rn.propFail(id, "qualified-set-cannot-reconstruct", fmt.Sprintf("%s: set %v: %v", stepDesc, s, err), cs, what)
		case qual:
			v := bigOf(sec.Value())
			if v.Cmp(s0) != 0 || !rn.c.g.ScalarBaseOp(sec.Value()).Equal(pk0) {
				rn.propFail(id, "reconstructed-secret-changed", fmt.Sprintf("%s: set %v reconstructs %s, original %s", stepDesc, s, vh.ZHex(v), vh.ZHex(s0)), cs, what)
			}
		case !qual && err == nil:
			rn.propFail(id, "unqualified-set-reconstructs", fmt.Sprintf("%s: unqualified set %v reconstructs %s", stepDesc, s, vh.ZHex(bigOf(sec.Value()))), cs, what)
		}
	}
	return true
}

// ---- one history ---------------------------------------------------------------------------

type histParams struct {
	group      string
	idx        int
	maxLen     int
	maxHolders int
	upto       int // replay: stop after this many steps (0 = all)
	fams       string
}

func (p histParams) text() string {
	return fmt.Sprintf("H group=%s idx=%d maxlen=%d maxholders=%d fams=%s upto=%d", p.group, p.idx, p.maxLen, p.maxHolders, p.fams, p.upto)
}

func parseKV(s string) map[string]string {
	m := map[string]string{}
	for _, f := range strings.Fields(s) {
		if k, v, ok := strings.Cut(f, "="); ok {
			m[k] = v
		}
	}
	return m
}

func (rn *runner[G, S]) runHistory(p histParams) *histCase[G, S] {
	c := rn.c
	r := vh.NewRng(rn.a.Seed, prop, "hist/"+c.name, p.idx)
	id := fmt.Sprintf("H-%s-%d", c.name, p.idx)
	hc := &histCase[G, S]{id: id}
	mixedSigned := false
	caseText := func(step int) string {
		q := p
		q.upto = step
		return q.text() + " :: " + strings.Join(hc.ops, " ; ")
	}

	pool := poolSmall
	if r.Chance(1, 3) {
		pool = poolWide
	}
	// two histories out of three prefer structures that have STRICT qualified subsets of two or more
	// holders (so that steps are driven by a proper part of the holders while the others continue)
	preferStrict := p.idx%3 != 0
	hasStrict := func(e *epoch[G, S]) bool {
		all, _ := e.qualifiedSets(0)
		for _, q := range all {
			if len(q) < len(e.holders) {
				return true
			}
		}
		return false
	}
	gen := func(h []uint64) *epoch[G, S] {
		e := rn.genEpoch(r, h, p.fams)
		for t := 0; preferStrict && t < 6 && !hasStrict(e); t++ {
			e = rn.genEpoch(r, h, p.fams)
		}
		return e
	}
	n0 := 2 + r.Intn(p.maxHolders-1)
	if preferStrict && n0 < 3 && p.maxHolders >= 3 {
		n0 = 3 + r.Intn(p.maxHolders-2)
	}
	cur := gen(pickDistinct(r, pool, n0, nil))
	hc.ops = append(hc.ops, "genesis "+cur.pol.Text())

	// first epoch: the trusted dealer, with a recording tape
	dealer := drive.NewTape(vh.NewRng(rn.a.Seed, prop, "dealer/"+c.name, p.idx))
	shards, err := trusteddealer.Deal(c.g, cur.ac, dealer)
	if err != nil {
		rn.res.Note("%s: trusted dealer refused %s: %v", id, cur.pol.Text(), err)
		return nil
	}
	for sid, sh := range shards.Iter() {
		cur.shards[uint64(sid)] = sh
	}
	first := cur.shards[cur.holders[0]]
	pk0 := first.PublicKeyValue()
	sec, err := cur.sch.Reconstruct(sharesOf(cur.shards, cur.holders)...)
	if err != nil {
		rn.propFail(id, "genesis-cannot-reconstruct", err.Error(), caseText(0), "trusted dealer")
		return nil
	}
	s0 := bigOf(sec.Value())
	rn.checkEpoch(id, caseText(0), "genesis", cur, pk0, s0)

	world := func(e *epoch[G, S]) *expWorld[G, S] {
		w := &expWorld[G, S]{performed: true, vv: e.shards[e.holders[0]].VerificationVector(), shares: map[uint64]*kw.Share[S]{}}
		for _, h := range e.holders {
			w.shares[h] = e.shards[h].Share()
		}
		return w
	}
	var dreads []string
	for i := range dealer.Reads {
		dreads = append(dreads, vh.Hex(dealer.Slice(i)))
	}
	line := []string{"H", id, vh.ZHex(c.q), mspText(cur.m), strings.Join(dreads, ",")}
	hc.items = append(hc.items, expItem[G, S]{kind: 'W', world: world(cur), desc: "genesis"})

	length := 1 + r.Intn(p.maxLen)
	if p.upto > 0 && p.upto < length {
		length = p.upto
	}
	for step := 1; step <= length; step++ {
		// ---- choose the operation
		kind := "refresh"
		switch k := r.Intn(100); {
		case k < 30:
			kind = "refresh"
		case k < 55:
			kind = "recover"
		default:
			kind = "redistribute"
		}
		var lost uint64
		if kind == "recover" {
			var cands []uint64
			for _, h := range cur.holders {
				if all, _ := cur.qualifiedSets(h); len(all) > 0 {
					cands = append(cands, h)
				}
			}
			if len(cands) == 0 {
				kind = "refresh"
			} else {
				lost = vh.Pick(r, cands)
			}
		}
		all, minimal := cur.qualifiedSets(lost)
		if len(all) == 0 {
			// no qualified set of two or more holders (cannot happen for the generated families)
			rn.res.Note("%s: no driving quorum for %s", id, cur.pol.Text())
			break
		}
		var quorum []uint64
		var strictMin, strictAny [][]uint64
		for _, q := range minimal {
			if len(q) < len(cur.holders) {
				strictMin = append(strictMin, q)
			}
		}
		for _, q := range all {
			if len(q) < len(cur.holders) {
				strictAny = append(strictAny, q)
			}
		}
		switch k := r.Intn(100); {
		case k < 25 && lost == 0 && cur.qualified(cur.holders) && len(cur.holders) >= 2:
			quorum = cur.holders // the full holder set drives
		case k < 60 && len(strictMin) > 0:
			quorum = vh.Pick(r, strictMin) // a strict minimal qualified subset
		case len(strictAny) > 0:
			quorum = vh.Pick(r, strictAny) // a strict qualified subset, minimal or not
		default:
			quorum = vh.Pick(r, all)
		}
		next := cur
		if kind == "redistribute" {
			// leavers and newcomers
			keep := map[uint64]bool{}
			var kept []uint64
			for _, h := range cur.holders {
				if r.Chance(2, 3) {
					keep[h] = true
					kept = append(kept, h)
				}
			}
			if r.Chance(1, 6) {
				keep, kept = map[uint64]bool{}, nil // disjoint holder sets
			}
			avoid := map[uint64]bool{}
			for _, h := range cur.holders {
				avoid[h] = true
			}
			room := p.maxHolders - len(kept)
			nNew := 0
			if room > 0 {
				nNew = r.Intn(room + 1)
			}
			if len(kept)+nNew < 2 {
				nNew = 2 - len(kept)
			}
			hs := append(append([]uint64(nil), kept...), pickDistinct(r, pool, nNew, avoid)...)
			sort.Slice(hs, func(i, j int) bool { return hs[i] < hs[j] })
			if len(hs) < 2 {
				hs = cur.holders
			}
			ne := gen(hs)
			next = &epoch[G, S]{pol: ne.pol, ac: ne.ac, m: ne.m, sch: ne.sch, holders: ne.holders, shards: map[uint64]*mpc.BaseShard[G, S]{}}
		} else {
			next = &epoch[G, S]{pol: cur.pol, ac: cur.ac, m: cur.m, sch: cur.sch, holders: cur.holders, shards: map[uint64]*mpc.BaseShard[G, S]{}}
		}
		anchor := uint64(0)
		if r.Chance(1, 2) {
			anchor = vh.Pick(r, quorum)
		}
		desc := fmt.Sprintf("%s", kind)
		if kind == "recover" {
			desc += fmt.Sprintf(" %d", lost)
		}
		desc += fmt.Sprintf(" next=%s Q=%s anchor=%d", next.pol.Text(), idsText(quorum), anchor)
		hc.ops = append(hc.ops, desc)
		cs := caseText(step)

		// ---- run the implementation
		prevShards := map[sharing.ID]*mpc.BaseShard[G, S]{}
		inQ := map[uint64]bool{}
		for _, j := range quorum {
			prevShards[sharing.ID(j)] = cur.shards[j]
			inQ[j] = true
		}
		// every continuing holder outside the driving quorum independently passes the (valid) shard it
		// still holds, or nil — both are legal uses of NewParticipant; a holder whose share is lost passes nil
		var passing, notPassing []uint64
		for _, h := range next.holders {
			if inQ[h] || cur.shards[h] == nil || (kind == "recover" && h == lost) {
				continue
			}
			if r.Chance(1, 2) {
				prevShards[sharing.ID(h)] = cur.shards[h]
				passing = append(passing, h)
			} else {
				notPassing = append(notPassing, h)
			}
		}
		if len(passing) > 0 {
			hc.ops[len(hc.ops)-1] += " nondrivers-passing-shard=" + idsText(passing)
			cs = caseText(step)
			rn.res.Distribution["steps where a non-driving holder passes its shard"]++
		}
		if len(notPassing) > 0 {
			rn.res.Distribution["steps where a non-driving holder passes nil"]++
		}
		if len(quorum) < len(cur.holders) {
			rn.res.Distribution["steps driven by a strict subset of the holders"]++
		}
		labels := map[sharing.ID]string{}
		partySet := map[uint64]bool{}
		for _, j := range quorum {
			partySet[j] = true
		}
		for _, h := range next.holders {
			partySet[h] = true
		}
		for x := range partySet {
			labels[sharing.ID(x)] = fmt.Sprintf("%s-h%d-e%d", c.name, p.idx, step)
		}
		full := dred.RunFull(dred.Config[G, S]{Seed: rn.a.Seed, Prop: prop, Labels: labels, Group: c.g,
			PrevShards: prevShards, PrevQuorum: idList(quorum), Next: next.ac, Anchor: sharing.ID(anchor)})
		tr := full.Trace
		allOK := true
		var bad []string
		for _, pid := range full.IDs {
			if v := tr.Verdicts[pid]; v.Class != "ok" {
				allOK = false
				bad = append(bad, fmt.Sprintf("%d:%s@r%d(%s)", uint64(pid), v.String(), v.Round, v.Detail))
			}
		}
		for sid, sh := range full.Shards {
			next.shards[uint64(sid)] = sh
		}

		// ---- model input for this step
		un, uerr := unanimity.NewUnanimityAccessStructure(dred.IDSet(quorum))
		var zm *msp.MSP[S]
		if uerr == nil {
			zm, uerr = accessstructures.InducedMSP(c.f, un)
		}
		if uerr != nil {
			rn.res.Note("%s: unanimity MSP of %v refused: %v", id, quorum, uerr)
			break
		}
		args := strings.Join([]string{idsText(quorum), strconv.FormatUint(anchor, 10), mspText(zm),
			rndText(tr, quorum, "r1"), rndText(tr, quorum, "r2"), coefsText(cur.m, quorum), coefsText(zm, quorum)}, "|")
		switch kind {
		case "refresh":
			line = append(line, "F|"+args)
		case "recover":
			line = append(line, fmt.Sprintf("C|%d|%s", lost, args))
		default:
			line = append(line, "D|"+mspText(next.m)+"|"+args)
		}

		if !allOK {
			// an honest step must complete: the key material of the next epoch does not exist otherwise
			key := "honest-" + kind + "-rejected"
			detail := fmt.Sprintf("step %d (%s): %s", step, hc.ops[len(hc.ops)-1], strings.Join(bad, " "))
			nondriverAbort := false
			for _, pid := range full.IDs {
				if v := tr.Verdicts[pid]; v.Class != "ok" && !inQ[uint64(pid)] {
					nondriverAbort = true
				}
			}
			if nondriverAbort {
				key = "honest-step-aborts-at-nondriver"
				// the step is applied partially: who moved on holds the new epoch, who aborted keeps the old one
				if cur.m.Equal(next.m) {
					eff := map[uint64]*mpc.BaseShard[G, S]{}
					var moved, stayed []uint64
					for _, h := range next.holders {
						if next.shards[h] != nil {
							eff[h] = next.shards[h]
							moved = append(moved, h)
						} else if cur.shards[h] != nil {
							eff[h] = cur.shards[h]
							stayed = append(stayed, h)
						}
					}
					detail += fmt.Sprintf(" | partially applied: new epoch %v, old epoch %v", moved, stayed)
					for mask := 1; mask < 1<<len(next.holders); mask++ {
						set := subsetOf(next.holders, mask)
						if !next.qualified(set) || len(sharesOf(eff, set)) != len(set) {
							continue
						}
						var sec *kw.Secret[S]
						var rerr error
						vh.Safely(func() { sec, rerr = next.sch.Reconstruct(sharesOf(eff, set)...) })
						if rerr != nil || bigOf(sec.Value()).Cmp(s0) != 0 {
							detail += fmt.Sprintf("; qualified set %v no longer reconstructs the secret", set)
							break
						}
					}
				}
			}
			rn.propFail(id, key, detail, cs,
				"C06_redist_step_preserves: an honest step ends with verifying shares of the same key (completeness)")
			hc.items = append(hc.items, expItem[G, S]{kind: 'W', world: &expWorld[G, S]{performed: false}, desc: desc})
			hc.steps = step
			break
		}
		rn.checkEpoch(id, cs, fmt.Sprintf("step %d (%s)", step, desc), next, pk0, s0)
		complete := true
		for _, h := range next.holders {
			if next.shards[h] == nil {
				complete = false
			}
		}
		if !complete {
			hc.items = append(hc.items, expItem[G, S]{kind: 'W', world: &expWorld[G, S]{performed: false}, desc: desc})
			hc.steps = step
			break
		}
		hc.items = append(hc.items, expItem[G, S]{kind: 'W', world: world(next), desc: desc})

		// ---- observation: a quorum of the new epoch reconstructs (what a signing quorum would use)
		nall, nmin := next.qualifiedSets(0)
		if len(nall) > 0 {
			sq := vh.Pick(r, nall)
			if len(nmin) > 0 && r.Chance(1, 2) {
				sq = vh.Pick(r, nmin)
			}
			line = append(line, fmt.Sprintf("S|%s|%s", idsText(sq), coefsText(next.m, sq)))
			hc.items = append(hc.items, expItem[G, S]{kind: 'S', value: s0, desc: fmt.Sprintf("reconstruct over %v after step %d", sq, step)})
		}

		// ---- mixed epochs: a minimal qualified set whose shares come partly from the previous
		// epoch and partly from the new one must not reconstruct the secret
		if cur.m.Equal(next.m) && len(nmin) > 0 {
			for t := 0; t < 3; t++ {
				mq := vh.Pick(r, nmin)
				// the old part needs holders that had a share in the previous epoch
				var a, b []uint64
				mask := 1 + r.Intn((1<<len(mq))-2) // proper non-empty
				for i, x := range mq {
					if mask&(1<<i) != 0 {
						a = append(a, x)
					} else {
						b = append(b, x)
					}
				}
				okA := true
				for _, x := range a {
					if cur.shards[x] == nil {
						okA = false
					}
				}
				if !okA || len(a) == 0 || len(b) == 0 {
					continue
				}
				mixed := append(sharesOf(cur.shards, a), sharesOf(next.shards, b)...)
				var ms *kw.Secret[S]
				var merr error
				pn := vh.Safely(func() { ms, merr = next.sch.Reconstruct(mixed...) })
				var mv *big.Int
				if pn == "" && merr == nil {
					mv = bigOf(ms.Value())
					if mv.Cmp(s0) == 0 {
						rn.propFail(id, "mixed-epoch-shares-reconstruct-secret",
							fmt.Sprintf("step %d (%s): old shares of %v with new shares of %v reconstruct the secret", step, desc, a, b), cs,
							"C06_mixed_epochs (shares of different epochs do not combine)")
					}
				}
				if rn.sign != nil && t == 0 && !mixedSigned {
					mixedSigned = true
					ms := map[uint64]*mpc.BaseShard[G, S]{}
					for _, x := range a {
						ms[x] = cur.shards[x]
					}
					for _, x := range b {
						ms[x] = next.shards[x]
					}
					if bad := rn.sign("lindell22", fmt.Sprintf("%s-h%d-m%d", c.name, p.idx, step), []byte("c06 mixed"), first, ms, mq); bad == "" {
						rn.propFail(id, "mixed-epoch-shards-sign-validly",
							fmt.Sprintf("step %d (%s): old shards of %v with new shards of %v produce a signature valid for the key", step, desc, a, b), cs,
							"C06_mixed_epochs (shares of different epochs do not combine into a valid signature)")
					}
					rn.res.Distribution["lindell22 signing attempts with mixed-epoch shards (must fail)"]++
				}
				line = append(line, fmt.Sprintf("X|%s|%s|%s", idsText(a), idsText(b), coefsText(next.m, mq)))
				hc.items = append(hc.items, expItem[G, S]{kind: 'X', value: mv, desc: fmt.Sprintf("old shares of %v + new shares of %v after step %d", a, b, step)})
				rn.res.Distribution["mixed-epoch sets"]++
			}
		}
		rn.res.Distribution["step:"+kind]++
		rn.res.Distribution[fmt.Sprintf("families:%c->%c", cur.pol.Fam, next.pol.Fam)]++
		if anchor != 0 {
			rn.res.Distribution["with anchor"]++
		} else {
			rn.res.Distribution["without anchor"]++
		}
		newc, leav := 0, 0
		for _, h := range next.holders {
			if cur.shards[h] == nil {
				newc++
			}
		}
		for _, h := range cur.holders {
			if _, ok := partySet[h]; !ok || next.shards[h] == nil {
				leav++
			}
		}
		if newc > 0 {
			rn.res.Distribution["steps with newcomers"]++
		}
		if leav > 0 {
			rn.res.Distribution["steps with leavers"]++
		}
		cur = next
		hc.steps = step
		// ---- a threshold signature with the shards of this epoch must verify under the ORIGINAL key
		if rn.sign != nil && step == length {
			if sall, smin := cur.qualifiedSets(0); len(sall) > 0 {
				rs := vh.NewRng(rn.a.Seed, prop, "sign/"+c.name, p.idx*1000+step) // own stream: the history does not depend on the tier
				sq := vh.Pick(rs, sall)
				if len(smin) > 0 && rs.Chance(1, 2) {
					sq = vh.Pick(rs, smin)
				}
				msg := []byte(fmt.Sprintf("c06 message %d/%d", p.idx, step))
				if bad := rn.sign("lindell22", fmt.Sprintf("%s-h%d-s%d", c.name, p.idx, step), msg, first, cur.shards, sq); bad != "" {
					rn.propFail(id, "signature-after-epochs-invalid", fmt.Sprintf("after step %d (%s), quorum %v: %s", step, desc, sq, bad), cs,
						"C06_history_invariant (a qualified quorum of the current epoch signs validly for the original key; Lindell22 Schnorr)")
				}
				rn.res.Distribution["lindell22 signatures with post-epoch shards"]++
				// DKLs23 (threshold ECDSA, OT-based multiplication is slow): one history in the quick tier,
				// every 8th in the thorough tier, with a minimal quorum when there is one
				if (rn.a.Tier == "thorough" && p.idx%8 == 0) || p.idx == 0 {
					if len(smin) > 0 {
						sq = smin[0]
						for _, cand := range smin {
							if len(cand) < len(sq) {
								sq = cand
							}
						}
					}
					if bad := rn.sign("dkls23", fmt.Sprintf("%s-h%d-d%d", c.name, p.idx, step), msg, first, cur.shards, sq); bad != "" {
						rn.propFail(id, "ecdsa-signature-after-epochs-invalid", fmt.Sprintf("after step %d (%s), quorum %v: %s", step, desc, sq, bad), cs,
							"C06_history_invariant (a qualified quorum of the current epoch signs validly for the original key; DKLs23 ECDSA)")
					}
					rn.res.Distribution["dkls23 signatures with post-epoch shards"]++
				}
			}
		}
	}
	hc.text = caseText(hc.steps)
	hc.line = strings.Join(line, " ")
	return hc
}

// compare the model's output line with what the implementation produced
func (rn *runner[G, S]) compareHistory(hc *histCase[G, S], out string) {
	c := rn.c
	what := "correspondence Redist.trace_history (model fed with the tapes) vs pkg/mpc/redistribute"
	corr := func(key, detail string) {
		rn.res.Mismatch(vh.Mismatch{ID: hc.id, Kind: "corr", Key: key, Detail: detail, Case: hc.text, PropFail: false, What: what})
	}
	f := strings.Fields(out)
	if len(f) < 2 || f[0] != "H" || f[1] != hc.id {
		corr("model-output-malformed", out)
		return
	}
	toks := f[2:]
	if len(toks) != len(hc.items) {
		corr("model-output-length", fmt.Sprintf("model returned %d results for %d items: %s", len(toks), len(hc.items), out))
		return
	}
	for k, it := range hc.items {
		tok := toks[k]
		switch it.kind {
		case 'W':
			if !it.world.performed {
				// the implementation did not complete this step; already reported as a property failure
				continue
			}
			parts := strings.Split(tok, ";")
			if parts[0] != "1" || len(parts) != 3 {
				corr("model-refuses-step", fmt.Sprintf("%s: implementation completed, model says %q", it.desc, tok))
				return
			}
			col := strings.Split(parts[1], ",")
			rows, _ := it.world.vv.Value().Dimensions()
			if len(col) != rows {
				corr("verification-vector-length", fmt.Sprintf("%s: model column has %d entries, implementation vector %d", it.desc, len(col), rows))
				return
			}
			for i := 0; i < rows; i++ {
				pt, _ := it.world.vv.Value().Get(i, 0)
				if !c.g.ScalarBaseOp(c.fe(vh.UnZHex(col[i]))).Equal(pt) {
					corr("verification-vector-exponent", fmt.Sprintf("%s: entry %d of the verification vector is not g^(model exponent %s)", it.desc, i, col[i]))
					return
				}
			}
			ms := map[string]string{}
			for _, e := range strings.Split(parts[2], "~") {
				if kk, v, ok := strings.Cut(e, "="); ok {
					ms[kk] = v
				}
			}
			if len(ms) != len(it.world.shares) {
				corr("holder-set", fmt.Sprintf("%s: model has %d holders, implementation %d", it.desc, len(ms), len(it.world.shares)))
				return
			}
			for h, sh := range it.world.shares {
				if ms[strconv.FormatUint(h, 10)] != scalarsText(sh.Value()) {
					corr("share-value", fmt.Sprintf("%s: holder %d share %s, model %s", it.desc, h, scalarsText(sh.Value()), ms[strconv.FormatUint(h, 10)]))
					return
				}
			}
		case 'S':
			if tok != "S;"+vh.ZHex(it.value) {
				corr("model-reconstruct", fmt.Sprintf("%s: model %q, original secret %s", it.desc, tok, vh.ZHex(it.value)))
			}
		case 'X':
			want := "X;none"
			if it.value != nil {
				want = "X;" + vh.ZHex(it.value)
			}
			if tok != want {
				corr("mixed-epoch-value", fmt.Sprintf("%s: model %q, implementation %q", it.desc, tok, want))
			}
		}
	}
}

// ---- HJKY alone ------------------------------------------------------------------------------

type zeroCase[G algebra.PrimeGroupElement[G, S], S algebra.PrimeFieldElement[S]] struct {
	id, text, line string
	ids            []uint64
	out            map[uint64]*dhjky.Output[G, S]
	verdicts       map[uint64]drive.Verdict
	dev            uint64
	refusedOK      bool // a case that both sides are expected to refuse
}

// replaceDealing is the hook of a deviating HJKY dealer j: its Round1 broadcast and unicasts are
// replaced by a consistent Feldman dealing of its column with first entry delta instead of 0.
func shiftVV[G algebra.PrimeGroupElement[G, S], S algebra.PrimeFieldElement[S]](c *gctx[G, S], v *feldman.VerificationVector[G, S], delta S) (*feldman.VerificationVector[G, S], error) {
	rows, _ := v.Value().Dimensions()
	entries := make([]G, rows)
	for i := 0; i < rows; i++ {
		e, err := v.Value().Get(i, 0)
		if err != nil {
			return nil, err
		}
		entries[i] = e
	}
	entries[0] = entries[0].Op(c.g.ScalarBaseOp(delta))
	mod, err := mat.NewModuleValuedColumnVectorModule(uint(rows), c.g)
	if err != nil {
		return nil, err
	}
	mv, err := mod.NewRowMajor(entries...)
	if err != nil {
		return nil, err
	}
	return feldman.NewVerificationVector(mv, nil)
}

// shiftShare adds delta·M[row][0] to every component of the share of holder id.
func shiftShare[S algebra.PrimeFieldElement[S]](m *msp.MSP[S], sh *kw.Share[S], delta S) (*kw.Share[S], error) {
	rows := sortedRows(m, sh.ID())
	vals := make([]S, len(sh.Value()))
	for k, v := range sh.Value() {
		if k >= len(rows) {
			return nil, fmt.Errorf("share longer than rows")
		}
		e, err := m.Matrix().Get(rows[k], 0)
		if err != nil {
			return nil, err
		}
		vals[k] = v.Add(e.Mul(delta))
	}
	return kw.NewShare(sh.ID(), vals...)
}

// runZeroOneColumn: a one-column MSP (hierarchical level with threshold 1) cannot be dealt: the
// library's dealer refuses it, and so does the model (deal_col).
func (rn *runner[G, S]) runZeroOneColumn(idx int) *zeroCase[G, S] {
	c := rn.c
	r := vh.NewRng(rn.a.Seed, prop, "zero1/"+c.name, idx)
	h := pickDistinct(r, poolSmall, 2+r.Intn(3), nil)
	pol := dred.Policy{Fam: 'H', Levels: []dred.Level{{T: 1, IDs: h}}}
	ac, err := pol.Build()
	if err != nil {
		return nil
	}
	sch, err := feldman.NewScheme(c.g, ac)
	if err != nil {
		return nil
	}
	id := fmt.Sprintf("Z1-%s-%d", c.name, idx)
	zc := &zeroCase[G, S]{id: id, ids: pol.Holders(), verdicts: map[uint64]drive.Verdict{}, out: map[uint64]*dhjky.Output[G, S]{}, refusedOK: true}
	labels := map[sharing.ID]string{}
	for _, x := range zc.ids {
		labels[sharing.ID(x)] = fmt.Sprintf("%s-zero1-%d", c.name, idx)
	}
	full := dhjky.RunFull(dhjky.Config[G, S]{Seed: rn.a.Seed, Prop: prop, Labels: labels, Group: c.g, Access: ac})
	for pid, o := range full.Out {
		zc.out[uint64(pid)] = o
	}
	for pid, v := range full.Trace.Verdicts {
		zc.verdicts[uint64(pid)] = v
	}
	zc.text = fmt.Sprintf("Z1 group=%s idx=%d :: %s", c.name, idx, pol.Text())
	// the tapes were not read (the dealing is refused before sampling completes or after): give the model
	// a column of the right length so that only the one-column guard can refuse
	var parts []string
	for _, x := range zc.ids {
		parts = append(parts, fmt.Sprintf("%d=%s", x, vh.Hex(make([]byte, 48))))
	}
	zc.line = strings.Join([]string{"Z", id, vh.ZHex(c.q), mspText(sch.MSP()), strings.Join(parts, "~")}, " ")
	rn.res.Distribution["hjky: one-column MSP (refused)"]++
	return zc
}

func (rn *runner[G, S]) runZero(idx int, deviate bool) *zeroCase[G, S] {
	c := rn.c
	stream := "zero/"
	if deviate {
		stream = "zerodev/"
	}
	r := vh.NewRng(rn.a.Seed, prop, stream+c.name, idx)
	pool := poolSmall
	if r.Chance(1, 3) {
		pool = poolWide
	}
	h := pickDistinct(r, pool, 2+r.Intn(4), nil)
	e := rn.genEpoch(r, h, "TUNHG")
	id := fmt.Sprintf("Z-%s-%d", c.name, idx)
	if deviate {
		id = fmt.Sprintf("ZD-%s-%d", c.name, idx)
	}
	zc := &zeroCase[G, S]{id: id, ids: e.holders, verdicts: map[uint64]drive.Verdict{}}
	labels := map[sharing.ID]string{}
	for _, x := range e.holders {
		labels[sharing.ID(x)] = fmt.Sprintf("%s-%s%d", c.name, stream, idx)
	}
	var hook drive.Hook
	var delta S
	if deviate {
		zc.dev = vh.Pick(r, e.holders)
		delta = c.fe(new(big.Int).Add(big.NewInt(1), r.BigBelow(new(big.Int).Sub(c.q, big.NewInt(1)))))
		hook = drive.HookFunc(func(m *drive.Msg, rcpt sharing.ID) []byte {
			if m.Round != 1 || uint64(m.From) != zc.dev {
				return m.Payload
			}
			if m.To == 0 {
				b, err := serde.UnmarshalCBOR[*rhjky.Round1Broadcast[G, S]](m.Payload)
				if err != nil {
					return m.Payload
				}
				nv, err := shiftVV(c, b.VerificationVector, delta)
				if err != nil {
					return m.Payload
				}
				out, err := serde.MarshalCBOR(&rhjky.Round1Broadcast[G, S]{VerificationVector: nv})
				if err != nil {
					return m.Payload
				}
				return out
			}
			u, err := serde.UnmarshalCBOR[*rhjky.Round1P2P[G, S]](m.Payload)
			if err != nil {
				return m.Payload
			}
			ns, err := shiftShare(e.m, u.ZeroShare, delta)
			if err != nil {
				return m.Payload
			}
			out, err := serde.MarshalCBOR(&rhjky.Round1P2P[G, S]{ZeroShare: ns})
			if err != nil {
				return m.Payload
			}
			return out
		})
	}
	full := dhjky.RunFull(dhjky.Config[G, S]{Seed: rn.a.Seed, Prop: prop, Labels: labels, Hook: hook, Group: c.g, Access: e.ac})
	zc.out = map[uint64]*dhjky.Output[G, S]{}
	for pid, o := range full.Out {
		zc.out[uint64(pid)] = o
	}
	for pid, v := range full.Trace.Verdicts {
		zc.verdicts[uint64(pid)] = v
	}
	zc.text = fmt.Sprintf("Z group=%s idx=%d deviate=%v :: %s dev=%d", c.name, idx, deviate, e.pol.Text(), zc.dev)
	zc.line = strings.Join([]string{"Z", id, vh.ZHex(c.q), mspText(e.m), rndText(full.Trace, e.holders, "r1")}, " ")
	if deviate {
		zc.line += fmt.Sprintf(" %d %s", zc.dev, vh.ZHex(bigOf(delta)))
	}
	what := "C06_zero_sum / C06_hjky_accept_sound (zero sharings have public value identity)"

	// property predicate on the implementation
	identity := c.g.OpIdentity()
	for _, x := range e.holders {
		v := zc.verdicts[x]
		o := zc.out[x]
		if !deviate {
			if v.Class != "ok" || o == nil {
				rn.propFail(id, "honest-hjky-rejected", fmt.Sprintf("party %d: %s (%s)", x, v.String(), v.Detail), zc.text, what)
				continue
			}
		} else if x != zc.dev && v.Class == "ok" && o != nil {
			// accepted although a dealer dealt a non-zero value: the aggregated sharing is not of zero
			pk, _ := o.VV.Value().Get(0, 0)
			if !pk.Equal(identity) {
				rn.propFail(id, "hjky-accepts-nonzero-dealing", fmt.Sprintf("party %d accepted the dealing of %d whose vector does not commit to zero; aggregated first entry is not the identity", x, zc.dev), zc.text, what)
			}
			continue
		}
		if o == nil {
			continue
		}
		if x == zc.dev && deviate {
			continue
		}
		pk, _ := o.VV.Value().Get(0, 0)
		if !pk.Equal(identity) {
			rn.propFail(id, "zero-vector-not-identity", fmt.Sprintf("party %d: first entry of the zero verification vector is not the identity", x), zc.text, what)
		}
		var err error
		if p := vh.Safely(func() { err = e.sch.Verify(o.Share, o.VV) }); p != "" || err != nil {
			rn.propFail(id, "zero-share-does-not-verify", fmt.Sprintf("party %d: %v %s", x, err, p), zc.text, what)
		}
	}
	if !deviate {
		n := len(e.holders)
		for mask := 1; mask < 1<<n; mask++ {
			s := subsetOf(e.holders, mask)
			if !e.qualified(s) {
				continue
			}
			var l []*kw.Share[S]
			for _, x := range s {
				if o := zc.out[x]; o != nil {
					l = append(l, o.Share)
				}
			}
			if len(l) != len(s) {
				continue
			}
			sec, err := e.sch.Reconstruct(l...)
			if err != nil || bigOf(sec.Value()).Sign() != 0 {
				rn.propFail(id, "zero-sharing-not-zero", fmt.Sprintf("set %v reconstructs a non-zero value from the zero shares (%v)", s, err), zc.text, what)
			}
		}
	}
	rn.res.Distribution[fmt.Sprintf("hjky:%c deviate=%v", e.pol.Fam, deviate)]++
	return zc
}

func (rn *runner[G, S]) compareZero(zc *zeroCase[G, S], out string) {
	c := rn.c
	what := "correspondence Zero.hjky_party (model fed with the tapes) vs pkg/mpc/zero/hjky"
	propFails := false
	corr := func(key, detail string) {
		rn.res.Mismatch(vh.Mismatch{ID: zc.id, Kind: "corr", Key: key, Detail: detail, Case: zc.text, PropFail: propFails, What: what})
	}
	f := strings.Fields(out)
	if len(f) == 3 && f[1] == zc.id && f[2] == "refused" {
		// the model cannot deal (one-column MSP, short tape): no party of the implementation may end with a zero share
		for _, x := range zc.ids {
			if v := zc.verdicts[x]; v.Class == "ok" && zc.out[x] != nil {
				corr("hjky-verdict", fmt.Sprintf("party %d: model refuses the dealing, implementation accepts", x))
			}
		}
		return
	}
	if zc.refusedOK {
		// one-sided: the implementation refuses what the model would deal -> not an alarm, but recorded
		rn.res.Distribution["hjky: model deals a structure the implementation refuses"]++
		return
	}
	if len(f) != 2+len(zc.ids) || f[1] != zc.id {
		corr("model-output-malformed", out)
		return
	}
	for k, x := range zc.ids {
		tok := f[2+k]
		v := zc.verdicts[x]
		o := zc.out[x]
		switch {
		case strings.HasPrefix(tok, "ok;"):
			if zc.dev == x && zc.dev != 0 {
				continue // the deviating party's own view is not compared
			}
			if v.Class != "ok" || o == nil {
				corr("hjky-verdict", fmt.Sprintf("party %d: model accepts, implementation %s", x, v.String()))
				continue
			}
			parts := strings.Split(tok, ";")
			if parts[1] != scalarsText(o.Share.Value()) {
				corr("zero-share-value", fmt.Sprintf("party %d: share %s, model %s", x, scalarsText(o.Share.Value()), parts[1]))
			}
			col := strings.Split(parts[2], ",")
			rows, _ := o.VV.Value().Dimensions()
			if len(col) != rows {
				corr("zero-vector-length", fmt.Sprintf("party %d", x))
				continue
			}
			for i := 0; i < rows; i++ {
				pt, _ := o.VV.Value().Get(i, 0)
				if !c.g.ScalarBaseOp(c.fe(vh.UnZHex(col[i]))).Equal(pt) {
					corr("zero-vector-exponent", fmt.Sprintf("party %d entry %d", x, i))
					break
				}
			}
		case strings.HasPrefix(tok, "blame:"):
			// one-sided: the model blames the deviating dealer; the implementation must not accept
			if v.Class == "ok" {
				propFails = true // accepting a dealing that does not commit to zero is the property failure itself
				corr("hjky-verdict", fmt.Sprintf("party %d: model %s, implementation accepts", x, tok))
				propFails = false
			} else if v.Class == "reject_blame" && v.String() != "reject_blame{"+strings.TrimPrefix(tok, "blame:")+"}" {
				corr("hjky-blame", fmt.Sprintf("party %d: model %s, implementation %s", x, tok, v.String()))
			}
		default:
			if v.Class == "ok" {
				corr("hjky-verdict", fmt.Sprintf("party %d: model %s, implementation accepts", x, tok))
			}
		}
	}
}

// ---- deviating previous holder in a redistribution -----------------------------------------------

type devCase struct {
	id, text, line string
	holders        []uint64 // next holders other than the deviating party, ascending
	verdicts       map[uint64]drive.Verdict
	otherKey       map[uint64]bool // the holder accepted a shard whose public key is not the original one
}

func (rn *runner[G, S]) runDeviation(idx int) *devCase {
	c := rn.c
	r := vh.NewRng(rn.a.Seed, prop, "dev/"+c.name, idx)
	id := fmt.Sprintf("V-%s-%d", c.name, idx)
	h := pickDistinct(r, poolSmall, 2+r.Intn(3), nil)
	cur := rn.genEpoch(r, h, "TUNG")
	dealer := drive.NewTape(vh.NewRng(rn.a.Seed, prop, "devdealer/"+c.name, idx))
	shards, err := trusteddealer.Deal(c.g, cur.ac, dealer)
	if err != nil {
		return nil
	}
	for sid, sh := range shards.Iter() {
		cur.shards[uint64(sid)] = sh
	}
	pk0 := cur.shards[cur.holders[0]].PublicKeyValue()
	sec, err := cur.sch.Reconstruct(sharesOf(cur.shards, cur.holders)...)
	if err != nil {
		return nil
	}
	s0 := bigOf(sec.Value())
	all, _ := cur.qualifiedSets(0)
	if len(all) == 0 {
		return nil
	}
	quorum := vh.Pick(r, all)
	// next holders: some newcomers (no trusted data of their own), maybe some old ones
	avoid := map[uint64]bool{}
	for _, x := range cur.holders {
		avoid[x] = true
	}
	var kept []uint64
	if r.Chance(1, 2) {
		for _, x := range cur.holders {
			if r.Chance(1, 2) {
				kept = append(kept, x)
			}
		}
	}
	hs := append(kept, pickDistinct(r, poolSmall, 2+r.Intn(2), avoid)...)
	sort.Slice(hs, func(i, j int) bool { return hs[i] < hs[j] })
	next := rn.genEpoch(r, hs, "TUNG")
	dev := vh.Pick(r, quorum)
	mode := r.Intn(3) // 0: wrong dealt value (consistent dealing), 1: wrong previous vector, 2: both
	anchor := uint64(0)
	if r.Chance(1, 3) {
		anchor = vh.Pick(r, quorum)
	}
	delta := c.fe(new(big.Int).Add(big.NewInt(1), r.BigBelow(new(big.Int).Sub(c.q, big.NewInt(1)))))
	hook := drive.HookFunc(func(m *drive.Msg, rcpt sharing.ID) []byte {
		if m.Round != 2 || uint64(m.From) != dev {
			return m.Payload
		}
		if m.To == 0 {
			b, err := serde.UnmarshalCBOR[*rredist.Round2Broadcast[G, S]](m.Payload)
			if err != nil || b.NextVerificationVectorContribution == nil {
				return m.Payload
			}
			nb := &rredist.Round2Broadcast[G, S]{PrevMSP: b.PrevMSP, PrevVerificationVector: b.PrevVerificationVector,
				ZeroVerificationVector: b.ZeroVerificationVector, NextVerificationVectorContribution: b.NextVerificationVectorContribution}
			if mode == 0 || mode == 2 {
				if nv, err := shiftVV(c, b.NextVerificationVectorContribution, delta); err == nil {
					nb.NextVerificationVectorContribution = nv
				}
			}
			if mode == 1 || mode == 2 {
				if nv, err := shiftVV(c, b.PrevVerificationVector, delta); err == nil {
					nb.PrevVerificationVector = nv
				}
			}
			out, err := serde.MarshalCBOR(nb)
			if err != nil {
				return m.Payload
			}
			return out
		}
		if mode == 1 {
			return m.Payload
		}
		u, err := serde.UnmarshalCBOR[*rredist.Round2P2P[G, S]](m.Payload)
		if err != nil || u.NextShareContribution == nil {
			return m.Payload
		}
		ns, err := shiftShare(next.m, u.NextShareContribution, delta)
		if err != nil {
			return m.Payload
		}
		out, err := serde.MarshalCBOR(&rredist.Round2P2P[G, S]{NextShareContribution: ns})
		if err != nil {
			return m.Payload
		}
		return out
	})
	prevShards := map[sharing.ID]*mpc.BaseShard[G, S]{}
	for _, j := range quorum {
		prevShards[sharing.ID(j)] = cur.shards[j]
	}
	labels := map[sharing.ID]string{}
	for _, x := range append(append([]uint64(nil), quorum...), next.holders...) {
		labels[sharing.ID(x)] = fmt.Sprintf("%s-dev%d", c.name, idx)
	}
	full := dred.RunFull(dred.Config[G, S]{Seed: rn.a.Seed, Prop: prop, Labels: labels, Hook: hook, Group: c.g,
		PrevShards: prevShards, PrevQuorum: idList(quorum), Next: next.ac, Anchor: sharing.ID(anchor)})
	cs := fmt.Sprintf("V group=%s idx=%d :: prev=%s Q=%s next=%s anchor=%d deviating=%d mode=%d", c.name, idx, cur.pol.Text(), idsText(quorum), next.pol.Text(), anchor, dev, mode)
	what := "C06_round3_accept_sound (old pk = new pk; pieces verify): no accepted shard for another key"
	accepted := 0
	for sid, sh := range full.Shards {
		if uint64(sid) == dev {
			continue // the deviating party's own output is not a victim's
		}
		accepted++
		if !sh.PublicKeyValue().Equal(pk0) {
			rn.propFail(id, "deviating-holder-changes-public-key",
				fmt.Sprintf("holder %d accepted a shard with public key %s, original %s (deviating previous holder %d, mode %d)", uint64(sid), vh.Hex(sh.PublicKeyValue().Bytes()), vh.Hex(pk0.Bytes()), dev, mode), cs, what)
		}
	}
	// whatever was accepted by a qualified set of victims must still reconstruct the original secret
	var vict []uint64
	for _, x := range next.holders {
		if x != dev && full.Shards[sharing.ID(x)] != nil {
			vict = append(vict, x)
		}
	}
	if len(vict) > 0 && next.qualified(vict) {
		next.shards = map[uint64]*mpc.BaseShard[G, S]{}
		for _, x := range vict {
			next.shards[x] = full.Shards[sharing.ID(x)]
		}
		sec, err := next.sch.Reconstruct(sharesOf(next.shards, vict)...)
		if err == nil && bigOf(sec.Value()).Cmp(s0) != 0 {
			rn.propFail(id, "deviating-holder-changes-secret", fmt.Sprintf("victims %v reconstruct %s, original %s", vict, vh.ZHex(bigOf(sec.Value())), vh.ZHex(s0)), cs, what)
		}
	}
	class := fmt.Sprintf("deviation mode=%d accepted=%v", mode, accepted > 0)
	rn.res.Count(class, cs, true)

	// model input: the same step with the same deviation; the model's Round3 gives every victim's verdict
	dc := &devCase{id: id, text: cs, verdicts: map[uint64]drive.Verdict{}, otherKey: map[uint64]bool{}}
	for _, x := range next.holders {
		if x != dev {
			dc.holders = append(dc.holders, x)
			dc.verdicts[x] = full.Trace.Verdicts[sharing.ID(x)]
			if sh := full.Shards[sharing.ID(x)]; sh != nil && !sh.PublicKeyValue().Equal(pk0) {
				dc.otherKey[x] = true
			}
		}
	}
	un, uerr := unanimity.NewUnanimityAccessStructure(dred.IDSet(quorum))
	if uerr != nil {
		return nil
	}
	zm, uerr := accessstructures.InducedMSP(c.f, un)
	if uerr != nil {
		return nil
	}
	var dreads []string
	for i := range dealer.Reads {
		dreads = append(dreads, vh.Hex(dealer.Slice(i)))
	}
	dc.line = strings.Join([]string{"V", id, vh.ZHex(c.q), mspText(cur.m), strings.Join(dreads, ","), mspText(next.m),
		idsText(quorum), strconv.FormatUint(anchor, 10), mspText(zm), rndText(full.Trace, quorum, "r1"), rndText(full.Trace, quorum, "r2"),
		coefsText(cur.m, quorum), coefsText(zm, quorum), strconv.FormatUint(dev, 10), strconv.Itoa(mode), vh.ZHex(bigOf(delta))}, " ")
	return dc
}

// compareDeviation: where the model's Round3 refuses, the implementation must not accept; where both
// blame, they blame the same party (the implementation may be stricter than the model).
func (rn *runner[G, S]) compareDeviation(dc *devCase, out string) {
	what := "correspondence Redist.round3 (refusal branches: pieces, consistency with trusted data, partial public keys, old pk = new pk) vs pkg/mpc/redistribute Round3"
	f := strings.Fields(out)
	if len(f) != 2+len(dc.holders) || f[1] != dc.id {
		rn.res.Mismatch(vh.Mismatch{ID: dc.id, Kind: "corr", Key: "model-output-malformed", Detail: out, Case: dc.text, What: what})
		return
	}
	for k, x := range dc.holders {
		tok := strings.TrimPrefix(f[2+k], strconv.FormatUint(x, 10)+":")
		v := dc.verdicts[x]
		switch {
		case tok == "ok":
			if v.Class != "ok" {
				rn.res.Distribution["deviation: implementation stricter than model"]++
			}
		case v.Class == "ok":
			rn.res.Mismatch(vh.Mismatch{ID: dc.id, Kind: "corr", Key: "round3-verdict", Case: dc.text, What: what, PropFail: dc.otherKey[x],
				Detail: fmt.Sprintf("holder %d: model %s, implementation accepts", x, tok)})
		case strings.HasPrefix(tok, "blame:") && v.Class == "reject_blame" && v.String() != "reject_blame{"+strings.TrimPrefix(tok, "blame:")+"}":
			rn.res.Mismatch(vh.Mismatch{ID: dc.id, Kind: "corr", Key: "round3-blame", Case: dc.text, What: what,
				Detail: fmt.Sprintf("holder %d: model %s, implementation %s", x, tok, v.String())})
		}
		rn.res.Distribution["deviation verdict model="+strings.SplitN(tok, ":", 2)[0]+" impl="+v.Class]++
	}
}

// ---- refused step: the driving set is not qualified --------------------------------------------

func (rn *runner[G, S]) runRefused(idx int) {
	c := rn.c
	r := vh.NewRng(rn.a.Seed, prop, "refused/"+c.name, idx)
	id := fmt.Sprintf("R-%s-%d", c.name, idx)
	h := pickDistinct(r, poolSmall, 3+r.Intn(3), nil)
	cur := rn.genEpoch(r, h, "TNG")
	dealer := vh.NewRng(rn.a.Seed, prop, "refdealer/"+c.name, idx)
	shards, err := trusteddealer.Deal(c.g, cur.ac, dealer)
	if err != nil {
		return
	}
	for sid, sh := range shards.Iter() {
		cur.shards[uint64(sid)] = sh
	}
	var unq [][]uint64
	for mask := 1; mask < 1<<len(cur.holders); mask++ {
		s := subsetOf(cur.holders, mask)
		if len(s) >= 2 && !cur.qualified(s) {
			unq = append(unq, s)
		}
	}
	if len(unq) == 0 {
		return
	}
	quorum := vh.Pick(r, unq)
	prevShards := map[sharing.ID]*mpc.BaseShard[G, S]{}
	for _, j := range quorum {
		prevShards[sharing.ID(j)] = cur.shards[j]
	}
	labels := map[sharing.ID]string{}
	for _, x := range cur.holders {
		labels[sharing.ID(x)] = fmt.Sprintf("%s-ref%d", c.name, idx)
	}
	full := dred.RunFull(dred.Config[G, S]{Seed: rn.a.Seed, Prop: prop, Labels: labels, Group: c.g,
		PrevShards: prevShards, PrevQuorum: idList(quorum), Next: cur.ac})
	cs := fmt.Sprintf("R group=%s idx=%d :: %s Q=%s", c.name, idx, cur.pol.Text(), idsText(quorum))
	if len(full.Shards) > 0 {
		pk0 := cur.shards[cur.holders[0]].PublicKeyValue()
		for sid, sh := range full.Shards {
			if !sh.PublicKeyValue().Equal(pk0) {
				rn.propFail(id, "unqualified-quorum-produces-other-key", fmt.Sprintf("holder %d", uint64(sid)), cs, "C06_history_invariant (refused steps leave the epoch in place)")
			}
		}
	}
	rn.res.Count("refused: unqualified driving set", cs, true)
}

// ---- main ---------------------------------------------------------------------------------------

func runGroup[G algebra.PrimeGroupElement[G, S], S algebra.PrimeFieldElement[S]](c *gctx[G, S], a vh.Args, res *vh.Result,
	nHist, maxLen, maxHolders, nZero, nDev, nPiece, nRef int, only map[string]string, sign signFn[G, S]) {
	rn := &runner[G, S]{c: c, a: a, res: res, sign: sign}
	var lines []string
	var hcs []*histCase[G, S]
	var zcs []*zeroCase[G, S]
	var dcs []*devCase
	if only != nil {
		switch only["kind"] {
		case "H":
			idx, _ := strconv.Atoi(only["idx"])
			ml, _ := strconv.Atoi(only["maxlen"])
			mh, _ := strconv.Atoi(only["maxholders"])
			up, _ := strconv.Atoi(only["upto"])
			if hc := rn.runHistory(histParams{group: c.name, idx: idx, maxLen: ml, maxHolders: mh, upto: up, fams: only["fams"]}); hc != nil {
				hcs = append(hcs, hc)
			}
		case "Z":
			idx, _ := strconv.Atoi(only["idx"])
			zcs = append(zcs, rn.runZero(idx, only["deviate"] == "true"))
		case "Z1":
			idx, _ := strconv.Atoi(only["idx"])
			if zc := rn.runZeroOneColumn(idx); zc != nil {
				zcs = append(zcs, zc)
			}
		case "V":
			idx, _ := strconv.Atoi(only["idx"])
			if dc := rn.runDeviation(idx); dc != nil {
				dcs = append(dcs, dc)
			}
		case "P":
			idx, _ := strconv.Atoi(only["idx"])
			if dc := rn.runPieceTamper(idx); dc != nil {
				dcs = append(dcs, dc)
			}
		case "R":
			idx, _ := strconv.Atoi(only["idx"])
			rn.runRefused(idx)
		}
	} else {
		fams := "TUNGH"
		for i := 0; i < nHist; i++ {
			if hc := rn.runHistory(histParams{group: c.name, idx: i, maxLen: maxLen, maxHolders: maxHolders, fams: fams}); hc != nil {
				hcs = append(hcs, hc)
			}
		}
		for i := 0; i < nZero; i++ {
			zcs = append(zcs, rn.runZero(i, false))
			zcs = append(zcs, rn.runZero(i, true))
		}
		if zc := rn.runZeroOneColumn(0); zc != nil {
			zcs = append(zcs, zc)
		}
		for i := 0; i < nDev; i++ {
			if dc := rn.runDeviation(i); dc != nil {
				dcs = append(dcs, dc)
			}
		}
		for i := 0; i < nPiece; i++ {
			if dc := rn.runPieceTamper(i); dc != nil {
				dcs = append(dcs, dc)
			}
		}
		for i := 0; i < nRef; i++ {
			rn.runRefused(i)
		}
	}
	for _, hc := range hcs {
		lines = append(lines, hc.line)
	}
	for _, zc := range zcs {
		lines = append(lines, zc.line)
	}
	for _, dc := range dcs {
		lines = append(lines, dc.line)
	}
	if len(lines) == 0 {
		return
	}
	outs, err := vh.Driver(a.Driver, lines)
	if err != nil {
		res.Mismatch(vh.Mismatch{ID: "driver-" + c.name, Kind: "corr", Key: "model-driver-failed", Detail: err.Error(), Case: "(all)", What: "model evaluation"})
		return
	}
	for i, hc := range hcs {
		rn.compareHistory(hc, outs[i])
		res.Count(fmt.Sprintf("history %s len=%d", c.name, hc.steps), hc.text, hc.steps > 0)
	}
	for i, zc := range zcs {
		rn.compareZero(zc, outs[len(hcs)+i])
		res.Count("hjky "+c.name, zc.text, true)
	}
	for i, dc := range dcs {
		rn.compareDeviation(dc, outs[len(hcs)+len(zcs)+i])
	}
}

func main() {
	defer startProf()()
	debug.SetGCPercent(200) // the protocol code allocates heavily; the harness is short-lived
	a := vh.ParseArgs()
	res := vh.NewResult(prop, a.Seed, a.Tier)
	res.Rule = "histories: random policy of a random family (threshold, unanimity, CNF, hierarchical, gate tree with repeated leaves) on 2..maxholders ids (ordinal or sparse/large), dealt by the trusted dealer; then 1..maxlen steps drawn from {refresh 30%, recover a lost share 25%, redistribute to a new family/holder set with leavers and newcomers 45%}, driving quorum = all holders 25% / a strict minimal qualified subset / a strict non-minimal one (two histories of three prefer structures that have strict qualified subsets), every continuing holder outside the driving quorum independently passes its current shard or nil to NewParticipant, trusted anchor 50%; non-trivial = at least one step performed. after each step one observation (reconstruct over a random qualified set through the library's coefficients) and up to 3 mixed-epoch sets (a minimal qualified set split between the previous and the new epoch, same MSP); signing with post-epoch shards on the last step. hjky: every family, honest and with one dealer dealing a non-zero value. deviation: one previous holder re-deals a wrong value consistently and/or broadcasts a wrong previous vector. tampered piece: refresh / recover / redistribute into a non-ideal next structure (CNF of t-of-n, gate trees with repeated leaves: every holder owns 2-3 MSP rows) where one previous holder alters ONE component (first / last / middle, cycling) of the piece for one next holder. refused: unqualified driving set."
	var only map[string]string
	if a.Replay != "" {
		b, err := os.ReadFile(a.Replay)
		if err != nil {
			panic(err)
		}
		for _, l := range strings.Split(string(b), "\n") {
			if strings.HasPrefix(l, "case: ") {
				cs := strings.TrimPrefix(l, "case: ")
				if i := strings.Index(cs, " :: "); i >= 0 {
					cs = cs[:i]
				}
				only = parseKV(cs)
				only["kind"] = strings.Fields(cs)[0]
			}
		}
		if only == nil {
			res.Note("replay file has no case line")
			res.Write(a.Out)
			return
		}
	}
	nHist, maxLen, maxHolders, nZero, nDev, nPiece, nRef := 10, 5, 5, 5, 3, 9, 2
	if a.Tier == "thorough" {
		nHist, maxLen, maxHolders, nZero, nDev, nPiece, nRef = 120, 20, 6, 40, 36, 72, 10
	}
	if a.Search {
		nHist, maxLen, maxHolders, nZero, nDev, nPiece, nRef = 60, 8, 6, 30, 36, 72, 10
		a.Seed += 7919
	}
	if only == nil || only["group"] == "k256" {
		runGroup(newCtx[*k256.Point, *k256.Scalar]("k256", k256.NewCurve()), a, res, nHist, maxLen, maxHolders, nZero, nDev, nPiece, nRef, only,
			func(scheme, label string, msg []byte, orig *mpc.BaseShard[*k256.Point, *k256.Scalar], shards map[uint64]*mpc.BaseShard[*k256.Point, *k256.Scalar], quorum []uint64) string {
				if scheme == "dkls23" {
					return signDklsK256(a.Seed, label, msg, orig, shards, quorum)
				}
				return signK256(a.Seed, label, msg, orig, shards, quorum)
			})
	}
	if (only == nil && a.Tier == "thorough") || (only != nil && only["group"] == "bls12381g1") {
		runGroup(newCtx[*bls12381.PointG1, *bls12381.Scalar]("bls12381g1", bls12381.NewG1()), a, res, nHist/4, maxLen, maxHolders, nZero/4, nDev/4, nPiece/4, nRef/2, only, nil)
	}
	res.Write(a.Out)
}
