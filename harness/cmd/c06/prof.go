package main

import (
	"os"
	"runtime/pprof"
)

func startProf() func() {
	if p := os.Getenv("C06_PROF"); p != "" {
		f, _ := os.Create(p)
		pprof.StartCPUProfile(f)
		return func() { pprof.StopCPUProfile(); f.Close() }
	}
	return func() {}
}
