package main

import (
	"sort"

	dred "verif/harness/internal/drive/redistribute"
	"verif/harness/internal/vh"
)

// id pools: ordinal ids, and sparse / unsorted / large ones (>2^32) for the families that allow them
var (
	poolSmall = []uint64{1, 2, 3, 4, 5, 6, 7, 8, 9}
	poolWide  = []uint64{1, 2, 3, 5, 8, 13, 42, 63, 1000000007, 1 << 40, (1 << 40) + 5, 77, 4, 6}
)

func pickDistinct(r *vh.Rng, pool []uint64, n int, avoid map[uint64]bool) []uint64 {
	var cand []uint64
	for _, x := range pool {
		if !avoid[x] {
			cand = append(cand, x)
		}
	}
	for i := len(cand) - 1; i > 0; i-- {
		j := r.Intn(i + 1)
		cand[i], cand[j] = cand[j], cand[i]
	}
	if n > len(cand) {
		n = len(cand)
	}
	out := append([]uint64(nil), cand[:n]...)
	sort.Slice(out, func(i, j int) bool { return out[i] < out[j] })
	return out
}

func maxID(h []uint64) uint64 {
	m := uint64(0)
	for _, x := range h {
		if x > m {
			m = x
		}
	}
	return m
}

// genPolicy builds a policy of a random family whose shareholder set is exactly h (sorted, |h| >= 2).
func genPolicy(r *vh.Rng, h []uint64, fams string) dred.Policy {
	n := len(h)
	for attempt := 0; attempt < 8; attempt++ {
		switch fams[r.Intn(len(fams))] {
		case 'T':
			return dred.Policy{Fam: 'T', T: 2 + r.Intn(n-1), IDs: h}
		case 'U':
			return dred.Policy{Fam: 'U', IDs: h}
		case 'N':
			if maxID(h) > 64 {
				continue
			}
			// k proper subsets covering h
			k := 1 + r.Intn(3)
			if n == 2 {
				k = 2
			}
			sets := make([][]uint64, k)
			for _, x := range h {
				placed := false
				for s := range sets {
					if r.Chance(1, 2) && len(sets[s]) < n-1 {
						sets[s] = append(sets[s], x)
						placed = true
					}
				}
				if !placed {
					// put into the smallest set that stays proper
					best := -1
					for s := range sets {
						if len(sets[s]) < n-1 && (best < 0 || len(sets[s]) < len(sets[best])) {
							best = s
						}
					}
					if best < 0 {
						break
					}
					sets[best] = append(sets[best], x)
				}
			}
			ok := true
			var ne [][]uint64
			for _, s := range sets {
				if len(s) > 0 {
					ne = append(ne, s)
				}
			}
			p := dred.Policy{Fam: 'N', Sets: ne}
			if len(p.Holders()) != n || len(ne) == 0 {
				ok = false
			}
			if ok {
				return p
			}
		case 'H':
			if maxID(h) > 64 || n < 2 {
				continue
			}
			if n >= 3 && r.Chance(2, 3) {
				cut := 1 + r.Intn(n-1) // first level h[:cut]
				t1 := 1 + r.Intn(cut)
				if t1 >= n {
					continue
				}
				t2 := t1 + 1 + r.Intn(n-t1)
				return dred.Policy{Fam: 'H', Levels: []dred.Level{{T: t1, IDs: h[:cut]}, {T: t2, IDs: h[cut:]}}}
			}
			return dred.Policy{Fam: 'H', Levels: []dred.Level{{T: 1 + r.Intn(n), IDs: h}}}
		case 'G':
			// root gate over one or two sub-gates and some direct leaves; a leaf may be repeated in a sub-gate
			leaf := func(x uint64) *dred.Tree { return &dred.Tree{Leaf: true, ID: x} }
			if n == 2 || r.Chance(1, 4) {
				cs := make([]*dred.Tree, n)
				for i, x := range h {
					cs[i] = leaf(x)
				}
				return dred.Policy{Fam: 'G', Root: &dred.Tree{T: 1 + r.Intn(n), Cs: cs}}
			}
			cut := 1 + r.Intn(n-1)
			mk := func(part []uint64, extra *uint64) *dred.Tree {
				var cs []*dred.Tree
				for _, x := range part {
					cs = append(cs, leaf(x))
				}
				if extra != nil {
					cs = append(cs, leaf(*extra))
				}
				return &dred.Tree{T: 1 + r.Intn(len(cs)), Cs: cs}
			}
			var extra *uint64
			if r.Chance(1, 2) {
				x := h[r.Intn(cut)] // a holder of the first part repeated in the second gate
				extra = &x
			}
			a, b := mk(h[:cut], nil), mk(h[cut:], extra)
			root := &dred.Tree{T: 1 + r.Intn(2), Cs: []*dred.Tree{a, b}}
			if r.Chance(1, 3) {
				root.Cs = append(root.Cs, leaf(h[r.Intn(n)]))
				root.T = 1 + r.Intn(3)
			}
			return dred.Policy{Fam: 'G', Root: root}
		}
	}
	return dred.Policy{Fam: 'T', T: 2, IDs: h}
}

// subsets of ids by bitmask order (ids sorted)
func subsetOf(ids []uint64, mask int) []uint64 {
	var s []uint64
	for i, x := range ids {
		if mask&(1<<i) != 0 {
			s = append(s, x)
		}
	}
	return s
}
