package main

// What the bytes of an encoding denote, computed by the harness itself (big.Int on the raw
// bytes, coordinates read modulo p), used as the third part of the property predicate:
// "an accepted string decodes to the point its bytes denote".  Also the structured edge
// coordinates (near the modulus, near powers of two) of the -search generator.

import (
	"fmt"
	"math/big"

	"verif/harness/internal/vh"
)

func leInt(b []byte) *big.Int {
	c := make([]byte, len(b))
	for i := range b {
		c[len(b)-1-i] = b[i]
	}
	return beInt(c)
}

func leBytes(x *big.Int, n int) []byte {
	b := fixed(x, n)
	for i, j := 0, n-1; i < j; i, j = i+1, j-1 {
		b[i], b[j] = b[j], b[i]
	}
	return b
}

// denoted: what a string of the right length says.  first = the coordinate every format carries
// (x for Weierstrass, y for Edwards, u for curve25519), second = the other coordinate (uncompressed
// only), sign = the flag bit of the compressed form (-1: none), identity = reserved identity form.
type denotation struct {
	identity      bool
	first, second *big.Int
	sign          int
}

func denoted(a *api, f string, b []byte) (d denotation, ok bool) {
	p := a.cv.p
	fs := a.fsize
	d.sign = -1
	top := new(big.Int).Lsh(big.NewInt(1), uint(8*fs-1))
	allZero := true
	for _, v := range b {
		allZero = allZero && v == 0
	}
	switch a.name {
	case "k256", "p256":
		if f == "c" {
			d.first = mod(beInt(b[1:]), p)
			d.sign = int(b[0] & 1)
			d.identity = d.first.Sign() == 0
		} else {
			d.first, d.second = mod(beInt(b[1:1+fs]), p), mod(beInt(b[1+fs:]), p)
			d.identity = d.first.Sign() == 0 && d.second.Sign() == 0
		}
	case "pallas", "vesta":
		if f == "c" {
			v := leInt(b)
			d.sign = int(v.Bit(8*fs - 1))
			d.first = mod(new(big.Int).Mod(v, top), p)
			d.identity = d.first.Sign() == 0 && d.sign == 0
		} else {
			d.first, d.second = mod(leInt(b[:fs]), p), mod(leInt(b[fs:]), p)
			d.identity = d.first.Sign() == 0 && d.second.Sign() == 0
		}
	case "blsg1":
		if b[0]>>6&1 == 1 {
			d.identity = true
			return d, true
		}
		c := append([]byte{}, b[:fs]...)
		c[0] &= 0x1f
		d.first = mod(beInt(c), p)
		if f == "c" {
			d.sign = int(b[0] >> 5 & 1)
		} else {
			d.second = mod(beInt(b[fs:]), p)
		}
	case "blsg2":
		if b[0]>>6&1 == 1 {
			d.identity = true
			return d, true
		}
		half := fs / 2 // one F_p coefficient; the API's field element is c0 || c1
		c := append([]byte{}, b[:half]...)
		c[0] &= 0x1f
		d.first = join384(mod(beInt(b[half:2*half]), p), mod(beInt(c), p)) // bytes carry c1 || c0
		if f == "c" {
			d.sign = int(b[0] >> 5 & 1)
		} else {
			d.second = join384(mod(beInt(b[3*half:]), p), mod(beInt(b[2*half:3*half]), p))
		}
	case "ed25519", "ed25519p":
		if f == "c" {
			v := leInt(b)
			d.sign = int(v.Bit(8*fs - 1))
			d.first = mod(new(big.Int).Mod(v, top), p) // y
		} else {
			d.first, d.second = mod(leInt(b[:fs]), p), mod(leInt(b[fs:]), p) // y || x
		}
	case "x25519", "x25519p":
		d.identity = allZero
		d.first = mod(leInt(b[:fs]), p)
		if f == "u" {
			d.second = mod(leInt(b[fs:]), p)
		}
	default:
		return d, false
	}
	return d, true
}

// propDenotes: the accepted point is the one the bytes denote.
func propDenotes(a *api, f string, b []byte, pt any) *propFail {
	size := a.csize
	if f == "u" {
		size = a.usize
	}
	if len(b) != size {
		return nil
	}
	d, ok := denoted(a, f, b)
	if !ok {
		return nil
	}
	pcase := fmt.Sprintf("P accepted %s %s %s", a.name, f, vh.Hex(b))
	key := a.name + "-" + fmtName(f) + "-accept-othervalue"
	inf, x, y, ex, ey := a.coords(pt)
	if d.identity {
		if a.kind == 'e' {
			return nil // no reserved identity form
		}
		if !inf && !(a.kind == 'm' && !ex && x.Sign() == 0) {
			return &propFail{key, "the reserved identity encoding decodes to " + safeCanon(a, pt), pcase}
		}
		return nil
	}
	if inf {
		return &propFail{key, "a string that is not the identity encoding decodes to the identity", pcase}
	}
	if ex {
		return nil
	}
	// which API coordinate is "first"
	got1, got2 := x, y
	if a.kind == 'e' {
		got1, got2 = y, x
	}
	if got1 == nil || got1.Cmp(d.first) != 0 {
		return &propFail{key, fmt.Sprintf("bytes denote coordinate %s (mod p), decoded point has %s", vh.ZHex(d.first), safeCanon(a, pt)), pcase}
	}
	if ey || got2 == nil {
		return nil
	}
	if d.second != nil && a.kind != 'm' && got2.Cmp(d.second) != 0 {
		return &propFail{key, fmt.Sprintf("bytes denote second coordinate %s (mod p), decoded point has %s", vh.ZHex(d.second), safeCanon(a, pt)), pcase}
	}
	if d.second != nil && a.kind == 'm' && got2.Cmp(d.second) != 0 && got2.Cmp(sub(a.cv.p, d.second, a.cv.p)) != 0 {
		return &propFail{key, fmt.Sprintf("bytes denote v = ±%s, decoded point has %s", vh.ZHex(d.second), safeCanon(a, pt)), pcase}
	}
	if d.sign >= 0 && got2.Sign() != 0 && a.kind != 'm' {
		want := d.sign == 1
		var have bool
		if a.name == "blsg1" {
			have = got2.Cmp(sub(a.cv.p, got2, a.cv.p)) > 0 // lexicographically larger root
		} else if a.name == "blsg2" {
			y0, y1 := split384(got2) // c1 decides, c0 only when c1 = 0
			if y1.Sign() != 0 {
				have = y1.Cmp(sub(a.cv.p, y1, a.cv.p)) > 0
			} else {
				have = y0.Cmp(sub(a.cv.p, y0, a.cv.p)) > 0
			}
		} else {
			have = got2.Bit(0) == 1
		}
		if want != have {
			return &propFail{key, fmt.Sprintf("sign/parity bit %d, decoded point %s has the other root", d.sign, safeCanon(a, pt)), pcase}
		}
	}
	return nil
}

// edgeCoords: coordinates where masking and reduction mistakes show — just below the modulus,
// around the top bit positions of the field and of the byte string, and (>= p) unreduced values
// that still fit.
func edgeCoords(a *api) []*big.Int {
	p := a.cv.p
	var out []*big.Int
	add := func(x *big.Int) {
		if x.Sign() >= 0 && x.BitLen() <= 8*a.fsize {
			out = append(out, x)
		}
	}
	for i := int64(1); i <= 6; i++ {
		add(new(big.Int).Sub(p, big.NewInt(i)))
		add(new(big.Int).Add(p, big.NewInt(i-1)))
		add(big.NewInt(i - 1))
	}
	bits := p.BitLen()
	for _, k := range []int{bits - 1, bits - 2, bits - 3, bits - 8, bits - 9, bits, 8*a.fsize - 1, 8*a.fsize - 2, 8*a.fsize - 3, 8*a.fsize - 8, 8 * (a.fsize - 1)} {
		if k < 1 {
			continue
		}
		t := new(big.Int).Lsh(big.NewInt(1), uint(k))
		for _, dlt := range []int64{-2, -1, 0, 1, 2, 3} {
			add(new(big.Int).Add(t, big.NewInt(dlt)))
		}
		add(new(big.Int).Sub(new(big.Int).Lsh(t, 1), big.NewInt(1)))
	}
	return out
}

// edgeStrings: compressed-form strings carrying an edge coordinate, both sign bits.
func edgeStrings(a *api) [][]byte {
	var out [][]byte
	fs := a.fsize
	for _, c := range edgeCoords(a) {
		for sign := 0; sign < 2; sign++ {
			var b []byte
			switch a.name {
			case "k256", "p256":
				b = append([]byte{byte(2 + sign)}, fixed(c, fs)...)
			case "pallas", "vesta", "ed25519", "ed25519p":
				if c.BitLen() > 8*fs-1 && sign == 0 {
					b = leBytes(c, fs) // top bit already part of the value
				} else if c.BitLen() <= 8*fs-1 {
					b = leBytes(c, fs)
					b[fs-1] |= byte(sign) << 7
				}
			case "blsg1", "blsg2":
				if c.BitLen() <= 8*fs-3 {
					b = fixed(c, fs)
					b[0] |= 0x80 | byte(sign)<<5
					if a.name == "blsg2" {
						b = append(b, fixed(big.NewInt(int64(sign)), fs)...)
					}
				}
			case "x25519", "x25519p":
				if sign == 0 {
					b = leBytes(c, fs)
				}
			}
			if b != nil {
				out = append(out, b)
			}
		}
	}
	return out
}
