// c13 — correspondence harness for property C13 (element encodings are faithful; decoders
// admit only valid group elements).  See /verif/DESIGN.md §5 C13.
//
// Every case is one text line that both the extracted Coq model (ocaml/c13/driver) and the
// implementation evaluate to an observable string:
//
//	D  <codec> <c|u> <hex>      decode           REJ | OK <point>
//	E  <codec> <c|u> <point>    encode           <hex> | PANIC
//	A  <codec> <x> <y>          FromAffine       REJ | OK <point>
//	AX <codec> <x> <0|1>        FromAffineX      REJ | OK <point>
//	F  <field> <hex>            FromBytes        REJ | OK <value>
//	W  <field> <hex>            FromWideBytes    REJ | OK <value>
//	FE <field> <value>          Bytes            <hex>
//
// Relation R: equal strings (accept/reject class, decoded affine value, produced bytes).  The
// property's own predicate (P lines) is evaluated on the implementation alone.
package main

import (
	"bytes"
	"fmt"
	"math/big"
	"os"
	"sort"
	"strings"
	"time"

	"github.com/bronlabs/bron-crypto/pkg/base/curves/pairable/bls12381"

	"verif/harness/internal/vh"
)

// ---- evaluation of one case line on the implementation --------------------------------------

func showDec(a *api, p any, err error, panicked string) string {
	if panicked != "" {
		return "PANIC"
	}
	if err != nil {
		return "REJ"
	}
	var s string
	if pk := vh.Safely(func() { s = a.canon(p) }); pk != "" {
		return "PANIC-AFFINE"
	}
	return "OK " + s
}

// build reconstructs an implementation point from its canonical text.
func (a *api) build(canon string) (any, error) {
	if canon == "inf" {
		return a.identity(), nil
	}
	f := strings.Split(canon, ",")
	if a.kind == '2' {
		if len(f) != 4 {
			return nil, fmt.Errorf("bad G2 point")
		}
		return a.fromAffine(join384(vh.UnZHex(f[0]), vh.UnZHex(f[1])), join384(vh.UnZHex(f[2]), vh.UnZHex(f[3])))
	}
	if a.kind == 'm' && (f[1] == "ERR" || f[0] == "0") {
		// the order-2 point (u,v) = (0,0): double of the order-4 point u = 1
		one := make([]byte, a.csize)
		one[0] = 1
		p, err := a.dec("c", one)
		if err != nil {
			return nil, err
		}
		return a.dbl(p), nil
	}
	return a.fromAffine(vh.UnZHex(f[0]), vh.UnZHex(f[1]))
}

func implEval(line string) string {
	f := strings.Split(line, " ")
	switch f[0] {
	case "D":
		a := apiByName(f[1])
		var p any
		var err error
		pk := vh.Safely(func() { p, err = a.dec(f[2], vh.UnHex(f[3])) })
		return showDec(a, p, err, pk)
	case "E":
		a := apiByName(f[1])
		p, err := a.build(f[3])
		if err != nil {
			return "UNBUILDABLE"
		}
		var b []byte
		if pk := vh.Safely(func() { b = a.enc(f[2], p) }); pk != "" {
			return "PANIC"
		}
		return vh.Hex(b)
	case "A":
		a := apiByName(f[1])
		var p any
		var err error
		pk := vh.Safely(func() { p, err = a.fromAffine(vh.UnZHex(f[2]), vh.UnZHex(f[3])) })
		return showDec(a, p, err, pk)
	case "AX":
		a := apiByName(f[1])
		var p any
		var err error
		pk := vh.Safely(func() { p, err = a.fromAffineX(vh.UnZHex(f[2]), f[3] == "1") })
		return showDec(a, p, err, pk)
	case "F", "W":
		fl := fieldByName(f[1])
		var v *big.Int
		var err error
		pk := vh.Safely(func() {
			if f[0] == "F" {
				v, err = fl.fromBytes(vh.UnHex(f[2]))
			} else {
				v, err = fl.fromWide(vh.UnHex(f[2]))
			}
		})
		if pk != "" {
			return "PANIC"
		}
		if err != nil {
			return "REJ"
		}
		return "OK " + vh.ZHex(v)
	case "G":
		var x *bls12381.GtElement
		var err error
		if pk := vh.Safely(func() { x, err = bls12381.NewGt().FromBytes(vh.UnHex(f[1])) }); pk != "" {
			return "PANIC"
		}
		if err != nil {
			return "REJ"
		}
		b := x.Bytes()
		var cs []string
		for i := 0; i+48 <= len(b); i += 48 {
			cs = append(cs, vh.ZHex(beInt(b[i:i+48])))
		}
		return "OK " + strings.Join(cs, ",")
	case "FE":
		fl := fieldByName(f[1])
		b, err := fl.encode(vh.UnZHex(f[2]))
		if err != nil {
			return "UNBUILDABLE"
		}
		return vh.Hex(b)
	}
	return "BAD-LINE"
}

// ---- case set -----------------------------------------------------------------------------------

type caseSet struct {
	lines []string
	class []string
	seen  map[string]bool
}

func (cs *caseSet) add(class, line string) {
	if cs.seen[line] {
		return
	}
	cs.seen[line] = true
	cs.lines = append(cs.lines, line)
	cs.class = append(cs.class, class)
}

// validPoints returns implementation points of every kind the quantifier names: identity,
// generator multiples, a pseudo-random walk, points outside the prime subgroup (where the
// type admits them), small-order points and points with a zero coordinate.
func validPoints(a *api, seed int64, n int) []any {
	var ps []any
	ps = append(ps, a.identity())
	g := a.gen()
	cur := g
	for i := 0; i < 12; i++ {
		ps = append(ps, cur)
		cur = a.add(cur, g)
	}
	ps = append(ps, a.neg(g))
	r := vh.NewRng(seed, "C13", "walk-"+a.name, 0)
	cur = a.dbl(a.dbl(cur))
	for i := 0; i < n; i++ {
		switch r.Intn(3) {
		case 0:
			cur = a.dbl(cur)
		case 1:
			cur = a.add(cur, g)
		default:
			cur = a.add(cur, ps[r.Intn(len(ps))])
		}
		cur = a.dbl(a.add(cur, g))
		ps = append(ps, cur)
		if r.Chance(1, 4) {
			ps = append(ps, a.neg(cur))
		}
	}
	// points obtained by decoding (random x / y): these are outside the prime subgroup for the
	// cofactor curves
	if !a.subgroup || a.kind == 'w' {
		got := 0
		for i := 0; got < n/2 && i < 40*n; i++ {
			b := r.Bytes(a.csize)
			switch a.name {
			case "k256", "p256":
				b[0] = 2 + b[0]&1
			case "blsg1", "blsg2":
				b[0] = 0x80 | b[0]&0x3f&^0x40
			}
			if p, err := a.dec("c", b); err == nil {
				ps = append(ps, p)
				got++
			}
		}
	}
	for _, h := range specialEncodings(a) {
		if p, err := a.dec(h.f, vh.UnHex(h.hex)); err == nil {
			ps = append(ps, p)
			// and mixed with subgroup points
			if !a.subgroup {
				ps = append(ps, a.add(p, g), a.add(p, cur))
			}
		}
	}
	if searchMode {
		// coordinates near the modulus and near powers of two (top-bit masking mistakes show only there)
		for _, b := range edgeStrings(a) {
			if p, err := a.dec("c", b); err == nil {
				ps = append(ps, p)
			}
		}
		if a.fromAffineX != nil {
			for _, c := range edgeCoords(a) {
				if c.Cmp(a.cv.p) < 0 {
					if p, err := a.fromAffineX(c, c.Bit(0) == 1); err == nil {
						ps = append(ps, p)
					}
				}
			}
		}
	}
	if a.name == "p256" {
		// the two points with x = 0 (F2): via FromAffineX
		for _, odd := range []bool{false, true} {
			if p, err := a.fromAffineX(big.NewInt(0), odd); err == nil {
				ps = append(ps, p)
			}
		}
	}
	if a.kind == 'm' && !a.subgroup {
		if p, err := a.build("0,ERR"); err == nil {
			ps = append(ps, p) // order-2 point (0,0)
		}
	}
	return ps
}

type enc struct{ f, hex string }

// specialEncodings: small-order points, zero coordinates, twist / off-subgroup points,
// non-reduced coordinates — as byte strings for the decoders.
func specialEncodings(a *api) []enc {
	var out []enc
	le := func(x *big.Int, n int) string {
		b := fixed(x, n)
		for i, j := 0, len(b)-1; i < j; i, j = i+1, j-1 {
			b[i], b[j] = b[j], b[i]
		}
		return vh.Hex(b)
	}
	p := a.cv.p
	switch a.kind {
	case 'e':
		for _, h := range []string{
			"0100000000000000000000000000000000000000000000000000000000000000",
			"ecffffffffffffffffffffffffffffffffffffffffffffffffffffffffffff7f",
			"0000000000000000000000000000000000000000000000000000000000000000",
			"0000000000000000000000000000000000000000000000000000000000000080",
			"26e8958fc2b227b045c3f489f2ef98f0d5dfac05d3c63339b13802886d53fc05",
			"26e8958fc2b227b045c3f489f2ef98f0d5dfac05d3c63339b13802886d53fc85",
			"c7176a703d4dd84fba3c0b760d10670f2a2053fa2c39ccc64ec7fd7792ac037a",
			"c7176a703d4dd84fba3c0b760d10670f2a2053fa2c39ccc64ec7fd7792ac03fa",
			// x = 0 with the sign bit set (non-canonical), y = 1 and y = -1
			"0100000000000000000000000000000000000000000000000000000000000080",
			"ecffffffffffffffffffffffffffffffffffffffffffffffffffffffffffffff",
		} {
			out = append(out, enc{"c", h})
		}
		// non-reduced y = p + k, both signs
		for k := int64(0); k < 19; k++ {
			v := new(big.Int).Add(p, big.NewInt(k))
			out = append(out, enc{"c", le(v, 32)})
			out = append(out, enc{"c", le(new(big.Int).SetBit(v, 255, 1), 32)})
		}
	case 'm':
		for _, u := range []string{"0", "1", "9",
			"b8495f16056286fdb1329ceb8d09da6ac49ff1fae35616aeb8413b7c7aebe0",
			"57119fd0dd4e22d8868e1c58c45c44045bef839c55b1d0b1248c50a3bc959c5f"} {
			out = append(out, enc{"c", le(hx(u), 32)})
		}
		for _, d := range []int64{-1, 0, 1, 2, 18} {
			v := new(big.Int).Add(p, big.NewInt(d))
			out = append(out, enc{"c", le(v, 32)})
		}
	case 'w':
		switch a.name {
		case "blsg1":
			// (0, ±2): order 3, on the curve, outside G1
			out = append(out, enc{"c", "80" + strings.Repeat("00", 47)}, enc{"c", "a0" + strings.Repeat("00", 47)})
			out = append(out, enc{"u", strings.Repeat("00", 95) + "02"})
			// infinity encodings
			out = append(out, enc{"c", "c0" + strings.Repeat("00", 47)}, enc{"u", "40" + strings.Repeat("00", 95)})
		case "k256", "p256":
			for _, t := range []string{"02", "03"} {
				out = append(out, enc{"c", t + strings.Repeat("00", 32)})
				out = append(out, enc{"c", t + vh.Hex(fixed(p, 32))}) // x = p, reduces to 0
			}
			out = append(out, enc{"u", "04" + strings.Repeat("00", 64)})
		case "pallas", "vesta":
			out = append(out, enc{"c", strings.Repeat("00", 32)}, enc{"c", strings.Repeat("00", 31) + "80"})
			out = append(out, enc{"c", le(p, 32)}, enc{"c", le(new(big.Int).SetBit(p, 255, 1), 32)})
			out = append(out, enc{"u", strings.Repeat("00", 64)})
		}
	}
	return out
}

func flip(b []byte, bit int) []byte {
	c := append([]byte{}, b...)
	c[bit/8] ^= 1 << (bit % 8)
	return c
}

// decodeStrings: the malformed / adversarial stream for one codec and format.
func decodeStrings(a *api, f string, pts []any, seed int64, nRandom, nFlip int) [][]byte {
	size := a.csize
	if f == "u" {
		size = a.usize
	}
	var out [][]byte
	r := vh.NewRng(seed, "C13", "strings-"+a.name+"-"+f, 0)
	var encs [][]byte
	for _, p := range pts {
		var b []byte
		if pk := vh.Safely(func() { b = a.enc(f, p) }); pk == "" {
			encs = append(encs, b)
		}
	}
	out = append(out, encs...)
	// every length 0 … 2*size+1, cut from / padded after a valid encoding
	base := encs[1%len(encs)]
	for n := 0; n <= 2*size+1; n++ {
		b := make([]byte, n)
		copy(b, base)
		if n > len(base) {
			copy(b[len(base):], r.Bytes(n-len(base)))
			if n%2 == 0 {
				for i := len(base); i < n; i++ {
					b[i] = 0
				}
			}
		}
		out = append(out, b)
	}
	// every value of the flag-carrying byte(s) on a valid encoding and on the identity's
	bases := [][]byte{base, encs[0]}
	for bi, b0 := range bases {
		for v := 0; v < 256; v++ {
			if costOf(a) >= 8 && !(v&0x1f == 0 || v&0x1f == 0x1f || v&0x1f == int(b0[0])&0x1f || v&0xe0 == int(b0[0])&0xe0 && v%7 == bi) {
				continue // all eight flag-bit combinations on a few payloads
			}
			c := append([]byte{}, b0...)
			c[0] = byte(v)
			out = append(out, c)
			if a.kind != 'w' || a.name == "pallas" || a.name == "vesta" {
				c = append([]byte{}, b0...)
				c[len(c)-1] = byte(v)
				out = append(out, c)
				if f == "u" {
					c = append([]byte{}, b0...)
					c[len(c)/2-1] = byte(v)
					out = append(out, c)
				}
			}
		}
	}
	// single-bit flips of valid encodings
	for i := 0; i < nFlip; i++ {
		b := encs[r.Intn(len(encs))]
		out = append(out, flip(b, r.Intn(8*len(b))))
	}
	// non-reduced coordinates: add p to each coordinate where it fits
	for i := 0; i < len(encs) && i < 40; i++ {
		out = append(out, nonReduced(a, f, encs[i])...)
	}
	for _, h := range specialEncodings(a) {
		if h.f == f {
			out = append(out, vh.UnHex(h.hex))
		}
	}
	if searchMode && f == "c" {
		out = append(out, edgeStrings(a)...)
	}
	// random strings of the right length, with a plausible flag byte most of the time
	for i := 0; i < nRandom; i++ {
		b := r.Bytes(size)
		if r.Chance(4, 5) {
			switch a.name {
			case "k256", "p256":
				if f == "c" {
					b[0] = 2 + b[0]&1
				} else {
					b[0] = 4
				}
			case "blsg1", "blsg2":
				b[0] &= 0x1f
				if f == "c" {
					b[0] |= 0x80 | byte(r.Intn(2))<<5
				}
			case "pallas", "vesta":
				b[len(b)-1] &= 0xbf
			}
		}
		if f == "u" && r.Chance(1, 2) && a.modelled {
			// x from a valid point, random y (and the other way round)
			e := encs[r.Intn(len(encs))]
			if len(e) == size {
				h := size / 2
				if r.Bool() {
					copy(b[:h+size%2], e[:h+size%2])
				} else {
					copy(b[h+size%2:], e[h+size%2:])
				}
			}
		}
		out = append(out, b)
	}
	out = append(out, make([]byte, size), bytes.Repeat([]byte{0xff}, size))
	return out
}

// nonReduced returns variants of a valid encoding whose coordinates are increased by p.
func nonReduced(a *api, f string, e []byte) [][]byte {
	var out [][]byte
	p := a.cv.p
	fs := a.fsize
	addP := func(b []byte, bigEndian bool, maxBits int) []byte {
		c := append([]byte{}, b...)
		if !bigEndian {
			for i, j := 0, len(c)-1; i < j; i, j = i+1, j-1 {
				c[i], c[j] = c[j], c[i]
			}
		}
		v := new(big.Int).Add(beInt(c), p)
		if v.BitLen() > maxBits {
			return nil
		}
		c = fixed(v, len(b))
		if !bigEndian {
			for i, j := 0, len(c)-1; i < j; i, j = i+1, j-1 {
				c[i], c[j] = c[j], c[i]
			}
		}
		return c
	}
	switch a.name {
	case "k256", "p256":
		if len(e) < 1+fs {
			return nil
		}
		if x := addP(e[1:1+fs], true, 8*fs); x != nil {
			out = append(out, append(append([]byte{e[0]}, x...), e[1+fs:]...))
		}
		if f == "u" {
			if y := addP(e[1+fs:], true, 8*fs); y != nil {
				out = append(out, append(append([]byte{}, e[:1+fs]...), y...))
			}
		}
	case "pallas", "vesta":
		if f == "c" {
			sign := e[fs-1] & 0x80
			c := append([]byte{}, e...)
			c[fs-1] &= 0x7f
			if x := addP(c, false, 8*fs-1); x != nil {
				x[fs-1] |= sign
				out = append(out, x)
			}
		} else {
			if x := addP(e[:fs], false, 8*fs); x != nil {
				out = append(out, append(x, e[fs:]...))
			}
			if y := addP(e[fs:], false, 8*fs); y != nil {
				out = append(out, append(append([]byte{}, e[:fs]...), y...))
			}
		}
	case "blsg1":
		flags := e[0] & 0xe0
		c := append([]byte{}, e[:fs]...)
		c[0] &= 0x1f
		if x := addP(c, true, 381); x != nil {
			x[0] |= flags
			out = append(out, append(x, e[fs:]...))
		}
		if f == "u" {
			if y := addP(e[fs:], true, 8*fs); y != nil {
				out = append(out, append(append([]byte{}, e[:fs]...), y...))
			}
		}
	case "ed25519", "ed25519p":
		if f == "c" {
			sign := e[fs-1] & 0x80
			c := append([]byte{}, e...)
			c[fs-1] &= 0x7f
			if y := addP(c, false, 255); y != nil {
				y[fs-1] |= sign
				out = append(out, y)
			}
		} else {
			if y := addP(e[:fs], false, 256); y != nil {
				out = append(out, append(y, e[fs:]...))
			}
			if x := addP(e[fs:], false, 256); x != nil {
				out = append(out, append(append([]byte{}, e[:fs]...), x...))
			}
		}
	case "x25519", "x25519p":
		if u := addP(e[:fs], false, 256); u != nil {
			out = append(out, append(u, e[fs:]...))
		}
	}
	return out
}

// cofactorAboveOne: on the cofactor-1 curves every curve point is in the group, the big.Int
// subgroup test would only repeat the curve-equation test.
func cofactorAboveOne(a *api) bool {
	switch a.name {
	case "k256", "p256", "pallas", "vesta":
		return false
	}
	return true
}

func costOf(a *api) int {
	switch a.name {
	case "blsg2":
		return 100
	case "blsg1", "ed25519p", "x25519p":
		return 8
	case "pallas", "vesta":
		return 3
	}
	return 1
}

// ---- the property's own predicate on the implementation ---------------------------------------

type propFail struct{ key, detail, pcase string }

// isOrder2: the curve25519 point (u,v) = (0,0).
func isOrder2(a *api, p any) bool {
	if a.kind != 'm' {
		return false
	}
	inf, x, _, ex, _ := a.coords(p)
	return !inf && !ex && x.Sign() == 0
}

func fmtName(f string) string {
	if f == "c" {
		return "compressed"
	}
	return "uncompressed"
}

// propRoundTrip: decode(encode P) = P for one implementation point (for the u-only
// curve25519 compressed format: = ±P).
func propRoundTrip(a *api, f string, p any) *propFail {
	var b []byte
	canon := "?"
	vh.Safely(func() { canon = a.canon(p) })
	pcase := fmt.Sprintf("P roundtrip %s %s %s", a.name, f, canon)
	if pk := vh.Safely(func() { b = a.enc(f, p) }); pk != "" {
		key := a.name + "-" + fmtName(f) + "-encode-panic"
		if isOrder2(a, p) {
			key = a.name + "-uncompressed-order2-panic"
		}
		return &propFail{key, "encoding panics: " + strings.TrimSpace(pk), pcase}
	}
	var q any
	var err error
	if pk := vh.Safely(func() { q, err = a.dec(f, b) }); pk != "" {
		return &propFail{a.name + "-" + fmtName(f) + "-decode-panic", "decoder panics on " + vh.Hex(b) + ": " + pk, pcase}
	}
	key := a.name + "-" + fmtName(f) + "-roundtrip"
	inf, x, _, _, _ := a.coords(p)
	if a.name == "p256" && f == "c" && !inf && x != nil && x.Sign() == 0 {
		key = "p256-compressed-x0"
	}
	if a.kind == 'm' && !inf && x != nil && x.Sign() == 0 {
		key = a.name + "-" + fmtName(f) + "-order2"
	}
	if err != nil {
		return &propFail{key, fmt.Sprintf("encoding %s of %s is rejected by the decoder", vh.Hex(b), canon), pcase}
	}
	ok := a.equal(q, p)
	if !ok && a.kind == 'm' && f == "c" {
		ok = a.equal(q, a.neg(p)) // the u-coordinate does not carry the sign of v
	}
	if !ok {
		return &propFail{key, fmt.Sprintf("decode(encode P) != P: P=%s encoding=%s decoded=%s", canon, vh.Hex(b), a.canon(q)), pcase}
	}
	return nil
}

// propAccepted: an accepted string denotes a point of the curve (big.Int arithmetic on the
// affine coordinates the API reports), inside the prime-order subgroup where the type promises
// it, and re-encoding it decodes to the same point.
func propAccepted(a *api, f string, b []byte, p any) *propFail {
	pcase := fmt.Sprintf("P accepted %s %s %s", a.name, f, vh.Hex(b))
	inf, x, y, ex, ey := a.coords(p)
	if !inf && a.kind != '2' {
		if ex || ey {
			if !(a.kind == 'm' && !ex && x.Sign() == 0) {
				return &propFail{a.name + "-" + fmtName(f) + "-accept-noaffine", "accepted value has no affine coordinates", pcase}
			}
			y = big.NewInt(0)
		}
		if !a.onCurve(x, y) {
			return &propFail{a.name + "-" + fmtName(f) + "-accept-offcurve", fmt.Sprintf("accepted (%s,%s) is not on the curve", vh.ZHex(x), vh.ZHex(y)), pcase}
		}
		if a.subgroup && cofactorAboveOne(a) && !a.inSubgroup(inf, x, y) {
			return &propFail{a.name + "-" + fmtName(f) + "-accept-nonsubgroup", fmt.Sprintf("accepted (%s,%s) is outside the prime-order subgroup", vh.ZHex(x), vh.ZHex(y)), pcase}
		}
	}
	if a.kind == '2' {
		if !inf && !g2OnCurve(x, y) {
			return &propFail{"blsg2-" + fmtName(f) + "-accept-offcurve", "accepted G2 value is not on the twist", pcase}
		}
		if !a.torsionFree(p) {
			return &propFail{"blsg2-" + fmtName(f) + "-accept-nonsubgroup", "accepted G2 value is not torsion free", pcase}
		}
	}
	if a.subgroup && !a.torsionFree(p) {
		return &propFail{a.name + "-" + fmtName(f) + "-accept-nonsubgroup", "accepted value is not torsion free (library's own test)", pcase}
	}
	return propDenotes(a, f, b, p)
}

// g2OnCurve: y^2 = x^3 + 4(1+u) over F_p[u]/(u^2+1); coordinates arrive as c0 || c1 (96 bytes).
func g2OnCurve(x, y *big.Int) bool {
	p := blsP
	split := func(v *big.Int) (*big.Int, *big.Int) {
		b := fixed(v, 96)
		return beInt(b[:48]), beInt(b[48:])
	}
	m2 := func(a0, a1, b0, b1 *big.Int) (*big.Int, *big.Int) {
		return sub(mul(a0, b0, p), mul(a1, b1, p), p), add(mul(a0, b1, p), mul(a1, b0, p), p)
	}
	x0, x1 := split(x)
	y0, y1 := split(y)
	l0, l1 := m2(y0, y1, y0, y1)
	s0, s1 := m2(x0, x1, x0, x1)
	c0, c1 := m2(s0, s1, x0, x1)
	c0, c1 = add(c0, big.NewInt(4), p), add(c1, big.NewInt(4), p)
	return l0.Cmp(c0) == 0 && l1.Cmp(c1) == 0
}

// flagSpec says whether a string of the right length carries flag bits that the format
// reserves (SEC1 tag bytes; ZCash BLS12-381 C/I/S bits).  Such strings must be rejected.
func wrongFlags(a *api, f string, b []byte) (bool, string) {
	switch a.name {
	case "k256", "p256":
		if f == "c" && b[0] != 2 && b[0] != 3 {
			return true, "tag byte is neither 02 nor 03"
		}
		if f == "u" && b[0] != 4 {
			return true, "tag byte is not 04"
		}
	case "blsg1", "blsg2":
		c, i, s := b[0]>>7&1, b[0]>>6&1, b[0]>>5&1
		rest := b[0]&0x1f != 0
		for _, v := range b[1:] {
			rest = rest || v != 0
		}
		if f == "c" {
			if c != 1 {
				return true, "compression flag clear in the compressed format"
			}
			if i == 1 && (s == 1 || rest) {
				return true, "infinity flag with sort flag or non-zero payload"
			}
		} else {
			if c == 1 {
				return true, "compression flag set in the uncompressed format"
			}
			if s == 1 {
				return true, "sort flag set in the uncompressed format"
			}
			if i == 1 && rest {
				return true, "infinity flag with non-zero payload"
			}
		}
	}
	return false, ""
}

// ---- scalar / base fields ------------------------------------------------------------------------

type fieldAPI struct {
	name      string
	q         *big.Int
	size      int
	fromBytes func([]byte) (*big.Int, error)
	fromWide  func([]byte) (*big.Int, error)
	encode    func(*big.Int) ([]byte, error)
}

type fieldS[F any] interface {
	FromBytes([]byte) (F, error)
	FromWideBytes([]byte) (F, error)
}

func mkField[F feI](name string, q *big.Int, size int, f fieldS[F]) *fieldAPI {
	conv := func(e F, err error) (*big.Int, error) {
		if err != nil {
			return nil, err
		}
		return beInt(e.Bytes()), nil
	}
	return &fieldAPI{name: name, q: q, size: size,
		fromBytes: func(b []byte) (*big.Int, error) { return conv(f.FromBytes(b)) },
		fromWide:  func(b []byte) (*big.Int, error) { return conv(f.FromWideBytes(b)) },
		encode: func(v *big.Int) ([]byte, error) {
			e, err := f.FromBytes(fixed(v, size))
			if err != nil {
				return nil, err
			}
			return e.Bytes(), nil
		}}
}

var allFields []*fieldAPI

func fieldByName(n string) *fieldAPI {
	for _, f := range allFields {
		if f.name == n {
			return f
		}
	}
	panic("unknown field " + n)
}

func fieldStrings(fl *fieldAPI, seed int64, n int) (narrow, wide [][]byte) {
	r := vh.NewRng(seed, "C13", "field-"+fl.name, 0)
	q := fl.q
	special := []*big.Int{big.NewInt(0), big.NewInt(1), new(big.Int).Sub(q, big.NewInt(1)), q, new(big.Int).Add(q, big.NewInt(1)),
		new(big.Int).Lsh(q, 1), new(big.Int).Sub(new(big.Int).Lsh(big.NewInt(1), uint(8*fl.size)), big.NewInt(1)),
		new(big.Int).Lsh(big.NewInt(1), uint(8*fl.size-1)), new(big.Int).Sub(new(big.Int).Lsh(big.NewInt(1), uint(8*fl.size-1)), big.NewInt(1))}
	for _, v := range special {
		if v.BitLen() <= 8*fl.size {
			narrow = append(narrow, fixed(v, fl.size))
		}
		wide = append(wide, fixed(v, 2*fl.size), fixed(new(big.Int).Mul(v, v), 2*fl.size), v.Bytes())
	}
	for l := 0; l <= 2*fl.size+1; l++ {
		narrow = append(narrow, r.Bytes(l))
	}
	for l := 0; l <= 4*fl.size+1; l++ {
		wide = append(wide, r.Bytes(l))
	}
	for i := 0; i < n; i++ {
		narrow = append(narrow, r.Bytes(fl.size))
		wide = append(wide, r.Bytes(2*fl.size))
		b := r.Bytes(2 * fl.size)
		b[0] |= 0x80
		wide = append(wide, b, bytes.Repeat([]byte{0xff}, 1+r.Intn(2*fl.size)))
	}
	return
}

var (
	searchMode bool
	res0     *vh.Result
	perKey   = map[string]int{}
	phaseT   = map[string]float64{}
	phaseNow = time.Now()
)

// report forwards at most a few mismatches per key (one class of input, one finding).
func report(m vh.Mismatch) {
	perKey[m.Kind+"/"+m.Key]++
	if perKey[m.Kind+"/"+m.Key] <= 4 {
		res0.Mismatch(m)
	}
}

func phase(name string) {
	phaseT[name] += time.Since(phaseNow).Seconds()
	phaseNow = time.Now()
}

// ---- main ---------------------------------------------------------------------------------------

func main() {
	a := vh.ParseArgs()
	res := vh.NewResult("C13", a.Seed, a.Tier)
	res0 = res
	res.Rule = "per curve type and format (compressed/uncompressed/FromAffine/FromAffineX/FromBytes of scalars and base-field elements): encodings of identity, generator multiples, a pseudo-random walk, off-subgroup, small-order and zero-coordinate points; strings of every length 0..2*size+1, every value of the flag-carrying bytes, single-bit flips of valid encodings, coordinates increased by p, random strings with plausible flags. Non-trivial = the string has the right length (gets past the length guard); distinct by case text. Model and implementation must agree on accept/reject, decoded affine value and produced bytes; the property predicate (round trip, injectivity, accepted => on curve / in subgroup by big.Int arithmetic, reserved flags rejected, no panic) is evaluated on the implementation alone."
	searchMode = a.Search
	allAPIs = apis()
	allFields = fields()

	if a.Replay != "" {
		replay(a, res)
		res.Write(a.Out)
		return
	}

	nWalk, nRandom, nFlip, nField := 24, 180, 90, 80
	if a.Tier == "thorough" {
		nWalk, nRandom, nFlip, nField = 120, 6000, 3000, 3000
	}
	if a.Search {
		nWalk, nRandom, nFlip, nField = 200, 3000, 3000, 1000
	}

	cs := &caseSet{seen: map[string]bool{}}
	type accepted struct {
		a *api
		f string
		b []byte
	}
	pointsOf := map[string][]any{}

	for _, ap := range allAPIs {
		// subgroup checks make a decoder (and above all its affine model) 10-100x slower
		cost := costOf(ap)
		nr, nf, nw := nRandom/cost, nFlip/cost, nWalk
		if cost >= 8 {
			nw = nWalk / 2
		}
		pts := validPoints(ap, a.Seed, nw)
		pointsOf[ap.name] = pts

		// (1) property on the implementation: round trip and injectivity over the valid points
		for _, f := range []string{"c", "u"} {
			byEnc := map[string]string{}
			for _, p := range pts {
				res.Count("prop-roundtrip-"+ap.name+"-"+f, fmt.Sprintf("P roundtrip %s %s %s", ap.name, f, safeCanon(ap, p)), true)
				if pf := propRoundTrip(ap, f, p); pf != nil {
					report(vh.Mismatch{ID: pf.pcase, Kind: "prop", Key: pf.key, Detail: pf.detail, Case: pf.pcase, PropFail: true, What: "C13_decode_encode_point"})
					continue
				}
				var b []byte
				if vh.Safely(func() { b = ap.enc(f, p) }) != "" {
					continue
				}
				c := safeCanon(ap, p)
				if ap.kind == 'm' && f == "c" {
					c = strings.Split(c, ",")[0] // u only
				}
				if prev, ok := byEnc[vh.Hex(b)]; ok && prev != c {
					key := ap.name + "-" + fmtName(f) + "-injective"
					if ap.name == "p256" && f == "c" && (strings.HasPrefix(c, "0,") || strings.HasPrefix(prev, "0,")) {
						key = "p256-compressed-x0"
					}
					report(vh.Mismatch{ID: "inj-" + ap.name + f, Kind: "prop", Key: key, PropFail: true,
						Detail: fmt.Sprintf("two different elements %s and %s share the encoding %s", prev, c, vh.Hex(b)),
						Case:   fmt.Sprintf("P roundtrip %s %s %s", ap.name, f, c), What: "C13_encode_injective_off_reserved"})
				}
				byEnc[vh.Hex(b)] = c
			}
		}

		phase("prop-"+ap.name)
		// (2) decoders on the adversarial stream: model correspondence + property of accepted strings
		for _, f := range []string{"c", "u"} {
			size := ap.csize
			if f == "u" {
				size = ap.usize
			}
			for _, b := range decodeStrings(ap, f, pts, a.Seed, nr, nf) {
				line := fmt.Sprintf("D %s %s %s", ap.name, f, vh.Hex(b))
				var p any
				var err error
				pk := vh.Safely(func() { p, err = ap.dec(f, b) })
				if pk != "" {
					report(vh.Mismatch{ID: line, Kind: "prop", Key: ap.name + "-" + fmtName(f) + "-decode-panic", Detail: "decoder panics: " + pk, Case: line, PropFail: true, What: "decoders never panic"})
				}
				if ap.modelled {
					cs.add("decode-"+ap.name+"-"+f, line)
				} else {
					res.Count("decode-"+ap.name+"-"+f+"(impl only)", line, len(b) == size)
				}
				if pk == "" && err == nil {
					if len(b) != size {
						report(vh.Mismatch{ID: line, Kind: "prop", Key: ap.name + "-" + fmtName(f) + "-length", Detail: fmt.Sprintf("string of length %d accepted (format size %d)", len(b), size), Case: line, PropFail: true, What: "C13_wrong_length_rejected"})
						continue
					}
					if bad, why := wrongFlags(ap, f, b); bad {
						report(vh.Mismatch{ID: line, Kind: "prop", Key: ap.name + "-" + fmtName(f) + "-flags", Detail: "accepted although " + why, Case: line, PropFail: true, What: "C13_wrong_flags_rejected"})
					}
					if pf := propAccepted(ap, f, b, p); pf != nil {
						report(vh.Mismatch{ID: line, Kind: "prop", Key: pf.key, Detail: pf.detail, Case: pf.pcase, PropFail: true, What: "C13_decoded_on_curve / C13_decoded_in_subgroup"})
					}
					// the decoded element re-encodes to a string that decodes to it again
					if pf := propRoundTrip(ap, f, p); pf != nil && !strings.HasSuffix(pf.key, "-x0") && !strings.HasSuffix(pf.key, "-order2") {
						report(vh.Mismatch{ID: line, Kind: "prop", Key: pf.key, Detail: "after decoding " + vh.Hex(b) + ": " + pf.detail, Case: pf.pcase, PropFail: true, What: "C13_decode_encode_point"})
					}
					// FromBytes / UnmarshalBinary / CBOR agree with the format decoder
					if f == "c" {
						checkWrappers(res, ap, b, p)
					}
				} else if pk == "" && f == "c" {
					checkWrappersReject(res, ap, b)
				}
			}
			if ap.modelled {
				for _, p := range pts {
					cs.add("encode-"+ap.name+"-"+f, fmt.Sprintf("E %s %s %s", ap.name, f, safeCanon(ap, p)))
				}
			}
		}

		phase("dec-"+ap.name)
		// (3) affine constructors
		if ap.modelled {
			r := vh.NewRng(a.Seed, "C13", "affine-"+ap.name, 0)
			for _, p := range pts {
				inf, x, y, ex, ey := ap.coords(p)
				if inf || ex || ey {
					continue
				}
				cs.add("affine-"+ap.name, fmt.Sprintf("A %s %s %s", ap.name, vh.ZHex(x), vh.ZHex(y)))
				cs.add("affine-"+ap.name, fmt.Sprintf("A %s %s %s", ap.name, vh.ZHex(y), vh.ZHex(x)))
				cs.add("affine-"+ap.name, fmt.Sprintf("A %s %s %s", ap.name, vh.ZHex(x), vh.ZHex(sub(ap.cv.p, y, ap.cv.p))))
				cs.add("affine-"+ap.name, fmt.Sprintf("A %s %s %s", ap.name, vh.ZHex(x), vh.ZHex(add(y, big.NewInt(1), ap.cv.p))))
				if ap.fromAffineX != nil {
					cs.add("affinex-"+ap.name, fmt.Sprintf("AX %s %s 0", ap.name, vh.ZHex(x)))
					cs.add("affinex-"+ap.name, fmt.Sprintf("AX %s %s 1", ap.name, vh.ZHex(x)))
				}
			}
			cs.add("affine-"+ap.name, fmt.Sprintf("A %s 0 0", ap.name))
			cs.add("affine-"+ap.name, fmt.Sprintf("A %s 0 1", ap.name))
			cs.add("affine-"+ap.name, fmt.Sprintf("A %s 1 0", ap.name))
			nx := nr / 4
			for i := 0; i < nx; i++ {
				x := r.BigBelow(ap.cv.p)
				if i < 3 {
					x = big.NewInt(int64(i))
				}
				if ap.fromAffineX != nil {
					cs.add("affinex-"+ap.name, fmt.Sprintf("AX %s %s %d", ap.name, vh.ZHex(x), i%2))
				}
				cs.add("affine-"+ap.name, fmt.Sprintf("A %s %s %s", ap.name, vh.ZHex(x), vh.ZHex(r.BigBelow(ap.cv.p))))
			}
		}
	}

	phase("affine")
	// (4) scalars and base-field elements
	for _, fl := range allFields {
		narrow, wide := fieldStrings(fl, a.Seed, nField)
		for _, b := range narrow {
			cs.add("field-frombytes-"+fl.name, "F "+fl.name+" "+vh.Hex(b))
			if v, err := fl.fromBytes(b); err == nil {
				want := mod(beInt(b), fl.q)
				if v.Cmp(want) != 0 || len(b) != fl.size {
					report(vh.Mismatch{ID: fl.name, Kind: "prop", Key: fl.name + "-frombytes-value", PropFail: true, Detail: fmt.Sprintf("FromBytes(%s) = %s, bytes mod order = %s", vh.Hex(b), vh.ZHex(v), vh.ZHex(want)), Case: "F " + fl.name + " " + vh.Hex(b), What: "C13_field_decode_reduces"})
				}
				cs.add("field-bytes-"+fl.name, "FE "+fl.name+" "+vh.ZHex(v))
				if e, err := fl.encode(v); err != nil || beInt(e).Cmp(v) != 0 || len(e) != fl.size {
					report(vh.Mismatch{ID: fl.name, Kind: "prop", Key: fl.name + "-bytes-roundtrip", PropFail: true, Detail: "Bytes/FromBytes round trip fails for " + vh.ZHex(v), Case: "FE " + fl.name + " " + vh.ZHex(v), What: "C13_field_roundtrip"})
				}
			}
		}
		for _, b := range wide {
			cs.add("field-fromwide-"+fl.name, "W "+fl.name+" "+vh.Hex(b))
			if v, err := fl.fromWide(b); err == nil {
				want := mod(beInt(b), fl.q)
				if v.Cmp(want) != 0 {
					report(vh.Mismatch{ID: fl.name, Kind: "prop", Key: fl.name + "-fromwide-value", PropFail: true, Detail: fmt.Sprintf("FromWideBytes(%s) = %s, bytes mod order = %s", vh.Hex(b), vh.ZHex(v), vh.ZHex(want)), Case: "W " + fl.name + " " + vh.Hex(b), What: "C13_field_decode_reduces"})
				}
			}
		}
	}

	phase("fields")
	// (5) GT
	checkGt(res, cs, a.Seed, nRandom/8)

	// (6) FromAffineX of the subgroup-typed pairing groups
	checkAffineXSubgroup(res, a.Seed)

	phase("gt+affinex")
	if d := os.Getenv("C13_DUMP"); d != "" {
		os.WriteFile(d, []byte(strings.Join(cs.lines, "\n")+"\n"), 0o644)
	}
	// model correspondence over all collected lines
	out, err := vh.Driver(a.Driver, cs.lines)
	phase("driver")
	if err != nil {
		fmt.Fprintln(os.Stderr, err)
		os.Exit(3)
	}
	for i, line := range cs.lines {
		impl := implEval(line)
		res.Count(cs.class[i], line, nontrivial(line))
		if impl == "UNBUILDABLE" {
			continue
		}
		if impl != out[i] {
			m := vh.Mismatch{ID: fmt.Sprintf("L%d", i), Kind: "corr", Key: corrKey(line), Detail: fmt.Sprintf("implementation: %s ; model: %s", impl, out[i]), Case: line,
				What: "correspondence model/PointCodec.v = implementation on " + strings.Join(strings.Split(line, " ")[:2], " ")}
			if pf := propOfLine(line, impl, out[i]); pf != nil {
				m.PropFail = true
				m.Detail += " ; property: " + pf.detail
				if strings.HasPrefix(pf.pcase, "P ") {
					m.Case = pf.pcase // the failing point itself, replayable
					m.Detail += " ; found on " + line
				}
			}
			report(m)
		}
	}
	phase("impl-eval")
	if os.Getenv("C13_TIMING") != "" {
		for k, v := range phaseT {
			fmt.Fprintf(os.Stderr, "%-20s %.1fs\n", k, v)
		}
	}
	sort.Strings(res.Notes)
	res.Write(a.Out)
}

func safeCanon(a *api, p any) string {
	s := "?"
	vh.Safely(func() { s = a.canon(p) })
	return s
}

func nontrivial(line string) bool {
	f := strings.Split(line, " ")
	switch f[0] {
	case "D":
		a := apiByName(f[1])
		n := len(vh.UnHex(f[3]))
		return (f[2] == "c" && n == a.csize) || (f[2] == "u" && n == a.usize)
	case "F":
		return len(vh.UnHex(f[2])) == fieldByName(f[1]).size
	}
	return true
}

func corrKey(line string) string {
	f := strings.Split(line, " ")
	switch f[0] {
	case "G":
		return "blsgt-frombytes"
	case "D":
		return f[1] + "-" + fmtName(f[2]) + "-decode"
	case "E":
		return f[1] + "-" + fmtName(f[2]) + "-encode"
	case "A":
		return f[1] + "-fromaffine"
	case "AX":
		return f[1] + "-fromaffinex"
	case "F":
		return f[1] + "-frombytes"
	case "W":
		return f[1] + "-fromwide"
	}
	return f[1] + "-bytes"
}

// propOfLine evaluates the property's predicate on the implementation for a case on which
// model and implementation disagree.
func propOfLine(line, impl, model string) *propFail {
	f := strings.Split(line, " ")
	switch f[0] {
	case "D":
		a := apiByName(f[1])
		b := vh.UnHex(f[3])
		size := a.csize
		if f[2] == "u" {
			size = a.usize
		}
		if strings.HasPrefix(impl, "PANIC") {
			return &propFail{"", "decoder panics", line}
		}
		// the points the two sides read out of the string, rebuilt through the affine constructor:
		// round trip of each, and injectivity between them
		if pf := propDecodedPoints(a, f[2], b, impl, model); pf != nil {
			return pf
		}
		if !strings.HasPrefix(impl, "OK") {
			// rejecting the encoding of a valid element breaks the round trip
			for _, p := range decodeCandidates(a, f[2], b) {
				if pf := propRoundTrip(a, f[2], p); pf != nil {
					return pf
				}
			}
			return nil
		}
		if len(b) != size {
			return &propFail{"", "wrong length accepted", line}
		}
		if bad, why := wrongFlags(a, f[2], b); bad {
			return &propFail{"", "accepted although " + why, line}
		}
		p, err := a.dec(f[2], b)
		if err != nil {
			return nil
		}
		if pf := propAccepted(a, f[2], b, p); pf != nil {
			return pf
		}
		return propRoundTrip(a, f[2], p)
	case "E":
		a := apiByName(f[1])
		p, err := a.build(f[3])
		if err != nil {
			return nil
		}
		return propRoundTrip(a, f[2], p)
	case "A", "AX":
		a := apiByName(f[1])
		if a.kind == '2' {
			if strings.HasPrefix(impl, "OK ") {
				if p, err := a.build(strings.TrimPrefix(impl, "OK ")); err == nil {
					return propAccepted(a, "u", nil, p)
				}
			}
			return nil
		}
		if !strings.HasPrefix(impl, "OK") {
			if f[0] == "A" && a.kind != 'm' {
				x, y := vh.UnZHex(f[2]), vh.UnZHex(f[3])
				if a.onCurve(x, y) && (!a.subgroup || a.inSubgroup(false, x, y)) {
					return &propFail{"", "FromAffine rejects a valid point", line}
				}
			}
			return nil
		}
		c := strings.Split(strings.TrimPrefix(impl, "OK "), ",")
		if len(c) != 2 || c[0] == "ERR" || c[1] == "ERR" {
			return nil
		}
		x, y := vh.UnZHex(c[0]), vh.UnZHex(c[1])
		if !a.onCurve(x, y) {
			return &propFail{"", "accepted point is not on the curve", line}
		}
		if f[0] == "A" && a.subgroup && !a.inSubgroup(false, x, y) {
			return &propFail{"", "accepted point is outside the prime-order subgroup", line}
		}
		if f[0] == "A" && (x.Cmp(vh.UnZHex(f[2])) != 0 || (a.kind != 'm' && y.Cmp(vh.UnZHex(f[3])) != 0)) {
			return &propFail{"", "FromAffine returns other coordinates than given", line}
		}
		return nil
	case "F", "W":
		fl := fieldByName(f[1])
		b := vh.UnHex(f[2])
		if strings.HasPrefix(impl, "OK ") {
			if vh.UnZHex(strings.TrimPrefix(impl, "OK ")).Cmp(mod(beInt(b), fl.q)) != 0 {
				return &propFail{"", "decoded value is not the bytes modulo the order", line}
			}
			if f[0] == "F" && len(b) != fl.size {
				return &propFail{"", "wrong length accepted", line}
			}
		}
		if impl == "PANIC" {
			return &propFail{"", "decoder panics", line}
		}
	case "FE":
		fl := fieldByName(f[1])
		v := vh.UnZHex(f[2])
		if e, err := fl.encode(v); err == nil {
			if w, err := fl.fromBytes(e); err != nil || w.Cmp(v) != 0 {
				return &propFail{"", "Bytes/FromBytes round trip fails", line}
			}
		}
	}
	return nil
}

// propDecodedPoints: Q = the point the model decodes from b, Q' = the point the implementation
// decodes; both are constructed in the implementation through FromAffine and the property is
// evaluated on them: decode(encode Q) = Q, encode Q != encode Q' for Q != Q', and an accepted b
// decodes to the point its bytes denote.
func propDecodedPoints(a *api, f string, b []byte, impl, model string) *propFail {
	if a.fromAffine == nil {
		return nil
	}
	mk := func(s string) (any, string) {
		if !strings.HasPrefix(s, "OK ") {
			return nil, ""
		}
		c := strings.TrimPrefix(s, "OK ")
		var p any
		var err error
		if vh.Safely(func() { p, err = a.build(c) }) != "" || err != nil {
			return nil, c
		}
		return p, c
	}
	q, qc := mk(model)
	q2, q2c := mk(impl)
	for _, pt := range []any{q, q2} {
		if pt == nil {
			continue
		}
		if pf := propRoundTrip(a, f, pt); pf != nil && !strings.HasSuffix(pf.key, "-x0") && !strings.HasSuffix(pf.key, "-order2") {
			pf.pcase = fmt.Sprintf("P roundtrip %s %s %s", a.name, f, safeCanon(a, pt))
			return pf
		}
	}
	if q != nil && q2 != nil && !a.equal(q, q2) {
		var e1, e2 []byte
		if vh.Safely(func() { e1, e2 = a.enc(f, q), a.enc(f, q2) }) == "" && bytes.Equal(e1, e2) &&
			!(a.kind == 'm' && f == "c" && a.equal(q, a.neg(q2))) {
			return &propFail{"", fmt.Sprintf("two different elements %s and %s share the encoding %s", qc, q2c, vh.Hex(e1)), fmt.Sprintf("P roundtrip %s %s %s", a.name, f, q2c)}
		}
	}
	if strings.HasPrefix(impl, "OK ") {
		if p, err := a.dec(f, b); err == nil {
			if pf := propDenotes(a, f, b, p); pf != nil {
				return pf
			}
		}
	} else if q != nil {
		// the implementation refuses a string that is the encoding of the valid point Q
		var e []byte
		if vh.Safely(func() { e = a.enc(f, q) }) == "" && bytes.Equal(e, b) {
			return &propFail{"", fmt.Sprintf("the encoding %s of the valid point %s is rejected", vh.Hex(b), qc), fmt.Sprintf("P roundtrip %s %s %s", a.name, f, qc)}
		}
	}
	return nil
}

// decodeCandidates: valid points whose encoding is b (so that a decoder which now rejects b has
// lost the round trip).
func decodeCandidates(a *api, f string, b []byte) []any {
	var out []any
	for _, p := range validPoints(a, 1, 24) {
		var e []byte
		if vh.Safely(func() { e = a.enc(f, p) }) == "" && bytes.Equal(e, b) {
			out = append(out, p)
		}
	}
	return out
}

// checkWrappers: FromBytes, UnmarshalBinary and CBOR unmarshalling admit exactly what the
// compressed-format decoder admits and produce the same element.
func checkWrappers(res *vh.Result, a *api, b []byte, p any) {
	line := fmt.Sprintf("D %s b %s", a.name, vh.Hex(b))
	q, err := a.dec("b", b)
	if err != nil || !a.equal(q, p) {
		report(vh.Mismatch{ID: line, Kind: "prop", Key: a.name + "-frombytes-differs", PropFail: true, Detail: "FromBytes differs from FromCompressed", Case: line, What: "wrappers validate like the constructor"})
	}
	if u, ok := a.fresh().(binI); ok {
		var e error
		pk := vh.Safely(func() { e = u.UnmarshalBinary(b) })
		if pk != "" || e != nil || !a.equal(u, p) {
			report(vh.Mismatch{ID: line, Kind: "prop", Key: a.name + "-unmarshalbinary-differs", PropFail: true, Detail: "UnmarshalBinary differs from FromCompressed " + pk, Case: line, What: "wrappers validate like the constructor"})
		}
	}
	if m, ok := p.(cborI); ok {
		var data []byte
		var e error
		if pk := vh.Safely(func() { data, e = m.MarshalCBOR() }); pk != "" || e != nil {
			key := a.name + "-cbor-marshal"
			if isOrder2(a, p) {
				key = a.name + "-uncompressed-order2-panic"
			}
			report(vh.Mismatch{ID: line, Kind: "prop", Key: key, PropFail: true, Detail: "MarshalCBOR of the element decoded from this string fails/panics: " + strings.TrimSpace(pk), Case: line, What: "CBOR round trip / never panics"})
			return
		}
		u := a.fresh().(cborI)
		pk := vh.Safely(func() { e = u.UnmarshalCBOR(data) })
		if pk != "" || e != nil || !a.equal(u, p) {
			key := a.name + "-cbor-roundtrip"
			if isOrder2(a, p) {
				key = a.name + "-uncompressed-order2" // the CBOR form carries the uncompressed encoding
			}
			report(vh.Mismatch{ID: line, Kind: "prop", Key: key, PropFail: true, Detail: "CBOR round trip of the element decoded from this string fails " + pk, Case: line, What: "CBOR round trip"})
		}
	}
}

// checkWrappersReject: a string the compressed decoder rejects is also rejected by FromBytes,
// UnmarshalBinary, and by UnmarshalCBOR when it is spliced into a valid CBOR encoding.
func checkWrappersReject(res *vh.Result, a *api, b []byte) {
	line := fmt.Sprintf("D %s b %s", a.name, vh.Hex(b))
	if _, err := a.dec("b", b); err == nil {
		report(vh.Mismatch{ID: line, Kind: "prop", Key: a.name + "-frombytes-differs", PropFail: true, Detail: "FromBytes accepts what FromCompressed rejects", Case: line, What: "wrappers validate like the constructor"})
	}
	if u, ok := a.fresh().(binI); ok {
		var e error
		pk := vh.Safely(func() { e = u.UnmarshalBinary(b) })
		if pk != "" || e == nil {
			report(vh.Mismatch{ID: line, Kind: "prop", Key: a.name + "-unmarshalbinary-differs", PropFail: true, Detail: "UnmarshalBinary accepts what FromCompressed rejects " + pk, Case: line, What: "wrappers validate like the constructor"})
		}
	}
	if a.kind == 'm' || len(b) != a.csize {
		return // curve25519's CBOR form carries the uncompressed encoding
	}
	g := a.gen()
	m, ok := g.(cborI)
	if !ok {
		return
	}
	data, err := m.MarshalCBOR()
	if err != nil {
		return
	}
	i := bytes.Index(data, a.enc("c", g))
	if i < 0 {
		return
	}
	spliced := append(append(append([]byte{}, data[:i]...), b...), data[i+a.csize:]...)
	u := a.fresh().(cborI)
	var e error
	pk := vh.Safely(func() { e = u.UnmarshalCBOR(spliced) })
	if pk != "" || e == nil {
		report(vh.Mismatch{ID: line, Kind: "prop", Key: a.name + "-cbor-differs", PropFail: true, Detail: "UnmarshalCBOR accepts an inner string that FromCompressed rejects " + pk, Case: line, What: "wrappers validate like the constructor"})
	}
}

// checkGt: target-group elements. Encoding round trip; an accepted string must denote an
// element of the order-r group (x^r = 1 computed with the public Mul/Square).
func checkGt(res *vh.Result, cs *caseSet, seed int64, n int) {
	gt := bls12381.NewGt()
	g1, g2 := bls12381.NewG1().Generator(), bls12381.NewG2().Generator()
	e, err := g1.Pair(g2)
	if err != nil {
		res.Note("pairing failed: %v", err)
		return
	}
	elems := []*bls12381.GtElement{gt.One(), e, e.Mul(e), e.Inv(), e.Square().Mul(e)}
	for i, x := range elems {
		b := x.Bytes()
		line := "G " + vh.Hex(b)
		res.Count("gt-roundtrip", line, true)
		cs.add("gt-frombytes", line)
		y, err := gt.FromBytes(b)
		if err != nil || !y.Equal(x) {
			report(vh.Mismatch{ID: fmt.Sprintf("gt%d", i), Kind: "prop", Key: "blsgt-roundtrip", PropFail: true, Detail: "GT element does not survive Bytes/FromBytes", Case: line, What: "C13_decode_encode_point (GT)"})
		}
		for _, l := range []int{0, 1, len(b) - 1, len(b) + 1, 2 * len(b)} {
			c := make([]byte, l)
			copy(c, b)
			if i == 1 {
				cs.add("gt-frombytes", "G "+vh.Hex(c))
			}
			var err error
			pk := vh.Safely(func() { _, err = gt.FromBytes(c) })
			if pk != "" || err == nil {
				report(vh.Mismatch{ID: fmt.Sprintf("gtlen%d", l), Kind: "prop", Key: "blsgt-length", PropFail: true, Detail: fmt.Sprintf("length %d accepted or panics %s", l, pk), Case: "G " + vh.Hex(c), What: "C13_wrong_length_rejected"})
			}
		}
	}
	member := func(x *bls12381.GtElement) bool {
		acc := gt.One()
		for i := blsR.BitLen() - 1; i >= 0; i-- {
			acc = acc.Square()
			if blsR.Bit(i) == 1 {
				acc = acc.Mul(x)
			}
		}
		return acc.IsOne()
	}
	if !member(e) {
		res.Note("harness self-check failed: e(G1,G2)^r != 1")
		return
	}
	r := vh.NewRng(seed, "C13", "gt", 0)
	size := len(e.Bytes())
	cands := [][]byte{make([]byte, size), flip(e.Bytes(), 3)}
	for i := 0; i < n; i++ {
		cands = append(cands, r.Bytes(size))
	}
	for i, b := range cands {
		line := "G " + vh.Hex(b)
		res.Count("gt-frombytes", line, true)
		if i < 8 || searchMode {
			cs.add("gt-frombytes", line) // Fp12 exponentiation in the extracted model: a few cases in the quick tier
		}
		var x *bls12381.GtElement
		var err error
		if pk := vh.Safely(func() { x, err = gt.FromBytes(b) }); pk != "" {
			report(vh.Mismatch{ID: fmt.Sprintf("gtp%d", i), Kind: "prop", Key: "blsgt-panic", PropFail: true, Detail: pk, Case: line, What: "decoders never panic"})
			continue
		}
		if err == nil && !member(x) {
			report(vh.Mismatch{ID: fmt.Sprintf("gtm%d", i), Kind: "prop", Key: "blsgt-frombytes-nonmember", PropFail: true,
				Detail: "Gt.FromBytes accepts a string that does not denote an element of the order-r target group (x^r != 1; the all-zero string is not even invertible)", Case: line, What: "C13_decoded_in_subgroup (GT)"})
		}
	}
}

// checkAffineXSubgroup: G1/G2 are prime-order types; FromAffineX must not hand out points
// outside the subgroup.
func checkAffineXSubgroup(res *vh.Result, seed int64) {
	for _, name := range []string{"blsg1"} {
		a := apiByName(name)
		r := vh.NewRng(seed, "C13", "affinex-sub-"+name, 0)
		for i := 0; i < 6; i++ {
			x := r.BigBelow(a.cv.p)
			line := fmt.Sprintf("AX %s %s %d", name, vh.ZHex(x), i%2)
			res.Count("affinex-subgroup-"+name, line, true)
			p, err := a.fromAffineX(x, i%2 == 1)
			if err != nil {
				continue
			}
			_, px, py, _, _ := a.coords(p)
			if !a.inSubgroup(false, px, py) {
				report(vh.Mismatch{ID: line, Kind: "prop", Key: name + "-fromaffinex-nonsubgroup", PropFail: true,
					Detail: fmt.Sprintf("FromAffineX returns (%s,%s) which is on the curve but outside the prime-order subgroup (FromAffine and the byte decoders check membership)", vh.ZHex(px), vh.ZHex(py)),
					Case:   line, What: "C13_decoded_in_subgroup"})
			}
		}
	}
}

func replay(a vh.Args, res *vh.Result) {
	b, err := os.ReadFile(a.Replay)
	if err != nil {
		panic(err)
	}
	for _, line := range strings.Split(string(b), "\n") {
		if !strings.HasPrefix(line, "case: ") {
			continue
		}
		c := strings.TrimPrefix(line, "case: ")
		res.Count("replay", c, true)
		f := strings.Split(c, " ")
		switch f[0] {
		case "P":
			ap := apiByName(f[2])
			var pf *propFail
			if f[1] == "roundtrip" {
				p, err := ap.build(f[4])
				if err != nil {
					res.Note("cannot rebuild %s", f[4])
					continue
				}
				pf = propRoundTrip(ap, f[3], p)
			} else {
				bs := vh.UnHex(f[4])
				if p, err := ap.dec(f[3], bs); err == nil {
					pf = propAccepted(ap, f[3], bs, p)
				}
			}
			if pf != nil {
				report(vh.Mismatch{ID: "replay", Kind: "prop", Key: pf.key, Detail: pf.detail, Case: c, PropFail: true})
			}
		default:
			out, err := vh.Driver(a.Driver, []string{c})
			if err != nil {
				res.Note("driver: %v", err)
				continue
			}
			impl := implEval(c)
			if impl != out[0] {
				m := vh.Mismatch{ID: "replay", Kind: "corr", Key: corrKey(c), Detail: fmt.Sprintf("implementation: %s ; model: %s", impl, out[0]), Case: c}
				if pf := propOfLine(c, impl, out[0]); pf != nil {
					m.PropFail = true
					m.Detail += " ; property: " + pf.detail
				}
				report(m)
			}
		}
	}
}
