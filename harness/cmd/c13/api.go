package main

// Uniform access to the public encoding/decoding API of every curve type, so that the case
// generators, the correspondence and the property predicates are written once.

import (
	"fmt"
	"math/big"

	"github.com/bronlabs/bron-crypto/pkg/base/curves/curve25519"
	"github.com/bronlabs/bron-crypto/pkg/base/curves/edwards25519"
	"github.com/bronlabs/bron-crypto/pkg/base/curves/k256"
	"github.com/bronlabs/bron-crypto/pkg/base/curves/p256"
	"github.com/bronlabs/bron-crypto/pkg/base/curves/pairable/bls12381"
	"github.com/bronlabs/bron-crypto/pkg/base/curves/pasta"

	"verif/harness/internal/vh"
)

type feI interface{ Bytes() []byte }

type pointI[P any, F any] interface {
	ToCompressed() []byte
	ToUncompressed() []byte
	Bytes() []byte
	AffineX() (F, error)
	AffineY() (F, error)
	Add(P) P
	Neg() P
	Double() P
	Equal(P) bool
	IsOpIdentity() bool
	IsTorsionFree() bool
}

type curveI[P any, F any] interface {
	FromCompressed([]byte) (P, error)
	FromUncompressed([]byte) (P, error)
	FromBytes([]byte) (P, error)
	FromAffine(x, y F) (P, error)
	OpIdentity() P
}

type fieldI[F any] interface{ FromBytes([]byte) (F, error) }

type binI interface {
	MarshalBinary() ([]byte, error)
	UnmarshalBinary([]byte) error
}
type cborI interface {
	MarshalCBOR() ([]byte, error)
	UnmarshalCBOR([]byte) error
}

// api is the type-erased view of one curve type.
type api struct {
	name     string // codec name shared with the model driver
	kind     byte   // 'w' short Weierstrass, 'e' twisted Edwards, 'm' curve25519, '2' G2 (no model)
	modelled bool
	subgroup bool // the type promises membership in the prime-order subgroup
	fsize    int  // base-field element size
	csize    int  // compressed size
	usize    int  // uncompressed size

	dec         func(f string, b []byte) (any, error) // f: "c" | "u" | "b" (FromBytes)
	enc         func(f string, P any) []byte
	coords      func(P any) (inf bool, x, y *big.Int, xerr, yerr bool)
	fromAffine  func(x, y *big.Int) (any, error)
	fromAffineX func(x *big.Int, odd bool) (any, error) // nil when the curve has none
	identity    func() any
	gen         func() any
	add         func(a, b any) any
	neg, dbl    func(a any) any
	equal       func(a, b any) bool
	isID        func(a any) bool
	torsionFree func(a any) bool
	fresh       func() any // new zero value for Unmarshal*
	cv          *curveConsts
}

// an Fp2 element c0 + c1 u travels through the type-erased API as the integer c0 * 2^384 + c1
// (the bytes c0 || c1 of BaseFieldElementG2)
func split384(v *big.Int) (*big.Int, *big.Int) {
	m := new(big.Int).Lsh(big.NewInt(1), 384)
	return new(big.Int).Rsh(v, 384), new(big.Int).Mod(v, m)
}

func join384(c0, c1 *big.Int) *big.Int {
	return new(big.Int).Or(new(big.Int).Lsh(c0, 384), c1)
}

func beInt(b []byte) *big.Int { return new(big.Int).SetBytes(b) }

func fixed(x *big.Int, n int) []byte {
	b := x.Bytes()
	if len(b) >= n {
		return b[len(b)-n:]
	}
	out := make([]byte, n)
	copy(out[n-len(b):], b)
	return out
}

func mkAPI[P pointI[P, F], F feI](name string, kind byte, c curveI[P, F], f fieldI[F], gen P, fresh func() P,
	ax func(x F, odd bool) (P, error), cv *curveConsts, subgroup bool) *api {
	a := &api{name: name, kind: kind, modelled: true, subgroup: subgroup, cv: cv}
	a.csize = len(gen.ToCompressed())
	a.usize = len(gen.ToUncompressed())
	gx, _ := gen.AffineX()
	a.fsize = len(gx.Bytes())
	a.dec = func(ft string, b []byte) (any, error) {
		var p P
		var err error
		switch ft {
		case "c":
			p, err = c.FromCompressed(b)
		case "u":
			p, err = c.FromUncompressed(b)
		default:
			p, err = c.FromBytes(b)
		}
		if err != nil {
			return nil, err
		}
		return p, nil
	}
	a.enc = func(ft string, p any) []byte {
		switch ft {
		case "c":
			return p.(P).ToCompressed()
		case "u":
			return p.(P).ToUncompressed()
		default:
			return p.(P).Bytes()
		}
	}
	a.coords = func(p any) (bool, *big.Int, *big.Int, bool, bool) {
		pp := p.(P)
		if pp.IsOpIdentity() && kind != 'e' {
			return true, nil, nil, false, false
		}
		if pp.IsOpIdentity() && kind == 'e' {
			return false, big.NewInt(0), big.NewInt(1), false, false
		}
		x, ex := pp.AffineX()
		y, ey := pp.AffineY()
		var xi, yi *big.Int
		if ex == nil {
			xi = beInt(x.Bytes())
		}
		if ey == nil {
			yi = beInt(y.Bytes())
		}
		return false, xi, yi, ex != nil, ey != nil
	}
	a.fromAffine = func(x, y *big.Int) (any, error) {
		fx, err := f.FromBytes(fixed(x, a.fsize))
		if err != nil {
			return nil, err
		}
		fy, err := f.FromBytes(fixed(y, a.fsize))
		if err != nil {
			return nil, err
		}
		p, err := c.FromAffine(fx, fy)
		if err != nil {
			return nil, err
		}
		return p, nil
	}
	if ax != nil {
		a.fromAffineX = func(x *big.Int, odd bool) (any, error) {
			fx, err := f.FromBytes(fixed(x, a.fsize))
			if err != nil {
				return nil, err
			}
			p, err := ax(fx, odd)
			if err != nil {
				return nil, err
			}
			return p, nil
		}
	}
	a.identity = func() any { return c.OpIdentity() }
	a.gen = func() any { return gen }
	a.add = func(x, y any) any { return x.(P).Add(y.(P)) }
	a.neg = func(x any) any { return x.(P).Neg() }
	a.dbl = func(x any) any { return x.(P).Double() }
	a.equal = func(x, y any) bool { return x.(P).Equal(y.(P)) }
	a.isID = func(x any) bool { return x.(P).IsOpIdentity() }
	a.torsionFree = func(x any) bool { return x.(P).IsTorsionFree() }
	a.fresh = func() any { return fresh() }
	return a
}

// canon renders a point as the model driver does.
func (a *api) canon(p any) string {
	inf, x, y, ex, ey := a.coords(p)
	if inf {
		return "inf"
	}
	if a.kind == '2' && !ex && !ey {
		x0, x1 := split384(x)
		y0, y1 := split384(y)
		return vh.ZHex(x0) + "," + vh.ZHex(x1) + "," + vh.ZHex(y0) + "," + vh.ZHex(y1)
	}
	xs, ys := "ERR", "ERR"
	if !ex {
		xs = vh.ZHex(x)
	}
	if !ey {
		ys = vh.ZHex(y)
	}
	return xs + "," + ys
}

func apis() []*api {
	var out []*api
	kc := k256.NewCurve()
	out = append(out, mkAPI[*k256.Point, *k256.BaseFieldElement]("k256", 'w', kc, k256.NewBaseField(), kc.Generator(),
		func() *k256.Point { return new(k256.Point) }, kc.FromAffineX, constsK256, true))
	pc := p256.NewCurve()
	out = append(out, mkAPI[*p256.Point, *p256.BaseFieldElement]("p256", 'w', pc, p256.NewBaseField(), pc.Generator(),
		func() *p256.Point { return new(p256.Point) }, pc.FromAffineX, constsP256, true))
	pal := pasta.NewPallasCurve()
	out = append(out, mkAPI[*pasta.PallasPoint, *pasta.PallasBaseFieldElement]("pallas", 'w', pal, pasta.NewPallasBaseField(), pal.Generator(),
		func() *pasta.PallasPoint { return new(pasta.PallasPoint) }, pal.FromAffineX, constsPallas, true))
	ves := pasta.NewVestaCurve()
	out = append(out, mkAPI[*pasta.VestaPoint, *pasta.VestaBaseFieldElement]("vesta", 'w', ves, pasta.NewVestaBaseField(), ves.Generator(),
		func() *pasta.VestaPoint { return new(pasta.VestaPoint) }, ves.FromAffineX, constsVesta, true))
	g1 := bls12381.NewG1()
	out = append(out, mkAPI[*bls12381.PointG1, *bls12381.BaseFieldElementG1]("blsg1", 'w', g1, bls12381.NewG1BaseField(), g1.Generator(),
		func() *bls12381.PointG1 { return new(bls12381.PointG1) }, g1.FromAffineX, constsBLSG1, true))
	ec := edwards25519.NewCurve()
	out = append(out, mkAPI[*edwards25519.Point, *edwards25519.BaseFieldElement]("ed25519", 'e', ec, edwards25519.NewBaseField(), ec.PrimeSubGroupGenerator(),
		func() *edwards25519.Point { return new(edwards25519.Point) }, nil, constsEd25519, false))
	ep := edwards25519.NewPrimeSubGroup()
	out = append(out, mkAPI[*edwards25519.PrimeSubGroupPoint, *edwards25519.BaseFieldElement]("ed25519p", 'e', ep, edwards25519.NewBaseField(), ep.Generator(),
		func() *edwards25519.PrimeSubGroupPoint { return new(edwards25519.PrimeSubGroupPoint) }, nil, constsEd25519, true))
	xc := curve25519.NewCurve()
	out = append(out, mkAPI[*curve25519.Point, *curve25519.BaseFieldElement]("x25519", 'm', xc, curve25519.NewBaseField(), xc.PrimeSubGroupGenerator(),
		func() *curve25519.Point { return new(curve25519.Point) }, nil, constsX25519, false))
	xp := curve25519.NewPrimeSubGroup()
	out = append(out, mkAPI[*curve25519.PrimeSubGroupPoint, *curve25519.BaseFieldElement]("x25519p", 'm', xp, curve25519.NewBaseField(), xp.Generator(),
		func() *curve25519.PrimeSubGroupPoint { return new(curve25519.PrimeSubGroupPoint) }, nil, constsX25519, true))
	g2 := bls12381.NewG2()
	a2 := mkAPI[*bls12381.PointG2, *bls12381.BaseFieldElementG2]("blsg2", '2', g2, bls12381.NewG2BaseField(), g2.Generator(),
		func() *bls12381.PointG2 { return new(bls12381.PointG2) }, nil, constsBLSG2, true)
	out = append(out, a2)
	return out
}

func apiByName(name string) *api {
	for _, a := range allAPIs {
		if a.name == name {
			return a
		}
	}
	panic("unknown codec " + name)
}

var allAPIs []*api

// ---- curve constants for the harness's own big.Int checks (independent of the library) ---------

type curveConsts struct {
	p, a, b, n *big.Int // Weierstrass a,b / Edwards a,d / Montgomery A (in a)
}

func hx(s string) *big.Int { return vh.UnZHex(s) }

var (
	constsK256 = &curveConsts{p: hx("fffffffffffffffffffffffffffffffffffffffffffffffffffffffefffffc2f"), a: big.NewInt(0), b: big.NewInt(7),
		n: hx("fffffffffffffffffffffffffffffffebaaedce6af48a03bbfd25e8cd0364141")}
	constsP256 = &curveConsts{p: hx("ffffffff00000001000000000000000000000000ffffffffffffffffffffffff"),
		a: hx("ffffffff00000001000000000000000000000000fffffffffffffffffffffffc"),
		b: hx("5ac635d8aa3a93e7b3ebbd55769886bc651d06b0cc53b0f63bce3c3e27d2604b"),
		n: hx("ffffffff00000000ffffffffffffffffbce6faada7179e84f3b9cac2fc632551")}
	pastaP       = hx("40000000000000000000000000000000224698fc094cf91b992d30ed00000001")
	pastaQ       = hx("40000000000000000000000000000000224698fc0994a8dd8c46eb2100000001")
	constsPallas = &curveConsts{p: pastaP, a: big.NewInt(0), b: big.NewInt(5), n: pastaQ}
	constsVesta  = &curveConsts{p: pastaQ, a: big.NewInt(0), b: big.NewInt(5), n: pastaP}
	blsP         = hx("1a0111ea397fe69a4b1ba7b6434bacd764774b84f38512bf6730d2a0f6b0f6241eabfffeb153ffffb9feffffffffaaab")
	blsR         = hx("73eda753299d7d483339d80809a1d80553bda402fffe5bfeffffffff00000001")
	constsBLSG1  = &curveConsts{p: blsP, a: big.NewInt(0), b: big.NewInt(4), n: blsR}
	constsBLSG2  = &curveConsts{p: blsP, a: big.NewInt(0), b: big.NewInt(4), n: blsR} // b = 4(1+u)
	p25519       = hx("7fffffffffffffffffffffffffffffffffffffffffffffffffffffffffffffed")
	l25519       = hx("1000000000000000000000000000000014def9dea2f79cd65812631a5cf5d3ed")
	constsEd25519 = &curveConsts{p: p25519, a: new(big.Int).Sub(p25519, big.NewInt(1)),
		b: hx("52036cee2b6ffe738cc740797779e89800700a4d4141d8ab75eb4dca135978a3"), n: l25519}
	constsX25519 = &curveConsts{p: p25519, a: big.NewInt(486662), b: big.NewInt(1), n: l25519}
)

func mod(x, p *big.Int) *big.Int { return new(big.Int).Mod(x, p) }
func mul(x, y, p *big.Int) *big.Int {
	return mod(new(big.Int).Mul(x, y), p)
}
func add(x, y, p *big.Int) *big.Int { return mod(new(big.Int).Add(x, y), p) }
func sub(x, y, p *big.Int) *big.Int { return mod(new(big.Int).Sub(x, y), p) }
func inv(x, p *big.Int) *big.Int    { return new(big.Int).ModInverse(x, p) }

// onCurve checks the curve equation with big.Int arithmetic.
func (a *api) onCurve(x, y *big.Int) bool {
	c := a.cv
	switch a.kind {
	case 'w':
		l := mul(y, y, c.p)
		r := add(add(mul(mul(x, x, c.p), x, c.p), mul(c.a, x, c.p), c.p), c.b, c.p)
		return l.Cmp(r) == 0
	case 'e':
		xx, yy := mul(x, x, c.p), mul(y, y, c.p)
		l := add(mul(c.a, xx, c.p), yy, c.p)
		r := add(big.NewInt(1), mul(c.b, mul(xx, yy, c.p), c.p), c.p)
		return l.Cmp(r) == 0
	case 'm':
		l := mul(y, y, c.p)
		xx := mul(x, x, c.p)
		r := add(add(mul(xx, x, c.p), mul(c.a, xx, c.p), c.p), x, c.p)
		return l.Cmp(r) == 0
	}
	return true
}

type affPt struct {
	inf  bool
	x, y *big.Int
}

// affine chord–tangent law (Weierstrass) / Edwards law / Montgomery law on big.Int, for the
// harness's own subgroup test [n]P = O.
func (a *api) addAff(P, Q affPt) affPt {
	c := a.cv
	p := c.p
	switch a.kind {
	case 'e':
		t := mul(c.b, mul(mul(P.x, Q.x, p), mul(P.y, Q.y, p), p), p)
		x3 := mul(add(mul(P.x, Q.y, p), mul(Q.x, P.y, p), p), inv(add(big.NewInt(1), t, p), p), p)
		y3 := mul(sub(mul(P.y, Q.y, p), mul(c.a, mul(P.x, Q.x, p), p), p), inv(sub(big.NewInt(1), t, p), p), p)
		return affPt{x: x3, y: y3}
	}
	if P.inf {
		return Q
	}
	if Q.inf {
		return P
	}
	var lam *big.Int
	A := big.NewInt(0) // Montgomery A u^2 term
	if a.kind == 'm' {
		A = c.a
	}
	if P.x.Cmp(Q.x) == 0 {
		if add(P.y, Q.y, p).Sign() == 0 {
			return affPt{inf: true}
		}
		num := mul(big.NewInt(3), mul(P.x, P.x, p), p)
		if a.kind == 'm' {
			num = add(add(num, mul(big.NewInt(2), mul(A, P.x, p), p), p), big.NewInt(1), p)
		} else {
			num = add(num, c.a, p)
		}
		lam = mul(num, inv(mul(big.NewInt(2), P.y, p), p), p)
	} else {
		lam = mul(sub(Q.y, P.y, p), inv(sub(Q.x, P.x, p), p), p)
	}
	x3 := sub(sub(sub(mul(lam, lam, p), A, p), P.x, p), Q.x, p)
	y3 := sub(mul(lam, sub(P.x, x3, p), p), P.y, p)
	return affPt{x: x3, y: y3}
}

func (a *api) mulAff(k *big.Int, P affPt) affPt {
	R := affPt{inf: true}
	if a.kind == 'e' {
		R = affPt{x: big.NewInt(0), y: big.NewInt(1)}
	}
	for i := k.BitLen() - 1; i >= 0; i-- {
		R = a.addAff(R, R)
		if k.Bit(i) == 1 {
			R = a.addAff(R, P)
		}
	}
	return R
}

func (a *api) inSubgroup(inf bool, x, y *big.Int) bool {
	if inf {
		return true
	}
	R := a.mulAff(a.cv.n, affPt{x: x, y: y})
	if a.kind == 'e' {
		return R.x.Sign() == 0 && R.y.Cmp(big.NewInt(1)) == 0
	}
	return R.inf
}

func (a *api) String() string { return fmt.Sprintf("%s(c=%d,u=%d)", a.name, a.csize, a.usize) }
