package main

import (
	"github.com/bronlabs/bron-crypto/pkg/base/curves/edwards25519"
	"github.com/bronlabs/bron-crypto/pkg/base/curves/k256"
	"github.com/bronlabs/bron-crypto/pkg/base/curves/p256"
	"github.com/bronlabs/bron-crypto/pkg/base/curves/pairable/bls12381"
	"github.com/bronlabs/bron-crypto/pkg/base/curves/pasta"
)

func fields() []*fieldAPI {
	return []*fieldAPI{
		mkField[*k256.BaseFieldElement]("k256.fp", constsK256.p, 32, k256.NewBaseField()),
		mkField[*k256.Scalar]("k256.fq", constsK256.n, 32, k256.NewScalarField()),
		mkField[*p256.BaseFieldElement]("p256.fp", constsP256.p, 32, p256.NewBaseField()),
		mkField[*p256.Scalar]("p256.fq", constsP256.n, 32, p256.NewScalarField()),
		mkField[*pasta.PallasBaseFieldElement]("pallas.fp", pastaP, 32, pasta.NewPallasBaseField()),
		mkField[*pasta.PallasScalar]("pallas.fq", pastaQ, 32, pasta.NewPallasScalarField()),
		mkField[*bls12381.BaseFieldElementG1]("bls.fp", blsP, 48, bls12381.NewG1BaseField()),
		mkField[*bls12381.Scalar]("bls.fq", blsR, 32, bls12381.NewScalarField()),
		mkField[*edwards25519.BaseFieldElement]("ed.fp", p25519, 32, edwards25519.NewBaseField()),
		mkField[*edwards25519.Scalar]("ed.fq", l25519, 32, edwards25519.NewScalarField()),
	}
}
