package main

import (
	"math/big"
	"testing"
)

func TestCubicHasRoot(t *testing.T) {
	p, _ := new(big.Int).SetString("fffffffffffffffffffffffffffffffffffffffffffffffffffffffefffffc2f", 16)
	f := refField{p: p}
	if !cubicHasRoot(f, f.small(-1), f.small(0)) { // x^3 - x
		t.Fatal("x^3-x must have a root")
	}
	if cubicHasRoot(f, f.small(0), f.small(7)) { // secp256k1
		t.Fatal("x^3+7 has no root mod p")
	}
	// (x-5)(x^2+5x+c) with x^2+5x+c irreducible or not: still has the root 5: x^3 + (c-25)x - 5c
	c := int64(12345)
	if !cubicHasRoot(f, f.small(c-25), f.small(-5*c)) {
		t.Fatal("root 5 not found")
	}
	f2 := refField{p: big.NewInt(7), ext: true}
	// over F_49 every cubic over F_7 without root in F_7 stays irreducible (degree 3 is odd); x^3+2
	if cubicHasRoot(f2, f2.zero(), f2.small(2)) {
		t.Fatal("x^3+2 irreducible over F_49")
	}
	if !cubicHasRoot(f2, f2.zero(), f2.small(1)) { // x^3+1 has root -1
		t.Fatal("x^3+1 has a root")
	}
}
