package main

// Case generation (all randomness from vh.NewRng(seed, "C14", stream, index)).

import (
	"fmt"
	"math/big"
	"strings"

	"verif/harness/internal/vh"
)

type pitem struct {
	text string
	sub  bool   // known to lie in the prime-order subgroup (so k*P only depends on k mod n)
	tag  string // what kind of exceptional point
}

func randFe(f refField, r *vh.Rng) fe {
	x := fe{r.BigBelow(f.p), nil}
	if f.ext {
		x.c1 = r.BigBelow(f.p)
	}
	return x
}

// randomCurvePoint finds a point of the curve (not only of the prime subgroup) from a random
// abscissa; F_p only (math/big ModSqrt).
func randomCurvePoint(c refCurve, r *vh.Rng) (rpt, bool) {
	f := c.f
	if f.ext {
		return rpt{}, false
	}
	for try := 0; try < 200; try++ {
		t := randFe(f, r)
		var sq fe
		switch c.kind {
		case 'w':
			sq = f.add(f.add(f.mul(f.mul(t, t), t), f.mul(c.a, t)), c.b)
		case 'm':
			tt := f.mul(t, t)
			sq = f.add(f.add(f.mul(tt, t), f.mul(c.a, tt)), t)
		default: // t = y ; x^2 = (1 - y^2) / (a - d y^2)
			yy := f.mul(t, t)
			den := f.sub(c.a, f.mul(c.b, yy))
			if f.isZero(den) {
				continue
			}
			sq = f.div(f.sub(f.one(), yy), den)
		}
		s := new(big.Int).ModSqrt(sq.c0, f.p)
		if s == nil {
			continue
		}
		if r.Bool() {
			s = new(big.Int).Sub(f.p, s)
			s.Mod(s, f.p)
		}
		var p rpt
		if c.kind == 'e' {
			p = rpt{x: fe{s, nil}, y: t}
		} else {
			p = rpt{x: t, y: fe{s, nil}}
		}
		if c.onCurve(p) {
			return p, true
		}
	}
	return rpt{}, false
}

func (w *world) pool(g *group, seed int64) []pitem {
	r := vh.NewRng(seed, prop, "pool:"+g.name, 0)
	c := w.refs[g.model]
	var items []pitem
	seen := map[string]bool{}
	add := func(p rpt, sub bool, tag string) {
		t := c.text(p)
		if seen[t] {
			return
		}
		// pool points are points of the curve by the reference arithmetic; if the implementation
		// refuses to build one, the cases using it report that (never silently drop it)
		seen[t] = true
		items = append(items, pitem{t, sub, tag})
	}
	G, err := c.parse(g.text(g.generator()))
	if err != nil {
		panic(err)
	}
	k1 := r.BigBelow(g.n)
	k2 := r.BigBelow(g.n)
	P := c.mul(k1, G)
	Q := c.mul(k2, G)
	add(c.id(), true, "identity")
	add(G, true, "G")
	add(c.neg(G), true, "-G")
	add(c.add(G, G), true, "2G")
	add(P, true, "P")
	add(c.neg(P), true, "-P")
	add(c.add(P, P), true, "2P")
	add(c.add(P, G), true, "P+G")
	add(Q, true, "Q")
	add(c.mul(new(big.Int).Sub(g.n, big.NewInt(1)), P), true, "(n-1)P")
	allCurveInSubgroup := g.cof.Cmp(big.NewInt(1)) == 0 && g.prime
	// points with x = 0 (short Weierstrass, F_p): y^2 = b
	if g.kind == 'w' && g.comps == 1 {
		if y := new(big.Int).ModSqrt(c.b.c0, c.f.p); y != nil {
			p0 := rpt{x: c.f.zero(), y: fe{y, nil}}
			add(p0, allCurveInSubgroup, "x=0")
			add(c.neg(p0), allCurveInSubgroup, "x=0")
			add(c.add(p0, P), allCurveInSubgroup, "x=0 + P")
		}
	}
	// points of the curve found from a random abscissa (outside the prime subgroup on curves with cofactor)
	for i := 0; i < 2; i++ {
		if g.prime && !allCurveInSubgroup {
			break // the type only holds points of the prime-order subgroup (ed25519/prime, curve25519/prime)
		}
		if rp, ok := randomCurvePoint(c, r); ok {
			add(rp, allCurveInSubgroup, "random curve point")
			if !allCurveInSubgroup {
				add(c.add(rp, G), false, "random curve point + G")
			}
		}
	}
	// F_p2 (BLS12-381 G2): points of the twist outside the prime subgroup, found with the library's own
	// F_p2 square root (only used to BUILD inputs; every pool point is validated by the reference)
	if g.kind == 'w' && g.comps == 2 {
		if fd, ok := w.fields["g2.p2"]; ok && fd.sqrt != nil {
			tryX := func(x fe, tag string) {
				rhs := c.f.add(c.f.add(c.f.mul(c.f.mul(x, x), x), c.f.mul(c.a, x)), c.b)
				v, err := fd.parse(c.f.text(rhs))
				if err != nil {
					return
				}
				y, ok := fd.sqrt(v)
				if !ok {
					return
				}
				ry, err := c.f.parse(fd.text(y))
				if err != nil {
					return
				}
				pt := rpt{x: x, y: ry}
				if c.onCurve(pt) {
					add(pt, false, tag)
					add(c.add(pt, G), false, tag+" + G")
				}
			}
			tryX(c.f.zero(), "x=0")
			for i := 0; i < 6 && len(items) < 14; i++ {
				tryX(randFe(c.f, r), "random curve point")
			}
		}
	}
	// small-order points: T = n*R has order dividing the cofactor
	if (g.kind == 'e' || g.kind == 'm') && !g.prime {
		for try := 0; try < 64; try++ {
			rp, ok := randomCurvePoint(c, r)
			if !ok {
				break
			}
			T := c.mul(g.n, rp)
			if c.eq(c.mul(big.NewInt(4), T), c.id()) {
				continue // order < 8, try again
			}
			acc := T
			for j := 1; j < 8; j++ {
				add(acc, false, fmt.Sprintf("%d*T8 (small order)", j))
				acc = c.add(acc, T)
			}
			add(c.add(G, T), false, "G+T8")
			add(c.add(P, c.add(T, T)), false, "P+2*T8")
			add(c.add(P, c.mul(big.NewInt(4), T)), false, "P+4*T8")
			break
		}
	}
	return items
}

func specialScalars(g *group, r *vh.Rng, sub bool) []*big.Int {
	one := big.NewInt(1)
	n := g.n
	ks := []*big.Int{big.NewInt(0), big.NewInt(1), big.NewInt(2), new(big.Int).Sub(n, one)}
	if sub {
		ks = append(ks, new(big.Int).Set(n), new(big.Int).Add(n, one),
			new(big.Int).Sub(new(big.Int).Lsh(one, 256), one))
	}
	ks = append(ks, big.NewInt(15), big.NewInt(16), big.NewInt(0xf0))
	return ks
}

func term(k *big.Int, p string) string { return hexZ(k) + ";" + p }

func generate(w *world, seed int64, tier string, search bool) []string {
	var lines []string
	emit := func(s string) { lines = append(lines, s) }
	thorough := tier == "thorough"
	scale := 1
	if thorough {
		scale = 8
	}
	if search {
		scale *= 4
	}
	for gi, g := range w.glist {
		pool := w.pool(g, seed)
		r := vh.NewRng(seed, prop, "ops:"+g.name, gi)
		c := w.refs[g.model]
		emit("PARAMS " + g.name)
		emit("HYP " + g.name)
		// all pairs of the exceptional pool
		for _, p := range pool {
			for _, q := range pool {
				emit("ADD " + g.name + " " + p.text + " " + q.text)
				emit("SUB " + g.name + " " + p.text + " " + q.text)
				emit("EQ " + g.name + " " + p.text + " " + q.text)
			}
			emit("DBL " + g.name + " " + p.text)
			emit("LDBL " + g.name + " " + p.text)
			emit("NEG " + g.name + " " + p.text)
			emit("ISID " + g.name + " " + p.text)
			emit("TORS " + g.name + " " + p.text)
			emit("CLRCOF " + g.name + " " + p.text)
			if p.text != "inf" {
				emit("ONC " + g.name + " " + p.text)
			}
		}
		G, _ := c.parse(g.text(g.generator()))
		// random points: x random (pool) and random-random
		var rnd []pitem
		for i := 0; i < 6*scale; i++ {
			rnd = append(rnd, pitem{c.text(c.mul(r.BigBelow(g.n), G)), true, "random"})
		}
		for i, p := range rnd {
			for _, q := range pool {
				emit("ADD " + g.name + " " + q.text + " " + p.text)
				if i%2 == 0 {
					emit("SUB " + g.name + " " + p.text + " " + q.text)
				}
			}
			q := rnd[(i+1)%len(rnd)]
			emit("ADD " + g.name + " " + p.text + " " + q.text)
			emit("EQ " + g.name + " " + p.text + " " + q.text)
			emit("LDBL " + g.name + " " + p.text)
			emit("DBL " + g.name + " " + p.text)
		}
		// SetAffine on perturbed coordinates
		for _, p := range append(append([]pitem{}, pool...), rnd[:2]...) {
			if p.text == "inf" {
				continue
			}
			rp, _ := c.parse(p.text)
			one := c.f.one()
			emit("ONC " + g.name + " " + c.text(rpt{x: rp.x, y: c.f.add(rp.y, one)}))
			emit("ONC " + g.name + " " + c.text(rpt{x: c.f.add(rp.x, one), y: rp.y}))
			emit("ONC " + g.name + " " + c.text(rpt{x: rp.y, y: rp.x}))
		}
		for i := 0; i < 4*scale; i++ {
			emit("ONC " + g.name + " " + c.text(rpt{x: randFe(c.f, r), y: randFe(c.f, r)}))
		}
		emit("ONC " + g.name + " " + c.text(rpt{x: c.f.zero(), y: c.f.zero()}))
		// scalar multiplication
		mulPts := []pitem{}
		for _, p := range pool {
			switch p.tag {
			case "identity", "G", "P", "-P", "x=0", "random curve point", "1*T8 (small order)", "4*T8 (small order)", "G+T8":
				mulPts = append(mulPts, p)
			}
		}
		for pi, p := range mulPts {
			for _, k := range specialScalars(g, r, p.sub) {
				emit("MUL " + g.name + " " + hexZ(k) + " " + p.text)
			}
			for i := 0; i < 2*scale; i++ {
				emit("MUL " + g.name + " " + hexZ(r.BigBelow(g.n)) + " " + p.text)
			}
			if p.sub && pi < 3 {
				emit("MUL " + g.name + " " + hexZ(r.BigBits(8*g.wide())) + " " + p.text)
			}
		}
		if g.baseMul != nil {
			for _, k := range specialScalars(g, r, true) {
				emit("BASEMUL " + g.name + " " + hexZ(k))
			}
			for i := 0; i < 3*scale; i++ {
				emit("BASEMUL " + g.name + " " + hexZ(r.BigBelow(g.n)))
			}
		}
		// ScalarMulLowLevel on arbitrary byte strings (every nibble value, lengths 0..40)
		lowPts := []pitem{pool[1], pool[4]}
		for _, p := range pool {
			if p.tag == "G+T8" || p.tag == "random curve point" {
				lowPts = append(lowPts, p)
				break
			}
		}
		for _, p := range lowPts {
			fixed := []string{"-", "00", "01", "0f", "10", "f0", "ff", "0123456789abcdef", "efcdab8967452301",
				strings.Repeat("ff", 32), strings.Repeat("00", 31) + "80", strings.Repeat("00", 33), strings.Repeat("ff", 33)}
			for _, b := range fixed {
				if !p.sub && len(b) > 62 {
					continue // k >= n on a point outside the subgroup is still k*P: keep it, the model multiplies by the integer
				}
				emit("LMUL " + g.name + " " + b + " " + p.text)
			}
			for i := 0; i < 3*scale; i++ {
				emit("LMUL " + g.name + " " + vh.Hex(r.Bytes(r.Intn(41))) + " " + p.text)
			}
		}
		// multi-scalar multiplication
		if g.msm != nil {
			maxLen := 40
			lens := []int{}
			for n := 0; n <= maxLen; n++ {
				lens = append(lens, n)
			}
			if g.comps == 2 && !thorough && !search {
				lens = []int{0, 1, 2, 3, 7, 8, 9, 15, 16, 17, 31, 32, 33, 40, 8 + r.Intn(32)}
			}
			if thorough {
				lens = append(lens, 63, 64, 65, 127, 128, 129, 200, 255, 256, 300)
			}
			if g.name == "ed25519/prime" && !thorough && !search {
				lens = []int{0, 1, 2, 7, 8, 9, 16, 17, 33, 40}
			}
			// the bucket-algorithm model is evaluated for these lengths only in the quick tier (it costs
			// ~0.3 s per case); every length is compared with the naive sum and the math/big reference
			both := map[int]bool{}
			for _, n := range []int{0, 1, 2, 3, 5, 7, 8, 9, 10, 11, 15, 16, 17, 31, 32, 33, 40} {
				both[n] = true
			}
			for _, n := range lens {
				op := "MSMN "
				if both[n] || thorough || search || n == lens[len(lens)-1] {
					op = "MSM "
				}
				emit(strings.TrimSpace(op + g.name + " " + strings.Join(w.msmTerms(g, pool, rnd, r, n, op == "MSMN "), " ")))
			}
			// window-boundary cases: all scalars zero, all identity, one non-zero term only, the last term only
			for _, n := range []int{8, 16} {
				ts := make([]string, n)
				for i := range ts {
					ts[i] = term(big.NewInt(0), pool[4].text)
				}
				emit("MSM " + g.name + " " + strings.Join(ts, " "))
				ts[n-1] = term(r.BigBelow(g.n), pool[4].text)
				emit("MSM " + g.name + " " + strings.Join(ts, " "))
				for i := range ts {
					ts[i] = term(r.BigBelow(g.n), pool[0].text)
				}
				emit("MSM " + g.name + " " + strings.Join(ts, " "))
			}
		}
		// window-width boundaries of the bucket path: w = bits.Len(n) changes at n = 2^k; a slip in the window
		// extraction (e.g. a byte-typed shift) only shows once w > 8, i.e. for n >= 256
		if g.msm != nil && g.msmRaw != nil && (g.name == "k256" || g.name == "ed25519/full" || thorough || search) {
			w.boundaryMSM(g, pool, rnd, r, emit, g.name != "ed25519/full")
		}
		if g.msmRaw != nil {
			for _, n := range []int{0, 1, 3, 7, 8, 9, 16, 33} {
				for rep := 0; rep < 1+scale/4; rep++ {
					ts := make([]string, n)
					allEmpty := rep == 0 && n == 9
					for i := range ts {
						b := r.Bytes(r.Intn(34))
						if allEmpty || r.Chance(1, 6) {
							b = nil
						}
						p := vh.Pick(r, pool)
						if len(b) >= g.scalarBytes() && !p.sub {
							b = b[:g.scalarBytes()-1]
						}
						ts[i] = vh.Hex(b) + ";" + p.text
					}
					emit(strings.TrimSpace("LMSM " + g.name + " " + strings.Join(ts, " ")))
				}
			}
		}
		// pkg/base/utils/algebrautils: generic ScalarMul / MultiScalarMul (big-endian natural numbers)
		if g.name == "k256" || g.name == "ed25519/full" || g.name == "p256" {
			for _, k := range []*big.Int{big.NewInt(0), big.NewInt(1), big.NewInt(0xf0), new(big.Int).Sub(g.n, big.NewInt(1)), g.n,
				new(big.Int).Lsh(big.NewInt(1), 256), r.BigBelow(g.n), r.BigBits(300)} {
				p := pool[4]
				emit("AUMUL " + g.name + " " + hexZ(k) + " " + p.text)
			}
			for _, n := range []int{0, 1, 5, 8, 9, 17, 33} {
				ts := make([]string, n)
				for i := range ts {
					p := vh.Pick(r, pool)
					for !p.sub {
						p = vh.Pick(r, pool)
					}
					k := r.BigBits(8 * r.Intn(34))
					if r.Chance(1, 5) {
						k = big.NewInt(0)
					}
					ts[i] = term(k, p.text)
				}
				emit(strings.TrimSpace("AUMSM " + g.name + " " + strings.Join(ts, " ")))
			}
		}
		if g.name == "ed25519/full" {
			for _, p := range pool {
				emit("EDMONT " + p.text)
			}
			for _, p := range rnd[:3] {
				emit("EDMONT " + p.text)
			}
		}
	}
	// fields
	for fi, fd := range w.flist {
		r := vh.NewRng(seed, prop, "field:"+fd.name, fi)
		rf := refField{p: fd.mod, ext: fd.comps == 2}
		p := fd.mod
		one := big.NewInt(1)
		var spec []fe
		for _, v := range []*big.Int{big.NewInt(0), one, big.NewInt(2), new(big.Int).Sub(p, one), new(big.Int).Sub(p, big.NewInt(2)),
			new(big.Int).Rsh(p, 1), new(big.Int).Add(new(big.Int).Rsh(p, 1), one), new(big.Int).Lsh(one, uint(p.BitLen()-1))} {
			x := fe{new(big.Int).Mod(v, p), nil}
			if rf.ext {
				x.c1 = new(big.Int)
				spec = append(spec, x, fe{new(big.Int), new(big.Int).Set(x.c0)}, fe{new(big.Int).Set(x.c0), new(big.Int).Sub(p, one)})
			} else {
				spec = append(spec, x)
			}
		}
		var rnd []fe
		for i := 0; i < 8*scale; i++ {
			rnd = append(rnd, randFe(rf, r))
		}
		all := append(append([]fe{}, spec...), rnd...)
		for i, x := range all {
			for j, y := range all {
				if i >= len(spec) && j >= len(spec) && j != (i+1)%len(all) {
					continue
				}
				for _, op := range []string{"add", "sub", "mul"} {
					emit("F " + fd.name + " " + op + " " + rf.text(x) + " " + rf.text(y))
				}
			}
			for _, op := range []string{"neg", "sqr", "inv"} {
				emit("F " + fd.name + " " + op + " " + rf.text(x))
			}
			if fd.sqrt != nil {
				emit("F " + fd.name + " sqrt " + rf.text(x))
				emit("F " + fd.name + " sqrt " + rf.text(rf.mul(x, x)))
			}
		}
		if fd.wideSize > 0 {
			ws := fd.wideSize
			var blobs [][]byte
			for _, n := range []int{0, 1, fd.size - 1, fd.size, fd.size + 1, ws - 1, ws, ws + 1} {
				if n < 0 {
					continue
				}
				blobs = append(blobs, make([]byte, n), bytesOf(0xff, n), r.Bytes(n))
			}
			for _, v := range []*big.Int{p, new(big.Int).Sub(p, one), new(big.Int).Add(p, one), new(big.Int).Lsh(p, 1), new(big.Int).Mul(p, p)} {
				blobs = append(blobs, v.Bytes(), beComp(v, ws))
			}
			for i := 0; i < 6*scale; i++ {
				blobs = append(blobs, r.Bytes(ws))
			}
			for _, b := range blobs {
				if b == nil {
					continue
				}
				emit("F " + fd.name + " wide " + vh.Hex(b))
			}
		}
	}
	// pairing (implementation only)
	{
		r := vh.NewRng(seed, prop, "pairing", 0)
		g1, g2 := w.groups["g1"], w.groups["g2"]
		c1 := w.refs["g1"]
		G1 := g1.text(g1.generator())
		G2 := g2.text(g2.generator())
		rG1, _ := c1.parse(G1)
		P := c1.text(c1.mul(r.BigBelow(g1.n), rG1))
		Q := g2.text(g2.smulBig(g2.generator(), r.BigBelow(g2.n)))
		n1 := new(big.Int).Sub(g1.n, big.NewInt(1))
		type ab struct{ a, b *big.Int }
		cases := []ab{{big.NewInt(1), big.NewInt(1)}, {big.NewInt(2), big.NewInt(3)}, {big.NewInt(0), big.NewInt(5)}, {n1, big.NewInt(1)}, {n1, n1},
			{r.BigBelow(g1.n), r.BigBelow(g1.n)}}
		for i := 0; i < 2*(scale-1); i++ {
			cases = append(cases, ab{r.BigBelow(g1.n), r.BigBelow(g1.n)})
		}
		for i, cse := range cases {
			p, q := G1, G2
			if i%2 == 1 {
				p, q = P, Q
			}
			emit("PAIR " + hexZ(cse.a) + " " + hexZ(cse.b) + " " + p + " " + q)
		}
		emit("PAIRND " + G1 + " " + G2)
		emit("PAIRND " + P + " " + Q)
		emit("PAIRND inf " + G2)
		emit("PAIRND " + G1 + " inf")
	}
	return lines
}

func bytesOf(v byte, n int) []byte {
	b := make([]byte, n)
	for i := range b {
		b[i] = v
	}
	return b
}

func (g *group) wide() int {
	// number of bytes FromWideBytes accepts: probe once
	for _, n := range []int{96, 64, 48, 32} {
		k := new(big.Int).Lsh(big.NewInt(1), uint(8*n-1))
		if _, _, _, err := g.scalar(k); err == nil {
			return n
		}
	}
	return 32
}

func (g *group) scalarBytes() int { return (g.n.BitLen() + 7) / 8 }

func (g *group) smulBig(p any, k *big.Int) any {
	s, _, _, err := g.scalar(k)
	if err != nil {
		panic(err)
	}
	return g.smul(p, s)
}

// msmTerms builds n terms: zero scalars, small scalars, n-1, n, random; identity, repeated and opposite points.
func (w *world) msmTerms(g *group, pool, rnd []pitem, r *vh.Rng, n int, light bool) []string {
	ts := make([]string, 0, n)
	var prev pitem
	for i := 0; i < n; i++ {
		var p pitem
		switch {
		case i > 0 && r.Chance(1, 6):
			p = prev // repeated point (same bucket when the scalars coincide)
		case r.Chance(1, 2):
			p = vh.Pick(r, pool)
		default:
			p = vh.Pick(r, rnd)
		}
		var k *big.Int
		switch x := r.Intn(12); {
		case x < 3:
			k = big.NewInt(0)
		case x < 5:
			k = big.NewInt(int64(r.Intn(17)))
		case x == 5:
			k = new(big.Int).Sub(g.n, big.NewInt(1))
		case x == 6 && p.sub:
			k = new(big.Int).Set(g.n)
		case x == 7 && i > 0:
			// same scalar as the previous term (with a repeated or opposite point: doubling / cancellation in a bucket)
			pf := strings.Split(ts[i-1], ";")
			k, _ = parseHex(pf[0])
			if !p.sub && k.Cmp(g.n) >= 0 {
				k = r.BigBelow(g.n)
			}
		case light && x < 11:
			// naive-model-only lengths: mostly 64-bit scalars (the naive affine model costs ~40 us per bit)
			k = r.BigBits(64)
		default:
			k = r.BigBelow(g.n)
		}
		ts = append(ts, term(k, p.text))
		prev = p
	}
	return ts
}

func goWindowBits(n int) int {
	w := 0
	for x := n; x > 0; x >>= 1 {
		w++
	}
	if w < 2 {
		w = 2
	}
	if w > 16 {
		w = 16
	}
	return w
}

func le2(v int) string { return vh.Hex([]byte{byte(v), byte(v >> 8)}) }

// boundaryMSM emits multi-scalar cases of the lengths 2^k-1, 2^k, 2^k+1 (k = 3..10) with small structured
// scalars so that the references stay cheap: a single power of two in an otherwise zero vector, 16-bit random
// values, ones, zeros and a few full-width scalars.  Above 48 terms the Coq side evaluates the bucket-algorithm
// model only (MSMC); the naive sum comes from the math/big reference, and from the Coq naive model up to 257 terms.
func (w *world) boundaryMSM(g *group, pool, rnd []pitem, r *vh.Rng, emit func(string), full bool) {
	G := pool[1].text
	var subs []pitem
	for _, p := range append(append([]pitem{}, pool...), rnd...) {
		if p.sub {
			subs = append(subs, p)
		}
	}
	pick := func() string { return vh.Pick(r, subs).text }
	for k := 3; k <= 10; k++ {
		for _, n := range []int{1<<k - 1, 1 << k, 1<<k + 1} {
			wb := goWindowBits(n)
			suffix := "C"
			if n <= 48 {
				suffix = ""
			}
			// (a) one power of two hitting the top bit of the first window, all points G
			//     (n = 256: the scalars (256, 0, ..., 0))
			wit := make([]string, n)
			witK := make([]string, n)
			pos := r.Intn(n)
			if k%2 == 0 {
				pos = 0
			}
			for i := range wit {
				wit[i] = "0000;" + G
				witK[i] = "0;" + G
			}
			wit[pos] = le2(1<<(wb-1)) + ";" + G
			witK[pos] = hexZ(big.NewInt(int64(1)<<(wb-1))) + ";" + G
			// (b) 16-bit random scalars, ones, zeros; random subgroup points
			rndB := make([]string, n)
			rndK := make([]string, n)
			for i := range rndB {
				v := int(r.Uint64() & 0xffff)
				switch r.Intn(8) {
				case 0:
					v = 0
				case 1:
					v = 1
				case 2:
					v = 1 << uint(r.Intn(16))
				}
				p := pick()
				rndB[i] = le2(v) + ";" + p
				rndK[i] = hexZ(big.NewInt(int64(v))) + ";" + p
			}
			// a few full-width scalars for the Curve.MultiScalarMul cases
			mixK := append([]string{}, rndK...)
			for j := 0; j < 3 && j < n; j++ {
				i := r.Intn(n)
				mixK[i] = hexZ(r.BigBelow(g.n)) + ";" + strings.SplitN(mixK[i], ";", 2)[1]
			}
			if full {
				emit("LMSM" + suffix + " " + g.name + " " + strings.Join(wit, " "))
			}
			emit("LMSM" + suffix + " " + g.name + " " + strings.Join(rndB, " "))
			emit("MSMR " + g.name + " " + strings.Join(witK, " "))
			if n <= 257 {
				emit("MSMN " + g.name + " " + strings.Join(mixK, " "))
			} else {
				emit("MSMR " + g.name + " " + strings.Join(mixK, " "))
			}
			if full {
				emit("AUMSM" + suffix + " " + g.name + " " + strings.Join(rndK, " "))
			} else {
				emit("AUMSM" + suffix + " " + g.name + " " + strings.Join(witK, " "))
			}
		}
	}
}
