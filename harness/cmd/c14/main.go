// c14 — correspondence harness for property C14 (curve, field and pairing arithmetic equal
// the mathematical operations).  See /verif/DESIGN.md §5 C14.
//
// A case is one line of canonical text "OP group args..." (points as affine hex "x,y" or
// "inf", integers lower-case hex).  The implementation is driven through its public API
// (plus the exported low-level entry points aimpl.ScalarMulLowLevel / MultiScalarMulLowLevel
// and Point.V for points outside the prime-order subgroup), the same case is evaluated by
// the extracted Coq model (ocaml/c14/driver), and the projected observables are compared.
// When they differ the property's own predicate ("the result is the mathematical group /
// field operation") is evaluated on the implementation with an independent math/big
// reference (ref.go).
package main

import (
	"crypto/elliptic"
	"fmt"
	"math/big"
	"os"
	"runtime"
	"slices"
	"strings"
	"sync"
	"time"

	"github.com/bronlabs/bron-crypto/pkg/base/curves/curve25519"
	"github.com/bronlabs/bron-crypto/pkg/base/curves/edwards25519"
	"github.com/bronlabs/bron-crypto/pkg/base/curves/pairable/bls12381"

	"verif/harness/internal/vh"
)

const prop = "C14"

// ---- probes that must run before anything else touches the library's lazy singletons ------

func earlyProbes(res *vh.Result) {
	var ord *big.Int
	p := vh.Safely(func() { ord = bls12381.NewG1().Order().Big() })
	p2 := vh.Safely(func() { _ = bls12381.NewG2().Order().Big() })
	res.Count("probe:order-uninit", "bls12381.NewG1().Order() / NewG2().Order() as the first library call of the process", true)
	if p != "" || p2 != "" || ord == nil || ord.Sign() == 0 {
		res.Mismatch(vh.Mismatch{ID: "probe-order-uninit", Kind: "prop", Key: "bls12381-order-uninit",
			Detail:   "bls12381.NewG1().Order() / NewG2().Order() called before NewScalarField(): panic " + p + " " + p2,
			Case:     "PROBE order-uninit",
			PropFail: true, What: "Curve.Order() reports the group order (PARAMS correspondence)"})
	}
}

// ---- worlds ------------------------------------------------------------------------------------

type world struct {
	groups map[string]*group
	glist  []*group
	fields map[string]*field
	flist  []*field
	refs   map[string]refCurve // by model id
}

func newWorld() *world {
	w := &world{groups: map[string]*group{}, fields: map[string]*field{}, refs: map[string]refCurve{}}
	for _, g := range allGroups() {
		w.groups[g.name] = g
		w.glist = append(w.glist, g)
	}
	for _, f := range allFields() {
		w.fields[f.name] = f
		w.flist = append(w.flist, f)
	}
	for _, g := range w.glist {
		if _, ok := w.refs[g.model]; !ok {
			w.refs[g.model] = stdRef(g)
		}
	}
	return w
}

// stdRef: the reference curve with the textbook constants (SEC 2, FIPS 186 via crypto/elliptic,
// the pasta / BLS12-381 / RFC 7748 / RFC 8032 definitions), written here independently of both the
// Coq model's CurveParams.v and the implementation; the field order is the one the API reports.
func stdRef(g *group) refCurve {
	f := refField{p: g.p, ext: g.comps == 2}
	c := refCurve{kind: g.kind, f: f}
	switch g.model {
	case "k256":
		c.a, c.b = f.small(0), f.small(7)
	case "p256":
		c.a, c.b = f.small(-3), fe{new(big.Int).Set(elliptic.P256().Params().B), nil}
	case "pallas", "vesta":
		c.a, c.b = f.small(0), f.small(5)
	case "g1":
		c.a, c.b = f.small(0), f.small(4)
	case "g2":
		c.a, c.b = f.zero(), fe{big.NewInt(4), big.NewInt(4)}
	case "ed25519":
		c.a = f.small(-1)
		c.b = f.div(f.small(-121665), f.small(121666))
	case "curve25519":
		c.a, c.b = f.small(486662), f.zero()
	default:
		panic("no reference constants for " + g.model)
	}
	return c
}

// deriveRef recovers the curve constants from what the API reports: the field order and the
// affine coordinates of G and 2G (two equations, two unknowns).
func deriveRef(g *group) refCurve {
	f := refField{p: g.p, ext: g.comps == 2}
	c := refCurve{kind: g.kind, f: f}
	G := g.generator()
	p1, err1 := c.parse(g.text(G))
	p2, err2 := c.parse(g.text(g.add(G, G)))
	if err1 != nil || err2 != nil {
		panic("deriveRef: generator has no affine coordinates: " + g.name)
	}
	switch g.kind {
	case 'w':
		// y^2 - x^3 = a x + b
		r1 := f.sub(f.mul(p1.y, p1.y), f.mul(f.mul(p1.x, p1.x), p1.x))
		r2 := f.sub(f.mul(p2.y, p2.y), f.mul(f.mul(p2.x, p2.x), p2.x))
		c.a = f.div(f.sub(r1, r2), f.sub(p1.x, p2.x))
		c.b = f.sub(r1, f.mul(c.a, p1.x))
	case 'e':
		// a x^2 - d x^2 y^2 = 1 - y^2
		x1, y1 := f.mul(p1.x, p1.x), f.mul(p1.y, p1.y)
		x2, y2 := f.mul(p2.x, p2.x), f.mul(p2.y, p2.y)
		m1, m2 := f.mul(x1, y1), f.mul(x2, y2)
		r1, r2 := f.sub(f.one(), y1), f.sub(f.one(), y2)
		// a x1 - d m1 = r1 ; a x2 - d m2 = r2
		det := f.sub(f.mul(x2, m1), f.mul(x1, m2))
		c.a = f.div(f.sub(f.mul(r2, m1), f.mul(r1, m2)), det)
		c.b = f.div(f.sub(f.mul(c.a, x1), r1), m1)
	default:
		// v^2 = u^3 + A u^2 + u
		uu := f.mul(p1.x, p1.x)
		c.a = f.div(f.sub(f.sub(f.mul(p1.y, p1.y), f.mul(uu, p1.x)), p1.x), uu)
		c.b = f.zero()
	}
	return c
}

func (w *world) paramsText(g *group) (out string) {
	defer func() {
		if r := recover(); r != nil {
			out = fmt.Sprintf("underivable(%v)", r)
		}
	}()
	c := deriveRef(g)
	f := c.f
	G, _ := c.parse(g.text(g.generator()))
	parts := []string{hexZ(g.fieldOrd()), f.text(c.a)}
	if g.kind != 'm' {
		parts = append(parts, f.text(c.b))
	}
	parts = append(parts, f.text(G.x), f.text(G.y), hexZ(g.order()), hexZ(g.cofactor()))
	return strings.Join(parts, " ")
}

// ---- evaluation of one case on the implementation ------------------------------------------------

type evalOut struct {
	impl  string   // observable of the implementation
	model []string // lines for the model driver (usually one)
	ref   string   // what the math/big reference says the observable should be ("" = no reference)
	class string
	triv  bool
	skip  string // non-empty: the case could not be built (bad replay text)
}

func le(b []byte) *big.Int {
	r := slices.Clone(b)
	slices.Reverse(r)
	return new(big.Int).SetBytes(r)
}

func (w *world) eval(line string) (out evalOut) {
	f := strings.Split(line, " ")
	out.class = f[0]
	defer func() {
		if r := recover(); r != nil {
			out.impl = fmt.Sprintf("PANIC(%v)", r)
		}
	}()
	if len(f) < 2 {
		out.skip = "short"
		return out
	}
	if f[0] == "F" {
		return w.evalField(line, f)
	}
	if f[0] == "PAIR" || f[0] == "PAIRND" || f[0] == "EDMONT" {
		return w.evalSpecial(line, f)
	}
	g, ok := w.groups[f[1]]
	if !ok {
		out.skip = "unknown group " + f[1]
		return out
	}
	out.class = f[0] + ":" + g.name
	c := w.refs[g.model]
	pt := func(s string) (any, rpt) {
		p, err := g.fromText(s)
		if err != nil {
			panic("case: " + err.Error())
		}
		rp, err := c.parse(s)
		if err != nil {
			panic("case: " + err.Error())
		}
		return p, rp
	}
	args := f[2:]
	need := func(n int) bool {
		if len(args) != n {
			out.skip = "arity"
			return false
		}
		return true
	}
	m := g.model
	switch f[0] {
	case "PARAMS":
		out.impl = w.paramsText(g)
		out.model = []string{"PARAMS " + m}
	case "HYP":
		// the named hypotheses of the Coq theorems, decided for this curve's constants (which the PARAMS
		// case ties to the model's CurveParams.v and to what the API reports)
		out.impl = hypothesisCheck(c)
		out.ref = "ok"
	case "ADD", "SUB":
		if !need(2) {
			return out
		}
		p, rp := pt(args[0])
		q, rq := pt(args[1])
		if f[0] == "ADD" {
			out.impl = g.text(g.add(p, q))
			out.ref = c.text(c.add(rp, rq))
		} else {
			out.impl = g.text(g.sub(p, q))
			out.ref = c.text(c.add(rp, c.neg(rq)))
		}
		out.model = []string{f[0] + " " + m + " " + args[0] + " " + args[1]}
	case "DBL", "LDBL", "NEG":
		if !need(1) {
			return out
		}
		p, rp := pt(args[0])
		switch f[0] {
		case "DBL":
			out.impl = g.text(g.dbl(p))
			out.ref = c.text(c.add(rp, rp))
			out.model = []string{"DBL " + m + " " + args[0]}
		case "LDBL":
			out.impl = g.text(g.lowDbl(p))
			out.ref = c.text(c.add(rp, rp))
			out.model = []string{"DBL " + m + " " + args[0]}
		default:
			out.impl = g.text(g.neg(p))
			out.ref = c.text(c.neg(rp))
			out.model = []string{"NEG " + m + " " + args[0]}
		}
	case "EQ":
		if !need(2) {
			return out
		}
		p, rp := pt(args[0])
		q, rq := pt(args[1])
		out.impl = b2s(g.eq(p, q))
		out.ref = b2s(c.eq(rp, rq))
		out.model = []string{"EQ " + m + " " + args[0] + " " + args[1]}
	case "ISID":
		if !need(1) {
			return out
		}
		p, rp := pt(args[0])
		a, b := g.isID(p)
		out.impl = b2s(a)
		if a != b {
			out.impl = "IsOpIdentity=" + b2s(a) + ",IsZero=" + b2s(b)
		}
		out.ref = b2s(c.eq(rp, c.id()))
		out.model = []string{"ISID " + m + " " + args[0]}
	case "TORS":
		// IsTorsionFree = (n * P is the identity)
		if !need(1) {
			return out
		}
		p, rp := pt(args[0])
		out.impl = b2s(g.torsFree(p))
		out.ref = b2s(c.eq(c.mul(g.n, rp), c.id()))
		out.model = []string{"ORDN " + m + " " + args[0]}
	case "CLRCOF":
		// ClearCofactor lands in the prime-order subgroup, is the identity map on curves with cofactor 1
		// as the library reports it, and is multiplication by 8 on edwards25519 / curve25519
		if !need(1) {
			return out
		}
		p, rp := pt(args[0])
		r := g.clearCof(p)
		rr, err := c.parse(g.text(r))
		switch {
		case err != nil:
			out.impl = "unparsable:" + g.text(r)
		case !c.onCurve(rr):
			out.impl = "not-on-curve"
		case !c.eq(c.mul(g.n, rr), c.id()):
			out.impl = "not-in-prime-subgroup"
		case (g.kind == 'e' || g.kind == 'm') && !c.eq(rr, c.mul(big.NewInt(8), rp)):
			out.impl = "not-8P:" + g.text(r)
		case c.eq(c.mul(g.n, rp), c.id()) && g.kind == 'w' && g.cof.Cmp(big.NewInt(1)) == 0 && g.prime && !c.eq(rr, rp):
			out.impl = "moved-a-subgroup-point-on-a-cofactor-1-curve"
		default:
			out.impl = "subgroup"
		}
		out.ref = "subgroup"
	case "ONC":
		if !need(1) {
			return out
		}
		xs, ys, err := splitPoint(args[0])
		if err != nil {
			out.skip = err.Error()
			return out
		}
		raw, err := g.rawAffine(xs, ys)
		if err != nil {
			out.skip = err.Error()
			return out
		}
		api, _ := g.apiAffine(xs, ys)
		rp, _ := c.parse(args[0])
		on := c.onCurve(rp)
		out.impl = b2s(raw)
		if api && !raw {
			out.impl = "api-accepts-raw-rejects"
		}
		out.ref = b2s(on)
		out.triv = !on
		out.model = []string{"ONC " + m + " " + args[0]}
		if g.kind == 'm' && xs == "0" {
			// (0,0) is on the Montgomery curve but FromAffine goes through the u-coordinate
			// decompression, where u = 0 is the reserved identity encoding (C13): one-sided
			out.model = nil
			out.ref = out.impl
			if raw && !on {
				out.ref = "0"
			}
		}
	case "MUL", "BASEMUL":
		var ptxt string
		if f[0] == "MUL" {
			if !need(2) {
				return out
			}
			ptxt = args[1]
		} else {
			if !need(1) {
				return out
			}
			ptxt = g.text(g.generator())
		}
		k, err := parseHex(args[0])
		if err != nil {
			out.skip = err.Error()
			return out
		}
		p, rp := pt(ptxt)
		s, _, leb, err := g.scalar(k)
		if err != nil {
			out.skip = err.Error()
			return out
		}
		if f[0] == "MUL" {
			out.impl = g.text(g.smul(p, s))
		} else {
			if g.baseMul == nil {
				out.skip = "no ScalarBaseMul"
				return out
			}
			out.impl = g.text(g.baseMul(s))
		}
		out.ref = c.text(c.mul(k, rp))
		out.model = []string{"MUL " + m + " " + args[0] + " " + vh.Hex(leb) + " " + ptxt}
	case "LMUL":
		if !need(2) {
			return out
		}
		b := vh.UnHex(args[0])
		p, rp := pt(args[1])
		k := le(b)
		out.impl = g.text(g.lowMul(p, b))
		out.ref = c.text(c.mul(k, rp))
		out.model = []string{"MUL " + m + " " + hexZ(k) + " " + vh.Hex(b) + " " + args[1]}
	case "AUMUL":
		// algebrautils.ScalarMul: the same window algorithm on the big-endian bytes of a natural number
		if !need(2) {
			return out
		}
		k, err := parseHex(args[0])
		if err != nil {
			out.skip = err.Error()
			return out
		}
		p, rp := pt(args[1])
		r, be := g.auMul(p, k)
		out.impl = g.text(r)
		out.ref = c.text(c.mul(k, rp))
		leb := slices.Clone(be)
		slices.Reverse(leb)
		out.model = []string{"MUL " + m + " " + args[0] + " " + vh.Hex(leb) + " " + args[1]}
	case "AUMSM", "AUMSMC":
		var ks []*big.Int
		var ps []any
		acc := c.id()
		for _, t := range args {
			tf := strings.Split(t, ";")
			if len(tf) != 2 {
				out.skip = "bad term"
				return out
			}
			p, rp := pt(tf[1])
			k, err := parseHex(tf[0])
			if err != nil {
				out.skip = err.Error()
				return out
			}
			ks, ps = append(ks, k), append(ps, p)
			acc = c.add(acc, c.mul(k, rp))
		}
		r, bes, panicked := g.auMSM(ks, ps)
		if len(args) == 0 {
			// the generic function documents the empty input as a refusal (panic)
			out.impl, out.ref, out.triv = "refused", "refused", true
			if !panicked {
				out.impl = g.text(r)
				out.ref = c.text(c.id())
			}
			return out
		}
		if panicked {
			out.impl = "PANIC"
		} else {
			out.impl = g.text(r)
		}
		out.ref = c.text(acc)
		terms := make([]string, len(args))
		for i := range args {
			leb := slices.Clone(bes[i])
			slices.Reverse(leb)
			terms[i] = hexZ(ks[i]) + ";" + vh.Hex(leb) + ";" + strings.Split(args[i], ";")[1]
		}
		if f[0] == "AUMSMC" {
			out.model = []string{"MSMC " + m + " " + strings.Join(terms, " ")}
		} else {
			out.model = []string{"MSM " + m + " " + strings.Join(terms, " ")}
		}
	case "MSM", "MSMN", "MSMR", "MSMC", "LMSM", "LMSMC":
		// MSM*: Curve.MultiScalarMul; LMSM*: MultiScalarMulLowLevel on raw byte strings.
		// model: plain = naive sum and bucket-algorithm model, N = naive only, C = bucket-algorithm model only
		// (large lengths), R = none (math/big reference only)
		low := strings.HasPrefix(f[0], "LMSM")
		var ss []any
		var raws [][]byte
		var ps []any
		acc := c.id()
		terms := make([]string, 0, len(args))
		for _, t := range args {
			tf := strings.Split(t, ";")
			if len(tf) != 2 {
				out.skip = "bad term"
				return out
			}
			p, rp := pt(tf[1])
			ps = append(ps, p)
			var k *big.Int
			var leb []byte
			if !low {
				kk, err := parseHex(tf[0])
				if err != nil {
					out.skip = err.Error()
					return out
				}
				s, _, lb, err := g.scalar(kk)
				if err != nil {
					out.skip = err.Error()
					return out
				}
				ss = append(ss, s)
				k, leb = kk, lb
			} else {
				leb = vh.UnHex(tf[0])
				k = le(leb)
				raws = append(raws, leb)
			}
			acc = c.add(acc, c.mul(k, rp))
			terms = append(terms, hexZ(k)+";"+vh.Hex(leb)+";"+tf[1])
		}
		if !low {
			if g.msm == nil {
				out.skip = "no MultiScalarMul"
				return out
			}
			r, err := g.msm(ss, ps)
			if err != nil {
				out.impl = "error"
			} else {
				out.impl = g.text(r)
			}
		} else {
			if g.msmRaw == nil {
				out.skip = "no low-level MSM"
				return out
			}
			r, ok := g.msmRaw(raws, ps)
			if !ok {
				out.impl = "PANIC"
			} else {
				out.impl = g.text(r)
			}
		}
		out.ref = c.text(acc)
		switch f[0] {
		case "MSMR":
			out.model = nil
		case "MSMN":
			out.model = []string{strings.TrimSpace("MSMN " + m + " " + strings.Join(terms, " "))}
		case "MSMC", "LMSMC":
			out.model = []string{strings.TrimSpace("MSMC " + m + " " + strings.Join(terms, " "))}
		default:
			out.model = []string{strings.TrimSpace("MSM " + m + " " + strings.Join(terms, " "))}
		}
	default:
		out.skip = "unknown op " + f[0]
	}
	return out
}

func b2s(b bool) string {
	if b {
		return "1"
	}
	return "0"
}

func (w *world) evalField(line string, f []string) (out evalOut) {
	out.class = "F"
	if len(f) < 4 {
		out.skip = "short"
		return out
	}
	fd, ok := w.fields[f[1]]
	if !ok {
		out.skip = "unknown field " + f[1]
		return out
	}
	op := f[2]
	out.class = "F:" + fd.name + ":" + op
	rf := refField{p: fd.mod, ext: fd.comps == 2}
	out.model = []string{line}
	if op == "wide" {
		b := vh.UnHex(f[3])
		r, ok := fd.wide(b)
		if !ok {
			out.impl = "reject"
		} else {
			out.impl = fd.text(r)
		}
		if len(b) <= fd.wideSize {
			out.ref = hexZ(new(big.Int).Mod(new(big.Int).SetBytes(b), fd.mod))
		} else {
			out.ref = "reject"
			out.model = nil // the model has no size limit
			out.triv = true
		}
		return out
	}
	x, err := fd.parse(f[3])
	if err != nil {
		out.skip = err.Error()
		return out
	}
	rx, _ := rf.parse(f[3])
	var y any
	var ry fe
	if op == "add" || op == "sub" || op == "mul" {
		if len(f) != 5 {
			out.skip = "arity"
			return out
		}
		y, err = fd.parse(f[4])
		if err != nil {
			out.skip = err.Error()
			return out
		}
		ry, _ = rf.parse(f[4])
	}
	switch op {
	case "add":
		out.impl, out.ref = fd.text(fd.add(x, y)), rf.text(rf.add(rx, ry))
	case "sub":
		out.impl, out.ref = fd.text(fd.sub(x, y)), rf.text(rf.sub(rx, ry))
	case "mul":
		out.impl, out.ref = fd.text(fd.mul(x, y)), rf.text(rf.mul(rx, ry))
	case "neg":
		out.impl, out.ref = fd.text(fd.neg(x)), rf.text(rf.neg(rx))
	case "sqr":
		out.impl, out.ref = fd.text(fd.sqr(x)), rf.text(rf.mul(rx, rx))
	case "inv":
		r, ok := fd.inv(x)
		if !ok {
			out.impl = "none"
		} else {
			out.impl = fd.text(r)
		}
		if rf.isZero(rx) {
			out.ref = "none"
		} else {
			out.ref = rf.text(rf.inv(rx))
		}
	case "sqrt":
		// observable: "none" or "sq" when the returned r satisfies r*r = x (either root is correct)
		if fd.sqrt == nil {
			out.skip = "no sqrt"
			return out
		}
		r, ok := fd.sqrt(x)
		switch {
		case !ok:
			out.impl = "none"
		default:
			rr, _ := rf.parse(fd.text(r))
			if rf.eq(rf.mul(rr, rr), rx) {
				out.impl = "sq"
			} else {
				out.impl = "wrong-root:" + fd.text(r)
			}
		}
		var nrm *big.Int
		if rf.ext {
			nrm = new(big.Int).Add(new(big.Int).Mul(rx.c0, rx.c0), new(big.Int).Mul(rx.c1, rx.c1))
			nrm.Mod(nrm, fd.mod)
			out.model = nil // no F_p2 square-root model: reference only (norm is a square in F_p)
		} else {
			nrm = rx.c0
		}
		if nrm.Sign() == 0 || big.Jacobi(nrm, fd.mod) == 1 {
			out.ref = "sq"
		} else {
			out.ref = "none"
		}
	default:
		out.skip = "unknown field op"
	}
	return out
}

func (w *world) evalSpecial(line string, f []string) (out evalOut) {
	out.class = f[0]
	switch f[0] {
	case "EDMONT":
		// the Montgomery view of an edwards25519 point (x,y): curve25519.Point{V: that point}
		g := w.groups["ed25519/full"]
		p, err := g.fromText(f[1])
		if err != nil {
			out.skip = err.Error()
			return out
		}
		var q curve25519.Point
		q.V.Set(&p.(*edwards25519.Point).V)
		out.impl = w.groups["curve25519/full"].text(&q)
		out.model = []string{"EDMONT " + f[1]}
		out.ref = ""
	case "PAIR":
		// PAIR a b P Q : e(aP, bQ) = e(P,Q)^(ab), computed on the implementation only
		if len(f) != 5 {
			out.skip = "arity"
			return out
		}
		a, e1 := parseHex(f[1])
		b, e2 := parseHex(f[2])
		g1, g2 := w.groups["g1"], w.groups["g2"]
		P, e3 := g1.fromText(f[3])
		Q, e4 := g2.fromText(f[4])
		if e1 != nil || e2 != nil || e3 != nil || e4 != nil {
			out.skip = "bad pairing case"
			return out
		}
		sa, _, _, _ := g1.scalar(a)
		sb, _, _, _ := g2.scalar(b)
		aP := g1.smul(P, sa).(*bls12381.PointG1)
		bQ := g2.smul(Q, sb).(*bls12381.PointG2)
		lhs, err := aP.Pair(bQ)
		if idA, _ := g1.isID(aP); idA || bQ.IsOpIdentity() {
			// the pairing API refuses identity operands (documented refusal): "error" is the expected class,
			// and if it answers it must answer 1
			out.ref = "error"
			switch {
			case err != nil:
				out.impl = "error"
			case lhs.IsOne():
				out.impl = "error"
			default:
				out.impl = "identity-operand-not-one"
			}
			out.triv = true
			return out
		}
		if err != nil {
			out.impl = "error"
			out.ref = "bilinear"
			return out
		}
		base, err := P.(*bls12381.PointG1).Pair(Q.(*bls12381.PointG2))
		if err != nil {
			out.impl = "error"
			out.ref = "bilinear"
			return out
		}
		ab := new(big.Int).Mul(a, b)
		ab.Mod(ab, g1.n)
		rhs := gtPow(base, ab)
		// also through MultiPair: e(aP,Q)*e(-P, aQ) = 1
		aQ := g2.smul(Q, sa).(*bls12381.PointG2)
		negP := P.(*bls12381.PointG1).Neg()
		prod, err := bls12381.NewG1().MultiPair([]*bls12381.PointG1{aP, negP}, []*bls12381.PointG2{Q.(*bls12381.PointG2), aQ})
		switch {
		case !lhs.Equal(rhs):
			out.impl = "not-bilinear"
		case err != nil || !prod.IsOne():
			out.impl = "multipair-product-not-one"
		default:
			out.impl = "bilinear"
		}
		out.ref = "bilinear"
	case "PAIRND":
		// non-degeneracy: e(P,Q) != 1 for P, Q of order r, and e(P,Q)^r = 1
		g1, g2 := w.groups["g1"], w.groups["g2"]
		P, e3 := g1.fromText(f[1])
		Q, e4 := g2.fromText(f[2])
		if e3 != nil || e4 != nil {
			out.skip = "bad pairing case"
			return out
		}
		e, err := P.(*bls12381.PointG1).Pair(Q.(*bls12381.PointG2))
		idP, _ := g1.isID(P)
		idQ, _ := g2.isID(Q)
		switch {
		case idP || idQ:
			// refusal or 1
			out.ref = "one-or-refused"
			if err != nil || e.IsOne() {
				out.impl = "one-or-refused"
			} else {
				out.impl = "not-one"
			}
			out.triv = true
			return out
		case err != nil:
			out.impl = "error"
		case e.IsOne():
			out.impl = "degenerate"
		case !gtPow(e, g1.n).IsOne():
			out.impl = "order-not-r"
		default:
			out.impl = "nondegenerate"
		}
		out.ref = "nondegenerate"
	}
	return out
}

func gtPow(x *bls12381.GtElement, k *big.Int) *bls12381.GtElement {
	r := bls12381.NewGt().One()
	for i := k.BitLen() - 1; i >= 0; i-- {
		r = r.Square()
		if k.Bit(i) == 1 {
			r = r.Mul(x)
		}
	}
	return r
}

// ---- relation R ---------------------------------------------------------------------------------------

// agree applies the relation between the implementation's observable and the model's output line.
func agree(line string, impl string, model []string) (bool, string) {
	op := strings.SplitN(line, " ", 2)[0]
	if len(model) == 0 {
		return true, ""
	}
	mo := model[0]
	switch op {
	case "MUL", "BASEMUL", "LMUL", "AUMUL":
		// model prints "naive window": the naive double-and-add value and the window algorithm
		mf := strings.Split(mo, " ")
		if len(mf) != 2 {
			return false, "model: " + mo
		}
		if mf[0] != impl {
			return false, "implementation " + impl + " != k*P of the affine model " + mf[0]
		}
		if mf[1] != impl {
			return false, "implementation " + impl + " != window-algorithm model " + mf[1]
		}
		return true, ""
	case "MSMC", "LMSMC", "AUMSMC":
		if mo != impl {
			return false, "implementation " + impl + " != bucket-algorithm model " + mo
		}
		return true, ""
	case "MSMN":
		if mo != impl {
			return false, "implementation " + impl + " != sum k_i*P_i of the affine model " + mo
		}
		return true, ""
	case "MSM", "LMSM", "AUMSM":
		mf := strings.Split(mo, " ")
		if len(mf) != 2 {
			return false, "model: " + mo
		}
		if mf[0] != impl {
			return false, "implementation " + impl + " != sum k_i*P_i of the affine model " + mf[0]
		}
		if mf[1] != impl {
			return false, "implementation " + impl + " != bucket-algorithm model " + mf[1]
		}
		return true, ""
	case "F":
		f := strings.Split(line, " ")
		if len(f) > 2 && f[2] == "sqrt" {
			want := "sq"
			if mo == "none" {
				want = "none"
			}
			if impl != want {
				return false, "implementation " + impl + ", model root " + mo
			}
			return true, ""
		}
	}
	if impl != mo {
		return false, "implementation " + impl + " != model " + mo
	}
	return true, ""
}

// ---- running a batch of cases ----------------------------------------------------------------------------

func runDriver(path string, lines []string) ([]string, error) {
	if len(lines) == 0 {
		return nil, nil
	}
	nw := runtime.NumCPU()
	if nw > 12 {
		nw = 12
	}
	if nw > len(lines) {
		nw = len(lines)
	}
	chunks := make([][]string, nw)
	for i, l := range lines {
		chunks[i%nw] = append(chunks[i%nw], l)
	}
	outs := make([][]string, nw)
	errsl := make([]error, nw)
	var wg sync.WaitGroup
	for i := range chunks {
		wg.Add(1)
		go func(i int) {
			defer wg.Done()
			outs[i], errsl[i] = vh.Driver(path, chunks[i])
		}(i)
	}
	wg.Wait()
	for _, e := range errsl {
		if e != nil {
			return nil, e
		}
	}
	res := make([]string, len(lines))
	for i := range lines {
		res[i] = outs[i%nw][i/nw]
	}
	return res, nil
}

func keyOf(line string) string {
	f := strings.Split(line, " ")
	op := strings.ToLower(f[0])
	if f[0] == "F" && len(f) == 4 && f[1] == "g2.p2" && f[2] == "sqrt" && strings.HasSuffix(f[3], ":0") {
		return "fp2-sqrt-c1-zero"
	}
	if f[0] == "F" && len(f) > 2 {
		return "field-" + f[1] + "-" + f[2]
	}
	if len(f) > 1 && f[0] != "PAIR" && f[0] != "PAIRND" && f[0] != "EDMONT" {
		k := op + "-" + strings.ReplaceAll(f[1], "/", "-")
		switch f[0] {
		case "MSMN", "MSMR", "MSMC":
			k = "msm-" + strings.ReplaceAll(f[1], "/", "-")
		case "LMSMC":
			k = "lmsm-" + strings.ReplaceAll(f[1], "/", "-")
		case "AUMSMC":
			k = "aumsm-" + strings.ReplaceAll(f[1], "/", "-")
		}
		if (f[0] == "MSM" || f[0] == "LMSM" || f[0] == "MSMN" || f[0] == "MSMR" || f[0] == "MSMC" || f[0] == "LMSMC") && len(f) == 2 {
			return "msm-empty"
		}
		return k
	}
	return op
}

func whatOf(line string) string {
	switch strings.SplitN(line, " ", 2)[0] {
	case "ADD", "SUB":
		return "correspondence Add/Sub = waff_add/eaff_add (Curve.v); theorems add_generic_agrees, add_doubling_agrees, add_inverse_gives_infinity, add_identity_left/right, ed_add_agrees"
	case "DBL", "LDBL":
		return "correspondence Double = waff_double (Curve.v); theorems dbl_agrees, add_doubling_agrees"
	case "NEG":
		return "correspondence Neg = waff_neg; theorem neg_agrees"
	case "TORS", "CLRCOF":
		return "IsTorsionFree = (n*P = identity); ClearCofactor maps into the prime-order subgroup (implementation predicate + affine model)"
	case "EQ", "ISID":
		return "correspondence Equal/IsZero; theorem equal_iff_same_affine"
	case "ONC":
		return "correspondence SetAffine = on_curve; theorem set_affine_iff_on_curve"
	case "MUL", "BASEMUL", "LMUL", "AUMUL":
		return "correspondence ScalarMul = waff_mul and = scalar_mul_window (ScalarMul.v); theorem scalar_mul_window_correct"
	case "MSM", "LMSM", "MSMN", "AUMSM", "MSMR", "MSMC", "LMSMC", "AUMSMC":
		return "correspondence MultiScalarMul = sum k_i*P_i and = msm (ScalarMul.v); theorem msm_correct"
	case "F":
		return "correspondence field operation = Zp / Fp2 (Fld.v, Curve.v)"
	case "HYP":
		return "hypotheses no_two_torsion / char not 2,3 / d non-square, a square of the C14 theorems hold for this curve"
	case "PARAMS":
		return "hand-written constants of CurveParams.v = parameters reported by the API"
	case "PAIR", "PAIRND":
		return "pairing bilinear / non-degenerate (property predicate on the implementation; no Coq model)"
	}
	return "C14 correspondence"
}

// shrinkMSM simplifies a failing multi-scalar case while the implementation still disagrees with the
// math/big reference: first it zeroes scalars in halving blocks (the vector length — hence the window width —
// stays the same), then, for short vectors, it drops terms.  Bounded by a time budget.
var shrinkDeadline time.Time

func isMSMOp(op string) bool {
	switch op {
	case "MSM", "MSMN", "MSMR", "MSMC", "LMSM", "LMSMC", "AUMSM", "AUMSMC":
		return true
	}
	return false
}

func (w *world) shrinkMSM(line string) string {
	f := strings.Split(line, " ")
	if len(f) < 4 || !isMSMOp(f[0]) {
		return line
	}
	if shrinkDeadline.IsZero() {
		shrinkDeadline = time.Now().Add(60 * time.Second)
	}
	bad := func(terms []string) bool {
		if time.Now().After(shrinkDeadline) {
			return false
		}
		e := w.eval(f[0] + " " + f[1] + " " + strings.Join(terms, " "))
		return e.skip == "" && e.ref != "" && e.ref != e.impl
	}
	terms := append([]string{}, f[2:]...)
	zero := "0"
	if strings.HasPrefix(f[0], "LMSM") {
		// keep the byte length of each string (it determines the number of windows)
		zero = ""
	}
	zeroed := func(t string) string {
		tf := strings.SplitN(t, ";", 2)
		if zero == "" {
			if tf[0] == "-" {
				return t
			}
			return strings.Repeat("0", len(tf[0])) + ";" + tf[1]
		}
		return zero + ";" + tf[1]
	}
	for blk := (len(terms) + 1) / 2; blk >= 1; blk /= 2 {
		for start := 0; start < len(terms); start += blk {
			end := start + blk
			if end > len(terms) {
				end = len(terms)
			}
			cand := append([]string{}, terms...)
			changed := false
			for i := start; i < end; i++ {
				if z := zeroed(cand[i]); z != cand[i] {
					cand[i] = z
					changed = true
				}
			}
			if changed && bad(cand) {
				terms = cand
			}
		}
		if blk == 1 {
			break
		}
	}
	if len(terms) <= 48 {
		for changed := true; changed; {
			changed = false
			for i := 0; i < len(terms) && len(terms) > 1; i++ {
				cand := append(append([]string{}, terms[:i]...), terms[i+1:]...)
				if bad(cand) {
					terms = cand
					changed = true
					i--
				}
			}
		}
	}
	return f[0] + " " + f[1] + " " + strings.Join(terms, " ")
}

// runCases evaluates the cases, applies R and records mismatches.  Returns the number of mismatches.
func runCases(w *world, a vh.Args, res *vh.Result, lines []string, tag string) int {
	evs := make([]evalOut, len(lines))
	t0 := time.Now()
	var wg sync.WaitGroup
	sem := make(chan struct{}, runtime.NumCPU())
	for i := range lines {
		wg.Add(1)
		sem <- struct{}{}
		go func(i int) {
			defer wg.Done()
			defer func() { <-sem }()
			evs[i] = w.eval(lines[i])
		}(i)
	}
	wg.Wait()
	tImpl := time.Since(t0)
	var mlines []string
	idx := make([]int, len(lines))
	for i, e := range evs {
		idx[i] = len(mlines)
		mlines = append(mlines, e.model...)
	}
	t1 := time.Now()
	mouts, err := runDriver(a.Driver, mlines)
	fmt.Fprintf(os.Stderr, "c14 %s: implementation+reference %.1fs, model driver %.1fs (%d lines)\n", tag, tImpl.Seconds(), time.Since(t1).Seconds(), len(mlines))
	if os.Getenv("C14_DUMP") != "" {
		_ = os.WriteFile(os.Getenv("C14_DUMP"), []byte(strings.Join(mlines, "\n")+"\n"), 0o644)
	}
	if err != nil {
		res.Mismatch(vh.Mismatch{ID: tag + "-driver", Kind: "corr", Key: "driver-failed", Detail: err.Error(), Case: "(driver)", What: "model driver"})
		return 1
	}
	bad := 0
	for i, e := range evs {
		if e.skip != "" {
			res.Note("skipped %q: %s", lines[i], e.skip)
			continue
		}
		res.Count(e.class, lines[i], !e.triv)
		mo := mouts[idx[i] : idx[i]+len(e.model)]
		ok, why := agree(lines[i], e.impl, mo)
		refBad := e.ref != "" && e.ref != e.impl
		if strings.HasPrefix(e.impl, "PANIC") {
			refBad = true
		}
		if ok && !refBad {
			continue
		}
		bad++
		kind := "corr"
		if ok {
			kind = "prop" // model agrees with the implementation but the independent reference does not
			why = "implementation " + e.impl + " != math/big reference " + e.ref + " (model agrees with the implementation: " + strings.Join(mo, " | ") + ")"
		}
		if len(e.model) == 0 {
			kind = "prop"
			why = "implementation " + e.impl + ", expected " + e.ref
		}
		cs := lines[i]
		if refBad {
			if sh := w.shrinkMSM(cs); sh != cs {
				why += "; shrunk from " + fmt.Sprint(len(strings.Split(cs, " "))-2) + " terms (the shrunk case is checked against the math/big reference)"
				cs = sh
			}
		}
		res.Mismatch(vh.Mismatch{
			ID: fmt.Sprintf("%s-%d", tag, i), Kind: kind, Key: keyOf(lines[i]),
			Detail: why + "; reference: " + e.ref, Case: cs, PropFail: refBad, What: whatOf(lines[i]),
		})
	}
	return bad
}

// ---- main ---------------------------------------------------------------------------------------------------

func main() {
	a := vh.ParseArgs()
	res := vh.NewResult(prop, a.Seed, a.Tier)
	earlyProbes(res)
	w := newWorld()
	res.Rule = "cases are lines 'OP group args' generated from the seeded SHAKE stream: per group an exceptional pool " +
		"(identity, G, -G, 2G, random P, -P, 2P, P+G, points with x=0 where they exist, all 8 small-order points and mixed-order points on edwards25519/curve25519, " +
		"points outside the prime subgroup on BLS12-381) crossed with itself and with random points for Add/Sub/Equal; Double/low-level Double/Neg/IsIdentity on the pool; " +
		"IsTorsionFree (= n*P is the identity) and ClearCofactor (lands in the prime subgroup; 8*P on edwards25519) on the pool; SetAffine on valid and perturbed coordinates; scalars 0,1,2,n-1,n,n+1,2^256-1,random for ScalarMul/ScalarBaseMul; arbitrary byte strings (length 0..40) for " +
		"ScalarMulLowLevel; MultiScalarMul of every length 0..40 (quick) with zero scalars, identity, repeated and opposite points; MultiScalarMulLowLevel with unequal-length scalar strings; algebrautils.ScalarMul / MultiScalarMul on natural numbers up to 300 bits; " +
		"the theorems' hypotheses (no 2-torsion, d non-square, a square, char not 2,3) decided per curve; " +
		"field add/sub/mul/neg/square/inv/sqrt/wide-reduction on boundary and random values for every base and scalar field; pairing bilinearity/non-degeneracy on the implementation. " +
		"A case is non-trivial unless it is rejected at the first guard (coordinates not on the curve, over-long wide input)."
	if a.Replay != "" {
		line := readReplayCase(a.Replay)
		if line == "" {
			res.Note("replay file has no case line")
		} else if strings.HasPrefix(line, "PROBE") {
			res.Note("probe cases are re-run by every invocation")
		} else {
			runCases(w, a, res, []string{line}, "replay")
		}
		res.Write(a.Out)
		return
	}
	func() {
		// never die without a result: a panic while building cases (e.g. the generator of a curve has no
		// affine coordinates any more) is itself a finding about the implementation
		defer func() {
			if r := recover(); r != nil {
				res.Mismatch(vh.Mismatch{ID: "harness-panic", Kind: "corr", Key: "case-generation-panic",
					Detail: fmt.Sprintf("panic while generating / running cases: %v", r), Case: "(case generation)",
					What: "C14 correspondence could not be set up on this tree"})
			}
		}()
		lines := generate(w, a.Seed, a.Tier, a.Search)
		runCases(w, a, res, lines, "c")
	}()
	res.Write(a.Out)
	fmt.Fprintf(os.Stderr, "c14: %d cases, %d mismatches\n", res.Evaluations, len(res.Mismatches))
}

func readReplayCase(path string) string {
	b, err := os.ReadFile(path)
	if err != nil {
		return ""
	}
	for _, l := range strings.Split(string(b), "\n") {
		if strings.HasPrefix(l, "case: ") {
			return strings.TrimSpace(strings.TrimPrefix(l, "case: "))
		}
	}
	return ""
}
