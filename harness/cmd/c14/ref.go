package main

// An independent arbitrary-precision reference (math/big) of the affine group laws.  It is NOT
// the Coq model: it is what the harness uses to evaluate the property's own predicate on the
// implementation ("the result is the mathematical group operation") when model and
// implementation disagree, and in -search mode.

import (
	"fmt"
	"math/big"
	"strings"
)

// fe is an element of F_p (c1 == nil) or F_p2 = F_p[u]/(u^2+1).
type fe struct{ c0, c1 *big.Int }

type refField struct {
	p   *big.Int
	ext bool
}

func (f refField) norm(x *big.Int) *big.Int { return new(big.Int).Mod(x, f.p) }
func (f refField) zero() fe {
	if f.ext {
		return fe{new(big.Int), new(big.Int)}
	}
	return fe{new(big.Int), nil}
}
func (f refField) one() fe {
	z := f.zero()
	z.c0 = big.NewInt(1)
	return z
}
func (f refField) small(v int64) fe {
	z := f.zero()
	z.c0 = f.norm(big.NewInt(v))
	return z
}
func (f refField) add(a, b fe) fe {
	r := fe{f.norm(new(big.Int).Add(a.c0, b.c0)), nil}
	if f.ext {
		r.c1 = f.norm(new(big.Int).Add(a.c1, b.c1))
	}
	return r
}
func (f refField) sub(a, b fe) fe {
	r := fe{f.norm(new(big.Int).Sub(a.c0, b.c0)), nil}
	if f.ext {
		r.c1 = f.norm(new(big.Int).Sub(a.c1, b.c1))
	}
	return r
}
func (f refField) neg(a fe) fe { return f.sub(f.zero(), a) }
func (f refField) mul(a, b fe) fe {
	if !f.ext {
		return fe{f.norm(new(big.Int).Mul(a.c0, b.c0)), nil}
	}
	t0 := new(big.Int).Mul(a.c0, b.c0)
	t1 := new(big.Int).Mul(a.c1, b.c1)
	t2 := new(big.Int).Mul(a.c0, b.c1)
	t3 := new(big.Int).Mul(a.c1, b.c0)
	return fe{f.norm(t0.Sub(t0, t1)), f.norm(t2.Add(t2, t3))}
}
func (f refField) isZero(a fe) bool {
	return a.c0.Sign() == 0 && (!f.ext || a.c1.Sign() == 0)
}
func (f refField) eq(a, b fe) bool { return f.isZero(f.sub(a, b)) }
func (f refField) inv(a fe) fe {
	if !f.ext {
		r := new(big.Int).ModInverse(a.c0, f.p)
		if r == nil {
			r = new(big.Int)
		}
		return fe{r, nil}
	}
	n := new(big.Int).Mul(a.c0, a.c0)
	n.Add(n, new(big.Int).Mul(a.c1, a.c1))
	n.Mod(n, f.p)
	ni := new(big.Int).ModInverse(n, f.p)
	if ni == nil {
		ni = new(big.Int)
	}
	return fe{f.norm(new(big.Int).Mul(a.c0, ni)), f.norm(new(big.Int).Mul(new(big.Int).Neg(a.c1), ni))}
}
func (f refField) div(a, b fe) fe { return f.mul(a, f.inv(b)) }

func (f refField) text(a fe) string {
	if f.ext {
		return a.c0.Text(16) + ":" + a.c1.Text(16)
	}
	return a.c0.Text(16)
}
func (f refField) parse(s string) (fe, error) {
	if f.ext {
		ff := strings.Split(s, ":")
		if len(ff) != 2 {
			return fe{}, fmt.Errorf("bad fp2 %q", s)
		}
		a, e1 := parseHex(ff[0])
		b, e2 := parseHex(ff[1])
		if e1 != nil || e2 != nil {
			return fe{}, fmt.Errorf("bad fp2 %q", s)
		}
		return fe{a, b}, nil
	}
	a, err := parseHex(s)
	if err != nil {
		return fe{}, err
	}
	return fe{a, nil}, nil
}

// rpt is an affine point; inf marks the point at infinity (never set on Edwards curves).
type rpt struct {
	inf  bool
	x, y fe
}

type refCurve struct {
	kind byte // 'w', 'e', 'm'
	f    refField
	a, b fe // w: a,b ; e: a,d ; m: A,(unused)
}

func (c refCurve) id() rpt {
	if c.kind == 'e' {
		return rpt{x: c.f.zero(), y: c.f.one()}
	}
	return rpt{inf: true}
}

func (c refCurve) text(p rpt) string {
	if p.inf {
		return "inf"
	}
	return c.f.text(p.x) + "," + c.f.text(p.y)
}

func (c refCurve) parse(s string) (rpt, error) {
	if s == "inf" {
		return rpt{inf: true}, nil
	}
	xs, ys, err := splitPoint(s)
	if err != nil {
		return rpt{}, err
	}
	x, err := c.f.parse(xs)
	if err != nil {
		return rpt{}, err
	}
	y, err := c.f.parse(ys)
	if err != nil {
		return rpt{}, err
	}
	return rpt{x: x, y: y}, nil
}

func (c refCurve) onCurve(p rpt) bool {
	f := c.f
	if p.inf {
		return true
	}
	switch c.kind {
	case 'w':
		l := f.mul(p.y, p.y)
		r := f.add(f.add(f.mul(f.mul(p.x, p.x), p.x), f.mul(c.a, p.x)), c.b)
		return f.eq(l, r)
	case 'e':
		xx, yy := f.mul(p.x, p.x), f.mul(p.y, p.y)
		return f.eq(f.add(f.mul(c.a, xx), yy), f.add(f.one(), f.mul(c.b, f.mul(xx, yy))))
	default:
		uu := f.mul(p.x, p.x)
		return f.eq(f.mul(p.y, p.y), f.add(f.add(f.mul(uu, p.x), f.mul(c.a, uu)), p.x))
	}
}

func (c refCurve) neg(p rpt) rpt {
	if p.inf {
		return p
	}
	if c.kind == 'e' {
		return rpt{x: c.f.neg(p.x), y: p.y}
	}
	return rpt{x: p.x, y: c.f.neg(p.y)}
}

func (c refCurve) eq(p, q rpt) bool {
	if p.inf || q.inf {
		return p.inf == q.inf
	}
	return c.f.eq(p.x, q.x) && c.f.eq(p.y, q.y)
}

func (c refCurve) add(p, q rpt) rpt {
	f := c.f
	if c.kind == 'e' {
		t := f.mul(c.b, f.mul(f.mul(p.x, q.x), f.mul(p.y, q.y)))
		x := f.div(f.add(f.mul(p.x, q.y), f.mul(q.x, p.y)), f.add(f.one(), t))
		y := f.div(f.sub(f.mul(p.y, q.y), f.mul(c.a, f.mul(p.x, q.x))), f.sub(f.one(), t))
		return rpt{x: x, y: y}
	}
	if p.inf {
		return q
	}
	if q.inf {
		return p
	}
	var l fe
	if f.eq(p.x, q.x) {
		if !f.eq(p.y, q.y) || f.isZero(p.y) {
			return rpt{inf: true}
		}
		xx := f.mul(p.x, p.x)
		num := f.add(f.add(xx, xx), xx)
		if c.kind == 'w' {
			num = f.add(num, c.a)
		} else {
			ax := f.mul(c.a, p.x)
			num = f.add(f.add(num, f.add(ax, ax)), f.one())
		}
		l = f.div(num, f.add(p.y, p.y))
	} else {
		l = f.div(f.sub(q.y, p.y), f.sub(q.x, p.x))
	}
	x3 := f.sub(f.sub(f.mul(l, l), p.x), q.x)
	if c.kind == 'm' {
		x3 = f.sub(x3, c.a)
	}
	y3 := f.sub(f.mul(l, f.sub(p.x, x3)), p.y)
	return rpt{x: x3, y: y3}
}

func (c refCurve) mul(k *big.Int, p rpt) rpt {
	r := c.id()
	for i := k.BitLen() - 1; i >= 0; i-- {
		r = c.add(r, r)
		if k.Bit(i) == 1 {
			r = c.add(r, p)
		}
	}
	return r
}
