package main

// The named hypotheses of the Coq theorems, decided by computation for the concrete curves:
//   no_two_torsion  x^3 + a x + b has no root in the base field    gcd(x^q - x, x^3 + a x + b) = 1
//   char not 2, 3   6 mod p != 0
//   Edwards         d is a non-square, a is a square                 (Jacobi symbols)
// math/big only; q = p for F_p, p^2 for F_p2.

import (
	"math/big"
)

type poly []fe // coefficients, low degree first; no trailing zeros

func (f refField) ptrim(a poly) poly {
	for len(a) > 0 && f.isZero(a[len(a)-1]) {
		a = a[:len(a)-1]
	}
	return a
}

func (f refField) pmulmod(a, b poly, m poly) poly {
	if len(a) == 0 || len(b) == 0 {
		return nil
	}
	r := make(poly, len(a)+len(b)-1)
	for i := range r {
		r[i] = f.zero()
	}
	for i, x := range a {
		for j, y := range b {
			r[i+j] = f.add(r[i+j], f.mul(x, y))
		}
	}
	return f.pmod(r, m)
}

// pmod: remainder of a modulo m (m non-zero)
func (f refField) pmod(a, m poly) poly {
	a = f.ptrim(append(poly{}, a...))
	dm := len(m) - 1
	inv := f.inv(m[dm])
	for len(a)-1 >= dm && len(a) > 0 {
		c := f.mul(a[len(a)-1], inv)
		sh := len(a) - 1 - dm
		for i := 0; i <= dm; i++ {
			a[sh+i] = f.sub(a[sh+i], f.mul(c, m[i]))
		}
		a = f.ptrim(a)
	}
	return a
}

func (f refField) pgcd(a, b poly) poly {
	a, b = f.ptrim(a), f.ptrim(b)
	for len(b) > 0 {
		a, b = b, f.pmod(a, b)
	}
	return a
}

// cubicHasRoot decides whether x^3 + a x + b has a root in the field of q elements.
func cubicHasRoot(f refField, a, b fe) bool {
	m := poly{b, a, f.zero(), f.one()}
	q := new(big.Int).Set(f.p)
	if f.ext {
		q.Mul(q, q)
	}
	x := poly{f.zero(), f.one()}
	r := poly{f.one()}
	for i := q.BitLen() - 1; i >= 0; i-- {
		r = f.pmulmod(r, r, m)
		if q.Bit(i) == 1 {
			r = f.pmulmod(r, x, m)
		}
	}
	// r = x^q mod m ; g = r - x
	g := make(poly, 3)
	for i := range g {
		g[i] = f.zero()
		if i < len(r) {
			g[i] = r[i]
		}
	}
	g[1] = f.sub(g[1], f.one())
	d := f.pgcd(m, g)
	return len(d) > 1
}

// hypothesisCheck returns "ok" or a description of the hypothesis that fails for the curve.
func hypothesisCheck(c refCurve) string {
	f := c.f
	if new(big.Int).Mod(big.NewInt(6), f.p).Sign() == 0 || f.p.Cmp(big.NewInt(3)) <= 0 {
		return "characteristic divides 6"
	}
	switch c.kind {
	case 'w':
		if cubicHasRoot(f, c.a, c.b) {
			return "x^3+ax+b has a root (2-torsion)"
		}
	case 'e':
		if f.ext {
			return "unsupported"
		}
		if big.Jacobi(c.b.c0, f.p) != -1 {
			return "d is not a non-square"
		}
		if big.Jacobi(c.a.c0, f.p) != 1 {
			return "a is not a non-zero square"
		}
	case 'm':
		// the Montgomery view is the Edwards curve with a = -1, d = -(A-2)/(A+2) in disguise:
		// completeness needs A^2 - 4 to be a non-square (no further point of order 2 besides (0,0))
		t := new(big.Int).Mul(c.a.c0, c.a.c0)
		t.Sub(t, big.NewInt(4)).Mod(t, f.p)
		if big.Jacobi(t, f.p) != -1 {
			return "A^2-4 is not a non-square"
		}
	}
	return "ok"
}
