package main

// Adapters: every curve group / field of the library behind a small set of closures over
// `any`, so that case generation, evaluation and comparison are written once.

import (
	"errors"
	"fmt"
	"math/big"
	"slices"
	"strings"

	"github.com/bronlabs/bron-crypto/pkg/base/algebra"
	aimpl "github.com/bronlabs/bron-crypto/pkg/base/algebra/impl"
	"github.com/bronlabs/bron-crypto/pkg/base/curves/curve25519"
	"github.com/bronlabs/bron-crypto/pkg/base/curves/edwards25519"
	edImpl "github.com/bronlabs/bron-crypto/pkg/base/curves/edwards25519/impl"
	"github.com/bronlabs/bron-crypto/pkg/base/curves/k256"
	k256Impl "github.com/bronlabs/bron-crypto/pkg/base/curves/k256/impl"
	"github.com/bronlabs/bron-crypto/pkg/base/curves/p256"
	p256Impl "github.com/bronlabs/bron-crypto/pkg/base/curves/p256/impl"
	"github.com/bronlabs/bron-crypto/pkg/base/curves/pairable/bls12381"
	blsImpl "github.com/bronlabs/bron-crypto/pkg/base/curves/pairable/bls12381/impl"
	"github.com/bronlabs/bron-crypto/pkg/base/curves/pasta"
	pastaImpl "github.com/bronlabs/bron-crypto/pkg/base/curves/pasta/impl"
	"github.com/bronlabs/bron-crypto/pkg/base/nt/cardinal"
	"github.com/bronlabs/bron-crypto/pkg/base/nt/num"
	"github.com/bronlabs/bron-crypto/pkg/base/utils/algebrautils"
)

// ---- what the generic code needs of the library's types ---------------------------------

type ptI[P, F, S any] interface {
	Add(P) P
	Double() P
	Neg() P
	Sub(P) P
	ScalarMul(S) P
	Equal(P) bool
	IsOpIdentity() bool
	IsZero() bool
	IsTorsionFree() bool
	ClearCofactor() P
	AffineX() (F, error)
	AffineY() (F, error)
}

type feI[F any] interface {
	Add(F) F
	Sub(F) F
	Mul(F) F
	Neg() F
	Square() F
	TryInv() (F, error)
	Equal(F) bool
	IsZero() bool
	Bytes() []byte
}

// ---- group adapter ----------------------------------------------------------------------------

type group struct {
	name  string // harness name, e.g. "ed25519/prime"
	model string // model curve id, e.g. "ed25519"
	kind  byte   // 'w' short Weierstrass, 'e' Edwards, 'm' Montgomery view of edwards25519
	prime bool   // the type only holds points of the prime-order subgroup
	n     *big.Int
	cof   *big.Int
	p     *big.Int
	fsize int // bytes per base-field coordinate component
	comps int // 1, or 2 for F_p2

	identity  func() any
	generator func() any
	add, sub  func(a, b any) any
	dbl, neg  func(a any) any
	lowDbl    func(a any) any // the low-level Double formula (used by ScalarMulLowLevel)
	eq        func(a, b any) bool
	isID      func(a any) (isOpIdentity, isZero bool)
	torsFree  func(a any) bool
	clearCof  func(a any) any
	text      func(a any) string
	fromText  func(s string) (any, error)     // builds any point of the curve (low level, no subgroup check)
	rawAffine func(x, y string) (bool, error) // low-level SetAffine verdict on raw coordinates
	apiAffine func(x, y string) (bool, error) // public FromAffine verdict
	scalar    func(k *big.Int) (any, *big.Int, []byte, error)
	smul      func(p any, s any) any
	lowMul    func(p any, b []byte) any
	baseMul   func(s any) any                         // nil when the type has none
	msm       func(ss []any, ps []any) (any, error)   // nil when the type has none
	msmRaw    func(ss [][]byte, ps []any) (any, bool) // MultiScalarMulLowLevel directly
	order     func() *big.Int
	cofactor  func() *big.Int
	fieldOrd  func() *big.Int
	// pkg/base/utils/algebrautils: the generic (big-endian) window / bucket algorithms on this group
	auMul func(p any, k *big.Int) (any, []byte)
	auMSM func(ks []*big.Int, ps []any) (r any, bes [][]byte, panicked bool)
}

func hexZ(x *big.Int) string { return x.Text(16) }

func parseHex(s string) (*big.Int, error) {
	x, ok := new(big.Int).SetString(s, 16)
	if !ok || x.Sign() < 0 {
		return nil, fmt.Errorf("bad hex %q", s)
	}
	return x, nil
}

func splitPoint(s string) (string, string, error) {
	f := strings.Split(s, ",")
	if len(f) != 2 {
		return "", "", fmt.Errorf("bad point %q", s)
	}
	return f[0], f[1], nil
}

type ptC[P algebra.MonoidElement[P], F, S any] interface {
	ptI[P, F, S]
	algebra.MonoidElement[P]
}

type groupCfg[P ptC[P, F, S], F feI[F], S any] struct {
	name, model string
	kind        byte
	prime       bool
	comps       int
	fsize       int
	identity    func() P
	generator   func() P
	coord       func(s string) (F, error) // canonical text -> base-field element (value < p per component)
	coordText   func(F) string
	rawAffine   func(x, y F) (P, bool)
	apiAffine   func(x, y F) (P, error)
	special     func(s string) (P, bool) // points that cannot be built from coordinates
	scalarWide  func(b []byte) (S, error)
	wideSize    int
	sBytesBE    func(S) []byte
	baseMul     func(S) P
	msm         func([]S, []P) (P, error)
	lowMul      func(P, []byte) P
	lowDbl      func(P) P
	msmRaw      func([][]byte, []P) P
	order       func() cardinal.Cardinal
	cofactor    func() cardinal.Cardinal
	fieldOrder  func() cardinal.Cardinal
	mAffineText func(P) string // 'm' kind: text through AffineX/AffineY of the Montgomery view
}

func mkGroup[P ptC[P, F, S], F feI[F], S any](c groupCfg[P, F, S]) *group {
	g := &group{name: c.name, model: c.model, kind: c.kind, prime: c.prime, fsize: c.fsize, comps: c.comps}
	g.order = func() *big.Int { return c.order().Big() }
	g.cofactor = func() *big.Int { return c.cofactor().Big() }
	g.fieldOrd = func() *big.Int { return c.fieldOrder().Big() }
	g.n = g.order()
	g.cof = g.cofactor()
	g.p = g.fieldOrd()
	g.identity = func() any { return c.identity() }
	g.generator = func() any { return c.generator() }
	g.add = func(a, b any) any { return a.(P).Add(b.(P)) }
	g.sub = func(a, b any) any { return a.(P).Sub(b.(P)) }
	g.dbl = func(a any) any { return a.(P).Double() }
	g.neg = func(a any) any { return a.(P).Neg() }
	g.lowDbl = func(a any) any { return c.lowDbl(a.(P)) }
	g.eq = func(a, b any) bool { return a.(P).Equal(b.(P)) }
	g.isID = func(a any) (bool, bool) { return a.(P).IsOpIdentity(), a.(P).IsZero() }
	g.torsFree = func(a any) bool { return a.(P).IsTorsionFree() }
	g.clearCof = func(a any) any { return a.(P).ClearCofactor() }
	g.text = func(a any) string {
		p := a.(P)
		if c.kind == 'm' {
			return c.mAffineText(p)
		}
		if p.IsOpIdentity() {
			if c.kind == 'e' {
				return "0,1"
			}
			return "inf"
		}
		x, err1 := p.AffineX()
		y, err2 := p.AffineY()
		if err1 != nil || err2 != nil {
			return "err"
		}
		return c.coordText(x) + "," + c.coordText(y)
	}
	g.fromText = func(s string) (any, error) {
		if c.special != nil {
			if p, ok := c.special(s); ok {
				return p, nil
			}
		}
		if s == "inf" {
			if c.kind == 'e' {
				return nil, errors.New("inf on an Edwards curve")
			}
			return c.identity(), nil
		}
		xs, ys, err := splitPoint(s)
		if err != nil {
			return nil, err
		}
		if c.kind == 'e' && xs == "0" && ys == "1" {
			return c.identity(), nil
		}
		x, err := c.coord(xs)
		if err != nil {
			return nil, err
		}
		y, err := c.coord(ys)
		if err != nil {
			return nil, err
		}
		p, ok := c.rawAffine(x, y)
		if !ok {
			return nil, fmt.Errorf("%s: not a point: %s", c.name, s)
		}
		return p, nil
	}
	g.rawAffine = func(xs, ys string) (bool, error) {
		x, err := c.coord(xs)
		if err != nil {
			return false, err
		}
		y, err := c.coord(ys)
		if err != nil {
			return false, err
		}
		_, ok := c.rawAffine(x, y)
		return ok, nil
	}
	g.apiAffine = func(xs, ys string) (bool, error) {
		x, err := c.coord(xs)
		if err != nil {
			return false, err
		}
		y, err := c.coord(ys)
		if err != nil {
			return false, err
		}
		_, e := c.apiAffine(x, y)
		return e == nil, nil
	}
	g.scalar = func(k *big.Int) (any, *big.Int, []byte, error) {
		b := k.Bytes()
		if len(b) > c.wideSize {
			return nil, nil, nil, fmt.Errorf("scalar too wide")
		}
		s, err := c.scalarWide(b)
		if err != nil {
			return nil, nil, nil, err
		}
		be := c.sBytesBE(s)
		v := new(big.Int).SetBytes(be)
		le := slices.Clone(be)
		slices.Reverse(le)
		return s, v, le, nil
	}
	g.smul = func(p any, s any) any { return p.(P).ScalarMul(s.(S)) }
	g.lowMul = func(p any, b []byte) any { return c.lowMul(p.(P), b) }
	if c.baseMul != nil {
		g.baseMul = func(s any) any { return c.baseMul(s.(S)) }
	}
	g.auMul = func(p any, k *big.Int) (any, []byte) {
		n, err := num.N().FromBig(k)
		if err != nil {
			panic(err)
		}
		return algebrautils.ScalarMul(p.(P), n), n.BytesBE()
	}
	g.auMSM = func(ks []*big.Int, ps []any) (r any, bes [][]byte, panicked bool) {
		ns := make([]*num.Nat, len(ks))
		for i, k := range ks {
			n, err := num.N().FromBig(k)
			if err != nil {
				panic(err)
			}
			ns[i] = n
			bes = append(bes, n.BytesBE())
		}
		p2 := make([]P, len(ps))
		for i := range ps {
			p2[i] = ps[i].(P)
		}
		defer func() {
			if recover() != nil {
				r, panicked = nil, true
			}
		}()
		return algebrautils.MultiScalarMul(ns, p2), bes, false
	}
	if c.msm != nil {
		g.msm = func(ss []any, ps []any) (any, error) {
			var s2 []S
			var p2 []P
			if ss != nil {
				s2 = make([]S, len(ss))
				for i := range ss {
					s2[i] = ss[i].(S)
				}
			}
			if ps != nil {
				p2 = make([]P, len(ps))
				for i := range ps {
					p2[i] = ps[i].(P)
				}
			}
			return c.msm(s2, p2)
		}
	}
	if c.msmRaw != nil {
		g.msmRaw = func(ss [][]byte, ps []any) (r any, ok bool) {
			p2 := make([]P, len(ps))
			for i := range ps {
				p2[i] = ps[i].(P)
			}
			defer func() {
				if recover() != nil {
					r, ok = nil, false
				}
			}()
			return c.msmRaw(ss, p2), true
		}
	}
	return g
}

// ---- field adapter -----------------------------------------------------------------------------

type field struct {
	name     string // model field id, e.g. "k256.p"
	mod      *big.Int
	comps    int
	size     int
	wideSize int
	parse    func(s string) (any, error)
	text     func(a any) string
	add      func(a, b any) any
	sub      func(a, b any) any
	mul      func(a, b any) any
	neg      func(a any) any
	sqr      func(a any) any
	inv      func(a any) (any, bool)
	sqrt     func(a any) (any, bool) // nil if not available
	wide     func(b []byte) (any, bool)
	order    func() *big.Int
}

func beComp(x *big.Int, size int) []byte {
	b := x.Bytes()
	if len(b) > size {
		return nil
	}
	out := make([]byte, size)
	copy(out[size-len(b):], b)
	return out
}

func mkPrimeField[F feI[F]](name string, size, wideSize int, fromBytes func([]byte) (F, error), fromWide func([]byte) (F, error),
	sqrt func(F) (F, bool), order func() cardinal.Cardinal) *field {
	f := &field{name: name, comps: 1, size: size, wideSize: wideSize}
	f.order = func() *big.Int { return order().Big() }
	f.mod = f.order()
	f.parse = func(s string) (any, error) {
		x, err := parseHex(s)
		if err != nil {
			return nil, err
		}
		b := beComp(x, size)
		if b == nil {
			return nil, fmt.Errorf("too large")
		}
		return fromBytes(b)
	}
	f.text = func(a any) string { return hexZ(new(big.Int).SetBytes(a.(F).Bytes())) }
	f.add = func(a, b any) any { return a.(F).Add(b.(F)) }
	f.sub = func(a, b any) any { return a.(F).Sub(b.(F)) }
	f.mul = func(a, b any) any { return a.(F).Mul(b.(F)) }
	f.neg = func(a any) any { return a.(F).Neg() }
	f.sqr = func(a any) any { return a.(F).Square() }
	f.inv = func(a any) (any, bool) {
		r, err := a.(F).TryInv()
		return r, err == nil
	}
	if sqrt != nil {
		f.sqrt = func(a any) (any, bool) { return sqrt(a.(F)) }
	}
	f.wide = func(b []byte) (any, bool) {
		r, err := fromWide(b)
		return r, err == nil
	}
	return f
}

// text of an F_p element wrapper
func feText[F feI[F]](x F) string { return hexZ(new(big.Int).SetBytes(x.Bytes())) }

func feParse[F any](size int, fromBytes func([]byte) (F, error)) func(string) (F, error) {
	return func(s string) (F, error) {
		var zero F
		x, err := parseHex(s)
		if err != nil {
			return zero, err
		}
		b := beComp(x, size)
		if b == nil {
			return zero, fmt.Errorf("coordinate too large")
		}
		return fromBytes(b)
	}
}

// ---- the concrete groups -------------------------------------------------------------------------

func allGroups() []*group {
	var gs []*group

	{ // k256
		c := k256.NewCurve()
		bf := k256.NewBaseField()
		sf := k256.NewScalarField()
		gs = append(gs, mkGroup(groupCfg[*k256.Point, *k256.BaseFieldElement, *k256.Scalar]{
			name: "k256", model: "k256", kind: 'w', prime: true, comps: 1, fsize: bf.ElementSize(),
			identity: c.OpIdentity, generator: c.Generator,
			coord: feParse(bf.ElementSize(), bf.FromBytes), coordText: feText[*k256.BaseFieldElement],
			rawAffine: func(x, y *k256.BaseFieldElement) (*k256.Point, bool) {
				var p k256.Point
				p.V.SetZero()
				ok := p.V.SetAffine(&x.V, &y.V)
				return &p, ok == 1
			},
			apiAffine:  c.FromAffine,
			scalarWide: sf.FromWideBytes, wideSize: sf.WideElementSize(),
			sBytesBE: func(s *k256.Scalar) []byte { return s.Bytes() },
			baseMul:  c.ScalarBaseMul, msm: c.MultiScalarMul,
			lowMul: func(p *k256.Point, b []byte) *k256.Point {
				var r k256.Point
				aimpl.ScalarMulLowLevel(&r.V, &p.V, b)
				return &r
			},
			lowDbl: func(p *k256.Point) *k256.Point {
				var r k256.Point
				r.V.Double(&p.V)
				return &r
			},
			msmRaw: func(ss [][]byte, ps []*k256.Point) *k256.Point {
				var r k256.Point
				pts := make([]*k256Impl.Point, len(ps))
				for i := range ps {
					pts[i] = &ps[i].V
				}
				aimpl.MultiScalarMulLowLevel(&r.V, pts, ss)
				return &r
			},
			order: c.Order, cofactor: c.Cofactor, fieldOrder: bf.Order,
		}))
	}
	{ // p256
		c := p256.NewCurve()
		bf := p256.NewBaseField()
		sf := p256.NewScalarField()
		gs = append(gs, mkGroup(groupCfg[*p256.Point, *p256.BaseFieldElement, *p256.Scalar]{
			name: "p256", model: "p256", kind: 'w', prime: true, comps: 1, fsize: bf.ElementSize(),
			identity: c.OpIdentity, generator: c.Generator,
			coord: feParse(bf.ElementSize(), bf.FromBytes), coordText: feText[*p256.BaseFieldElement],
			rawAffine: func(x, y *p256.BaseFieldElement) (*p256.Point, bool) {
				var p p256.Point
				p.V.SetZero()
				ok := p.V.SetAffine(&x.V, &y.V)
				return &p, ok == 1
			},
			apiAffine:  c.FromAffine,
			scalarWide: sf.FromWideBytes, wideSize: sf.WideElementSize(),
			sBytesBE: func(s *p256.Scalar) []byte { return s.Bytes() },
			baseMul:  c.ScalarBaseMul, msm: c.MultiScalarMul,
			lowMul: func(p *p256.Point, b []byte) *p256.Point {
				var r p256.Point
				aimpl.ScalarMulLowLevel(&r.V, &p.V, b)
				return &r
			},
			lowDbl: func(p *p256.Point) *p256.Point {
				var r p256.Point
				r.V.Double(&p.V)
				return &r
			},
			msmRaw: func(ss [][]byte, ps []*p256.Point) *p256.Point {
				var r p256.Point
				pts := make([]*p256Impl.Point, len(ps))
				for i := range ps {
					pts[i] = &ps[i].V
				}
				aimpl.MultiScalarMulLowLevel(&r.V, pts, ss)
				return &r
			},
			order: c.Order, cofactor: c.Cofactor, fieldOrder: bf.Order,
		}))
	}
	{ // pallas
		c := pasta.NewPallasCurve()
		bf := pasta.NewPallasBaseField()
		sf := pasta.NewPallasScalarField()
		gs = append(gs, mkGroup(groupCfg[*pasta.PallasPoint, *pasta.PallasBaseFieldElement, *pasta.PallasScalar]{
			name: "pallas", model: "pallas", kind: 'w', prime: true, comps: 1, fsize: bf.ElementSize(),
			identity: c.OpIdentity, generator: c.Generator,
			coord: feParse(bf.ElementSize(), bf.FromBytes), coordText: feText[*pasta.PallasBaseFieldElement],
			rawAffine: func(x, y *pasta.PallasBaseFieldElement) (*pasta.PallasPoint, bool) {
				var p pasta.PallasPoint
				p.V.SetZero()
				ok := p.V.SetAffine(&x.V, &y.V)
				return &p, ok == 1
			},
			apiAffine:  c.FromAffine,
			scalarWide: sf.FromWideBytes, wideSize: sf.WideElementSize(),
			sBytesBE: func(s *pasta.PallasScalar) []byte { return s.Bytes() },
			baseMul:  c.ScalarBaseMul, msm: c.MultiScalarMul,
			lowMul: func(p *pasta.PallasPoint, b []byte) *pasta.PallasPoint {
				var r pasta.PallasPoint
				aimpl.ScalarMulLowLevel(&r.V, &p.V, b)
				return &r
			},
			lowDbl: func(p *pasta.PallasPoint) *pasta.PallasPoint {
				var r pasta.PallasPoint
				r.V.Double(&p.V)
				return &r
			},
			msmRaw: func(ss [][]byte, ps []*pasta.PallasPoint) *pasta.PallasPoint {
				var r pasta.PallasPoint
				pts := make([]*pastaImpl.PallasPoint, len(ps))
				for i := range ps {
					pts[i] = &ps[i].V
				}
				aimpl.MultiScalarMulLowLevel(&r.V, pts, ss)
				return &r
			},
			order: c.Order, cofactor: c.Cofactor, fieldOrder: bf.Order,
		}))
	}
	{ // vesta
		c := pasta.NewVestaCurve()
		bf := pasta.NewVestaBaseField()
		sf := pasta.NewVestaScalarField()
		gs = append(gs, mkGroup(groupCfg[*pasta.VestaPoint, *pasta.VestaBaseFieldElement, *pasta.VestaScalar]{
			name: "vesta", model: "vesta", kind: 'w', prime: true, comps: 1, fsize: bf.ElementSize(),
			identity: c.OpIdentity, generator: c.Generator,
			coord: feParse(bf.ElementSize(), bf.FromBytes), coordText: feText[*pasta.VestaBaseFieldElement],
			rawAffine: func(x, y *pasta.VestaBaseFieldElement) (*pasta.VestaPoint, bool) {
				var p pasta.VestaPoint
				p.V.SetZero()
				ok := p.V.SetAffine(&x.V, &y.V)
				return &p, ok == 1
			},
			apiAffine:  c.FromAffine,
			scalarWide: sf.FromWideBytes, wideSize: sf.WideElementSize(),
			sBytesBE: func(s *pasta.VestaScalar) []byte { return s.Bytes() },
			baseMul:  c.ScalarBaseMul, msm: c.MultiScalarMul,
			lowMul: func(p *pasta.VestaPoint, b []byte) *pasta.VestaPoint {
				var r pasta.VestaPoint
				aimpl.ScalarMulLowLevel(&r.V, &p.V, b)
				return &r
			},
			lowDbl: func(p *pasta.VestaPoint) *pasta.VestaPoint {
				var r pasta.VestaPoint
				r.V.Double(&p.V)
				return &r
			},
			msmRaw: func(ss [][]byte, ps []*pasta.VestaPoint) *pasta.VestaPoint {
				var r pasta.VestaPoint
				pts := make([]*pastaImpl.VestaPoint, len(ps))
				for i := range ps {
					pts[i] = &ps[i].V
				}
				aimpl.MultiScalarMulLowLevel(&r.V, pts, ss)
				return &r
			},
			order: c.Order, cofactor: c.Cofactor, fieldOrder: bf.Order,
		}))
	}
	{ // BLS12-381 G1
		c := bls12381.NewG1()
		bf := bls12381.NewG1BaseField()
		sf := bls12381.NewScalarField()
		gs = append(gs, mkGroup(groupCfg[*bls12381.PointG1, *bls12381.BaseFieldElementG1, *bls12381.Scalar]{
			name: "g1", model: "g1", kind: 'w', prime: false, comps: 1, fsize: bf.ElementSize(),
			identity: c.OpIdentity, generator: c.Generator,
			coord: feParse(bf.ElementSize(), bf.FromBytes), coordText: feText[*bls12381.BaseFieldElementG1],
			rawAffine: func(x, y *bls12381.BaseFieldElementG1) (*bls12381.PointG1, bool) {
				var p bls12381.PointG1
				p.V.SetZero()
				ok := p.V.SetAffine(&x.V, &y.V)
				return &p, ok == 1
			},
			apiAffine:  c.FromAffine,
			scalarWide: sf.FromWideBytes, wideSize: sf.WideElementSize(),
			sBytesBE: func(s *bls12381.Scalar) []byte { return s.Bytes() },
			baseMul:  c.ScalarBaseMul, msm: c.MultiScalarMul,
			lowMul: func(p *bls12381.PointG1, b []byte) *bls12381.PointG1 {
				var r bls12381.PointG1
				aimpl.ScalarMulLowLevel(&r.V, &p.V, b)
				return &r
			},
			lowDbl: func(p *bls12381.PointG1) *bls12381.PointG1 {
				var r bls12381.PointG1
				r.V.Double(&p.V)
				return &r
			},
			msmRaw: func(ss [][]byte, ps []*bls12381.PointG1) *bls12381.PointG1 {
				var r bls12381.PointG1
				pts := make([]*blsImpl.G1Point, len(ps))
				for i := range ps {
					pts[i] = &ps[i].V
				}
				aimpl.MultiScalarMulLowLevel(&r.V, pts, ss)
				return &r
			},
			order: c.Order, cofactor: c.Cofactor, fieldOrder: bf.Order,
		}))
	}
	{ // BLS12-381 G2 (coordinates in F_p2, text c0:c1)
		c := bls12381.NewG2()
		bf := bls12381.NewG2BaseField()
		sf := bls12381.NewScalarField()
		half := bf.ElementSize() / 2
		coord := func(s string) (*bls12381.BaseFieldElementG2, error) {
			f := strings.Split(s, ":")
			if len(f) != 2 {
				return nil, fmt.Errorf("bad fp2 %q", s)
			}
			c0, err := parseHex(f[0])
			if err != nil {
				return nil, err
			}
			c1, err := parseHex(f[1])
			if err != nil {
				return nil, err
			}
			b0, b1 := beComp(c0, half), beComp(c1, half)
			if b0 == nil || b1 == nil {
				return nil, fmt.Errorf("coordinate too large")
			}
			return bf.FromComponentsBytes([][]byte{b0, b1})
		}
		gs = append(gs, mkGroup(groupCfg[*bls12381.PointG2, *bls12381.BaseFieldElementG2, *bls12381.Scalar]{
			name: "g2", model: "g2", kind: 'w', prime: false, comps: 2, fsize: half,
			identity: c.OpIdentity, generator: c.Generator,
			coord: coord, coordText: fp2Text,
			rawAffine: func(x, y *bls12381.BaseFieldElementG2) (*bls12381.PointG2, bool) {
				var p bls12381.PointG2
				p.V.SetZero()
				ok := p.V.SetAffine(&x.V, &y.V)
				return &p, ok == 1
			},
			apiAffine:  c.FromAffine,
			scalarWide: sf.FromWideBytes, wideSize: sf.WideElementSize(),
			sBytesBE: func(s *bls12381.Scalar) []byte { return s.Bytes() },
			baseMul:  c.ScalarBaseMul, msm: c.MultiScalarMul,
			lowMul: func(p *bls12381.PointG2, b []byte) *bls12381.PointG2 {
				var r bls12381.PointG2
				aimpl.ScalarMulLowLevel(&r.V, &p.V, b)
				return &r
			},
			lowDbl: func(p *bls12381.PointG2) *bls12381.PointG2 {
				var r bls12381.PointG2
				r.V.Double(&p.V)
				return &r
			},
			msmRaw: func(ss [][]byte, ps []*bls12381.PointG2) *bls12381.PointG2 {
				var r bls12381.PointG2
				pts := make([]*blsImpl.G2Point, len(ps))
				for i := range ps {
					pts[i] = &ps[i].V
				}
				aimpl.MultiScalarMulLowLevel(&r.V, pts, ss)
				return &r
			},
			order: c.Order, cofactor: c.Cofactor,
			fieldOrder: func() cardinal.Cardinal { return bls12381.NewG1BaseField().Order() },
		}))
	}
	{ // edwards25519, the whole curve (cofactor 8)
		c := edwards25519.NewCurve()
		bf := edwards25519.NewBaseField()
		sf := edwards25519.NewScalarField()
		gs = append(gs, mkGroup(groupCfg[*edwards25519.Point, *edwards25519.BaseFieldElement, *edwards25519.Scalar]{
			name: "ed25519/full", model: "ed25519", kind: 'e', prime: false, comps: 1, fsize: bf.ElementSize(),
			identity: c.OpIdentity, generator: c.PrimeSubGroupGenerator,
			coord: feParse(bf.ElementSize(), bf.FromBytes), coordText: feText[*edwards25519.BaseFieldElement],
			rawAffine: func(x, y *edwards25519.BaseFieldElement) (*edwards25519.Point, bool) {
				var p edwards25519.Point
				p.V.SetZero()
				ok := p.V.SetAffine(&x.V, &y.V)
				return &p, ok == 1
			},
			apiAffine:  c.FromAffine,
			scalarWide: sf.FromWideBytes, wideSize: sf.WideElementSize(),
			sBytesBE: func(s *edwards25519.Scalar) []byte { return s.Bytes() },
			msm:      c.MultiScalarMul,
			lowMul: func(p *edwards25519.Point, b []byte) *edwards25519.Point {
				var r edwards25519.Point
				aimpl.ScalarMulLowLevel(&r.V, &p.V, b)
				return &r
			},
			lowDbl: func(p *edwards25519.Point) *edwards25519.Point {
				var r edwards25519.Point
				r.V.Double(&p.V)
				return &r
			},
			msmRaw: func(ss [][]byte, ps []*edwards25519.Point) *edwards25519.Point {
				var r edwards25519.Point
				pts := make([]*edImpl.Point, len(ps))
				for i := range ps {
					pts[i] = &ps[i].V
				}
				aimpl.MultiScalarMulLowLevel(&r.V, pts, ss)
				return &r
			},
			order: c.Order, cofactor: c.Cofactor, fieldOrder: bf.Order,
		}))
	}
	{ // edwards25519 prime-order subgroup type
		c := edwards25519.NewPrimeSubGroup()
		bf := edwards25519.NewBaseField()
		sf := edwards25519.NewScalarField()
		gs = append(gs, mkGroup(groupCfg[*edwards25519.PrimeSubGroupPoint, *edwards25519.BaseFieldElement, *edwards25519.Scalar]{
			name: "ed25519/prime", model: "ed25519", kind: 'e', prime: true, comps: 1, fsize: bf.ElementSize(),
			identity: c.OpIdentity, generator: c.Generator,
			coord: feParse(bf.ElementSize(), bf.FromBytes), coordText: feText[*edwards25519.BaseFieldElement],
			rawAffine: func(x, y *edwards25519.BaseFieldElement) (*edwards25519.PrimeSubGroupPoint, bool) {
				var p edwards25519.PrimeSubGroupPoint
				p.V.SetZero()
				ok := p.V.SetAffine(&x.V, &y.V)
				return &p, ok == 1
			},
			apiAffine:  c.FromAffine,
			scalarWide: sf.FromWideBytes, wideSize: sf.WideElementSize(),
			sBytesBE: func(s *edwards25519.Scalar) []byte { return s.Bytes() },
			baseMul:  c.ScalarBaseMul, msm: c.MultiScalarMul,
			lowMul: func(p *edwards25519.PrimeSubGroupPoint, b []byte) *edwards25519.PrimeSubGroupPoint {
				var r edwards25519.PrimeSubGroupPoint
				aimpl.ScalarMulLowLevel(&r.V, &p.V, b)
				return &r
			},
			lowDbl: func(p *edwards25519.PrimeSubGroupPoint) *edwards25519.PrimeSubGroupPoint {
				var r edwards25519.PrimeSubGroupPoint
				r.V.Double(&p.V)
				return &r
			},
			msmRaw: func(ss [][]byte, ps []*edwards25519.PrimeSubGroupPoint) *edwards25519.PrimeSubGroupPoint {
				var r edwards25519.PrimeSubGroupPoint
				pts := make([]*edImpl.Point, len(ps))
				for i := range ps {
					pts[i] = &ps[i].V
				}
				aimpl.MultiScalarMulLowLevel(&r.V, pts, ss)
				return &r
			},
			order: c.Order, cofactor: c.Cofactor, fieldOrder: bf.Order,
		}))
	}
	{ // curve25519: the Montgomery view (AffineX/AffineY = (u,v)) of an edwards25519 point
		c := curve25519.NewCurve()
		bf := curve25519.NewBaseField()
		sf := curve25519.NewScalarField()
		mtext := func(p *curve25519.Point) string {
			if p.IsOpIdentity() {
				return "inf"
			}
			u, err := p.AffineX()
			if err != nil {
				return "err"
			}
			v, err := p.AffineY()
			if err != nil {
				if u.IsZero() { // the point of order two (0,0): x - t = 0 in the Edwards view
					return "0,0"
				}
				return hexZ(new(big.Int).SetBytes(u.Bytes())) + ",err"
			}
			return feText(u) + "," + feText(v)
		}
		gs = append(gs, mkGroup(groupCfg[*curve25519.Point, *curve25519.BaseFieldElement, *curve25519.Scalar]{
			name: "curve25519/full", model: "curve25519", kind: 'm', prime: false, comps: 1, fsize: bf.ElementSize(),
			identity: c.OpIdentity, generator: c.PrimeSubGroupGenerator,
			coord: feParse(bf.ElementSize(), bf.FromBytes), coordText: feText[*curve25519.BaseFieldElement],
			rawAffine: func(x, y *curve25519.BaseFieldElement) (*curve25519.Point, bool) {
				p, err := c.FromAffine(x, y)
				return p, err == nil
			},
			apiAffine: c.FromAffine,
			special: func(s string) (*curve25519.Point, bool) {
				if s != "0,0" {
					return nil, false
				}
				one := make([]byte, 32)
				one[0] = 1 // u = 1 (little endian): a point of order four; its double is (0,0)
				q, err := c.FromCompressed(one)
				if err != nil {
					return nil, false
				}
				return q.Double(), true
			},
			scalarWide: sf.FromWideBytes, wideSize: sf.WideElementSize(),
			sBytesBE: func(s *curve25519.Scalar) []byte { return s.Bytes() },
			lowMul: func(p *curve25519.Point, b []byte) *curve25519.Point {
				var r curve25519.Point
				aimpl.ScalarMulLowLevel(&r.V, &p.V, b)
				return &r
			},
			lowDbl: func(p *curve25519.Point) *curve25519.Point {
				var r curve25519.Point
				r.V.Double(&p.V)
				return &r
			},
			order: c.Order, cofactor: c.Cofactor, fieldOrder: bf.Order,
			mAffineText: mtext,
		}))
	}
	{ // curve25519 prime-order subgroup type
		c := curve25519.NewPrimeSubGroup()
		bf := curve25519.NewBaseField()
		sf := curve25519.NewScalarField()
		mtext := func(p *curve25519.PrimeSubGroupPoint) string {
			if p.IsOpIdentity() {
				return "inf"
			}
			u, err := p.AffineX()
			if err != nil {
				return "err"
			}
			v, err := p.AffineY()
			if err != nil {
				return feText(u) + ",err"
			}
			return feText(u) + "," + feText(v)
		}
		gs = append(gs, mkGroup(groupCfg[*curve25519.PrimeSubGroupPoint, *curve25519.BaseFieldElement, *curve25519.Scalar]{
			name: "curve25519/prime", model: "curve25519", kind: 'm', prime: true, comps: 1, fsize: bf.ElementSize(),
			identity: c.OpIdentity, generator: c.Generator,
			coord: feParse(bf.ElementSize(), bf.FromBytes), coordText: feText[*curve25519.BaseFieldElement],
			rawAffine: func(x, y *curve25519.BaseFieldElement) (*curve25519.PrimeSubGroupPoint, bool) {
				p, err := c.FromAffine(x, y)
				return p, err == nil
			},
			apiAffine:  c.FromAffine,
			scalarWide: sf.FromWideBytes, wideSize: sf.WideElementSize(),
			sBytesBE: func(s *curve25519.Scalar) []byte { return s.Bytes() },
			baseMul:  c.ScalarBaseMul,
			lowMul: func(p *curve25519.PrimeSubGroupPoint, b []byte) *curve25519.PrimeSubGroupPoint {
				var r curve25519.PrimeSubGroupPoint
				aimpl.ScalarMulLowLevel(&r.V, &p.V, b)
				return &r
			},
			lowDbl: func(p *curve25519.PrimeSubGroupPoint) *curve25519.PrimeSubGroupPoint {
				var r curve25519.PrimeSubGroupPoint
				r.V.Double(&p.V)
				return &r
			},
			order: c.Order, cofactor: c.Cofactor, fieldOrder: bf.Order,
			mAffineText: mtext,
		}))
	}
	return gs
}

func fp2Text(x *bls12381.BaseFieldElementG2) string {
	cb := x.ComponentsBytes()
	return hexZ(new(big.Int).SetBytes(cb[0])) + ":" + hexZ(new(big.Int).SetBytes(cb[1]))
}

// ---- the concrete fields ---------------------------------------------------------------------------

func allFields() []*field {
	var fs []*field
	{
		bf, sf := k256.NewBaseField(), k256.NewScalarField()
		fs = append(fs, mkPrimeField("k256.p", bf.ElementSize(), bf.WideElementSize(), bf.FromBytes, bf.FromWideBytes,
			func(x *k256.BaseFieldElement) (*k256.BaseFieldElement, bool) {
				var r k256.BaseFieldElement
				ok := r.V.Sqrt(&x.V)
				return &r, ok == 1
			}, bf.Order))
		fs = append(fs, mkPrimeField("k256.n", sf.ElementSize(), sf.WideElementSize(), sf.FromBytes, sf.FromWideBytes,
			func(x *k256.Scalar) (*k256.Scalar, bool) {
				var r k256.Scalar
				ok := r.V.Sqrt(&x.V)
				return &r, ok == 1
			}, sf.Order))
	}
	{
		bf, sf := p256.NewBaseField(), p256.NewScalarField()
		fs = append(fs, mkPrimeField("p256.p", bf.ElementSize(), bf.WideElementSize(), bf.FromBytes, bf.FromWideBytes,
			func(x *p256.BaseFieldElement) (*p256.BaseFieldElement, bool) {
				var r p256.BaseFieldElement
				ok := r.V.Sqrt(&x.V)
				return &r, ok == 1
			}, bf.Order))
		fs = append(fs, mkPrimeField("p256.n", sf.ElementSize(), sf.WideElementSize(), sf.FromBytes, sf.FromWideBytes,
			func(x *p256.Scalar) (*p256.Scalar, bool) {
				var r p256.Scalar
				ok := r.V.Sqrt(&x.V)
				return &r, ok == 1
			}, sf.Order))
	}
	{
		bf, sf := pasta.NewPallasBaseField(), pasta.NewPallasScalarField()
		fs = append(fs, mkPrimeField("pallas.p", bf.ElementSize(), bf.WideElementSize(), bf.FromBytes, bf.FromWideBytes,
			func(x *pasta.FpFieldElement) (*pasta.FpFieldElement, bool) {
				var r pasta.FpFieldElement
				ok := r.V.Sqrt(&x.V)
				return &r, ok == 1
			}, bf.Order))
		fs = append(fs, mkPrimeField("pallas.n", sf.ElementSize(), sf.WideElementSize(), sf.FromBytes, sf.FromWideBytes,
			func(x *pasta.FqFieldElement) (*pasta.FqFieldElement, bool) {
				var r pasta.FqFieldElement
				ok := r.V.Sqrt(&x.V)
				return &r, ok == 1
			}, sf.Order))
	}
	{
		bf, sf := bls12381.NewG1BaseField(), bls12381.NewScalarField()
		fs = append(fs, mkPrimeField("g1.p", bf.ElementSize(), bf.WideElementSize(), bf.FromBytes, bf.FromWideBytes,
			func(x *bls12381.BaseFieldElementG1) (*bls12381.BaseFieldElementG1, bool) {
				var r bls12381.BaseFieldElementG1
				ok := r.V.Sqrt(&x.V)
				return &r, ok == 1
			}, bf.Order))
		fs = append(fs, mkPrimeField("g1.n", sf.ElementSize(), sf.WideElementSize(), sf.FromBytes, sf.FromWideBytes,
			func(x *bls12381.Scalar) (*bls12381.Scalar, bool) {
				var r bls12381.Scalar
				ok := r.V.Sqrt(&x.V)
				return &r, ok == 1
			}, sf.Order))
	}
	{
		bf, sf := edwards25519.NewBaseField(), edwards25519.NewScalarField()
		fs = append(fs, mkPrimeField("ed25519.p", bf.ElementSize(), bf.WideElementSize(), bf.FromBytes, bf.FromWideBytes,
			func(x *edwards25519.BaseFieldElement) (*edwards25519.BaseFieldElement, bool) {
				var r edwards25519.BaseFieldElement
				ok := r.V.Sqrt(&x.V)
				return &r, ok == 1
			}, bf.Order))
		fs = append(fs, mkPrimeField("ed25519.n", sf.ElementSize(), sf.WideElementSize(), sf.FromBytes, sf.FromWideBytes,
			func(x *edwards25519.Scalar) (*edwards25519.Scalar, bool) {
				var r edwards25519.Scalar
				ok := r.V.Sqrt(&x.V)
				return &r, ok == 1
			}, sf.Order))
	}
	{ // F_p2 of BLS12-381 G2
		bf := bls12381.NewG2BaseField()
		half := bf.ElementSize() / 2
		f := &field{name: "g2.p2", comps: 2, size: half, wideSize: -1}
		f.order = func() *big.Int { return bls12381.NewG1BaseField().Order().Big() }
		f.mod = f.order()
		f.parse = func(s string) (any, error) {
			ff := strings.Split(s, ":")
			if len(ff) != 2 {
				return nil, fmt.Errorf("bad fp2 %q", s)
			}
			c0, err := parseHex(ff[0])
			if err != nil {
				return nil, err
			}
			c1, err := parseHex(ff[1])
			if err != nil {
				return nil, err
			}
			b0, b1 := beComp(c0, half), beComp(c1, half)
			if b0 == nil || b1 == nil {
				return nil, fmt.Errorf("too large")
			}
			return bf.FromComponentsBytes([][]byte{b0, b1})
		}
		type E = *bls12381.BaseFieldElementG2
		f.text = func(a any) string { return fp2Text(a.(E)) }
		f.add = func(a, b any) any { return a.(E).Add(b.(E)) }
		f.sub = func(a, b any) any { return a.(E).Sub(b.(E)) }
		f.mul = func(a, b any) any { return a.(E).Mul(b.(E)) }
		f.neg = func(a any) any { return a.(E).Neg() }
		f.sqr = func(a any) any { return a.(E).Square() }
		f.inv = func(a any) (any, bool) {
			r, err := a.(E).TryInv()
			return r, err == nil
		}
		f.sqrt = func(a any) (any, bool) {
			var r bls12381.BaseFieldElementG2
			ok := r.V.Sqrt(&a.(E).V)
			// the same call with the receiver aliasing the argument must give the same answer
			al := a.(E).Clone()
			ok2 := al.V.Sqrt(&al.V)
			if ok != ok2 || (ok == 1 && !al.Equal(&r)) {
				panic("Sqrt(&f) with aliased receiver differs from Sqrt into a fresh element")
			}
			return &r, ok == 1
		}
		fs = append(fs, f)
	}
	return fs
}
