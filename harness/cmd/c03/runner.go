package main

import (
	"context"
	"fmt"
	"sort"
	"sync"
	"time"

	"github.com/bronlabs/bron-crypto/pkg/base/algebra"
	"github.com/bronlabs/bron-crypto/pkg/mpc"
	rcan "github.com/bronlabs/bron-crypto/pkg/mpc/dkg/canetti"
	rgen "github.com/bronlabs/bron-crypto/pkg/mpc/dkg/gennaro"
	rsess "github.com/bronlabs/bron-crypto/pkg/mpc/session"
	"github.com/bronlabs/bron-crypto/pkg/mpc/sharing"
	"github.com/bronlabs/bron-crypto/pkg/network"

	"verif/harness/internal/drive"
	dcan "verif/harness/internal/drive/canetti"
	dgen "verif/harness/internal/drive/gennaro"
	dsess "verif/harness/internal/drive/session"
	"verif/harness/internal/vh"
)

// ---- an in-memory delivery (buffered channels), after pkg/network/testutils.MockCoordinator ------

type memMsg struct {
	from    sharing.ID
	payload []byte
}

type memHub struct{ ch map[sharing.ID]chan memMsg }

func newHub(ids []sharing.ID) *memHub {
	h := &memHub{ch: map[sharing.ID]chan memMsg{}}
	for _, id := range ids {
		h.ch[id] = make(chan memMsg, 1024)
	}
	return h
}

type memDelivery struct {
	id  sharing.ID
	ids []sharing.ID
	hub *memHub
}

func (d *memDelivery) PartyID() sharing.ID  { return d.id }
func (d *memDelivery) Quorum() []sharing.ID { return append([]sharing.ID(nil), d.ids...) }
func (d *memDelivery) Send(ctx context.Context, to sharing.ID, message []byte) error {
	c, ok := d.hub.ch[to]
	if !ok || to == d.id {
		return fmt.Errorf("no channel for recipient %d", uint64(to))
	}
	m := memMsg{from: d.id, payload: append([]byte(nil), message...)}
	select {
	case <-ctx.Done():
		return ctx.Err()
	case c <- m:
		return nil
	}
}
func (d *memDelivery) Receive(ctx context.Context) (sharing.ID, []byte, error) {
	select {
	case <-ctx.Done():
		return 0, nil, ctx.Err()
	case m := <-d.hub.ch[d.id]:
		return m.from, m.payload, nil
	}
}

// runRunners executes one runner per party concurrently over the in-memory delivery. The tape
// mark of a party follows its round-completed notifications ("r1" until round 1 completed, ...).
func runRunners[O any](tr *drive.Trace, ids []sharing.ID, mk func(id sharing.ID, prng *dgen.LockedReader) (network.Runner[O], error)) map[sharing.ID]O {
	hub := newHub(ids)
	out := map[sharing.ID]O{}
	var mu sync.Mutex
	var wg sync.WaitGroup
	ctx, cancel := context.WithTimeout(context.Background(), 10*time.Minute)
	defer cancel()
	for _, id := range ids {
		wg.Add(1)
		go func() {
			defer wg.Done()
			tape := tr.Tapes[id]
			var o O
			var err error
			pn := vh.Safely(func() {
				var r network.Runner[O]
				r, err = mk(id, &dgen.LockedReader{R: tape})
				if err != nil {
					return
				}
				rt := network.NewRouter(&memDelivery{id: id, ids: ids, hub: hub})
				defer rt.Close()
				tape.Mark = "r1"
				o, err = r.Run(ctx, rt, func(n network.Notification) {
					if rc, ok := n.(*network.RoundCompletedNotification); ok {
						tape.Mark = fmt.Sprintf("r%d", rc.Round()+1)
					}
				})
			})
			mu.Lock()
			defer mu.Unlock()
			v := drive.Classify(0, err)
			if pn != "" {
				v = drive.Verdict{Class: "panic", Detail: pn}
				cancel()
			}
			tr.Verdicts[id] = v
			if v.Class == "ok" {
				out[id] = o
			} else {
				cancel()
			}
		}()
	}
	wg.Wait()
	return out
}

func runnerSetup(seed int64, prop string, ids []sharing.ID, tr *drive.Trace) map[sharing.ID]*rsess.Context {
	st := dsess.RunFull(dsess.Config{Seed: seed, Prop: prop + "/session", Quorum: ids})
	for _, id := range ids {
		tape := drive.NewTape(vh.NewRng(seed, prop, "tape/a", int(id)))
		tape.Mark = "r0"
		tr.Tapes[id] = tape
	}
	return st.Ctx
}

func sortedHolders(l []sharing.ID) []sharing.ID {
	sort.Slice(l, func(i, j int) bool { return l[i] < l[j] })
	return l
}

// gennaroRunner runs gennaro.NewRunner for every party over the in-memory delivery, on the same
// tapes and session contexts as the round-by-round driver would use for cfg.
func gennaroRunner[E algebra.PrimeGroupElement[E, S], S algebra.PrimeFieldElement[S]](cfg dgen.Config[E, S]) *dgen.Result[E, S] {
	tr := drive.NewTrace("gennaro-runner")
	ids := sortedHolders(cfg.AC.Shareholders().List())
	ctxs := runnerSetup(cfg.Seed, cfg.Prop, ids, tr)
	shards := runRunners(tr, ids, func(id sharing.ID, prng *dgen.LockedReader) (network.Runner[*mpc.BaseShard[E, S]], error) {
		if ctxs[id] == nil {
			return nil, fmt.Errorf("no session context")
		}
		ac := cfg.AC
		if a, ok := cfg.ACs[id]; ok && a != nil {
			ac = a
		}
		return rgen.NewRunner(ctxs[id], cfg.Group, ac, cfg.Compiler, prng)
	})
	for id, sh := range shards {
		tr.Outputs[id] = dgen.ShardText(sh)
	}
	return &dgen.Result[E, S]{Trace: tr, IDs: ids, Shards: shards}
}

func canettiRunner[E algebra.PrimeGroupElement[E, S], S algebra.PrimeFieldElement[S]](cfg dcan.Config[E, S]) *dcan.Result[E, S] {
	tr := drive.NewTrace("canetti-runner")
	ids := sortedHolders(cfg.AC.Shareholders().List())
	ctxs := runnerSetup(cfg.Seed, cfg.Prop, ids, tr)
	shards := runRunners(tr, ids, func(id sharing.ID, prng *dgen.LockedReader) (network.Runner[*mpc.BaseShard[E, S]], error) {
		if ctxs[id] == nil {
			return nil, fmt.Errorf("no session context")
		}
		ac := cfg.AC
		if a, ok := cfg.ACs[id]; ok && a != nil {
			ac = a
		}
		return rcan.NewRunner(ctxs[id], ac, cfg.Group, prng)
	})
	for id, sh := range shards {
		tr.Outputs[id] = dgen.ShardText(sh)
	}
	return &dcan.Result[E, S]{Trace: tr, IDs: ids, Shards: shards}
}
