package main

// Store / reload of every serialisable key-material object a run produces.
//
// For the key of the run (one party in the quick tier, every party in the thorough tier) the
// objects are: *mpc.BaseShard, *mpc.BasePublicMaterial on its own, and the scheme-specific
// wrappers that can be built from them: schnorr.Shard / schnorr.PublicMaterial (lindell22; every
// group), dkls23.Shard (k256, p256), bls.Shard / bls.PublicMaterial (boldyreva; G1 short-key and
// G2 long-key).  lindell17 / cggmp21 shards need Paillier auxiliary material and are not built.
// In the quick tier the base objects are always exercised and the wrapper families rotate with the
// case index.
//
// Each object is marshalled and reloaded (a) into a fresh zero value (serde.UnmarshalCBOR) and
// (b) into a value that holds the key of a DIFFERENT run (another dealing on the same structure)
// and whose accessors have been used.  Every public accessor is compared before / after
// (PublicKeyValue, VerificationVector, MSP matrix + labelling, Shareholders, PublicKeyShares of
// every holder, Share, the wrapper's PublicKey()), the reloaded value must re-encode to the same
// bytes, and the property predicates are re-evaluated on the reloaded value (share·G = reloaded
// public share of that holder; the reloaded public shares reconstruct the reloaded public key in
// the exponent).

import (
	"fmt"
	"sort"
	"strings"

	"github.com/bronlabs/bron-crypto/pkg/base/algebra"
	"github.com/bronlabs/bron-crypto/pkg/base/curves"
	ds "github.com/bronlabs/bron-crypto/pkg/base/datastructures"
	"github.com/bronlabs/bron-crypto/pkg/base/serde"
	"github.com/bronlabs/bron-crypto/pkg/mpc"
	"github.com/bronlabs/bron-crypto/pkg/mpc/sharing"
	"github.com/bronlabs/bron-crypto/pkg/mpc/sharing/scheme/kw/msp"
	"github.com/bronlabs/bron-crypto/pkg/mpc/sharing/vss/feldman"
	mbls "github.com/bronlabs/bron-crypto/pkg/mpc/signatures/bls"
	"github.com/bronlabs/bron-crypto/pkg/mpc/signatures/ecdsa/dkls23"
	mschnorr "github.com/bronlabs/bron-crypto/pkg/mpc/signatures/schnorr"

	"verif/harness/internal/vh"
)

// kmFail is one accessor / predicate that differs after a reload.
type kmFail struct {
	obj, mode, accessor, detail string
}

// pubAcc is what every key-material object exposes (all of them embed the base types).
type pubAcc[E algebra.PrimeGroupElement[E, S], S algebra.PrimeFieldElement[S]] interface {
	PublicKeyValue() E
	VerificationVector() *feldman.VerificationVector[E, S]
	MSP() *msp.MSP[S]
	PublicKeyShares() ds.Map[sharing.ID, *feldman.LiftedShare[E, S]]
}

type kmEnv[E algebra.PrimeGroupElement[E, S], S algebra.PrimeFieldElement[S]] struct {
	G       E
	holders []sharing.ID
	scheme  *feldman.Scheme[E, S]
}

type accessor struct{ name, val string }

// snapshot renders every public accessor of one object as canonical text; a panicking or nil
// accessor is an observable value ("PANIC…", "nil").
func snapshot[E algebra.PrimeGroupElement[E, S], S algebra.PrimeFieldElement[S]](env kmEnv[E, S], p pubAcc[E, S], share *feldman.Share[S], extraName, extraVal string) []accessor {
	var out []accessor
	add := func(name string, f func() string) {
		v := ""
		if pn := vh.Safely(func() { v = f() }); pn != "" {
			v = "PANIC " + pn
		}
		out = append(out, accessor{name, v})
	}
	add("PublicKeyValue", func() string { return vh.Hex(p.PublicKeyValue().Bytes()) })
	add("VerificationVector", func() string {
		var vv []string
		for e := range p.VerificationVector().Value().Iter() {
			vv = append(vv, vh.Hex(e.Bytes()))
		}
		return strings.Join(vv, ",")
	})
	add("MSP", func() string {
		m := p.MSP()
		rows, cols := m.Matrix().Dimensions()
		var sb strings.Builder
		fmt.Fprintf(&sb, "%dx%d:", rows, cols)
		for i := 0; i < rows; i++ {
			id, _ := m.RowsToHolders().Get(i)
			fmt.Fprintf(&sb, "%d[", uint64(id))
			for j := 0; j < cols; j++ {
				e, _ := m.Matrix().Get(i, j)
				sb.WriteString(vh.ZHex(bigOf(e)) + " ")
			}
			sb.WriteString("]")
		}
		return sb.String()
	})
	add("MSP.Shareholders", func() string {
		l := p.MSP().Shareholders().List()
		sort.Slice(l, func(i, j int) bool { return l[i] < l[j] })
		return fmt.Sprint(l)
	})
	add("PublicKeyShares.Size", func() string {
		m := p.PublicKeyShares()
		if m == nil {
			return "nil"
		}
		return fmt.Sprint(m.Size())
	})
	for _, h := range env.holders {
		add(fmt.Sprintf("PublicKeyShares[%d]", uint64(h)), func() string {
			m := p.PublicKeyShares()
			if m == nil {
				return "nil"
			}
			ls, ok := m.Get(h)
			if !ok || ls == nil {
				return "missing"
			}
			var v []string
			for _, e := range ls.Value() {
				v = append(v, vh.Hex(e.Bytes()))
			}
			return fmt.Sprintf("%d:%s", uint64(ls.ID()), strings.Join(v, "|"))
		})
	}
	if share != nil {
		add("Share", func() string { return fmt.Sprintf("%d:%s", uint64(share.ID()), hexS(share.Value())) })
		// predicate: share·G = the object's own public share of that holder
		add("predicate share·G = public share", func() string {
			m := p.PublicKeyShares()
			if m == nil {
				return "no public shares"
			}
			ls, ok := m.Get(share.ID())
			if !ok || len(ls.Value()) != len(share.Value()) {
				return "public share missing"
			}
			for k, v := range share.Value() {
				if !env.G.ScalarOp(v).Equal(ls.Value()[k]) {
					return fmt.Sprintf("fails at coordinate %d", k)
				}
			}
			return "holds"
		})
	}
	// predicate: the object's public shares reconstruct its public key in the exponent
	add("predicate public shares reconstruct the public key", func() string {
		m := p.PublicKeyShares()
		if m == nil {
			return "no public shares"
		}
		var ls []*feldman.LiftedShare[E, S]
		for _, h := range env.holders {
			s, ok := m.Get(h)
			if !ok {
				return "public share missing"
			}
			ls = append(ls, s)
		}
		sec, err := env.scheme.ReconstructInTheExponent(ls...)
		if err != nil {
			return "reconstruction refused"
		}
		if !sec.Value().Equal(p.PublicKeyValue()) {
			return "fails"
		}
		return "holds"
	})
	if extraName != "" {
		out = append(out, accessor{extraName, extraVal})
	}
	return out
}

func diffSnap(a, b []accessor) (string, string) {
	for i := range a {
		if i >= len(b) {
			return a[i].name, "accessor missing after reload"
		}
		if a[i].val != b[i].val {
			x, y := a[i].val, b[i].val
			if len(x) > 160 {
				x = x[:160] + "…"
			}
			if len(y) > 160 {
				y = y[:160] + "…"
			}
			return a[i].name, "before: " + x + " after: " + y
		}
	}
	return "", ""
}

// reloadObj checks one object type. cur holds the run's key, mkOther builds a distinct value holding
// another run's key; view gives the accessors of a value (the wrapper's own PublicKey() as text).
func reloadObj[T interface{ UnmarshalCBOR([]byte) error }, E algebra.PrimeGroupElement[E, S], S algebra.PrimeFieldElement[S]](
	env kmEnv[E, S], obj string, cur T, mkOther func() T,
	view func(T) (pubAcc[E, S], *feldman.Share[S], string, string),
) []kmFail {
	var fails []kmFail
	snap := func(t T) []accessor {
		var p pubAcc[E, S]
		var sh *feldman.Share[S]
		var en, ev string
		if pn := vh.Safely(func() { p, sh, en, ev = view(t) }); pn != "" {
			return []accessor{{"view", "PANIC " + pn}}
		}
		return snapshot(env, p, sh, en, ev)
	}
	before := snap(cur)
	var data []byte
	var err error
	if pn := vh.Safely(func() { data, err = serde.MarshalCBOR(cur) }); pn != "" || err != nil {
		return []kmFail{{obj, "store", "MarshalCBOR", fmt.Sprintf("%v %s", err, pn)}}
	}
	check := func(mode string, reloaded T) {
		after := snap(reloaded)
		if name, d := diffSnap(before, after); name != "" {
			fails = append(fails, kmFail{obj, mode, name, d})
			return
		}
		var again []byte
		var e2 error
		if pn := vh.Safely(func() { again, e2 = serde.MarshalCBOR(reloaded) }); pn != "" || e2 != nil || string(again) != string(data) {
			fails = append(fails, kmFail{obj, mode, "re-encode", fmt.Sprintf("reloaded value does not encode to the stored bytes (%v %s)", e2, pn)})
		}
	}
	// (a) into a fresh zero value
	var fresh T
	if pn := vh.Safely(func() { fresh, err = serde.UnmarshalCBOR[T](data) }); pn != "" || err != nil {
		fails = append(fails, kmFail{obj, "fresh", "UnmarshalCBOR", fmt.Sprintf("%v %s", err, pn)})
	} else {
		check("fresh", fresh)
	}
	// (b) into a value that held the key of a different run, accessors used
	other := mkOther()
	_ = snap(other)
	if pn := vh.Safely(func() { err = other.UnmarshalCBOR(data) }); pn != "" || err != nil {
		fails = append(fails, kmFail{obj, "over-other-key", "UnmarshalCBOR", fmt.Sprintf("%v %s", err, pn)})
	} else {
		check("over-other-key", other)
	}
	return fails
}

// baseReload: *mpc.BaseShard and *mpc.BasePublicMaterial.
func baseReload[E algebra.PrimeGroupElement[E, S], S algebra.PrimeFieldElement[S]](env kmEnv[E, S], cur, other *mpc.BaseShard[E, S]) []kmFail {
	fails := reloadObj(env, "mpc.BaseShard", cur,
		func() *mpc.BaseShard[E, S] { c := *other; return &c },
		func(t *mpc.BaseShard[E, S]) (pubAcc[E, S], *feldman.Share[S], string, string) {
			return t, t.Share(), "", ""
		})
	curPM := cur.BasePublicMaterial
	fails = append(fails, reloadObj(env, "mpc.BasePublicMaterial", &curPM,
		func() *mpc.BasePublicMaterial[E, S] { c := other.BasePublicMaterial; return &c },
		func(t *mpc.BasePublicMaterial[E, S]) (pubAcc[E, S], *feldman.Share[S], string, string) {
			return t, nil, "", ""
		})...)
	return fails
}

// schnorrReload: schnorr.Shard (built by its constructor) and schnorr.PublicMaterial (lindell22).
func schnorrReload[E algebra.PrimeGroupElement[E, S], S algebra.PrimeFieldElement[S]](env kmEnv[E, S], cur, other *mpc.BaseShard[E, S]) []kmFail {
	cs, err := mschnorr.NewShard(cur.Share(), cur.VerificationVector(), cur.MSP())
	if err != nil {
		return []kmFail{{"schnorr.Shard", "build", "NewShard", err.Error()}}
	}
	pkText := func(v interface{ Value() E }) string {
		if v == nil {
			return "nil"
		}
		return vh.Hex(v.Value().Bytes())
	}
	fails := reloadObj(env, "schnorr.Shard", cs,
		func() *mschnorr.Shard[E, S] {
			o := &mschnorr.Shard[E, S]{} //nolint:exhaustruct // cache fields start empty
			o.BaseShard = *other
			return o
		},
		func(t *mschnorr.Shard[E, S]) (pubAcc[E, S], *feldman.Share[S], string, string) {
			pk := t.PublicKey()
			if pk == nil {
				return t, t.Share(), "PublicKey()", "nil"
			}
			return t, t.Share(), "PublicKey()", pkText(pk)
		})
	fails = append(fails, reloadObj(env, "schnorr.PublicMaterial", cs.PublicKeyMaterial(),
		func() *mschnorr.PublicMaterial[E, S] {
			o := &mschnorr.PublicMaterial[E, S]{} //nolint:exhaustruct // cache fields start empty
			o.BasePublicMaterial = other.BasePublicMaterial
			return o
		},
		func(t *mschnorr.PublicMaterial[E, S]) (pubAcc[E, S], *feldman.Share[S], string, string) {
			pk := t.PublicKey()
			if pk == nil {
				return t, nil, "PublicKey()", "nil"
			}
			return t, nil, "PublicKey()", pkText(pk)
		})...)
	return fails
}

// dklsReload: dkls23.Shard (needs the curve's point type).
func dklsReload[P curves.Point[P, B, S], B algebra.PrimeFieldElement[B], S algebra.PrimeFieldElement[S]](env kmEnv[P, S], cur, other *mpc.BaseShard[P, S]) []kmFail {
	cs, err := dkls23.NewShard[P, B, S](cur)
	if err != nil {
		return []kmFail{{"dkls23.Shard", "build", "NewShard", err.Error()}}
	}
	return reloadObj(env, "dkls23.Shard", cs,
		func() *dkls23.Shard[P, B, S] {
			c := *other
			o, _ := dkls23.NewShard[P, B, S](&c)
			return o
		},
		func(t *dkls23.Shard[P, B, S]) (pubAcc[P, S], *feldman.Share[S], string, string) {
			return t, t.Share(), "PublicKey()", vh.Hex(t.PublicKey().Value().Bytes())
		})
}

// blsReload: bls.Shard and bls.PublicMaterial (boldyreva) over the key group PK.
func blsReload[
	PK curves.PairingFriendlyPoint[PK, PKFE, SG, SGFE, GT, S], PKFE algebra.FieldElement[PKFE],
	SG curves.PairingFriendlyPoint[SG, SGFE, PK, PKFE, GT, S], SGFE algebra.FieldElement[SGFE],
	GT algebra.MultiplicativeGroupElement[GT], S algebra.PrimeFieldElement[S],
](env kmEnv[PK, S], cur, other *mpc.BaseShard[PK, S]) []kmFail {
	type shardT = mbls.Shard[PK, PKFE, SG, SGFE, GT, S]
	type pmT = mbls.PublicMaterial[PK, PKFE, SG, SGFE, GT, S]
	cs := &shardT{} //nolint:exhaustruct // cache fields start empty
	cs.BaseShard = *cur
	fails := reloadObj(env, "bls.Shard", cs,
		func() *shardT {
			o := &shardT{} //nolint:exhaustruct // cache fields start empty
			o.BaseShard = *other
			return o
		},
		func(t *shardT) (pubAcc[PK, S], *feldman.Share[S], string, string) {
			pk := t.PublicKey()
			if pk == nil {
				return t, t.Share(), "PublicKey()", "nil"
			}
			return t, t.Share(), "PublicKey()", vh.Hex(pk.Value().Bytes())
		})
	fails = append(fails, reloadObj(env, "bls.PublicMaterial", cs.PublicKeyMaterial(),
		func() *pmT {
			o := &pmT{} //nolint:exhaustruct // cache fields start empty
			o.BasePublicMaterial = other.BasePublicMaterial
			return o
		},
		func(t *pmT) (pubAcc[PK, S], *feldman.Share[S], string, string) {
			pk := t.PublicKey()
			if pk == nil {
				return t, nil, "PublicKey()", "nil"
			}
			return t, nil, "PublicKey()", vh.Hex(pk.Value().Bytes())
		})...)
	return fails
}

// otherKey deals another key on the same structure (its own tape) and returns holder id's shard.
func otherKey[E algebra.PrimeGroupElement[E, S], S algebra.PrimeFieldElement[S]](a vh.Args, cs caseSpec, scheme *feldman.Scheme[E, S], id sharing.ID) (*mpc.BaseShard[E, S], error) {
	out, _, err := scheme.DealRandom(vh.NewRng(a.Seed, cs.prop(), "otherkey", 0))
	if err != nil {
		return nil, err
	}
	sh, ok := out.Shares().Get(id)
	if !ok {
		return nil, fmt.Errorf("no share for %d", uint64(id))
	}
	return mpc.NewBaseShard(sh, out.VerificationMaterial(), scheme.MSP())
}
