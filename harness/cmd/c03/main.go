// C03 harness — key generation ends with one consistent, reconstructible key.
//
// Drives the REAL Gennaro / Canetti DKG and the trusted dealer of /repo (through the driver
// packages verif/harness/internal/drive/{gennaro,canetti,dealer}: real round functions, every
// message through CBOR, recorded random tapes, real session setup), hands the recorded tapes
// and the library's induced MSP matrix to the extracted Coq model (coq/model/Dkg.v) and
// compares, per run:
//
//	relation R (Kind "corr"):
//	  - every party completes iff the model party does;
//	  - private shares equal the model's scalars; every verification-vector entry, the public key
//	    and every public key share equal ScalarBaseMul(model exponent);
//	  - Gennaro: every dealer's Pedersen vector equals c0·G + c1·H for the model's linear form
//	    (H recovered once from the first entry), its Feldman vector and every unicast share and
//	    blinding equal the model's;
//	  - for every subset S with a reconstruction vector λ (the library's ReconstructionCoefficients)
//	    the model confirms λ·M_S = e0 and λ·shares = Σ_j r_{j,0}; the library's Reconstruct(S)
//	    returns that value;
//	  - mpc.NewBaseShard on a share with one coordinate shifted accepts iff the model's does.
//	property predicate on the implementation alone (Kind "prop" / PropFail):
//	  - the honest run completes; all parties hold the same public key, verification vector and
//	    public shares; share_k·G equals the party's public share;
//	  - every qualified subset (independent brute-force evaluation of the policy) reconstructs one
//	    secret s with s·G = public key, also in the exponent from the public shares; every
//	    unqualified subset is refused;
//	  - every serialisable key-material object (BaseShard, BasePublicMaterial, schnorr / dkls23 /
//	    bls shard and public-material wrappers) survives CBOR store / reload — into a fresh value and
//	    into a value that held another run's key — with every public accessor unchanged and the
//	    predicates still true on the reloaded value (keymat.go); a shard whose share was altered
//	    is refused by NewBaseShard;
//	  - runs on different tapes give different keys, the same tapes the same key; the runner API
//	    over an in-memory delivery gives the same shards as the round-by-round run.
package main

import (
	"fmt"
	"math/big"
	"os"
	"runtime"
	"runtime/pprof"
	"sort"
	"strconv"
	"strings"
	"sync"
	"time"

	"github.com/bronlabs/bron-crypto/pkg/base/algebra"
	"github.com/bronlabs/bron-crypto/pkg/base/curves/edwards25519"
	"github.com/bronlabs/bron-crypto/pkg/base/curves/k256"
	"github.com/bronlabs/bron-crypto/pkg/base/curves/p256"
	"github.com/bronlabs/bron-crypto/pkg/base/curves/pairable/bls12381"
	"github.com/bronlabs/bron-crypto/pkg/base/curves/pasta"
	"github.com/bronlabs/bron-crypto/pkg/mpc"
	"github.com/bronlabs/bron-crypto/pkg/mpc/sharing"
	"github.com/bronlabs/bron-crypto/pkg/mpc/sharing/accessstructures"
	"github.com/bronlabs/bron-crypto/pkg/mpc/sharing/scheme/kw"
	"github.com/bronlabs/bron-crypto/pkg/mpc/sharing/vss/feldman"
	"github.com/bronlabs/bron-crypto/pkg/proofs/sigma/compiler"
	"github.com/bronlabs/bron-crypto/pkg/proofs/sigma/compiler/fiatshamir"
	"github.com/bronlabs/bron-crypto/pkg/proofs/sigma/compiler/fischlin"
	"github.com/bronlabs/bron-crypto/pkg/proofs/sigma/compiler/randfischlin"

	"verif/harness/internal/drive"
	dcan "verif/harness/internal/drive/canetti"
	ddeal "verif/harness/internal/drive/dealer"
	dgen "verif/harness/internal/drive/gennaro"
	"verif/harness/internal/vh"
)

// ---- cases --------------------------------------------------------------------------------------

// caseSpec is the replayable description of one run. The tapes of the run are the streams
// vh.NewRng(seed, "C03/<idx>", "tape/a", id).
type caseSpec struct {
	proto string // G gennaro, C canetti, D trusted dealer
	group string
	pol   policy
	comp  string // NIZK compiler (gennaro), "-" otherwise
	idx   int
	mode  string // rounds | runner
	via   string // "-" | "cnf": every party converts its object with cnf.ConvertToCNF
}

func (c caseSpec) text() string {
	via := c.via
	if via == "" {
		via = "-"
	}
	return fmt.Sprintf("proto=%s group=%s pol=%s comp=%s idx=%d mode=%s via=%s", c.proto, c.group, c.pol.text(), c.comp, c.idx, c.mode, via)
}

func parseCase(s string) (caseSpec, error) {
	c := caseSpec{}
	for _, f := range strings.Fields(s) {
		kv := strings.SplitN(f, "=", 2)
		if len(kv) != 2 {
			continue
		}
		switch kv[0] {
		case "proto":
			c.proto = kv[1]
		case "group":
			c.group = kv[1]
		case "pol":
			c.pol = parsePolicy(kv[1])
		case "comp":
			c.comp = kv[1]
		case "idx":
			c.idx, _ = strconv.Atoi(kv[1])
		case "mode":
			c.mode = kv[1]
		case "via":
			c.via = kv[1]
		}
	}
	if c.proto == "" || c.group == "" || c.mode == "" {
		return c, fmt.Errorf("incomplete case %q", s)
	}
	return c, nil
}

func (c caseSpec) prop() string { return fmt.Sprintf("C03/%d", c.idx) }

// caseRun is what one run leaves behind for the comparison with the model.
type caseRun struct {
	spec       caseSpec
	class      string
	nontrivial bool
	line       string                           // model input ("" = none)
	cmp        func(model string) []vh.Mismatch // relation R against the model's output line
	mism       []vh.Mismatch                    // property predicate failures (implementation alone)
	pk         string                           // public key (hex) when the run completed
	note       string
	dur        time.Duration
}

type groupT struct {
	name string
	run  func(a vh.Args, cs caseSpec) *caseRun
	l17  func(a vh.Args, cs caseSpec) *caseRun // Lindell17 shard store / reload (keymat_l17.go), ECDSA curves only
	gen  func(policy string) error             // generates the stored Lindell17 material
}

func allGroups() []*groupT {
	gs := []*groupT{
		mkGroup("k256", k256.NewCurve(), dklsReload[*k256.Point, *k256.BaseFieldElement, *k256.Scalar]),
		mkGroup("bls12381g1", bls12381.NewG1(),
			blsReload[*bls12381.PointG1, *bls12381.BaseFieldElementG1, *bls12381.PointG2, *bls12381.BaseFieldElementG2, *bls12381.GtElement, *bls12381.Scalar]),
		mkGroup("p256", p256.NewCurve(), dklsReload[*p256.Point, *p256.BaseFieldElement, *p256.Scalar]),
		mkGroup("edwards25519", edwards25519.NewPrimeSubGroup(), nil),
		mkGroup("pallas", pasta.NewPallasCurve(), nil),
		mkGroup("vesta", pasta.NewVestaCurve(), nil),
		mkGroup("bls12381g2", bls12381.NewG2(),
			blsReload[*bls12381.PointG2, *bls12381.BaseFieldElementG2, *bls12381.PointG1, *bls12381.BaseFieldElementG1, *bls12381.GtElement, *bls12381.Scalar]),
	}
	gs[0].l17 = func(a vh.Args, cs caseSpec) *caseRun {
		return l17Case[*k256.Point, *k256.BaseFieldElement, *k256.Scalar](k256.NewCurve(), a, cs)
	}
	gs[0].gen = func(policy string) error {
		return genL17[*k256.Point, *k256.BaseFieldElement, *k256.Scalar](k256.NewCurve(), "k256", policy)
	}
	return gs
}

// extra is the group-specific part of the key-material reload check (dkls23 / bls wrappers), nil if none.
func mkGroup[E algebra.PrimeGroupElement[E, S], S algebra.PrimeFieldElement[S]](name string, g algebra.PrimeGroup[E, S],
	extra func(env kmEnv[E, S], cur, other *mpc.BaseShard[E, S]) []kmFail) *groupT {
	return &groupT{name: name, run: func(a vh.Args, cs caseSpec) *caseRun { return runCase(a, g, cs, extra) }}
}

func compilerOf(name string) compiler.Name {
	switch name {
	case string(fischlin.Name):
		return fischlin.Name
	case string(randfischlin.Name):
		return randfischlin.Name
	default:
		return fiatshamir.Name
	}
}

// ---- helpers ------------------------------------------------------------------------------------

type beBytes interface{ BytesBE() []byte }

func bigOf(e beBytes) *big.Int { return new(big.Int).SetBytes(e.BytesBE()) }

func hexS[S beBytes](es []S) string {
	if len(es) == 0 {
		return "-"
	}
	p := make([]string, len(es))
	for i, e := range es {
		p[i] = vh.ZHex(bigOf(e))
	}
	return strings.Join(p, ",")
}

func subsetsOf(ids []uint64) [][]uint64 {
	var out [][]uint64
	for m := 1; m < 1<<len(ids); m++ {
		var s []uint64
		for i := range ids {
			if m>>i&1 == 1 {
				s = append(s, ids[i])
			}
		}
		out = append(out, s)
	}
	return out
}

func parseVec(s string) []*big.Int {
	if s == "-" || s == "" {
		return nil
	}
	var out []*big.Int
	for _, f := range strings.Split(s, ",") {
		out = append(out, vh.UnZHex(f))
	}
	return out
}

func parseBar(s string) []*big.Int {
	if s == "-" || s == "" {
		return nil
	}
	var out []*big.Int
	for _, f := range strings.Split(s, "|") {
		out = append(out, vh.UnZHex(f))
	}
	return out
}

// ---- one run ------------------------------------------------------------------------------------

type runData[E algebra.PrimeGroupElement[E, S], S algebra.PrimeFieldElement[S]] struct {
	trace  *drive.Trace
	ids    []sharing.ID
	shards map[sharing.ID]*mpc.BaseShard[E, S]
	tapes  map[sharing.ID][][]byte // reads of the dealing round, per dealer
	gen    *dgen.Result[E, S]
	ref    map[sharing.ID]string // runner mode: outputs of the round-by-round run on the same tapes
}

func r1reads(t *drive.Tape) [][]byte {
	var out [][]byte
	for i, r := range t.Reads {
		if r.Tag == "r1" {
			out = append(out, t.Slice(i))
		}
	}
	return out
}

// partyACs builds every party's own access-structure object (see policy.buildFor); index 0 is the
// canonical object the harness itself uses. The text lists the per-party clause permutations.
func partyACs(a vh.Args, cs caseSpec) (canon accessstructures.Monotone, acs map[sharing.ID]accessstructures.Monotone, perms string, err error) {
	canon, _, err = cs.pol.buildFor(vh.NewRng(a.Seed, "C03", "acperm", -1), cs.via)
	if err != nil {
		return nil, nil, "", err
	}
	if cs.via != "cnf" {
		if canon, err = cs.pol.build(); err != nil {
			return nil, nil, "", err
		}
	}
	acs = map[sharing.ID]accessstructures.Monotone{}
	var parts []string
	for _, h := range append([]uint64{0}, cs.pol.holders()...) { // 0 = the trusted dealer
		r := vh.NewRng(a.Seed, cs.prop(), "acperm", int(h))
		ac, perm, e := cs.pol.buildFor(r, cs.via)
		if e != nil {
			return nil, nil, "", e
		}
		acs[sharing.ID(h)] = ac
		parts = append(parts, fmt.Sprintf("%d:%s", h, perm))
	}
	return canon, acs, strings.Join(parts, ";"), nil
}

func execute[E algebra.PrimeGroupElement[E, S], S algebra.PrimeFieldElement[S]](a vh.Args, g algebra.PrimeGroup[E, S], cs caseSpec, acPol policy) (*runData[E, S], error) {
	ac, acs, _, err := partyACs(a, cs)
	if err != nil {
		return nil, err
	}
	rd := &runData[E, S]{tapes: map[sharing.ID][][]byte{}}
	switch cs.proto {
	case "G":
		cfg := dgen.Config[E, S]{Seed: a.Seed, Prop: cs.prop(), Group: g, AC: ac, ACs: acs, Compiler: compilerOf(cs.comp)}
		var res *dgen.Result[E, S]
		if cs.mode == "runner" {
			res = gennaroRunner(cfg)
		} else {
			res = dgen.RunFull(cfg)
		}
		rd.trace, rd.ids, rd.shards, rd.gen = res.Trace, res.IDs, res.Shards, res
		if cs.mode == "runner" {
			rd.gen = nil
			rd.ref = dgen.RunFull(cfg).Trace.Outputs
		}
		for _, id := range res.IDs {
			rd.tapes[id] = r1reads(res.Trace.Tapes[id])
		}
	case "C":
		cfg := dcan.Config[E, S]{Seed: a.Seed, Prop: cs.prop(), Group: g, AC: ac, ACs: acs}
		var res *dcan.Result[E, S]
		if cs.mode == "runner" {
			res = canettiRunner(cfg)
		} else {
			res = dcan.RunFull(cfg)
		}
		rd.trace, rd.ids, rd.shards = res.Trace, res.IDs, res.Shards
		if cs.mode == "runner" {
			rd.ref = dcan.RunFull(cfg).Trace.Outputs
		}
		for _, id := range res.IDs {
			rd.tapes[id] = r1reads(res.Trace.Tapes[id])
		}
	default:
		res := ddeal.RunFull(ddeal.Config[E, S]{Seed: a.Seed, Prop: cs.prop(), Group: g, AC: acs[0]})
		rd.trace, rd.ids, rd.shards = res.Trace, res.IDs, res.Shards
		rd.tapes[0] = r1reads(res.Trace.Tapes[0])
	}
	return rd, nil
}

func runCase[E algebra.PrimeGroupElement[E, S], S algebra.PrimeFieldElement[S]](a vh.Args, g algebra.PrimeGroup[E, S], cs caseSpec,
	extra func(env kmEnv[E, S], cur, other *mpc.BaseShard[E, S]) []kmFail) *caseRun {
	out := &caseRun{spec: cs, class: fmt.Sprintf("%s/%s/%c/%s/%s", cs.proto, cs.group, cs.pol.fam, cs.comp, cs.mode)}
	caseText := cs.text()
	if _, _, perms, perr := partyACs(a, cs); perr == nil && (cs.pol.fam == 'N' || cs.via == "cnf") {
		caseText += " perms=" + perms // every party's clause order (derived from seed and idx; informative)
	}
	nonMono := cs.pol.hierNonMonotone()
	prop := func(key, detail string) {
		if nonMono {
			switch key {
			case "qualified-set-no-reconstruct", "reconstruct-not-dlog", "reconstruct-exponent-not-pk", "reconstruct-differs",
				"no-qualified-set", "reconstruct-panics", "unqualified-set-reconstructs":
				// the library induced an MSP for an interleaved hierarchical assignment it is documented to
				// refuse (hierarchical.CheckConstraints), and the key it generated is not reconstructible
				key = "hierarchical-nonmonotone-accepted-and-qualified-set-fails"
				detail = "non-monotone hierarchical ID assignment was not refused; " + detail
			}
		}
		out.mism = append(out.mism, vh.Mismatch{ID: caseText, Kind: "prop", Key: key, Detail: detail, Case: caseText, PropFail: true,
			What: "property predicate on the implementation (C03: consistent, reconstructible key)"})
	}
	var rd *runData[E, S]
	var err error
	if pn := vh.Safely(func() { rd, err = execute(a, g, cs, cs.pol) }); pn != "" {
		prop("dkg-driver-panic", pn)
		out.class += "/panic"
		return out
	}
	if err != nil {
		// the constructor refused the policy: nothing to run
		out.class = fmt.Sprintf("refused/%c", cs.pol.fam)
		out.note = err.Error()
		return out
	}
	out.nontrivial = true
	if nonMono {
		out.class += "/nonmonotone-accepted"
	}
	ids := rd.ids
	field := algebra.StructureMustBeAs[algebra.PrimeField[S]](g.ScalarStructure())
	q := field.Order().Big()
	G := g.Generator()
	sc := func(x *big.Int) S {
		b := make([]byte, 64)
		new(big.Int).Mod(x, q).FillBytes(b)
		e, err := field.FromBytesBEReduce(b)
		if err != nil {
			panic(err)
		}
		return e
	}
	ac, _, _, _ := partyACs(a, cs)
	scheme, err := feldman.NewScheme(g, ac)
	if err != nil {
		// the library refuses to induce an MSP for this structure (Tassa's conditions on IDs and field
		// size, ...): a refusal by design, provided the key generation refuses as well
		out.class = fmt.Sprintf("refused-msp/%s/%c", cs.proto, cs.pol.fam)
		if nonMono {
			out.class = "refused-nonmonotone-hierarchical/" + cs.proto // the expected class
		}
		out.nontrivial = false
		out.note = err.Error()
		ran := len(rd.shards) > 0
		for _, id := range ids {
			if v, ok := rd.trace.Verdicts[id]; ok && v.Class == "ok" && cs.proto != "D" {
				ran = true
			}
		}
		if ran {
			prop("dkg-runs-on-refused-structure", "feldman.NewScheme refuses the access structure but the key generation ran: "+err.Error())
		}
		return out
	}
	m := scheme.MSP()

	// ---- P1: the honest run completes
	complete := true
	for _, id := range ids {
		if v := rd.trace.Verdicts[id]; v.Class != "ok" || rd.shards[id] == nil {
			complete = false
			prop("honest-run-aborts", fmt.Sprintf("party %d: %s in round %d (%s)", uint64(id), v.String(), v.Round, v.Detail))
			break
		}
	}
	if cs.proto == "D" {
		if v := rd.trace.Verdicts[0]; v.Class != "ok" {
			complete = false
			prop("honest-run-aborts", fmt.Sprintf("dealer: %s (%s)", v.String(), v.Detail))
		}
	}

	// ---- model input
	rows, cols := m.Matrix().Dimensions()
	labs := make([]string, rows)
	var entries []S
	for i := 0; i < rows; i++ {
		id, _ := m.RowsToHolders().Get(i)
		labs[i] = strconv.FormatUint(uint64(id), 10)
		for j := 0; j < cols; j++ {
			e, _ := m.Matrix().Get(i, j)
			entries = append(entries, e)
		}
	}
	hold := make([]uint64, len(ids))
	for i, id := range ids {
		hold[i] = uint64(id)
	}
	var parties []string
	for _, id := range drive.SortedIDs(rd.tapes) {
		rs := make([]string, len(rd.tapes[id]))
		for i, b := range rd.tapes[id] {
			rs[i] = vh.Hex(b)
		}
		parties = append(parties, fmt.Sprintf("%d=%s", uint64(id), strings.Join(rs, ",")))
	}
	subsets := subsetsOf(hold)
	subTok := make([]string, len(subsets))
	hasLambda := make([]bool, len(subsets))
	for k, s := range subsets {
		sids := toIDs(s)
		var parts []string
		okAll := true
		for _, h := range sids {
			var cf []S
			var cerr error
			if pn := vh.Safely(func() { cf, cerr = m.ReconstructionCoefficients(h, sids...) }); pn != "" || cerr != nil {
				okAll = false
				break
			}
			parts = append(parts, fmt.Sprintf("%d:%s", uint64(h), hexS(cf)))
		}
		if okAll {
			hasLambda[k] = true
			subTok[k] = strings.Join(parts, "/")
		} else {
			parts = parts[:0]
			for _, h := range sids {
				parts = append(parts, fmt.Sprintf("%d:-", uint64(h)))
			}
			subTok[k] = strings.Join(parts, "/")
		}
	}
	// tamper: shift one coordinate of one party's share (party and coordinate from the case stream)
	tr := vh.NewRng(a.Seed, "C03", "tamper", cs.idx)
	tid := ids[tr.Intn(len(ids))]
	tk, tdelta := 0, big.NewInt(0)
	if complete {
		tk = tr.Intn(len(rd.shards[tid].Share().Value()))
		switch tr.Intn(4) {
		case 0:
			tdelta = big.NewInt(0)
		case 1:
			tdelta = big.NewInt(1)
		case 2:
			tdelta = new(big.Int).Sub(q, big.NewInt(1))
		default:
			tdelta = tr.BigBelow(q)
		}
	}
	out.line = fmt.Sprintf("%s %s %dx%d:%s:%s %s %s %s %d:%d:%s", cs.proto, vh.ZHex(q), rows, cols, strings.Join(labs, ","), hexS(entries),
		idsText(hold), strings.Join(parties, ";"), strings.Join(subTok, "|"), uint64(tid), tk, vh.ZHex(tdelta))

	if !complete {
		out.cmp = func(model string) []vh.Mismatch {
			return []vh.Mismatch{{ID: caseText, Kind: "corr", Key: "honest-run-aborts", Case: caseText, PropFail: true,
				Detail: "implementation aborts an honest run; model: " + firstTokens(model, 4),
				What:   "correspondence Dkg.v (gennaro_run/canetti_run/dealer_run) / theorem dkg_share_matches"}}
		}
		return out
	}

	// ---- P2: agreement
	ref := rd.trace.Outputs[ids[0]]
	for _, id := range ids[1:] {
		if rd.trace.Outputs[id] != ref {
			prop("outputs-differ", fmt.Sprintf("party %d: %s / party %d: %s", uint64(ids[0]), ref, uint64(id), rd.trace.Outputs[id]))
			break
		}
	}
	pk := rd.shards[ids[0]].PublicKeyValue()
	out.pk = vh.Hex(pk.Bytes())
	if rd.ref != nil {
		for _, id := range ids {
			if rd.ref[id] != rd.trace.Outputs[id] {
				prop("runner-differs-from-rounds", fmt.Sprintf("party %d: runner API gives %s, round-by-round run on the same tapes %s", uint64(id), rd.trace.Outputs[id], rd.ref[id]))
				break
			}
		}
		out.pk = "" // same tapes as nothing else, but the key equals the reference run's by construction
		out.pk = vh.Hex(pk.Bytes())
	}
	// ---- P3: private share matches the public share
	for _, id := range ids {
		sh := rd.shards[id]
		pks, ok := sh.PublicKeyShares().Get(id)
		vals := sh.Share().Value()
		if !ok || len(pks.Value()) != len(vals) || sh.Share().ID() != id {
			prop("share-public-mismatch", fmt.Sprintf("party %d: public share missing or of another length", uint64(id)))
			continue
		}
		for k, v := range vals {
			if !G.ScalarOp(v).Equal(pks.Value()[k]) {
				prop("share-public-mismatch", fmt.Sprintf("party %d coordinate %d: share·G != public share", uint64(id), k))
				break
			}
		}
	}
	// ---- P4: reconstruction over every subset
	var secret S
	haveSecret := false
	recon := make([]string, len(subsets)) // "err" or hex of the reconstructed value
	for k, s := range subsets {
		var shs []*kw.Share[S]
		var lifted []*feldman.LiftedShare[E, S]
		for _, h := range s {
			shs = append(shs, rd.shards[sharing.ID(h)].Share())
			ls, _ := rd.shards[ids[0]].PublicKeyShares().Get(sharing.ID(h))
			lifted = append(lifted, ls)
		}
		var sec *kw.Secret[S]
		var rerr error
		if pn := vh.Safely(func() { sec, rerr = scheme.Reconstruct(shs...) }); pn != "" {
			prop("reconstruct-panics", fmt.Sprintf("subset %s: %s", idsText(s), pn))
			recon[k] = "panic"
			continue
		}
		qual := cs.pol.qualified(s)
		if rerr != nil {
			recon[k] = "err"
			if qual {
				prop("qualified-set-no-reconstruct", fmt.Sprintf("subset %s is qualified but Reconstruct fails: %v", idsText(s), rerr))
			}
			continue
		}
		recon[k] = vh.ZHex(bigOf(sec.Value()))
		if !qual {
			prop("unqualified-set-reconstructs", fmt.Sprintf("subset %s is unqualified but Reconstruct returns %s", idsText(s), recon[k]))
			continue
		}
		if !G.ScalarOp(sec.Value()).Equal(pk) {
			prop("reconstruct-not-dlog", fmt.Sprintf("subset %s reconstructs %s, which is not the discrete log of the public key", idsText(s), recon[k]))
		}
		if !haveSecret {
			secret, haveSecret = sec.Value(), true
		} else if !secret.Equal(sec.Value()) {
			prop("reconstruct-differs", fmt.Sprintf("subset %s reconstructs another value than an earlier qualified subset", idsText(s)))
		}
		var lsec *feldman.LiftedSecret[E, S]
		var lerr error
		if pn := vh.Safely(func() { lsec, lerr = scheme.ReconstructInTheExponent(lifted...) }); pn != "" || lerr != nil || !lsec.Value().Equal(pk) {
			prop("reconstruct-exponent-not-pk", fmt.Sprintf("subset %s: public shares do not reconstruct the public key in the exponent (%v %s)", idsText(s), lerr, pn))
		}
	}
	if !haveSecret {
		prop("no-qualified-set", "no subset of the shareholders reconstructs")
	}
	// ---- P5: store / reload of every serialisable key-material object (keymat.go)
	env := kmEnv[E, S]{G: G, holders: ids, scheme: scheme}
	everyHolder := false
	for _, pt := range l17Policies {
		if cs.pol.text() == pt && cs.proto != "G" {
			everyHolder = true
		}
	}
	for pi, id := range ids {
		if a.Tier != "thorough" && !everyHolder && pi != cs.idx%len(ids) {
			continue // quick tier: one party, rotating with the case index (every holder for l17Policies)
		}
		sh := rd.shards[id]
		var other *mpc.BaseShard[E, S]
		var oerr error
		if pn := vh.Safely(func() { other, oerr = otherKey(a, cs, scheme, id) }); pn != "" || oerr != nil {
			prop("other-key-dealing-fails", fmt.Sprintf("%v %s", oerr, pn))
			break
		}
		var fails []kmFail
		pn := vh.Safely(func() {
			fails = baseReload(env, sh, other)
			wrappers := a.Tier == "thorough" || everyHolder || cs.idx%2 == 0 || extra == nil
			if wrappers {
				fails = append(fails, schnorrReload(env, sh, other)...)
			}
			if extra != nil && (a.Tier == "thorough" || everyHolder || cs.idx%2 == 1) {
				fails = append(fails, extra(env, sh, other)...)
			}
		})
		if pn != "" {
			prop("keymaterial-reload-panics", pn)
		}
		for _, f := range fails {
			key := "keymaterial-reload-accessor-differs"
			if f.accessor == "PublicKey()" {
				key = "keymaterial-reload-stale-publickey" // the wrapper's cached PublicKey() only
			}
			if f.mode == "build" || f.mode == "store" || f.accessor == "UnmarshalCBOR" {
				key = "keymaterial-reload-fails"
			}
			prop(key, fmt.Sprintf("%s of party %d, reload %s: %s differs (%s)", f.obj, uint64(id), f.mode, f.accessor, f.detail))
		}
	}
	// ---- tampered share: NewBaseShard and reload
	tsh := rd.shards[tid]
	tvals := append([]S(nil), tsh.Share().Value()...)
	tvals[tk] = tvals[tk].Add(sc(tdelta))
	tshare, _ := kw.NewShare(tid, tvals...)
	var terr error
	tpanic := vh.Safely(func() { _, terr = mpc.NewBaseShard(tshare, tsh.VerificationVector(), m) })
	implAccepts := terr == nil && tpanic == ""
	if implAccepts && tdelta.Sign() != 0 {
		prop("baseshard-accepts-mismatched-share", fmt.Sprintf("NewBaseShard accepts party %d's share with coordinate %d shifted by %s: private share no longer matches its public share", uint64(tid), tk, vh.ZHex(tdelta)))
	}
	if !implAccepts && tdelta.Sign() == 0 {
		prop("baseshard-rejects-own-share", fmt.Sprintf("NewBaseShard rejects party %d's unchanged share: %v %s", uint64(tid), terr, tpanic))
	}

	// ---- relation R against the model
	gen := rd.gen
	out.cmp = func(model string) []vh.Mismatch {
		var ms []vh.Mismatch
		corr := func(key, detail string) {
			ms = append(ms, vh.Mismatch{ID: caseText, Kind: "corr", Key: key, Detail: detail, Case: caseText, PropFail: len(out.mism) > 0,
				What: "correspondence Dkg.v (" + map[string]string{"G": "gennaro_run", "C": "canetti_run", "D": "dealer_run"}[cs.proto] + ") vs implementation; theorems dkg_agreement / dkg_share_matches / dkg_reconstructs_dlog rest on it"})
		}
		if strings.HasPrefix(model, "bad") {
			corr("model-rejects-line", model)
			return ms
		}
		expPoint := func(x *big.Int) E { return G.ScalarOp(sc(x)) }
		var modelSecret *big.Int
		seen := map[uint64]bool{}
		for _, tok := range strings.Fields(model) {
			f := strings.Split(tok, ":")
			switch {
			case strings.HasPrefix(tok, "secret="):
				modelSecret = vh.UnZHex(tok[len("secret="):])
			case f[0] == "p":
				idv, _ := strconv.ParseUint(f[1], 10, 64)
				seen[idv] = true
				sh := rd.shards[sharing.ID(idv)]
				if f[2] != "ok" {
					corr("model-party-aborts", fmt.Sprintf("model party %d: %s, implementation completes", idv, strings.Join(f[2:], ":")))
					continue
				}
				if sh == nil {
					corr("impl-party-missing", fmt.Sprintf("model party %d completes, implementation has no shard", idv))
					continue
				}
				if got := hexS(sh.Share().Value()); got != f[3] {
					corr("share-differs", fmt.Sprintf("party %d share: implementation %s model %s", idv, got, f[3]))
				}
				mvv := parseVec(f[4])
				var ivv []E
				for e := range sh.VerificationVector().Value().Iter() {
					ivv = append(ivv, e)
				}
				if len(mvv) != len(ivv) {
					corr("vv-length-differs", fmt.Sprintf("party %d: implementation %d entries, model %d", idv, len(ivv), len(mvv)))
				} else {
					for k := range mvv {
						if !expPoint(mvv[k]).Equal(ivv[k]) {
							corr("vv-differs", fmt.Sprintf("party %d verification vector entry %d is not (model exponent %s)·G", idv, k, vh.ZHex(mvv[k])))
							break
						}
					}
				}
				if !expPoint(vh.UnZHex(f[5])).Equal(sh.PublicKeyValue()) {
					corr("pk-differs", fmt.Sprintf("party %d public key is not (model exponent %s)·G", idv, f[5]))
				}
				cnt := 0
				for _, ent := range strings.Split(f[6], ";") {
					hv := strings.SplitN(ent, "=", 2)
					h, _ := strconv.ParseUint(hv[0], 10, 64)
					ls, ok := sh.PublicKeyShares().Get(sharing.ID(h))
					mp := parseBar(hv[1])
					if !ok || len(ls.Value()) != len(mp) {
						corr("public-share-differs", fmt.Sprintf("party %d: public share of holder %d missing or of another length", idv, h))
						continue
					}
					cnt++
					for k := range mp {
						if !expPoint(mp[k]).Equal(ls.Value()[k]) {
							corr("public-share-differs", fmt.Sprintf("party %d: public share of holder %d coordinate %d is not (model exponent)·G", idv, h, k))
							break
						}
					}
				}
				if cnt != sh.PublicKeyShares().Size() {
					corr("public-share-differs", fmt.Sprintf("party %d: %d public shares, model %d", idv, sh.PublicKeyShares().Size(), cnt))
				}
			case f[0] == "m" && gen != nil:
				idv, _ := strconv.ParseUint(f[1], 10, 64)
				j := sharing.ID(idv)
				if len(f) < 6 {
					corr("model-dealing-fails", tok)
					continue
				}
				pvg, pvh, fv := parseVec(f[2]), parseVec(f[3]), parseVec(f[4])
				b1, b2 := gen.R1B[j], gen.R2B[j]
				if b1 == nil || b2 == nil {
					corr("impl-broadcast-missing", fmt.Sprintf("dealer %d", idv))
					continue
				}
				var ped, fel []E
				for e := range b1.PedersenVerificationVector.Value().Iter() {
					ped = append(ped, e)
				}
				for e := range b2.FeldmanVerificationVector.Value().Iter() {
					fel = append(fel, e)
				}
				if len(ped) != len(pvg) || len(fel) != len(fv) {
					corr("broadcast-length-differs", fmt.Sprintf("dealer %d", idv))
					continue
				}
				for k := range fv {
					if !expPoint(fv[k]).Equal(fel[k]) {
						corr("feldman-broadcast-differs", fmt.Sprintf("dealer %d Feldman vector entry %d is not (model exponent)·G", idv, k))
						break
					}
				}
				// H from the first entry with a non-zero H-coefficient, then every entry = c0·G + c1·H
				var H E
				haveH := false
				for k := range pvg {
					c1 := sc(pvh[k])
					if !haveH {
						if c1.IsZero() {
							continue
						}
						inv, ierr := c1.TryInv()
						if ierr != nil {
							continue
						}
						H = ped[k].Op(expPoint(pvg[k]).OpInv()).ScalarOp(inv)
						haveH = true
					}
					if !expPoint(pvg[k]).Op(H.ScalarOp(c1)).Equal(ped[k]) {
						corr("pedersen-broadcast-differs", fmt.Sprintf("dealer %d Pedersen vector entry %d is not c0·G + c1·H for the model's linear form", idv, k))
						break
					}
				}
				if haveH {
					hmu.Lock()
					if prev, ok := hOf[caseText]; ok && prev != vh.Hex(H.Bytes()) {
						corr("pedersen-second-base-differs", fmt.Sprintf("dealer %d commits under another H than an earlier dealer", idv))
					}
					hOf[caseText] = vh.Hex(H.Bytes())
					hmu.Unlock()
					if H.Equal(G) || H.IsOpIdentity() {
						corr("pedersen-second-base-trivial", fmt.Sprintf("dealer %d: H is G or the identity", idv))
					}
				}
				for _, ent := range strings.Split(f[5], ";") {
					hv := strings.SplitN(ent, "=", 2)
					h, _ := strconv.ParseUint(hv[0], 10, 64)
					if sharing.ID(h) == j {
						continue
					}
					u := gen.R1U[j][sharing.ID(h)]
					sb := strings.SplitN(hv[1], "/", 2)
					if u == nil || u.Share == nil {
						corr("unicast-missing", fmt.Sprintf("dealer %d to %d", idv, h))
						continue
					}
					var bl []S
					for _, w := range u.Share.Blinding() {
						bl = append(bl, w.Value())
					}
					if strings.ReplaceAll(hexS(u.Share.Value()), ",", "|") != sb[0] || strings.ReplaceAll(hexS(bl), ",", "|") != sb[1] {
						corr("unicast-share-differs", fmt.Sprintf("dealer %d to %d: implementation %s / %s, model %s", idv, h, hexS(u.Share.Value()), hexS(bl), hv[1]))
					}
				}
			case f[0] == "r":
				k, _ := strconv.Atoi(f[1])
				if k >= len(subsets) {
					continue
				}
				if hasLambda[k] {
					if f[2] != "1" {
						corr("recon-vector-not-e0", fmt.Sprintf("subset %s: the library's reconstruction coefficients λ do not satisfy λ·M_S = e0 in the model", idsText(subsets[k])))
					} else if modelSecret != nil && vh.UnZHex(f[3]).Cmp(modelSecret) != 0 {
						corr("model-recon-not-secret", fmt.Sprintf("subset %s: λ·shares = %s in the model, Σ r_j0 = %s", idsText(subsets[k]), f[3], vh.ZHex(modelSecret)))
					}
					if modelSecret != nil && recon[k] != vh.ZHex(modelSecret) {
						corr("reconstruct-differs-from-model", fmt.Sprintf("subset %s: Reconstruct gives %s, model Σ r_j0 = %s", idsText(subsets[k]), recon[k], vh.ZHex(modelSecret)))
					}
				} else if recon[k] != "err" {
					corr("reconstruct-without-vector", fmt.Sprintf("subset %s: no reconstruction coefficients but Reconstruct gives %s", idsText(subsets[k]), recon[k]))
				}
			case f[0] == "t":
				if (f[1] == "1") != implAccepts {
					corr("baseshard-check-differs", fmt.Sprintf("party %d share coordinate %d shifted by %s: NewBaseShard accepts=%v, model accepts=%s", uint64(tid), tk, vh.ZHex(tdelta), implAccepts, f[1]))
				}
			}
		}
		for _, id := range ids {
			if !seen[uint64(id)] {
				corr("model-party-missing", fmt.Sprintf("no model output for party %d", uint64(id)))
			}
		}
		if modelSecret == nil {
			corr("model-secret-missing", firstTokens(model, 3))
		} else if !G.ScalarOp(sc(modelSecret)).Equal(pk) {
			corr("pk-not-sum-of-secrets", fmt.Sprintf("public key is not (Σ_j r_j0 = %s)·G", vh.ZHex(modelSecret)))
		}
		return ms
	}
	return out
}

var (
	hmu sync.Mutex
	hOf = map[string]string{}
)

func firstTokens(s string, n int) string {
	f := strings.Fields(s)
	if len(f) > n {
		f = f[:n]
	}
	return strings.Join(f, " ")
}

// ---- case lists -----------------------------------------------------------------------------------

func buildCases(a vh.Args, groups []*groupT) []caseSpec {
	var cases []caseSpec
	idx := 0
	if a.Search {
		idx = 1000000
	}
	add := func(c caseSpec) {
		c.idx = idx
		idx++
		cases = append(cases, c)
	}
	fams := []byte{'T', 'U', 'N', 'H', 'G'}
	thorough := a.Tier == "thorough"
	quickGroups := groups[:2]
	useGroups := quickGroups
	if thorough {
		useGroups = groups
	}
	r := vh.NewRng(a.Seed, "C03", "policies", map[bool]int{false: 0, true: 1}[a.Search])
	maxN := 4
	reps := 1
	if thorough {
		maxN, reps = 8, 1
	}
	if a.Search {
		reps *= 3
	}
	// a policy per (family, size, ID assignment). Canetti and the dealer run every policy on every
	// group; Gennaro (Fiat-Shamir, the expensive one) runs, in the quick tier, one size per
	// (family, ID assignment, group) — the size rotates — and in the thorough tier every policy of
	// size <= 4 on every group and the larger ones on a rotating group.
	for rep := 0; rep < reps; rep++ {
		for fi, fam := range fams {
			for n := 2; n <= maxN; n++ {
				for kind := 0; kind < 3; kind++ {
					pol := genPolicy(r, fam, n).mapIDs(assignFor(fam, kind, n))
					for gi, g := range useGroups {
						add(caseSpec{proto: "C", group: g.name, pol: pol, comp: "-", mode: "rounds"})
						add(caseSpec{proto: "D", group: g.name, pol: pol, comp: "-", mode: "rounds"})
						var doG bool
						if thorough {
							doG = n <= 4 || (fi+kind+n+rep)%len(useGroups) == gi
						} else {
							doG = (n - 2) == (fi+kind+gi+rep)%3
						}
						if doG {
							add(caseSpec{proto: "G", group: g.name, pol: pol, comp: string(fiatshamir.Name), mode: "rounds"})
						}
					}
				}
			}
		}
	}
	// hierarchical structures with interleaved (non-monotone) ID assignments: every flavour must refuse at
	// construction; if one does not, the full predicate decides (hierarchical-nonmonotone-accepted-...)
	for pi, pol := range nonMonotoneHier() {
		for gi, g := range useGroups {
			if !thorough && gi != pi%len(useGroups) {
				continue
			}
			add(caseSpec{proto: "G", group: g.name, pol: pol, comp: string(fiatshamir.Name), mode: "rounds"})
			add(caseSpec{proto: "C", group: g.name, pol: pol, comp: "-", mode: "rounds"})
			add(caseSpec{proto: "D", group: g.name, pol: pol, comp: "-", mode: "rounds"})
		}
	}
	// CNF structures whose maximal unqualified sets differ only in the smallest member (every party lists
	// the clauses in its own order), and 2-of-n through the conversion path cnf.ConvertToCNF
	for pi, pol := range smallestMemberCNF() {
		for gi, g := range useGroups {
			if !thorough && gi != pi%len(useGroups) {
				continue
			}
			if thorough || len(pol.holders()) <= 3 { // quick tier: Gennaro on the three-holder structures
				add(caseSpec{proto: "G", group: g.name, pol: pol, comp: string(fiatshamir.Name), mode: "rounds"})
			}
			add(caseSpec{proto: "C", group: g.name, pol: pol, comp: "-", mode: "rounds"})
			add(caseSpec{proto: "D", group: g.name, pol: pol, comp: "-", mode: "rounds"})
		}
	}
	for n := 3; n <= 4; n++ {
		g := useGroups[n%len(useGroups)]
		pol := policy{fam: 'T', t: 2, ids: rangeIDs(1, n)}.mapIDs(assignIDs(n%3, n))
		if thorough || n == 3 {
			add(caseSpec{proto: "G", group: g.name, pol: pol, comp: string(fiatshamir.Name), mode: "rounds", via: "cnf"})
		}
		add(caseSpec{proto: "C", group: g.name, pol: pol, comp: "-", mode: "rounds", via: "cnf"})
		add(caseSpec{proto: "D", group: g.name, pol: pol, comp: "-", mode: "rounds", via: "cnf"})
	}
	// structures in which some holder has no qualified two-party peer: store / reload of EVERY holder's key
	// material of every shard type — base / schnorr / dkls23 / bls wrappers on trusted-dealer and Canetti
	// shards (keymat.go), Lindell17 shards with their auxiliary information (keymat_l17.go)
	for pi, pt := range l17Policies {
		pol := parsePolicy(pt)
		for gi, g := range useGroups {
			add(caseSpec{proto: "D", group: g.name, pol: pol, comp: "-", mode: "rounds"})
			if thorough || gi == pi%len(useGroups) {
				add(caseSpec{proto: "C", group: g.name, pol: pol, comp: "-", mode: "rounds"})
			}
		}
		add(caseSpec{proto: "L", group: "k256", pol: pol, comp: "-", mode: "rounds"})
	}
	// Fischlin compilers (expensive provers): small structures
	small := policy{fam: 'T', t: 2, ids: []uint64{1, 2}}
	add(caseSpec{proto: "G", group: useGroups[0].name, pol: small.mapIDs(assignIDs(1, 2)), comp: string(fischlin.Name), mode: "rounds"})
	add(caseSpec{proto: "G", group: useGroups[1].name, pol: policy{fam: 'U', ids: []uint64{1, 2}}, comp: string(randfischlin.Name), mode: "rounds"})
	if thorough {
		for gi, g := range useGroups {
			pol := genPolicy(r, fams[gi%len(fams)], 3).mapIDs(assignFor(fams[gi%len(fams)], gi%3, 3))
			add(caseSpec{proto: "G", group: g.name, pol: pol, comp: string(fischlin.Name), mode: "rounds"})
			add(caseSpec{proto: "G", group: g.name, pol: pol, comp: string(randfischlin.Name), mode: "rounds"})
		}
	}
	// runner API over an in-memory delivery
	nr := 2
	if thorough {
		nr = 6
	}
	for i := 0; i < nr; i++ {
		for gi, g := range useGroups {
			if !thorough && gi != i%len(useGroups) {
				continue
			}
			n := 2 + (i+gi)%3
			pol := genPolicy(r, fams[(i+gi)%len(fams)], n).mapIDs(assignFor(fams[(i+gi)%len(fams)], (i+gi)%3, n))
			add(caseSpec{proto: "G", group: g.name, pol: pol, comp: string(fiatshamir.Name), mode: "runner"})
			add(caseSpec{proto: "C", group: g.name, pol: pol, comp: "-", mode: "runner"})
		}
	}
	return cases
}

// ---- main -----------------------------------------------------------------------------------------

func main() {
	a := vh.ParseArgs()
	if pf := os.Getenv("C03_PROF"); pf != "" {
		f, _ := os.Create(pf)
		pprof.StartCPUProfile(f)
		defer pprof.StopCPUProfile()
	}
	if os.Getenv("C03_GEN_L17") != "" { // (re)generate the stored Lindell17 material: slow
		for _, pol := range l17Policies {
			t0 := time.Now()
			err := allGroups()[0].gen(pol)
			fmt.Fprintln(os.Stderr, "generated", pol, err, time.Since(t0))
		}
		return
	}
	res := vh.NewResult("C03", a.Seed, a.Tier)
	res.Rule = "honest runs of the real Gennaro DKG (Fiat-Shamir, Fischlin, randomised Fischlin), Canetti DKG and trusted dealer, round by round through CBOR (driver packages) and through the runner API over an in-memory delivery; access structures: threshold, unanimity, CNF, hierarchical, threshold-gate trees of sizes 2..4 (quick) / 2..8 (thorough) under three ID assignments (ordinal, sparse unsorted, >= 2^40), plus hierarchical structures with interleaved (non-monotone) IDs incl. arithmetic-progression patterns, which every flavour must refuse at construction; every party (and the dealer) builds its OWN access-structure object for the policy, CNF clause lists in a seeded per-party permutation, incl. CNFs whose maximal unqualified sets differ only in the smallest member and 2-of-n through cnf.ConvertToCNF; groups k256 + BLS12-381 G1 (quick) / all seven (thorough). Model (Dkg.v extracted) gets the recorded tapes and the induced MSP; compared: shares, verification vectors, public key, public shares, Gennaro broadcasts/unicasts, reconstruction over every subset, NewBaseShard on a shifted share. A case is non-trivial when the access structure was accepted and the protocol ran."
	groups := allGroups()
	byName := map[string]*groupT{}
	for _, g := range groups {
		byName[g.name] = g
	}
	var cases []caseSpec
	if a.Replay != "" {
		data, err := os.ReadFile(a.Replay)
		if err != nil {
			fmt.Fprintln(os.Stderr, err)
			os.Exit(2)
		}
		for _, line := range strings.Split(string(data), "\n") {
			if strings.HasPrefix(line, "case: ") {
				c, err := parseCase(strings.TrimPrefix(line, "case: "))
				if err != nil {
					fmt.Fprintln(os.Stderr, err)
					os.Exit(2)
				}
				cases = append(cases, c)
			}
		}
	} else {
		cases = buildCases(a, groups)
		// development aid: C03_SAMPLE=k keeps every k-th case of the list
		if k, err := strconv.Atoi(os.Getenv("C03_SAMPLE")); err == nil && k > 1 {
			var keep []caseSpec
			for i, c := range cases {
				if i%k == 0 {
					keep = append(keep, c)
				}
			}
			cases = keep
		}
	}

	// run the implementation (parallel over cases; every case has its own tapes)
	runs := make([]*caseRun, len(cases))
	workers := runtime.NumCPU()
	if workers > 12 {
		workers = 12
	}
	if workers < 1 {
		workers = 1
	}
	// expensive cases first
	order := make([]int, len(cases))
	for i := range order {
		order[i] = i
	}
	cost := func(c caseSpec) int {
		w := len(c.pol.holders())
		if c.proto == "G" {
			w *= 10
			if c.comp != string(fiatshamir.Name) {
				w *= 100
			}
		}
		return w
	}
	sort.SliceStable(order, func(i, j int) bool { return cost(cases[order[i]]) > cost(cases[order[j]]) })
	var wg sync.WaitGroup
	ch := make(chan int)
	for w := 0; w < workers; w++ {
		wg.Add(1)
		go func() {
			defer wg.Done()
			for i := range ch {
				g := byName[cases[i].group]
				if g == nil {
					runs[i] = &caseRun{spec: cases[i], class: "unknown-group"}
					continue
				}
				t0 := time.Now()
				if cases[i].proto == "L" {
					if g.l17 == nil {
						runs[i] = &caseRun{spec: cases[i], class: "unknown-group"}
						continue
					}
					runs[i] = g.l17(a, cases[i])
				} else {
					runs[i] = g.run(a, cases[i])
				}
				runs[i].dur = time.Since(t0)
			}
		}()
	}
	for _, i := range order {
		ch <- i
	}
	close(ch)
	wg.Wait()

	// the model on the same cases
	var lines []string
	var which []int
	for i, r := range runs {
		if r.line != "" {
			lines = append(lines, r.line)
			which = append(which, i)
		}
	}
	modelOut := map[int]string{}
	if len(lines) > 0 {
		outs, err := vh.Driver(a.Driver, lines)
		if err != nil {
			res.Mismatch(vh.Mismatch{ID: "driver", Kind: "corr", Key: "model-driver-failed", Detail: err.Error(), Case: "-", What: "extracted model driver"})
		} else {
			for k, i := range which {
				modelOut[i] = outs[k]
			}
		}
	}
	refused := 0
	for _, r := range runs {
		if strings.HasPrefix(r.class, "refused") {
			refused++
			if refused <= 3 && !r.spec.pol.hierNonMonotone() {
				res.Note("structure refused by the library (compared as a refusal): %s: %s", r.spec.pol.text(), r.note)
			}
		}
	}
	if refused > 0 {
		res.Note("%d runs on structures the library refuses", refused)
	}
	pkSeen := map[string]string{}
	for i, r := range runs {
		res.Count(r.class, r.spec.text(), r.nontrivial)
		if false && r.note != "" && strings.HasPrefix(r.class, "refused") {
			res.Note("policy refused by its constructor: %s (%s)", r.spec.pol.text(), r.note)
		}
		for _, m := range r.mism {
			res.Mismatch(m)
		}
		if r.cmp != nil {
			if mo, ok := modelOut[i]; ok {
				for _, m := range r.cmp(mo) {
					res.Mismatch(m)
				}
			}
		}
		// independent runs (different tapes) never end with the same key
		if r.pk != "" {
			key := r.spec.group + "/" + r.pk
			if prev, ok := pkSeen[key]; ok {
				res.Mismatch(vh.Mismatch{ID: r.spec.text(), Kind: "prop", Key: "keys-repeat", PropFail: true, Case: r.spec.text(),
					Detail: "same public key as the run on other tapes: " + prev, What: "independent runs produce independent keys"})
			}
			pkSeen[key] = r.spec.text()
		}
	}
	// determinism / dependence on the tapes: the same case again gives the same key, another tape index another key
	if a.Replay == "" {
		rep := 0
		for i, r := range runs {
			if r.pk == "" || r.spec.proto == "G" && r.spec.comp != string(fiatshamir.Name) || r.spec.mode != "rounds" {
				continue
			}
			if rep >= 6 || (i%7 != 0) {
				continue
			}
			rep++
			again := byName[r.spec.group].run(a, r.spec)
			res.Count("rerun/"+r.class, "rerun "+r.spec.text(), true)
			if again.pk != r.pk {
				res.Mismatch(vh.Mismatch{ID: r.spec.text(), Kind: "prop", Key: "run-not-deterministic", PropFail: false, Case: r.spec.text(),
					Detail: "the same tapes gave the public keys " + r.pk + " and " + again.pk, What: "the protocols are functions of the tapes (Dkg.v)"})
			}
		}
	}
	durs := map[string]time.Duration{}
	for _, r := range runs {
		durs[r.spec.proto+"/"+r.spec.comp+"/"+r.spec.mode] += r.dur
	}
	var dk []string
	for k, v := range durs {
		dk = append(dk, fmt.Sprintf("%s=%.1fs", k, v.Seconds()))
	}
	sort.Strings(dk)
	if os.Getenv("C03_TIMING") != "" {
		fmt.Fprintln(os.Stderr, "c03 wall per class:", strings.Join(dk, " "))
	}
	res.Write(a.Out)
}
