package main

import (
	"fmt"
	"sort"
	"strconv"
	"strings"

	ds "github.com/bronlabs/bron-crypto/pkg/base/datastructures"
	"github.com/bronlabs/bron-crypto/pkg/base/datastructures/hashset"
	"github.com/bronlabs/bron-crypto/pkg/mpc/sharing"
	"github.com/bronlabs/bron-crypto/pkg/mpc/sharing/accessstructures"
	"github.com/bronlabs/bron-crypto/pkg/mpc/sharing/accessstructures/boolexpr"
	"github.com/bronlabs/bron-crypto/pkg/mpc/sharing/accessstructures/cnf"
	"github.com/bronlabs/bron-crypto/pkg/mpc/sharing/accessstructures/hierarchical"
	"github.com/bronlabs/bron-crypto/pkg/mpc/sharing/accessstructures/threshold"
	"github.com/bronlabs/bron-crypto/pkg/mpc/sharing/accessstructures/unanimity"

	"verif/harness/internal/vh"
)

// ---- policies as data (constructor input), with an independent evaluation ----------------------

type tree struct {
	leaf bool
	id   uint64
	t    int
	cs   []*tree
}

type level struct {
	t   int
	ids []uint64
}

type policy struct {
	fam    byte // 'T' threshold, 'U' unanimity, 'N' cnf (maximal unqualified sets), 'H' hierarchical, 'G' gate tree
	t      int
	ids    []uint64
	sets   [][]uint64
	levels []level
	root   *tree
}

func idsText(ids []uint64) string {
	if len(ids) == 0 {
		return "-"
	}
	p := make([]string, len(ids))
	for i, x := range ids {
		p[i] = strconv.FormatUint(x, 10)
	}
	return strings.Join(p, ",")
}

func parseIDs(s string) []uint64 {
	if s == "-" || s == "" {
		return nil
	}
	var out []uint64
	for _, f := range strings.Split(s, ",") {
		x, err := strconv.ParseUint(f, 10, 64)
		if err != nil {
			panic("bad id " + f)
		}
		out = append(out, x)
	}
	return out
}

func (t *tree) text() string {
	if t.leaf {
		return strconv.FormatUint(t.id, 10)
	}
	p := make([]string, len(t.cs))
	for i, c := range t.cs {
		p[i] = c.text()
	}
	return fmt.Sprintf("g%d[%s]", t.t, strings.Join(p, ","))
}

func parseTree(s string) *tree {
	pos := 0
	var node func() *tree
	number := func() string {
		st := pos
		for pos < len(s) && s[pos] >= '0' && s[pos] <= '9' {
			pos++
		}
		return s[st:pos]
	}
	node = func() *tree {
		if pos < len(s) && s[pos] == 'g' {
			pos++
			t, _ := strconv.Atoi(number())
			pos++ // [
			n := &tree{t: t}
			for {
				n.cs = append(n.cs, node())
				if s[pos] == ',' {
					pos++
					continue
				}
				pos++ // ]
				return n
			}
		}
		x, _ := strconv.ParseUint(number(), 10, 64)
		return &tree{leaf: true, id: x}
	}
	return node()
}

// text uses '/' between sets/levels and '.' inside so that a policy is one space/semicolon free token
func (p policy) text() string {
	switch p.fam {
	case 'T':
		return fmt.Sprintf("T:%d:%s", p.t, idsText(p.ids))
	case 'U':
		return "U:" + idsText(p.ids)
	case 'N':
		parts := make([]string, len(p.sets))
		for i, s := range p.sets {
			parts[i] = idsText(s)
		}
		return "N:" + strings.Join(parts, "/")
	case 'H':
		parts := make([]string, len(p.levels))
		for i, l := range p.levels {
			parts[i] = fmt.Sprintf("%d:%s", l.t, idsText(l.ids))
		}
		return "H:" + strings.Join(parts, "/")
	default:
		return "G:" + p.root.text()
	}
}

func parsePolicy(s string) policy {
	rest := s[2:]
	switch s[0] {
	case 'T':
		f := strings.SplitN(rest, ":", 2)
		t, _ := strconv.Atoi(f[0])
		return policy{fam: 'T', t: t, ids: parseIDs(f[1])}
	case 'U':
		return policy{fam: 'U', ids: parseIDs(rest)}
	case 'N':
		p := policy{fam: 'N'}
		for _, x := range strings.Split(rest, "/") {
			p.sets = append(p.sets, parseIDs(x))
		}
		return p
	case 'H':
		p := policy{fam: 'H'}
		for _, x := range strings.Split(rest, "/") {
			f := strings.SplitN(x, ":", 2)
			t, _ := strconv.Atoi(f[0])
			p.levels = append(p.levels, level{t, parseIDs(f[1])})
		}
		return p
	default:
		return policy{fam: 'G', root: parseTree(rest)}
	}
}

func (t *tree) leaves(out *[]uint64) {
	if t.leaf {
		*out = append(*out, t.id)
		return
	}
	for _, c := range t.cs {
		c.leaves(out)
	}
}

func uniqSorted(ids []uint64) []uint64 {
	m := map[uint64]bool{}
	var out []uint64
	for _, x := range ids {
		if !m[x] {
			m[x] = true
			out = append(out, x)
		}
	}
	sort.Slice(out, func(i, j int) bool { return out[i] < out[j] })
	return out
}

func (p policy) holders() []uint64 {
	var all []uint64
	switch p.fam {
	case 'T', 'U':
		all = append(all, p.ids...)
	case 'N':
		for _, s := range p.sets {
			all = append(all, s...)
		}
	case 'H':
		for _, l := range p.levels {
			all = append(all, l.ids...)
		}
	default:
		p.root.leaves(&all)
	}
	return uniqSorted(all)
}

func (t *tree) mapIDs(f func(uint64) uint64) *tree {
	if t.leaf {
		return &tree{leaf: true, id: f(t.id)}
	}
	n := &tree{t: t.t}
	for _, c := range t.cs {
		n.cs = append(n.cs, c.mapIDs(f))
	}
	return n
}

func mapSlice(ids []uint64, f func(uint64) uint64) []uint64 {
	out := make([]uint64, len(ids))
	for i, x := range ids {
		out[i] = f(x)
	}
	return out
}

func (p policy) mapIDs(f func(uint64) uint64) policy {
	q := policy{fam: p.fam, t: p.t}
	q.ids = mapSlice(p.ids, f)
	for _, s := range p.sets {
		q.sets = append(q.sets, mapSlice(s, f))
	}
	for _, l := range p.levels {
		q.levels = append(q.levels, level{l.t, mapSlice(l.ids, f)})
	}
	if p.root != nil {
		q.root = p.root.mapIDs(f)
	}
	return q
}

func idSet(ids []uint64) ds.Set[sharing.ID] {
	x := make([]sharing.ID, len(ids))
	for i, v := range ids {
		x[i] = sharing.ID(v)
	}
	return hashset.NewComparable(x...).Freeze()
}

func toIDs(ids []uint64) []sharing.ID {
	x := make([]sharing.ID, len(ids))
	for i, v := range ids {
		x[i] = sharing.ID(v)
	}
	return x
}

func (t *tree) node() *boolexpr.Node {
	if t.leaf {
		return boolexpr.ID(sharing.ID(t.id))
	}
	cs := make([]*boolexpr.Node, len(t.cs))
	for i, c := range t.cs {
		cs[i] = c.node()
	}
	return boolexpr.Threshold(t.t, cs...)
}

// build calls the family's constructor on the policy data.
func (p policy) build() (ac accessstructures.Monotone, err error) {
	if pn := vh.Safely(func() { ac, err = p.build0() }); pn != "" {
		return nil, fmt.Errorf("PANIC %s", pn)
	}
	return ac, err
}

func (p policy) build0() (accessstructures.Monotone, error) {
	switch p.fam {
	case 'T':
		ac, err := threshold.NewThresholdAccessStructure(uint(p.t), idSet(p.ids))
		if err != nil {
			return nil, err
		}
		return ac, nil
	case 'U':
		ac, err := unanimity.NewUnanimityAccessStructure(idSet(p.ids))
		if err != nil {
			return nil, err
		}
		return ac, nil
	case 'N':
		sets := make([]ds.Set[sharing.ID], len(p.sets))
		for i, s := range p.sets {
			sets[i] = idSet(s)
		}
		ac, err := cnf.NewCNFAccessStructure(sets...)
		if err != nil {
			return nil, err
		}
		return ac, nil
	case 'H':
		ls := make([]*hierarchical.ThresholdLevel, len(p.levels))
		for i, l := range p.levels {
			ls[i] = hierarchical.WithLevel(l.t, toIDs(l.ids)...)
		}
		ac, err := hierarchical.NewHierarchicalConjunctiveThresholdAccessStructure(ls...)
		if err != nil {
			return nil, err
		}
		return ac, nil
	default:
		ac, err := boolexpr.NewThresholdGateAccessStructure(p.root.node())
		if err != nil {
			return nil, err
		}
		return ac, nil
	}
}

// buildFor constructs ONE PARTY's own access-structure object for the policy: a fresh object from the
// same data, for a CNF policy with the clause list in the permutation drawn from r (returned as text),
// for the others with the ID lists shuffled. via == "cnf" converts the object to CNF through
// cnf.ConvertToCNF (the conversion path every party would run on its own).
func (p policy) buildFor(r *vh.Rng, via string) (ac accessstructures.Monotone, perm string, err error) {
	q := p
	shuffle := func(ids []uint64) []uint64 {
		out := append([]uint64(nil), ids...)
		for i := len(out) - 1; i > 0; i-- {
			j := r.Intn(i + 1)
			out[i], out[j] = out[j], out[i]
		}
		return out
	}
	perm = "-"
	switch p.fam {
	case 'N':
		idx := make([]int, len(p.sets))
		for i := range idx {
			idx[i] = i
		}
		for i := len(idx) - 1; i > 0; i-- {
			j := r.Intn(i + 1)
			idx[i], idx[j] = idx[j], idx[i]
		}
		q.sets = nil
		parts := make([]string, len(idx))
		for k, i := range idx {
			q.sets = append(q.sets, shuffle(p.sets[i]))
			parts[k] = strconv.Itoa(i)
		}
		perm = strings.Join(parts, ".")
	case 'T', 'U':
		q.ids = shuffle(p.ids)
	}
	ac, err = q.build()
	if err != nil || via != "cnf" {
		return ac, perm, err
	}
	var c *cnf.CNF
	if pn := vh.Safely(func() { c, err = cnf.ConvertToCNF(ac) }); pn != "" {
		return nil, perm, fmt.Errorf("PANIC %s", pn)
	}
	if err != nil {
		return nil, perm, err
	}
	return c, perm + "+cnf", nil
}

// smallestMemberCNF: CNF policies whose maximal unqualified sets differ only in their smallest member
// (the all-singleton sets are the CNF of 2-of-n); no holder lies in every set.
func smallestMemberCNF() []policy {
	const b = uint64(1) << 40
	n := func(sets ...[]uint64) policy { return policy{fam: 'N', sets: sets} }
	return []policy{
		n([]uint64{1}, []uint64{2}, []uint64{3}),
		n([]uint64{7}, []uint64{3}, []uint64{42}, []uint64{5}),
		n([]uint64{1, 9}, []uint64{2, 9}, []uint64{1, 2}),
		n([]uint64{1, 8, 9}, []uint64{2, 8, 9}, []uint64{1, 2}, []uint64{3, 8, 9}),
		n([]uint64{b + 1}, []uint64{b + 2}, []uint64{1<<63 + 5}),
		n([]uint64{b + 1, b + 9}, []uint64{b + 2, b + 9}, []uint64{b + 1, b + 2}),
	}
}

// ---- independent brute-force evaluation of the policy (the declared semantics) ----------------

func (t *tree) eval(s map[uint64]bool) bool {
	if t.leaf {
		return s[t.id]
	}
	c := 0
	for _, ch := range t.cs {
		if ch.eval(s) {
			c++
		}
	}
	return c >= t.t
}

func (p policy) qualified(set []uint64) bool {
	s := map[uint64]bool{}
	for _, x := range set {
		s[x] = true
	}
	switch p.fam {
	case 'T':
		return len(s) >= p.t
	case 'U':
		return len(s) == len(uniqSorted(p.ids))
	case 'N':
		for _, u := range p.sets {
			um := map[uint64]bool{}
			for _, x := range u {
				um[x] = true
			}
			sub := true
			for x := range s {
				if !um[x] {
					sub = false
					break
				}
			}
			if sub {
				return false
			}
		}
		return true
	case 'H':
		cum := map[uint64]bool{}
		for _, l := range p.levels {
			for _, x := range l.ids {
				cum[x] = true
			}
			c := 0
			for x := range s {
				if cum[x] {
					c++
				}
			}
			if c < l.t {
				return false
			}
		}
		return true
	default:
		return p.root.eval(s)
	}
}

// ---- generators ---------------------------------------------------------------------------------

func rangeIDs(a, b int) []uint64 {
	var out []uint64
	for i := a; i <= b; i++ {
		out = append(out, uint64(i))
	}
	return out
}

// genPolicy draws a policy of the family over the abstract holders 1..n (n >= 2).
func genPolicy(r *vh.Rng, fam byte, n int) policy {
	switch fam {
	case 'T':
		return policy{fam: 'T', t: 2 + r.Intn(n-1), ids: rangeIDs(1, n)}
	case 'U':
		return policy{fam: 'U', ids: rangeIDs(1, n)}
	case 'N':
		// an antichain of >= 2 proper non-empty subsets covering 1..n with empty intersection
		// (a holder contained in every maximal unqualified set gets no MSP row: known finding
		// cnf-holder-without-rows of C02, not generated here)
		full := (1 << n) - 1
		for {
			k := 2 + r.Intn(n)
			var masks []int
			for len(masks) < k {
				m := 1 + r.Intn(full-1)
				ok := true
				for _, x := range masks {
					if x&m == x || x&m == m {
						ok = false
					}
				}
				if ok {
					masks = append(masks, m)
				} else if r.Chance(1, 3) {
					break
				}
			}
			if len(masks) < 2 {
				continue
			}
			u, in := 0, full
			for _, m := range masks {
				u |= m
				in &= m
			}
			if u != full || in != 0 {
				continue
			}
			sort.Ints(masks)
			p := policy{fam: 'N'}
			for _, m := range masks {
				var s []uint64
				for i := 0; i < n; i++ {
					if m>>i&1 == 1 {
						s = append(s, uint64(i+1))
					}
				}
				p.sets = append(p.sets, s)
			}
			return p
		}
	case 'H':
		// consecutive blocks, strictly increasing cumulative thresholds, t_k <= holders so far
		for {
			var levels []level
			next, cur := 1, 0
			for next <= n {
				end := next + r.Intn(n-next+1)
				if end-cur < 1 {
					continue
				}
				t := cur + 1 + r.Intn(end-cur)
				levels = append(levels, level{t, rangeIDs(next, end)})
				next, cur = end+1, t
			}
			if len(levels) >= 1 && levels[len(levels)-1].t >= 2 {
				return policy{fam: 'H', levels: levels}
			}
		}
	default:
		var build func(lo, hi int, top bool) *tree
		build = func(lo, hi int, top bool) *tree {
			k := hi - lo + 1
			if k == 1 {
				return &tree{leaf: true, id: uint64(lo)}
			}
			parts := 2 + r.Intn(k-1)
			if !top && k <= 3 && r.Bool() {
				parts = k
			}
			cuts := []int{lo}
			for len(cuts) < parts {
				c := lo + 1 + r.Intn(k-1)
				dup := false
				for _, x := range cuts {
					if x == c {
						dup = true
					}
				}
				if !dup {
					cuts = append(cuts, c)
				}
			}
			sort.Ints(cuts)
			n := &tree{}
			for i, c := range cuts {
				end := hi
				if i+1 < len(cuts) {
					end = cuts[i+1] - 1
				}
				n.cs = append(n.cs, build(c, end, false))
			}
			n.t = 1 + r.Intn(len(n.cs))
			if top && n.t == 1 && len(n.cs) > 1 {
				n.t = 2
			}
			return n
		}
		return policy{fam: 'G', root: build(1, n, true)}
	}
}

// ID assignments: abstract holder k (1-based) -> concrete sharing.ID
var sparseIDs = []uint64{42, 3, 1000000007, 17, 65, 7, 4294967301, 100}

func assignIDs(kind int, n int) func(uint64) uint64 {
	switch kind {
	case 0: // ordinal
		return func(k uint64) uint64 { return k }
	case 1: // sparse, unsorted (not monotone in k)
		return func(k uint64) uint64 { return sparseIDs[(k-1)%uint64(len(sparseIDs))] }
	default: // >= 2^40, unsorted, one above 2^63
		return func(k uint64) uint64 {
			if k == 2 {
				return 1<<63 + 12345
			}
			return 1<<40 + (uint64(n)-k)*977 + 1
		}
	}
}

var assignNames = []string{"ordinal", "sparse", "large"}

// assignFor is assignIDs, except that a hierarchical structure needs IDs increasing with the level
// (Tassa's condition, hierarchical.CheckConstraints): there the assigned IDs are used in ascending order.
func assignFor(fam byte, kind int, n int) func(uint64) uint64 {
	f := assignIDs(kind, n)
	if fam != 'H' {
		return f
	}
	all := make([]uint64, n)
	for k := 1; k <= n; k++ {
		all[k-1] = f(uint64(k))
	}
	sort.Slice(all, func(i, j int) bool { return all[i] < all[j] })
	return func(k uint64) uint64 { return all[k-1] }
}

// hierNonMonotone reports a hierarchical policy whose IDs do not increase with the level (some ID of a
// lower level is not greater than every ID of the levels above): Tassa's condition fails and
// hierarchical.CheckConstraints must refuse to induce an MSP (Birkhoff interpolation may be singular).
func (p policy) hierNonMonotone() bool {
	if p.fam != 'H' {
		return false
	}
	var prevMax uint64
	for _, l := range p.levels {
		for _, x := range l.ids {
			if x <= prevMax {
				return true
			}
		}
		for _, x := range l.ids {
			if x > prevMax {
				prevMax = x
			}
		}
	}
	return false
}

// nonMonotoneHier: interleaved hierarchical assignments, including the degenerate arithmetic-progression
// patterns (a lower-level ID is the mean of two upper-level IDs; 2v = u) and variants >= 2^40.
func nonMonotoneHier() []policy {
	const b = uint64(1) << 40
	h := func(ls ...level) policy { return policy{fam: 'H', levels: ls} }
	return []policy{
		h(level{1, []uint64{1, 5}}, level{3, []uint64{3, 4}}),                         // 3 = (1+5)/2: {1,3,5} singular
		h(level{1, []uint64{2, 6}}, level{3, []uint64{4, 9}}),                         // 4 = (2+6)/2
		h(level{1, []uint64{3, 11}}, level{3, []uint64{7, 20}}),                       // 7 = (3+11)/2
		h(level{1, []uint64{4, 10}}, level{3, []uint64{2, 5}}),                        // 2v = u
		h(level{2, []uint64{6, 2, 12}}, level{3, []uint64{3, 1}}),                     // below every upper ID
		h(level{1, []uint64{b + 1, b + 9}}, level{3, []uint64{b + 5, b + 2}}),         // mean, >= 2^40
		h(level{1, []uint64{b + 4, 1<<63 + 8}}, level{2, []uint64{b + 2, 1<<62 + 6}}), // 2v = u (mod 2^64), large
	}
}
