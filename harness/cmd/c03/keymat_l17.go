package main

// Store / reload of Lindell17 shards (base shard + auxiliary information: own Paillier secret key, the
// Paillier public keys and encrypted shares of every peer with whom the holder forms a qualified
// two-party set) for EVERY holder, under access structures in which some holders have NO such peer
// (their two maps are legitimately empty): 3-of-3, the policy with minimal qualified sets
// {1,2},{1,3},{2,3,4} as a gate tree and as a (non-ideal) CNF.
//
// The material is produced by the library's own trusted dealer
// (lindell17/keygen/trusted_dealer.DealRandom, Paillier keys of base.IFCKeyLength = 3072 bits — the
// dealer refuses shorter keys outside tests) once and stored under <root>/corpus/c03/ (regenerated,
// slowly, when a file is missing).  The stored file keeps the key material itself (share, vector,
// MSP, Paillier keys, ciphertexts) and NOT the library's encoding of a shard: every run re-assembles
// the shards with lindell17.NewAuxiliaryInfo / lindell17.NewShard and then exercises
// MarshalCBOR -> UnmarshalCBOR of the library under test.
//
// Relation (property predicate, PropFail): decode(encode(shard)) succeeds into a fresh value and
// into a value that held another shard; every public accessor is unchanged (base accessors,
// Paillier secret key, peers, their public keys and ciphertexts), Equal holds both ways, the
// reloaded value re-encodes to the same bytes, share·G = its public share, and the auxiliary
// information still serves signing: every peer ciphertext held by the reloaded shard decrypts,
// under that peer's stored secret key, to the peer's share component.

import (
	"crypto/sha256"
	"encoding/hex"
	"fmt"
	"os"
	"path/filepath"
	"sort"
	"strings"

	"github.com/bronlabs/bron-crypto/pkg/base"
	"github.com/bronlabs/bron-crypto/pkg/base/algebra"
	"github.com/bronlabs/bron-crypto/pkg/base/curves"
	"github.com/bronlabs/bron-crypto/pkg/base/datastructures/hashmap"
	"github.com/bronlabs/bron-crypto/pkg/base/serde"
	"github.com/bronlabs/bron-crypto/pkg/encryption/paillier"
	"github.com/bronlabs/bron-crypto/pkg/mpc"
	"github.com/bronlabs/bron-crypto/pkg/mpc/sharing"
	"github.com/bronlabs/bron-crypto/pkg/mpc/sharing/scheme/kw/msp"
	"github.com/bronlabs/bron-crypto/pkg/mpc/sharing/vss/feldman"
	"github.com/bronlabs/bron-crypto/pkg/mpc/signatures/ecdsa/lindell17"
	trusted_dealer "github.com/bronlabs/bron-crypto/pkg/mpc/signatures/ecdsa/lindell17/keygen/trusted_dealer"
	"github.com/bronlabs/bron-crypto/pkg/signatures/ecdsa"

	dgen "verif/harness/internal/drive/gennaro"
	"verif/harness/internal/vh"
)

// the structures with holders that have no qualified two-party peer
var l17Policies = []string{
	"T:3:1,2,3",                       // 3-of-3: nobody has a peer
	"G:g1[g2[1,2],g2[1,3],g3[2,3,4]]", // minimal qualified sets {1,2},{1,3},{2,3,4}: holder 4 has none
	"N:1,4/2,3/2,4/3,4",               // the same structure as a non-ideal CNF
}

func verifRoot() string {
	if r := os.Getenv("VERIF_ROOT"); r != "" {
		return r
	}
	return "/verif"
}

func l17Path(curve, policy string) string {
	h := sha256.Sum256([]byte(policy))
	return filepath.Join(verifRoot(), "corpus", "c03", fmt.Sprintf("lindell17-%s-%s.cbor", curve, hex.EncodeToString(h[:6])))
}

// l17Stored is the stored key material of one holder (the pieces, not an encoded shard).
type l17Stored[P curves.Point[P, B, S], B algebra.PrimeFieldElement[B], S algebra.PrimeFieldElement[S]] struct {
	Share  *feldman.Share[S]                     `cbor:"share"`
	VV     *feldman.VerificationVector[P, S]     `cbor:"vv"`
	MSP    *msp.MSP[S]                           `cbor:"msp"`
	SK     *paillier.SecretKey                   `cbor:"sk"`
	PKs    map[sharing.ID]*paillier.PublicKey    `cbor:"pks"`
	Shares map[sharing.ID][]*paillier.Ciphertext `cbor:"encShares"`
}

type l17File struct {
	Policy  string            `cbor:"policy"`
	Curve   string            `cbor:"curve"`
	Holders map[uint64][]byte `cbor:"holders"` // CBOR of l17Stored
}

// genL17 deals with the library's trusted dealer and stores the material. Slow (3072-bit Paillier keys).
func genL17[P curves.Point[P, B, S], B algebra.PrimeFieldElement[B], S algebra.PrimeFieldElement[S]](curve ecdsa.Curve[P, B, S], curveName, policy string) error {
	ac, err := parsePolicy(policy).build()
	if err != nil {
		return err
	}
	prng := &dgen.LockedReader{R: vh.NewRng(1, "C03", "l17gen/"+curveName+"/"+policy, 0)}
	shards, _, err := trusted_dealer.DealRandom(curve, ac, base.IFCKeyLength, prng)
	if err != nil {
		return fmt.Errorf("trusted dealer: %w", err)
	}
	f := &l17File{Policy: policy, Curve: curveName, Holders: map[uint64][]byte{}}
	for id, sh := range shards.Iter() {
		st := &l17Stored[P, B, S]{Share: sh.Share(), VV: sh.VerificationVector(), MSP: sh.MSP(), SK: sh.PaillierSecretKey(),
			PKs: map[sharing.ID]*paillier.PublicKey{}, Shares: map[sharing.ID][]*paillier.Ciphertext{}}
		for j, pk := range sh.PaillierPublicKeys().Iter() {
			st.PKs[j] = pk
		}
		for j, cts := range sh.EncryptedShares().Iter() {
			st.Shares[j] = cts
		}
		b, err := serde.MarshalCBOR(st)
		if err != nil {
			return fmt.Errorf("marshal holder %d: %w", uint64(id), err)
		}
		f.Holders[uint64(id)] = b
	}
	data, err := serde.MarshalCBOR(f)
	if err != nil {
		return err
	}
	if err := os.MkdirAll(filepath.Dir(l17Path(curveName, policy)), 0o755); err != nil {
		return err
	}
	return os.WriteFile(l17Path(curveName, policy), data, 0o644)
}

// loadL17 re-assembles the shards of a stored dealing through the library's constructors.
func loadL17[P curves.Point[P, B, S], B algebra.PrimeFieldElement[B], S algebra.PrimeFieldElement[S]](curve ecdsa.Curve[P, B, S], curveName, policy string) (map[sharing.ID]*lindell17.Shard[P, B, S], error) {
	data, err := os.ReadFile(l17Path(curveName, policy))
	if err != nil {
		if err = genL17(curve, curveName, policy); err != nil {
			return nil, err
		}
		if data, err = os.ReadFile(l17Path(curveName, policy)); err != nil {
			return nil, err
		}
	}
	f, err := serde.UnmarshalCBOR[*l17File](data)
	if err != nil {
		return nil, fmt.Errorf("corpus file: %w", err)
	}
	out := map[sharing.ID]*lindell17.Shard[P, B, S]{}
	for id, b := range f.Holders {
		st, err := serde.UnmarshalCBOR[*l17Stored[P, B, S]](b)
		if err != nil {
			return nil, fmt.Errorf("holder %d: %w", id, err)
		}
		bs, err := mpc.NewBaseShard(st.Share, st.VV, st.MSP)
		if err != nil {
			return nil, fmt.Errorf("holder %d base shard: %w", id, err)
		}
		pks := hashmap.NewComparable[sharing.ID, *paillier.PublicKey]()
		cts := hashmap.NewComparable[sharing.ID, []*paillier.Ciphertext]()
		for j, pk := range st.PKs {
			pks.Put(j, pk)
		}
		for j, c := range st.Shares {
			cts.Put(j, c)
		}
		aux, err := lindell17.NewAuxiliaryInfo(st.SK, pks.Freeze(), cts.Freeze())
		if err != nil {
			return nil, fmt.Errorf("holder %d auxiliary information: %w", id, err)
		}
		sh, err := lindell17.NewShard(bs, aux)
		if err != nil {
			return nil, fmt.Errorf("holder %d shard: %w", id, err)
		}
		out[sharing.ID(id)] = sh
	}
	return out, nil
}

func digest(b []byte) string {
	h := sha256.Sum256(b)
	return hex.EncodeToString(h[:8])
}

// auxText renders the auxiliary-information accessors of a shard.
func auxText[P curves.Point[P, B, S], B algebra.PrimeFieldElement[B], S algebra.PrimeFieldElement[S]](t *lindell17.Shard[P, B, S]) string {
	var sb strings.Builder
	sk := t.PaillierSecretKey()
	if sk == nil {
		sb.WriteString("sk=nil")
	} else if b, err := serde.MarshalCBOR(sk.Public()); err == nil {
		sb.WriteString("sk.pub=" + digest(b))
	} else {
		sb.WriteString("sk.pub=ERR")
	}
	pks, cts := t.PaillierPublicKeys(), t.EncryptedShares()
	if pks == nil || cts == nil {
		return sb.String() + ";maps=nil"
	}
	ids := pks.Keys()
	sort.Slice(ids, func(i, j int) bool { return ids[i] < ids[j] })
	fmt.Fprintf(&sb, ";peers=%v;encPeers=%d", ids, cts.Size())
	for _, j := range ids {
		pk, _ := pks.Get(j)
		b, _ := serde.MarshalCBOR(pk)
		fmt.Fprintf(&sb, ";pk[%d]=%s", uint64(j), digest(b))
		c, _ := cts.Get(j)
		for k, ct := range c {
			fmt.Fprintf(&sb, ";ct[%d][%d]=%s", uint64(j), k, digest(ct.Bytes()))
		}
	}
	return sb.String()
}

// l17Case: store / reload of every holder's Lindell17 shard of one stored dealing.
func l17Case[P curves.Point[P, B, S], B algebra.PrimeFieldElement[B], S algebra.PrimeFieldElement[S]](curve ecdsa.Curve[P, B, S], a vh.Args, cs caseSpec) *caseRun {
	out := &caseRun{spec: cs, class: "L/" + cs.group + "/l17-reload"}
	caseText := cs.text()
	prop := func(key, detail string) {
		out.mism = append(out.mism, vh.Mismatch{ID: caseText, Kind: "prop", Key: key, Detail: detail, Case: caseText, PropFail: true,
			What: "property predicate on the implementation (C03: key material can be stored and reloaded without change)"})
	}
	polText := cs.pol.text()
	shards, err := loadL17(curve, cs.group, polText)
	if err != nil {
		prop("l17-material-unavailable", err.Error())
		return out
	}
	otherPol := l17Policies[0]
	if otherPol == polText {
		otherPol = l17Policies[1]
	}
	others, err := loadL17(curve, cs.group, otherPol)
	if err != nil {
		prop("l17-material-unavailable", err.Error())
		return out
	}
	out.nontrivial = true
	ac, _ := cs.pol.build()
	scheme, err := feldman.NewScheme(curve, ac)
	if err != nil {
		prop("feldman-scheme-refused", err.Error())
		return out
	}
	var ids []sharing.ID
	for id := range shards {
		ids = append(ids, id)
	}
	sort.Slice(ids, func(i, j int) bool { return ids[i] < ids[j] })
	var otherIDs []sharing.ID
	for id := range others {
		otherIDs = append(otherIDs, id)
	}
	sort.Slice(otherIDs, func(i, j int) bool { return otherIDs[i] < otherIDs[j] })
	env := kmEnv[P, S]{G: curve.Generator(), holders: ids, scheme: scheme}
	for hi, id := range ids {
		sh := shards[id]
		peers := sh.PaillierPublicKeys().Size()
		var fails []kmFail
		pn := vh.Safely(func() {
			fails = reloadObj(env, "lindell17.Shard", sh,
				func() *lindell17.Shard[P, B, S] { c := *others[otherIDs[hi%len(otherIDs)]]; return &c },
				func(t *lindell17.Shard[P, B, S]) (pubAcc[P, S], *feldman.Share[S], string, string) {
					eq := "Equal"
					if !t.Equal(sh) || !sh.Equal(t) {
						eq = "NOT Equal to the stored shard"
					}
					// the auxiliary information still serves signing: peers' ciphertexts decrypt to their shares
					dec := "ok"
					for j, cts := range t.EncryptedShares().Iter() {
						pj := shards[j]
						if pj == nil || len(cts) != len(pj.Share().Value()) {
							dec = fmt.Sprintf("peer %d: wrong number of ciphertexts", uint64(j))
							break
						}
						for k, ct := range cts {
							pt, err := pj.PaillierSecretKey().Decrypt(ct)
							if err != nil || pt.Value().Big().Cmp(bigOf(pj.Share().Value()[k])) != 0 {
								dec = fmt.Sprintf("peer %d component %d does not decrypt to the peer's share (%v)", uint64(j), k, err)
							}
						}
					}
					return t, t.Share(), "AuxiliaryInfo", auxText(t) + ";" + eq + ";decrypt=" + dec
				})
		})
		if pn != "" {
			prop("keymaterial-reload-panics", fmt.Sprintf("lindell17.Shard of holder %d: %s", uint64(id), pn))
		}
		for _, f := range fails {
			key := "keymaterial-reload-accessor-differs"
			if f.mode == "store" || f.accessor == "UnmarshalCBOR" {
				key = "keymaterial-reload-fails"
			}
			prop(key, fmt.Sprintf("%s of holder %d (%d qualified two-party peers) under %s, reload %s: %s (%s)", f.obj, uint64(id), peers, polText, f.mode, f.accessor, f.detail))
		}
	}
	return out
}
