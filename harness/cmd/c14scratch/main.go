package main

import (
	"fmt"
	"math/big"

	"github.com/bronlabs/bron-crypto/pkg/base/curves/curve25519"
	"github.com/bronlabs/bron-crypto/pkg/base/curves/edwards25519"
	"github.com/bronlabs/bron-crypto/pkg/base/curves/k256"
	"github.com/bronlabs/bron-crypto/pkg/base/curves/p256"
	"github.com/bronlabs/bron-crypto/pkg/base/curves/pairable/bls12381"
	"github.com/bronlabs/bron-crypto/pkg/base/curves/pasta"
)

func hx(b []byte) string { return new(big.Int).SetBytes(b).Text(16) }

func main() {
	func(){ defer func(){ fmt.Println("recover G1.IsTorsionFree:", recover()) }(); fmt.Println(bls12381.NewG1().Generator().IsTorsionFree()) }()
	func(){ defer func(){ fmt.Println("recover G2.Order:", recover()) }(); fmt.Println(bls12381.NewG2().Order()) }()
	bls12381.NewScalarField()
	{
		c := k256.NewCurve()
		g := c.Generator()
		x, _ := g.AffineX()
		y, _ := g.AffineY()
		g2 := g.Double()
		x2, _ := g2.AffineX()
		y2, _ := g2.AffineY()
		fmt.Println("k256", c.BaseField().Order().Big().Text(16), c.Order().Big().Text(16), c.Cofactor().Big().Text(16), hx(x.Bytes()), hx(y.Bytes()), hx(x2.Bytes()), hx(y2.Bytes()))
	}
	{
		c := p256.NewCurve()
		g := c.Generator()
		x, _ := g.AffineX()
		y, _ := g.AffineY()
		g2 := g.Double()
		x2, _ := g2.AffineX()
		y2, _ := g2.AffineY()
		fmt.Println("p256", c.BaseField().Order().Big().Text(16), c.Order().Big().Text(16), c.Cofactor().Big().Text(16), hx(x.Bytes()), hx(y.Bytes()), hx(x2.Bytes()), hx(y2.Bytes()))
	}
	{
		c := pasta.NewPallasCurve()
		g := c.Generator()
		x, _ := g.AffineX()
		y, _ := g.AffineY()
		g2 := g.Double()
		x2, _ := g2.AffineX()
		y2, _ := g2.AffineY()
		fmt.Println("pallas", c.BaseField().Order().Big().Text(16), c.Order().Big().Text(16), c.Cofactor().Big().Text(16), hx(x.Bytes()), hx(y.Bytes()), hx(x2.Bytes()), hx(y2.Bytes()))
	}
	{
		c := pasta.NewVestaCurve()
		g := c.Generator()
		x, _ := g.AffineX()
		y, _ := g.AffineY()
		g2 := g.Double()
		x2, _ := g2.AffineX()
		y2, _ := g2.AffineY()
		fmt.Println("vesta", c.BaseField().Order().Big().Text(16), c.Order().Big().Text(16), c.Cofactor().Big().Text(16), hx(x.Bytes()), hx(y.Bytes()), hx(x2.Bytes()), hx(y2.Bytes()))
	}
	{
		c := bls12381.NewG1()
		g := c.Generator()
		x, _ := g.AffineX()
		y, _ := g.AffineY()
		g2 := g.Double()
		x2, _ := g2.AffineX()
		y2, _ := g2.AffineY()
		fmt.Println("g1", c.BaseField().Order().Big().Text(16), c.Order().Big().Text(16), c.Cofactor().Big().Text(16), hx(x.Bytes()), hx(y.Bytes()), hx(x2.Bytes()), hx(y2.Bytes()))
	}
	{
		c := bls12381.NewG2()
		g := c.Generator()
		x, _ := g.AffineX()
		y, _ := g.AffineY()
		g2 := g.Double()
		x2, _ := g2.AffineX()
		y2, _ := g2.AffineY()
		fmt.Println("g2", c.BaseField().Order().Big().Text(16), c.Order().Big().Text(16), c.Cofactor().Big().Text(16), hx(x.Bytes()), hx(y.Bytes()), hx(x2.Bytes()), hx(y2.Bytes()))
		fmt.Printf("g2 comps %x\n", x.ComponentsBytes())
	}
	{
		c := edwards25519.NewPrimeSubGroup()
		g := c.Generator()
		x, _ := g.AffineX()
		y, _ := g.AffineY()
		fmt.Println("ed", c.BaseField().Order().Big().Text(16), c.Order().Big().Text(16), c.Cofactor().Big().Text(16), hx(x.Bytes()), hx(y.Bytes()))
		cc := edwards25519.NewCurve()
		fmt.Println("edfull", cc.Order().Big().Text(16), cc.Cofactor().Big().Text(16))
	}
	{
		c := curve25519.NewPrimeSubGroup()
		g := c.Generator()
		x, _ := g.AffineX()
		y, _ := g.AffineY()
		fmt.Println("x25519", c.BaseField().Order().Big().Text(16), c.Order().Big().Text(16), c.Cofactor().Big().Text(16), hx(x.Bytes()), hx(y.Bytes()))
		cc := curve25519.NewCurve()
		fmt.Println("x25519full", cc.Order().Big().Text(16), cc.Cofactor().Big().Text(16))
	}
}
