package main

// One statement/witness pair of one sigma protocol behind closures (so that the generic
// type parameters of the library do not leak into the test loops), and the compiler-level
// checks that are the same for every protocol.

import (
	"bytes"
	"strings"
	"time"

	"github.com/bronlabs/bron-crypto/pkg/base/serde"
	"github.com/bronlabs/bron-crypto/pkg/mpc/session"
	"github.com/bronlabs/bron-crypto/pkg/proofs/sigma"
	"github.com/bronlabs/bron-crypto/pkg/proofs/sigma/compiler"
	"github.com/bronlabs/bron-crypto/pkg/proofs/sigma/compiler/fiatshamir"
	"github.com/bronlabs/bron-crypto/pkg/proofs/sigma/compiler/fischlin"
	"github.com/bronlabs/bron-crypto/pkg/proofs/sigma/compiler/randfischlin"

	"verif/harness/internal/vh"
)

// decoded is a proof as the verifier sees it after decoding: per repetition the canonical
// bytes of commitment, challenge, response (what "the decoded value" means for the
// byte-flip classification) and the typed values for the sigma verifier.
type decoded struct {
	a, e, z [][]byte
	ta, tz  any
	canon   []byte
}

func (d *decoded) equal(o *decoded) bool {
	if d == nil || o == nil {
		return d == o
	}
	eq := func(x, y [][]byte) bool {
		if len(x) != len(y) {
			return false
		}
		for i := range x {
			if !bytes.Equal(x[i], y[i]) {
				return false
			}
		}
		return true
	}
	if d.canon != nil && o.canon != nil {
		return bytes.Equal(d.canon, o.canon)
	}
	return eq(d.a, o.a) && eq(d.e, o.e) && eq(d.z, o.z)
}

// expectation returns what the property demands of the verifier for a proof that decodes to d
// when the honest proof decoded to o: "1" the very same values (canonical re-encodings
// coincide) must be accepted; "0" a changed value must be rejected; "?" the canonical
// re-encodings differ only in leading zero bytes of big-number components (a zero-padded
// integer is numerically the same value but may or may not be accepted as an encoding) and
// no challenge differs — either verdict is fine.
func (d *decoded) expectation(o *decoded) string {
	if d == nil {
		return "0"
	}
	if d.equal(o) {
		return "1"
	}
	if len(d.e) != len(o.e) {
		return "0"
	}
	for i := range d.e {
		if !bytes.Equal(d.e[i], o.e[i]) {
			return "0"
		}
	}
	if d.canon != nil && o.canon != nil && canonNorm(d.canon) == canonNorm(o.canon) {
		return "?"
	}
	return "0"
}

// canonNorm: the CBOR tree with leading zero bytes of byte-string leaves removed.
func canonNorm(b []byte) string {
	ls, err := cborLeaves(b)
	if err != nil {
		return "!" + string(b)
	}
	var sb strings.Builder
	for _, l := range ls {
		c := b[l.start:l.end]
		if l.kind == 'b' {
			for len(c) > 0 && c[0] == 0 {
				c = c[1:]
			}
		}
		sb.WriteString(l.path)
		sb.WriteByte(l.kind)
		sb.WriteString(string(c))
		sb.WriteByte(0xff)
	}
	return sb.String()
}

// which component differs first (for the distribution / keys)
func (d *decoded) diff(o *decoded) string {
	if len(d.a) != len(o.a) {
		return "count"
	}
	for i := range d.a {
		if !bytes.Equal(d.a[i], o.a[i]) {
			return "a"
		}
	}
	for i := range d.e {
		if i >= len(o.e) || !bytes.Equal(d.e[i], o.e[i]) {
			return "e"
		}
	}
	for i := range d.z {
		if i >= len(o.z) || !bytes.Equal(d.z[i], o.z[i]) {
			return "z"
		}
	}
	return "same"
}

type niCase struct {
	// light: an expensive verifier (2048-bit moduli, many repetitions): changed contexts,
	// a few structurally chosen component alterations and count changes only
	light bool
	// heavy: one verification costs tens of seconds (128 repetitions over 2048-bit Paillier):
	// light, and only the first / last element of the largest repeated arrays altered
	heavy bool
	id    string // e.g. "schnorr/k256"
	pname string // sigma.Name of the protocol
	L     int    // challenge bytes
	ss    uint   // special soundness parameter
	rho   uint64 // Fischlin repetitions for this protocol name
	stmt  [2][]byte
	rec   *recReader

	compilers []compiler.Name
	prove     func(comp compiler.Name, ctx *session.Context) ([]byte, error)
	verify    func(comp compiler.Name, ctx *session.Context, which int, proof []byte) error
	decode    func(comp compiler.Name, proof []byte) *decoded
	// sigma verifier of the implementation on repetition i of d with challenge e
	sigmaOK func(which int, d *decoded, i int, e []byte) bool
	// FS wire encoding of a transcript produced by the protocol's simulator for challenge e
	simulateFS func(which int, e []byte) (proof []byte, aBytes []byte, err error)
	// FS wire encoding of the proof d with the k-th component (0 a, 1 e, 2 z) taken from o
	spliceFS func(d, o *decoded, k int) ([]byte, error)
	// re-encodings of the decoded proof with a changed number of components / structure
	restructure func(comp compiler.Name, d *decoded) map[string][]byte
	// re-encoding with the challenge of repetition i replaced
	withChallenge func(comp compiler.Name, d *decoded, i int, e []byte) []byte
	// adaptive-statement forgery (Schnorr only): given the challenge derivation that ignores
	// the statement, returns a proof, the bytes of a statement chosen after the challenge for
	// which the proof satisfies the sigma relation, and the compiled verifier's verdict on it
	adaptive func(r *vh.Rng, deriveNoStmt func(a []byte) []byte) (proof, stmt []byte, verdict func(cs ctxSpec) string)
	// harness-side (rand)Fischlin prover: given the hash-target predicate for (i, e, zBytes)
	// and the challenge generator for attempt j, returns a proof in which every repetition
	// hits the target, and for every repetition i a variant in which exactly repetition i
	// carries a valid sigma transcript that MISSES the target
	grind func(comp compiler.Name, reps int, hit func(aall []byte, i int, e, z []byte) bool, chal func(j int) (wire, sigma []byte)) (honest []byte, misses [][]byte)
	// OR composition only: the no-witness forger with an over-long challenge share
	orForge func(r *vh.Rng) *orForgery
	// interactive compilers (sigma.Prover/Verifier, zk.Prover/Verifier); "" = as expected
	runInteractive func(kind string, cs ctxSpec, r *vh.Rng) string
}

type fsWire[A any, Z any] struct {
	A A      `cbor:"A"`
	E []byte `cbor:"E"`
	Z Z      `cbor:"Z"`
}

func safeBytes(f func() []byte) (b []byte, ok bool) {
	p := vh.Safely(func() { b = f() })
	return b, p == ""
}

func mkCase[X sigma.Statement, W sigma.Witness, A sigma.Statement, S sigma.State, Z sigma.Response](
	id string, proto sigma.Protocol[X, W, A, S, Z], rec *recReader, x X, w W, x2 X, rho uint64,
) *niCase {
	xs := [2]X{x, x2}
	c := &niCase{
		id: id, pname: string(proto.Name()), L: proto.GetChallengeBytesLength(), ss: proto.SpecialSoundness(),
		rho: rho, stmt: [2][]byte{x.Bytes(), x2.Bytes()}, rec: rec,
		compilers: []compiler.Name{fiatshamir.Name, fischlin.Name, randfischlin.Name},
	}
	c.prove = func(comp compiler.Name, ctx *session.Context) ([]byte, error) {
		ni, err := compiler.Compile(comp, proto, rec)
		if err != nil {
			return nil, err
		}
		p, err := ni.NewProver(ctx)
		if err != nil {
			return nil, err
		}
		return p.Prove(x, w)
	}
	c.verify = func(comp compiler.Name, ctx *session.Context, which int, proof []byte) error {
		ni, err := compiler.Compile(comp, proto, rec)
		if err != nil {
			return err
		}
		v, err := ni.NewVerifier(ctx)
		if err != nil {
			return err
		}
		return v.Verify(xs[which], proof)
	}
	enc := func(comp compiler.Name, as []A, es [][]byte, zs []Z) []byte {
		var b []byte
		var err error
		switch comp {
		case fiatshamir.Name:
			b, err = serde.MarshalCBOR(&fsWire[A, Z]{A: as[0], E: es[0], Z: zs[0]})
		case fischlin.Name:
			b, err = serde.MarshalCBOR(&fischlin.Proof[A, Z]{A: as, E: es, Z: zs})
		default:
			b, err = serde.MarshalCBOR(&randfischlin.Proof[A, Z]{A: as, E: es, Z: zs})
		}
		if err != nil {
			return nil
		}
		return b
	}
	c.decode = func(comp compiler.Name, proof []byte) (d *decoded) {
		var as []A
		var es [][]byte
		var zs []Z
		if p := vh.Safely(func() {
			switch comp {
			case fiatshamir.Name:
				p, err := serde.UnmarshalCBOR[*fiatshamir.Proof[A, Z]](proof)
				if err != nil || p == nil {
					return
				}
				as, es, zs = []A{p.Commitment()}, [][]byte{p.Challenge()}, []Z{p.Response()}
			case fischlin.Name:
				p, err := serde.UnmarshalCBOR[*fischlin.Proof[A, Z]](proof)
				if err != nil || p == nil {
					return
				}
				as, es, zs = p.A, p.E, p.Z
			case randfischlin.Name:
				p, err := serde.UnmarshalCBOR[*randfischlin.Proof[A, Z]](proof)
				if err != nil || p == nil {
					return
				}
				as, es, zs = p.A, p.E, p.Z
			}
		}); p != "" || as == nil {
			return nil
		}
		d = &decoded{ta: as, tz: zs, e: es}
		for i := range as {
			ab, ok1 := safeBytes(func() []byte { return as[i].Bytes() })
			zb, ok2 := safeBytes(func() []byte { return zs[i].Bytes() })
			if !ok1 || !ok2 {
				return nil
			}
			d.a = append(d.a, ab)
			d.z = append(d.z, zb)
		}
		// canonical re-encoding of the decoded typed values: what "the decoded value" is
		vh.Safely(func() { d.canon = enc(comp, as, es, zs) })
		return d
	}
	c.sigmaOK = func(which int, d *decoded, i int, e []byte) (ok bool) {
		as, zs := d.ta.([]A), d.tz.([]Z)
		if i >= len(as) || i >= len(zs) {
			return false
		}
		t0 := time.Now()
		vh.Safely(func() { ok = proto.Verify(xs[which], as[i], e, zs[i]) == nil })
		tSigma += time.Since(t0)
		return ok
	}
	c.simulateFS = func(which int, e []byte) ([]byte, []byte, error) {
		a, z, err := proto.RunSimulator(xs[which], e)
		if err != nil {
			return nil, nil, err
		}
		b, err := serde.MarshalCBOR(&fsWire[A, Z]{A: a, E: e, Z: z})
		return b, a.Bytes(), err
	}
	c.spliceFS = func(d, o *decoded, k int) ([]byte, error) {
		wv := &fsWire[A, Z]{A: d.ta.([]A)[0], E: d.e[0], Z: d.tz.([]Z)[0]}
		switch k {
		case 0:
			wv.A = o.ta.([]A)[0]
		case 1:
			wv.E = o.e[0]
		case 2:
			wv.Z = o.tz.([]Z)[0]
		}
		return serde.MarshalCBOR(wv)
	}
	c.withChallenge = func(comp compiler.Name, d *decoded, i int, e []byte) []byte {
		es := append([][]byte{}, d.e...)
		es[i] = e
		return enc(comp, d.ta.([]A), es, d.tz.([]Z))
	}
	c.restructure = func(comp compiler.Name, d *decoded) map[string][]byte {
		out := map[string][]byte{}
		put := func(k string, b []byte) {
			if b != nil {
				out[k] = b
			}
		}
		as, es, zs := d.ta.([]A), d.e, d.tz.([]Z)
		put("reencoded", enc(comp, as, es, zs))
		e0 := es[0]
		withE := func(e []byte) []byte { return c.withChallenge(comp, d, 0, e) }
		put("e-truncated", withE(e0[:len(e0)-1]))
		put("e-extended", withE(append(append([]byte{}, e0...), 0)))
		put("e-empty", withE([]byte{}))
		if comp != randfischlin.Name { // for randomised Fischlin see the leading-zero search
			put("e-leading-zero", withE(append([]byte{0}, e0...)))
		}
		if comp == fiatshamir.Name {
			type noZ struct {
				A A      `cbor:"A"`
				E []byte `cbor:"E"`
			}
			type extra struct {
				A A      `cbor:"A"`
				E []byte `cbor:"E"`
				Z Z      `cbor:"Z"`
				Y []byte `cbor:"Y"`
			}
			if b, err := serde.MarshalCBOR(&noZ{A: as[0], E: e0}); err == nil {
				put("missing-response", b)
			}
			if b, err := serde.MarshalCBOR(&extra{A: as[0], E: e0, Z: zs[0], Y: []byte{1}}); err == nil {
				put("extra-field", b)
			}
			if b, err := serde.MarshalCBOR([]any{as[0], e0, zs[0]}); err == nil {
				put("array-instead-of-map", b)
			}
			return out
		}
		n := len(as)
		if n >= 2 {
			put("one-repetition-fewer", enc(comp, as[:n-1], es[:n-1], zs[:n-1]))
			put("one-repetition-more", enc(comp, append(append([]A{}, as...), as[n-1]), append(append([][]byte{}, es...), es[n-1]), append(append([]Z{}, zs...), zs[n-1])))
			put("challenge-list-shorter", enc(comp, as, es[:n-1], zs))
			put("response-list-shorter", enc(comp, as, es, zs[:n-1]))
			put("single-repetition", enc(comp, as[:1], es[:1], zs[:1]))
			sa := append([]A{}, as...)
			se := append([][]byte{}, es...)
			sz := append([]Z{}, zs...)
			sa[0], sa[1], se[0], se[1], sz[0], sz[1] = sa[1], sa[0], se[1], se[0], sz[1], sz[0]
			put("repetitions-swapped", enc(comp, sa, se, sz))
			// repetition 1 replaced by a copy of repetition 0 (a valid sigma transcript at the wrong index)
			ca := append([]A{}, as...)
			ce := append([][]byte{}, es...)
			cz := append([]Z{}, zs...)
			ca[1], ce[1], cz[1] = ca[0], ce[0], cz[0]
			put("repetition-copied", enc(comp, ca, ce, cz))
		}
		return out
	}
	c.grind = func(comp compiler.Name, reps int, hit func(aall []byte, i int, e, z []byte) bool, chal func(j int) (wire, sigma []byte)) ([]byte, [][]byte) {
		as := make([]A, reps)
		st := make([]S, reps)
		var aall []byte
		for i := range as {
			var err error
			if as[i], st[i], err = proto.ComputeProverCommitment(x, w); err != nil {
				return nil, nil
			}
			aall = append(aall, as[i].Bytes()...)
		}
		es := make([][]byte, reps)
		zs := make([]Z, reps)
		missE := make([][]byte, reps)
		missZ := make([]Z, reps)
		haveMiss := make([]bool, reps)
		for i := range as {
			found := false
			for j := 0; j < 1<<15 && !(found && haveMiss[i]); j++ {
				wire, sig := chal(j)
				z, err := proto.ComputeProverResponse(x, w, as[i], st[i], sig)
				if err != nil {
					return nil, nil
				}
				if hit(aall, i, wire, z.Bytes()) {
					if !found {
						es[i], zs[i], found = wire, z, true
					}
				} else if !haveMiss[i] {
					missE[i], missZ[i], haveMiss[i] = wire, z, true
				}
			}
			if !found || !haveMiss[i] {
				return nil, nil
			}
		}
		honest := enc(comp, as, es, zs)
		var misses [][]byte
		for i := range as {
			e2 := append([][]byte{}, es...)
			z2 := append([]Z{}, zs...)
			e2[i], z2[i] = missE[i], missZ[i]
			misses = append(misses, enc(comp, as, e2, z2))
		}
		return honest, misses
	}
	c.runInteractive = func(kind string, cs ctxSpec, r *vh.Rng) string {
		return runInteractive(kind, proto, x, w, x2, cs, r)
	}
	return c
}
