package main

// One statement/witness pair of one sigma protocol behind closures (so that the generic
// type parameters of the library do not leak into the test loops), and the compiler-level
// checks that are the same for every protocol.

import (
	"bytes"

	"github.com/bronlabs/bron-crypto/pkg/base/serde"
	"github.com/bronlabs/bron-crypto/pkg/mpc/session"
	"github.com/bronlabs/bron-crypto/pkg/proofs/sigma"
	"github.com/bronlabs/bron-crypto/pkg/proofs/sigma/compiler"
	"github.com/bronlabs/bron-crypto/pkg/proofs/sigma/compiler/fiatshamir"
	"github.com/bronlabs/bron-crypto/pkg/proofs/sigma/compiler/fischlin"
	"github.com/bronlabs/bron-crypto/pkg/proofs/sigma/compiler/randfischlin"

	"verif/harness/internal/vh"
)

// decoded is a proof as the verifier sees it after decoding: per repetition the canonical
// bytes of commitment, challenge, response (what "the decoded value" means for the
// byte-flip classification) and the typed values for the sigma verifier.
type decoded struct {
	a, e, z [][]byte
	ta, tz  any
}

func (d *decoded) equal(o *decoded) bool {
	if d == nil || o == nil {
		return d == o
	}
	eq := func(x, y [][]byte) bool {
		if len(x) != len(y) {
			return false
		}
		for i := range x {
			if !bytes.Equal(x[i], y[i]) {
				return false
			}
		}
		return true
	}
	return eq(d.a, o.a) && eq(d.e, o.e) && eq(d.z, o.z)
}

// which component differs first (for the distribution / keys)
func (d *decoded) diff(o *decoded) string {
	if len(d.a) != len(o.a) {
		return "count"
	}
	for i := range d.a {
		if !bytes.Equal(d.a[i], o.a[i]) {
			return "a"
		}
	}
	for i := range d.e {
		if i >= len(o.e) || !bytes.Equal(d.e[i], o.e[i]) {
			return "e"
		}
	}
	for i := range d.z {
		if i >= len(o.z) || !bytes.Equal(d.z[i], o.z[i]) {
			return "z"
		}
	}
	return "same"
}

type niCase struct {
	id    string // e.g. "schnorr/k256"
	pname string // sigma.Name of the protocol
	L     int    // challenge bytes
	ss    uint   // special soundness parameter
	rho   uint64 // Fischlin repetitions for this protocol name
	stmt  [2][]byte
	rec   *recReader

	compilers []compiler.Name
	prove     func(comp compiler.Name, ctx *session.Context) ([]byte, error)
	verify    func(comp compiler.Name, ctx *session.Context, which int, proof []byte) error
	decode    func(comp compiler.Name, proof []byte) *decoded
	// sigma verifier of the implementation on repetition i of d with challenge e
	sigmaOK func(which int, d *decoded, i int, e []byte) bool
	// FS wire encoding of a transcript produced by the protocol's simulator for challenge e
	simulateFS func(which int, e []byte) (proof []byte, aBytes []byte, err error)
	// FS wire encoding of the proof d with the k-th component (0 a, 1 e, 2 z) taken from o
	spliceFS func(d, o *decoded, k int) ([]byte, error)
}

type fsWire[A any, Z any] struct {
	A A      `cbor:"A"`
	E []byte `cbor:"E"`
	Z Z      `cbor:"Z"`
}

func safeBytes(f func() []byte) (b []byte, ok bool) {
	p := vh.Safely(func() { b = f() })
	return b, p == ""
}

func mkCase[X sigma.Statement, W sigma.Witness, A sigma.Statement, S sigma.State, Z sigma.Response](
	id string, proto sigma.Protocol[X, W, A, S, Z], rec *recReader, x X, w W, x2 X, rho uint64,
) *niCase {
	xs := [2]X{x, x2}
	c := &niCase{
		id: id, pname: string(proto.Name()), L: proto.GetChallengeBytesLength(), ss: proto.SpecialSoundness(),
		rho: rho, stmt: [2][]byte{x.Bytes(), x2.Bytes()}, rec: rec,
		compilers: []compiler.Name{fiatshamir.Name, fischlin.Name, randfischlin.Name},
	}
	c.prove = func(comp compiler.Name, ctx *session.Context) ([]byte, error) {
		ni, err := compiler.Compile(comp, proto, rec)
		if err != nil {
			return nil, err
		}
		p, err := ni.NewProver(ctx)
		if err != nil {
			return nil, err
		}
		return p.Prove(x, w)
	}
	c.verify = func(comp compiler.Name, ctx *session.Context, which int, proof []byte) error {
		ni, err := compiler.Compile(comp, proto, rec)
		if err != nil {
			return err
		}
		v, err := ni.NewVerifier(ctx)
		if err != nil {
			return err
		}
		return v.Verify(xs[which], proof)
	}
	c.decode = func(comp compiler.Name, proof []byte) (d *decoded) {
		var as []A
		var es [][]byte
		var zs []Z
		if p := vh.Safely(func() {
			switch comp {
			case fiatshamir.Name:
				p, err := serde.UnmarshalCBOR[*fiatshamir.Proof[A, Z]](proof)
				if err != nil || p == nil {
					return
				}
				as, es, zs = []A{p.Commitment()}, [][]byte{p.Challenge()}, []Z{p.Response()}
			case fischlin.Name:
				p, err := serde.UnmarshalCBOR[*fischlin.Proof[A, Z]](proof)
				if err != nil || p == nil {
					return
				}
				as, es, zs = p.A, p.E, p.Z
			case randfischlin.Name:
				p, err := serde.UnmarshalCBOR[*randfischlin.Proof[A, Z]](proof)
				if err != nil || p == nil {
					return
				}
				as, es, zs = p.A, p.E, p.Z
			}
		}); p != "" || as == nil {
			return nil
		}
		d = &decoded{ta: as, tz: zs, e: es}
		for i := range as {
			ab, ok1 := safeBytes(func() []byte { return as[i].Bytes() })
			zb, ok2 := safeBytes(func() []byte { return zs[i].Bytes() })
			if !ok1 || !ok2 {
				return nil
			}
			d.a = append(d.a, ab)
			d.z = append(d.z, zb)
		}
		return d
	}
	c.sigmaOK = func(which int, d *decoded, i int, e []byte) (ok bool) {
		as, zs := d.ta.([]A), d.tz.([]Z)
		if i >= len(as) || i >= len(zs) {
			return false
		}
		vh.Safely(func() { ok = proto.Verify(xs[which], as[i], e, zs[i]) == nil })
		return ok
	}
	c.simulateFS = func(which int, e []byte) ([]byte, []byte, error) {
		a, z, err := proto.RunSimulator(xs[which], e)
		if err != nil {
			return nil, nil, err
		}
		b, err := serde.MarshalCBOR(&fsWire[A, Z]{A: a, E: e, Z: z})
		return b, a.Bytes(), err
	}
	c.spliceFS = func(d, o *decoded, k int) ([]byte, error) {
		wv := &fsWire[A, Z]{A: d.ta.([]A)[0], E: d.e[0], Z: d.tz.([]Z)[0]}
		switch k {
		case 0:
			wv.A = o.ta.([]A)[0]
		case 1:
			wv.E = o.e[0]
		case 2:
			wv.Z = o.tz.([]Z)[0]
		}
		return serde.MarshalCBOR(wv)
	}
	return c
}
