package main

// Sigma-level correspondence in the exponent for the protocols whose homomorphism is a
// linear map between prime-order groups (Schnorr, Okamoto), batch Schnorr, and the OR
// composition: the model (Z_q vectors / linear forms) predicts commitments, responses,
// verdicts, simulated commitments and extracted witnesses; the harness checks them against
// the implementation with the implementation's own group operations.

import (
	"bytes"
	"fmt"
	"math/big"
	"strings"

	"github.com/bronlabs/bron-crypto/pkg/base/algebra"
	"github.com/bronlabs/bron-crypto/pkg/base/algebra/constructions"
	"github.com/bronlabs/bron-crypto/pkg/base/curves"
	"github.com/bronlabs/bron-crypto/pkg/proofs/dlog/batch_schnorr"
	"github.com/bronlabs/bron-crypto/pkg/proofs/dlog/schnorr"
	"github.com/bronlabs/bron-crypto/pkg/proofs/okamoto"
	"github.com/bronlabs/bron-crypto/pkg/proofs/sigma"
	"github.com/bronlabs/bron-crypto/pkg/proofs/sigma/compose/sigand"
	"github.com/bronlabs/bron-crypto/pkg/proofs/sigma/compose/sigor"

	"verif/harness/internal/vh"
)

type linCase struct {
	id  string
	run func(h *harness, r *vh.Rng)
}

// challenges used at the sigma level: random ones plus boundary values
func challenges(r *vh.Rng, L int) [][]byte {
	zero := make([]byte, L)
	one := make([]byte, L)
	one[L-1] = 1
	ff := bytes.Repeat([]byte{0xff}, L)
	return [][]byte{r.Bytes(L), r.Bytes(L), zero, one, ff}
}

// maurerOps is the typed protocol behind closures, all values as vectors over Z_q.
type maurerOps struct {
	id, q, phi string
	n          int
	L          int
	x, w       []*big.Int // statement (linear form over the basis) and witness
	commit     func() (a any, k []*big.Int)
	aMatches   func(a any, v []*big.Int) bool // a == sum v_i * basis_i in the implementation's group
	respond    func(e []byte) []*big.Int      // with the state of the last commit
	verify     func(a any, e []byte, z []*big.Int, other bool) bool
	simulate   func(e []byte) (a any, z []*big.Int)
	extract    func(a any, e1 []byte, z1 []*big.Int, e2 []byte, z2 []*big.Int) (w []*big.Int, ok bool)
	valid      func(w []*big.Int) bool // ValidateStatement(x, w)
}

func zeros(n int) []*big.Int {
	v := make([]*big.Int, n)
	for i := range v {
		v[i] = new(big.Int)
	}
	return v
}

func parseVec(s string) []*big.Int {
	if s == "-" || s == "" {
		return nil
	}
	var v []*big.Int
	for _, p := range strings.Split(s, ",") {
		v = append(v, vh.UnZHex(p))
	}
	return v
}

func vecEq(a, b []*big.Int) bool {
	if len(a) != len(b) {
		return false
	}
	for i := range a {
		if a[i].Cmp(b[i]) != 0 {
			return false
		}
	}
	return true
}

func b2i(b bool) string {
	if b {
		return "1"
	}
	return "0"
}

func (o *maurerOps) run(h *harness, r *vh.Rng) {
	pre := fmt.Sprintf("%s %d %s", o.q, o.n, o.phi)
	es := challenges(r, o.L)
	for ci, e1 := range es {
		a, k := o.commit()
		z1 := o.respond(e1)
		e2 := es[(ci+1)%len(es)]
		if ci == 1 {
			e2 = e1 // equal challenges: the extractor must refuse (gcd(l, 0) = l)
		}
		z2 := o.respond(e2) // rewound prover: same first message, another challenge
		cs := fmt.Sprintf("sigma %s k=%s w=%s e1=%s e2=%s", o.id, vecText(k), vecText(o.w), vh.Hex(e1), vh.Hex(e2))
		h.res.Count("sigma-prove/"+o.id, cs, true)
		// prover: commitment and response as predicted from the nonce
		out := h.ask(fmt.Sprintf("MP %s %s %s %s", pre, vecText(k), vecText(o.w), vh.Hex(e1)))
		f := strings.Split(out, " ")
		if len(f) != 2 || !o.aMatches(a, parseVec(f[0])) || !vecEq(parseVec(f[1]), z1) {
			h.corr("sigma-prove/"+o.id, cs, fmt.Sprintf("model (a,z)=%s implementation z=%s (a compared in the group)", out, vecText(z1)), false, "Sigma.lin_commit/lin_respond vs ComputeProverCommitment/Response")
		}
		// verifier: accept the honest transcript, reject crossed response / other statement
		type vc struct {
			e     []byte
			z     []*big.Int
			other bool
			want  bool
		}
		e1zero := new(big.Int).SetBytes(e1).Sign() == 0 // e = 0: the statement does not enter the check
		for _, c := range []vc{{e1, z1, false, true}, {e2, z2, false, true}, {e1, z2, false, vecEq(z1, z2)}, {e1, z1, true, e1zero}} {
			got := o.verify(a, c.e, c.z, c.other)
			xv := o.x
			if c.other {
				xv = nil
			}
			h.res.Count("sigma-verify/"+o.id, cs+fmt.Sprint(c.other, c.want), true)
			if xv != nil {
				mv := h.ask(fmt.Sprintf("MV %s %s %s %s %s", pre, vecText(xv), f[0], vh.Hex(c.e), vecText(c.z)))
				if mv != b2i(got) {
					h.corr("sigma-verify/"+o.id, cs, fmt.Sprintf("model verdict %s implementation %v", mv, got), got != c.want, "Sigma.lin_verify vs Protocol.Verify")
				}
			}
			if got != c.want {
				h.prop("sigma-verify/"+o.id, cs, fmt.Sprintf("Verify returned %v, expected %v (other statement: %v)", got, c.want, c.other), "maurer_complete / sigma verifier")
			}
		}
		// simulator
		as, zs := o.simulate(e1)
		h.res.Count("sigma-simulate/"+o.id, cs, true)
		ms := h.ask(fmt.Sprintf("MS %s %s %s %s", pre, vecText(o.x), vh.Hex(e1), vecText(zs)))
		if !o.aMatches(as, parseVec(ms)) {
			h.corr("sigma-simulate/"+o.id, cs+" zs="+vecText(zs), "simulated commitment differs from the model's", false, "Sigma.lin_simulate vs RunSimulator")
		}
		if !o.verify(as, e1, zs, false) {
			h.prop("sigma-simulate/"+o.id, cs+" zs="+vecText(zs), "simulated transcript does not verify", "maurer_simulator_verifies")
		}
		// extractor on the two accepting transcripts with the same first message
		w, ok := o.extract(a, e1, z1, e2, z2)
		h.res.Count("sigma-extract/"+o.id, cs, !bytes.Equal(e1, e2))
		mx := h.ask(fmt.Sprintf("MX %s %s %s %s %s %s %s %s %s", pre, vecText(zeros(len(o.w))), o.q, vecText(o.x), f[0], vh.Hex(e1), vecText(z1), vh.Hex(e2), vecText(z2)))
		distinct := new(big.Int).SetBytes(e1).Cmp(new(big.Int).SetBytes(e2)) != 0
		if ok != (mx != "NONE") {
			h.corr("sigma-extract/"+o.id, cs, fmt.Sprintf("model %s implementation ok=%v", mx, ok), ok && !o.valid(w), "Sigma.lin_extract vs Extract")
		}
		if ok && !o.valid(w) {
			h.prop("sigma-extract/"+o.id, cs, "extractor output is not a valid witness: "+vecText(w), "maurer_special_sound")
		}
		if distinct && !ok {
			h.prop("sigma-extract/"+o.id, cs, "extractor failed on two accepting transcripts with distinct challenges", "maurer_special_sound")
		}
		if ok && mx != "NONE" && !o.valid(parseVec(mx)) {
			h.corr("sigma-extract/"+o.id, cs, "model's extracted witness "+mx+" is not valid for the implementation", false, "Sigma.lin_extract")
		}
	}
}

func schnorrLin[P curves.Point[P, F, S], F algebra.FieldElement[F], S algebra.PrimeFieldElement[S]](
	gname string, curve curves.Curve[P, F, S], proto *schnorr.Protocol[P, S], rec *recReader, w S, r *vh.Rng,
) *linCase {
	field := algebra.StructureMustBeAs[algebra.PrimeField[S]](curve.ScalarStructure())
	g := curve.Generator()
	x := schnorr.NewStatement(g.ScalarOp(w))
	x2 := schnorr.NewStatement(g.ScalarOp(w.Add(field.One())))
	wit := schnorr.NewWitness(w)
	q := new(big.Int).SetBytes(curve.Order().Bytes())
	toS := func(v *big.Int) S { return must(field.FromWideBytes(v.Bytes())) }
	var st *schnorr.State[S]
	var com *schnorr.Commitment[P, S]
	o := &maurerOps{id: "schnorr/" + gname, q: vh.ZHex(q), phi: "1", n: 1, L: proto.GetChallengeBytesLength(),
		x: []*big.Int{sBig(w)}, w: []*big.Int{sBig(w)}}
	o.commit = func() (any, []*big.Int) {
		a, s, err := proto.ComputeProverCommitment(x, wit)
		if err != nil {
			panic(err)
		}
		com, st = a, s
		return a, []*big.Int{sBig(s.S)}
	}
	o.aMatches = func(a any, v []*big.Int) bool {
		return len(v) == 1 && a.(*schnorr.Commitment[P, S]).A.Equal(g.ScalarOp(toS(v[0])))
	}
	o.respond = func(e []byte) []*big.Int {
		z := must(proto.ComputeProverResponse(x, wit, com, st, e))
		return []*big.Int{sBig(z.Z)}
	}
	o.verify = func(a any, e []byte, z []*big.Int, other bool) bool {
		xx := x
		if other {
			xx = x2
		}
		return proto.Verify(xx, a.(*schnorr.Commitment[P, S]), e, &schnorr.Response[S]{Z: toS(z[0])}) == nil
	}
	o.simulate = func(e []byte) (any, []*big.Int) {
		a, z, err := proto.RunSimulator(x, e)
		if err != nil {
			panic(err)
		}
		return a, []*big.Int{sBig(z.Z)}
	}
	o.extract = func(a any, e1 []byte, z1 []*big.Int, e2 []byte, z2 []*big.Int) ([]*big.Int, bool) {
		wv, err := proto.Extract(x, a.(*schnorr.Commitment[P, S]), []sigma.ChallengeBytes{e1, e2},
			[]*schnorr.Response[S]{{Z: toS(z1[0])}, {Z: toS(z2[0])}})
		if err != nil {
			return nil, false
		}
		return []*big.Int{sBig(wv.W)}, true
	}
	o.valid = func(wv []*big.Int) bool {
		return len(wv) == 1 && proto.ValidateStatement(x, schnorr.NewWitness(toS(wv[0]))) == nil
	}
	return &linCase{id: o.id, run: o.run}
}

func okamotoLin[P curves.Point[P, F, S], F algebra.FieldElement[F], S algebra.PrimeFieldElement[S]](
	gname string, curve curves.Curve[P, F, S], proto *okamoto.Protocol[P, S], rec *recReader, g, hgen P, w1, w2 S, r *vh.Rng,
) *linCase {
	field := algebra.StructureMustBeAs[algebra.PrimeField[S]](curve.ScalarStructure())
	xp := g.ScalarOp(w1).Op(hgen.ScalarOp(w2))
	x := must(okamoto.NewStatement(xp))
	x2 := must(okamoto.NewStatement(xp.Op(g)))
	wit := must(okamoto.NewWitness(w1, w2))
	q := new(big.Int).SetBytes(curve.Order().Bytes())
	toS := func(v *big.Int) S { return must(field.FromWideBytes(v.Bytes())) }
	comps := func(e *constructions.FiniteDirectPowerRingElement[S]) []*big.Int {
		var v []*big.Int
		for _, c := range e.Components() {
			v = append(v, sBig(c))
		}
		return v
	}
	mkResp := func(z []*big.Int) *okamoto.Response[S] {
		wv := must(okamoto.NewWitness(toS(z[0]), toS(z[1])))
		return &okamoto.Response[S]{Z: wv.W}
	}
	var st *okamoto.State[S]
	var com *okamoto.Commitment[P, S]
	o := &maurerOps{id: "okamoto/" + gname, q: vh.ZHex(q), phi: "1,0/0,1", n: 2, L: proto.GetChallengeBytesLength(),
		x: []*big.Int{sBig(w1), sBig(w2)}, w: []*big.Int{sBig(w1), sBig(w2)}}
	o.commit = func() (any, []*big.Int) {
		a, s, err := proto.ComputeProverCommitment(x, wit)
		if err != nil {
			panic(err)
		}
		com, st = a, s
		return a, comps(s.S)
	}
	o.aMatches = func(a any, v []*big.Int) bool {
		return len(v) == 2 && a.(*okamoto.Commitment[P, S]).A.Equal(g.ScalarOp(toS(v[0])).Op(hgen.ScalarOp(toS(v[1]))))
	}
	o.respond = func(e []byte) []*big.Int {
		z := must(proto.ComputeProverResponse(x, wit, com, st, e))
		return comps(z.Z)
	}
	o.verify = func(a any, e []byte, z []*big.Int, other bool) bool {
		xx := x
		if other {
			xx = x2
		}
		return proto.Verify(xx, a.(*okamoto.Commitment[P, S]), e, mkResp(z)) == nil
	}
	o.simulate = func(e []byte) (any, []*big.Int) {
		a, z, err := proto.RunSimulator(x, e)
		if err != nil {
			panic(err)
		}
		return a, comps(z.Z)
	}
	o.extract = func(a any, e1 []byte, z1 []*big.Int, e2 []byte, z2 []*big.Int) ([]*big.Int, bool) {
		wv, err := proto.Extract(x, a.(*okamoto.Commitment[P, S]), []sigma.ChallengeBytes{e1, e2},
			[]*okamoto.Response[S]{mkResp(z1), mkResp(z2)})
		if err != nil {
			return nil, false
		}
		return comps(wv.W), true
	}
	o.valid = func(wv []*big.Int) bool {
		return len(wv) == 2 && proto.ValidateStatement(x, must(okamoto.NewWitness(toS(wv[0]), toS(wv[1])))) == nil
	}
	return &linCase{id: o.id, run: o.run}
}

func batchLin[P curves.Point[P, F, S], F algebra.FieldElement[F], S algebra.PrimeFieldElement[S]](
	gname string, curve curves.Curve[P, F, S], proto *batch_schnorr.Protocol[P, S], rec *recReader, g P, ws []S, r *vh.Rng,
) *linCase {
	field := algebra.StructureMustBeAs[algebra.PrimeField[S]](curve.ScalarStructure())
	q := vh.ZHex(new(big.Int).SetBytes(curve.Order().Bytes()))
	toS := func(v *big.Int) S { return must(field.FromWideBytes(v.Bytes())) }
	id := "batchschnorr/" + gname
	xs := make([]P, len(ws))
	var wv []*big.Int
	for i, w := range ws {
		xs[i] = g.ScalarOp(w)
		wv = append(wv, sBig(w))
	}
	x := batch_schnorr.NewStatement(g, xs...)
	wit := batch_schnorr.NewWitness(ws...)
	L := proto.GetChallengeBytesLength()
	run := func(h *harness, r *vh.Rng) {
		for _, e := range challenges(r, L) {
			a, st, err := proto.ComputeProverCommitment(x, wit)
			if err != nil {
				panic(err)
			}
			z := must(proto.ComputeProverResponse(x, wit, a, st, e))
			cs := fmt.Sprintf("sigma %s s=%s ws=%s e=%s", id, vh.ZHex(sBig(st.S)), vecText(wv), vh.Hex(e))
			h.res.Count("sigma-prove/"+id, cs, true)
			mz := h.ask(fmt.Sprintf("BP %s %s %s %s", q, vh.ZHex(sBig(st.S)), vecText(wv), vh.Hex(e)))
			if mz != vh.ZHex(sBig(z.Z)) || !a.A.Equal(g.ScalarOp(st.S)) {
				h.corr("sigma-prove/"+id, cs, "model z="+mz+" implementation z="+vh.ZHex(sBig(z.Z)), false, "Sigma.batch_respond vs batch_schnorr.ComputeProverResponse")
			}
			for _, bad := range []bool{false, true} {
				zz := z.Z
				if bad {
					zz = zz.Add(field.One())
				}
				got := proto.Verify(x, a, e, &batch_schnorr.Response[S]{Z: zz}) == nil
				mv := h.ask(fmt.Sprintf("BV %s %d %d %s %s %s %s", q, len(ws), L, vecText(wv), vh.ZHex(sBig(st.S)), vh.Hex(e), vh.ZHex(sBig(zz))))
				h.res.Count("sigma-verify/"+id, cs+fmt.Sprint(bad), true)
				if mv != b2i(got) {
					h.corr("sigma-verify/"+id, cs, fmt.Sprintf("model %s implementation %v", mv, got), got == bad, "Sigma.batch_verify vs batch_schnorr.Verify")
				}
				if got == bad {
					h.prop("sigma-verify/"+id, cs, fmt.Sprintf("Verify=%v on tampered=%v", got, bad), "sigma verifier")
				}
			}
			// wrong challenge length is refused
			if proto.Verify(x, a, e[1:], z) == nil {
				h.prop("sigma-verify-len/"+id, cs, "challenge of wrong length accepted", "batch_verify length guard")
			}
			if h.ask(fmt.Sprintf("BV %s %d %d %s %s %s %s", q, len(ws), L, vecText(wv), vh.ZHex(sBig(st.S)), vh.Hex(e[1:]), vh.ZHex(sBig(z.Z)))) != "0" {
				h.corr("sigma-verify-len/"+id, cs, "model accepts a short challenge", false, "Sigma.batch_verify")
			}
			as, zs, err := proto.RunSimulator(x, e)
			if err != nil {
				panic(err)
			}
			h.res.Count("sigma-simulate/"+id, cs, true)
			ma := h.ask(fmt.Sprintf("BS %s %s %s %s", q, vecText(wv), vh.Hex(e), vh.ZHex(sBig(zs.Z))))
			if !as.A.Equal(g.ScalarOp(toS(vh.UnZHex(ma)))) {
				h.corr("sigma-simulate/"+id, cs, "simulated commitment differs from the model's", false, "Sigma.batch_simulate vs RunSimulator")
			}
			if proto.Verify(x, as, e, zs) != nil {
				h.prop("sigma-simulate/"+id, cs, "simulated transcript does not verify", "simulator")
			}
		}
	}
	return &linCase{id: id, run: run}
}

// orLin: OR of n Schnorr statements with exactly one witness (branch b); the other
// statements are random points (their discrete logs are unknown: fresh basis vectors).
func orLin[P curves.Point[P, F, S], F algebra.FieldElement[F], S algebra.PrimeFieldElement[S]](
	gname string, curve curves.Curve[P, F, S], base *schnorr.Protocol[P, S],
	_ *sigor.Protocol[*schnorr.Statement[P, S], *schnorr.Witness[S], *schnorr.Commitment[P, S], *schnorr.State[S], *schnorr.Response[S]],
	_ *recReader, g P, b int, w S, others []P, r *vh.Rng,
) *linCase {
	field := algebra.StructureMustBeAs[algebra.PrimeField[S]](curve.ScalarStructure())
	q := vh.ZHex(new(big.Int).SetBytes(curve.Order().Bytes()))
	toS := func(v *big.Int) S { return must(field.FromWideBytes(v.Bytes())) }
	n := len(others) + 1
	id := "or3schnorr/" + gname
	// basis: g, then the unknown-dlog statements
	basis := append([]P{g}, others...)
	dim := len(basis)
	lf := func(v []*big.Int) P {
		acc := curve.OpIdentity()
		for i, c := range v {
			acc = acc.Op(basis[i].ScalarOp(toS(c)))
		}
		return acc
	}
	unit := func(i int, c *big.Int) []*big.Int {
		v := make([]*big.Int, dim)
		for j := range v {
			v[j] = new(big.Int)
		}
		v[i] = c
		return v
	}
	var xvs [][]*big.Int
	st := make([]*schnorr.Statement[P, S], n)
	oi := 0
	for i := 0; i < n; i++ {
		if i == b {
			xvs = append(xvs, unit(0, sBig(w)))
			st[i] = schnorr.NewStatement(g.ScalarOp(w))
		} else {
			oi++
			xvs = append(xvs, unit(oi, big.NewInt(1)))
			st[i] = schnorr.NewStatement(others[oi-1])
		}
	}
	phi := vecText(unit(0, big.NewInt(1)))
	vecsText := func(vs [][]*big.Int) string {
		var p []string
		for _, v := range vs {
			p = append(p, vecText(v))
		}
		return strings.Join(p, "|")
	}
	run := func(h *harness, r *vh.Rng) {
		rec := &recReader{r: r}
		bp := must(schnorr.NewProtocol(g, rec))
		proto := must(sigor.Compose(bp, uint(n), rec))
		x := must(sigor.ComposeStatements(st...))
		wit := sigor.NewWitness(schnorr.NewWitness(w))
		L := proto.GetChallengeBytesLength()
		for _, e := range challenges(r, L) {
			a, s, err := proto.ComputeProverCommitment(x, wit)
			if err != nil {
				panic(err)
			}
			z, err := proto.ComputeProverResponse(x, wit, a, s, e)
			if err != nil {
				panic(err)
			}
			var sims []string
			for i := 0; i < n; i++ {
				if i == int(s.B) {
					sims = append(sims, vh.Hex(make([]byte, L))+":0")
				} else {
					sims = append(sims, vh.Hex(s.E[i])+":"+vh.ZHex(sBig(s.Z[i].Z)))
				}
			}
			cs := fmt.Sprintf("sigma %s b=%d k=%s w=%s e=%s sims=%s", id, s.B, vh.ZHex(sBig(s.S[s.B].S)), vh.ZHex(sBig(w)), vh.Hex(e), strings.Join(sims, "|"))
			h.res.Count("sigma-or-prove/"+id, cs, true)
			out := h.ask(fmt.Sprintf("OP %s %d %s %d %d %s %s %s %s %s", q, dim, phi, L, s.B, vh.ZHex(sBig(s.S[s.B].S)), vh.ZHex(sBig(w)), vh.Hex(e), vecsText(xvs), strings.Join(sims, "|")))
			f := strings.Split(out, " ")
			okm := len(f) == 3
			if okm {
				mas, mes, mzs := strings.Split(f[0], "|"), strings.Split(f[1], "|"), strings.Split(f[2], "|")
				okm = len(mas) == n && len(mes) == n && len(mzs) == n
				for i := 0; okm && i < n; i++ {
					okm = a[i].A.Equal(lf(parseVec(mas[i]))) && bytes.Equal(vh.UnHex(mes[i]), z.E[i]) && vecEq(parseVec(mzs[i]), []*big.Int{sBig(z.Z[i].Z)})
				}
			}
			if !okm {
				h.corr("sigma-or-prove/"+id, cs, "model OR prover output differs: "+trunc(out, 600), false, "Sigma.or_commit/or_shares vs sigor prover")
			}
			got := proto.Verify(x, a, e, z) == nil
			h.res.Count("sigma-or-verify/"+id, cs, true)
			if !got {
				h.prop("sigma-or-one-witness/"+id, cs, "OR proof with exactly one witness does not verify", "or_complete_one_witness")
			}
			if okm {
				ov := func(e []byte, es [][]byte) string {
					var eh []string
					for _, x := range es {
						eh = append(eh, vh.Hex(x))
					}
					return h.ask(fmt.Sprintf("OV %s %d %s %d %d %s %s %s %s %s", q, dim, phi, L, n, vh.Hex(e), vecsText(xvs), f[0], strings.Join(eh, "|"), f[2]))
				}
				if mv := ov(e, z.E); mv != b2i(got) {
					h.corr("sigma-or-verify/"+id, cs, "model verdict "+mv, !got, "Sigma.or_verify vs sigor.Verify")
				}
				// shares that do not combine to the challenge: move one bit between the proof's
				// challenge and nothing else; and tamper a share of a simulated branch
				e2 := append([]byte{}, e...)
				e2[L-1] ^= 1
				got2 := proto.Verify(x, a, e2, z) == nil
				h.res.Count("sigma-or-split/"+id, cs, true)
				if mv := ov(e2, z.E); mv != b2i(got2) {
					h.corr("sigma-or-split/"+id, cs, "model verdict "+mv+" on a challenge the shares do not combine to", got2, "Sigma.or_verify vs sigor.Verify")
				}
				if got2 {
					h.prop("sigma-or-split/"+id, cs, "OR verifier accepts shares that do not XOR to the challenge", "or_sound_split")
				}
			}
			// an over-long share: E[0] || suffix with the same integer value modulo the group
			// order (so the branch equation still holds) and the same first L bytes (so the XOR
			// relation still holds): must be rejected for its length alone
			if okm {
				qb := vh.UnZHex(q)
				e0 := new(big.Int).SetBytes(z.E[0])
				sfx := new(big.Int).Lsh(e0, 256)
				sfx.Sub(e0, sfx).Mod(sfx, qb)
				long := append(append([]byte{}, z.E[0]...), sfx.FillBytes(make([]byte, 32))...)
				z2 := &sigor.Response[*schnorr.Response[S]]{E: append([][]byte{long}, z.E[1:]...), Z: z.Z}
				var verr error
				pan := vh.Safely(func() { verr = proto.Verify(x, a, e, z2) })
				got3 := pan == "" && verr == nil
				h.res.Count("sigma-or-overlong-share/"+id, cs, true)
				var eh []string
				for _, xx := range z2.E {
					eh = append(eh, vh.Hex(xx))
				}
				mv := h.ask(fmt.Sprintf("OV %s %d %s %d %d %s %s %s %s %s", q, dim, phi, L, n, vh.Hex(e), vecsText(xvs), f[0], strings.Join(eh, "|"), f[2]))
				if mv != b2i(got3) {
					h.corr("sigor-overlong-share", cs+" e0="+vh.Hex(long), "model verdict "+mv+", implementation "+b2i(got3)+" on an over-long challenge share", got3, "Sigma.or_verify (or_overlong_share_rejected) vs sigor.Verify")
				} else if got3 {
					h.prop("sigor-overlong-share", cs+" e0="+vh.Hex(long), "OR verifier accepts an over-long challenge share", "or_overlong_share_rejected")
				}
			}
			// simulator of the composition
			as, zs, err := proto.RunSimulator(x, e)
			h.res.Count("sigma-simulate/"+id, cs, true)
			if err != nil || proto.Verify(x, as, e, zs) != nil {
				h.prop("sigma-simulate/"+id, cs, "simulated OR transcript does not verify", "simulator")
			}
		}
	}
	return &linCase{id: id, run: run}
}

// andLin: n-way AND of Schnorr statements at the sigma level, in the exponent: the honest
// transcript verifies; a response / commitment / statement vector with one component more
// or fewer is rejected by an error (Sigma.andn_verify checks every length against count).
func andLin[P curves.Point[P, F, S], F algebra.FieldElement[F], S algebra.PrimeFieldElement[S]](
	gname string, curve curves.Curve[P, F, S], count int, _ *vh.Rng,
) *linCase {
	field := algebra.StructureMustBeAs[algebra.PrimeField[S]](curve.ScalarStructure())
	q := vh.ZHex(new(big.Int).SetBytes(curve.Order().Bytes()))
	g := curve.Generator()
	id := fmt.Sprintf("and%dschnorr/%s", count, gname)
	run := func(h *harness, r *vh.Rng) {
		defer h.flush()
		rec := &recReader{r: r}
		base := must(schnorr.NewProtocol(g, rec))
		proto := must(sigand.Compose(base, uint(count)))
		var sts []*schnorr.Statement[P, S]
		var wts []*schnorr.Witness[S]
		var xv []string
		for i := 0; i < count; i++ {
			w := must(field.Random(r))
			sts = append(sts, schnorr.NewStatement(g.ScalarOp(w)))
			wts = append(wts, schnorr.NewWitness(w))
			xv = append(xv, vh.ZHex(sBig(w)))
		}
		x := must(sigand.ComposeStatements(sts...))
		w := must(sigand.ComposeWitnesses(wts...))
		L := proto.GetChallengeBytesLength()
		e := r.Bytes(L)
		a, st, err := proto.ComputeProverCommitment(x, w)
		if err != nil {
			panic(err)
		}
		z := must(proto.ComputeProverResponse(x, w, a, st, e))
		var av, zv []string
		for i := range a {
			av = append(av, vh.ZHex(sBig(st[i].S)))
			zv = append(zv, vh.ZHex(sBig(z[i].Z)))
		}
		type variantT struct {
			name string
			a    sigand.Commitment[*schnorr.Commitment[P, S]]
			z    sigand.Response[*schnorr.Response[S]]
			av   []string
			zv   []string
			want bool
		}
		vs := []variantT{
			{"honest", a, z, av, zv, true},
			{"response-appended", a, append(append(sigand.Response[*schnorr.Response[S]]{}, z...), z[count-1]), av, append(append([]string{}, zv...), zv[count-1]), false},
			{"response-appended-arbitrary", a, append(append(sigand.Response[*schnorr.Response[S]]{}, z...), &schnorr.Response[S]{Z: field.One()}), av, append(append([]string{}, zv...), "1"), false},
			{"commitment-appended", append(append(sigand.Commitment[*schnorr.Commitment[P, S]]{}, a...), a[count-1]), z, append(append([]string{}, av...), av[count-1]), zv, false},
			{"both-appended", append(append(sigand.Commitment[*schnorr.Commitment[P, S]]{}, a...), a[count-1]), append(append(sigand.Response[*schnorr.Response[S]]{}, z...), z[count-1]), append(append([]string{}, av...), av[count-1]), append(append([]string{}, zv...), zv[count-1]), false},
			// the shrinking ones last: a verifier that indexes past the end panics inside a
			// library goroutine, which cannot be recovered
			{"commitment-dropped", a[:count-1], z, av[:count-1], zv, false},
			{"response-dropped", a, z[:count-1], av, zv[:count-1], false},
		}
		broken := false
		for _, v := range vs {
			if broken && strings.HasSuffix(v.name, "-dropped") {
				continue // see niCase: would crash inside a library goroutine; the accepted transcript above is the failing input
			}
			cs := fmt.Sprintf("sigma %s %s e=%s xs=%s as=%s zs=%s", id, v.name, vh.Hex(e), strings.Join(xv, "|"), strings.Join(v.av, "|"), strings.Join(v.zv, "|"))
			h.res.Count("sigma-and-"+v.name+"/"+id, cs, true)
			h.flush()
			var verr error
			pan := vh.Safely(func() { verr = proto.Verify(x, v.a, e, v.z) })
			if pan != "" {
				h.prop("sigand-verify-panics", cs, "n-way AND verifier panicked on a "+v.name+" transcript: "+trunc(pan, 120), "andn_verify rejects wrong lengths by an error")
				continue
			}
			got := verr == nil
			if got && !v.want {
				broken = true
			}
			join := func(xs []string) string {
				if len(xs) == 0 {
					return "-"
				}
				return strings.Join(xs, "|")
			}
			mv := h.ask(fmt.Sprintf("AV %s 1 1 %d %d %s %s %s %s", q, L, count, vh.Hex(e), join(xv), join(v.av), join(v.zv)))
			if mv != b2i(got) {
				h.corr("sigand-"+v.name, cs, "model verdict "+mv+", implementation "+b2i(got), got != v.want, "Sigma.andn_verify (andn_accept_lengths) vs sigand.Verify")
			} else if got != v.want {
				h.prop("sigand-"+v.name, cs, fmt.Sprintf("Verify returned %v, expected %v", got, v.want), "andn_verify_iff")
			}
		}
	}
	return &linCase{id: id, run: run}
}
