package main

// Session contexts the proofs are made and verified in, together with the transcript
// history (as model ops) each context has accumulated.

import (
	"crypto/sha3"
	"encoding/binary"
	"fmt"
	"io"
	"reflect"
	"strings"
	"sync"
	"unsafe"

	"github.com/bronlabs/bron-crypto/pkg/base/datastructures/hashset"
	"github.com/bronlabs/bron-crypto/pkg/mpc/session"
	"github.com/bronlabs/bron-crypto/pkg/mpc/sharing"

	"verif/harness/internal/vh"
)

// labels of pkg/mpc/session/context.go (the history every context starts with)
const (
	sessTranscriptName = "BRON_CRYPTO_SETUP_TRANSCRIPT-"
	sessInitLabel      = "BRON_CRYPTO_SETUP_TRANSCRIPT_INIT-"
	// the way callers bind the prover's identity (gennaro: LE64 of the holder id)
	proverIDLabel = "BRON_CRYPTO_DKG_GENNARO_BATCH_SCHNORR_PROVER_ID-"
)

type appendOp struct {
	label []byte
	msgs  [][]byte
}

// ctxSpec describes a verifier/prover context: the session (common seed), what the caller
// appended to the cloned transcript before handing it to the proof, the prover identity the
// caller binds, and (verif-only) a session id that replaces the derived one while the
// transcript stays the same.
type ctxSpec struct {
	seed    []byte
	pre     []appendOp
	prover  uint64
	sidOnly []byte // nil: derived sid; else overwrite the context's sid field (same transcript)
}

func (c ctxSpec) text() string {
	var pre []string
	for _, p := range c.pre {
		parts := []string{vh.Hex(p.label)}
		for _, m := range p.msgs {
			parts = append(parts, vh.Hex(m))
		}
		pre = append(pre, strings.Join(parts, ","))
	}
	ps := strings.Join(pre, ";")
	if ps == "" {
		ps = "-"
	}
	return fmt.Sprintf("seed=%s pre=%s prover=%d sidonly=%s", vh.Hex(c.seed), ps, c.prover, vh.Hex(c.sidOnly))
}

func parseCtx(f []string) ctxSpec {
	var c ctxSpec
	for _, kv := range f {
		k, v, _ := strings.Cut(kv, "=")
		switch k {
		case "seed":
			c.seed = vh.UnHex(v)
		case "pre":
			if v != "-" {
				for _, p := range strings.Split(v, ";") {
					parts := strings.Split(p, ",")
					a := appendOp{label: vh.UnHex(parts[0])}
					for _, m := range parts[1:] {
						a.msgs = append(a.msgs, vh.UnHex(m))
					}
					c.pre = append(c.pre, a)
				}
			}
		case "prover":
			fmt.Sscanf(v, "%d", &c.prover)
		case "sidonly":
			c.sidOnly = vh.UnHex(v)
		}
	}
	return c
}

func le64(v uint64) []byte { return binary.LittleEndian.AppendUint64(nil, v) }

var errNoSidField = fmt.Errorf("session.Context has no settable sid field")

// build makes the real context through the public API.
func (c ctxSpec) build() (*session.Context, error) { return c.buildFor(1) }

// buildFor makes the context of party id (1 or 2) of the two-party session.
func (c ctxSpec) buildFor(id sharing.ID) (*session.Context, error) {
	quorum := hashset.NewComparable[sharing.ID](1, 2).Freeze()
	pair := make([]byte, 64)
	for i := range pair {
		pair[i] = byte(i)
	}
	ctx, err := session.NewContext(id, quorum, c.seed, map[sharing.ID][]byte{3 - id: pair})
	if err != nil {
		return nil, err
	}
	// what protocol code does before a proof: clone, caller appends, identity binding
	ctx = ctx.Clone()
	for _, p := range c.pre {
		ctx.Transcript().AppendBytes(string(p.label), p.msgs...)
	}
	ctx.Transcript().AppendBytes(proverIDLabel, le64(c.prover))
	if c.sidOnly != nil {
		v := reflect.ValueOf(ctx).Elem().FieldByName("sid")
		if !v.IsValid() || v.Kind() != reflect.Array || v.Len() != 32 || !v.CanAddr() {
			return nil, errNoSidField
		}
		p := unsafe.Slice((*byte)(unsafe.Pointer(v.UnsafeAddr())), 32)
		copy(p, c.sidOnly)
	}
	return ctx, nil
}

// sid returns the session id the context reports.
func (c ctxSpec) sid() []byte {
	if c.sidOnly != nil {
		return c.sidOnly
	}
	img := sha3.Sum512(c.seed)
	return img[:32]
}

// history returns the model view of the context's transcript: name and the list of ops
// performed so far (in the text form of the model driver).
func (c ctxSpec) history() (name []byte, ops []string) {
	img := sha3.Sum512(c.seed)
	ops = append(ops, opApp([]byte(sessInitLabel), img[32:]))
	for _, p := range c.pre {
		ops = append(ops, opApp(p.label, p.msgs...))
	}
	ops = append(ops, opApp([]byte(proverIDLabel), le64(c.prover)))
	return []byte(sessTranscriptName), ops
}

func opApp(label []byte, msgs ...[]byte) string {
	parts := []string{"A", vh.Hex(label)}
	for _, m := range msgs {
		parts = append(parts, vh.Hex(m))
	}
	return strings.Join(parts, ",")
}

func opDom(s []byte) string { return "D," + vh.Hex(s) }

// ---- recording reader ---------------------------------------------------------------

// recReader serves bytes from the seeded stream and remembers what it served, so that the
// harness can re-derive the prover's nonces (by replaying the same bytes through the
// library's own sampler) and tell the model.
type recReader struct {
	mu  sync.Mutex
	r   io.Reader
	buf []byte
}

func (r *recReader) Read(p []byte) (int, error) {
	r.mu.Lock()
	defer r.mu.Unlock()
	n, err := r.r.Read(p)
	r.buf = append(r.buf, p[:n]...)
	return n, err
}

func (r *recReader) reset() { r.buf = nil }

// replayReader serves recorded bytes again.
type replayReader struct {
	buf []byte
	off int
}

func (r *replayReader) Read(p []byte) (int, error) {
	if r.off >= len(r.buf) {
		return 0, io.EOF
	}
	n := copy(p, r.buf[r.off:])
	r.off += n
	return n, nil
}

func cshake(custom, input []byte, n int) []byte {
	h := sha3.NewCSHAKE256(nil, custom)
	h.Write(input)
	out := make([]byte, n)
	h.Read(out)
	return out
}
