package main

// Paillier-based protocols through the same generic machinery, with a cached modulus
// (corpus/c08/paillier_primes.txt: two 512-bit primes; test-only).  Covered: the n-th-root
// protocol (Maurer instance with the non-trivial anchor u = x, l = N).  The other
// Paillier / ring-Pedersen / CGGMP21 proofs are listed as not covered in the spec.

import (
	"fmt"
	"math/big"
	"os"
	"path/filepath"
	"strings"

	"github.com/bronlabs/bron-crypto/pkg/base/nt/modular"
	"github.com/bronlabs/bron-crypto/pkg/base/nt/num"
	"github.com/bronlabs/bron-crypto/pkg/base/nt/numct"
	"github.com/bronlabs/bron-crypto/pkg/base/nt/znstar"
	"github.com/bronlabs/bron-crypto/pkg/commitments/intcom"
	"github.com/bronlabs/bron-crypto/pkg/proofs/prm"
	"github.com/bronlabs/bron-crypto/pkg/proofs/paillier/nthroot"
	"github.com/bronlabs/bron-crypto/pkg/proofs/sigma"
	"github.com/bronlabs/bron-crypto/pkg/proofs/sigma/compiler"
	"github.com/bronlabs/bron-crypto/pkg/proofs/sigma/compiler/fiatshamir"

	"verif/harness/internal/vh"
)

func loadPrimes() (p, q *big.Int, err error) {
	root := os.Getenv("VERIF_ROOT")
	if root == "" {
		root = "/verif"
	}
	b, err := os.ReadFile(filepath.Join(root, "corpus", "c08", "paillier_primes.txt"))
	if err != nil {
		return nil, nil, err
	}
	for _, l := range strings.Split(string(b), "\n") {
		if v, ok := strings.CutPrefix(l, "p="); ok {
			p = vh.UnZHex(strings.TrimSpace(v))
		}
		if v, ok := strings.CutPrefix(l, "q="); ok {
			q = vh.UnZHex(strings.TrimSpace(v))
		}
	}
	if p == nil || q == nil {
		return nil, nil, fmt.Errorf("primes file incomplete")
	}
	return p, q, nil
}

func (h *harness) paillier(flipBudget int) {
	if os.Getenv("C08_P2048") != "" {
		h.paillier2048(flipBudget)
		return
	}
	pb, qb, err := loadPrimes()
	if err != nil {
		h.res.Note("Paillier n-th-root protocol skipped: %v", err)
		return
	}
	r := vh.NewRng(h.a.Seed, "C08", "paillier", 0)
	mkNat := func(x *big.Int) *num.NatPlus {
		return must(num.NPlus().FromNatCT(numct.NewNatFromBig(x, x.BitLen())))
	}
	g := must(znstar.NewPaillierGroup(mkNat(pb), mkNat(qb)))
	rec := &recReader{r: r}
	proto := must(nthroot.NewProtocol(g, rec))
	n := g.N().Big()
	mk := func() (*nthroot.Statement[*modular.OddPrimeSquareFactors], *nthroot.Witness[*modular.OddPrimeSquareFactors]) {
		y := r.BigBelow(n)
		if y.Sign() == 0 {
			y.SetInt64(2)
		}
		yn := numct.NewNatFromBig(y, n.BitLen())
		var xn numct.Nat
		g.Arithmetic().ExpToN(&xn, yn)
		x := must(g.FromNatCT(&xn))
		w := must(g.FromNatCT(yn))
		return must(nthroot.NewStatement(x)), must(nthroot.NewWitness(w))
	}
	x, w := mk()
	x2, _ := mk()
	c := mkCase("nthroot/paillier1024", proto, rec, x, w, x2, 32)
	// sigma level on the implementation alone: rewinding, extractor (anchor u = x, l = N), simulator
	L := proto.GetChallengeBytesLength()
	for ci, e1 := range challenges(r, L) {
		e2 := r.Bytes(L)
		if ci == 1 {
			e2 = e1 // equal challenges: the extractor must refuse
		}
		a, st, err := proto.ComputeProverCommitment(x, w)
		if err != nil {
			panic(err)
		}
		z1 := must(proto.ComputeProverResponse(x, w, a, st, e1))
		z2 := must(proto.ComputeProverResponse(x, w, a, st, e2))
		cs := fmt.Sprintf("sigma nthroot e1=%s e2=%s", vh.Hex(e1), vh.Hex(e2))
		h.res.Count("sigma-verify/nthroot", cs, true)
		if proto.Verify(x, a, e1, z1) != nil || proto.Verify(x, a, e2, z2) != nil {
			h.prop("sigma-verify/nthroot", cs, "honest transcript rejected", "maurer_complete")
		}
		if proto.Verify(x2, a, e1, z1) == nil && new(big.Int).SetBytes(e1).Sign() != 0 {
			h.prop("sigma-verify/nthroot", cs, "transcript accepted for another statement", "sigma verifier")
		}
		h.res.Count("sigma-extract/nthroot", cs, true)
		wx, err := proto.Extract(x, a, []sigma.ChallengeBytes{e1, e2}, []*nthroot.Response[*modular.OddPrimeSquareFactors]{z1, z2})
		d := new(big.Int).Sub(new(big.Int).SetBytes(e1), new(big.Int).SetBytes(e2))
		coprime := new(big.Int).GCD(nil, nil, n, new(big.Int).Abs(d)).Cmp(big.NewInt(1)) == 0 && d.Sign() != 0
		if coprime && err != nil {
			h.prop("sigma-extract/nthroot", cs, "extractor failed on two accepting transcripts with gcd(N, e1-e2) = 1: "+err.Error(), "maurer_special_sound")
		}
		if d.Sign() == 0 && err == nil {
			h.prop("sigma-extract/nthroot", cs, "extractor answered on equal challenges", "maurer_extract gcd guard")
		}
		if err == nil && proto.ValidateStatement(x, wx) != nil {
			h.prop("sigma-extract/nthroot", cs, "extractor output is not an N-th root of the statement", "maurer_special_sound")
		}
		as, zs, err := proto.RunSimulator(x, e1)
		h.res.Count("sigma-simulate/nthroot", cs, true)
		if err != nil || proto.Verify(x, as, e1, zs) != nil {
			h.prop("sigma-simulate/nthroot", cs, "simulated transcript does not verify", "maurer_simulator_verifies")
		}
	}
	comps := []compiler.Name{fiatshamir.Name}
	if h.thorough || h.a.Search {
		comps = c.compilers
	}
	for _, comp := range comps {
		h.niCase(c, comp, 0, r, false, flipBudget)
	}
	h.interactive(c, 0, r)
	h.ringPedersen(flipBudget)
	h.paillier2048(flipBudget)
}

// ringPedersen: the ring-Pedersen parameter proof (prm) with a tiny sampled trapdoor key.
func (h *harness) ringPedersen(flipBudget int) {
	r := vh.NewRng(h.a.Seed, "C08", "prm", 0)
	if p := vh.Safely(func() {
		td := must(intcom.SampleTrapdoorKey(64, r))
		td2 := must(intcom.SampleTrapdoorKey(64, r))
		rec := &recReader{r: r}
		proto := must(prm.NewProtocol(rec))
		x, w := must(prm.NewStatement(td.Export())), must(prm.NewWitness(td))
		x2 := must(prm.NewStatement(td2.Export()))
		if err := proto.ValidateStatement(x, w); err != nil {
			panic(err)
		}
		c := mkCase("prm/rsa64", proto, rec, x, w, x2, 16)
		h.niCase(c, fiatshamir.Name, 0, r, false, min(flipBudget, 24))
	}); p != "" {
		h.res.Note("ring-Pedersen proof not exercised (setup failed): %s", trunc(p, 300))
	}
}
