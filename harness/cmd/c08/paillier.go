package main

// Paillier-based protocols through the same generic machinery, with a cached modulus.

func (h *harness) paillier(flipBudget int) {}
