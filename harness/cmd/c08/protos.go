package main

// Construction of every sigma protocol instance reachable through the public API, per group.

import (
	"fmt"
	"io"
	"math/big"

	"github.com/bronlabs/bron-crypto/pkg/base/algebra"
	"github.com/bronlabs/bron-crypto/pkg/base/curves"
	"github.com/bronlabs/bron-crypto/pkg/commitments/indcpacom"
	"github.com/bronlabs/bron-crypto/pkg/encryption/elgamal"
	"github.com/bronlabs/bron-crypto/pkg/proofs/dlog/batch_schnorr"
	"github.com/bronlabs/bron-crypto/pkg/proofs/dlog/schnorr"
	"github.com/bronlabs/bron-crypto/pkg/proofs/elgamal/elcomop"
	"github.com/bronlabs/bron-crypto/pkg/proofs/elgamal/elog"
	"github.com/bronlabs/bron-crypto/pkg/proofs/okamoto"
	"github.com/bronlabs/bron-crypto/pkg/base/serde"
	"github.com/bronlabs/bron-crypto/pkg/proofs/sigma/compiler"
	"github.com/bronlabs/bron-crypto/pkg/proofs/sigma/compiler/fiatshamir"
	"github.com/bronlabs/bron-crypto/pkg/proofs/sigma/compose/sigand"
	"github.com/bronlabs/bron-crypto/pkg/proofs/sigma/compose/sigor"

	"verif/harness/internal/vh"
)

func must[T any](v T, err error) T {
	if err != nil {
		panic(err)
	}
	return v
}

func sBig[S algebra.PrimeFieldElement[S]](s S) *big.Int { return new(big.Int).SetBytes(s.Bytes()) }

func vecText(v []*big.Int) string {
	if len(v) == 0 {
		return "-"
	}
	s := ""
	for i, x := range v {
		if i > 0 {
			s += ","
		}
		s += vh.ZHex(x)
	}
	return s
}

// boundary scalars: 0, 1, q-1 are always among the witnesses
func pickScalar[S algebra.PrimeFieldElement[S]](r *vh.Rng, f algebra.PrimeField[S], idx int) S {
	switch idx {
	case 0:
		return must(f.Random(r))
	case 1:
		return f.One()
	case 2:
		return f.One().Neg()
	case 3:
		return f.Zero()
	default:
		return must(f.Random(r))
	}
}

// groupCases builds one case of every protocol over the given prime-order group.
// variant selects boundary witnesses.
func groupCases[P curves.Point[P, F, S], F algebra.FieldElement[F], S algebra.PrimeFieldElement[S]](
	gname string, curve curves.Curve[P, F, S], r *vh.Rng, variant int,
) (cases []*niCase, lins []*linCase) {
	field := algebra.StructureMustBeAs[algebra.PrimeField[S]](curve.ScalarStructure())
	g := curve.Generator()
	newRec := func() *recReader { return &recReader{r: r} }

	// --- Schnorr
	{
		rec := newRec()
		proto := must(schnorr.NewProtocol(g, rec))
		w := pickScalar(r, field, variant)
		w2 := must(field.Random(r))
		x := g.ScalarOp(w)
		c := mkCase("schnorr/"+gname, proto, rec, schnorr.NewStatement(x), schnorr.NewWitness(w), schnorr.NewStatement(g.ScalarOp(w2)), 16)
		c.adaptive = func(r *vh.Rng, deriveNoStmt func(a []byte) []byte) ([]byte, []byte, func(cs ctxSpec) string) {
			k, z := must(field.Random(r)), must(field.Random(r))
			com := &schnorr.Commitment[P, S]{A: g.ScalarOp(k)}
			e := deriveNoStmt(com.Bytes())
			if e == nil {
				return nil, nil, nil
			}
			es := must(field.FromWideBytes(e))
			if es.IsZero() {
				return nil, nil, nil
			}
			einv, err := es.TryInv()
			if err != nil {
				return nil, nil, nil
			}
			xs := schnorr.NewStatement(g.ScalarOp(z.Sub(k).Mul(einv)))
			proof, err := serde.MarshalCBOR(&fsWire[*schnorr.Commitment[P, S], *schnorr.Response[S]]{A: com, E: e, Z: &schnorr.Response[S]{Z: z}})
			if err != nil {
				return nil, nil, nil
			}
			return proof, xs.Bytes(), func(cs ctxSpec) string {
				ctx, err := cs.build()
				if err != nil {
					return "S"
				}
				var verr error
				if p := vh.Safely(func() {
					ni := must(compiler.Compile(fiatshamir.Name, proto, rec))
					v := must(ni.NewVerifier(ctx))
					verr = v.Verify(xs, proof)
				}); p != "" {
					return "P"
				}
				return b2i(verr == nil)
			}
		}
		cases = append(cases, c)
		lins = append(lins, schnorrLin(gname, curve, proto, rec, w, r))
	}
	// --- Okamoto over (g, h), h = s*g
	{
		rec := newRec()
		h := g.ScalarOp(must(field.Random(r)))
		proto := must(okamoto.NewProtocol([]P{g, h}, rec))
		w1, w2 := pickScalar(r, field, variant), must(field.Random(r))
		x := g.ScalarOp(w1).Op(h.ScalarOp(w2))
		x2 := g.ScalarOp(must(field.Random(r))).Op(h.ScalarOp(w2))
		c := mkCase("okamoto/"+gname, proto, rec, must(okamoto.NewStatement(x)), must(okamoto.NewWitness(w1, w2)), must(okamoto.NewStatement(x2)), 16)
		cases = append(cases, c)
		lins = append(lins, okamotoLin(gname, curve, proto, rec, g, h, w1, w2, r))
	}
	// --- batch Schnorr, k = 3
	{
		rec := newRec()
		const k = 3
		proto := must(batch_schnorr.NewProtocol(k, algebra.PrimeGroup[P, S](curve), rec))
		ws := []S{pickScalar(r, field, variant), must(field.Random(r)), must(field.Random(r))}
		xs := make([]P, k)
		xs2 := make([]P, k)
		for i := range ws {
			xs[i] = g.ScalarOp(ws[i])
			xs2[i] = xs[i]
		}
		xs2[k-1] = g.ScalarOp(must(field.Random(r)))
		c := mkCase("batchschnorr/"+gname, proto, rec, batch_schnorr.NewStatement(g, xs...), batch_schnorr.NewWitness(ws...), batch_schnorr.NewStatement(g, xs2...), 16)
		cases = append(cases, c)
		lins = append(lins, batchLin(gname, curve, proto, rec, g, ws, r))
	}
	// --- ElGamal commitment opening and dlog-with-ElGamal (AND of elcomop and Schnorr)
	{
		rec := newRec()
		sk := must(elgamal.SampleSecretKey(curve, r))
		comKey := must(indcpacom.NewCommitmentKey(sk.Public()))
		hh := g.ScalarOp(must(field.Random(r)))
		y, lambda := pickScalar(r, field, variant), must(field.Random(r))
		mk := func(y, lambda S) (*elcomop.Witness[P, S], *elcomop.Statement[P, S]) {
			nonce := must(elgamal.NewNonce(lambda))
			iw := must(indcpacom.NewWitness(nonce))
			msg := must(indcpacom.NewMessage(must(elgamal.NewPlaintext(g.ScalarOp(y)))))
			com := must(comKey.CommitWithWitness(msg, iw))
			return must(elcomop.NewWitness(msg, iw)), must(elcomop.NewStatement(com))
		}
		cw, cx := mk(y, lambda)
		_, cx2 := mk(must(field.Random(r)), lambda)
		p1 := must(elcomop.NewProtocol(algebra.PrimeGroup[P, S](curve), comKey, rec))
		cases = append(cases, mkCase("elcomop/"+gname, p1, rec, cx, cw, cx2, 16))

		rec2 := newRec()
		p2 := must(elog.NewProtocol(algebra.PrimeGroup[P, S](curve), comKey, hh, rec2))
		ew := must(elog.NewWitness(cw, schnorr.NewWitness(y)))
		ex := must(elog.NewStatement(cx, schnorr.NewStatement(hh.ScalarOp(y))))
		ex2 := must(elog.NewStatement(cx, schnorr.NewStatement(hh.ScalarOp(must(field.Random(r))))))
		cases = append(cases, mkCase("elog/"+gname, p2, rec2, ex, ew, ex2, 16))
	}
	// --- AND of two Schnorr statements
	{
		rec := newRec()
		base := must(schnorr.NewProtocol(g, rec))
		proto := must(sigand.Compose(base, 2))
		w1, w2 := pickScalar(r, field, variant), must(field.Random(r))
		x := must(sigand.ComposeStatements(schnorr.NewStatement(g.ScalarOp(w1)), schnorr.NewStatement(g.ScalarOp(w2))))
		x2 := must(sigand.ComposeStatements(schnorr.NewStatement(g.ScalarOp(w1)), schnorr.NewStatement(g.ScalarOp(must(field.Random(r))))))
		w := must(sigand.ComposeWitnesses(schnorr.NewWitness(w1), schnorr.NewWitness(w2)))
		cases = append(cases, mkCase("and2schnorr/"+gname, proto, rec, x, w, x2, 16))
	}
	// --- n-way AND with count 1, 3, 5 (Fiat–Shamir only; count 2 above runs every compiler)
	for _, cnt := range []int{1, 3, 5} {
		rec := newRec()
		base := must(schnorr.NewProtocol(g, rec))
		proto := must(sigand.Compose(base, uint(cnt)))
		var sts, sts2 []*schnorr.Statement[P, S]
		var wts []*schnorr.Witness[S]
		for i := 0; i < cnt; i++ {
			wi := must(field.Random(r))
			if i == 0 {
				wi = pickScalar(r, field, variant)
			}
			sts = append(sts, schnorr.NewStatement(g.ScalarOp(wi)))
			sts2 = append(sts2, sts[i])
			wts = append(wts, schnorr.NewWitness(wi))
		}
		sts2[cnt-1] = schnorr.NewStatement(g.ScalarOp(must(field.Random(r))))
		c := mkCase(fmt.Sprintf("and%dschnorr/%s", cnt, gname), proto, rec, must(sigand.ComposeStatements(sts...)), must(sigand.ComposeWitnesses(wts...)), must(sigand.ComposeStatements(sts2...)), 16)
		c.compilers = []compiler.Name{fiatshamir.Name}
		cases = append(cases, c)
		lins = append(lins, andLin(gname, curve, cnt, r))
	}
	// --- OR of three Schnorr statements, exactly one witness known (position = variant mod 3)
	{
		rec := newRec()
		base := must(schnorr.NewProtocol(g, rec))
		const n = 3
		proto := must(sigor.Compose(base, n, rec))
		b := variant % n
		w := pickScalar(r, field, variant)
		st := make([]*schnorr.Statement[P, S], n)
		st2 := make([]*schnorr.Statement[P, S], n)
		var others []P
		for i := range st {
			if i == b {
				st[i] = schnorr.NewStatement(g.ScalarOp(w))
			} else {
				// statements nobody knows a witness of: hash-free random points
				pt := must(curve.Random(r))
				others = append(others, pt)
				st[i] = schnorr.NewStatement(pt)
			}
			st2[i] = st[i]
		}
		st2[(b+1)%n] = schnorr.NewStatement(must(curve.Random(r)))
		x := must(sigor.ComposeStatements(st...))
		x2 := must(sigor.ComposeStatements(st2...))
		c := mkCase("or3schnorr/"+gname, proto, rec, x, sigor.NewWitness(schnorr.NewWitness(w)), x2, 16)
		qOrder := new(big.Int).SetBytes(curve.Order().Bytes())
		c.orForge = mkOrForge(base, proto, rec, n, qOrder, func() *schnorr.Statement[P, S] { return schnorr.NewStatement(must(curve.Random(r))) })
		cases = append(cases, c)
		lins = append(lins, orLin(gname, curve, base, proto, rec, g, b, w, others, r))
	}
	// --- OR of two Okamoto statements, one witness (Fiat–Shamir only)
	{
		rec := newRec()
		hgen := g.ScalarOp(must(field.Random(r)))
		base := must(okamoto.NewProtocol([]P{g, hgen}, rec))
		proto := must(sigor.Compose(base, 2, rec))
		w1, w2 := pickScalar(r, field, variant), must(field.Random(r))
		b := variant % 2
		st := make([]*okamoto.Statement[P, S], 2)
		st[b] = must(okamoto.NewStatement(g.ScalarOp(w1).Op(hgen.ScalarOp(w2))))
		st[1-b] = must(okamoto.NewStatement(must(curve.Random(r))))
		st2 := []*okamoto.Statement[P, S]{st[0], st[1]}
		st2[1-b] = must(okamoto.NewStatement(must(curve.Random(r))))
		x := must(sigor.ComposeStatements(st...))
		x2 := must(sigor.ComposeStatements(st2...))
		c := mkCase("or2okamoto/"+gname, proto, rec, x, sigor.NewWitness(must(okamoto.NewWitness(w1, w2))), x2, 16)
		c.compilers = []compiler.Name{fiatshamir.Name}
		qOrder := new(big.Int).SetBytes(curve.Order().Bytes())
		c.orForge = mkOrForge(base, proto, rec, 2, qOrder, func() *okamoto.Statement[P, S] { return must(okamoto.NewStatement(must(curve.Random(r)))) })
		cases = append(cases, c)
	}
	return cases, lins
}

var _ = fmt.Sprint
var _ io.Reader
