package main

// Proofs over a Paillier key, with pre-generated 2048-bit moduli (corpus/c08/keys2048.txt:
// lines "<kind> 2048 <p hex> <q hex>" for kind general / blum / safe; never generated here):
//   - pailliern (proof that N is a Paillier modulus; own transcript API, M repeated responses),
//   - cggmp21/blummod (sigma protocol; Fiat–Shamir through the generic machinery),
//   - paillier/range (sigma protocol, 128 repetitions; Fiat–Shamir),
//   - paillier/lp (interactive; k repeated responses in the last prover message).
// For each: honest proof accepted; changed context / statement rejected (non-interactive
// ones); every component of the proof altered alone rejected; component count changes
// rejected.

import (
	"fmt"
	"math/big"
	"os"
	"path/filepath"
	"strings"
	"time"

	"github.com/bronlabs/bron-crypto/pkg/base/nt/num"
	"github.com/bronlabs/bron-crypto/pkg/base/nt/numct"
	"github.com/bronlabs/bron-crypto/pkg/base/nt/znstar"
	"github.com/bronlabs/bron-crypto/pkg/encryption"
	"github.com/bronlabs/bron-crypto/pkg/encryption/paillier"
	"github.com/bronlabs/bron-crypto/pkg/network"
	"github.com/bronlabs/bron-crypto/pkg/proofs/cggmp21/blummod"
	"github.com/bronlabs/bron-crypto/pkg/proofs/paillier/lp"
	"github.com/bronlabs/bron-crypto/pkg/proofs/paillier/pailliern"
	paillierrange "github.com/bronlabs/bron-crypto/pkg/proofs/paillier/range"
	"github.com/bronlabs/bron-crypto/pkg/proofs/sigma/compiler/fiatshamir"
	"github.com/bronlabs/bron-crypto/pkg/transcripts"
	"github.com/bronlabs/bron-crypto/pkg/transcripts/hagrid"

	"verif/harness/internal/vh"
)

func loadKeys2048() (map[string]*paillier.SecretKey, map[string][2]*big.Int, error) {
	root := os.Getenv("VERIF_ROOT")
	if root == "" {
		root = "/verif"
	}
	b, err := os.ReadFile(filepath.Join(root, "corpus", "c08", "keys2048.txt"))
	if err != nil {
		return nil, nil, err
	}
	out := map[string]*paillier.SecretKey{}
	primes := map[string][2]*big.Int{}
	for _, l := range strings.Split(string(b), "\n") {
		f := strings.Fields(l)
		if len(f) == 4 && f[1] == "3072" { // primes only (ring-Pedersen modulus for affg / encelg)
			primes[f[0]+"3072"] = [2]*big.Int{vh.UnZHex(f[2]), vh.UnZHex(f[3])}
			continue
		}
		if len(f) != 4 || f[1] != "2048" {
			continue
		}
		p, q := vh.UnZHex(f[2]), vh.UnZHex(f[3])
		mk := func(x *big.Int) *num.NatPlus {
			return must(num.NPlus().FromNatCT(numct.NewNatFromBig(x, x.BitLen())))
		}
		var sk *paillier.SecretKey
		if perr := vh.Safely(func() {
			g := must(znstar.NewPaillierGroup(mk(p), mk(q)))
			sk = must(paillier.NewLegacySecretKey(g))
		}); perr != "" {
			return nil, nil, fmt.Errorf("key %s: %s", f[0], perr)
		}
		out[f[0]] = sk
		primes[f[0]] = [2]*big.Int{p, q}
	}
	if out["general"] == nil || out["blum"] == nil || out["safe"] == nil {
		return nil, nil, fmt.Errorf("keys2048.txt incomplete")
	}
	return out, primes, nil
}

func (h *harness) paillier2048(flipBudget int) {
	keys, primes, err := loadKeys2048()
	if err != nil {
		h.res.Note("2048-bit Paillier proofs skipped: %v", err)
		return
	}
	switch os.Getenv("C08_P2048") { // debugging aids
	case "range":
		h.rangeProof(keys, flipBudget)
		return
	case "cggmp":
		h.cggmp21(keys, primes)
		return
	case "lpdl":
		h.lpdlProof(keys)
		return
	}
	t0 := time.Now()
	h.paillierN(keys)
	t1 := time.Now()
	// one verification of blummod / range costs several seconds with a 2048-bit modulus
	// (128 repetitions): thorough tier only
	if h.thorough || h.a.Search {
		h.blumMod(keys, flipBudget)
	}
	t2 := time.Now()
	h.lpProof(keys)
	t3 := time.Now()
	if h.thorough || h.a.Search {
		h.rangeProof(keys, flipBudget)
		h.lpdlProof(keys)
	}
	h.cggmp21(keys, primes) // quick: enc and encelg only

	if os.Getenv("C08_TIMING") != "" {
		fmt.Fprintf(os.Stderr, "pailliern %.1fs blummod %.1fs lp %.1fs range %.1fs\n", t1.Sub(t0).Seconds(), t2.Sub(t1).Seconds(), t3.Sub(t2).Seconds(), time.Since(t3).Seconds())
	}
}

// ---- pailliern ---------------------------------------------------------------------

type pnCtx struct {
	sid   network.SID
	name  string
	pre   []appendOp
	extra bool
}

func (c pnCtx) tape() transcripts.Transcript {
	t := hagrid.NewTranscript(c.name)
	for _, p := range c.pre {
		t.AppendBytes(string(p.label), p.msgs...)
	}
	if c.extra {
		t.AppendBytes("extra", []byte{1})
	}
	return t
}

func (c pnCtx) text() string {
	return fmt.Sprintf("sid=%x name=%s pre=%d extra=%v", c.sid[:], c.name, len(c.pre), c.extra)
}

func (h *harness) paillierN(keys map[string]*paillier.SecretKey) {
	r := vh.NewRng(h.a.Seed, "C08", "pailliern", 0)
	rounds := 1
	if h.thorough || h.a.Search {
		rounds = 3
	}
	kinds := []string{"general", "blum", "safe"}
	for it := 0; it < rounds; it++ {
		sk := keys[kinds[it%3]]
		other := keys[kinds[(it+1)%3]]
		var ctx pnCtx
		copy(ctx.sid[:], r.Bytes(32))
		ctx.name = "c08-pailliern"
		ctx.pre = []appendOp{{label: []byte("prover"), msgs: [][]byte{le64(uint64(1 + r.Intn(4)))}}}
		var proof *pailliern.Proof
		var stmt *paillier.PublicKey
		if p := vh.Safely(func() {
			pr := must(pailliern.NewProver(ctx.sid, sk, ctx.tape()))
			var err error
			if proof, stmt, err = pr.Prove(); err != nil {
				panic(err)
			}
		}); p != "" {
			h.prop("pailliern-prove", "pailliern "+ctx.text(), "honest prover failed: "+p, "completeness")
			return
		}
		sigmas := func() string {
			var s []string
			for _, x := range proof.Sigmas {
				s = append(s, vh.ZHex(x.Big()))
			}
			return strings.Join(s, ",")
		}
		verify := func(c pnCtx, st *paillier.PublicKey, pf *pailliern.Proof) string {
			var err error
			if p := vh.Safely(func() { err = pailliern.Verify(c.sid, c.tape(), st, pf) }); p != "" {
				return "P"
			}
			return b2i(err == nil)
		}
		check := func(class, key string, c pnCtx, st *paillier.PublicKey, pf *pailliern.Proof, want string) {
			ct := fmt.Sprintf("pailliern key=%s %s %s sigmas=%s", kinds[it%3], class, c.text(), trunc(sigmas(), 300))
			got := verify(c, st, pf)
			h.res.Count("pailliern/"+class, ct, true)
			if got == "P" {
				h.res.Distribution["verifier-panicked"]++
				got = "0"
			}
			if got != want {
				h.prop(key, ct, fmt.Sprintf("Verify returned %s, property expects %s (%s)", got, want, class), "C08 pailliern "+class)
			}
		}
		check("same-context", "pailliern-honest-rejected", ctx, stmt, proof, "1")
		c2 := ctx
		c2.sid[31] ^= 1
		check("other-session", "pailliern-other-session", c2, stmt, proof, "0")
		c3 := ctx
		c3.extra = true
		check("transcript-extra-append", "pailliern-other-transcript-state", c3, stmt, proof, "0")
		c4 := ctx
		c4.pre = []appendOp{{label: []byte("prover"), msgs: [][]byte{le64(99)}}}
		check("other-prover", "pailliern-other-prover", c4, stmt, proof, "0")
		c5 := ctx
		c5.name = "c08-pailliern-x"
		check("other-transcript-name", "pailliern-other-transcript-name", c5, stmt, proof, "0")
		check("other-statement", "pailliern-other-statement", ctx, other.Public(), proof, "0")
		// every response altered alone (two ways), and pairs swapped
		clone := func() *pailliern.Proof {
			return &pailliern.Proof{Sigmas: append([]*numct.Nat{}, proof.Sigmas...)}
		}
		for i := range proof.Sigmas {
			p2 := clone()
			v := new(big.Int).Add(proof.Sigmas[i].Big(), big.NewInt(1))
			p2.Sigmas[i] = numct.NewNatFromBig(v, v.BitLen())
			check(fmt.Sprintf("response-%d-plus-one", i), fmt.Sprintf("pailliern-response-%d-altered", i), ctx, stmt, p2, "0")
			p3 := clone()
			p3.Sigmas[i] = proof.Sigmas[(i+1)%len(proof.Sigmas)]
			check(fmt.Sprintf("response-%d-replaced", i), fmt.Sprintf("pailliern-response-%d-altered", i), ctx, stmt, p3, "0")
		}
		p4 := clone()
		p4.Sigmas = p4.Sigmas[:len(p4.Sigmas)-1]
		check("one-response-fewer", "pailliern-count", ctx, stmt, p4, "0")
		p5 := clone()
		p5.Sigmas = append(p5.Sigmas, p5.Sigmas[0])
		check("one-response-more", "pailliern-count", ctx, stmt, p5, "0")
		p6 := clone()
		p6.Sigmas = nil
		check("no-responses", "pailliern-count", ctx, stmt, p6, "0")
	}
}

// ---- blummod -----------------------------------------------------------------------

func (h *harness) blumMod(keys map[string]*paillier.SecretKey, flipBudget int) {
	r := vh.NewRng(h.a.Seed, "C08", "blummod", 0)
	if p := vh.Safely(func() {
		rec := &recReader{r: r}
		proto := must(blummod.NewProtocol(rec))
		x, w := must(blummod.NewStatement(keys["blum"].Public())), must(blummod.NewWitness(keys["blum"]))
		x2 := must(blummod.NewStatement(keys["safe"].Public()))
		if err := proto.ValidateStatement(x, w); err != nil {
			panic(err)
		}
		c := mkCase("blummod/paillier2048", proto, rec, x, w, x2, 16)
		c.light = true
		h.niCase(c, fiatshamir.Name, 0, r, false, min(flipBudget, 16))
	}); p != "" {
		h.res.Note("cggmp21/blummod not exercised (setup failed): %s", trunc(p, 300))
	}
}

// ---- range ---------------------------------------------------------------------------

func (h *harness) rangeProof(keys map[string]*paillier.SecretKey, flipBudget int) {
	r := vh.NewRng(h.a.Seed, "C08", "paillier-range", 0)
	if p := vh.Safely(func() {
		sk := keys["general"]
		lBig := new(big.Int).Lsh(big.NewInt(1), 256)
		l := must(num.NPlus().FromNatCT(numct.NewNatFromBig(lBig, lBig.BitLen())))
		rec := &recReader{r: r}
		proto := must(paillierrange.NewPaillierRange(128, l, sk.Public(), rec)) // as a verifier has it: the public key
		n := sk.PlaintextGroup().Modulus()
		mk := func() (*paillierrange.Statement, *paillierrange.Witness) {
			xb := r.BigBelow(lBig) // the witness range [0, l)
			xn := must(num.N().FromNatCT(numct.NewNatFromBig(xb, xb.BitLen())))
			x := must(paillier.NewPlaintextFromNat(xn, n))
			c, nonce, err := encryption.Encrypt(x, sk.Public(), r)
			if err != nil {
				panic(err)
			}
			return must(paillierrange.NewStatement(c)), must(paillierrange.NewWitness(x, nonce))
		}
		x, w := mk()
		x2, _ := mk()
		if err := proto.ValidateStatement(x, w); err != nil {
			panic(err)
		}
		c := mkCase("paillierrange/paillier2048", proto, rec, x, w, x2, 16)
		c.light = true
		h.niCase(c, fiatshamir.Name, 0, r, false, 8)
	}); p != "" {
		h.res.Note("paillier/range not exercised (setup failed): %s", trunc(p, 300))
	}
}

// ---- lp (interactive) ------------------------------------------------------------------

func (h *harness) lpProof(keys map[string]*paillier.SecretKey) {
	r := vh.NewRng(h.a.Seed, "C08", "paillier-lp", 0)
	k := 5
	if h.thorough || h.a.Search {
		k = 16
	}
	sk := keys["general"]
	cs := genCtx(r)
	ct := fmt.Sprintf("lp k=%d %s", k, cs.text())
	if p := vh.Safely(func() {
		pctx, err := cs.buildFor(1)
		if err != nil {
			panic(err)
		}
		vctx, err := cs.buildFor(2)
		if err != nil {
			panic(err)
		}
		ve := must(lp.NewVerifier(vctx, k, sk.Public(), r))
		pr := must(lp.NewProver(pctx, k, sk, r))
		r1 := must(ve.Round1())
		r2 := must(pr.Round2(r1))
		r3 := must(ve.Round3(r2))
		r4 := must(pr.Round4(r3))
		// every response altered alone, count changes: rejected (Round5 leaves the verifier's
		// round untouched on rejection, so the honest message is accepted afterwards)
		for i := range r4.YPrime {
			y := append([]*numct.Nat{}, r4.YPrime...)
			v := new(big.Int).Add(y[i].Big(), big.NewInt(1))
			y[i] = numct.NewNatFromBig(v, v.BitLen())
			h.res.Count("lp/response-altered", fmt.Sprintf("%s i=%d", ct, i), true)
			var err error
			if p := vh.Safely(func() { err = ve.Round5(&lp.Round4Output{YPrime: y}) }); p == "" && err == nil {
				h.prop(fmt.Sprintf("lp-response-%d-altered", i), fmt.Sprintf("%s i=%d", ct, i), "LP verifier accepted a last message with one altered response", "C08 lp component change")
				return
			}
		}
		for name, y := range map[string][]*numct.Nat{"fewer": r4.YPrime[:k-1], "more": append(append([]*numct.Nat{}, r4.YPrime...), r4.YPrime[0]), "none": nil} {
			h.res.Count("lp/count-"+name, ct, true)
			var err error
			if p := vh.Safely(func() { err = ve.Round5(&lp.Round4Output{YPrime: y}) }); p == "" && err == nil {
				h.prop("lp-count", ct+" "+name, "LP verifier accepted a last message with a wrong number of responses", "C08 lp count change")
				return
			}
		}
		h.res.Count("lp/honest", ct, true)
		if err := ve.Round5(r4); err != nil {
			h.prop("lp-honest-rejected", ct, "honest LP proof rejected: "+err.Error(), "completeness")
		}
	}); p != "" {
		h.res.Note("paillier/lp not exercised: %s", trunc(p, 300))
	}
}
