package main

// Interactive session with the extracted model driver: one case line in, one result line
// out; in between the driver may ask for XOF / hash outputs ("Q X custom input len",
// "Q H input"), which are answered with Go's own cSHAKE256 / SHA3-256 (crypto/sha3 of the
// standard library — independent of the library under test).

import (
	"bufio"
	"crypto/sha3"
	"fmt"
	"io"
	"os/exec"
	"strconv"
	"strings"

	"verif/harness/internal/vh"
)

type modelProc struct {
	cmd     *exec.Cmd
	in      io.WriteCloser
	out     *bufio.Reader
	queries int
	lines   int
	// the XOF calls of the last ask (custom,input,len) — the harness compares the first of
	// them with what the implementation derived
	lastX [][3]string
}

func startModel(path string) (*modelProc, error) {
	cmd := exec.Command(path)
	in, err := cmd.StdinPipe()
	if err != nil {
		return nil, err
	}
	out, err := cmd.StdoutPipe()
	if err != nil {
		return nil, err
	}
	if err := cmd.Start(); err != nil {
		return nil, err
	}
	return &modelProc{cmd: cmd, in: in, out: bufio.NewReaderSize(out, 1<<20)}, nil
}

func (m *modelProc) close() {
	m.in.Close()
	m.cmd.Wait()
}

func (m *modelProc) ask(line string) (string, error) {
	m.lines++
	m.lastX = m.lastX[:0]
	if _, err := io.WriteString(m.in, line+"\n"); err != nil {
		return "", fmt.Errorf("model driver: %w", err)
	}
	for {
		l, err := m.out.ReadString('\n')
		if err != nil {
			return "", fmt.Errorf("model driver died on %q: %w", trunc(line, 200), err)
		}
		l = strings.TrimRight(l, "\n")
		if strings.HasPrefix(l, "Q X ") {
			f := strings.Split(l, " ")
			n, _ := strconv.Atoi(f[4])
			m.lastX = append(m.lastX, [3]string{f[2], f[3], f[4]})
			m.queries++
			io.WriteString(m.in, vh.Hex(cshake(vh.UnHex(f[2]), vh.UnHex(f[3]), n))+"\n")
			continue
		}
		if strings.HasPrefix(l, "Q H ") {
			d := sha3.Sum256(vh.UnHex(l[4:]))
			m.queries++
			io.WriteString(m.in, vh.Hex(d[:])+"\n")
			continue
		}
		return l, nil
	}
}

func trunc(s string, n int) string {
	if len(s) > n {
		return s[:n] + "…"
	}
	return s
}
