package main

// CGGMP21 proofs (enc, encelg, dec, affg, affgstar, fac) and paillier/lpdl with the
// pre-generated 2048-bit material of corpus/c08/keys2048.txt: Paillier keys N0 (general),
// N1 (blum) and a ring-Pedersen key built from the safe primes (t a random quadratic residue
// generating QR, s = t^lambda).  Statements are built the way the packages' own tests and
// the signing code build them (small fixed x, y, k; fresh nonces).  All go through the
// generic compiler-level machinery in its light mode (one verification costs 0.1–several
// seconds): prove, verify, changed contexts, every CBOR leaf of the proof altered alone
// (first/middle/last of repeated arrays), count/structure changes; the simulator's
// transcript must verify.

import (
	"fmt"
	"math/big"
	"os"
	"strings"
	"time"

	"github.com/bronlabs/bron-crypto/pkg/base/curves/k256"
	"github.com/bronlabs/bron-crypto/pkg/base/nt/num"
	"github.com/bronlabs/bron-crypto/pkg/base/nt/numct"
	"github.com/bronlabs/bron-crypto/pkg/base/nt/znstar"
	"github.com/bronlabs/bron-crypto/pkg/base/serde"
	"github.com/bronlabs/bron-crypto/pkg/base/utils/algebrautils"
	"github.com/bronlabs/bron-crypto/pkg/commitments/indcpacom"
	"github.com/bronlabs/bron-crypto/pkg/commitments/intcom"
	"github.com/bronlabs/bron-crypto/pkg/encryption"
	"github.com/bronlabs/bron-crypto/pkg/encryption/elgamal"
	"github.com/bronlabs/bron-crypto/pkg/encryption/paillier"
	"github.com/bronlabs/bron-crypto/pkg/proofs/cggmp21/affg"
	"github.com/bronlabs/bron-crypto/pkg/proofs/cggmp21/affgstar"
	"github.com/bronlabs/bron-crypto/pkg/proofs/cggmp21/dec"
	"github.com/bronlabs/bron-crypto/pkg/proofs/cggmp21/enc"
	"github.com/bronlabs/bron-crypto/pkg/proofs/cggmp21/encelg"
	"github.com/bronlabs/bron-crypto/pkg/proofs/cggmp21/fac"
	"github.com/bronlabs/bron-crypto/pkg/proofs/paillier/lpdl"
	"github.com/bronlabs/bron-crypto/pkg/proofs/sigma/compiler/fiatshamir"

	"verif/harness/internal/vh"
)

// ringPedersen builds an intcom commitment key from two safe primes.
func ringPedersenKey(p, q *big.Int, r *vh.Rng) *intcom.CommitmentKey {
	mk := func(x *big.Int) *num.NatPlus {
		return must(num.NPlus().FromNatCT(numct.NewNatFromBig(x, x.BitLen())))
	}
	pp, qq := mk(p), mk(q)
	g := must(znstar.NewRSAGroup(pp, qq))
	var t *znstar.RSAGroupElementKnownOrder
	for {
		t = must(g.RandomQuadraticResidue(r))
		if t.Value().Decrement().Nat().Coprime(g.Modulus().Nat()) {
			break
		}
	}
	zmod := must(num.NewZMod(pp.Rsh(1).Mul(qq.Rsh(1))))
	var lambda *num.Uint
	for {
		lambda = must(algebrautils.RandomNonIdentity(zmod, r))
		if lambda.IsUnit() && !lambda.IsOne() {
			break
		}
	}
	return must(intcom.NewTrapdoorKey(t, lambda)).Export()
}

func zint(v int64) *num.Int { return num.Z().FromInt64(v) }

func (h *harness) runLight(c *niCase, r *vh.Rng, simulate func() string) {
	// enc and encelg verify in a few tens of milliseconds: full treatment (all leaves)
	c.light = !(strings.HasPrefix(c.id, "cggmp21-enc/") || strings.HasPrefix(c.id, "cggmp21-encelg/"))
	t0 := time.Now()
	if simulate != nil {
		h.res.Count("sigma-simulate/"+c.id, "simulate "+c.id, true)
		if msg := simulate(); msg != "" {
			h.prop("sigma-simulate/"+c.id, "simulate "+c.id, msg, "simulator transcripts verify")
		}
	}
	h.niCase(c, fiatshamir.Name, 0, r, false, 16)
	if os.Getenv("C08_TIMING") != "" {
		fmt.Fprintf(os.Stderr, "%s %.1fs\n", c.id, time.Since(t0).Seconds())
	}
}

func (h *harness) cggmp21(keys map[string]*paillier.SecretKey, primes map[string][2]*big.Int) {
	r := vh.NewRng(h.a.Seed, "C08", "cggmp21", 0)
	curve := k256.NewCurve()
	sf := curve.ScalarField()
	n0sk, n1sk := keys["general"], keys["blum"]
	n0, n1 := n0sk.Public(), n1sk.Public()
	var rp *intcom.CommitmentKey
	// affg and encelg demand a ring-Pedersen modulus of base.IFCKeyLength (3072) bits
	rpPrimes, ok := primes["safe3072"]
	if !ok {
		rpPrimes = primes["safe"]
	}
	if p := vh.Safely(func() { rp = ringPedersenKey(rpPrimes[0], rpPrimes[1], r) }); p != "" {
		h.res.Note("CGGMP21 proofs skipped: ring-Pedersen key: %s", trunc(p, 300))
		return
	}
	const L, LPrime, Eps = 256, 1280, 512
	scalar := func(v *num.Int) *k256.Scalar {
		m := new(big.Int).Mod(v.Big(), sf.Order().Big())
		return must(sf.FromBytesBEReduce(m.Bytes()))
	}
	guard := func(name string, f func()) {
		// quick tier: only the proofs whose single verification takes well under a second
		if !(h.thorough || h.a.Search) && name != "enc" && name != "encelg" {
			return
		}
		if only := os.Getenv("C08_CG"); only != "" && !strings.Contains(","+only+",", ","+name+",") {
			return
		}
		if p := vh.Safely(f); p != "" {
			h.res.Note("cggmp21/%s not exercised (setup failed): %s", name, trunc(p, 300))
		}
	}
	simCheck := func(run func(e []byte) error, L int) func() string {
		return func() string {
			if err := run(r.Bytes(L)); err != nil {
				return "simulated transcript does not verify: " + err.Error()
			}
			return ""
		}
	}

	// --- enc: K = enc_N0(k; rho), k in +-2^l
	guard("enc", func() {
		rec := &recReader{r: r}
		proto := must(enc.NewProtocol(n0, rp, 256, 512, rec))
		mk := func() (*enc.Statement, *enc.Witness) {
			kInt := must(num.Z().FromTwosComplementBytesBE(r.Bytes(32)))
			k := must(paillier.NewPlaintextSymmetric(kInt, n0sk.PlaintextGroup().Modulus()))
			bigK, rho, err := encryption.Encrypt(k, n0, r)
			if err != nil {
				panic(err)
			}
			return must(enc.NewStatement(bigK)), must(enc.NewWitness(k, rho))
		}
		x, w := mk()
		x2, _ := mk()
		if err := proto.ValidateStatement(x, w); err != nil {
			panic(err)
		}
		c := mkCase("cggmp21-enc/paillier2048", proto, rec, x, w, x2, 16)
		h.runLight(c, r, simCheck(func(e []byte) error {
			a, z, err := proto.RunSimulator(x, e)
			if err != nil {
				return err
			}
			return proto.Verify(x, a, e, z)
		}, proto.GetChallengeBytesLength()))
	})

	// --- fac: N0 has no small factor
	guard("fac", func() {
		rec := &recReader{r: r}
		proto := must(fac.NewProtocol(rp, 128, 256, rec))
		x, w := must(fac.NewStatement(n0)), must(fac.NewWitness(n0sk))
		x2 := must(fac.NewStatement(n1))
		if err := proto.ValidateStatement(x, w); err != nil {
			panic(err)
		}
		c := mkCase("cggmp21-fac/paillier2048", proto, rec, x, w, x2, 16)
		h.runLight(c, r, simCheck(func(e []byte) error {
			a, z, err := proto.RunSimulator(x, e)
			if err != nil {
				return err
			}
			return proto.Verify(x, a, e, z)
		}, proto.GetChallengeBytesLength()))
	})

	// --- encelg: Paillier encryption of x together with an ElGamal commitment to g^x
	guard("encelg", func() {
		rec := &recReader{r: r}
		ask := must(elgamal.SampleSecretKey[*k256.Point, *k256.Scalar](curve, r))
		eck := must(indcpacom.NewHomomorphicCommitmentKey(ask.Public()))
		proto := must(encelg.NewProtocol(rp, eck, L, Eps, rec))
		mk := func(xv int64) (*encelg.Statement[*k256.Point, *k256.BaseFieldElement, *k256.Scalar], *encelg.Witness[*k256.Scalar]) {
			xInt := zint(xv)
			bx := must(sf.Random(r))
			bw := must(indcpacom.NewWitness(must(elgamal.NewNonce[*k256.Scalar](bx))))
			bm := must(indcpacom.NewMessage(must(elgamal.NewPlaintext[*k256.Point, *k256.Scalar](curve.ScalarBaseMul(scalar(xInt))))))
			bc := must(eck.CommitWithWitness(bm, bw))
			xp := must(paillier.NewPlaintextSymmetric(xInt, n0.PlaintextGroup().Modulus()))
			rho := must(n0.SampleNonce(r))
			c := must(n0.EncryptWithNonce(xp, rho))
			return must(encelg.NewStatement(n0, c, bc)), must(encelg.NewWitness[*k256.Scalar](xInt, rho, bw))
		}
		x, w := mk(42)
		x2, _ := mk(43)
		if err := proto.ValidateStatement(x, w); err != nil {
			panic(err)
		}
		c := mkCase("cggmp21-encelg/paillier2048", proto, rec, x, w, x2, 16)
		h.runLight(c, r, simCheck(func(e []byte) error {
			a, z, err := proto.RunSimulator(x, e)
			if err != nil {
				return err
			}
			return proto.Verify(x, a, e, z)
		}, proto.GetChallengeBytesLength()))
	})

	// shared construction of (C, D = C^x * enc(y), Y = enc_N1(y), X = g^x)
	type aff struct {
		c, d, yc *paillier.Ciphertext
		xInt     *num.Int
		yN1      *paillier.Plaintext
		rho, rhY *paillier.Nonce
	}
	mkAff := func(xv, yv int64) aff {
		xInt, yInt := zint(xv), zint(yv)
		yN1 := must(paillier.NewPlaintextSymmetric(yInt, n1.PlaintextGroup().Modulus()))
		rhoY := must(n1.SampleNonce(r))
		yc := must(n1.EncryptWithNonce(yN1, rhoY))
		cp := must(paillier.NewPlaintextSymmetric(zint(123), n0.PlaintextGroup().Modulus()))
		c := must(n0.EncryptWithNonce(cp, must(n0.SampleNonce(r))))
		rho := must(n0.SampleNonce(r))
		yN0 := must(paillier.NewPlaintextSymmetric(yInt, n0.PlaintextGroup().Modulus()))
		ey := must(n0.EncryptWithNonce(yN0, rho))
		d := must(n0.CiphertextOp(must(n0.CiphertextScalarOp(c, xInt)), ey))
		return aff{c, d, yc, xInt, yN1, rho, rhoY}
	}

	// --- affg
	guard("affg", func() {
		rec := &recReader{r: r}
		proto := must(affg.NewProtocol(rp, L, LPrime, Eps, curve, rec))
		a1, a2 := mkAff(42, -17), mkAff(42, -18)
		x := must(affg.NewStatement(n0, n1, a1.c, a1.d, a1.yc, curve.ScalarBaseMul(scalar(a1.xInt))))
		w := must(affg.NewWitness(a1.xInt, a1.yN1, a1.rho, a1.rhY))
		x2 := must(affg.NewStatement(n0, n1, a2.c, a2.d, a2.yc, curve.ScalarBaseMul(scalar(a2.xInt))))
		if err := proto.ValidateStatement(x, w); err != nil {
			panic(err)
		}
		c := mkCase("cggmp21-affg/paillier2048", proto, rec, x, w, x2, 16)
		h.runLight(c, r, simCheck(func(e []byte) error {
			a, z, err := proto.RunSimulator(x, e)
			if err != nil {
				return err
			}
			return proto.Verify(x, a, e, z)
		}, proto.GetChallengeBytesLength()))
	})

	// --- affgstar
	guard("affgstar", func() {
		rec := &recReader{r: r}
		proto := must(affgstar.NewProtocol(L, LPrime, Eps, curve, rec))
		a1, a2 := mkAff(42, -17), mkAff(42, -18)
		x := must(affgstar.NewStatement(n0, n1, a1.c, a1.d, a1.yc, curve.ScalarBaseMul(scalar(a1.xInt))))
		w := must(affgstar.NewWitness(a1.xInt, a1.yN1, a1.rho, a1.rhY))
		x2 := must(affgstar.NewStatement(n0, n1, a2.c, a2.d, a2.yc, curve.ScalarBaseMul(scalar(a2.xInt))))
		if err := proto.ValidateStatement(x, w); err != nil {
			panic(err)
		}
		c := mkCase("cggmp21-affgstar/paillier2048", proto, rec, x, w, x2, 16)
		c.heavy = true
		h.runLight(c, r, simCheck(func(e []byte) error {
			a, z, err := proto.RunSimulator(x, e)
			if err != nil {
				return err
			}
			return proto.Verify(x, a, e, z)
		}, proto.GetChallengeBytesLength()))
	})

	// --- dec
	guard("dec", func() {
		rec := &recReader{r: r}
		proto := must(dec.NewProtocol(L, LPrime, Eps, curve.Generator(), rec))
		mk := func(yv int64) (*dec.Statement[*k256.Point, *k256.BaseFieldElement, *k256.Scalar], *dec.Witness) {
			xInt, yInt := zint(42), zint(yv)
			kp := must(paillier.NewPlaintextSymmetric(zint(123), n0.PlaintextGroup().Modulus()))
			k := must(n0.EncryptWithNonce(kp, must(n0.SampleNonce(r))))
			rho := must(n0.SampleNonce(r))
			yp := must(paillier.NewPlaintextSymmetric(yInt, n0.PlaintextGroup().Modulus()))
			ey := must(n0.EncryptWithNonce(yp, rho))
			kx := must(n0.CiphertextScalarOp(k, xInt))
			d := must(n0.CiphertextOp(ey, must(n0.CiphertextOpInv(kx))))
			st := must(dec.NewStatement(n0, k, curve.ScalarBaseMul(scalar(xInt)), d, curve.ScalarBaseMul(scalar(yInt))))
			return st, must(dec.NewWitness(xInt, yInt, rho))
		}
		x, w := mk(-17)
		x2, _ := mk(-18)
		if err := proto.ValidateStatement(x, w); err != nil {
			panic(err)
		}
		c := mkCase("cggmp21-dec/paillier2048", proto, rec, x, w, x2, 16)
		c.heavy = true
		h.runLight(c, r, simCheck(func(e []byte) error {
			a, z, err := proto.RunSimulator(x, e)
			if err != nil {
				return err
			}
			return proto.Verify(x, a, e, z)
		}, proto.GetChallengeBytesLength()))
	})
}

// ---- paillier/lpdl (interactive) --------------------------------------------------------

// lpdlProof: an honest run up to the prover's last message; that message is CBOR-encoded,
// every leaf altered alone (first/middle/last of the repeated parts), decoded again and
// handed to Round5 — rejected (a panic is reported under lpdl-verify-panic); finally the
// honest message is accepted.
func (h *harness) lpdlProof(keys map[string]*paillier.SecretKey) {
	r := vh.NewRng(h.a.Seed, "C08", "paillier-lpdl", 0)
	sk := keys["general"]
	curve := k256.NewCurve()
	cs := genCtx(r)
	ct := "lpdl " + cs.text()
	t0 := time.Now()
	if p := vh.Safely(func() {
		q := curve.Order().Big()
		third := new(big.Int).Div(q, big.NewInt(3))
		xb := new(big.Int).Add(third, r.BigBelow(third)) // x in [q/3, 2q/3)
		xn := must(num.N().FromNatCT(numct.NewNatFromBig(xb, xb.BitLen())))
		xm := must(paillier.NewPlaintextFromNat(xn, sk.Group().N()))
		buf := make([]byte, curve.ScalarField().ElementSize())
		x := must(curve.ScalarField().FromBytes(xb.FillBytes(buf)))
		bigQ := curve.ScalarBaseMul(x)
		xEnc, nonce, err := encryption.Encrypt(xm, sk, r)
		if err != nil {
			panic(err)
		}
		vctx := must(cs.buildFor(1))
		pctx := must(cs.buildFor(2))
		ve := must(lpdl.NewVerifier(vctx, sk.Public(), bigQ, xEnc, r))
		pr := must(lpdl.NewProver(pctx, curve, sk, x, nonce, r))
		r1 := must(ve.Round1())
		r2 := must(pr.Round2(r1))
		r3 := must(ve.Round3(r2))
		r4 := must(pr.Round4(r3))
		wire := must(serde.MarshalCBOR(r4))
		leaves, err := cborLeaves(wire)
		if err != nil {
			panic(err)
		}
		budget := 6
		if h.thorough || h.a.Search {
			budget = 30
		}
		accepted := false
		try := func(class string, b []byte) {
			if accepted {
				return // the verifier has moved on: nothing more can be learnt from this run
			}
			m, err := serde.UnmarshalCBOR[*lpdl.Round4Output[*k256.Point, *k256.BaseFieldElement, *k256.Scalar]](b)
			cc := fmt.Sprintf("%s %s msg=%s", ct, class, trunc(vh.Hex(b), 400))
			if err != nil || m == nil {
				h.res.Count("lpdl/"+class+"/undecodable", cc, false)
				return
			}
			same := false
			if rb, err := serde.MarshalCBOR(m); err == nil && string(rb) == string(wire) {
				same = true
			}
			if same {
				// a re-encoding of the very same message: the same proof (checked at the end)
				h.res.Count("lpdl/"+class+"/same-value", cc, true)
				return
			}
			h.res.Count("lpdl/"+class, cc, true)
			var verr error
			if p := vh.Safely(func() { verr = ve.Round5(m) }); p != "" {
				h.prop("lpdl-verify-panic", cc, "lpdl verifier panicked on a decoded last message: "+trunc(p, 200), "verifiers never crash on decodable input")
				return
			}
			if verr == nil && !same {
				key := "lpdl-component-altered"
				if strings.Contains(class, "@/m2/") && strings.HasSuffix(class, "/m1/m0/m0#b") {
					key = "paillierrange-plaintext-modulus-unchecked" // the embedded range proof's plaintext modulus
				}
				accepted = true
				h.prop(key, cc, "lpdl verifier accepted a last message with one altered component", "C08 lpdl component change")
			}
		}
		for _, l := range selectLeaves(leaves, budget) {
			if b := l.alter(wire, 0x01); b != nil {
				try("component-altered@"+l.path+"#"+string(l.kind), b)
			}
		}
		try("drop-last-byte", wire[:len(wire)-1])
		h.res.Count("lpdl/honest", ct, true)
		if accepted {
			return
		}
		if err := ve.Round5(r4); err != nil {
			h.prop("lpdl-honest-rejected", ct, "honest LPDL proof rejected: "+err.Error(), "completeness")
		}
	}); p != "" {
		h.res.Note("paillier/lpdl not exercised: %s", trunc(p, 300))
	}
	if os.Getenv("C08_TIMING") != "" {
		fmt.Fprintf(os.Stderr, "lpdl %.1fs\n", time.Since(t0).Seconds())
	}
}
