package main

// The two interactive compilers (plain sigma rounds, and the zero-knowledge compiler with a
// committed challenge): completeness in equal contexts, rejection for another statement,
// equal final transcripts exactly when the contexts are equal.

import (
	"bytes"
	"fmt"

	"github.com/bronlabs/bron-crypto/pkg/mpc/session"
	"github.com/bronlabs/bron-crypto/pkg/proofs/sigma"
	"github.com/bronlabs/bron-crypto/pkg/proofs/sigma/compiler/zk"

	"verif/harness/internal/vh"
)

func finalTape(ctx *session.Context) []byte {
	b, err := ctx.Transcript().ExtractBytes("c08-final", 32)
	if err != nil {
		return nil
	}
	return b
}

func runInteractive[X sigma.Statement, W sigma.Witness, A sigma.Statement, S sigma.State, Z sigma.Response](
	kind string, proto sigma.Protocol[X, W, A, S, Z], x X, w W, x2 X, cs ctxSpec, r *vh.Rng,
) (msg string) {
	other := cs
	other.prover++
	run := func(pcs, vcs ctxSpec, vx X) (accepted bool, sameTape bool, err error) {
		pctx, e1 := pcs.build()
		vctx, e2 := vcs.build()
		if e1 != nil || e2 != nil {
			return false, false, fmt.Errorf("context: %v %v", e1, e2)
		}
		if p := vh.Safely(func() {
			switch kind {
			case "sigma":
				var pr *sigma.Prover[X, W, A, S, Z]
				var ve *sigma.Verifier[X, W, A, S, Z]
				if pr, err = sigma.NewProver(pctx, proto, x, w); err != nil {
					return
				}
				if ve, err = sigma.NewVerifier(vctx, proto, vx, r); err != nil {
					return
				}
				var a A
				var e []byte
				var z Z
				if a, err = pr.Round1(); err != nil {
					return
				}
				if e, err = ve.Round2(a); err != nil {
					return
				}
				if z, err = pr.Round3(e); err != nil {
					return
				}
				accepted = ve.Verify(z) == nil
			case "zk":
				var pr *zk.Prover[X, W, A, S, Z]
				var ve *zk.Verifier[X, W, A, S, Z]
				if pr, err = zk.NewProver(pctx, proto, x, w); err != nil {
					return
				}
				if ve, err = zk.NewVerifier(vctx, proto, vx, r); err != nil {
					return
				}
				ec, e := ve.Round1()
				if e != nil {
					err = e
					return
				}
				a, e := pr.Round2(ec)
				if e != nil {
					err = e
					return
				}
				ch, wit, e := ve.Round3(a)
				if e != nil {
					err = e
					return
				}
				z, e := pr.Round4(ch, wit)
				if e != nil {
					// the prover refuses an opening that does not match (different contexts give
					// different commitment keys): not accepted
					return
				}
				accepted = ve.Verify(z) == nil
			}
		}); p != "" {
			return false, false, fmt.Errorf("panic: %s", p)
		}
		if err != nil {
			return false, false, err
		}
		return accepted, bytes.Equal(finalTape(pctx), finalTape(vctx)), nil
	}
	acc, same, err := run(cs, cs, x)
	if err != nil {
		return "honest run failed: " + err.Error()
	}
	if !acc {
		return "honest interactive proof rejected"
	}
	if !same {
		return "prover and verifier transcripts differ after an honest run in equal contexts"
	}
	acc, _, err = run(cs, cs, x2)
	if err == nil && acc {
		return "interactive proof accepted for another statement"
	}
	acc, same, err = run(cs, other, x)
	if err == nil && acc && same {
		return "transcripts of different contexts coincide after the proof"
	}
	return ""
}
