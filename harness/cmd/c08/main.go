// c08 — correspondence harness for property C08 (non-interactive proofs verify only for the
// right statement, prover and session).  See /verif/DESIGN.md §5 C08.
//
// Two layers are tied to the Coq model (coq/model/Sigma.v, Compilers.v):
//   - sigma level, in the exponent (lin.go): commitments, responses, verdicts, simulator and
//     extractor of Schnorr / Okamoto / batch Schnorr / OR composition;
//   - compiler level, for every protocol (this file): the compiled verifier accepts exactly
//     when the model's compiled verifier does, the model being run on the real cSHAKE256 /
//     SHA3-256 of its own transcript byte stream and on the sigma verifier's verdict.
//
// The property's own predicate is evaluated on the implementation alone: an honest proof
// verifies in its context and is rejected in every changed context, after every change of a
// decoded value and every structural change; forged proofs are rejected.
package main

import (
	"bytes"
	"crypto/sha3"
	"fmt"
	"os"
	"runtime/debug"
	"strings"
	"time"

	"github.com/bronlabs/bron-crypto/pkg/base/curves/k256"
	"github.com/bronlabs/bron-crypto/pkg/base/curves/p256"
	"github.com/bronlabs/bron-crypto/pkg/base/curves/pairable/bls12381"
	"github.com/bronlabs/bron-crypto/pkg/proofs/sigma/compiler"
	"github.com/bronlabs/bron-crypto/pkg/proofs/sigma/compiler/fiatshamir"
	"github.com/bronlabs/bron-crypto/pkg/proofs/sigma/compiler/fischlin"
	"github.com/bronlabs/bron-crypto/pkg/proofs/sigma/compiler/randfischlin"

	"verif/harness/internal/vh"
)

type harness struct {
	a        vh.Args
	res      *vh.Result
	m        *modelProc
	thorough bool
	dead     bool
}

func (h *harness) flush() {
	if h.a.Out != "" {
		h.res.Write(h.a.Out)
	}
}

func (h *harness) ask(line string) string {
	if h.dead {
		return "DEAD"
	}
	out, err := h.m.ask(line)
	if err != nil {
		h.dead = true
		h.res.Mismatch(vh.Mismatch{ID: "driver", Kind: "corr", Key: "model-driver-failed", Detail: err.Error(), Case: trunc(line, 4000), What: "extracted model driver"})
		return "DEAD"
	}
	return out
}

var nMism = map[string]int{}
var lastPanic string
var tImpl, tModel, tSigma, tProve time.Duration

func (h *harness) corr(key, cs, detail string, propfail bool, what string) {
	nMism[key]++
	if nMism[key] > 5 {
		return
	}
	h.res.Mismatch(vh.Mismatch{ID: key, Kind: "corr", Key: key, Detail: detail, Case: cs, PropFail: propfail, What: what})
}

func (h *harness) prop(key, cs, detail string, what string) {
	nMism["p:"+key]++
	if nMism["p:"+key] > 5 {
		return
	}
	h.res.Mismatch(vh.Mismatch{ID: key, Kind: "prop", Key: key, Detail: detail, Case: cs, PropFail: true, What: what})
}

// ---- compiler level -----------------------------------------------------------------

func short(comp compiler.Name) string {
	switch comp {
	case fiatshamir.Name:
		return "fs"
	case fischlin.Name:
		return "fischlin"
	default:
		return "randfischlin"
	}
}

func compByShort(s string) compiler.Name {
	switch s {
	case "fs":
		return fiatshamir.Name
	case "fischlin":
		return fischlin.Name
	default:
		return randfischlin.Name
	}
}

func padLeft(e []byte, L int) []byte {
	if len(e) > L {
		return nil
	}
	out := make([]byte, L)
	copy(out[L-len(e):], e)
	return out
}

// modelVerdict asks the model whether the compiled verifier accepts the decoded proof d for
// statement `which` in context cs; the sigma verdicts come from the implementation's
// Protocol.Verify on the decoded values.
func (h *harness) modelVerdict(c *niCase, comp compiler.Name, cs ctxSpec, which int, d *decoded) string {
	// The model's verdict is monotone in the sigma verdicts (a conjunction), so it is first
	// asked with all of them true; only if it then accepts are the real sigma verdicts
	// computed (Protocol.Verify of the implementation on the decoded values) and passed.
	first := h.modelVerdictWith(c, comp, cs, which, d, false)
	if first != "1" {
		return first
	}
	return h.modelVerdictWith(c, comp, cs, which, d, true)
}

func (h *harness) modelVerdictWith(c *niCase, comp compiler.Name, cs ctxSpec, which int, d *decoded, real bool) string {
	name, ops := cs.history()
	ctxf := fmt.Sprintf("%s %s %s %s", vh.Hex(name), strings.Join(ops, ";"), vh.Hex(cs.sid()), vh.Hex([]byte(c.pname)))
	sv := func(i int, e []byte) bool {
		if !real {
			return true
		}
		return e != nil && c.sigmaOK(which, d, i, e)
	}
	switch comp {
	case fiatshamir.Name:
		if len(d.a) != 1 {
			return "0"
		}
		return h.ask(fmt.Sprintf("FSV %s %s %s %d %s %s", ctxf, vh.Hex(c.stmt[which]), vh.Hex(d.a[0]), c.L, vh.Hex(d.e[0]), b2i(sv(0, d.e[0]))))
	case fischlin.Name:
		p := h.ask(fmt.Sprintf("FIP %d %d", c.rho, c.ss))
		if p == "NONE" || p == "DEAD" {
			return p
		}
		bt := strings.Split(p, ",")
		var reps []string
		svs := ""
		for i := range d.a {
			reps = append(reps, vh.Hex(d.a[i])+","+vh.Hex(d.e[i])+","+vh.Hex(d.z[i]))
			svs += b2i(sv(i, padLeft(d.e[i], c.L)))
		}
		return h.ask(fmt.Sprintf("FIV %s %s %d %s %s %d %s %s", ctxf, vh.Hex(c.stmt[which]), c.rho, bt[0], bt[1], c.L, strings.Join(reps, ";"), svs))
	default:
		var reps []string
		svs := ""
		for i := range d.a {
			reps = append(reps, vh.Hex(d.a[i])+","+vh.Hex(d.e[i])+","+vh.Hex(d.z[i]))
			svs += b2i(sv(i, d.e[i]))
		}
		return h.ask(fmt.Sprintf("RFV %s %d %s %s", ctxf, c.L, strings.Join(reps, ";"), svs))
	}
}

// implVerdict: "1" accept, "0" reject, "P" panic
func implVerdict(c *niCase, comp compiler.Name, cs ctxSpec, which int, proof []byte) string {
	ctx, err := cs.build()
	if err != nil {
		return "S" // context not constructible (sid-only without the field): skipped
	}
	var verr error
	if p := safelyStack(func() { verr = c.verify(comp, ctx, which, proof) }); p != "" {
		lastPanic = p
		return "P"
	}
	return b2i(verr == nil)
}

// safelyStack is vh.Safely plus the innermost library frames of the panic (for the report)
func safelyStack(f func()) (msg string) {
	defer func() {
		if r := recover(); r != nil {
			msg = fmt.Sprint(r)
			var frames []string
			for _, l := range strings.Split(string(debug.Stack()), "\n") {
				if strings.Contains(l, "/pkg/") && strings.Contains(l, ".go:") && len(frames) < 4 {
					frames = append(frames, strings.TrimSpace(l))
				}
			}
			msg += " @ " + strings.Join(frames, " <- ")
		}
	}()
	f()
	return ""
}

func caseText(c *niCase, comp compiler.Name, variant int, cs ctxSpec, which int, proof []byte) string {
	return fmt.Sprintf("ni %s %s v%d which=%d %s proof=%s", c.id, short(comp), variant, which, cs.text(), vh.Hex(proof))
}

// checkOne compares implementation, model and the property's expectation on one
// (context, statement, proof) triple.  expect: "1" must accept, "0" must reject.
func (h *harness) checkOne(class string, c *niCase, comp compiler.Name, variant int, cs ctxSpec, which int, proof []byte, orig *decoded, expect string) {
	h.checkOneKey(class, "", c, comp, variant, cs, which, proof, orig, expect)
}

// lastGot: the implementation's verdict in the most recent checkOne ("1", "0", "P", "S")
var lastGot string

func (h *harness) checkOneKey(class, fixedKey string, c *niCase, comp compiler.Name, variant int, cs ctxSpec, which int, proof []byte, orig *decoded, expect string) {
	key := class + "/" + short(comp) + "/" + c.id
	if fixedKey != "" {
		key = fixedKey
	}
	if strings.HasPrefix(c.id, "paillierrange/") && (class == "component-altered" || class == "byte-flip") {
		// finding paillierrange-plaintext-modulus-unchecked: one key for the alterations of the
		// range proof's response components
		key = "paillierrange-plaintext-modulus-unchecked"
	}
	ct := caseText(c, comp, variant, cs, which, proof)
	t0 := time.Now()
	got := implVerdict(c, comp, cs, which, proof)
	lastGot = got
	tImpl += time.Since(t0)
	if got == "S" {
		h.res.Distribution["skipped-"+class]++
		return
	}
	d := c.decode(comp, proof)
	decClass := "undecodable"
	if d != nil {
		decClass = "decoded"
		if orig != nil {
			decClass = "decoded-" + orig.diff(d)
		}
	}
	h.res.Count(class+"/"+short(comp)+"/"+decClass, ct, d != nil)
	if got == "P" {
		// a verifier must reject, not crash, whatever it is handed
		h.res.Distribution["verifier-panicked"]++
		pkg := c.id
		if i := strings.Index(pkg, "/"); i > 0 {
			pkg = pkg[:i]
		}
		h.prop(pkg+"-verify-panic", ct, "compiled verifier panicked ("+class+", "+decClass+"): "+trunc(lastPanic, 300), "verifiers never accept or crash on malformed proofs")
		return
	}
	propfail := expect != "?" && got != expect
	if c.light && !propfail && got == "0" && class != "same-context" {
		// expensive verifier: a rejection the property demands is not re-derived by the model
		// (that would run the sigma verifier a second time)
		return
	}
	if d != nil {
		t1 := time.Now()
		mv := h.modelVerdict(c, comp, cs, which, d)
		tModel += time.Since(t1)
		if mv != got && mv != "DEAD" {
			h.corr(key, ct, fmt.Sprintf("model verdict %s, implementation %s, property expects %s (%s)", mv, got, expect, decClass), propfail,
				"Compilers."+short(comp)+"_accept vs compiled verifier (fs_accept_iff / fischlin_accept)")
			return
		}
	} else if got == "1" {
		h.corr(key, ct, "implementation accepts a proof the harness cannot decode", propfail, "proof decoding")
		return
	}
	if propfail {
		h.prop(key, ct, fmt.Sprintf("verifier returned %s, property expects %s (%s, %s)", got, expect, class, decClass), "C08 "+class)
	}
}

type scenario struct {
	name  string
	cs    ctxSpec
	which int
	want  string
}

func scenarios(r *vh.Rng, cs ctxSpec) []scenario {
	other := cs
	other.seed = r.Bytes(64)
	near := cs
	near.seed = append([]byte{}, cs.seed...)
	near.seed[63] ^= 1
	extra := cs
	extra.pre = append(append([]appendOp{}, cs.pre...), appendOp{label: []byte("extra"), msgs: [][]byte{r.Bytes(1 + r.Intn(8))}})
	extraEmpty := cs
	extraEmpty.pre = append(append([]appendOp{}, cs.pre...), appendOp{label: nil, msgs: nil})
	var fewer ctxSpec
	hasFewer := len(cs.pre) > 0
	if hasFewer {
		fewer = cs
		fewer.pre = cs.pre[:len(cs.pre)-1]
	}
	prover := cs
	prover.prover = cs.prover + 1
	prover2 := cs
	prover2.prover = cs.prover << 8
	sidOnly := cs
	sidOnly.sidOnly = r.Bytes(32)
	sidOnly2 := cs
	sidOnly2.sidOnly = cs.sid()
	sidOnly2.sidOnly[31] ^= 0x80
	sc := []scenario{
		{"same-context", cs, 0, "1"},
		{"other-session", other, 0, "0"},
		{"other-session-1bit", near, 0, "0"},
		{"transcript-extra-append", extra, 0, "0"},
		{"transcript-extra-empty-append", extraEmpty, 0, "0"},
		{"other-prover", prover, 0, "0"},
		{"other-prover-shifted", prover2, 0, "0"},
		{"other-statement", cs, 1, "0"},
		{"other-sid-same-transcript", sidOnly, 0, "0"},
		{"other-sid-1bit-same-transcript", sidOnly2, 0, "0"},
	}
	if hasFewer {
		sc = append(sc, scenario{"transcript-missing-append", fewer, 0, "0"})
	}
	return sc
}

func genCtx(r *vh.Rng) ctxSpec {
	cs := ctxSpec{seed: r.Bytes(64), prover: uint64(1 + r.Intn(5))}
	for i := r.Intn(3); i > 0; i-- {
		a := appendOp{label: []byte(vh.Pick(r, []string{"round1", "commitments", "", "x"}))}
		for j := r.Intn(3); j > 0; j-- {
			a.msgs = append(a.msgs, r.Bytes(r.Intn(20)))
		}
		cs.pre = append(cs.pre, a)
	}
	if r.Chance(1, 4) {
		cs.prover = r.Uint64()
	}
	return cs
}

// flipPositions: which bytes of the proof are flipped
func flipPositions(r *vh.Rng, n int, all bool, budget int) []int {
	if all || n <= budget {
		p := make([]int, n)
		for i := range p {
			p[i] = i
		}
		return p
	}
	// the first and last 16 bytes, then a random sample
	seen := map[int]bool{}
	var p []int
	add := func(i int) {
		if i >= 0 && i < n && !seen[i] {
			seen[i] = true
			p = append(p, i)
		}
	}
	for i := 0; i < 16; i++ {
		add(i)
		add(n - 1 - i)
	}
	for len(p) < budget {
		add(r.Intn(n))
	}
	return p
}

func (h *harness) niCase(c *niCase, comp compiler.Name, variant int, r *vh.Rng, flipAll bool, flipBudget int) {
	// partial results are flushed after every case: a panic inside a library goroutine cannot
	// be recovered and would otherwise lose the mismatches found so far
	defer h.flush()
	cs := genCtx(r)
	ctx, err := cs.build()
	if err != nil {
		panic(err)
	}
	c.rec.reset()
	var proof []byte
	var perr error
	tp := time.Now()
	p := vh.Safely(func() { proof, perr = c.prove(comp, ctx) })
	tProve += time.Since(tp)
	if p != "" || perr != nil {
		h.prop("prove/"+short(comp)+"/"+c.id, caseText(c, comp, variant, cs, 0, nil), fmt.Sprintf("honest prover failed: %v %s", perr, p), "completeness")
		return
	}
	orig := c.decode(comp, proof)
	if orig == nil {
		h.corr("decode/"+short(comp)+"/"+c.id, caseText(c, comp, variant, cs, 0, proof), "harness cannot decode an honest proof", false, "proof decoding")
		return
	}
	for _, s := range scenarios(r, cs) {
		h.checkOne(s.name, c, comp, variant, s.cs, s.which, proof, orig, s.want)
	}
	// every (selected) byte of the proof changed
	masks := []byte{0x01, 0x80, 0xff, 0x20}
	if c.light {
		flipAll, flipBudget = false, 3
	}
	for _, pos := range flipPositions(r, len(proof), flipAll, flipBudget) {
		if c.light && pos < 16 && flipBudget < 16 {
			// flipPositions always adds the first/last 16 bytes; a light case keeps 3 of them
			if pos%8 != 3 {
				continue
			}
		}
		m := masks[r.Intn(len(masks))]
		if r.Chance(1, 4) {
			m = byte(1 + r.Intn(255))
		}
		p2 := append([]byte{}, proof...)
		p2[pos] ^= m
		d2 := c.decode(comp, p2)
		want := d2.expectation(orig)
		h.checkOne("byte-flip", c, comp, variant, cs, 0, p2, orig, want)
	}
	// structure: truncation, extension, emptiness
	structural := map[string][]byte{
		"drop-last-byte":  proof[:len(proof)-1],
		"drop-first-byte": proof[1:],
		"append-zero":     append(append([]byte{}, proof...), 0),
		"append-self":     append(append([]byte{}, proof...), proof...),
		"empty":           {},
		"half":            proof[:len(proof)/2],
	}
	for k, v := range c.restructure(comp, orig) {
		structural[k] = v
	}
	if c.light {
		for _, k := range []string{"append-self", "half", "drop-first-byte", "e-extended", "e-empty", "extra-field", "array-instead-of-map", "reencoded"} {
			delete(structural, k)
		}
	}
	for _, k := range sortedKeys(structural) {
		p2 := structural[k]
		d2 := c.decode(comp, p2)
		want := d2.expectation(orig)
		h.checkOne("structure-"+k, c, comp, variant, cs, 0, p2, orig, want)
	}
	// every decoded component altered alone: the leaves of the proof's CBOR tree (every
	// element of every repeated array individually; first/middle/last two when there are many)
	if leaves, err := cborLeaves(proof); err == nil {
		budget := 48
		if h.thorough || h.a.Search {
			budget = 120
		}
		if c.light {
			budget = 3
			if h.thorough || h.a.Search {
				budget = 40
			}
		}
		if c.heavy {
			budget = 4
		}
		for _, l := range selectLeaves(leaves, budget) {
			p2 := l.alter(proof, 0x01)
			if p2 == nil {
				continue
			}
			d2 := c.decode(comp, p2)
			want := d2.expectation(orig)
			h.checkOne("component-altered", c, comp, variant, cs, 0, p2, orig, want)
		}
		// the number of components: in every array of the proof, at every nesting level, one
		// element appended / duplicated / dropped (re-encoded) — rejected, by an error
		if arrays, err := cborArrays(proof); err == nil {
			ab := 8
			if h.thorough || h.a.Search {
				ab = 24
			}
			if c.light {
				ab = 2
			}
			// largest arrays last is irrelevant; take them in tree order but prefer distinct depths
			for i, a := range arrays {
				if i >= ab {
					break
				}
				names, vs := a.countVariants(proof)
				grown := false
				for k, p2 := range vs {
					if names[k] == "drop-element" && grown {
						// a verifier that accepted an extra element does not check this count; with an
						// element missing it would index past the end inside a library goroutine
						// (unrecoverable): the accepted proof above is the failing input
						continue
					}
					d2 := c.decode(comp, p2)
					exp := d2.expectation(orig)
					h.checkOne("array-"+names[k], c, comp, variant, cs, 0, p2, orig, exp)
					if lastGot == "1" && exp == "0" {
						grown = true
					}
				}
			}
		}
		// length variation of every byte-string component: extended by 1/16/32 bytes (suffix,
		// zero prefix), truncated by one — rejected unless the decoded value is the same proof
		lb := 12
		if comp != fiatshamir.Name {
			lb = 6
		}
		if h.thorough || h.a.Search {
			lb *= 2
		} else if !(variant == 0 && strings.HasSuffix(c.id, "/k256")) {
			lb = 3 // quick tier: the full set on k256 variant 0, a few components elsewhere
		}
		if c.light {
			lb = 2
		}
		var strs []cborLeaf
		for _, l := range leaves {
			if l.kind == 'b' {
				strs = append(strs, l)
			}
		}
		for _, l := range selectLeaves(strs, lb) {
			vs := l.lengthVariants(proof, func(n int) []byte { return r.Bytes(n) })
			for _, name := range sortedKeys(vs) {
				if c.light && name != "suffix32" && name != "zeroprefix1" && name != "truncate1" {
					continue
				}
				p2 := vs[name]
				d2 := c.decode(comp, p2)
				want := d2.expectation(orig)
				h.checkOne("length-"+name, c, comp, variant, cs, 0, p2, orig, want)
			}
		}
	} else {
		h.res.Note("proof of %s/%s is not walkable CBOR: %v", c.id, short(comp), err)
	}
	if comp == randfischlin.Name {
		h.leadingZeros(c, variant, cs, proof, orig)
	}
	if comp != fiatshamir.Name && (strings.HasPrefix(c.id, "schnorr/") || h.thorough) {
		h.targetMisses(c, comp, variant, cs, r)
	}
	// forged Fiat–Shamir proofs: a simulated transcript whose challenge was derived without
	// the commitment / without the statement / in no transcript at all must be rejected
	if comp == fiatshamir.Name && !c.light {
		h.forgeries(c, variant, cs, r)
	}
}

// leadingZeros: randomised Fischlin transmits each challenge as a byte string that the
// verifier hands to the sigma verifier unchanged; a sigma verifier that reads it as a
// big-endian integer (Maurer's) gives the same verdict for 0^k ‖ e_i, while the hash target
// is recomputed over the new bytes and still hit with probability 2^-8.  The harness
// searches (repetition, k) whose digest hits the target (own SHA3 over the model's framing,
// only to pick candidates) and submits the re-encoded proof: a proof with a changed decoded
// challenge must be rejected.
func (h *harness) leadingZeros(c *niCase, variant int, cs ctxSpec, proof []byte, orig *decoded) {
	if h.modelVerdict(c, randfischlin.Name, cs, 0, orig) != "1" || len(h.m.lastX) == 0 {
		return
	}
	x := h.m.lastX[0]
	n := 32
	crs := cshake(vh.UnHex(x[0]), vh.UnHex(x[1]), n)
	var aall []byte
	for _, a := range orig.a {
		aall = append(aall, a...)
	}
	maxK := 24
	if h.thorough || h.a.Search {
		maxK = 200
	}
	for k := 1; k <= maxK; k++ {
		for i := range orig.e {
			e2 := append(make([]byte, k), orig.e[i]...)
			var buf []byte
			for idx, part := range [][]byte{crs, aall, le64(uint64(i)), e2, orig.z[i]} {
				buf = append(buf, le64(uint64(idx))...)
				buf = append(buf, le64(uint64(len(part)))...)
				buf = append(buf, part...)
			}
			d := sha3.Sum256(buf)
			if d[0] != 0 {
				continue
			}
			p2 := c.withChallenge(randfischlin.Name, orig, i, e2)
			if p2 == nil {
				continue
			}
			h.checkOneKey("challenge-leading-zeros", "randfischlin-challenge-leading-zeros", c, randfischlin.Name, variant, cs, 0, p2, orig, "0")
			return
		}
	}
	h.res.Distribution["challenge-leading-zeros/no-candidate"]++
}

// targetMisses: a harness-side Fischlin prover (same search as the library's, hashes with
// crypto/sha3 over the model's key / CRS extraction) builds a proof that hits every hash
// target — it must be accepted — and, per repetition i, a proof in which exactly repetition
// i is a valid sigma transcript whose hash misses the target — each must be rejected.
func (h *harness) targetMisses(c *niCase, comp compiler.Name, variant int, cs ctxSpec, r *vh.Rng) {
	name, ops := cs.history()
	ctxf := fmt.Sprintf("%s %s %s %s", vh.Hex(name), strings.Join(ops, ";"), vh.Hex(cs.sid()), vh.Hex([]byte(c.pname)))
	var call string
	reps := 16
	b, t := 8, 13
	if comp == fischlin.Name {
		p := h.ask(fmt.Sprintf("FIP %d %d", c.rho, c.ss))
		if _, err := fmt.Sscanf(p, "%d,%d", &b, &t); err != nil {
			return
		}
		reps = int(c.rho)
		call = h.ask(fmt.Sprintf("FIK %s %s %d", ctxf, vh.Hex(c.stmt[0]), c.rho))
	} else {
		call = h.ask(fmt.Sprintf("RFK %s", ctxf))
	}
	f := strings.Split(call, ",")
	if len(f) != 3 {
		return
	}
	key := cshake(vh.UnHex(f[0]), vh.UnHex(f[1]), 32)
	sid := cs.sid()
	var commonH []byte
	var lastA []byte
	hit := func(aall []byte, i int, e, z []byte) bool {
		if comp == fischlin.Name {
			if commonH == nil || !bytes.Equal(lastA, aall) {
				d := sha3.Sum256(bytes.Join([][]byte{key, c.stmt[0], aall, sid}, nil))
				commonH, lastA = d[:], aall
			}
			d := sha3.Sum256(bytes.Join([][]byte{commonH, make([]byte, 8), le64(uint64(i)), e, z}, nil))
			nb := b/8 + 1
			d[nb-1] &= byte((1 << (b % 8)) - 1)
			for _, x := range d[:nb] {
				if x != 0 {
					return false
				}
			}
			return true
		}
		var buf []byte
		for idx, part := range [][]byte{key, aall, le64(uint64(i)), e, z} {
			buf = append(buf, le64(uint64(idx))...)
			buf = append(buf, le64(uint64(len(part)))...)
			buf = append(buf, part...)
		}
		d := sha3.Sum256(buf)
		return d[0] == 0
	}
	chal := func(j int) ([]byte, []byte) {
		if comp == fischlin.Name {
			full := make([]byte, c.L)
			full[c.L-1], full[c.L-2] = byte(j), byte(j>>8)
			el := (t + 7) / 8
			return full[c.L-el:], full
		}
		e := make([]byte, c.L)
		copy(e, r.Bytes(7))
		return e, e
	}
	var honest []byte
	var misses [][]byte
	if p := vh.Safely(func() { honest, misses = c.grind(comp, reps, hit, chal) }); p != "" || honest == nil {
		h.res.Distribution["target-miss/not-built"]++
		return
	}
	orig := c.decode(comp, honest)
	h.checkOne("harness-made-proof", c, comp, variant, cs, 0, honest, orig, "1")
	for i, m := range misses {
		if m != nil {
			h.checkOneKey("hash-target-missed", fmt.Sprintf("hash-target-missed-rep%d/%s/%s", i, short(comp), c.id), c, comp, variant, cs, 0, m, orig, "0")
		}
	}
}

func sortedKeys(m map[string][]byte) []string {
	var ks []string
	for k := range m {
		ks = append(ks, k)
	}
	for i := range ks {
		for j := i + 1; j < len(ks); j++ {
			if ks[j] < ks[i] {
				ks[i], ks[j] = ks[j], ks[i]
			}
		}
	}
	return ks
}

// labels of fiatshamir / zkmodule (only used to build forgeries)
const (
	fsTranscriptLabel = "BRON_CRYPTO_NIZKP_FIATSHAMIR-"
	zkStatementLabel  = "BRON_CRYPTO_CGGMP21_ZKMODULE_ZK_STATEMENT-"
	zkCommitmentLabel = "BRON_CRYPTO_CGGMP21_ZKMODULE_ZK_COMMITMENT-"
	zkChallengeLabel  = "BRON_CRYPTO_CGGMP21_ZKMODULE_ZK_CHALLENGE-"
)

func (h *harness) forgeries(c *niCase, variant int, cs ctxSpec, r *vh.Rng) {
	stmtForDerive := c.stmt[0]
	derive := func(withStmt bool, commitment []byte) []byte {
		ctx, err := cs.build()
		if err != nil {
			return nil
		}
		t := ctx.Transcript()
		t.AppendDomainSeparator(fmt.Sprintf("%x-%s-%s", cs.sid(), fsTranscriptLabel, c.pname))
		if withStmt {
			t.AppendBytes(zkStatementLabel, stmtForDerive)
		}
		if commitment != nil {
			t.AppendBytes(zkCommitmentLabel, commitment)
		}
		e, err := t.ExtractBytes(zkChallengeLabel, uint(c.L))
		if err != nil {
			return nil
		}
		return e
	}
	try := func(name string, e []byte) {
		if e == nil {
			return
		}
		var proof []byte
		var err error
		if p := vh.Safely(func() { proof, _, err = c.simulateFS(0, e) }); p != "" || err != nil {
			return
		}
		ct := caseText(c, fiatshamir.Name, variant, cs, 0, proof)
		got := implVerdict(c, fiatshamir.Name, cs, 0, proof)
		h.res.Count("forgery-"+name+"/fs", ct, true)
		if d := c.decode(fiatshamir.Name, proof); d != nil {
			if mv := h.modelVerdict(c, fiatshamir.Name, cs, 0, d); mv != got && mv != "DEAD" && got != "P" {
				h.corr("forgery-"+name+"/fs/"+c.id, ct, "model verdict "+mv+", implementation "+got, got == "1", "fs_accept_iff")
				return
			}
		}
		if got == "1" {
			h.prop("forgery-"+name+"/fs/"+c.id, ct, "a simulated transcript (no witness) whose challenge was derived "+name+" is accepted", "fs_accept_iff: the challenge must be derived from (context, statement, commitment)")
		}
	}
	if c.orForge != nil {
		if f := c.orForge(r); f != nil {
			report := func(kind, got, ct string) {
				h.res.Count("forgery-or-overlong-share/"+kind, ct, true)
				if got == "1" {
					h.prop("sigor-forged-without-witness", ct, "an OR proof built without any witness (every branch simulated, branch 0 with an over-long challenge share) is accepted ("+kind+")", "or_overlong_share_rejected / or_sound_split")
				} else if got == "P" {
					h.prop("sigor-verify-panic", ct, "OR verifier panicked on the forged proof ("+kind+")", "verifiers never crash")
				}
			}
			stmtForDerive = f.stmt
			proof, verdict := f.fs(func(stmt, a []byte) []byte { return derive(true, a) })
			stmtForDerive = c.stmt[0]
			if verdict != nil {
				report("fs", verdict(cs), fmt.Sprintf("orforge %s fs v%d stmt=%s %s proof=%s", c.id, variant, vh.Hex(f.stmt), cs.text(), vh.Hex(proof)))
			}
			report("interactive", f.interactive(cs, r), fmt.Sprintf("orforge %s interactive v%d stmt=%s %s", c.id, variant, vh.Hex(f.stmt), cs.text()))
			report("sigma-verify", f.direct(r), fmt.Sprintf("orforge %s direct v%d stmt=%s", c.id, variant, vh.Hex(f.stmt)))
		}
	}
	if c.adaptive != nil {
		proof, stmt, verdict := c.adaptive(r, func(a []byte) []byte { return derive(false, a) })
		if verdict != nil {
			ct := fmt.Sprintf("adaptive %s fs v%d stmt=%s %s proof=%s", c.id, variant, vh.Hex(stmt), cs.text(), vh.Hex(proof))
			h.res.Count("forgery-statement-chosen-after-challenge/fs", ct, true)
			if verdict(cs) == "1" {
				h.prop("forgery-statement-chosen-after-challenge/fs/"+c.id, ct, "a proof whose challenge was derived without the statement is accepted for a statement chosen afterwards", "fs_accept_iff / fs_wrong_statement: the statement must enter the challenge")
			}
		}
	}
	try("without-commitment", derive(true, nil))
	try("with-random-challenge", r.Bytes(c.L))
	// challenge derived for another commitment
	if _, a, err := c.simulateFS(0, r.Bytes(c.L)); err == nil {
		try("for-another-commitment", derive(true, a))
	}
}

func main() {
	a := vh.ParseArgs()
	h := &harness{a: a, res: vh.NewResult("C08", a.Seed, a.Tier), thorough: a.Tier == "thorough"}
	m, err := startModel(a.Driver)
	if err != nil {
		fmt.Fprintln(os.Stderr, "cannot start model driver:", err)
		os.Exit(2)
	}
	h.m = m
	defer m.close()
	h.res.Rule = "per group (k256, BLS12-381 G1; thorough: k256 x3, BLS x2, P-256 x1 variants) and boundary variant (witness random/1/q-1/0) one statement-witness pair of every protocol " +
		"(Schnorr, Okamoto, batch Schnorr k=3, ElGamal opening, dlog-with-ElGamal, AND of 2 Schnorr, OR of 3 Schnorr with one witness; Paillier n-th root with a cached modulus, ring-Pedersen prm with a tiny key; pailliern, paillier/lp, cggmp21 enc and encelg with pre-generated 2048-bit moduli; thorough also cggmp21 blummod/fac/affg/affgstar/dec, paillier/range and paillier/lpdl) x every compiler " +
		"(Fiat-Shamir, Fischlin, randomised Fischlin): prove in a random context (session seed, 0-2 caller appends, prover id), verify in the same and in 10 changed contexts, " +
		"flip bytes of the proof (every byte for Fiat-Shamir proofs; first/last 16 + a sample for the long Fischlin proofs in the quick tier), every decoded component (CBOR leaf) altered alone, length variations of byte-string components, structural changes, forged proofs incl. the no-witness OR forger with an over-long share; " +
		"sigma level: rewound provers with 5 challenges (random, 0, 1, 2^128-1), simulator, extractor. A case is non-trivial when the proof decodes."
	if a.Replay != "" {
		h.replay(a.Replay)
		h.res.Write(a.Out)
		return
	}
	variants := 2
	flipBudget := 32
	if h.thorough {
		variants = 3
		flipBudget = 100
	}
	if a.Search {
		variants = 4
		flipBudget = 200
	}
	for v := 0; v < variants && os.Getenv("C08_P2048") == ""; v++ {
		h.group("k256", v, flipBudget)
		if !h.thorough || v < 2 {
			h.group("bls12381g1", v, flipBudget)
		}
		if (h.thorough && v == 0) || a.Search {
			h.group("p256", v, flipBudget)
		}
	}
	h.paillier(flipBudget)
	if os.Getenv("C08_TIMING") != "" {
		fmt.Fprintf(os.Stderr, "impl verify %.1fs, model (incl. sigma verdicts %.1fs) %.1fs, prove %.1fs\n", tImpl.Seconds(), tSigma.Seconds(), tModel.Seconds(), tProve.Seconds())
	}
	h.res.Note("model driver: %d case lines, %d oracle queries answered with crypto/sha3", h.m.lines, h.m.queries)
	h.res.Write(a.Out)
}

func (h *harness) group(gname string, variant int, flipBudget int) {
	r := vh.NewRng(h.a.Seed, "C08", "group/"+gname, variant)
	var cases []*niCase
	var lins []*linCase
	switch gname {
	case "k256":
		cases, lins = groupCases(gname, k256.NewCurve(), r, variant)
	case "bls12381g1":
		cases, lins = groupCases(gname, bls12381.NewG1(), r, variant)
	case "p256":
		cases, lins = groupCases(gname, p256.NewCurve(), r, variant)
	}
	for _, l := range lins {
		l.run(h, r)
	}
	for _, c := range cases {
		if only := os.Getenv("C08_ONLY"); only != "" && !strings.HasPrefix(c.id, only) {
			continue
		}
		for _, comp := range c.compilers {
			if !h.selected(c.id, comp, gname, variant) {
				continue
			}
			flipAll := (comp == fiatshamir.Name && (h.thorough || (gname == "k256" && variant == 0))) ||
				(h.thorough && variant == 0 && gname == "k256" && strings.HasPrefix(c.id, "schnorr/"))
			t0 := time.Now()
			h.niCase(c, comp, variant, r, flipAll, flipBudget)
			if os.Getenv("C08_TIMING") != "" {
				fmt.Fprintf(os.Stderr, "%s %s v%d %.2fs\n", c.id, short(comp), variant, time.Since(t0).Seconds())
			}
		}
		h.interactive(c, variant, r)
	}
}

// selected: the quick tier runs every protocol under Fiat-Shamir on both groups and the two
// (expensive to prove) Fischlin compilers on a fixed subset; thorough and search run everything.
func (h *harness) selected(id string, comp compiler.Name, gname string, variant int) bool {
	if h.thorough || h.a.Search || comp == fiatshamir.Name {
		return true
	}
	if variant != 0 {
		return false
	}
	switch id + "/" + short(comp) {
	case "schnorr/k256/fischlin", "schnorr/k256/randfischlin", "schnorr/bls12381g1/fischlin",
		"batchschnorr/k256/fischlin", "okamoto/k256/randfischlin", "or3schnorr/k256/randfischlin",
		"and2schnorr/k256/fischlin", "schnorr/bls12381g1/randfischlin":
		return true
	}
	return false
}

func (h *harness) interactive(c *niCase, variant int, r *vh.Rng) {
	if c.runInteractive == nil {
		return
	}
	for _, kind := range []string{"sigma", "zk"} {
		cs := genCtx(r)
		ct := fmt.Sprintf("interactive %s %s v%d %s", c.id, kind, variant, cs.text())
		h.res.Count("interactive-"+kind, ct, true)
		if msg := c.runInteractive(kind, cs, r); msg != "" {
			h.prop("interactive-"+kind+"/"+c.id, ct, msg, "interactive compiler completeness / rejection")
		}
	}
}

// replay re-runs the case: line of a replay file
func (h *harness) replay(path string) {
	b, err := os.ReadFile(path)
	if err != nil {
		h.res.Note("cannot read replay file: %v", err)
		return
	}
	key := "replay"
	for _, line := range strings.Split(string(b), "\n") {
		if k, ok := strings.CutPrefix(line, "key: "); ok {
			key = strings.TrimSpace(k)
		}
		if !strings.HasPrefix(line, "case: ") {
			continue
		}
		f := strings.Fields(strings.TrimPrefix(line, "case: "))
		if len(f) < 2 {
			continue
		}
		switch f[0] {
		case "ni":
			// ni <id> <comp> v<variant> which=<w> seed=.. pre=.. prover=.. sidonly=.. proof=..
			id, comp := f[1], compByShort(f[2])
			var variant, which int
			fmt.Sscanf(f[3], "v%d", &variant)
			fmt.Sscanf(f[4], "which=%d", &which)
			cs := parseCtx(f[5:9])
			proof := vh.UnHex(strings.TrimPrefix(f[9], "proof="))
			gname := id[strings.Index(id, "/")+1:]
			c := h.findCase(id, gname, variant)
			if c == nil {
				h.res.Note("replay: unknown case %s", id)
				return
			}
			// the expectation: same context and statement and unchanged values => accept
			ctx, _ := cs.build()
			_ = ctx
			iv := implVerdict(c, comp, cs, which, proof)
			h.res.Note("replay verdict implementation=%s", iv)
			h.res.Count("replay", strings.Join(f, " "), true)
			if d := c.decode(comp, proof); d != nil {
				mv := h.modelVerdict(c, comp, cs, which, d)
				h.res.Note("replay verdict model=%s", mv)
				if mv != iv {
					h.res.Mismatch(vh.Mismatch{ID: "replay", Kind: "corr", Key: key, Detail: "model verdict " + mv + ", implementation " + iv, Case: strings.Join(f, " "), PropFail: iv == "1" && mv == "0", What: "compiled verifier vs model on the replayed case"})
				}
			} else if iv == "1" {
				h.res.Mismatch(vh.Mismatch{ID: "replay", Kind: "prop", Key: key, Detail: "undecodable proof accepted", Case: strings.Join(f, " "), PropFail: true, What: "proof decoding"})
			}
		default:
			h.res.Note("replay of %q cases: re-run the check with the same seed", f[0])
		}
	}
}

func (h *harness) findCase(id, gname string, variant int) *niCase {
	r := vh.NewRng(h.a.Seed, "C08", "group/"+gname, variant)
	var cases []*niCase
	switch gname {
	case "k256":
		cases, _ = groupCases(gname, k256.NewCurve(), r, variant)
	case "bls12381g1":
		cases, _ = groupCases(gname, bls12381.NewG1(), r, variant)
	case "p256":
		cases, _ = groupCases(gname, p256.NewCurve(), r, variant)
	}
	for _, c := range cases {
		if c.id == id {
			return c
		}
	}
	return nil
}

var _ = bytes.Equal
