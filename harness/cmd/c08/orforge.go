package main

// The OR forger: a prover that knows NO witness of any branch simulates every branch — branch
// 0 for a challenge value t (mod q) fixed in advance — and, once the real challenge c is known,
// sets E[0] = (c xor E[1] xor ...) || suffix, a 48-byte share whose first L bytes satisfy the
// XOR relation and whose big-endian integer value is t modulo the group order (the Maurer
// branch verifiers read a challenge of any length as an integer).  The OR verifier must
// reject it because the share does not have exactly L bytes (Sigma.or_overlong_share_rejected).
// The suffix is computed with math/big, independently of the library.

import (
	"math/big"

	"github.com/bronlabs/bron-crypto/pkg/base/serde"
	"github.com/bronlabs/bron-crypto/pkg/proofs/sigma"
	"github.com/bronlabs/bron-crypto/pkg/proofs/sigma/compiler"
	"github.com/bronlabs/bron-crypto/pkg/proofs/sigma/compiler/fiatshamir"
	"github.com/bronlabs/bron-crypto/pkg/proofs/sigma/compose/sigor"

	"verif/harness/internal/vh"
)

type orForgery struct {
	stmt []byte // statement bytes (no branch has a known witness)
	// Fiat–Shamir: proof for the challenge derived by deriveFS, and the compiled verifier's verdict
	fs func(deriveFS func(stmt, commitment []byte) []byte) (proof []byte, verdict func(cs ctxSpec) string)
	// interactive sigma rounds: the verifier's verdict ("1" accepted)
	interactive func(cs ctxSpec, r *vh.Rng) string
	// plain Protocol.Verify with a random challenge
	direct func(r *vh.Rng) string
}

func mkOrForge[X sigma.Statement, W sigma.Witness, A sigma.Statement, S sigma.State, Z sigma.Response](
	base sigma.Protocol[X, W, A, S, Z], or *sigor.Protocol[X, W, A, S, Z], rec *recReader, n int, q *big.Int, randStmt func() X,
) func(r *vh.Rng) *orForgery {
	return func(r *vh.Rng) *orForgery {
		L := or.GetChallengeBytesLength()
		xs := make([]X, n)
		for i := range xs {
			xs[i] = randStmt()
		}
		x := must(sigor.ComposeStatements(xs...))
		t := r.BigBelow(q)
		as := make(sigor.Commitment[A], n)
		zs := make([]Z, n)
		es := make([][]byte, n)
		var err error
		if as[0], zs[0], err = base.RunSimulator(xs[0], t.FillBytes(make([]byte, 32))); err != nil {
			return nil
		}
		for i := 1; i < n; i++ {
			es[i] = r.Bytes(L)
			if as[i], zs[i], err = base.RunSimulator(xs[i], es[i]); err != nil {
				return nil
			}
		}
		finish := func(c []byte) *sigor.Response[Z] {
			p := append([]byte{}, c...)
			for i := 1; i < n; i++ {
				for j := range p {
					p[j] ^= es[i][j]
				}
			}
			// P*2^256 + S = t (mod q), 0 <= S < q < 2^256
			s := new(big.Int).Lsh(new(big.Int).SetBytes(p), 256)
			s.Sub(t, s).Mod(s, q)
			e := append([][]byte{}, es...)
			e[0] = append(p, s.FillBytes(make([]byte, 32))...)
			return &sigor.Response[Z]{E: e, Z: zs}
		}
		f := &orForgery{stmt: x.Bytes()}
		f.fs = func(deriveFS func(stmt, commitment []byte) []byte) ([]byte, func(cs ctxSpec) string) {
			c := deriveFS(x.Bytes(), as.Bytes())
			if c == nil {
				return nil, nil
			}
			proof, err := serde.MarshalCBOR(&fsWire[sigor.Commitment[A], *sigor.Response[Z]]{A: as, E: c, Z: finish(c)})
			if err != nil {
				return nil, nil
			}
			return proof, func(cs ctxSpec) string {
				ctx, err := cs.build()
				if err != nil {
					return "S"
				}
				var verr error
				if p := vh.Safely(func() {
					ni := must(compiler.Compile(fiatshamir.Name, or, rec))
					v := must(ni.NewVerifier(ctx))
					verr = v.Verify(x, proof)
				}); p != "" {
					return "P"
				}
				return b2i(verr == nil)
			}
		}
		f.interactive = func(cs ctxSpec, r *vh.Rng) string {
			ctx, err := cs.build()
			if err != nil {
				return "S"
			}
			out := "0"
			if p := vh.Safely(func() {
				v := must(sigma.NewVerifier(ctx, or, x, r))
				c := must(v.Round2(as))
				if v.Verify(finish(c)) == nil {
					out = "1"
				}
			}); p != "" {
				return "P"
			}
			return out
		}
		f.direct = func(r *vh.Rng) string {
			c := r.Bytes(L)
			var verr error
			if p := vh.Safely(func() { verr = or.Verify(x, as, c, finish(c)) }); p != "" {
				return "P"
			}
			return b2i(verr == nil)
		}
		return f
	}
}
