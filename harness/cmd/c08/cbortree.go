package main

// A minimal walker over definite-length CBOR (what serde.MarshalCBOR emits) that lists the
// leaves of a proof — every byte string, text string and integer, with its structural path
// (map keys by position, array elements by index) — so that every decoded component of a
// proof can be altered alone: every element of every repeated-response array individually.

import (
	"fmt"
	"sort"
	"strings"
)

type cborLeaf struct {
	path    string // e.g. "m2/a3/m0" (m<k>: value of the k-th map pair, a<i>: array element i, t: tag content)
	shape   string // path with array indices replaced by * (groups the elements of one array)
	idx     []int  // array indices along the path
	kind    byte   // 'b' byte string, 's' text string, 'i' integer (head argument), 'k' map key
	start   int    // content bytes [start,end) (for 'i': the head byte(s) holding the value)
	end     int
	headPos int
}

// cborArray is one array of the tree: its head, its element spans.
type cborArray struct {
	path    string
	headPos int
	first   int      // offset of the first element
	end     int      // offset after the last element
	elems   [][2]int // [start,end) of every element
}

type cborWalker struct {
	b      []byte
	leaves []cborLeaf
	arrays []cborArray
	err    error
}

func (w *cborWalker) head(pos int) (major byte, arg uint64, next int, ok bool) {
	if pos >= len(w.b) {
		return 0, 0, 0, false
	}
	ib := w.b[pos]
	major, info := ib>>5, ib&0x1f
	switch {
	case info < 24:
		return major, uint64(info), pos + 1, true
	case info >= 24 && info <= 27:
		n := 1 << (info - 24)
		if pos+1+n > len(w.b) {
			return 0, 0, 0, false
		}
		var v uint64
		for i := 0; i < n; i++ {
			v = v<<8 | uint64(w.b[pos+1+i])
		}
		return major, v, pos + 1 + n, true
	default:
		return 0, 0, 0, false // indefinite lengths are not produced (and forbidden by the decoder)
	}
}

func (w *cborWalker) item(pos int, path string, idx []int, asKey bool) int {
	major, arg, next, ok := w.head(pos)
	if !ok {
		w.err = fmt.Errorf("malformed CBOR at %d", pos)
		return -1
	}
	shape := func() string {
		parts := strings.Split(path, "/")
		for i, p := range parts {
			if strings.HasPrefix(p, "a") {
				parts[i] = "a*"
			}
			if strings.HasPrefix(p, "n") {
				parts[i] = "n*"
			}
		}
		return strings.Join(parts, "/")
	}
	add := func(kind byte, s, e int) {
		if asKey {
			kind = 'k'
		}
		w.leaves = append(w.leaves, cborLeaf{path: path, shape: shape(), idx: append([]int{}, idx...), kind: kind, start: s, end: e, headPos: pos})
	}
	switch major {
	case 0, 1:
		add('i', pos, next)
		return next
	case 2, 3:
		if next+int(arg) > len(w.b) || int(arg) < 0 {
			w.err = fmt.Errorf("string overruns at %d", pos)
			return -1
		}
		k := byte('b')
		if major == 3 {
			k = 's'
		}
		add(k, next, next+int(arg))
		return next + int(arg)
	case 4:
		p := next
		ai := len(w.arrays)
		w.arrays = append(w.arrays, cborArray{path: path, headPos: pos, first: next})
		var spans [][2]int
		for i := 0; i < int(arg); i++ {
			q := w.item(p, fmt.Sprintf("%s/a%d", path, i), append(idx, i), false)
			if q < 0 {
				return -1
			}
			spans = append(spans, [2]int{p, q})
			p = q
		}
		w.arrays[ai].elems = spans
		w.arrays[ai].end = p
		return p
	case 5:
		p := next
		for i := 0; i < int(arg); i++ {
			// a map with integer keys is a repeated structure (elements "n<i>", grouped like an array)
			tag := "m"
			if p < len(w.b) && w.b[p]>>5 <= 1 {
				tag = "n"
			}
			p = w.item(p, fmt.Sprintf("%s/k%d", path, i), idx, true)
			if p < 0 {
				return -1
			}
			p = w.item(p, fmt.Sprintf("%s/%s%d", path, tag, i), idx, false)
			if p < 0 {
				return -1
			}
		}
		return p
	case 6:
		return w.item(next, path+"/t", idx, false)
	default: // simple values / floats: not altered
		switch w.b[pos] & 0x1f {
		case 24:
			return pos + 2
		case 25:
			return pos + 3
		case 26:
			return pos + 5
		case 27:
			return pos + 9
		}
		return pos + 1
	}
}

func cborLeaves(b []byte) ([]cborLeaf, error) {
	w := &cborWalker{b: b}
	end := w.item(0, "", nil, false)
	if w.err != nil || end != len(b) {
		if w.err == nil {
			w.err = fmt.Errorf("trailing bytes")
		}
		return nil, w.err
	}
	return w.leaves, nil
}

// alter returns a copy of b with exactly this leaf changed: a byte/text string gets its last
// content byte XORed with mask (empty strings are left alone), an integer in the head gets its
// lowest value bit flipped.
func (l cborLeaf) alter(b []byte, mask byte) []byte {
	out := append([]byte{}, b...)
	switch l.kind {
	case 'b', 's', 'k':
		if l.end > l.start {
			out[l.end-1] ^= mask
		} else {
			return nil
		}
	case 'i':
		out[l.end-1] ^= 1
	}
	return out
}

// selectLeaves: all value leaves when they are few, otherwise for every group of array
// elements (same shape) the first, a middle and the last element of each array dimension,
// plus everything that is not inside an array.
func selectLeaves(ls []cborLeaf, budget int) []cborLeaf {
	var vals []cborLeaf
	for _, l := range ls {
		if l.kind != 'k' {
			vals = append(vals, l)
		}
	}
	if len(vals) <= budget {
		return vals
	}
	// per shape: the set of index tuples present
	byShape := map[string][]cborLeaf{}
	var shapes []string
	for _, l := range vals {
		if _, ok := byShape[l.shape]; !ok {
			shapes = append(shapes, l.shape)
		}
		byShape[l.shape] = append(byShape[l.shape], l)
	}
	sort.Strings(shapes)
	var out []cborLeaf
	for _, s := range shapes {
		g := byShape[s]
		if len(g) <= 3 {
			out = append(out, g...)
			continue
		}
		out = append(out, g[0], g[len(g)/2], g[len(g)-2], g[len(g)-1])
	}
	if len(out) > budget && budget > 0 {
		// still too many (light cases): keep the groups with the most elements (the repeated
		// response arrays), first / middle / last of each
		sort.SliceStable(shapes, func(i, j int) bool { return len(byShape[shapes[i]]) > len(byShape[shapes[j]]) })
		out = out[:0]
		// round robin over the shapes so that every kind of component is hit: the last element
		// of every group first (the one a verifier loop that forgets to accumulate still
		// checks is the last; all others are the ones it would miss), then the first, then a
		// middle one
		for pass := 0; pass < 3; pass++ {
			for _, s := range shapes {
				g := byShape[s]
				var l cborLeaf
				switch pass {
				case 0:
					l = g[0]
				case 1:
					if len(g) < 2 {
						continue
					}
					l = g[len(g)-1]
				default:
					if len(g) < 3 {
						continue
					}
					l = g[len(g)/2]
				}
				if len(out) < budget {
					out = append(out, l)
				}
			}
		}
	}
	return out
}

// cborHead encodes a CBOR head (major type, argument) in its shortest form.
func cborHead(major byte, arg uint64) []byte {
	m := major << 5
	switch {
	case arg < 24:
		return []byte{m | byte(arg)}
	case arg < 1<<8:
		return []byte{m | 24, byte(arg)}
	case arg < 1<<16:
		return []byte{m | 25, byte(arg >> 8), byte(arg)}
	case arg < 1<<32:
		return []byte{m | 26, byte(arg >> 24), byte(arg >> 16), byte(arg >> 8), byte(arg)}
	default:
		out := []byte{m | 27}
		for s := 56; s >= 0; s -= 8 {
			out = append(out, byte(arg>>uint(s)))
		}
		return out
	}
}

// withContent returns a copy of b in which this byte-string / text-string leaf has the given
// content (the head is re-encoded for the new length); nil for other kinds of leaves.
func (l cborLeaf) withContent(b []byte, content []byte) []byte {
	if l.kind != 'b' && l.kind != 's' {
		return nil
	}
	out := append([]byte{}, b[:l.headPos]...)
	out = append(out, cborHead(b[l.headPos]>>5, uint64(len(content)))...)
	out = append(out, content...)
	return append(out, b[l.end:]...)
}

// lengthVariants: the leaf extended by 1, 16, 32 bytes as a suffix and as a zero prefix, and
// truncated by one byte.
func (l cborLeaf) lengthVariants(b []byte, fill func(n int) []byte) map[string][]byte {
	if l.kind != 'b' && l.kind != 's' {
		return nil
	}
	c := b[l.start:l.end]
	out := map[string][]byte{}
	for _, k := range []int{1, 16, 32} {
		out[fmt.Sprintf("suffix%d", k)] = l.withContent(b, append(append([]byte{}, c...), fill(k)...))
		out[fmt.Sprintf("zeroprefix%d", k)] = l.withContent(b, append(make([]byte, k), c...))
	}
	if len(c) > 0 {
		out["truncate1"] = l.withContent(b, c[:len(c)-1])
	}
	return out
}

func cborArrays(b []byte) ([]cborArray, error) {
	w := &cborWalker{b: b}
	end := w.item(0, "", nil, false)
	if w.err != nil || end != len(b) {
		if w.err == nil {
			w.err = fmt.Errorf("trailing bytes")
		}
		return nil, w.err
	}
	return w.arrays, nil
}

// rebuild returns b with this array replaced by one holding the given elements (byte spans of b).
func (a cborArray) rebuild(b []byte, elems [][2]int) []byte {
	out := append([]byte{}, b[:a.headPos]...)
	out = append(out, cborHead(4, uint64(len(elems)))...)
	for _, e := range elems {
		out = append(out, b[e[0]:e[1]]...)
	}
	return append(out, b[a.end:]...)
}

// countVariants: one element appended (a copy of the last), an element duplicated in place
// (the first), the last element dropped.  Ordered: the growing variants first.
func (a cborArray) countVariants(b []byte) (names []string, out [][]byte) {
	n := len(a.elems)
	if n == 0 {
		return nil, nil
	}
	names = append(names, "append-element")
	out = append(out, a.rebuild(b, append(append([][2]int{}, a.elems...), a.elems[n-1])))
	names = append(names, "duplicate-element")
	out = append(out, a.rebuild(b, append([][2]int{a.elems[0], a.elems[0]}, a.elems[1:]...)))
	names = append(names, "drop-element")
	out = append(out, a.rebuild(b, a.elems[:n-1]))
	return names, out
}
