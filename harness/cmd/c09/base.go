package main

// base OTs (vsot, ecbbot) and the random-VOLE multiplication (rvole/bbot, rvole/softspoken)

import (
	"bytes"
	"crypto/sha256"
	"encoding/binary"
	"encoding/hex"
	"fmt"
	"math/big"
	"slices"
	"strconv"
	"strings"

	"github.com/bronlabs/bron-crypto/pkg/base/algebra"
	"github.com/bronlabs/bron-crypto/pkg/base/curves"
	"github.com/bronlabs/bron-crypto/pkg/base/curves/k256"
	"github.com/bronlabs/bron-crypto/pkg/base/curves/p256"
	rvole_bbot "github.com/bronlabs/bron-crypto/pkg/mpc/rvole/bbot"
	rvole_softspoken "github.com/bronlabs/bron-crypto/pkg/mpc/rvole/softspoken"
	"github.com/bronlabs/bron-crypto/pkg/mpc/session"
	"github.com/bronlabs/bron-crypto/pkg/ot/base/ecbbot"
	"github.com/bronlabs/bron-crypto/pkg/ot/base/vsot"
	"github.com/bronlabs/bron-crypto/pkg/transcripts"

	"verif/harness/internal/vh"
)

// ---- vsot ---------------------------------------------------------------------------------------

type vsotObs struct {
	sout       *vsot.SenderOutput
	rout       *vsot.ReceiverOutput
	err        string
	slog, rlog []hrec
	lines      []string
	check      func(outs []string) []string // exponent tie: failure descriptions
	note       string
}

func vsotRun[P curves.Point[P, B, S], B algebra.FieldElement[B], S algebra.PrimeFieldElement[S]](
	d desc, curve curves.Curve[P, B, S], xi, L int, x []byte) vsotObs {
	var o vsotObs
	r := rngFor(d, "vsot-ctx")
	ctxs, _ := mkCtxs(r)
	ssuite, err := vsot.NewSuite(xi, L, curve, recSha256(&o.slog))
	if err != nil {
		o.err = "suite"
		return o
	}
	rsuite, _ := vsot.NewSuite(xi, L, curve, recSha256(&o.rlog))
	sr := &recReader{r: rngFor(d, "vsot-sender-prng")}
	rr := &recReader{r: rngFor(d, "vsot-receiver-prng")}
	var r1 *vsot.Round1P2P[P, B, S]
	var r2 *vsot.Round2P2P[P, B, S]
	if p := vh.Safely(func() {
		snd, err := vsot.NewSender(ctxs[1], ssuite, sr)
		if err != nil {
			o.err = "new-sender"
			return
		}
		rcv, err := vsot.NewReceiver(ctxs[2], rsuite, rr)
		if err != nil {
			o.err = "new-receiver"
			return
		}
		if r1, err = snd.Round1(); err != nil {
			o.err = "round1"
			return
		}
		if r2, o.rout, err = rcv.Round2(r1, append([]byte{}, x...)); err != nil {
			o.err = "round2"
			return
		}
		r3, so, err := snd.Round3(r2)
		if err != nil {
			o.err = "round3"
			return
		}
		o.sout = so
		r4, err := rcv.Round4(r3)
		if err != nil {
			o.err = "round4"
			return
		}
		r5, err := snd.Round5(r4)
		if err != nil {
			o.err = "round5"
			return
		}
		if err = rcv.Round6(r5); err != nil {
			o.err = "round6"
		}
	}); p != "" {
		o.err = "panic:" + p
	}
	if o.err != "" {
		return o
	}
	// ---- exponent tie: recover b and the a_idx from the recorded tapes through the public sampler
	field, ok := curve.ScalarStructure().(algebra.PrimeField[S])
	if !ok || len(sr.reads) == 0 {
		o.note = "scalar field not accessible"
		return o
	}
	b, err := field.Random(bytes.NewReader(sr.reads[0]))
	if err != nil || !curve.ScalarBaseMul(b).Equal(r1.BigB) {
		o.note = "vsot sender scalar not derivable from its tape"
		return o
	}
	q := field.Order().Big()
	zs := func(s S) string { return vh.ZHex(new(big.Int).SetBytes(s.Bytes())) }
	plen := len(r1.BigB.ToCompressed())
	n := xi * L
	pick := map[int]bool{0: true, n - 1: true}
	pr := rngFor(d, "vsot-pick")
	for len(pick) < min(n, 6) {
		pick[pr.Intn(n)] = true
	}
	type inst struct {
		idx, i, j int
		w         byte
	}
	var insts []inst
	pos := 0
	for idx := 0; idx < n; idx++ {
		i, j := idx/L, idx%L
		w := getBit(x, i)
		if !pick[idx] {
			pos++ // one sample per instance in tape order; validated below for the picked ones
			continue
		}
		var a S
		found := false
		for ; pos < len(rr.reads); pos++ {
			cand, err := field.Random(bytes.NewReader(rr.reads[pos]))
			if err != nil {
				continue
			}
			A := curve.ScalarBaseMul(cand)
			if w == 1 {
				A = A.Add(r1.BigB)
			}
			if A.Equal(r2.BigA[idx]) {
				a, found = cand, true
				pos++
				break
			}
		}
		if !found {
			o.note = "vsot receiver scalars not derivable from its tape"
			return o
		}
		o.lines = append(o.lines, fmt.Sprintf("S %d %s %s %s %d", idx, vh.ZHex(q), zs(a), zs(b), w))
		insts = append(insts, inst{idx, i, j, w})
	}
	o.check = func(outs []string) []string {
		var fails []string
		for k, in := range insts {
			f := strings.Fields(outs[k])
			if len(f) != 6 {
				fails = append(fails, "bad model line")
				continue
			}
			pt := func(h string) []byte {
				s, err := field.FromBytesBEReduce(vh.UnZHex(h).Bytes())
				if err != nil {
					return nil
				}
				return curve.ScalarBaseMul(s).ToCompressed()
			}
			if !bytes.Equal(pt(f[2]), r2.BigA[in.idx].ToCompressed()) {
				fails = append(fails, fmt.Sprintf("idx %d: A != (a + w.b).G", in.idx))
			}
			// the hash input of each output must contain the predicted key point (position in the framing not compared)
			has := func(log []hrec, dg []byte, p []byte) bool {
				pre := preimageOf(log, dg)
				return pre == nil || (len(p) == plen && bytes.Contains(pre, p))
			}
			if !has(o.rlog, o.rout.Messages[in.i][in.j], pt(f[3])) {
				fails = append(fails, fmt.Sprintf("idx %d: receiver key point != (a.b).G", in.idx))
			}
			if !has(o.slog, o.sout.Messages[in.i][0][in.j], pt(f[4])) {
				fails = append(fails, fmt.Sprintf("idx %d: sender key-0 point != (b.A).G", in.idx))
			}
			if !has(o.slog, o.sout.Messages[in.i][1][in.j], pt(f[5])) {
				fails = append(fails, fmt.Sprintf("idx %d: sender key-1 point != (b.(A-B)).G", in.idx))
			}
			// model-side correlation: kr = k_w, k0 != k1
			kw := f[4]
			if in.w == 1 {
				kw = f[5]
			}
			if f[3] != kw || f[4] == f[5] {
				fails = append(fails, fmt.Sprintf("idx %d: model keys not correlated", in.idx))
			}
		}
		return fails
	}
	return o
}

func vsotDispatch(d desc, curve string, xi, L int, x []byte) vsotObs {
	if curve == "p256" {
		return vsotRun(d, p256.NewCurve(), xi, L, x)
	}
	return vsotRun(d, k256.NewCurve(), xi, L, x)
}

// otPredicate: receiver output = sender message[choice], sender messages differ
func otPredicate(xi, L int, x []byte, recv func(i, l int) []byte, send func(i int, c byte, l int) []byte) string {
	for i := 0; i < xi; i++ {
		c := getBit(x, i)
		for l := 0; l < L; l++ {
			if !bytes.Equal(recv(i, l), send(i, c, l)) {
				return fmt.Sprintf("instance i=%d l=%d choice=%d: receiver output is not the sender's selected message", i, l, c)
			}
			if bytes.Equal(send(i, 0, l), send(i, 1, l)) {
				return fmt.Sprintf("instance i=%d l=%d: the two sender messages are equal", i, l)
			}
		}
	}
	return ""
}

func runVsot(d desc) outcome {
	o := outcome{d: d, class: "vsot-" + d.get("curve") + "-x-" + d.get("x")}
	xi, L := d.int("xi"), d.int("L")
	x := choiceVec(rngFor(d, "x"), d.get("x"), xi/8)
	ob := vsotDispatch(d, d.get("curve"), xi, L, x)
	if ob.err != "" {
		o.prop = append(o.prop, mm(d, "prop", "vsot-honest-run-fails", "vsot_correlation / honest run completes", ob.err, true))
		return o
	}
	o.nontrivial = true
	bad := otPredicate(xi, L, x, func(i, l int) []byte { return ob.rout.Messages[i][l] },
		func(i int, c byte, l int) []byte { return ob.sout.Messages[i][c][l] })
	if bad == "" && !bytes.Equal(ob.rout.Choices, x) {
		bad = "receiver output choices differ from the input"
	}
	if bad != "" {
		o.prop = append(o.prop, mm(d, "prop", "vsot-output-correlation", "vsot_correlation / vsot_messages_differ", bad, true))
	}
	if ob.note != "" {
		o.notes = append(o.notes, ob.note+" ("+d.text()+")")
	}
	o.lines = ob.lines
	pf := bad != ""
	if ob.check != nil {
		o.cmp = func(outs []string) []vh.Mismatch {
			var ms []vh.Mismatch
			for _, f := range ob.check(outs) {
				ms = append(ms, mm(d, "corr", "vsot-exponent", "correspondence vsot key derivation in the exponent", f, pf))
			}
			return ms
		}
	}
	return o
}

// ---- ecbbot -------------------------------------------------------------------------------------

type ecbObs struct {
	err          string
	bad          string
	sBits, rBits func(byteLen int, key []byte) (*vsot.SenderOutput, *vsot.ReceiverOutput, error)
	lines        []string
	check        func(outs []string) []string // exponent tie: failure descriptions
	note         string
}

func ecbRun[P curves.Point[P, B, S], B algebra.FieldElement[B], S algebra.PrimeFieldElement[S]](
	d desc, curve curves.Curve[P, B, S], xi, L int, x []byte) ecbObs {
	var o ecbObs
	ctxs, _ := mkCtxs(rngFor(d, "ecb-ctx"))
	suite, err := ecbbot.NewSuite(xi, L, curve)
	if err != nil {
		o.err = "suite"
		return o
	}
	var sout *ecbbot.SenderOutput[S]
	var rout *ecbbot.ReceiverOutput[S]
	var r1 *ecbbot.Round1P2P[P, S]
	sr := &recReader{r: rngFor(d, "ecb-sender-prng")}
	rr := &recReader{r: rngFor(d, "ecb-receiver-prng")}
	if p := vh.Safely(func() {
		snd, err := ecbbot.NewSender(ctxs[1], suite, sr)
		if err != nil {
			o.err = "new-sender"
			return
		}
		rcv, err := ecbbot.NewReceiver(ctxs[2], suite, rr)
		if err != nil {
			o.err = "new-receiver"
			return
		}
		r1, err = snd.Round1()
		if err != nil {
			o.err = "round1"
			return
		}
		r2, ro, err := rcv.Round2(r1, append([]byte{}, x...))
		if err != nil {
			o.err = "round2"
			return
		}
		rout = ro
		if sout, err = snd.Round3(r2); err != nil {
			o.err = "round3"
		}
	}); p != "" {
		o.err = "panic:" + p
	}
	if o.err != "" {
		return o
	}
	o.bad = otPredicate(xi, L, x, func(i, l int) []byte { return rout.Messages[i][l].Bytes() },
		func(i int, c byte, l int) []byte { return sout.Messages[i][c][l].Bytes() })
	if o.bad == "" && !bytes.Equal(rout.Choices, x) {
		o.bad = "receiver output choices differ from the input"
	}
	o.sBits = func(n int, key []byte) (*vsot.SenderOutput, *vsot.ReceiverOutput, error) {
		s, err := sout.ToBitsOutput(n, key)
		if err != nil {
			return nil, nil, err
		}
		r, err := rout.ToBitsOutput(n, key)
		return s, r, err
	}
	// ---- exponent tie (chosen branch): recover a and some b_i from the recorded tapes through the public sampler,
	// validated by a.G = Ms and Key2(b_i, Ms, tag) = receiver output; the model predicts the shared exponent a.b_i
	func() {
		field, ok := curve.ScalarStructure().(algebra.PrimeField[S])
		ka, err := ecbbot.NewTaggedKeyAgreement(curve)
		if !ok || err != nil || len(sr.reads) == 0 || r1 == nil {
			o.note = "ecbbot key agreement not accessible"
			return
		}
		a, err := field.Random(bytes.NewReader(sr.reads[0]))
		if err != nil || !curve.ScalarBaseMul(a).Equal(r1.Ms) {
			o.note = "ecbbot sender scalar not derivable from its tape"
			return
		}
		tagOf := func(idx int, j byte) []byte {
			return slices.Concat([]byte(ecbbot.PopfKeyLabel), binary.LittleEndian.AppendUint32(nil, uint32(idx)), []byte{j})
		}
		q := field.Order().Big()
		zs := func(s S) string { return vh.ZHex(new(big.Int).SetBytes(s.Bytes())) }
		n := xi * L
		pick := map[int]bool{0: true, n - 1: true}
		pr := rngFor(d, "ecb-pick")
		for len(pick) < min(n, 5) {
			pick[pr.Intn(n)] = true
		}
		type inst struct {
			idx, i, l int
			c         byte
		}
		var insts []inst
		var lines []string
		pos := 0
		for idx := 0; idx < n; idx++ {
			i, l := idx/L, idx%L
			c := getBit(x, i)
			if !pick[idx] {
				pos++
				continue
			}
			found := false
			for ; pos < len(rr.reads) && !found; pos++ {
				cand, err := field.Random(bytes.NewReader(rr.reads[pos]))
				if err != nil || cand.IsZero() {
					continue
				}
				k, err := ka.Key2(cand, r1.Ms, tagOf(idx, c))
				if err == nil && k.Equal(rout.Messages[i][l]) {
					lines = append(lines, fmt.Sprintf("C %d %s %s %s %d", idx, vh.ZHex(q), zs(a), zs(cand), c))
					insts = append(insts, inst{idx, i, l, c})
					found = true
				}
			}
			if !found {
				o.note = "ecbbot receiver scalars not derivable from its tape"
				return
			}
		}
		o.lines = lines
		o.check = func(outs []string) []string {
			var fails []string
			for k, in := range insts {
				f := strings.Fields(outs[k])
				if len(f) != 5 {
					fails = append(fails, "bad model line")
					continue
				}
				if f[2] != f[3] || f[4] != "1" {
					fails = append(fails, fmt.Sprintf("idx %d: model keys not correlated", in.idx))
				}
				kr, err := field.FromBytesBEReduce(vh.UnZHex(f[2]).Bytes())
				if err != nil || kr.IsZero() {
					continue
				}
				// Hash(tag || (a.b_i).G) through the public key-agreement helper
				key, err := ka.Key1(kr, curve.Generator(), tagOf(in.idx, in.c))
				if err != nil {
					continue
				}
				if !key.Equal(rout.Messages[in.i][in.l]) || !key.Equal(sout.Messages[in.i][in.c][in.l]) {
					fails = append(fails, fmt.Sprintf("idx %d: outputs are not the key derived from (a.b_i).G", in.idx))
				}
			}
			return fails
		}
	}()
	// POPF round trip on the implementation: Eval(Program(c, y), c) = y, and the other branch differs
	pr := rngFor(d, "popf")
	f, err := ecbbot.NewPopf(curve, pr.Bytes(16), pr.Bytes(16))
	if err == nil {
		for k := 0; k < 4 && o.bad == ""; k++ {
			c := byte(k % 2)
			y, err := curve.Random(pr)
			if err != nil {
				break
			}
			s0, s1, err := f.Program(c, y, pr)
			if err != nil {
				o.bad = "popf program fails"
				break
			}
			e, err1 := f.Eval(s0, s1, c)
			e2, err2 := f.Eval(s0, s1, 1-c)
			if err1 != nil || err2 != nil || !e.Equal(y) {
				o.bad = fmt.Sprintf("popf: Eval(Program(%d, y), %d) != y", c, c)
			} else if e2.Equal(y) {
				o.bad = "popf: both branches evaluate to the programmed value"
			}
		}
	}
	return o
}

func ecbDispatch(d desc, curve string, xi, L int, x []byte) ecbObs {
	if curve == "p256" {
		return ecbRun(d, p256.NewCurve(), xi, L, x)
	}
	return ecbRun(d, k256.NewCurve(), xi, L, x)
}

func runEcb(d desc) outcome {
	o := outcome{d: d, class: "ecbbot-" + d.get("curve") + "-x-" + d.get("x")}
	xi, L := d.int("xi"), d.int("L")
	x := choiceVec(rngFor(d, "x"), d.get("x"), xi/8)
	ob := ecbDispatch(d, d.get("curve"), xi, L, x)
	if ob.err != "" {
		o.prop = append(o.prop, mm(d, "prop", "ecbbot-honest-run-fails", "ecbbot_correlation / honest run completes", ob.err, true))
		return o
	}
	o.nontrivial = true
	bad := ob.bad
	if bad == "" {
		// the byte-string form used as extension seeds keeps the correlation
		s, r, err := ob.sBits(32, bytes.Repeat([]byte{7}, 16))
		if err != nil {
			bad = "ToBitsOutput fails"
		} else {
			bad = otPredicate(xi, L, x, func(i, l int) []byte { return r.Messages[i][l] }, func(i int, c byte, l int) []byte { return s.Messages[i][c][l] })
		}
	}
	if bad != "" {
		o.prop = append(o.prop, mm(d, "prop", "ecbbot-output-correlation", "ecbbot_correlation / ecbbot_messages_differ", bad, true))
	}
	if ob.note != "" {
		o.notes = append(o.notes, ob.note+" ("+d.text()+")")
	}
	o.lines = ob.lines
	pf := bad != ""
	if ob.check != nil {
		o.cmp = func(outs []string) []vh.Mismatch {
			var ms []vh.Mismatch
			for _, f := range ob.check(outs) {
				ms = append(ms, mm(d, "corr", "ecbbot-exponent", "correspondence ecbbot key derivation in the exponent", f, pf))
			}
			return ms
		}
	}
	return o
}

// baseSeeds runs a real base OT (xi = kappa, L = 1) and returns its outputs as extension seeds.
func baseSeeds(d desc, src, deltaShape string) (seeds, string) {
	var sd seeds
	k := 128
	sd.delta = choiceVec(rngFor(d, "delta"), deltaShape, k/8)
	var so *vsot.SenderOutput
	var ro *vsot.ReceiverOutput
	parts := strings.SplitN(src, "-", 2)
	switch parts[0] {
	case "vsot":
		ob := vsotDispatch(d, parts[1], k, 1, sd.delta)
		if ob.err != "" {
			return sd, "vsot run failed: " + ob.err
		}
		so, ro = ob.sout, ob.rout
	default:
		ob := ecbDispatch(d, parts[1], k, 1, sd.delta)
		if ob.err != "" || ob.bad != "" {
			return sd, "ecbbot run failed: " + ob.err + ob.bad
		}
		var err error
		so, ro, err = ob.sBits(32, bytes.Repeat([]byte{9}, 16))
		if err != nil {
			return sd, "ToBitsOutput failed"
		}
	}
	for i := 0; i < k; i++ {
		sd.m0 = append(sd.m0, so.Messages[i][0][0])
		sd.m1 = append(sd.m1, so.Messages[i][1][0])
		if !bytes.Equal(ro.Messages[i][0], so.Messages[i][getBit(sd.delta, i)][0]) {
			return sd, fmt.Sprintf("base OT instance %d: receiver output is not the selected sender message", i)
		}
	}
	return sd, ""
}

// ---- rvole --------------------------------------------------------------------------------------

type rvTamper struct {
	what string // "A<j>.<i>", "E<k>", "M<bit>"
	dlt  *big.Int
}

type rvObs struct {
	err     string
	a, c, d []*big.Int
	b       *big.Int
	q       *big.Int
	xi, rho int
	beta    []byte
	verdict string // for the tamper (or honest): "1" ok, "0" abort, "P" panic, "V" rejected by validation
	// rvs only, honest run: the values the multiplication ran on, recovered through the public API
	// (recording hash function, replicated PRG/gadget derivation, validated against b and ATilde); nil if not recoverable
	deriv     *rvDeriv
	derivNote string
	// honest message fields (both variants)
	atildeAll [][]*big.Int
	eta       []*big.Int
	mu        []byte
	// with the verif hooks of /repo (export_verif.go): the exact internal values; nil if the tree has no hooks
	hk *rvHook
	// tampered ATilde run with hooks: the challenges Bob re-derives from the altered matrix
	thetaP [][]*big.Int
	// independent recomputation of roTheta over the FULL matrix of the run's (possibly altered) message, on a clone of
	// Bob's public session context taken before his last round (hagrid transcript driven by the harness)
	thetaRe [][]*big.Int
}

// the multipliers' transcript labels for roTheta (replicated: the recomputation is only compared when the accessors exist)
var thetaLabels = map[string][2]string{
	"rvb": {"BRON_CRYPTO_BBOT_MULTIPLY-A_TILDE-", "BRON_CRYPTO_BBOT_MULTIPLY-THETA-"},
	"rvs": {"BRON_CRYPTO_SOFTSPOKEN_OT_MULTIPLY-A_TILDE-", "BRON_CRYPTO_SOFTSPOKEN_OT_MULTIPLY-THETA-"},
}

func recomputeTheta[S algebra.PrimeFieldElement[S]](field algebra.PrimeField[S], snap *session.Context, variant string, at [][]S, l, rho int) [][]*big.Int {
	if snap == nil {
		return nil
	}
	tr := snap.Clone().Transcript()
	lb := thetaLabels[variant]
	for _, row := range at {
		for _, e := range row {
			tr.AppendBytes(lb[0], e.Bytes())
		}
	}
	out := make([][]*big.Int, l)
	for i := range out {
		for k := 0; k < rho; k++ {
			bs, err := tr.ExtractBytes(lb[1], uint(field.WideElementSize()))
			if err != nil {
				return nil
			}
			e, err := field.FromWideBytes(bs)
			if err != nil {
				return nil
			}
			out[i] = append(out[i], new(big.Int).SetBytes(e.Bytes()))
		}
	}
	return out
}

// rvHook holds what the `verif` accessors of the multiplier expose (copies), as integers.
type rvHook struct {
	g      []*big.Int
	beta   []byte
	a0, a1 [][]*big.Int
	ahat   []*big.Int
	theta  [][]*big.Int
	muOf   func(muBold [][]*big.Int) []byte // roMu(muBold) in the state Bob has before his last round
	bad    string                           // OT correlation inside the multiplier violated
}

func matBigs[S algebra.PrimeFieldElement[S]](m [][]S) [][]*big.Int {
	out := make([][]*big.Int, len(m))
	for i := range m {
		out[i] = bigsOf(m[i])
	}
	return out
}

type rvOracle[S any] = func(aTilde, muBold [][]S) ([][]S, []byte, error)

// hookOracle: Bob's VerifOracle (snapshot of his session context), nil when the tree has no verif hooks
func hookOracle[S any](bob any) rvOracle[S] {
	if h, ok := bob.(interface {
		VerifOracle() func(aTilde, muBold [][]S) ([][]S, []byte, error)
	}); ok {
		return h.VerifOracle()
	}
	return nil
}

func rvCollect[S algebra.PrimeFieldElement[S]](field algebra.PrimeField[S], alice, bob any, orc rvOracle[S], honAT [][]S, l, rho int) *rvHook {
	if orc == nil || len(honAT) == 0 {
		return nil
	}
	ha, ok1 := alice.(interface{ VerifAlpha() [][2][]S })
	hb, ok2 := bob.(interface {
		VerifGadget() []S
		VerifBeta() []byte
		VerifGamma() [][]S
	})
	if !ok1 || !ok2 {
		return nil
	}
	alpha, gamma := ha.VerifAlpha(), hb.VerifGamma()
	if alpha == nil || gamma == nil || len(alpha) != len(gamma) {
		return nil
	}
	hk := &rvHook{g: bigsOf(hb.VerifGadget()), beta: hb.VerifBeta()}
	for j := range alpha {
		hk.a0 = append(hk.a0, bigsOf(alpha[j][0]))
		hk.a1 = append(hk.a1, bigsOf(alpha[j][1]))
		sel := alpha[j][getBit(hk.beta, j)]
		for i := range gamma[j] {
			if i >= len(sel) || !gamma[j][i].Equal(sel[i]) {
				hk.bad = fmt.Sprintf("OT instance j=%d i=%d inside the multiplier: gamma is not alpha[beta_j]", j, i)
			}
			if alpha[j][0][i].Equal(alpha[j][1][i]) {
				hk.bad = fmt.Sprintf("OT instance j=%d i=%d inside the multiplier: the two sender messages are equal", j, i)
			}
		}
	}
	theta, _, err := orc(honAT, nil)
	if err != nil {
		return nil
	}
	hk.theta = matBigs(theta)
	q := field.Order().Big()
	at0 := bigsOf(honAT[0])
	for k := 0; k < rho; k++ {
		v := new(big.Int).Sub(at0[l+k], hk.a0[0][l+k])
		v.Add(v, hk.a1[0][l+k])
		hk.ahat = append(hk.ahat, v.Mod(v, q))
	}
	hk.muOf = func(mb [][]*big.Int) []byte {
		ms := make([][]S, len(mb))
		for i := range mb {
			ms[i] = scalarsOf(field, mb[i])
		}
		_, mu, err := orc(honAT, ms)
		if err != nil {
			return nil
		}
		return mu
	}
	return hk
}

func cloneMat[S any](m [][]S) [][]S {
	out := make([][]S, len(m))
	for i := range m {
		out[i] = append([]S{}, m[i]...)
	}
	return out
}

type rvDeriv struct {
	g, ahat        []*big.Int
	a0, a1, atilde [][]*big.Int
}

func scalarsOf[S algebra.PrimeFieldElement[S]](field algebra.PrimeField[S], xs []*big.Int) []S {
	out := make([]S, len(xs))
	for i, x := range xs {
		s, err := field.FromBytesBEReduce(x.Bytes())
		if err != nil {
			panic(err)
		}
		out[i] = s
	}
	return out
}

func bigsOf[S algebra.PrimeFieldElement[S]](xs []S) []*big.Int {
	out := make([]*big.Int, len(xs))
	for i, x := range xs {
		out[i] = new(big.Int).SetBytes(x.Bytes())
	}
	return out
}

func isAbort(err error) string {
	if err == nil {
		return "1"
	}
	return "0"
}

// rvRun runs one multiplication (deterministic in d), optionally altering Alice's check message.
func rvRun[P curves.Point[P, B, S], B algebra.FieldElement[B], S algebra.PrimeFieldElement[S]](
	d desc, variant string, curve curves.Curve[P, B, S], l int, aShape, betaShape string, t *rvTamper) rvObs {
	var o rvObs
	field := curve.ScalarStructure().(algebra.PrimeField[S])
	o.q = field.Order().Big()
	kappa := field.ElementSize() * 8
	o.rho = (kappa + 127) / 128
	if variant == "rvb" {
		o.xi = kappa + 160
	} else {
		o.xi = kappa + 256
	}
	ar := rngFor(d, "rv-a")
	for i := 0; i < l; i++ {
		var v *big.Int
		switch aShape {
		case "zero":
			v = big.NewInt(0)
		case "one":
			v = big.NewInt(1)
		case "qm1":
			v = new(big.Int).Sub(o.q, big.NewInt(1))
		case "mixed":
			v = []*big.Int{big.NewInt(0), big.NewInt(1), new(big.Int).Sub(o.q, big.NewInt(1)), ar.BigBelow(o.q)}[(i+ar.Intn(4))%4]
		default:
			v = ar.BigBelow(o.q)
		}
		o.a = append(o.a, v)
	}
	a := scalarsOf(field, o.a)
	o.beta = choiceVec(rngFor(d, "rv-beta"), betaShape, o.xi/8)
	bobPrng := &prefixReader{pre: append([]byte{}, o.beta...), r: rngFor(d, "rv-bob-prng")}
	alicePrng := rngFor(d, "rv-alice-prng")
	ctxs, _ := mkCtxs(rngFor(d, "rv-ctx"))
	add := func(s S, dl *big.Int) S { return s.Add(scalarsOf(field, []*big.Int{dl})[0]) }
	var b S
	var c, dd []S
	var r2hon, honAT [][]S
	var honEta []S
	var honMu []byte
	if variant == "rvb" {
		if p := vh.Safely(func() {
			suite, err := rvole_bbot.NewSuite(l, curve)
			if err != nil {
				o.err = "suite"
				return
			}
			alice, err := rvole_bbot.NewAlice(ctxs[1], suite, alicePrng)
			if err != nil {
				o.err = "new-alice"
				return
			}
			bob, err := rvole_bbot.NewBob(ctxs[2], suite, bobPrng)
			if err != nil {
				o.err = "new-bob"
				return
			}
			r1, err := alice.Round1()
			if err != nil {
				o.err = "round1"
				return
			}
			r2, bb, err := bob.Round2(r1)
			if err != nil {
				o.err = "round2"
				return
			}
			b = bb
			r3, cc, err := alice.Round3(r2, a)
			if err != nil {
				o.err = "round3"
				return
			}
			c = cc
			honAT, honEta, honMu = cloneMat(r3.ATilde), append([]S{}, r3.Eta...), append([]byte{}, r3.Mu...)
			orc := hookOracle[S](bob)
			snap := ctxs[2].Clone()
			defer func() {
				if o.err == "" && (t == nil || t.what[0] == 'A') {
					o.thetaRe = recomputeTheta(field, snap, variant, r3.ATilde, l, o.rho)
				}
				if o.err != "" || orc == nil {
					return
				}
				if t == nil && dd != nil {
					o.hk = rvCollect(field, alice, bob, orc, honAT, l, o.rho)
				} else if t != nil && t.what[0] == 'A' {
					if th, _, err := orc(r3.ATilde, nil); err == nil {
						o.thetaP = matBigs(th)
					}
				}
			}()
			if t != nil {
				switch t.what[0] {
				case 'A':
					ji := strings.Split(t.what[1:], ".")
					j, _ := strconv.Atoi(ji[0])
					i, _ := strconv.Atoi(ji[1])
					r3.ATilde[j][i] = add(r3.ATilde[j][i], t.dlt)
				case 'E':
					k, _ := strconv.Atoi(t.what[1:])
					r3.Eta[k] = add(r3.Eta[k], t.dlt)
				case 'M':
					bit, _ := strconv.Atoi(t.what[1:])
					r3.Mu = append([]byte{}, r3.Mu...)
					r3.Mu[(bit/8)%len(r3.Mu)] ^= 1 << (bit % 8)
				}
			}
			dd, err = bob.Round4(r3)
			o.verdict = isAbort(err)
		}); p != "" {
			if o.err == "" && c != nil {
				o.verdict = "P"
			} else {
				o.err = "panic:" + p
			}
		}
	} else {
		if p := vh.Safely(func() {
			var alog, blog []hrec
			ha, hb := sha256.New, sha256.New
			if t == nil {
				ha, hb = recSha256(&alog), recSha256(&blog)
			}
			suite, err := rvole_softspoken.NewSuite(l, curve, ha)
			if err != nil {
				o.err = "suite"
				return
			}
			suiteB, _ := rvole_softspoken.NewSuite(l, curve, hb)
			sd := synthSeeds(rngFor(d, "rv-seeds"), "rand")
			alice, err := rvole_softspoken.NewAlice(ctxs[1], suite, sd.receiver(), alicePrng)
			if err != nil {
				o.err = "new-alice"
				return
			}
			gt := ctxs[2].Transcript().Clone()
			sidB := ctxs[2].SessionID()
			bob, err := rvole_softspoken.NewBob(ctxs[2], suiteB, sd.sender(), bobPrng)
			if err != nil {
				o.err = "new-bob"
				return
			}
			defer func() {
				if t == nil && o.err == "" && dd != nil && r2hon != nil {
					o.deriv, o.derivNote = rvsDerive(field, gt, sidB[:], sd, o.beta, l, o.rho, o.xi, alog, blog, b, r2hon)
				}
			}()
			r1, bb, err := bob.Round1()
			if err != nil {
				o.err = "round1"
				return
			}
			b = bb
			r2, cc, err := alice.Round2(r1, a)
			if err != nil {
				o.err = "round2"
				return
			}
			c = cc
			honAT, honEta, honMu = cloneMat(r2.ATilde), append([]S{}, r2.Eta...), append([]byte{}, r2.Mu...)
			if t == nil {
				r2hon = honAT
			}
			orc := hookOracle[S](bob)
			snap := ctxs[2].Clone()
			defer func() {
				if o.err == "" && (t == nil || t.what[0] == 'A') {
					o.thetaRe = recomputeTheta(field, snap, variant, r2.ATilde, l, o.rho)
				}
				if o.err != "" || orc == nil {
					return
				}
				if t == nil && dd != nil {
					o.hk = rvCollect(field, alice, bob, orc, honAT, l, o.rho)
				} else if t != nil && t.what[0] == 'A' {
					if th, _, err := orc(r2.ATilde, nil); err == nil {
						o.thetaP = matBigs(th)
					}
				}
			}()
			if t != nil {
				switch t.what[0] {
				case 'A':
					ji := strings.Split(t.what[1:], ".")
					j, _ := strconv.Atoi(ji[0])
					i, _ := strconv.Atoi(ji[1])
					r2.ATilde[j][i] = add(r2.ATilde[j][i], t.dlt)
				case 'E':
					k, _ := strconv.Atoi(t.what[1:])
					r2.Eta[k] = add(r2.Eta[k], t.dlt)
				case 'M':
					bit, _ := strconv.Atoi(t.what[1:])
					r2.Mu = append([]byte{}, r2.Mu...)
					r2.Mu[(bit/8)%len(r2.Mu)] ^= 1 << (bit % 8)
				}
			}
			dd, err = bob.Round3(r2)
			o.verdict = isAbort(err)
		}); p != "" {
			if o.err == "" && c != nil {
				o.verdict = "P"
			} else {
				o.err = "panic:" + p
			}
		}
	}
	if o.err != "" {
		return o
	}
	o.b = new(big.Int).SetBytes(b.Bytes())
	o.c = bigsOf(c)
	if dd != nil {
		o.d = bigsOf(dd)
	}
	o.atildeAll, o.eta, o.mu = matBigs(honAT), bigsOf(honEta), honMu
	return o
}

// rvsDerive recovers, for an honest rvole/softspoken run, the gadget vector g, the OT sender messages alpha0/alpha1
// (as field elements) and Alice's aHat, using only public API values: the seeds and session id the harness chose,
// the digests/preimages seen by the suite's hash function, field.Hash/FromWideBytes, and a clone of Bob's transcript
// taken before NewBob.  The PRG expansion and the two labels are replicated, so the result is validated
// (b = sum beta_j g_j, ATilde = alpha0 - alpha1 + a||aHat is checked by the caller through the model) and
// an unrecoverable value only yields a note.
func rvsDerive[S algebra.PrimeFieldElement[S]](field algebra.PrimeField[S], gt transcripts.Transcript, sid []byte, sd seeds,
	beta []byte, l, rho, xi int, alog, blog []hrec, b S, atilde [][]S) (*rvDeriv, string) {
	L := l + rho
	eta := xi * L
	nb := eta/8 + 16
	t0 := make([][]byte, 128)
	for i := range t0 {
		t0[i] = expandPRG(sid, nb, i, sd.m0[i], 0)
	}
	index := func(log []hrec) map[string][]byte {
		m := map[string][]byte{}
		for _, r := range log {
			if len(r.pre) >= 16 {
				m[string(r.pre[len(r.pre)-16:])] = r.out
			}
		}
		return m
	}
	ai, bi := index(alog), index(blog)
	toF := func(dg []byte) *big.Int {
		s, err := field.Hash(dg)
		if err != nil {
			return nil
		}
		return new(big.Int).SetBytes(s.Bytes())
	}
	dv := &rvDeriv{}
	q := field.Order().Big()
	for j := 0; j < xi; j++ {
		r0 := make([]*big.Int, L)
		r1 := make([]*big.Int, L)
		for ll := 0; ll < L; ll++ {
			col := make([]byte, 16)
			for i := 0; i < 128; i++ {
				col[i/8] |= getBit(t0[i], j*L+ll) << (i % 8)
			}
			qcol := col
			if getBit(beta, j) == 1 {
				qcol = xorBytes(col, sd.delta)
			}
			d0, ok0 := ai[string(qcol)]
			d1, ok1 := ai[string(xorBytes(qcol, sd.delta))]
			dg, okg := bi[string(col)]
			if !ok0 || !ok1 || !okg {
				return nil, "OT columns not found among the hashed values"
			}
			r0[ll], r1[ll] = toF(d0), toF(d1)
			gam := toF(dg)
			sel := r0[ll]
			if getBit(beta, j) == 1 {
				sel = r1[ll]
			}
			if r0[ll] == nil || r1[ll] == nil || gam == nil || gam.Cmp(sel) != 0 {
				return nil, "recovered OT messages are not correlated"
			}
		}
		dv.a0 = append(dv.a0, r0)
		dv.a1 = append(dv.a1, r1)
	}
	// gadget vector: the same extractions on a clone of Bob's transcript
	hexsid := hex.EncodeToString(sid)
	gt.AppendDomainSeparator("BRON_CRYPTO_SOFTSPOKEN_OT_MULTIPLY--" + hexsid)
	gt.AppendDomainSeparator("BRON_CRYPTO_SOFTSPOKEN_OT--" + hexsid)
	sum := new(big.Int)
	for j := 0; j < xi; j++ {
		bs, err := gt.ExtractBytes("BRON_CRYPTO_SOFTSPOKEN_OT_MULTIPLY-G-", uint(field.WideElementSize()))
		if err != nil {
			return nil, "gadget extraction failed"
		}
		gj, err := field.FromWideBytes(bs)
		if err != nil {
			return nil, "gadget extraction failed"
		}
		gb := new(big.Int).SetBytes(gj.Bytes())
		dv.g = append(dv.g, gb)
		if getBit(beta, j) == 1 {
			sum.Add(sum, gb)
		}
	}
	sum.Mod(sum, q)
	if sum.Cmp(new(big.Int).SetBytes(b.Bytes())) != 0 {
		return nil, "gadget vector not derivable from the transcript (b != sum beta_j g_j)"
	}
	for j := range atilde {
		dv.atilde = append(dv.atilde, bigsOf(atilde[j]))
	}
	for k := 0; k < rho; k++ {
		v := new(big.Int).Sub(dv.atilde[0][l+k], dv.a0[0][l+k])
		v.Add(v, dv.a1[0][l+k])
		dv.ahat = append(dv.ahat, v.Mod(v, q))
	}
	return dv, ""
}

func rvDispatch(d desc, t *rvTamper) rvObs {
	if d.get("curve") == "p256" {
		return rvRun(d, d.kind, p256.NewCurve(), d.int("l"), d.get("a"), d.get("beta"), t)
	}
	return rvRun(d, d.kind, k256.NewCurve(), d.int("l"), d.get("a"), d.get("beta"), t)
}

func productOK(o rvObs) string {
	if o.d == nil {
		return "no output d"
	}
	for i := range o.a {
		s := new(big.Int).Add(o.c[i], o.d[i])
		s.Mod(s, o.q)
		p := new(big.Int).Mul(o.a[i], o.b)
		p.Mod(p, o.q)
		if s.Cmp(p) != 0 {
			return fmt.Sprintf("component %d: c+d = %s but a*b = %s (a=%s b=%s)", i, vh.ZHex(s), vh.ZHex(p), vh.ZHex(o.a[i]), vh.ZHex(o.b))
		}
	}
	return ""
}

func zlist(xs []*big.Int) string {
	p := make([]string, len(xs))
	for i, x := range xs {
		p[i] = vh.ZHex(x)
	}
	return strings.Join(p, ",")
}

func runRvole(d desc) outcome {
	o := outcome{d: d, class: d.kind + "-" + d.get("curve") + "-a-" + d.get("a") + "-beta-" + d.get("beta") + "-tamper-" + strings.SplitN(d.get("tamper"), ":", 2)[0]}
	hon := rvDispatch(d, nil)
	if hon.err != "" || hon.verdict != "1" {
		o.prop = append(o.prop, mm(d, "prop", d.kind+"-honest-run-fails", "vole_check_complete / honest run completes", hon.err+" verdict "+hon.verdict, true))
		return o
	}
	o.nontrivial = true
	l := d.int("l")
	if bad := productOK(hon); bad != "" {
		o.prop = append(o.prop, mm(d, "prop", d.kind+"-product", "vole_product (c_i + d_i = a_i * b)", bad, true))
	}
	// all beta_j = 0 is observable as b = 0 (b = sum beta_j g_j with transcript-derived g_j); the harness sets beta
	// through the first bytes Bob reads from his prng - if that ever stops being the case the model comparison is skipped
	betaZero := hon.b.Sign() == 0
	betaKnown := isZero(hon.beta) == betaZero
	if !betaKnown {
		o.notes = append(o.notes, "Bob's choice bits are not the first bytes read from his prng ("+d.text()+"): beta-dependent predictions skipped")
	}
	// tampering: list "kind:delta;..." where kind = A<j>.<i> | E<k> | M<bit>
	tr := rngFor(d, "rv-tamper")
	var ts []rvTamper
	for _, spec := range strings.Split(d.get("tamper"), ";") {
		if spec == "" || spec == "none" {
			continue
		}
		kd := strings.SplitN(spec, ":", 2)
		what := kd[0]
		switch what { // symbolic positions resolved deterministically
		case "A":
			what = fmt.Sprintf("A%d.%d", tr.Intn(hon.xi), tr.Intn(l+hon.rho))
		case "Acheck":
			what = fmt.Sprintf("A%d.%d", tr.Intn(hon.xi), l+tr.Intn(hon.rho))
		case "Ain":
			what = fmt.Sprintf("A%d.%d", tr.Intn(hon.xi), tr.Intn(l))
		case "Acheck0", "Acheck1", "Ain0", "Ain1":
			// a cell of a row j with beta_j = 0 / 1: trailing check column (Acheck) or input column (Ain)
			want := what[len(what)-1] - '0'
			bsrc := hon.beta
			if hon.hk != nil {
				bsrc = hon.hk.beta
			}
			j0, found := tr.Intn(hon.xi), -1
			for k := 0; k < hon.xi; k++ {
				if j := (j0 + k) % hon.xi; getBit(bsrc, j) == want {
					found = j
					break
				}
			}
			if found < 0 {
				continue // no such row (beta all zero / all ones)
			}
			col := tr.Intn(l)
			if strings.HasPrefix(what, "Acheck") {
				col = l + tr.Intn(hon.rho)
			}
			what = fmt.Sprintf("A%d.%d", found, col)
		case "E":
			what = fmt.Sprintf("E%d", tr.Intn(hon.rho))
		case "M":
			what = fmt.Sprintf("M%d", tr.Intn(256))
		}
		dl := big.NewInt(1)
		if len(kd) == 2 {
			switch kd[1] {
			case "qm1":
				dl = new(big.Int).Sub(hon.q, big.NewInt(1))
			case "rand":
				dl = new(big.Int).Add(tr.BigBelow(new(big.Int).Sub(hon.q, big.NewInt(1))), big.NewInt(1))
			default:
				if x, ok := new(big.Int).SetString(kd[1], 16); ok && x.Sign() > 0 {
					dl = x
				}
			}
		}
		ts = append(ts, rvTamper{what, dl})
	}
	verdicts := "1"
	tparts := []string{"-"}
	thetaReBad := ""
	if hon.hk != nil && hon.thetaRe != nil && fmt.Sprint(hon.thetaRe) != fmt.Sprint(hon.hk.theta) {
		thetaReBad = "honest run: library theta differs from the recomputation over the full matrix"
	}
	var thetaPs [][][]*big.Int // per ATilde alteration: Bob's re-derived challenges (hooks), nil otherwise
	for _, t := range ts {
		t := t
		ob := rvDispatch(d, &t)
		v := ob.verdict
		if ob.err != "" {
			v = "P"
		}
		verdicts += v
		tparts = append(tparts, t.what+":"+vh.ZHex(t.dlt))
		if t.what[0] == 'A' {
			thetaPs = append(thetaPs, ob.thetaP)
			if hon.hk != nil && ob.thetaP != nil {
				// the challenges must be bound to every cell of ATilde: an altered cell gives different challenges
				if fmt.Sprint(ob.thetaP) == fmt.Sprint(hon.hk.theta) {
					o.prop = append(o.prop, mm(d.with("tamper", t.what+":"+vh.ZHex(t.dlt)), "prop", d.kind+"-theta-unbound",
						"vole_atilde_altered_partial (theta' = roTheta of the altered matrix)", "altering ATilde cell "+t.what+" leaves the challenges theta unchanged", true))
				}
				if ob.thetaRe != nil && fmt.Sprint(ob.thetaRe) != fmt.Sprint(ob.thetaP) {
					thetaReBad = "altered " + t.what + ": library theta' differs from the recomputation over the full altered matrix"
				}
			}
		}
		// property: an altered check value makes Bob abort (an altered eta cannot be seen when all beta_j = 0)
		expectAbort := !(t.what[0] == 'E' && betaZero)
		if v == "P" || (v == "1" && expectAbort) {
			o.prop = append(o.prop, mm(d.with("tamper", t.what+":"+vh.ZHex(t.dlt)), "prop", d.kind+"-tamper-not-rejected-"+t.what[:1],
				"vole_mu_altered / vole_eta_altered / vole_atilde_altered_partial", "altered "+t.what+" result "+v+" (1 = accepted, P = panic)", true))
		}
		if v == "1" {
			if bad := productOK(ob); bad != "" {
				o.prop = append(o.prop, mm(d, "prop", d.kind+"-accepted-tamper-breaks-product", "vole_product", bad, true))
			}
		}
	}
	// model run: same sizes, a, beta and alterations; OT messages, gadget and oracle values idealised (random)
	mr := rngFor(d, "rv-model")
	rnd := func(n int) []*big.Int {
		out := make([]*big.Int, n)
		for i := range out {
			out[i] = mr.BigBelow(hon.q)
		}
		return out
	}
	rows := func(n, m int) string {
		p := make([]string, n)
		for i := range p {
			p[i] = zlist(rnd(m))
		}
		return strings.Join(p, ";")
	}
	var bs strings.Builder
	for j := 0; j < hon.xi; j++ {
		bs.WriteByte('0' + getBit(hon.beta, j))
	}
	w := l + hon.rho
	gS, a0S, a1S, ahatS := zlist(rnd(hon.xi)), rows(hon.xi, w), rows(hon.xi, w), zlist(rnd(hon.rho))
	thS := rows(l, hon.rho)
	zr := func(m [][]*big.Int) string {
		p := make([]string, len(m))
		for i := range m {
			p[i] = zlist(m[i])
		}
		return strings.Join(p, ";")
	}
	hk := hon.hk
	dv := hon.deriv
	if !betaKnown {
		dv = nil
	}
	if hk != nil {
		// exact internal values through the verif accessors of the tree
		if hk.bad != "" {
			o.prop = append(o.prop, mm(d, "prop", d.kind+"-inner-ot-correlation", "cot_correlation / ot_messages_differ inside the multiplier", hk.bad, true))
		}
		o.class += "+hooks"
		dv = &rvDeriv{g: hk.g, ahat: hk.ahat, a0: hk.a0, a1: hk.a1, atilde: hon.atildeAll}
		thS = zr(hk.theta)
		bs.Reset()
		for j := 0; j < hon.xi; j++ {
			bs.WriteByte('0' + getBit(hk.beta, j))
		}
		betaKnown = true
	}
	if dv != nil {
		gS, a0S, a1S, ahatS = zlist(dv.g), zr(dv.a0), zr(dv.a1), zlist(dv.ahat)
	} else if d.kind == "rvs" {
		o.notes = append(o.notes, "rvs: internal values not recoverable ("+hon.derivNote+") for "+d.text()+": model run on idealised values")
	}
	// one table of re-derived challenges per ATilde alteration (exact with hooks, idealised otherwise)
	thp := []string{}
	for _, tp := range thetaPs {
		if hk != nil && tp != nil {
			thp = append(thp, zr(tp))
		} else {
			thp = append(thp, rows(l, hon.rho))
		}
	}
	if len(thp) == 0 {
		thp = append(thp, rows(l, hon.rho))
	}
	line := fmt.Sprintf("V 0 P=%s L=%d RHO=%d XI=%d A=%s G=%s BETA=%s A0=%s A1=%s AHAT=%s TH=%s THP=%s TAMPER=%s",
		vh.ZHex(hon.q), l, hon.rho, hon.xi, zlist(hon.a), gS, bs.String(), a0S, a1S,
		ahatS, thS, strings.Join(thp, "|"), strings.Join(tparts, ";"))
	o.lines = []string{line}
	pf := len(o.prop) > 0
	o.cmp = func(outs []string) []vh.Mismatch {
		var ms []vh.Mismatch
		kv := kvOf(outs[0])
		if thetaReBad != "" {
			ms = append(ms, mm(d, "corr", d.kind+"-theta-recompute", "roTheta = transcript extraction after absorbing every entry of ATilde", thetaReBad, pf))
		}
		if betaKnown && kv["V"] != verdicts {
			ms = append(ms, mm(d, "corr", d.kind+"-tamper-verdicts", "correspondence bob_round4 accept/abort (vole_mu_altered, vole_eta_altered, vole_atilde_altered_partial)",
				"model "+kv["V"]+" impl "+verdicts+" for "+strings.Join(tparts, ";"), pf))
		}
		// the model's own outputs satisfy the product relation on this instance (sanity of the executable model)
		mb := vh.UnZHex(kv["B"])
		mc := strings.Split(kv["C"], ",")
		md := strings.Split(kv["D"], ",")
		if kv["D"] == "ABORT" || len(mc) != l || len(md) != l {
			ms = append(ms, mm(d, "corr", d.kind+"-model-aborts", "vole_check_complete on the executable model", outs[0][:min(len(outs[0]), 200)], pf))
			return ms
		}
		for i := 0; i < l; i++ {
			s := new(big.Int).Add(vh.UnZHex(mc[i]), vh.UnZHex(md[i]))
			s.Mod(s, hon.q)
			p := new(big.Int).Mul(hon.a[i], mb)
			p.Mod(p, hon.q)
			if s.Cmp(p) != 0 {
				ms = append(ms, mm(d, "corr", d.kind+"-model-product", "vole_product on the executable model", fmt.Sprintf("component %d", i), pf))
			}
		}
		if dv != nil {
			// the model, fed with the recovered gadget vector, OT messages and aHat, predicts every observable
			// that does not depend on the random oracle: b, c, ATilde (whole matrix) and d
			if kv["B"] != vh.ZHex(hon.b) {
				ms = append(ms, mm(d, "corr", d.kind+"-b", "correspondence bob_b", "model "+kv["B"]+" impl "+vh.ZHex(hon.b), pf))
			}
			if kv["C"] != zlist(hon.c) {
				ms = append(ms, mm(d, "corr", d.kind+"-c", "correspondence alice_c", "model "+kv["C"]+" impl "+zlist(hon.c), pf))
			}
			if kv["D"] != zlist(hon.d) {
				ms = append(ms, mm(d, "corr", d.kind+"-d", "correspondence bob_d (g . dDot)", "model "+kv["D"]+" impl "+zlist(hon.d), pf))
			}
			at := make([]string, len(dv.atilde))
			for j := range dv.atilde {
				at[j] = zlist(dv.atilde[j])
			}
			if hk != nil {
				// with the real challenges theta the model also predicts Eta and (through Bob's own roMu) Mu
				if kv["ETA"] != zlist(hon.eta) {
					ms = append(ms, mm(d, "corr", d.kind+"-eta", "correspondence alice_eta", "model "+kv["ETA"]+" impl "+zlist(hon.eta), pf))
				}
				var mb [][]*big.Int
				for _, r := range strings.Split(kv["MU"], ";") {
					var row []*big.Int
					for _, x := range strings.Split(r, ",") {
						row = append(row, vh.UnZHex(x))
					}
					mb = append(mb, row)
				}
				if mu := hk.muOf(mb); !bytes.Equal(mu, hon.mu) {
					ms = append(ms, mm(d, "corr", d.kind+"-mu", "correspondence alice_mubold / roMu", "roMu(model muBold) "+vh.Hex(mu)+" impl "+vh.Hex(hon.mu), pf))
				}
			}
			if kv["AT"] != strings.Join(at, ";") {
				ms = append(ms, mm(d, "corr", d.kind+"-atilde", "correspondence alice_atilde", "model ATilde differs from the message's ATilde", pf))
			}
		}
		if betaKnown && (mb.Sign() == 0) != betaZero {
			ms = append(ms, mm(d, "corr", d.kind+"-model-b", "bob_b", "model b zero-ness differs from beta", pf))
		}
		return ms
	}
	return o
}

func genRvole(thorough bool, n *int) []desc {
	var ds []desc
	add := func(kind string, kvs ...string) {
		*n++
		ds = append(ds, newDesc(kind, append(kvs, "n", strconv.Itoa(*n))...))
	}
	// bbot: every run is a full ecbbot batch (xi = kappa+160 instances of l+rho OTs); few cases, one alteration each
	add("rvb", "curve", "k256", "l", "1", "a", "qm1", "beta", "rand", "tamper", "M;Acheck0;Acheck1:rand")
	if thorough {
		add("rvb", "curve", "p256", "l", "1", "a", "rand", "beta", "zero", "tamper", "E:rand")
		add("rvb", "curve", "k256", "l", "2", "a", "mixed", "beta", "rand", "tamper", "Ain")
		for _, c := range []string{"k256", "p256"} {
			for _, as := range []string{"zero", "one", "qm1", "rand"} {
				add("rvb", "curve", c, "l", "3", "a", as, "beta", "rand", "tamper", "E;Acheck:rand;M")
			}
			add("rvb", "curve", c, "l", "2", "a", "rand", "beta", "ones", "tamper", "E:qm1;A:qm1")
			add("rvb", "curve", c, "l", "2", "a", "rand", "beta", "rand", "tamper", "Acheck0:rand;Acheck1;Ain0;Ain1:qm1")
		}
	}
	// softspoken variant: cheap runs, many inputs and alterations
	reps := 1
	if thorough {
		reps = 40
	}
	for ci, c := range []string{"k256", "p256"} {
		for ai, as := range []string{"zero", "one", "qm1", "mixed", "rand"} {
			for li, l := range []string{"1", "2", "3"} {
				if !thorough && (ai+li+ci)%2 == 1 {
					continue
				}
				add("rvs", "curve", c, "l", l, "a", as, "beta", "rand", "tamper", "M;E;Ain:rand")
			}
		}
		add("rvs", "curve", c, "l", "2", "a", "rand", "beta", "zero", "tamper", "E:rand;E:qm1;M;Acheck")
		add("rvs", "curve", c, "l", "1", "a", "rand", "beta", "ones", "tamper", "E;A:qm1;Acheck:rand")
		add("rvs", "curve", c, "l", "3", "a", "rand", "beta", "one", "tamper", "E:rand;Ain;M;Acheck0;Acheck1")
		// the trailing rho check columns, in rows with beta_j = 0 and beta_j = 1
		add("rvs", "curve", c, "l", "2", "a", "rand", "beta", "rand", "tamper", "Acheck0;Acheck1;Acheck0:rand;Acheck1:qm1;Ain0:rand;Ain1")
		add("rvs", "curve", c, "l", "1", "a", "mixed", "beta", "alt", "tamper", "Acheck0:qm1;Acheck1:rand;Acheck0;Acheck1")
		for k := 0; k < reps; k++ {
			add("rvs", "curve", c, "l", strconv.Itoa(1+k%3), "a", "rand", "beta", "rand", "tamper", "A:rand;E:rand;M;Acheck;Ain:qm1")
		}
		// product only (no alteration): more inputs
		nprod := 20
		if thorough {
			nprod = 400
		}
		for k := 0; k < nprod; k++ {
			add("rvs", "curve", c, "l", strconv.Itoa(1+k%3), "a", []string{"rand", "mixed"}[k%2], "beta", "rand", "tamper", "none")
		}
		if thorough {
			// every byte of Mu, every Eta entry, one entry of every ATilde column
			var ts []string
			for byteIdx := 0; byteIdx < 32; byteIdx++ {
				ts = append(ts, fmt.Sprintf("M%d", byteIdx*8+byteIdx%8))
			}
			ts = append(ts, "E0:rand", "E1:rand", "E0:qm1", "E1")
			for i := 0; i < 5; i++ {
				ts = append(ts, fmt.Sprintf("A%d.%d:rand", 17*i+3, i))
			}
			add("rvs", "curve", c, "l", "3", "a", "rand", "beta", "rand", "tamper", strings.Join(ts, ";"))
		}
	}
	return ds
}
