// c09 — correspondence harness for property C09 (oblivious transfer and random-VOLE
// multiplication outputs are correctly correlated; altered check values abort).
// See /verif/DESIGN.md §5 C09.  Case kinds (one canonical text line each, replayable):
//
//	bf    a= b=                                  bf128 product vs the model's carry-less multiply
//	ext   xi= L= delta= x= src= tamper= n=      SoftSpoken extension on given base-OT seeds
//	vsot  curve= xi= L= x= n=                    VSOT base OT (key derivation tied in the exponent)
//	ecb   curve= xi= L= x= n=                    ecbbot base OT (chosen key tied in the exponent) + POPF round trip
//	rvb   curve= l= a= beta= tamper= n=          rvole/bbot multiplication
//	rvs   curve= l= a= beta= tamper= n=          rvole/softspoken multiplication
package main

import (
	"bytes"
	"crypto/sha256"
	"encoding/binary"
	"fmt"
	"hash"
	"io"
	"math/big"
	"os"
	"runtime"
	"sort"
	"strconv"
	"strings"
	"sync"
	"time"

	"golang.org/x/crypto/blake2b"

	"github.com/bronlabs/bron-crypto/pkg/base/binaryfields/bf128"
	"github.com/bronlabs/bron-crypto/pkg/base/datastructures/hashset"
	"github.com/bronlabs/bron-crypto/pkg/mpc/session"
	"github.com/bronlabs/bron-crypto/pkg/mpc/sharing"
	"github.com/bronlabs/bron-crypto/pkg/ot"
	"github.com/bronlabs/bron-crypto/pkg/ot/base/vsot"
	"github.com/bronlabs/bron-crypto/pkg/ot/extension/softspoken"

	"verif/harness/internal/vh"
)

// ---- case descriptors ---------------------------------------------------------------------

type desc struct {
	kind string
	kv   map[string]string
}

func newDesc(kind string, kvs ...string) desc {
	d := desc{kind: kind, kv: map[string]string{}}
	for i := 0; i+1 < len(kvs); i += 2 {
		d.kv[kvs[i]] = kvs[i+1]
	}
	return d
}

func (d desc) text() string {
	keys := make([]string, 0, len(d.kv))
	for k := range d.kv {
		keys = append(keys, k)
	}
	sort.Strings(keys)
	parts := []string{d.kind}
	for _, k := range keys {
		parts = append(parts, k+"="+d.kv[k])
	}
	return strings.Join(parts, " ")
}

func parseDesc(s string) desc {
	f := strings.Fields(s)
	d := desc{kind: f[0], kv: map[string]string{}}
	for _, p := range f[1:] {
		if i := strings.IndexByte(p, '='); i > 0 {
			d.kv[p[:i]] = p[i+1:]
		}
	}
	return d
}

func (d desc) get(k string) string { return d.kv[k] }
func (d desc) int(k string) int    { n, _ := strconv.Atoi(d.kv[k]); return n }
func (d desc) with(k, v string) desc {
	n := desc{kind: d.kind, kv: map[string]string{}}
	for a, b := range d.kv {
		n.kv[a] = b
	}
	n.kv[k] = v
	return n
}

// ---- shared plumbing ------------------------------------------------------------------------

var gSeed int64

func rngFor(d desc, stream string) *vh.Rng {
	return vh.NewRng(gSeed, "C09", d.kind+"/"+stream+"/"+d.text(), d.int("n"))
}

// recReader records every Read call it serves.
type recReader struct {
	r     io.Reader
	reads [][]byte
}

func (r *recReader) Read(p []byte) (int, error) {
	n, err := r.r.Read(p)
	r.reads = append(r.reads, append([]byte{}, p[:n]...))
	return n, err
}

// prefixReader serves fixed bytes first, then the underlying stream.
type prefixReader struct {
	pre []byte
	r   io.Reader
}

func (p *prefixReader) Read(b []byte) (int, error) {
	if len(p.pre) > 0 {
		n := copy(b, p.pre)
		p.pre = p.pre[n:]
		if n < len(b) {
			m, err := p.r.Read(b[n:])
			return n + m, err
		}
		return n, nil
	}
	return p.r.Read(b)
}

type hrec struct{ pre, out []byte }

// recHash is a hash.Hash that records (preimage, digest) of every Sum.
type recHash struct {
	hash.Hash
	buf []byte
	log *[]hrec
}

func (h *recHash) Write(p []byte) (int, error) { h.buf = append(h.buf, p...); return h.Hash.Write(p) }
func (h *recHash) Reset()                      { h.buf = nil; h.Hash.Reset() }
func (h *recHash) Sum(b []byte) []byte {
	out := h.Hash.Sum(nil)
	*h.log = append(*h.log, hrec{append([]byte{}, h.buf...), out})
	return append(b, out...)
}

func recSha256(log *[]hrec) func() hash.Hash {
	return func() hash.Hash { return &recHash{Hash: sha256.New(), log: log} }
}

func preimageOf(log []hrec, digest []byte) []byte {
	for _, r := range log {
		if bytes.Equal(r.out, digest) {
			return r.pre
		}
	}
	return nil
}

// two-party session contexts, deterministic in the rng
func mkCtxs(r *vh.Rng) (map[sharing.ID]*session.Context, func() map[sharing.ID]*session.Context) {
	common := r.Bytes(64)
	pair := r.Bytes(64)
	mk := func() map[sharing.ID]*session.Context {
		q := hashset.NewComparable[sharing.ID](1, 2).Freeze()
		out := map[sharing.ID]*session.Context{}
		for _, id := range []sharing.ID{1, 2} {
			other := sharing.ID(3 - id)
			c, err := session.NewContext(id, q, common, map[sharing.ID][]byte{other: pair})
			if err != nil {
				panic(err)
			}
			out[id] = c
		}
		return out
	}
	return mk(), mk
}

func getBit(b []byte, i int) byte { return (b[i/8] >> (i % 8)) & 1 }

func choiceVec(r *vh.Rng, shape string, nbytes int) []byte {
	out := make([]byte, nbytes)
	switch shape {
	case "zero":
	case "ones":
		for i := range out {
			out[i] = 0xff
		}
	case "one":
		out[r.Intn(nbytes)] = 1 << r.Intn(8)
	case "alt":
		for i := range out {
			out[i] = 0xaa
		}
	default:
		copy(out, r.Bytes(nbytes))
	}
	return out
}

func xorBytes(a, b []byte) []byte {
	out := make([]byte, len(a))
	for i := range a {
		out[i] = a[i] ^ b[i]
	}
	return out
}

func isZero(b []byte) bool {
	for _, x := range b {
		if x != 0 {
			return false
		}
	}
	return true
}

func hexRows(rows [][]byte) string {
	p := make([]string, len(rows))
	for i, r := range rows {
		p[i] = vh.Hex(r)
	}
	return strings.Join(p, ",")
}

func kvOf(line string) map[string]string {
	m := map[string]string{}
	for _, f := range strings.Fields(line) {
		if i := strings.IndexByte(f, '='); i > 0 {
			m[f[:i]] = f[i+1:]
		}
	}
	return m
}

// ---- independent GF(2^128) arithmetic (math/big) used only to recover the Fiat-Shamir
// challenge chi from the honest response by linear algebra ------------------------------------

// elements are (lo, hi) uint64 pairs, bit i = coefficient of X^i; product by the right-to-left
// shift-and-add method with on-the-fly reduction by X^128 = X^7 + X^2 + X + 1
type gf struct{ lo, hi uint64 }

func gfOf(x *big.Int) gf {
	b := x.FillBytes(make([]byte, 16))
	return gf{binary.BigEndian.Uint64(b[8:]), binary.BigEndian.Uint64(b[:8])}
}

func (a gf) big() *big.Int {
	var b [16]byte
	binary.BigEndian.PutUint64(b[:8], a.hi)
	binary.BigEndian.PutUint64(b[8:], a.lo)
	return new(big.Int).SetBytes(b[:])
}

func (a gf) xor(b gf) gf { return gf{a.lo ^ b.lo, a.hi ^ b.hi} }
func (a gf) zero() bool  { return a.lo|a.hi == 0 }

func gfMulE(a, b gf) gf {
	var z gf
	v := b
	for i := 0; i < 128; i++ {
		var bit uint64
		if i < 64 {
			bit = (a.lo >> uint(i)) & 1
		} else {
			bit = (a.hi >> uint(i-64)) & 1
		}
		if bit == 1 {
			z = z.xor(v)
		}
		carry := v.hi >> 63
		v = gf{v.lo << 1, v.hi<<1 | v.lo>>63}
		if carry == 1 {
			v.lo ^= 0x87
		}
	}
	return z
}

func gfMul(a, b *big.Int) *big.Int { return gfMulE(gfOf(a), gfOf(b)).big() }

func gfInvE(a gf) gf {
	// a^(2^128-2)
	r := gf{1, 0}
	sq := a
	for i := 0; i < 128; i++ {
		if i >= 1 {
			r = gfMulE(r, sq)
		}
		sq = gfMulE(sq, sq)
	}
	return r
}

// gfSolve solves sum_k chi_k * A[r][k] = rhs[r] (rows >= cols); nil if singular or inconsistent.
func gfSolve(A [][]*big.Int, rhs []*big.Int, m int) []*big.Int {
	rows := len(A)
	M := make([][]gf, rows)
	for i := range A {
		M[i] = make([]gf, m+1)
		for k := 0; k < m; k++ {
			M[i][k] = gfOf(A[i][k])
		}
		M[i][m] = gfOf(rhs[i])
	}
	for c := 0; c < m; c++ {
		p := -1
		for r := c; r < rows; r++ {
			if !M[r][c].zero() {
				p = r
				break
			}
		}
		if p < 0 {
			return nil
		}
		M[c], M[p] = M[p], M[c]
		inv := gfInvE(M[c][c])
		for k := c; k <= m; k++ {
			M[c][k] = gfMulE(M[c][k], inv)
		}
		for r := 0; r < rows; r++ {
			if r != c && !M[r][c].zero() {
				f := M[r][c]
				for k := c; k <= m; k++ {
					M[r][k] = M[r][k].xor(gfMulE(f, M[c][k]))
				}
			}
		}
	}
	out := make([]*big.Int, m)
	for k := 0; k < m; k++ {
		out[k] = M[k][m].big()
	}
	return out
}

func hex128(x *big.Int) string { return fmt.Sprintf("%032x", x) }

// ---- result collection ----------------------------------------------------------------------

type outcome struct {
	d          desc
	class      string
	nontrivial bool
	lines      []string                          // model-driver input lines
	cmp        func(outs []string) []vh.Mismatch // relation R + property predicate, given the model's lines
	prop       []vh.Mismatch                     // property failures found while driving the implementation
	notes      []string
}

func mm(d desc, kind, key, what, detail string, propfail bool) vh.Mismatch {
	return vh.Mismatch{ID: d.text(), Kind: kind, Key: key, Detail: detail, Case: d.text(), PropFail: propfail, What: what}
}

// ---- bf128 ------------------------------------------------------------------------------------

func runBF(d desc) outcome {
	o := outcome{d: d, class: "bf128-mul", nontrivial: true}
	a, b := vh.UnZHex(d.get("a")), vh.UnZHex(d.get("b"))
	f := bf128.NewField()
	ea, _ := f.FromBytes(a.FillBytes(make([]byte, 16)))
	eb, _ := f.FromBytes(b.FillBytes(make([]byte, 16)))
	var got string
	if p := vh.Safely(func() { got = vh.Hex(ea.Mul(eb).Bytes()) }); p != "" {
		got = "PANIC"
	}
	// property predicate on the implementation alone: product agrees with an independent shift/xor/reduce
	want := hex128(gfMul(a, b))
	if got != want {
		o.prop = append(o.prop, mm(d, "prop", "bf128-mul-wrong", "bf128.Mul = polynomial product mod X^128+X^7+X^2+X+1",
			"impl "+got+" reference "+want, true))
	}
	o.lines = []string{"BF 0 " + vh.ZHex(a) + " " + vh.ZHex(b)}
	o.cmp = func(outs []string) []vh.Mismatch {
		f := strings.Fields(outs[0])
		if len(f) != 3 || f[2] != got {
			return []vh.Mismatch{mm(d, "corr", "bf128-mul", "correspondence bf_mul (model) = bf128.Mul", "model "+outs[0]+" impl "+got, got != want)}
		}
		return nil
	}
	return o
}

// ---- SoftSpoken extension -----------------------------------------------------------------------

type seeds struct {
	m0, m1 [][]byte // kappa seeds each
	delta  []byte   // kappa/8 bytes
}

func (s seeds) sender() *vsot.SenderOutput {
	out := &vsot.SenderOutput{SenderOutput: ot.SenderOutput[[]byte]{Messages: make([][2][][]byte, len(s.m0))}}
	for i := range s.m0 {
		out.Messages[i][0] = [][]byte{s.m0[i]}
		out.Messages[i][1] = [][]byte{s.m1[i]}
	}
	return out
}

func (s seeds) receiver() *vsot.ReceiverOutput {
	out := &vsot.ReceiverOutput{ReceiverOutput: ot.ReceiverOutput[[]byte]{Choices: append([]byte{}, s.delta...), Messages: make([][][]byte, len(s.m0))}}
	for i := range s.m0 {
		if getBit(s.delta, i) == 1 {
			out.Messages[i] = [][]byte{s.m1[i]}
		} else {
			out.Messages[i] = [][]byte{s.m0[i]}
		}
	}
	return out
}

func synthSeeds(r *vh.Rng, deltaShape string) seeds {
	k := softspoken.Kappa
	s := seeds{delta: choiceVec(r, deltaShape, k/8)}
	for i := 0; i < k; i++ {
		s.m0 = append(s.m0, r.Bytes(32))
		s.m1 = append(s.m1, r.Bytes(32))
	}
	return s
}

// expandPRG replicates the extension's seed expansion with x/crypto's BLAKE2b XOF (not library code).
func expandPRG(sid []byte, n, idx int, seed []byte, choice int) []byte {
	x, err := blake2b.NewXOF(blake2b.OutputLengthUnknown, sid)
	if err != nil {
		panic(err)
	}
	x.Write(binary.LittleEndian.AppendUint64(nil, uint64(idx)))
	x.Write(binary.LittleEndian.AppendUint64(nil, uint64(choice)))
	x.Write(seed)
	out := make([]byte, n)
	io.ReadFull(x, out)
	return out
}

func repeatBits(x []byte, L int) []byte {
	out := make([]byte, len(x)*L)
	n := 0
	for i := 0; i < len(x)*8; i++ {
		b := getBit(x, i)
		for k := 0; k < L; k++ {
			out[n/8] |= b << (n % 8)
			n++
		}
	}
	return out
}

func copyR1(m *softspoken.Round1P2P) *softspoken.Round1P2P {
	c := &softspoken.Round1P2P{}
	for i := range m.U {
		c.U[i] = append([]byte{}, m.U[i]...)
	}
	c.ChallengeResponse = m.ChallengeResponse
	return c
}

type extTamper struct {
	what string // "X" or "T<i>"
	val  [16]byte
}

// extRun drives one extension on given seeds; returns observables.
type extObs struct {
	sid        []byte
	r1         *softspoken.Round1P2P
	rout       *softspoken.ReceiverOutput
	sout       *softspoken.SenderOutput
	rlog, slog []hrec
	sigma      []byte
	errR, errS string
	// with the verif hooks of /repo (export_verif.go), nil otherwise: the Fiat-Shamir challenge the sender derives
	// for r1.U, and the parties' own seed expansion
	chi    [][16]byte
	expand func(n, idx int, seed []byte, choice int) []byte
}

func extHonest(d desc, sd seeds, xi, L int, x []byte, mk func() map[sharing.ID]*session.Context) extObs {
	var o extObs
	ctxs := mk()
	sidA := ctxs[1].SessionID()
	o.sid = sidA[:]
	rsuite, err := softspoken.NewSuite(xi, L, recSha256(&o.rlog))
	if err != nil {
		o.errR = "suite"
		return o
	}
	ssuite, _ := softspoken.NewSuite(xi, L, recSha256(&o.slog))
	rr := &recReader{r: rngFor(d, "recv-prng")}
	if p := vh.Safely(func() {
		recv, err := softspoken.NewReceiver(ctxs[1], sd.sender(), rsuite, rr)
		if err != nil {
			o.errR = "new"
			return
		}
		o.r1, o.rout, err = recv.Round1(append([]byte{}, x...))
		if err != nil {
			o.errR = "round1"
		}
		if h, ok := any(recv).(interface {
			VerifExpand(outputLen, idx int, message []byte, choice int) ([]byte, error)
		}); ok {
			o.expand = func(n, idx int, seed []byte, choice int) []byte {
				b, err := h.VerifExpand(n, idx, seed, choice)
				if err != nil {
					return make([]byte, n)
				}
				return b
			}
		}
	}); p != "" {
		o.errR = "panic"
	}
	if o.errR != "" {
		return o
	}
	if len(rr.reads) > 0 {
		o.sigma = rr.reads[0]
	}
	if p := vh.Safely(func() {
		snd, err := softspoken.NewSender(ctxs[2], sd.receiver(), ssuite, rngFor(d, "send-prng"))
		if err != nil {
			o.errS = "new"
			return
		}
		if h, ok := any(snd).(interface {
			VerifChallenge(u *[softspoken.Kappa][]byte, m int) (softspoken.Challenge, error)
		}); ok {
			if c, err := h.VerifChallenge(&copyR1(o.r1).U, xi*L/softspoken.Sigma); err == nil {
				o.chi = c
			}
		}
		o.sout, err = snd.Round2(copyR1(o.r1))
		if err != nil {
			o.errS = "abort"
		}
	}); p != "" {
		o.errS = "panic"
	}
	return o
}

// extTampered: fresh sender on fresh contexts, altered message; "1" accepted, "0" aborted, "P" panic
func extTampered(d desc, sd seeds, xi, L int, r1 *softspoken.Round1P2P, t extTamper, mk func() map[sharing.ID]*session.Context) (string, *softspoken.SenderOutput) {
	ctxs := mk()
	suite, _ := softspoken.NewSuite(xi, L, sha256.New)
	m := copyR1(r1)
	if t.what == "X" {
		m.ChallengeResponse.X = t.val
	} else {
		i, _ := strconv.Atoi(t.what[1:])
		m.ChallengeResponse.T[i] = t.val
	}
	res := "0"
	var out *softspoken.SenderOutput
	if p := vh.Safely(func() {
		snd, err := softspoken.NewSender(ctxs[2], sd.receiver(), suite, rngFor(d, "send-prng"))
		if err != nil {
			return
		}
		o, err := snd.Round2(m)
		if err == nil {
			res = "1"
			out = o
		}
	}); p != "" {
		res = "P"
	}
	return res, out
}

func flip(v [16]byte, bit int) [16]byte {
	v[bit/8] ^= 1 << (bit % 8)
	return v
}

func runExt(d desc) outcome {
	o := outcome{d: d, class: "ext-" + d.get("src") + "-delta-" + d.get("delta") + "-x-" + d.get("x")}
	xi, L := d.int("xi"), d.int("L")
	r := rngFor(d, "gen")
	_, mk := mkCtxs(r)
	var sd seeds
	switch src := d.get("src"); {
	case src == "synth":
		sd = synthSeeds(r, d.get("delta"))
	default:
		var note string
		sd, note = baseSeeds(d, src, d.get("delta"))
		if note != "" {
			o.prop = append(o.prop, mm(d, "prop", "base-ot-for-seeds-"+src, "base OT run producing the extension's seeds", note, true))
			return o
		}
	}
	x := choiceVec(r, d.get("x"), xi/8)
	ob := extHonest(d, sd, xi, L, x, mk)
	if ob.errR != "" || ob.errS != "" {
		o.prop = append(o.prop, mm(d, "prop", "ext-honest-run-fails", "softspoken_check_complete / honest run completes",
			"receiver:"+ob.errR+" sender:"+ob.errS, true))
		return o
	}
	o.nontrivial = true
	deltaZero := isZero(sd.delta)
	// ---- property predicate on the implementation alone
	var sel strings.Builder
	bad := ""
	for j := 0; j < xi; j++ {
		c := getBit(x, j)
		for l := 0; l < L; l++ {
			rm := ob.rout.Messages[j][l]
			e0 := bytes.Equal(rm, ob.sout.Messages[j][0][l])
			e1 := bytes.Equal(rm, ob.sout.Messages[j][1][l])
			switch {
			case e0 && !e1:
				sel.WriteByte('0')
			case e1 && !e0:
				sel.WriteByte('1')
			case e0 && e1:
				sel.WriteByte('2')
			default:
				sel.WriteByte('3')
			}
			if !bytes.Equal(rm, ob.sout.Messages[j][c][l]) && bad == "" {
				bad = fmt.Sprintf("instance j=%d l=%d choice=%d: receiver output is not the sender's selected message", j, l, c)
			}
			if !deltaZero && bytes.Equal(ob.sout.Messages[j][0][l], ob.sout.Messages[j][1][l]) && bad == "" {
				bad = fmt.Sprintf("instance j=%d l=%d: the two sender messages are equal", j, l)
			}
		}
	}
	if !bytes.Equal(ob.rout.Choices, x) && bad == "" {
		bad = "receiver output choices differ from the input choices"
	}
	if bad != "" {
		o.prop = append(o.prop, mm(d, "prop", "ext-output-correlation", "cot_correlation / ot_messages_differ", bad, true))
	}
	// ---- tampering
	tr := rngFor(d, "tamper")
	var tampers []extTamper
	hon := ob.r1.ChallengeResponse
	switch d.get("tamper") {
	case "all":
		tampers = append(tampers, extTamper{"X", flip(hon.X, 0)}, extTamper{"X", flip(hon.X, 127)}, extTamper{"X", flip(hon.X, tr.Intn(128))})
		for i := 0; i < softspoken.Kappa; i++ {
			tampers = append(tampers, extTamper{"T" + strconv.Itoa(i), flip(hon.T[i], tr.Intn(128))})
		}
	case "bytes":
		// one bit in every byte of X and, for every i, in byte i mod 16 of T[i]
		for b := 0; b < 16; b++ {
			tampers = append(tampers, extTamper{"X", flip(hon.X, b*8+tr.Intn(8))})
		}
		for i := 0; i < softspoken.Kappa; i++ {
			tampers = append(tampers, extTamper{"T" + strconv.Itoa(i), flip(hon.T[i], (i%16)*8+tr.Intn(8))})
		}
	default:
		// explicit list "X:<hex>;T<i>:<hex>" (replay of a reported alteration)
		for _, spec := range strings.Split(d.get("tamper"), ";") {
			kd := strings.SplitN(spec, ":", 2)
			if len(kd) != 2 || (kd[0] != "X" && !strings.HasPrefix(kd[0], "T")) {
				continue
			}
			var v [16]byte
			copy(v[:], vh.UnHex(kd[1]))
			tampers = append(tampers, extTamper{kd[0], v})
		}
	case "sample":
		tampers = append(tampers, extTamper{"X", flip(hon.X, tr.Intn(128))})
		for k := 0; k < 6; k++ {
			i := tr.Intn(softspoken.Kappa)
			var v [16]byte
			copy(v[:], tr.Bytes(16))
			if k%2 == 0 {
				v = flip(hon.T[i], tr.Intn(128))
			}
			tampers = append(tampers, extTamper{"T" + strconv.Itoa(i), v})
		}
	}
	verdicts := "1" // the honest run
	tparts := []string{"-"}
	for _, t := range tampers {
		v, tout := extTampered(d, sd, xi, L, ob.r1, t, mk)
		verdicts += v
		tparts = append(tparts, t.what+":"+vh.Hex(t.val[:]))
		expectAbort := !(t.what == "X" && deltaZero)
		if v == "P" || (v == "1" && expectAbort) {
			o.prop = append(o.prop, mm(d.with("tamper", t.what+":"+vh.Hex(t.val[:])), "prop", "ext-tamper-not-rejected-"+t.what[:1],
				"softspoken_check_T / softspoken_check_X", "altered ChallengeResponse."+t.what+" result "+v+" (1 = accepted, P = panic)", true))
		}
		if v == "1" && tout != nil {
			// accepted (only possible for X with Delta = 0): outputs must still be correlated
			for j := 0; j < xi && bad == ""; j++ {
				for l := 0; l < L; l++ {
					if !bytes.Equal(ob.rout.Messages[j][l], tout.Messages[j][getBit(x, j)][l]) {
						o.prop = append(o.prop, mm(d, "prop", "ext-accepted-tamper-breaks-correlation", "cot_correlation", "outputs differ after an accepted altered response", true))
						bad = "x"
						break
					}
				}
			}
		}
	}
	// ---- model inputs: PRG rows (replicated expansion), validated against the observable columns
	eta := xi * L
	nb := eta/8 + 16
	t0 := make([][]byte, softspoken.Kappa)
	t1 := make([][]byte, softspoken.Kappa)
	for i := range t0 {
		if ob.expand != nil {
			t0[i], t1[i] = ob.expand(nb, i, sd.m0[i], 0), ob.expand(nb, i, sd.m1[i], 1)
		} else {
			t0[i] = expandPRG(ob.sid, nb, i, sd.m0[i], 0)
			t1[i] = expandPRG(ob.sid, nb, i, sd.m1[i], 1)
		}
	}
	xp := append(repeatBits(x, L), ob.sigma...)
	prgOK := len(ob.sigma) == 16
	if prgOK {
		for i := range t0 {
			if !bytes.Equal(ob.r1.U[i], xorBytes(xorBytes(t0[i], t1[i]), xp)) {
				prgOK = false
				break
			}
		}
	}
	if !prgOK {
		// the expansion framing is internal; without it only the u/q algebra on recorded columns can be tied:
		// rebuild rows from the observable columns (first eta bits), zero check blocks, and skip U/X/T comparison.
		o.notes = append(o.notes, "PRG expansion not replicable from the public API for "+d.text()+": tie restricted to recorded columns")
		cols := make([][]byte, eta)
		for j := 0; j < xi; j++ {
			for l := 0; l < L; l++ {
				pre := preimageOf(ob.rlog, ob.rout.Messages[j][l])
				if len(pre) < 16 {
					o.prop = append(o.prop, mm(d, "corr", "ext-columns-unobservable", "correspondence of the extension", "hash preimage of a receiver output not recorded", false))
					return o
				}
				cols[j*L+l] = pre[len(pre)-16:]
			}
		}
		for i := range t0 {
			t0[i] = make([]byte, nb)
			for j := 0; j < eta; j++ {
				t0[i][j/8] |= getBit(cols[j], i) << (j % 8)
			}
			xz := append(repeatBits(x, L), make([]byte, 16)...)
			u := append(append([]byte{}, ob.r1.U[i][:eta/8]...), make([]byte, 16)...)
			t1[i] = xorBytes(xorBytes(u, t0[i]), xz)
		}
		ob.sigma = make([]byte, 16)
	}
	// recover chi from the honest response (X, T) by linear algebra over GF(2^128)
	m := eta / 128
	blockOf := func(row []byte, k int) *big.Int { return new(big.Int).SetBytes(row[k*16 : (k+1)*16]) }
	var chi []*big.Int
	if prgOK && len(ob.chi) == m {
		o.class += "+hooks"
		// the challenge itself, from the sender's accessor (no size limit)
		for k := range ob.chi {
			chi = append(chi, new(big.Int).SetBytes(ob.chi[k][:]))
		}
	} else if prgOK && m <= 120 {
		// trees without the accessor: recover it from the honest response by linear algebra
		A := make([][]*big.Int, 0, softspoken.Kappa+1)
		rhs := make([]*big.Int, 0, softspoken.Kappa+1)
		for i := 0; i < min(softspoken.Kappa, m+8); i++ {
			row := make([]*big.Int, m)
			for k := 0; k < m; k++ {
				row[k] = blockOf(t0[i], k)
			}
			A = append(A, row)
			rhs = append(rhs, new(big.Int).Xor(new(big.Int).SetBytes(hon.T[i][:]), blockOf(t0[i], m)))
		}
		chi = gfSolve(A, rhs, m)
	}
	if chi == nil {
		if prgOK {
			o.notes = append(o.notes, "challenge not available (tree without the VerifChallenge accessor and m > 120, or singular system) for "+d.text()+": tie restricted to recorded columns")
		}
		chi = make([]*big.Int, m)
		for k := range chi {
			chi[k] = new(big.Int).SetBytes(tr.Bytes(16))
		}
		prgOK = false
	}
	chiS := make([]string, m)
	for k := range chi {
		chiS[k] = vh.ZHex(chi[k])
	}
	line := fmt.Sprintf("E 0 L=%d XI=%d D=%s X=%s S=%s CHI=%s T0=%s T1=%s TAMPER=%s", L, xi, vh.Hex(sd.delta), vh.Hex(x), vh.Hex(ob.sigma),
		strings.Join(chiS, ","), hexRows(t0), hexRows(t1), strings.Join(tparts, ";"))
	o.lines = []string{line}
	propFailed := len(o.prop) > 0
	o.cmp = func(outs []string) []vh.Mismatch {
		var ms []vh.Mismatch
		kv := kvOf(outs[0])
		fail := func(key, what, detail string) {
			ms = append(ms, mm(d, "corr", key, what, detail, propFailed))
		}
		if prgOK {
			if kv["U"] != hexRows(ob.r1.U[:]) {
				fail("ext-u", "correspondence recv_u (u_i = t0_i xor t1_i xor x')", "model U differs from Round1P2P.U")
			}
			if kv["X"] != vh.Hex(hon.X[:]) {
				fail("ext-response-x", "correspondence compute_response (X)", "model "+kv["X"]+" impl "+vh.Hex(hon.X[:]))
			}
			tt := make([][]byte, len(hon.T))
			for i := range hon.T {
				tt[i] = hon.T[i][:]
			}
			if kv["T"] != hexRows(tt) {
				fail("ext-response-t", "correspondence compute_response (T)", "model T differs from ChallengeResponse.T")
			}
			if kv["OK"] != "1" {
				fail("ext-model-rejects-honest", "softspoken_check_complete on recorded data", "model verify rejects the honest response")
			}
			if kv["V"] != verdicts {
				fail("ext-tamper-verdicts", "correspondence verify (softspoken_check_T / softspoken_check_X)", "model "+kv["V"]+" impl "+verdicts+" for "+strings.Join(tparts, ";"))
			}
		}
		// columns: what the two sides hashed (first eta columns)
		rc := strings.Split(kv["RC"], ",")
		qc := strings.Split(kv["QC"], ",")
		for j := 0; j < xi && len(ms) < 3; j++ {
			for l := 0; l < L; l++ {
				idx := j*L + l
				if idx >= len(rc) || idx >= len(qc) {
					continue
				}
				// the hashed value must contain the model's column (its position in the framing is not compared)
				pre := preimageOf(ob.rlog, ob.rout.Messages[j][l])
				if pre != nil && !bytes.Contains(pre, vh.UnHex(rc[idx])) {
					fail("ext-recv-column", "correspondence transpose/recv_out (column j*L+l of t0)", fmt.Sprintf("j=%d l=%d model column %s not in the receiver's hash input", j, l, rc[idx]))
				}
				pre = preimageOf(ob.slog, ob.sout.Messages[j][0][l])
				if pre != nil && !bytes.Contains(pre, vh.UnHex(qc[idx])) {
					fail("ext-send-column", "correspondence send_q/transpose/send_out (column j*L+l of q)", fmt.Sprintf("j=%d l=%d model column %s not in the sender's hash input", j, l, qc[idx]))
				}
				pre1 := preimageOf(ob.slog, ob.sout.Messages[j][1][l])
				if pre1 != nil && !bytes.Contains(pre1, xorBytes(vh.UnHex(qc[idx]), sd.delta)) {
					fail("ext-send-column-delta", "correspondence send_out (second message hashes q^j xor Delta)", fmt.Sprintf("j=%d l=%d", j, l))
				}
			}
		}
		if kv["SEL"] != sel.String() {
			fail("ext-selection", "cot_correlation on recorded data (which sender message equals the receiver's)", "model pattern differs from implementation pattern")
		}
		return ms
	}
	return o
}

// ---- main -------------------------------------------------------------------------------------

func runOne(d desc) outcome {
	switch d.kind {
	case "bf":
		return runBF(d)
	case "ext":
		return runExt(d)
	case "vsot":
		return runVsot(d)
	case "ecb":
		return runEcb(d)
	case "rvb", "rvs":
		return runRvole(d)
	}
	return outcome{d: d, class: "unknown"}
}

func genCases(seed int64, tier string, search bool) []desc {
	var ds []desc
	n := 0
	add := func(kind string, kvs ...string) {
		n++
		ds = append(ds, newDesc(kind, append(kvs, "n", strconv.Itoa(n))...))
	}
	thorough := tier == "thorough" || search
	// bf128: boundary x boundary, then random
	r := vh.NewRng(seed, "C09", "bf", 0)
	bnd := []*big.Int{big.NewInt(0), big.NewInt(1), big.NewInt(2), big.NewInt(0x87), new(big.Int).Lsh(big.NewInt(1), 127),
		new(big.Int).Lsh(big.NewInt(1), 64), new(big.Int).Lsh(big.NewInt(1), 63), new(big.Int).Sub(new(big.Int).Lsh(big.NewInt(1), 128), big.NewInt(1)),
		new(big.Int).Sub(new(big.Int).Lsh(big.NewInt(1), 64), big.NewInt(1)), new(big.Int).Lsh(big.NewInt(1), 121), new(big.Int).Lsh(big.NewInt(3), 126)}
	for _, a := range bnd {
		for _, b := range bnd {
			add("bf", "a", vh.ZHex(a), "b", vh.ZHex(b))
		}
	}
	nbf := 300
	if thorough {
		nbf = 5000
	}
	for i := 0; i < nbf; i++ {
		a, b := r.BigBits(128), r.BigBits(128)
		if i%7 == 0 {
			a = new(big.Int).Lsh(big.NewInt(1), uint(r.Intn(128)))
		}
		if i%11 == 0 {
			b = new(big.Int).Lsh(r.BigBits(8), uint(r.Intn(121)))
		}
		add("bf", "a", vh.ZHex(a), "b", vh.ZHex(b))
	}
	// extension
	xis := []int{128, 256}
	Ls := []int{1, 2, 3}
	if thorough {
		xis = []int{128, 256, 512, 1024}
		Ls = []int{1, 2, 3, 4, 5, 8}
	}
	shapes := []string{"zero", "ones", "rand"}
	k := 0
	for _, xi := range xis {
		for _, L := range Ls {
			for _, xs := range shapes {
				k++
				tam := "sample"
				if k%6 == 1 || thorough {
					tam = "all"
				}
				add("ext", "xi", strconv.Itoa(xi), "L", strconv.Itoa(L), "delta", "rand", "x", xs, "src", "synth", "tamper", tam)
			}
			// boundary Deltas (Delta = 0: an altered X is NOT detected and the two sender messages coincide)
			for _, ds := range []string{"zero", "ones", "one"} {
				add("ext", "xi", strconv.Itoa(xi), "L", strconv.Itoa(L), "delta", ds, "x", "rand", "src", "synth", "tamper", "sample")
			}
		}
	}
	// sizes with m = xi*L/128 > 120 challenge blocks (the challenge comes from the tree's VerifChallenge accessor;
	// without it these cases only tie the hashed columns)
	// (thorough only: the list-based model needs ~10 s per such case)
	if thorough {
		add("ext", "xi", "2048", "L", "8", "delta", "rand", "x", "rand", "src", "synth", "tamper", "sample")
		add("ext", "xi", "4096", "L", "4", "delta", "rand", "x", "alt", "src", "synth", "tamper", "sample")
		add("ext", "xi", "2048", "L", "12", "delta", "one", "x", "rand", "src", "synth", "tamper", "sample")
		add("ext", "xi", "4096", "L", "8", "delta", "rand", "x", "rand", "src", "synth", "tamper", "all")
		add("ext", "xi", "1024", "L", "32", "delta", "zero", "x", "rand", "src", "synth", "tamper", "sample")
	}
	if thorough {
		for _, dsh := range []string{"rand", "zero", "one"} {
			add("ext", "xi", "256", "L", "2", "delta", dsh, "x", "rand", "src", "synth", "tamper", "bytes")
		}
	}
	// extension on real base-OT outputs, and the base OTs themselves
	curvesL := []string{"k256", "p256"}
	for _, c := range curvesL {
		add("ext", "xi", "128", "L", "2", "delta", "rand", "x", "rand", "src", "vsot-"+c, "tamper", "sample")
		add("ext", "xi", "256", "L", "1", "delta", "rand", "x", "alt", "src", "ecb-"+c, "tamper", "sample")
		for _, xs := range shapes {
			add("vsot", "curve", c, "xi", "128", "L", "1", "x", xs)
			add("ecb", "curve", c, "xi", "128", "L", "1", "x", xs)
		}
		// block lengths 1..4 with mixed choice vectors (index idx = i*L + j must be used consistently on both sides)
		for _, L := range []int{1, 2, 3, 4} {
			for _, xs := range []string{"rand", "alt"} {
				add("vsot", "curve", c, "xi", "16", "L", strconv.Itoa(L), "x", xs)
				add("ecb", "curve", c, "xi", "16", "L", strconv.Itoa(L), "x", xs)
			}
		}
		add("vsot", "curve", c, "xi", "8", "L", "3", "x", "one")
		add("ecb", "curve", c, "xi", "8", "L", "4", "x", "one")
		if thorough {
			for _, xs := range shapes {
				add("vsot", "curve", c, "xi", "256", "L", "2", "x", xs)
				add("ecb", "curve", c, "xi", "256", "L", "3", "x", xs)
			}
		}
	}
	// multiplication
	ds = append(ds, genRvole(thorough, &n)...)
	return ds
}

func main() {
	a := vh.ParseArgs()
	gSeed = a.Seed
	res := vh.NewResult("C09", a.Seed, a.Tier)
	res.Rule = "bf128: boundary^2 + random pairs; extension: xi x L x choice shape (zero/ones/rand) on synthetic seeds with random Delta, boundary Deltas (0, all-ones, one bit), and on seeds produced by real vsot/ecbbot runs (k256, p256), every T[i] and X altered (bit flips / random replacement); base OTs: xi x L x choice shape per curve; rvole bbot/softspoken: inputs 0,1,q-1,random, beta zero/random, alterations of ATilde/Eta/Mu. Non-trivial = the honest run completed so that outputs/verdicts were compared."
	var ds []desc
	if a.Replay != "" {
		b, err := os.ReadFile(a.Replay)
		if err != nil {
			fmt.Println("cannot read replay file:", err)
			os.Exit(2)
		}
		for _, line := range strings.Split(string(b), "\n") {
			if strings.HasPrefix(line, "case: ") {
				ds = append(ds, parseDesc(strings.TrimPrefix(line, "case: ")))
			}
		}
	} else {
		ds = genCases(a.Seed, a.Tier, a.Search)
	}
	var outs []outcome
	var lines []string
	timing := map[string]float64{}
	// cases are independent and every random choice derives from (seed, case text): run them on a small
	// worker pool, collect by index (deterministic result order)
	outs = make([]outcome, len(ds))
	durs := make([]float64, len(ds))
	var wg sync.WaitGroup
	next := make(chan int)
	workers := 8
	if n := runtime.NumCPU(); n < workers {
		workers = n
	}
	for w := 0; w < workers; w++ {
		wg.Add(1)
		go func() {
			defer wg.Done()
			for k := range next {
				d := ds[k]
				t0 := time.Now()
				var o outcome
				if p := vh.Safely(func() { o = runOne(d) }); p != "" {
					o = outcome{d: d, class: "harness-panic"}
					o.prop = append(o.prop, mm(d, "prop", "panic-"+d.kind, "no panic on valid inputs", p, true))
				}
				outs[k] = o
				durs[k] = time.Since(t0).Seconds()
			}
		}()
	}
	for k := range ds {
		next <- k
	}
	close(next)
	wg.Wait()
	for k, o := range outs {
		timing[ds[k].kind] += durs[k]
		lines = append(lines, o.lines...)
	}
	if os.Getenv("C09_TIMING") != "" {
		fmt.Fprintln(os.Stderr, "timing", timing)
	}
	if f := os.Getenv("C09_DUMP"); f != "" {
		os.WriteFile(f, []byte(strings.Join(lines, "\n")+"\n"), 0o644)
	}
	tdrv := time.Now()
	var mout []string
	if len(lines) > 0 {
		// the driver is a pure function of its input lines: evaluate contiguous chunks in parallel processes
		// (chunks balanced by input size), concatenate in order
		nchunk := workers
		total := 0
		for _, l := range lines {
			total += len(l) + 1
		}
		var chunks [][]string
		acc, start := 0, 0
		for i, l := range lines {
			acc += len(l) + 1
			if acc >= total/nchunk || i == len(lines)-1 {
				chunks = append(chunks, lines[start:i+1])
				start, acc = i+1, 0
			}
		}
		couts := make([][]string, len(chunks))
		cerrs := make([]error, len(chunks))
		var dwg sync.WaitGroup
		for k := range chunks {
			dwg.Add(1)
			go func(k int) {
				defer dwg.Done()
				couts[k], cerrs[k] = vh.Driver(a.Driver, chunks[k])
			}(k)
		}
		dwg.Wait()
		var err error
		for k := range chunks {
			if cerrs[k] != nil {
				err = cerrs[k]
				break
			}
			mout = append(mout, couts[k]...)
		}
		if err != nil {
			res.Mismatch(vh.Mismatch{ID: "driver", Kind: "corr", Key: "model-driver-failed", Detail: err.Error(), Case: "(all)", What: "model driver"})
			mout = nil
		}
	}
	if os.Getenv("C09_TIMING") != "" {
		fmt.Fprintln(os.Stderr, "driver", time.Since(tdrv).Seconds())
	}
	pos := 0
	for _, o := range outs {
		res.Count(o.class, o.d.text(), o.nontrivial)
		for _, m := range o.prop {
			res.Mismatch(m)
		}
		for _, n := range o.notes {
			res.Note("%s", n)
		}
		if o.cmp != nil && mout != nil {
			for _, m := range o.cmp(mout[pos : pos+len(o.lines)]) {
				res.Mismatch(m)
			}
		}
		pos += len(o.lines)
	}
	res.Write(a.Out)
}
