package main

// tie.go — (i) offset tie and (ii) draw count against the extracted Coq model
// (coq/model/Draws.v): the model's `draws` table says, per protocol, configuration and
// round, which sites are drawn in which order with how many bytes; the model's
// `party_values` lays the draws out over the bytes the tape served in that round and samples
// them; the harness compares read for read and field for field.

import (
	"bytes"
	"fmt"
	"math/big"
	"strconv"
	"strings"

	"github.com/bronlabs/bron-crypto/pkg/mpc/sharing"

	"verif/harness/internal/drive"
	"verif/harness/internal/vh"
)

// field is one randomised field of a wire message together with the draw the specification
// says it comes from.
type field struct {
	Party     sharing.ID
	Round     int    // round of the message that carries it
	Name      string // "<proto>/r<round><b|u<k>>.<path>"
	Kind      string // "point" (k·G of the sampled scalar) | "raw" (the bytes read) | "commit" (a hash commitment: no tie, freshness only)
	DrawRound int    // tape tag r<DrawRound> of the draw
	Site      string // "<site>.<idx>" in the model's draws of that round
	Got       []byte // the field as sent (nil: not found)
	Nonce     bool   // nonce commitment / nonce point: must not repeat across sessions
}

var cb = "compressedBytes"

func vvPath(prefix []string, k int) []string {
	p := append([]string{}, prefix...)
	return append(p, "verification_vector", "data", "#"+strconv.Itoa(k), cb)
}

type fdef struct {
	round     int
	peer      int // -1 broadcast, else the k-th peer (ascending ids without the sender)
	path      []string
	kind      string
	drawRound int
	site      string
	nonce     bool
}

func fieldDefs(p protoSpec, n, d, pos int) []fdef {
	var out []fdef
	add := func(round, peer int, kind string, drawRound int, site string, nonce bool, path ...string) {
		out = append(out, fdef{round, peer, path, kind, drawRound, site, nonce})
	}
	switch p.Family {
	case "session":
		add(1, -1, "raw", 1, "commitkey.0", false, "Ck")
		add(1, -1, "commit", 0, "", false, "CommonCommitment")
		add(2, -1, "raw", 1, "contribution.0", false, "CommonContribution")
		add(2, -1, "raw", 1, "witness.0", false, "CommonContributionWitness")
		for k := 0; k < n-1; k++ {
			add(2, k, "commit", 0, "", false, "PairwiseContributionCommitment")
			add(3, k, "raw", 2, fmt.Sprintf("paircontribution.%d", k), false, "PairwiseContribution")
			add(3, k, "raw", 2, fmt.Sprintf("witness.%d", k+1), false, "PairwiseContributionWitness")
		}
	case "gennaro":
		add(2, -1, "point", 1, "secret.0", false, vvPath([]string{"verificationVector"}, 0)...)
		for k := 1; k < d; k++ {
			add(2, -1, "point", 1, fmt.Sprintf("coeff.%d", k), false, vvPath([]string{"verificationVector"}, k)...)
		}
		// round 1 (Pedersen vector a_k·G + b_k·H): compared across paired runs, tied through round 2
		for k := 0; k < d; k++ {
			add(1, -1, "commit", 0, "", false, vvPath([]string{"verificationVector"}, k)...)
		}
	case "canetti":
		add(1, -1, "commit", 0, "", false, "V")
		add(2, -1, "point", 1, "secret.0", false, vvPath([]string{"Message", "X"}, 0)...)
		for k := 1; k < d; k++ {
			add(2, -1, "point", 1, fmt.Sprintf("coeff.%d", k), false, vvPath([]string{"Message", "X"}, k)...)
		}
		add(2, -1, "raw", 1, "rho.0", false, "Message", "Rho")
		add(2, -1, "point", 1, "proofnonce.0", false, "Message", "A", "a", cb)
		add(2, -1, "raw", 1, "witness.0", false, "U")
	case "hjky":
		for k := 1; k < d; k++ {
			add(1, -1, "point", 1, fmt.Sprintf("zerocoeff.%d", k), false, vvPath([]string{"verificationVector"}, k)...)
		}
	case "redistribute":
		for k := 1; k < n; k++ {
			add(1, -1, "point", 1, fmt.Sprintf("zerocoeff.%d", k), false, vvPath([]string{"ZeroR1", "verificationVector"}, k)...)
		}
		for k := 1; k < d; k++ {
			add(2, -1, "point", 2, fmt.Sprintf("nextcoeff.%d", k), false, vvPath([]string{"NextVerificationVectorContribution"}, k)...)
		}
	case "dkls23-bbot":
		add(1, -1, "commit", 0, "", true, "bigRCommitment")
		for k := 0; k < n-1; k++ {
			add(1, k, "point", 1, fmt.Sprintf("otsender.%d", k), false, "mulR1", "OtR1", "ms", cb)
		}
		add(2, -1, "point", 1, "nonce.0", true, "bigR", cb)
		add(2, -1, "raw", 1, "witness.0", false, "bigRWitness")
	case "dkls23-softspoken":
		for k := 0; k < n-1; k++ {
			add(1, k, "point", 1, fmt.Sprintf("otsender.%d", k), false, "otR1", "ms", cb)
		}
		add(3, -1, "commit", 0, "", true, "bigRCommitment")
		add(4, -1, "point", 3, "nonce.0", true, "bigR", cb)
		add(4, -1, "raw", 3, "witness.0", false, "bigRWitness")
	case "lindell22":
		add(1, -1, "commit", 0, "", true, "bigRCommitment")
		for k := 1; k < n; k++ {
			add(1, -1, "point", 1, fmt.Sprintf("zerocoeff.%d", k), false, vvPath([]string{"zeroR1", "verificationVector"}, k)...)
		}
		add(2, -1, "point", 1, "nonce.0", true, "bigR", "x", cb)
		add(2, -1, "raw", 1, "witness.0", false, "bigROpening")
	case "ot":
		if pos == 0 {
			add(1, 0, "point", 1, "otsender.0", false, "ms", cb)
		}
	case "vole":
		if pos == 0 {
			add(1, 0, "point", 1, "otsender.0", false, "OtR1", "ms", cb)
		}
	case "otext":
		if pos == 0 {
			// the sigma mask block of x' (recovered from u_i and the public seed expansions) is the 16 bytes drawn
			add(1, 0, "raw", 1, "extseed.0", false, "@sigma-mask.first")
			add(1, 0, "raw", 1, "extseed.0", false, "@sigma-mask.last")
		}
	case "lindell17":
		if pos == 0 {
			add(1, 0, "commit", 0, "", true, "bigR1Commitment")
			add(3, 0, "point", 1, "nonce.0", true, "bigR1", cb)
			add(3, 0, "raw", 1, "witness.0", false, "bigR1Opening")
		} else {
			add(2, 0, "point", 2, "nonce.0", true, "bigR2", cb)
		}
	}
	return out
}

func peersOf(ids []sharing.ID, self sharing.ID) []sharing.ID {
	var out []sharing.ID
	for _, id := range ids {
		if id != self {
			out = append(out, id)
		}
	}
	return out
}

// fieldsOf extracts the randomised fields of every party's messages (wire image only).
func fieldsOf(p protoSpec, o *obs) []field {
	if o.fields != nil {
		return o.fields
	}
	out := []field{}
	for pos, id := range o.IDs {
		peers := peersOf(o.IDs, id)
		for _, d := range fieldDefs(p, len(o.IDs), p.D, pos) {
			to := sharing.ID(0)
			tag := "b"
			if d.peer >= 0 {
				if d.peer >= len(peers) {
					continue
				}
				to = peers[d.peer]
				tag = fmt.Sprintf("u%d", d.peer)
			}
			f := field{Party: id, Round: d.round, Kind: d.kind, DrawRound: d.drawRound, Site: d.site, Nonce: d.nonce,
				Name: fmt.Sprintf("%s/r%d%s.%s", p.Name, d.round, tag, strings.Join(d.path, "."))}
			if len(d.path) == 1 && strings.HasPrefix(d.path[0], "@") {
				f.Got = o.Derived[d.path[0][1:]]
			} else if m := o.msg(d.round, id, to); m != nil {
				if b, ok := bytesAt(o.decoded(m), d.path...); ok {
					f.Got = b
				}
			}
			out = append(out, f)
		}
	}
	o.fields = out
	return out
}

// ---- model configuration -----------------------------------------------------------------

type mcfg struct {
	fam                       string
	n, d, w, xi, l, rho, pail int
}

func (m mcfg) args() string {
	return fmt.Sprintf("%d %d %d %d %d %d %d", m.n, m.d, m.w, m.xi, m.l, m.rho, m.pail)
}

func lenAt(v any, path ...string) int {
	if l, ok := listAt(v, path...); ok {
		return len(l)
	}
	return 0
}

// modelCfg derives the model configuration of party `pos` from public data of the run:
// number of parties, threshold, field size, and the batch sizes visible in the wire shapes.
func modelCfg(p protoSpec, o *obs, pos int) mcfg {
	m := mcfg{fam: p.Family, n: len(o.IDs), d: p.D}
	bits := 256
	if o.Order != nil {
		bits = o.Order.BitLen()
	}
	m.w = (bits + 128 + 7) / 8
	id := o.IDs[pos]
	peers := peersOf(o.IDs, id)
	switch p.Family {
	case "canetti":
		if msg := o.msg(2, id, 0); msg != nil {
			if b, ok := bytesAt(o.decoded(msg), "Message", "Rho"); ok {
				m.rho = len(b)
			}
		}
	case "dkls23-bbot":
		if msg := o.msg(2, id, peers[0]); msg != nil {
			v := o.decoded(msg)
			m.xi = lenAt(v, "mulR2", "OtR2", "phi")
			m.l = lenAt(v, "mulR2", "OtR2", "phi", "#0", "#0")
		}
		if msg := o.msg(3, id, peers[0]); msg != nil {
			m.rho = lenAt(o.decoded(msg), "mulR3", "eta")
		}
	case "dkls23-softspoken":
		if msg := o.msg(2, id, peers[0]); msg != nil {
			v := o.decoded(msg)
			m.xi = lenAt(v, "otR2", "phi")
			m.l = lenAt(v, "otR2", "phi", "#0", "#0")
		}
		if msg := o.msg(4, id, peers[0]); msg != nil {
			m.rho = lenAt(o.decoded(msg), "mulR2", "Eta")
		}
	case "ot":
		if msg := o.msg(2, o.IDs[1], o.IDs[0]); msg != nil {
			v := o.decoded(msg)
			m.xi = lenAt(v, "phi")
			m.l = lenAt(v, "phi", "#0", "#0")
		}
		m.fam = []string{"ot-sender", "ot-receiver"}[pos]
	case "vole":
		if msg := o.msg(2, o.IDs[1], o.IDs[0]); msg != nil {
			v := o.decoded(msg)
			m.xi = lenAt(v, "OtR2", "phi")
			m.l = lenAt(v, "OtR2", "phi", "#0", "#0")
		}
		if msg := o.msg(3, o.IDs[0], o.IDs[1]); msg != nil {
			m.rho = lenAt(o.decoded(msg), "eta")
		}
		m.fam = []string{"vole-alice", "vole-bob"}[pos]
	case "otext":
		m.fam = []string{"otext-receiver", "otext-sender"}[pos]
	case "lindell17":
		m.rho = 16 // repetitions of the Fischlin compiler (fischlin: rho = 16 parallel Schnorr commitments)
		m.pail = 384
		if s := o.Extra["paillier-bytes"]; s != "" {
			m.pail, _ = strconv.Atoi(s)
		}
		if pos == 0 {
			m.fam = "lindell17-primary"
		} else {
			m.fam = "lindell17-secondary"
		}
	}
	return m
}

// ---- the tie ---------------------------------------------------------------------------------

type drawRow struct {
	site   string // "<site>.<idx>"
	scalar bool
	retry  bool // rejection sampled: the specified count is a minimum
	drop   bool // discarded by design (column entry 0 overwritten)
	n      int
}

func parseRows(s string) ([]drawRow, error) {
	if s == "-" {
		return nil, nil
	}
	var out []drawRow
	for _, part := range strings.Split(s, ",") {
		star := strings.LastIndexByte(part, '*')
		if star < 0 {
			return nil, fmt.Errorf("bad row %q", part)
		}
		cnt, err := strconv.Atoi(part[star+1:])
		if err != nil {
			return nil, err
		}
		f := strings.Split(part[:star], ":")
		if len(f) != 3 {
			return nil, fmt.Errorf("bad row %q", part)
		}
		n, err := strconv.Atoi(f[2])
		if err != nil {
			return nil, err
		}
		for i := 0; i < cnt; i++ {
			out = append(out, drawRow{site: f[0], scalar: strings.HasPrefix(f[1], "s"), retry: strings.Contains(f[1], "!"), drop: strings.Contains(f[1], "~"), n: n})
		}
	}
	return out, nil
}

func tagRound(tag string) int {
	if strings.HasPrefix(tag, "r") {
		if n, err := strconv.Atoi(tag[1:]); err == nil {
			return n
		}
	}
	return 0 // "new", "r0"
}

// readsByRound groups the indices of a tape's reads by round.
func readsByRound(t *drive.Tape) (map[int][]int, int) {
	out := map[int][]int{}
	max := 0
	for i, r := range t.Reads {
		k := tagRound(r.Tag)
		out[k] = append(out[k], i)
		if k > max {
			max = k
		}
	}
	return out, max
}

func rle(ns []int) string {
	var parts []string
	for i := 0; i < len(ns); {
		j := i
		for j < len(ns) && ns[j] == ns[i] {
			j++
		}
		parts = append(parts, fmt.Sprintf("%dx%d", ns[i], j-i))
		i = j
	}
	return strings.Join(parts, " ")
}

// readsMatch compares the observed read sizes with the specified draws; a block of rejection
// sampled draws matches a block of at least as many reads of the same size.
func readsMatch(rows []drawRow, obs []int) bool {
	i := 0
	for k := 0; k < len(rows); {
		e := k
		for e < len(rows) && rows[e].n == rows[k].n && rows[e].retry == rows[k].retry {
			e++
		}
		cnt := e - k
		got := 0
		if rows[k].retry {
			for i < len(obs) && obs[i] == rows[k].n {
				i++
				got++
			}
			if got < cnt {
				return false
			}
		} else {
			for got < cnt && i < len(obs) && obs[i] == rows[k].n {
				i++
				got++
			}
			if got != cnt {
				return false
			}
		}
		k = e
	}
	return i == len(obs)
}

// bytesMatch: the same for a source with short reads (only the byte total is comparable).
func bytesMatch(rows []drawRow, total int) bool {
	want, retry := 0, 0
	for _, r := range rows {
		want += r.n
		if r.retry {
			retry = r.n
		}
	}
	if retry == 0 {
		return total == want
	}
	return total >= want && (total-want)%retry == 0
}

func leModQ(b []byte, q *big.Int) *big.Int {
	be := make([]byte, len(b))
	for i := range b {
		be[len(b)-1-i] = b[i]
	}
	return new(big.Int).Mod(new(big.Int).SetBytes(be), q)
}

func (c *checker) tie(p protoSpec, seed int64, j sharing.ID, lab string, o *obs) {
	if c.a.Driver == "" {
		return
	}
	kase := caseTextC(p.Name, seed, j, lab, o.Chunk)
	keyp := p.Name
	if o.Chunk > 0 {
		keyp += "-stingy"
	}
	fields := fieldsOf(p, o)
	var lines []string
	var after []func(out string)
	ask := func(line string, f func(out string)) {
		lines = append(lines, line)
		after = append(after, f)
	}
	qhex := "0"
	if o.Order != nil {
		qhex = vh.ZHex(o.Order)
	}
	// model scalars per party and site (filled by the P lines), for the joint tie
	scal := map[sharing.ID]map[string]*big.Int{}
	for pos, id := range o.IDs {
		id := id
		t := o.Tr.Tapes[id]
		if t == nil {
			continue
		}
		cfg := modelCfg(p, o, pos)
		byRound, maxRound := readsByRound(t)
		scal[id] = map[string]*big.Int{}
		specText := []string{}
		for r := 0; r <= maxRound+1; r++ {
			r := r
			idx := byRound[r]
			obsN := make([]int, len(idx))
			total, over := 0, 0
			for i, k := range idx {
				obsN[i] = t.Reads[k].N
				total += obsN[i]
				if o.Chunk > 0 && obsN[i] > o.Chunk {
					over++
				}
			}
			if len(obsN) > 0 {
				specText = append(specText, fmt.Sprintf("r%d: %s", r, rle(obsN)))
			}
			// the bytes the tape served in this round (the byte log; read boundaries do not matter)
			start := 0
			if len(idx) > 0 {
				start = t.Reads[idx[0]].Off
			}
			served := t.Bytes[start : start+total]
			var rows []drawRow
			// (ii) draw count
			ask(fmt.Sprintf("D %s %d %s", cfg.fam, r, cfg.args()), func(out string) {
				var err error
				rows, err = parseRows(out)
				if err != nil {
					c.mismatch("corr", p.Name+"-model-output", "model: "+err.Error()+" in "+out, kase, "C07 draws table", false)
					return
				}
				want := make([]int, len(rows))
				wantTotal := 0
				for i := range rows {
					want[i] = rows[i].n
					wantTotal += rows[i].n
				}
				what := "C07 (ii) draw count = draws table (coq/model/Draws.v draws)"
				if o.Chunk == 0 {
					if !readsMatch(rows, obsN) {
						c.mismatch("corr", fmt.Sprintf("%s-draw-count", keyp),
							fmt.Sprintf("party %d round %d: the tape served reads of [%s] bytes, the draw specification (%s %s) says [%s]", uint64(id), r, rle(obsN), cfg.fam, cfg.args(), rle(want)),
							kase, what, false)
						// the offset tie below is still evaluated against the specified offsets
					}
				} else {
					// a source that serves at most Chunk bytes per Read: the same bytes must be drawn in total
					if !bytesMatch(rows, total) {
						c.mismatch("corr", fmt.Sprintf("%s-draw-count", keyp),
							fmt.Sprintf("party %d round %d: a source serving at most %d bytes per Read served %d bytes in %d reads, the draw specification (%s %s) says %d bytes [%s] (a Read whose count is ignored leaves the rest of the value undrawn)", uint64(id), r, o.Chunk, total, len(obsN), cfg.fam, cfg.args(), wantTotal, rle(want)),
							kase, what, false)
					}
					if over > 0 {
						c.mismatch("corr", "harness-chunk", fmt.Sprintf("%d reads exceed the chunk size %d", over, o.Chunk), kase, "C07 harness", false)
					}
				}
				c.res.Count(keyp+"/draws", fmt.Sprintf("%s party=%d round=%d", kase, uint64(id), r), len(obsN) > 0)
			})
			// (i) offset tie for the rounds that carry tied fields
			need := false
			for _, f := range fields {
				if f.Party == id && f.DrawRound == r && f.Kind != "commit" {
					need = true
				}
			}
			if !need {
				continue
			}
			tape := served
			if len(tape) > 8192 { // the tied fields are drawn first in every round
				tape = tape[:8192]
			}
			ask(fmt.Sprintf("P %s %s %d %s %s", qhex, cfg.fam, r, cfg.args(), vh.Hex(tape)), func(out string) {
				if rows == nil {
					return
				}
				vals := strings.Split(out, ",")
				for _, f := range fields {
					if f.Party != id || f.DrawRound != r || f.Kind == "commit" {
						continue
					}
					what := "C07 (i) offset tie: field = model sample of the bytes served at the specified offset (sample_depends_on_tape / first_msg_injective)"
					k, off := -1, 0
					for i := range rows {
						if rows[i].site == f.Site {
							k = i
							break
						}
						off += rows[i].n
					}
					if k < 0 || k >= len(vals) {
						c.mismatch("corr", keyp+"-offset-tie", fmt.Sprintf("site %s of field %s is not in the draw specification of round %d", f.Site, f.Name, r), kase, what, false)
						continue
					}
					if f.Got == nil {
						c.mismatch("corr", keyp+"-offset-tie", fmt.Sprintf("field %s of party %d not found on the wire", f.Name, uint64(id)), kase, what, false)
						continue
					}
					n := rows[k].n
					if off+n > len(served) {
						// the value cannot come from the specified bytes: the tape never served them
						c.mismatch("corr", keyp+"-offset-tie", fmt.Sprintf("party %d: field %s = %s is specified to come from site %s = bytes [%d,%d) of round %d, but the party's tape served only %d bytes in that round", uint64(id), f.Name, vh.Hex(f.Got), f.Site, off, off+n, r, len(served)), kase, what, true)
						continue
					}
					if off+n > len(tape) {
						continue
					}
					read := served[off : off+n]
					var modelWant, goWant []byte
					switch f.Kind {
					case "point":
						if !strings.HasPrefix(vals[k], "s:") || o.BaseMul == nil {
							c.mismatch("corr", keyp+"-offset-tie", fmt.Sprintf("model value %q for point field %s", vals[k], f.Name), kase, what, false)
							continue
						}
						ms := vh.UnZHex(vals[k][2:])
						scal[id][f.Site] = ms
						modelWant = o.BaseMul(ms)
						goWant = o.BaseMul(leModQ(read, o.Order))
					case "raw":
						if !strings.HasPrefix(vals[k], "r:") {
							c.mismatch("corr", keyp+"-offset-tie", fmt.Sprintf("model value %q for raw field %s", vals[k], f.Name), kase, what, false)
							continue
						}
						modelWant = vh.UnHex(vals[k][2:])
						goWant = read
					}
					okModel, okGo := bytes.Equal(modelWant, f.Got), bytes.Equal(goWant, f.Got)
					if !okModel || !okGo {
						c.mismatch("corr", keyp+"-offset-tie",
							fmt.Sprintf("party %d: %s = %s, but the value drawn at site %s (draw %d of round %d: %d bytes at offset %d of the bytes served in that round, %d bytes per Read at most) gives %s (model) / %s (recomputed)", uint64(id), f.Name, vh.Hex(f.Got), f.Site, k, r, n, off, o.Chunk, vh.Hex(modelWant), vh.Hex(goWant)),
							kase, what, !okGo)
					}
					c.res.Count(keyp+"/field", fmt.Sprintf("%s %s party=%d", kase, f.Name, uint64(id)), true)
				}
			})
		}
		if o.Chunk == 0 {
			key := fmt.Sprintf("%s (%s %s) pos=%d", p.Name, cfg.fam, cfg.args(), pos)
			if _, ok := c.specs[key]; !ok {
				c.specs[key] = strings.Join(specText, "; ")
			}
		}
	}
	outs, err := vh.Driver(c.a.Driver, lines)
	if err != nil {
		c.mismatch("corr", "model-driver-failed", err.Error(), kase, "C07 model driver", false)
		return
	}
	for i, f := range after {
		f(outs[i])
	}
	c.jointTie(p, kase, o, scal, qhex)
}

// jointTie: the joint value equals the model's combination of the parties' samples, in the exponent.
func (c *checker) jointTie(p protoSpec, kase string, o *obs, scal map[sharing.ID]map[string]*big.Int, qhex string) {
	what := "C07 joint value = combination of the parties' samples (joint_value_depends)"
	keyp := p.Name
	if o.Chunk > 0 {
		keyp += "-stingy"
	}
	collect := func(site string) ([]string, bool) {
		var ks []string
		for _, id := range o.IDs {
			k, ok := scal[id][site]
			if !ok {
				return nil, false
			}
			ks = append(ks, vh.ZHex(k))
		}
		return ks, true
	}
	type jt struct {
		op, site string
		check    func(k *big.Int) (string, string) // got, want
	}
	var ties []jt
	joint := func(name string) string {
		for _, j := range o.Joint {
			if j.K == name {
				return j.V
			}
		}
		return ""
	}
	xModQ := func(k *big.Int) string {
		x := o.BaseX(k)
		if x == nil {
			return "inf"
		}
		return vh.ZHex(new(big.Int).Mod(x, o.Order))
	}
	switch p.Family {
	case "gennaro", "canetti":
		ties = append(ties, jt{"sum", "secret.0", func(k *big.Int) (string, string) { return joint("pk"), vh.Hex(o.BaseMul(k)) }})
	case "hjky":
		vv := strings.Split(joint("vv"), ",")
		for k := 1; k < len(vv); k++ {
			k := k
			ties = append(ties, jt{"sum", fmt.Sprintf("zerocoeff.%d", k), func(s *big.Int) (string, string) { return vv[k], vh.Hex(o.BaseMul(s)) }})
		}
	case "redistribute":
		vv := strings.Split(joint("vv-tail"), ",")
		for k := 1; k <= len(vv); k++ {
			k := k
			ties = append(ties, jt{"sum", fmt.Sprintf("nextcoeff.%d", k), func(s *big.Int) (string, string) { return vv[k-1], vh.Hex(o.BaseMul(s)) }})
		}
	case "dkls23-bbot", "dkls23-softspoken":
		ties = append(ties, jt{"sum", "nonce.0", func(k *big.Int) (string, string) { return joint("r"), xModQ(k) }})
	case "lindell22":
		ties = append(ties, jt{"sum", "nonce.0", func(k *big.Int) (string, string) {
			x := o.BaseX(k)
			if x == nil {
				return o.Extra["Rx"], "inf"
			}
			return o.Extra["Rx"], vh.ZHex(x)
		}})
	case "lindell17":
		ties = append(ties, jt{"prod", "nonce.0", func(k *big.Int) (string, string) { return joint("r"), xModQ(k) }})
	}
	var lines []string
	var use []jt
	for _, t := range ties {
		ks, ok := collect(t.site)
		if !ok {
			continue
		}
		lines = append(lines, fmt.Sprintf("J %s %s %s", t.op, qhex, strings.Join(ks, " ")))
		use = append(use, t)
	}
	if len(lines) == 0 {
		return
	}
	outs, err := vh.Driver(c.a.Driver, lines)
	if err != nil {
		c.mismatch("corr", "model-driver-failed", err.Error(), kase, "C07 model driver", false)
		return
	}
	for i, t := range use {
		got, want := t.check(vh.UnZHex(outs[i]))
		if got != want {
			c.mismatch("corr", keyp+"-joint-tie", fmt.Sprintf("joint value %s, but the %s of the parties' %s samples gives %s", got, t.op, t.site, want), kase, what, false)
		}
		c.res.Count(p.Name+"/joint", kase+" "+t.site, true)
	}
}

func (c *checker) runModel() {}
