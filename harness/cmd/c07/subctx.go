package main

// subctx.go — the sub-context family.  The signing protocols re-randomise key shares with
// PRZS zero shares (przs.SampleZeroShare) drawn from the pairwise seeds of a session context
// restricted to the signing sub-quorum (session.Context.SubContext).  C07 names zero shares
// among the joint values: they must depend on every member's random stream and must not repeat
// across sessions.  After the real session setup (one recording tape per party) this family
// derives, for every party and several sub-quorums (sizes 2, 3, n-1), the sub-context the way
// the signing protocols do and observes
//   - the first 32 bytes of every peer seed of the sub-context,
//   - the member's PRZS zero share over the k256 curve and over its scalar field,
//   - the zero-shifted public value (c_i + zeta_i)·G a signing party would broadcast (DKLs23 pk_i),
// and compares them between paired runs (exactly one party's tape changed, every position) and
// across a sequence of sessions.  Everything here is a predicate on the implementation alone.

import (
	"fmt"
	"math/big"
	"sort"
	"strings"

	"github.com/bronlabs/bron-crypto/pkg/base/curves/k256"
	"github.com/bronlabs/bron-crypto/pkg/base/datastructures/hashset"
	rsess "github.com/bronlabs/bron-crypto/pkg/mpc/session"
	"github.com/bronlabs/bron-crypto/pkg/mpc/sharing"
	"github.com/bronlabs/bron-crypto/pkg/mpc/zero/przs"

	dsess "verif/harness/internal/drive/session"
	"verif/harness/internal/vh"
)

// subObs: observable name -> hex, for one session run.  Names are
// "<quorum>|<member>|seed:<peer>", "<quorum>|<member>|zs-curve", "|zs-field", "|shifted".
type subObs struct {
	err  string
	vals map[string]string
	keys []string // insertion order
}

func (s *subObs) put(k, v string) {
	if _, ok := s.vals[k]; !ok {
		s.keys = append(s.keys, k)
	}
	s.vals[k] = v
}

func subsets(ids []sharing.ID, size int) [][]sharing.ID {
	var out [][]sharing.ID
	var rec func(start int, cur []sharing.ID)
	rec = func(start int, cur []sharing.ID) {
		if len(cur) == size {
			out = append(out, append([]sharing.ID(nil), cur...))
			return
		}
		for i := start; i < len(ids); i++ {
			rec(i+1, append(cur, ids[i]))
		}
	}
	rec(0, nil)
	return out
}

func subQuorums(ids []sharing.ID) [][]sharing.ID {
	sizes := map[int]bool{2: true, 3: true, len(ids) - 1: true}
	var out [][]sharing.ID
	for sz := 2; sz <= len(ids); sz++ {
		if sizes[sz] {
			out = append(out, subsets(ids, sz)...)
		}
	}
	return out
}

func qText(q []sharing.ID) string {
	p := make([]string, len(q))
	for i, id := range q {
		p[i] = fmt.Sprint(uint64(id))
	}
	return "{" + strings.Join(p, ",") + "}"
}

func runSubctx(seed int64, n int, labels map[sharing.ID]string) *subObs {
	o := &subObs{vals: map[string]string{}}
	ids := idsN(n)
	res := dsess.RunFull(dsess.Config{Seed: seed, Prop: prop + "-subctx", Quorum: ids, Labels: labels})
	for _, id := range ids {
		if v := res.Trace.Verdicts[id]; v.Class != "ok" || res.Ctx[id] == nil {
			o.err = fmt.Sprintf("session setup: party %d %s (%s)", uint64(id), v.Class, v.Detail)
			return o
		}
	}
	curve := k256.NewCurve()
	field := k256.NewScalarField()
	for _, q := range subQuorums(ids) {
		qt := qText(q)
		for _, me := range q {
			name := fmt.Sprintf("%s|%d|", qt, uint64(me))
			var sub *rsess.Context
			var err error
			if p := vh.Safely(func() { sub, err = res.Ctx[me].Clone().SubContext(hashset.NewComparable(q...).Freeze()) }); p != "" || err != nil || sub == nil {
				o.err = fmt.Sprintf("SubContext(%s) of party %d failed: %v %s", qt, uint64(me), err, p)
				return o
			}
			seeds := sub.Seeds()
			peers := make([]sharing.ID, 0, len(seeds))
			for id := range seeds {
				peers = append(peers, id)
			}
			sort.Slice(peers, func(i, j int) bool { return peers[i] < peers[j] })
			for _, peer := range peers {
				buf := make([]byte, 32)
				if _, err := seeds[peer].Read(buf); err != nil {
					o.err = "seed read: " + err.Error()
					return o
				}
				o.put(fmt.Sprintf("%sseed:%d", name, uint64(peer)), vh.Hex(buf))
			}
			if p := vh.Safely(func() {
				zc, err := przs.SampleZeroShare(sub, curve)
				if err != nil {
					o.err = "SampleZeroShare(curve): " + err.Error()
					return
				}
				o.put(name+"zs-curve", vh.Hex(zc.Value().ToCompressed()))
				zf, err := przs.SampleZeroShare(sub, field)
				if err != nil {
					o.err = "SampleZeroShare(field): " + err.Error()
					return
				}
				o.put(name+"zs-field", vh.Hex(zf.Value().Bytes()))
				// what a signing party broadcasts: (c_i + zeta_i)·G for its (here: fixed) additive key share c_i
				ci, err := field.FromWideBytes(big.NewInt(int64(1000 + uint64(me))).Bytes())
				if err != nil {
					o.err = err.Error()
					return
				}
				o.put(name+"shifted", vh.Hex(curve.ScalarBaseMul(ci.Add(zf.Value())).ToCompressed()))
			}); p != "" {
				o.err = "zero share panicked: " + p
			}
			if o.err != "" {
				return o
			}
		}
	}
	return o
}

func memberOf(name string, j sharing.ID) bool {
	q := name[1:strings.IndexByte(name, '}')]
	for _, s := range strings.Split(q, ",") {
		if s == fmt.Sprint(uint64(j)) {
			return true
		}
	}
	return false
}

func (c *checker) subctxFamily(seed int64) {
	n, nSess := 4, 3
	if c.a.Tier == "thorough" || c.a.Search {
		n, nSess = 5, 10
	}
	ids := idsN(n)
	what := "C07 (iii)/(iv) zero shares and sub-context seeds depend on every member's tape and are fresh across sessions (joint_value_depends: zero_share / sub_seed_term)"
	kase0 := fmt.Sprintf("subctx seed=%d n=%d", seed, n)
	var A *subObs
	if p := vh.Safely(func() { A = runSubctx(seed, n, nil) }); p != "" {
		c.mismatch("prop", "subctx-panic", p, kase0, what, false)
		return
	}
	if A.err != "" {
		c.mismatch("corr", "subctx-run-failed", A.err, kase0, what, false)
		return
	}
	c.res.Count("subctx/base", kase0, true)
	kind := func(name string) string { return name[strings.LastIndexByte(name, '|')+1:] }
	// within one run: distinct pairs have distinct seeds, no zero share is the identity
	seen := map[string]string{}
	for _, k := range A.keys {
		v := A.vals[k]
		switch {
		case strings.HasPrefix(kind(k), "seed:"):
			// the same pair is seen from both ends (and that is the only legitimate repetition)
			f := strings.Split(k, "|")
			a, b := f[1], strings.TrimPrefix(f[2], "seed:")
			if a > b {
				a, b = b, a
			}
			pair := f[0] + "|" + a + "-" + b
			if prev, ok := seen[v]; ok && prev != pair {
				c.mismatch("prop", "subctx-seed-coincide", fmt.Sprintf("the sub-context seeds of %s and %s coincide (%s): they do not depend on the pair's parent seed", prev, pair, v), kase0, what, true)
			}
			seen[v] = pair
		case kind(k) == "zs-field":
			if strings.Trim(v, "0") == "" {
				c.mismatch("prop", "subctx-zero-share-degenerate", fmt.Sprintf("zero share %s is 0", k), kase0, what, true)
			}
		}
	}
	// (iii) paired runs, every party position
	for _, j := range ids {
		kase := fmt.Sprintf("%s party=%d label=b", kase0, uint64(j))
		var B *subObs
		if p := vh.Safely(func() { B = runSubctx(seed, n, map[sharing.ID]string{j: "b"}) }); p != "" || B == nil || B.err != "" {
			if B != nil {
				p += B.err
			}
			c.mismatch("prop", "subctx-pair-run-failed", p, kase, what, true)
			continue
		}
		for _, k := range A.keys {
			if !memberOf(k, j) || A.vals[k] != B.vals[k] {
				continue
			}
			key := "subctx-zero-share-unchanged"
			if strings.HasPrefix(kind(k), "seed:") {
				key = "subctx-pair-seed-unchanged"
			}
			c.mismatch("prop", key, fmt.Sprintf("%s = %s is the same in two runs that differ in the random tape of party %d, a member of the sub-quorum", k, A.vals[k], uint64(j)), kase, what, true)
		}
		c.res.Count("subctx/pair", kase, true)
	}
	// (iv) sessions with fresh tapes
	first := map[string]string{}
	for _, k := range A.keys {
		first[kind(k)[:2]+"="+A.vals[k]] = "session 0 " + k
	}
	for s := 1; s < nSess; s++ {
		kase := fmt.Sprintf("%s sessions=%d", kase0, nSess)
		var S *subObs
		if p := vh.Safely(func() { S = runSubctx(seed, n, labelsAll(ids, fmt.Sprintf("s%d", s))) }); p != "" || S == nil || S.err != "" {
			if S != nil {
				p += S.err
			}
			c.mismatch("prop", "subctx-session-run-failed", p, kase, what, true)
			continue
		}
		add := map[string]string{}
		for _, k := range S.keys {
			id := kind(k)[:2] + "=" + S.vals[k]
			if prev, ok := first[id]; ok {
				key := "subctx-zero-share-repeats"
				if strings.HasPrefix(kind(k), "seed:") {
					key = "subctx-seed-repeats"
				}
				c.mismatch("prop", key, fmt.Sprintf("%s of session %d equals %s (%s) although every party's random tape differs", k, s, prev, S.vals[k]), kase, what, true)
			}
			add[id] = fmt.Sprintf("session %d %s", s, k)
		}
		for k, v := range add {
			first[k] = v
		}
		c.res.Count("subctx/session", fmt.Sprintf("%s#%d", kase, s), true)
	}
}

// shiftedWire: the zero-shifted public key shares pk_i = (sk_i + zeta_i)·G that DKLs23 parties
// broadcast, in signing runs whose contexts come from the REAL session setup (tapes of the
// setup follow the same labels): pk_i of every member must change when one member's tapes
// change and must not repeat across sessions.
func (c *checker) shiftedWire(seed int64) {
	what := "C07 (iii)/(iv) zero-shifted wire values depend on every member's tape (joint_value_depends: zero_share)"
	run := func(labels map[sharing.ID]string) map[sharing.ID]string {
		ids := idsN(2)
		cm := common(seed, labels, ids)
		cm.Session = "real"
		var out map[sharing.ID]string
		vh.Safely(func() {
			res := ddklsRun(cm)
			if res == nil {
				return
			}
			out = map[sharing.ID]string{}
			o := &obs{Tr: res}
			for _, id := range ids {
				if m := o.msg(4, id, 0); m != nil {
					if b, ok := bytesAt(o.decoded(m), "pk", cb); ok {
						out[id] = vh.Hex(b)
					}
				}
			}
		})
		return out
	}
	kase0 := fmt.Sprintf("subctx-shifted-dkls23-softspoken seed=%d", seed)
	A := run(nil)
	if len(A) != 2 {
		c.mismatch("corr", "subctx-shifted-run-failed", "DKLs23 (softspoken) with real session setup did not produce pk_i", kase0, what, false)
		return
	}
	c.res.Count("subctx/shifted-base", kase0, true)
	seen := map[string]string{}
	for id, v := range A {
		seen[v] = fmt.Sprintf("session 0 party %d", uint64(id))
	}
	for _, j := range idsN(2) {
		kase := fmt.Sprintf("%s party=%d label=b", kase0, uint64(j))
		B := run(map[sharing.ID]string{j: "b"})
		if len(B) != 2 {
			c.mismatch("prop", "subctx-shifted-run-failed", "paired run did not complete", kase, what, true)
			continue
		}
		for id := range A {
			if A[id] == B[id] {
				c.mismatch("prop", "subctx-zero-share-unchanged", fmt.Sprintf("DKLs23 round-4 pk of party %d = %s (its key share shifted by its zero share) is the same in two runs that differ in party %d's random tapes", uint64(id), A[id], uint64(j)), kase, what, true)
			}
		}
		c.res.Count("subctx/shifted-pair", kase, true)
	}
	S := run(labelsAll(idsN(2), "s1"))
	kase := kase0 + " sessions=2"
	for id, v := range S {
		if prev, ok := seen[v]; ok {
			c.mismatch("prop", "subctx-zero-share-repeats", fmt.Sprintf("DKLs23 round-4 pk of party %d in session 1 equals that of %s (%s) although every tape differs", uint64(id), prev, v), kase, what, true)
		}
	}
	c.res.Count("subctx/shifted-session", kase, len(S) == 2)
}
