package main

// cborwalk.go — a generic view of a protocol message as it is on the wire: the CBOR payload
// is decoded into maps / arrays / byte strings and a field is addressed by a path of map
// keys (the `cbor:"..."` tag or the Go field name) and array indices.  The C07 check only
// ever looks at the wire image of a message, never at a participant's internals.

import (
	"fmt"
	"sort"
	"strconv"
	"strings"

	"github.com/fxamacker/cbor/v2"
)

var decMode = func() cbor.DecMode {
	m, err := cbor.DecOptions{MaxNestedLevels: 64, MaxArrayElements: 1 << 20, MaxMapPairs: 1 << 20}.DecMode()
	if err != nil {
		panic(err)
	}
	return m
}()

func decodeAny(b []byte) (any, error) {
	var v any
	if err := decMode.Unmarshal(b, &v); err != nil {
		return nil, err
	}
	return v, nil
}

// at follows path through v. A path element is a map key (string) or an array index
// ("#3"); tags are looked through.
func at(v any, path ...string) (any, bool) {
	for _, p := range path {
		for {
			t, ok := v.(cbor.Tag)
			if !ok {
				break
			}
			v = t.Content
		}
		switch x := v.(type) {
		case map[any]any:
			n, ok := x[p]
			if !ok {
				// integer keys
				if i, err := strconv.ParseUint(p, 10, 64); err == nil {
					n, ok = x[i]
				}
				if !ok {
					return nil, false
				}
			}
			v = n
		case []any:
			if !strings.HasPrefix(p, "#") {
				return nil, false
			}
			i, err := strconv.Atoi(p[1:])
			if err != nil || i < 0 || i >= len(x) {
				return nil, false
			}
			v = x[i]
		default:
			return nil, false
		}
	}
	for {
		t, ok := v.(cbor.Tag)
		if !ok {
			break
		}
		v = t.Content
	}
	return v, true
}

// bytesAt returns the byte string at path.
func bytesAt(v any, path ...string) ([]byte, bool) {
	x, ok := at(v, path...)
	if !ok {
		return nil, false
	}
	b, ok := x.([]byte)
	return b, ok
}

// listAt returns the array at path.
func listAt(v any, path ...string) ([]any, bool) {
	x, ok := at(v, path...)
	if !ok {
		return nil, false
	}
	l, ok := x.([]any)
	return l, ok
}

// shape renders the structure of a decoded message (keys, lengths) for -dump.
func shape(v any, depth int) string {
	if depth > 7 {
		return "…"
	}
	switch x := v.(type) {
	case cbor.Tag:
		return fmt.Sprintf("tag%d(%s)", x.Number, shape(x.Content, depth+1))
	case map[any]any:
		keys := make([]string, 0, len(x))
		byKey := map[string]any{}
		for k, val := range x {
			ks := fmt.Sprint(k)
			keys = append(keys, ks)
			byKey[ks] = val
		}
		sort.Strings(keys)
		parts := make([]string, 0, len(keys))
		for i, k := range keys {
			if i >= 6 {
				parts = append(parts, fmt.Sprintf("…+%d", len(keys)-i))
				break
			}
			parts = append(parts, k+":"+shape(byKey[k], depth+1))
		}
		return "{" + strings.Join(parts, " ") + "}"
	case []any:
		if len(x) == 0 {
			return "[]"
		}
		if len(x) > 3 {
			return fmt.Sprintf("[%d× %s]", len(x), shape(x[0], depth+1))
		}
		parts := make([]string, len(x))
		for i := range x {
			parts[i] = shape(x[i], depth+1)
		}
		return "[" + strings.Join(parts, " ") + "]"
	case []byte:
		return fmt.Sprintf("b%d", len(x))
	case string:
		return fmt.Sprintf("%q", x)
	case nil:
		return "nil"
	default:
		return fmt.Sprintf("%T(%v)", v, v)
	}
}
