package main

// protos.go — one adapter per protocol: runs the protocol driver of
// verif/harness/internal/drive/<protocol> with the given per-party tape labels and
// projects the run onto what C07 looks at (the trace with its tapes and wire messages,
// the joint values, the group of the run).

import (
	"encoding/binary"
	"fmt"
	"io"
	"math/big"
	"sort"
	"strings"

	"github.com/bronlabs/bron-crypto/pkg/base/curves/k256"
	"github.com/bronlabs/bron-crypto/pkg/base/serde"
	rsess "github.com/bronlabs/bron-crypto/pkg/mpc/session"
	"github.com/bronlabs/bron-crypto/pkg/mpc/sharing"
	"github.com/bronlabs/bron-crypto/pkg/proofs/sigma/compiler/fiatshamir"
	"golang.org/x/crypto/blake2b"

	"verif/harness/internal/drive"
	dbls "verif/harness/internal/drive/boldyreva"
	dcan "verif/harness/internal/drive/canetti"
	ddkls "verif/harness/internal/drive/dkls23"
	dgen "verif/harness/internal/drive/gennaro"
	dhjky "verif/harness/internal/drive/hjky"
	"verif/harness/internal/drive/keys"
	dl17 "verif/harness/internal/drive/lindell17"
	dl22 "verif/harness/internal/drive/lindell22"
	dotv "verif/harness/internal/drive/otvole"
	dred "verif/harness/internal/drive/redistribute"
	dsess "verif/harness/internal/drive/session"
	"verif/harness/internal/vh"
)

const prop = "C07"

type kv struct{ K, V string }

// obs is one protocol run as C07 sees it.
type obs struct {
	Proto   string
	IDs     []sharing.ID // the acting parties, ascending
	Tr      *drive.Trace
	Err     string // setup failure (the run is not evaluated)
	Order   *big.Int
	BaseMul func(k *big.Int) []byte // wire encoding of k·G in the run's group (as it appears in messages)
	BaseX   func(k *big.Int) *big.Int
	Joint   []kv // the values that are meant to be random: name -> canonical text
	Extra   map[string]string
	dec     map[*drive.Msg]any
	fields  []field
	Derived map[string][]byte                       // values computed from wire fields and public inputs, addressed as "@name" by the field table
	Flipped func(party sharing.ID, off, n int) *obs // re-run with one segment of one party's tape flipped (nil: not available)
	Chunk   int                                     // > 0: the tapes of this run served at most Chunk bytes per Read
}

func (o *obs) decoded(m *drive.Msg) any {
	if o.dec == nil {
		o.dec = map[*drive.Msg]any{}
	}
	if v, ok := o.dec[m]; ok {
		return v
	}
	v, err := decodeAny(m.Payload)
	if err != nil {
		v = nil
	}
	o.dec[m] = v
	return v
}

// msg returns the first message of (round, from, to) — to == 0 for a broadcast (any recipient copy).
func (o *obs) msg(round int, from, to sharing.ID) *drive.Msg {
	for _, m := range o.Tr.Messages {
		if m.Round == round && m.From == from && m.To == to {
			return m
		}
	}
	return nil
}

func (o *obs) allOK() string {
	for _, id := range o.IDs {
		v, ok := o.Tr.Verdicts[id]
		if ok && v.Class != "ok" {
			return fmt.Sprintf("party %d: %s in round %d (%s)", uint64(id), v.Class, v.Round, v.Detail)
		}
	}
	if v, ok := o.Tr.Verdicts[0]; ok && v.Class != "ok" {
		return fmt.Sprintf("aggregator: %s (%s)", v.Class, v.Detail)
	}
	return ""
}

type protoSpec struct {
	Name          string
	N             int    // number of acting parties
	D             int    // columns of the MSP of the access structure (threshold t)
	Family        string // draw-spec family of the model
	Sched         bool   // reads of round 1 after the deterministic prefix are scheduling dependent (Gennaro)
	Signing       bool   // has nonce commitments (freshness across sessions)
	Heavy         bool   // stored Paillier material, slow
	NoQuickStingy bool   // same sampling code as another entry (lindell22 flavours; dkls23-bbot = dkls23-softspoken + ot-ecbbot): stingy-source family only in the thorough tier
	Run           func(seed int64, labels map[sharing.ID]string) *obs
}

func idsN(n int) []sharing.ID {
	ids := make([]sharing.ID, n)
	for i := range ids {
		ids[i] = sharing.ID(i + 1)
	}
	return ids
}

func thresholdPolicy(t, n int) string {
	p := make([]string, n)
	for i := range p {
		p[i] = fmt.Sprint(i + 1)
	}
	return fmt.Sprintf("T:%d:%s", t, strings.Join(p, ","))
}

var k256BaseMul = func() func(k *big.Int) []byte {
	c := k256.NewCurve()
	sf := k256.NewScalarField()
	q := sf.Order().Big()
	return func(k *big.Int) []byte {
		s, err := sf.FromWideBytes(new(big.Int).Mod(k, q).Bytes())
		if err != nil {
			return nil
		}
		return c.ScalarBaseMul(s).ToCompressed()
	}
}()

func k256Order() *big.Int { return k256.NewScalarField().Order().Big() }

// seededCtxs: session contexts that do not depend on the tape labels.
func seededCtxs(seed int64, tag string, ids []sharing.ID) (map[sharing.ID]*rsess.Context, error) {
	return keys.Contexts(keys.Common{Seed: seed, Prop: prop + "-ctx-" + tag, Quorum: ids, Session: "seeded"})
}

func outField(text, key string) string {
	for _, part := range strings.Split(text, ";") {
		if strings.HasPrefix(part, key+"=") {
			return part[len(key)+1:]
		}
	}
	return ""
}

// ---- session -------------------------------------------------------------------------

func runSession(n int) func(int64, map[sharing.ID]string) *obs {
	return func(seed int64, labels map[sharing.ID]string) *obs {
		ids := idsN(n)
		res := dsess.RunFull(dsess.Config{Seed: seed, Prop: prop, Quorum: ids, Labels: labels})
		o := &obs{Proto: "session", IDs: ids, Tr: res.Trace, Extra: map[string]string{}}
		if e := o.allOK(); e != "" {
			o.Err = e
			return o
		}
		first := res.Trace.Outputs[ids[0]]
		o.Joint = append(o.Joint, kv{"sid", outField(first, "sid")})
		o.Joint = append(o.Joint, kv{"transcript", outField(first, "tx")})
		for _, id := range ids {
			o.Extra[fmt.Sprintf("seeds/%d", uint64(id))] = outField(res.Trace.Outputs[id], "seeds")
		}
		return o
	}
}

// ---- DKGs ----------------------------------------------------------------------------

func runGennaro(n, t int) func(int64, map[sharing.ID]string) *obs {
	return func(seed int64, labels map[sharing.ID]string) *obs {
		ids := idsN(n)
		o := &obs{Proto: "gennaro", IDs: ids, Order: k256Order(), BaseMul: k256BaseMul, Extra: map[string]string{}}
		pol, _ := keys.ParsePolicy(thresholdPolicy(t, n))
		ac, err := pol.Build()
		if err != nil {
			o.Err, o.Tr = err.Error(), drive.NewTrace("gennaro")
			return o
		}
		ctxs, err := seededCtxs(seed, "gennaro", ids)
		if err != nil {
			o.Err, o.Tr = err.Error(), drive.NewTrace("gennaro")
			return o
		}
		res := dgen.RunFull(dgen.Config[*k256.Point, *k256.Scalar]{Seed: seed, Prop: prop, Labels: labels, Group: k256.NewCurve(), AC: ac, Compiler: fiatshamir.Name, Ctxs: ctxs})
		o.Tr = res.Trace
		if e := o.allOK(); e != "" {
			o.Err = e
			return o
		}
		o.Joint = append(o.Joint, kv{"pk", outField(res.Trace.Outputs[ids[0]], "pk")})
		return o
	}
}

func runCanetti(n, t int) func(int64, map[sharing.ID]string) *obs {
	return func(seed int64, labels map[sharing.ID]string) *obs {
		ids := idsN(n)
		o := &obs{Proto: "canetti", IDs: ids, Order: k256Order(), BaseMul: k256BaseMul, Extra: map[string]string{}}
		pol, _ := keys.ParsePolicy(thresholdPolicy(t, n))
		ac, err := pol.Build()
		if err != nil {
			o.Err, o.Tr = err.Error(), drive.NewTrace("canetti")
			return o
		}
		ctxs, err := seededCtxs(seed, "canetti", ids)
		if err != nil {
			o.Err, o.Tr = err.Error(), drive.NewTrace("canetti")
			return o
		}
		res := dcan.RunFull(dcan.Config[*k256.Point, *k256.Scalar]{Seed: seed, Prop: prop, Labels: labels, Group: k256.NewCurve(), AC: ac, Ctxs: ctxs})
		o.Tr = res.Trace
		if e := o.allOK(); e != "" {
			o.Err = e
			return o
		}
		o.Joint = append(o.Joint, kv{"pk", outField(res.Trace.Outputs[ids[0]], "pk")})
		return o
	}
}

// ---- zero sharing / redistribution ---------------------------------------------------

func cborHex(v any) string {
	b, err := serde.MarshalCBOR(v)
	if err != nil {
		return "ERR:" + err.Error()
	}
	return vh.Hex(b)
}

func runHjky(n, t int) func(int64, map[sharing.ID]string) *obs {
	return func(seed int64, labels map[sharing.ID]string) *obs {
		ids := idsN(n)
		o := &obs{Proto: "hjky", IDs: ids, Order: k256Order(), BaseMul: k256BaseMul, Extra: map[string]string{}}
		pol, _ := keys.ParsePolicy(thresholdPolicy(t, n))
		ac, err := pol.Build()
		if err != nil {
			o.Err, o.Tr = err.Error(), drive.NewTrace("hjky")
			return o
		}
		ctxs, err := seededCtxs(seed, "hjky", ids)
		if err != nil {
			o.Err, o.Tr = err.Error(), drive.NewTrace("hjky")
			return o
		}
		res := dhjky.RunFull(dhjky.Config[*k256.Point, *k256.Scalar]{Seed: seed, Prop: prop, Labels: labels, Group: k256.NewCurve(), Access: ac, Contexts: ctxs})
		o.Tr = res.Trace
		if e := o.allOK(); e != "" {
			o.Err = e
			return o
		}
		// the joint values: every party's zero share, and the joint verification vector
		for _, id := range ids {
			out := res.Out[id]
			if out == nil {
				o.Err = fmt.Sprintf("no output of %d", uint64(id))
				return o
			}
			o.Joint = append(o.Joint, kv{fmt.Sprintf("zeroshare/%d", uint64(id)), cborHex(out.Share)})
		}
		o.Joint = append(o.Joint, kv{"vv", outField(res.Trace.Outputs[ids[0]], "vv")})
		return o
	}
}

func runRedistribute(n, t int) func(int64, map[sharing.ID]string) *obs {
	return func(seed int64, labels map[sharing.ID]string) *obs {
		ids := idsN(n)
		o := &obs{Proto: "redistribute", IDs: ids, Order: k256Order(), BaseMul: k256BaseMul, Extra: map[string]string{}}
		fail := func(err error) *obs { o.Err, o.Tr = err.Error(), drive.NewTrace("redistribute"); return o }
		pol, _ := keys.ParsePolicy(thresholdPolicy(t, n))
		ac, err := pol.Build()
		if err != nil {
			return fail(err)
		}
		dealt, err := keys.Deal[*k256.Point, *k256.Scalar](k256.NewCurve(), pol, vh.NewRng(seed, prop, "redistribute-deal", 0))
		if err != nil {
			return fail(err)
		}
		ctxs, err := seededCtxs(seed, "redistribute", ids)
		if err != nil {
			return fail(err)
		}
		res := dred.RunFull(dred.Config[*k256.Point, *k256.Scalar]{Seed: seed, Prop: prop, Labels: labels, Group: k256.NewCurve(),
			PrevShards: dealt.Shards, PrevQuorum: ids, Next: ac, Contexts: ctxs})
		o.Tr = res.Trace
		if e := o.allOK(); e != "" {
			o.Err = e
			return o
		}
		o.Extra["pk-before"] = vh.Hex(dealt.PK.Bytes())
		o.Extra["pk-after"] = outField(res.Trace.Outputs[ids[0]], "pk")
		// the refreshed sharing: the new verification vector beyond entry 0 (entry 0 is the unchanged key)
		vv := outField(res.Trace.Outputs[ids[0]], "vv")
		if i := strings.IndexByte(vv, ','); i >= 0 {
			vv = vv[i+1:]
		}
		o.Joint = append(o.Joint, kv{"vv-tail", vv})
		for _, id := range ids {
			sh := res.Shards[id]
			if sh == nil {
				o.Err = fmt.Sprintf("no new shard of %d", uint64(id))
				return o
			}
			o.Joint = append(o.Joint, kv{fmt.Sprintf("share/%d", uint64(id)), cborHex(sh.Share())})
		}
		return o
	}
}

// ---- signing -------------------------------------------------------------------------

func common(seed int64, labels map[sharing.ID]string, ids []sharing.ID) keys.Common {
	return keys.Common{Seed: seed, Prop: prop, Labels: labels, Quorum: ids, Session: "seeded", Message: []byte("C07 message to be signed")}
}

func runDkls(n, t int, mult, curve string) func(int64, map[sharing.ID]string) *obs {
	return func(seed int64, labels map[sharing.ID]string) *obs {
		ids := idsN(n)
		res := ddkls.RunFull(ddkls.Config{Common: common(seed, labels, ids), Policy: thresholdPolicy(t, n), Curve: curve, Hash: "sha256", Multiplier: mult})
		o := &obs{Proto: "dkls23-" + mult, IDs: ids, Tr: res.Trace, Order: res.Order, BaseMul: res.BaseMul, Extra: map[string]string{}}
		if res.SetupErr != "" {
			o.Err = res.SetupErr
			return o
		}
		o.BaseX = func(k *big.Int) *big.Int { x, _ := res.BaseXY(k); return x }
		if e := o.allOK(); e != "" {
			o.Err = e
			return o
		}
		if res.Sig == nil {
			o.Err = "no signature"
			return o
		}
		o.Joint = append(o.Joint, kv{"r", vh.ZHex(res.Sig.R)})
		o.Extra["lib"] = res.LibOK
		ps := make([]string, 0, len(ids))
		for _, id := range ids {
			if p := res.Partials[id]; p != nil {
				ps = append(ps, fmt.Sprintf("%d:%s", uint64(id), vh.Hex(p.R)))
			}
		}
		o.Extra["partial-R"] = strings.Join(ps, ",")
		return o
	}
}

// ddklsRun: DKLs23 softspoken, 2 of 2, with the given common configuration; nil unless every party is ok.
func ddklsRun(cm keys.Common) *drive.Trace {
	res := ddkls.RunFull(ddkls.Config{Common: cm, Policy: thresholdPolicy(2, 2), Curve: "k256", Hash: "sha256", Multiplier: "softspoken"})
	if res.SetupErr != "" || res.Sig == nil {
		return nil
	}
	for _, v := range res.Trace.Verdicts {
		if v.Class != "ok" {
			return nil
		}
	}
	return res.Trace
}

func runL22(n, t int, variant string) func(int64, map[sharing.ID]string) *obs {
	return func(seed int64, labels map[sharing.ID]string) *obs {
		ids := idsN(n)
		res := dl22.RunFull(dl22.Config{Common: common(seed, labels, ids), Policy: thresholdPolicy(t, n), Variant: variant, Hash: "sha256"})
		o := &obs{Proto: "lindell22-" + variant, IDs: ids, Tr: res.Trace, Order: res.Order, BaseMul: res.BaseMul, Extra: map[string]string{}}
		if res.SetupErr != "" {
			o.Err = res.SetupErr
			return o
		}
		o.BaseX = func(k *big.Int) *big.Int { x, _ := res.BaseXY(k); return x }
		if e := o.allOK(); e != "" {
			o.Err = e
			return o
		}
		if res.Sig == nil {
			o.Err = "no signature"
			return o
		}
		o.Joint = append(o.Joint, kv{"R", vh.Hex(res.Sig.R)})
		o.Extra["Rx"] = vh.ZHex(res.Sig.RX)
		o.Extra["lib"] = res.Sig.Lib
		return o
	}
}

func runBls(n, t int, ks, mode string) func(int64, map[sharing.ID]string) *obs {
	return func(seed int64, labels map[sharing.ID]string) *obs {
		ids := idsN(n)
		res := dbls.RunFull(dbls.Config{Common: common(seed, labels, ids), Policy: thresholdPolicy(t, n), KeySize: ks, Mode: mode})
		o := &obs{Proto: "boldyreva-" + ks + "-" + mode, IDs: ids, Tr: res.Trace, Extra: map[string]string{}}
		if res.SetupErr != "" {
			o.Err = res.SetupErr
			return o
		}
		if e := o.allOK(); e != "" {
			o.Err = e
			return o
		}
		o.Joint = append(o.Joint, kv{"sig", res.Trace.Outputs[0]})
		return o
	}
}

func runL17() func(int64, map[sharing.ID]string) *obs {
	return func(seed int64, labels map[sharing.ID]string) *obs {
		ids := idsN(2)
		res := dl17.RunFull(dl17.Config{Common: common(seed, labels, ids), Policy: "T:2:1,2,3", Curve: "k256", Hash: "sha256", Compiler: "fischlin"})
		o := &obs{Proto: "lindell17", IDs: ids, Tr: res.Trace, Order: res.Order, BaseMul: k256BaseMul, Extra: map[string]string{}}
		if res.SetupErr != "" {
			o.Err = res.SetupErr
			return o
		}
		o.BaseX = func(k *big.Int) *big.Int { x, _ := res.BaseXY(k); return x }
		if e := o.allOK(); e != "" {
			o.Err = e
			return o
		}
		if res.Sig == nil {
			o.Err = "no signature"
			return o
		}
		o.Joint = append(o.Joint, kv{"r", vh.ZHex(res.Sig.R)})
		o.Extra["lib"] = res.LibOK
		if res.N != nil {
			o.Extra["paillier-bytes"] = fmt.Sprint((res.N.BitLen() + 7) / 8)
		}
		return o
	}
}

// ---- OT and VOLE on their own ----------------------------------------------------------

func runOtVole(kind string, xi, l int) func(int64, map[sharing.ID]string) *obs {
	var mk func(seed int64, labels map[sharing.ID]string, flip *dotv.Flip) *obs
	mk = func(seed int64, labels map[sharing.ID]string, flip *dotv.Flip) *obs {
		o := runOtVoleOnce(kind, xi, l, seed, labels, flip)
		if flip == nil {
			o.Flipped = func(party sharing.ID, off, n int) *obs {
				return mk(seed, labels, &dotv.Flip{Party: party, Off: off, N: n})
			}
		}
		return o
	}
	return func(seed int64, labels map[sharing.ID]string) *obs { return mk(seed, labels, nil) }
}

func runOtVoleOnce(kind string, xi, l int, seed int64, labels map[sharing.ID]string, flip *dotv.Flip) *obs {
	{
		res := dotv.RunFull(dotv.Config{Seed: seed, Prop: prop, Labels: labels, Kind: kind, Xi: xi, L: l, Flip: flip})
		o := &obs{Proto: kind, IDs: idsN(2), Tr: res.Trace, Order: res.Order, BaseMul: res.BaseMul, Extra: map[string]string{}}
		if res.SetupErr != "" {
			o.Err = res.SetupErr
			return o
		}
		if e := o.allOK(); e != "" {
			o.Err = e
			return o
		}
		if res.Trace.Outputs[1] == "" || res.Trace.Outputs[2] == "" {
			o.Err = "no output"
			return o
		}
		switch kind {
		case "ecbbot":
			o.Joint = append(o.Joint, kv{"sender-pads", outField(res.Trace.Outputs[1], "pads")}, kv{"receiver-chosen", outField(res.Trace.Outputs[2], "chosen")})
		case "rvole-bbot":
			o.Joint = append(o.Joint, kv{"alice-c", outField(res.Trace.Outputs[1], "c")}, kv{"bob-d", outField(res.Trace.Outputs[2], "d")})
			o.Extra["bob-b"] = outField(res.Trace.Outputs[2], "b")
		}
		return o
	}
}

// expandPRG is the SoftSpoken seed expansion recomputed with x/crypto's BLAKE2b XOF (not library code).
func expandPRG(sid []byte, n, idx int, seed []byte, choice int) []byte {
	x, err := blake2b.NewXOF(blake2b.OutputLengthUnknown, sid)
	if err != nil {
		panic(err)
	}
	x.Write(binary.LittleEndian.AppendUint64(nil, uint64(idx)))
	x.Write(binary.LittleEndian.AppendUint64(nil, uint64(choice)))
	x.Write(seed)
	out := make([]byte, n)
	io.ReadFull(x, out)
	return out
}

// runOtExt: the SoftSpoken OT extension on its own; everything but the tapes is fixed.
func runOtExt(xi, l int) func(int64, map[sharing.ID]string) *obs {
	var mk func(seed int64, labels map[sharing.ID]string, flip *dotv.Flip) *obs
	mk = func(seed int64, labels map[sharing.ID]string, flip *dotv.Flip) *obs {
		res := dotv.RunFull(dotv.Config{Seed: seed, Prop: prop, Labels: labels, Kind: "softspoken-ext", Xi: xi, L: l, Flip: flip})
		o := &obs{Proto: "softspoken-ext", IDs: idsN(2), Tr: res.Trace, Order: res.Order, BaseMul: res.BaseMul, Extra: map[string]string{}, Derived: map[string][]byte{}}
		if res.SetupErr != "" {
			o.Err = res.SetupErr
			return o
		}
		if e := o.allOK(); e != "" {
			o.Err = e
			return o
		}
		if res.Trace.Outputs[1] == "" || res.Trace.Outputs[2] == "" {
			o.Err = "no output"
			return o
		}
		// the OT outputs do not (and must not) depend on the sigma mask bits: no joint value here
		o.Extra["receiver-chosen"] = outField(res.Trace.Outputs[1], "chosen")
		o.Extra["sender-pads"] = outField(res.Trace.Outputs[2], "pads")
		// the mask block of x' as the sender can see it: last 16 bytes of u_i ^ PRG(m0_i) ^ PRG(m1_i)
		if m := o.msg(1, 1, 2); m != nil {
			for _, i := range []int{0, len(res.M0) - 1} {
				u, ok := bytesAt(o.decoded(m), "u", fmt.Sprintf("#%d", i))
				if !ok || len(u) < 16 || i < 0 {
					continue
				}
				t0, t1 := expandPRG(res.Sid, len(u), i, res.M0[i], 0), expandPRG(res.Sid, len(u), i, res.M1[i], 1)
				mask := make([]byte, 16)
				for k := range mask {
					q := len(u) - 16 + k
					mask[k] = u[q] ^ t0[q] ^ t1[q]
				}
				name := "sigma-mask.first"
				if i > 0 {
					name = "sigma-mask.last"
				}
				o.Derived[name] = mask
			}
		}
		if flip == nil {
			o.Flipped = func(party sharing.ID, off, n int) *obs {
				return mk(seed, labels, &dotv.Flip{Party: party, Off: off, N: n})
			}
		}
		return o
	}
	return func(seed int64, labels map[sharing.ID]string) *obs { return mk(seed, labels, nil) }
}

func protocols(tier string) []protoSpec {
	n, t := 3, 2
	// the OT-based protocols cost (n-1) base-OT batches per party and run: fewer parties there
	no, to := 2, 2
	if tier == "thorough" {
		n, t = 5, 3
		no, to = 3, 2
	}
	ps := []protoSpec{
		{Name: "session", N: n, D: t, Family: "session", Run: runSession(n)},
		{Name: "gennaro", N: n, D: t, Family: "gennaro", Sched: true, Run: runGennaro(n, t)},
		{Name: "canetti", N: n, D: t, Family: "canetti", Run: runCanetti(n, t)},
		{Name: "hjky", N: n, D: t, Family: "hjky", Run: runHjky(n, t)},
		{Name: "redistribute", N: n, D: t, Family: "redistribute", Run: runRedistribute(n, t)},
		{Name: "dkls23-bbot", N: no, D: to, Family: "dkls23-bbot", Signing: true, Heavy: true, NoQuickStingy: true, Run: runDkls(no, to, "bbot", "k256")},
		{Name: "dkls23-softspoken", N: no, D: to, Family: "dkls23-softspoken", Signing: true, Heavy: true, Run: runDkls(no, to, "softspoken", "k256")},
		{Name: "lindell22-bip340", N: n, D: t, Family: "lindell22", Signing: true, Run: runL22(n, t, "bip340")},
		{Name: "lindell22-schnorr-k256", N: n, D: t, Family: "lindell22", Signing: true, NoQuickStingy: true, Run: runL22(n, t, "schnorr-k256")},
		{Name: "lindell22-mina", N: n, D: t, Family: "lindell22", Signing: true, NoQuickStingy: true, Run: runL22(n, t, "mina")},
		{Name: "boldyreva-short-basic", N: n, D: t, Family: "boldyreva", Run: runBls(n, t, "short", "basic")},
		{Name: "lindell17", N: 2, D: 2, Family: "lindell17", Signing: true, Heavy: true, Run: runL17()},
		{Name: "ot-ecbbot", N: 2, D: 2, Family: "ot", Run: runOtVole("ecbbot", 128, 1)},
		{Name: "softspoken-ext", N: 2, D: 2, Family: "otext", Run: runOtExt(256, 2)},
	}
	if tier == "thorough" {
		ps = append(ps,
			// rvole/bbot on its own (the quick tier reaches it through dkls23-bbot)
			protoSpec{Name: "rvole-bbot", N: 2, D: 2, Family: "vole", Heavy: true, Run: runOtVole("rvole-bbot", 0, 2)},
			protoSpec{Name: "lindell22-schnorr-p256", N: n, D: t, Family: "lindell22", Signing: true, Run: runL22(n, t, "schnorr-p256")},
			protoSpec{Name: "lindell22-schnorr-k256-neg", N: n, D: t, Family: "lindell22", Signing: true, Run: runL22(n, t, "schnorr-k256-neg")},
			protoSpec{Name: "dkls23-bbot-p256", N: 2, D: 2, Family: "dkls23-bbot", Signing: true, Heavy: true, Run: runDkls(2, 2, "bbot", "p256")},
			protoSpec{Name: "boldyreva-long-pop", N: n, D: t, Family: "boldyreva", Run: runBls(n, t, "long", "pop")},
		)
	}
	return ps
}

func sortedKeys[V any](m map[string]V) []string {
	ks := make([]string, 0, len(m))
	for k := range m {
		ks = append(ks, k)
	}
	sort.Strings(ks)
	return ks
}
