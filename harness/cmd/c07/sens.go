package main

// sens.go — the per-read tape-sensitivity family.  For a party of a base run and one recorded
// Read segment of its tape, the run is repeated with a tape that differs from the base tape in
// exactly that segment (bytes XOR 0xff); some outgoing message or the output of that party must
// change.  A secret that is drawn from the supplied source and then dropped (the value actually
// used being a constant or coming from elsewhere) fails this although byte counts, functional
// outputs and whole-tape paired runs look normal.  Draws the model marks as discarded by design
// (entry 0 of a dealt column, overwritten by the secret) are exempt; reads whose assignment is
// scheduling dependent (Gennaro round-1 prover nonces) are skipped.

import (
	"bytes"
	"fmt"
	"strings"

	"github.com/bronlabs/bron-crypto/pkg/mpc/sharing"

	"verif/harness/internal/drive"
	"verif/harness/internal/vh"
)

// partyView: everything party id sends or outputs, as one byte string.
func partyView(o *obs, id sharing.ID) []byte {
	var b bytes.Buffer
	for _, m := range o.Tr.Messages {
		if m.From == id {
			fmt.Fprintf(&b, "|%d>%d:", m.Round, uint64(m.To))
			b.Write(m.Payload)
		}
	}
	b.WriteString("|out:" + o.Tr.Outputs[id])
	return b.Bytes()
}

// pickReads selects read indices: every read of a short block of equal reads, first / middle /
// last of a long one, at most max in total (spread evenly).
func pickReads(t *drive.Tape, max int) []int {
	var out []int
	for i := 0; i < len(t.Reads); {
		j := i
		for j < len(t.Reads) && t.Reads[j].N == t.Reads[i].N && t.Reads[j].Tag == t.Reads[i].Tag {
			j++
		}
		if j-i <= 12 {
			for k := i; k < j; k++ {
				out = append(out, k)
			}
		} else {
			out = append(out, i, (i+j)/2, j-1)
		}
		i = j
	}
	if len(out) > max {
		sel := make([]int, 0, max)
		for k := 0; k < max; k++ {
			sel = append(sel, out[k*len(out)/max])
		}
		out = sel
	}
	return out
}

// readRows maps every read of the party's tape to its row of the model's draws table (nil where the
// read pattern does not match the table; the draw-count check reports that).
func (c *checker) readRows(p protoSpec, o *obs, pos int) map[int]*drawRow {
	out := map[int]*drawRow{}
	if c.a.Driver == "" {
		return out
	}
	t := o.Tr.Tapes[o.IDs[pos]]
	cfg := modelCfg(p, o, pos)
	byRound, maxRound := readsByRound(t)
	var lines []string
	for r := 0; r <= maxRound; r++ {
		lines = append(lines, fmt.Sprintf("D %s %d %s", cfg.fam, r, cfg.args()))
	}
	outs, err := vh.Driver(c.a.Driver, lines)
	if err != nil {
		return out
	}
	for r := 0; r <= maxRound; r++ {
		rows, err := parseRows(outs[r])
		if err != nil {
			continue
		}
		idx := byRound[r]
		for k := range rows {
			if k < len(idx) && t.Reads[idx[k]].N == rows[k].n {
				row := rows[k]
				out[idx[k]] = &row
			}
		}
	}
	return out
}

func (c *checker) sensitivity(p protoSpec, seed int64, A *obs, maxPerParty int, positions []int) {
	if A.Flipped == nil || A.Err != "" {
		return
	}
	what := "C07 per-read tape sensitivity: every drawn segment influences a message or output of the party that drew it (first_msg_injective / values_function_of_served_bytes)"
	for _, pos := range positions {
		id := A.IDs[pos]
		t := A.Tr.Tapes[id]
		if t == nil || len(t.Reads) == 0 {
			continue
		}
		rows := c.readRows(p, A, pos)
		base := partyView(A, id)
		for _, k := range pickReads(t, maxPerParty) {
			rd := t.Reads[k]
			site := "?"
			if row := rows[k]; row != nil {
				site = row.site
				if row.drop {
					continue // discarded by design
				}
				if p.Sched && strings.HasPrefix(row.site, "proofnonce") {
					continue // which bytes feed which nonce depends on goroutine scheduling
				}
			} else if p.Sched {
				continue
			}
			kase := fmt.Sprintf("%s seed=%d party=%d flip=%s:%d+%d", p.Name, seed, uint64(id), rd.Tag, rd.Off, rd.N)
			var B *obs
			if pn := vh.Safely(func() { B = A.Flipped(id, rd.Off, rd.N) }); pn != "" || B == nil {
				c.mismatch("prop", p.Name+"-panic", "flipped run panicked: "+pn, kase, what, false)
				continue
			}
			tb := B.Tr.Tapes[id]
			if tb == nil || len(tb.Bytes) < rd.Off+rd.N || !bytes.Equal(tb.Bytes[:rd.Off], t.Bytes[:rd.Off]) || bytes.Equal(tb.Bytes[rd.Off:rd.Off+rd.N], t.Bytes[rd.Off:rd.Off+rd.N]) {
				c.mismatch("corr", "harness-flip", fmt.Sprintf("the flipped tape of party %d does not differ from the base tape exactly from segment %d+%d on", uint64(id), rd.Off, rd.N), kase, "C07 harness", false)
				continue
			}
			if B.Err != "" {
				// a different random value may legitimately be refused and drawn again, but the honest run must complete
				c.mismatch("corr", p.Name+"-flip-run-failed", fmt.Sprintf("with read %d (%s, site %s) of party %d flipped the run does not complete: %s", k, rd.Tag, site, uint64(id), B.Err), kase, what, false)
				continue
			}
			if bytes.Equal(partyView(B, id), base) {
				c.mismatch("prop", p.Name+"-read-unused",
					fmt.Sprintf("party %d draws %d bytes at stream offset %d in %s (read %d, site %s: %s -> %s), but replacing exactly these bytes changes none of its %d outgoing messages nor its output: the value is drawn and dropped", uint64(id), rd.N, rd.Off, rd.Tag, k, site, vh.Hex(t.Slice(k)), vh.Hex(tb.Bytes[rd.Off:rd.Off+rd.N]), len(msgsFrom(A, id, func(int) bool { return true }))),
					kase, what, true)
			}
			c.res.Count(p.Name+"/sens", kase, true)
		}
	}
}
