// Command c07 is the correspondence harness of property C07 ("protocol secrets come from,
// and depend on, each party's own randomness").
//
// For every protocol driver under verif/harness/internal/drive it runs the real protocol
// with one recording random tape per party and checks
//
//	(i)   offset tie: every randomised field of the first (and visible later) messages equals
//	      the model's function of the bytes the party's tape served at the offsets the draw
//	      specification names (scalar = 48 bytes little endian mod q, sent as k·G; witnesses and
//	      contributions = the raw bytes) — the sampler is the extracted Coq model, and is
//	      recomputed independently with math/big for the property's own predicate;
//	(ii)  draw count: the sequence of reads each tape served per round equals the model's
//	      `draws` table;
//	(iii) paired runs that differ in exactly one party's tape label: that party's randomised
//	      messages and the joint value differ, everything sent before its first draw and every
//	      other party's first-round message is byte-identical;
//	(iv)  over a sequence of sessions on the same key material no nonce commitment repeats.
//
// (iii) and (iv) are predicates on the implementation alone (Kind "prop").
package main

import (
	"bytes"
	"fmt"
	"os"
	"sort"
	"strings"
	"sync"
	"time"

	"github.com/bronlabs/bron-crypto/pkg/mpc/sharing"

	"verif/harness/internal/drive"
	"verif/harness/internal/vh"
)

type checker struct {
	a     vh.Args
	res   *vh.Result
	specs map[string]string  // observed draw specification per protocol/position (evidence)
	lines []string           // model driver input
	want  []func(out string) // continuation per model line
	only  string
}

func (c *checker) mismatch(kind, key, detail, kase, what string, propFail bool) {
	c.res.Mismatch(vh.Mismatch{ID: key + "/" + kase, Kind: kind, Key: key, Detail: detail, Case: kase, PropFail: propFail, What: what})
}

func caseText(p string, seed int64, j sharing.ID, lab string) string {
	return fmt.Sprintf("%s seed=%d party=%d label=%s", p, seed, uint64(j), lab)
}

func caseTextC(p string, seed int64, j sharing.ID, lab string, chunk int) string {
	t := caseText(p, seed, j, lab)
	if chunk > 0 {
		t += fmt.Sprintf(" chunk=%d", chunk)
	}
	return t
}

// run executes one protocol run with tapes that serve at most `chunk` bytes per Read (0: no limit).
func (c *checker) run(p protoSpec, seed int64, labels map[sharing.ID]string, chunk int) *obs {
	var o *obs
	drive.DefaultChunk = chunk
	pn := vh.Safely(func() { o = p.Run(seed, labels) })
	drive.DefaultChunk = 0
	if pn != "" {
		c.mismatch("prop", p.Name+"-panic", "driver panicked: "+pn, caseTextC(p.Name, seed, 0, fmt.Sprint(labels), chunk), "C07 harness", false)
		return nil
	}
	o.Chunk = chunk
	if o.Flipped == nil && chunk == 0 && o.Tr != nil {
		// re-run with exactly one segment of one party's tape flipped, through the tape hook of package drive;
		// the party's tape is recognised by its first read (the streams of different parties differ)
		o.Flipped = func(party sharing.ID, off, n int) *obs {
			bt := o.Tr.Tapes[party]
			if bt == nil || len(bt.Reads) == 0 {
				return nil
			}
			first := append([]byte{}, bt.Slice(0)...)
			var mu sync.Mutex
			target := map[*drive.Tape]bool{}
			drive.DefaultTamper = func(t *drive.Tape, toff int, p []byte) {
				mu.Lock()
				defer mu.Unlock()
				if toff == 0 {
					target[t] = len(p) >= len(first) && bytes.Equal(p[:len(first)], first) || len(p) < len(first) && bytes.Equal(p, first[:len(p)])
				}
				if !target[t] {
					return
				}
				for i := range p {
					if q := toff + i; q >= off && q < off+n {
						p[i] ^= 0xff
					}
				}
			}
			var b *obs
			pn := vh.Safely(func() { b = p.Run(seed, labels) })
			drive.DefaultTamper = nil
			if pn != "" {
				panic(pn)
			}
			return b
		}
	}
	return o
}

func commonEnds(a, b []byte) (prefix, suffix int) {
	n := len(a)
	if len(b) < n {
		n = len(b)
	}
	for prefix < n && a[prefix] == b[prefix] {
		prefix++
	}
	for suffix < n && a[len(a)-1-suffix] == b[len(b)-1-suffix] {
		suffix++
	}
	return
}

func labelsAll(ids []sharing.ID, l string) map[sharing.ID]string {
	m := map[sharing.ID]string{}
	for _, id := range ids {
		m[id] = l
	}
	return m
}

func tapeBytes(o *obs, id sharing.ID) int {
	if t := o.Tr.Tapes[id]; t != nil {
		return len(t.Bytes)
	}
	return 0
}

// firstDrawRound: the round number of the first read of party id ("new"/"r0" = 0), -1 if none.
func firstDrawRound(o *obs, id sharing.ID) int {
	t := o.Tr.Tapes[id]
	if t == nil || len(t.Reads) == 0 {
		return -1
	}
	tag := t.Reads[0].Tag
	if strings.HasPrefix(tag, "r") {
		n := 0
		fmt.Sscanf(tag[1:], "%d", &n)
		return n
	}
	return 0
}

func msgsFrom(o *obs, from sharing.ID, pred func(round int) bool) []*drive.Msg {
	var out []*drive.Msg
	for _, m := range o.Tr.Messages {
		if m.From == from && pred(m.Round) {
			out = append(out, m)
		}
	}
	return out
}

func minRound(o *obs) int {
	r := 1 << 30
	for _, m := range o.Tr.Messages {
		if m.Round < r {
			r = m.Round
		}
	}
	return r
}

func samePayloads(a, b []*drive.Msg) (bool, string) {
	if len(a) != len(b) {
		return false, fmt.Sprintf("%d vs %d messages", len(a), len(b))
	}
	for i := range a {
		if a[i].Round != b[i].Round || a[i].To != b[i].To || !bytes.Equal(a[i].Payload, b[i].Payload) {
			return false, fmt.Sprintf("message %d (round %d, %d->%d) differs", i, a[i].Round, uint64(a[i].From), uint64(a[i].To))
		}
	}
	return true, ""
}

// pairCheck evaluates (iii) on runs A (all labels default) and B (party j relabelled).
func (c *checker) pairCheck(p protoSpec, seed int64, j sharing.ID, A, B *obs) {
	kase := caseTextC(p.Name, seed, j, "b", A.Chunk)
	what := "C07 (iii) paired runs differing in one party's tape (msgs_function_of_own_tape / joint_value_depends)"
	pname := p.Name
	if A.Chunk > 0 {
		pname += "-stingy"
	}
	if B.Err != "" {
		c.mismatch("prop", pname+"-pair-run-failed", "run with party "+fmt.Sprint(uint64(j))+" relabelled did not complete: "+B.Err, kase, what, true)
		return
	}
	f := firstDrawRound(A, j)
	// nothing drawn: nothing may change
	if tapeBytes(A, j) == 0 && tapeBytes(B, j) == 0 {
		same := true
		why := ""
		for _, id := range A.IDs {
			if ok, w := samePayloads(msgsFrom(A, id, func(int) bool { return true }), msgsFrom(B, id, func(int) bool { return true })); !ok {
				same, why = false, w
			}
		}
		for i := range A.Joint {
			if i >= len(B.Joint) || A.Joint[i] != B.Joint[i] {
				same, why = false, "joint value "+A.Joint[i].K
			}
		}
		if !same {
			c.mismatch("prop", pname+"-pair-nodraw-changed", "party "+fmt.Sprint(uint64(j))+" draws nothing from its tape, yet relabelling the tape changed the run: "+why, kase, what, true)
		}
		c.res.Count(pname+"/pair-nodraw", kase, true)
		return
	}
	// (a) everything j sent before its first draw is identical
	if ok, w := samePayloads(msgsFrom(A, j, func(r int) bool { return r < f }), msgsFrom(B, j, func(r int) bool { return r < f })); !ok {
		c.mismatch("prop", pname+"-pair-predraw-changed", "a message of party "+fmt.Sprint(uint64(j))+" sent before its first draw changed: "+w, kase, what, true)
	}
	// (b) j's messages of its first drawing round differ
	ja, jb := msgsFrom(A, j, func(r int) bool { return r == f }), msgsFrom(B, j, func(r int) bool { return r == f })
	if len(ja) > 0 {
		if ok, _ := samePayloads(ja, jb); ok {
			c.mismatch("prop", pname+"-pair-own-unchanged", fmt.Sprintf("party %d's round-%d messages are byte-identical although only its random tape changed (%d vs %d bytes drawn)", uint64(j), f, tapeBytes(A, j), tapeBytes(B, j)), kase, what, true)
		}
	}
	// every randomised field of j differs
	fa, fb := fieldsOf(p, A), fieldsOf(p, B)
	for i := range fa {
		if fa[i].Party != j || i >= len(fb) || fa[i].Got == nil || fb[i].Got == nil {
			continue
		}
		if bytes.Equal(fa[i].Got, fb[i].Got) {
			c.mismatch("prop", pname+"-pair-field-unchanged", fmt.Sprintf("field %s of party %d is unchanged (%s) although only its random tape changed", fa[i].Name, uint64(j), vh.Hex(fa[i].Got)), kase, what, true)
		} else if fa[i].Kind == "raw" && len(fa[i].Got) >= 16 {
			// a raw random value that is partly constant (e.g. the tail a short Read left unfilled)
			if pre, suf := commonEnds(fa[i].Got, fb[i].Got); pre >= 6 || suf >= 6 {
				c.mismatch("prop", pname+"-pair-field-partly-constant", fmt.Sprintf("field %s of party %d keeps %d leading / %d trailing bytes (%s vs %s) although only its random tape changed", fa[i].Name, uint64(j), pre, suf, vh.Hex(fa[i].Got), vh.Hex(fb[i].Got)), kase, what, true)
			}
		}
	}
	// (c) the other parties' first-round messages (nothing received yet) are identical
	r0 := minRound(A)
	for _, i := range A.IDs {
		if i == j {
			continue
		}
		if p.Sched {
			// proof bytes depend on goroutine scheduling: compare the deterministic fields only
			for k := range fa {
				if fa[k].Party == i && fa[k].Round == r0 && k < len(fb) && !bytes.Equal(fa[k].Got, fb[k].Got) {
					c.mismatch("prop", pname+"-pair-other-changed", fmt.Sprintf("first-round field %s of party %d changed when only party %d's tape changed", fa[k].Name, uint64(i), uint64(j)), kase, what, true)
				}
			}
			continue
		}
		if ok, w := samePayloads(msgsFrom(A, i, func(r int) bool { return r == r0 }), msgsFrom(B, i, func(r int) bool { return r == r0 })); !ok {
			c.mismatch("prop", pname+"-pair-other-changed", fmt.Sprintf("first-round message of party %d changed when only party %d's tape changed: %s", uint64(i), uint64(j), w), kase, what, true)
		}
		// its tape served the same bytes in the same pattern
		if A.Tr.Tapes[i] != nil && B.Tr.Tapes[i] != nil && !p.Sched && A.Tr.Tapes[i].ReadsText() != B.Tr.Tapes[i].ReadsText() {
			// later rounds may legitimately depend on what was received (rejection sampling); only round-1 reads are compared
			if readsOfTag(A.Tr.Tapes[i], r0) != readsOfTag(B.Tr.Tapes[i], r0) {
				c.mismatch("prop", pname+"-pair-other-draws-changed", fmt.Sprintf("party %d's first-round draws changed when only party %d's tape changed", uint64(i), uint64(j)), kase, what, true)
			}
		}
	}
	// (d) the joint values differ
	if len(A.Joint) == 0 {
		c.res.Note("%s: no joint value defined", p.Name)
	}
	for i := range A.Joint {
		if i >= len(B.Joint) {
			break
		}
		if A.Joint[i].V == B.Joint[i].V {
			c.mismatch("prop", pname+"-pair-joint-unchanged", fmt.Sprintf("joint value %s = %s is the same in two runs that differ in party %d's random tape", A.Joint[i].K, A.Joint[i].V, uint64(j)), kase, what, true)
		}
	}
	c.res.Count(pname+"/pair", kase, true)
}

func readsOfTag(t *drive.Tape, round int) string {
	var parts []string
	tag := fmt.Sprintf("r%d", round)
	for _, r := range t.Reads {
		if r.Tag == tag {
			parts = append(parts, fmt.Sprintf("%d+%d", r.Off, r.N))
		}
	}
	return strings.Join(parts, ",")
}

// freshCheck evaluates (iv): across sessions on the same key material with different tapes no
// nonce commitment (and no committed nonce point) repeats, neither across sessions nor parties.
func (c *checker) freshCheck(p protoSpec, seed int64, runs []*obs) {
	what := "C07 (iv) nonce commitments are fresh across sessions (nonce_commitments_fresh)"
	seen := map[string]string{}
	for s, o := range runs {
		kase := fmt.Sprintf("%s seed=%d sessions=%d", p.Name, seed, len(runs))
		if o.Chunk > 0 {
			kase += fmt.Sprintf(" chunk=%d", o.Chunk)
		}
		if o.Err != "" {
			c.mismatch("prop", p.Name+"-session-run-failed", fmt.Sprintf("session %d did not complete: %s", s, o.Err), kase, what, true)
			continue
		}
		for _, f := range fieldsOf(p, o) {
			if !f.Nonce || f.Got == nil {
				continue
			}
			k := f.Name[strings.IndexByte(f.Name, '/')+1:] + "=" + vh.Hex(f.Got)
			who := fmt.Sprintf("session %d party %d", s, uint64(f.Party))
			if prev, ok := seen[k]; ok {
				c.mismatch("prop", p.Name+"-nonce-repeats", fmt.Sprintf("%s of %s equals that of %s: %s", f.Name, who, prev, vh.Hex(f.Got)), kase, what, true)
			}
			seen[k] = who
		}
		for _, j := range o.Joint {
			k := "joint/" + j.K + "=" + j.V
			who := fmt.Sprintf("session %d", s)
			if prev, ok := seen[k]; ok {
				c.mismatch("prop", p.Name+"-joint-repeats", fmt.Sprintf("joint value %s of %s equals that of %s: %s", j.K, who, prev, j.V), kase, what, true)
			}
			seen[k] = who
		}
		c.res.Count(p.Name+"/session", fmt.Sprintf("%s#%d", kase, s), true)
	}
}

// stingy runs protocol p with tapes that serve at most `chunk` bytes per Read call (a legal
// io.Reader): (a) the honest run still completes, (b) every randomised field is still the
// model's function of the bytes actually served (the tie works on the byte log) and the same
// number of bytes is drawn per round, (c) paired runs and freshness still hold.  Code that calls
// prng.Read(buf) and ignores the count draws only part of a value from the supplied source.
func (c *checker) stingy(p protoSpec, seed int64, chunk int, rot int) {
	kase := caseTextC(p.Name, seed, 0, "a", chunk)
	A := c.run(p, seed, nil, chunk)
	if A == nil {
		return
	}
	if A.Err != "" {
		c.mismatch("prop", p.Name+"-stingy-run-failed", fmt.Sprintf("with random sources that serve at most %d bytes per Read call the honest run does not complete: %s", chunk, A.Err), kase,
			"C07 stingy source: the protocol draws its randomness with io.ReadFull-style loops", false)
		return
	}
	c.res.Count(p.Name+"-stingy/base", kase, true)
	c.tie(p, seed, 0, "a", A)
	positions := []sharing.ID{A.IDs[rot%len(A.IDs)]}
	if (c.a.Tier == "thorough" || c.a.Search) && !p.Heavy {
		positions = A.IDs
	}
	if p.Heavy && c.a.Tier != "thorough" && !c.a.Search {
		positions = nil // quick tier: the byte-log tie of the base run only
	}
	for _, j := range positions {
		B := c.run(p, seed, map[sharing.ID]string{j: "b"}, chunk)
		if B == nil {
			continue
		}
		c.pairCheck(p, seed, j, A, B)
		if B.Err == "" {
			c.tie(p, seed, j, "b", B)
		}
	}
	if p.Signing && (!p.Heavy || c.a.Tier == "thorough") {
		S := c.run(p, seed, labelsAll(A.IDs, "s1"), chunk)
		if S != nil {
			if S.Err == "" {
				c.tie(p, seed, 0, "s1", S)
			}
			c.freshCheck(p, seed, []*obs{A, S})
		}
	}
}

func (c *checker) dump(p protoSpec, o *obs) {
	fmt.Printf("=== %s err=%q\n", p.Name, o.Err)
	for _, id := range o.IDs {
		if t := o.Tr.Tapes[id]; t != nil {
			fmt.Printf("  tape %d: %s\n", uint64(id), t.ReadsText())
		}
	}
	seen := map[string]bool{}
	for _, m := range o.Tr.Messages {
		k := fmt.Sprintf("r%d %d->%d", m.Round, uint64(m.From), uint64(m.To))
		if seen[k] || m.From != o.IDs[0] && m.From != 0 {
			continue
		}
		seen[k] = true
		fmt.Printf("  msg %s (%d bytes): %s\n", k, len(m.Payload), shape(o.decoded(m), 0))
	}
	for _, j := range o.Joint {
		fmt.Printf("  joint %s = %s\n", j.K, j.V)
	}
	for _, k := range sortedKeys(o.Extra) {
		fmt.Printf("  extra %s = %s\n", k, o.Extra[k])
	}
}

func main() {
	a := vh.ParseArgs()
	res := vh.NewResult("C07", a.Seed, a.Tier)
	c := &checker{a: a, res: res, specs: map[string]string{}, only: os.Getenv("C07_ONLY")}
	res.Rule = "for every protocol driver (session setup, Gennaro, Canetti, HJKY zero sharing, redistribution/refresh, DKLs23 bbot+softspoken, Lindell22 bip340/vanilla/mina (thorough: p256, negated), Boldyreva, Lindell17, base OT ecbbot (thorough: rvole/bbot on its own)) with 3 parties (OT-based protocols 2; thorough: 5 resp. 3): one base run, one paired run per party position (thorough: 3 seeds) that differs in exactly that party's tape label, a sequence of sessions (3, heavy protocols 2; thorough 10 resp. 4) on the same key material with fresh tapes; per run and party: every Read of the recording tape against the model's draws table, every tied wire field against the model's sample at the specified offset, the joint value against the model's combination; in addition the stingy-source family: per protocol base + paired run (+ a second session for signing protocols) with tapes that serve at most k bytes per Read call (k in {1,7,31}: one k per protocol in the quick tier, all three in the thorough tier), tied on the byte log (bytes served per round = specification; every tied field = model sample of the served bytes at the specified byte offset); a case is non-trivial when the run completed with verdict ok for every party"

	protos := protocols(a.Tier)
	seeds := []int64{a.Seed}
	nSess := 3
	if a.Tier == "thorough" {
		seeds = []int64{a.Seed, a.Seed + 1000, a.Seed + 2000}
		nSess = 10
	}
	if a.Search {
		seeds = append(seeds, a.Seed+5000, a.Seed+6000)
	}
	if a.Replay != "" {
		rp, rs, ok := parseReplay(a.Replay)
		if ok {
			c.only = rp
			seeds = []int64{rs}
		}
	}
	dump := os.Getenv("C07_DUMP") != ""
	if os.Getenv("C07_STINGY_ONLY") != "" {
		for pi, p := range protos {
			if c.only != "" && !strings.HasPrefix(p.Name, c.only) {
				continue
			}
			t0 := time.Now()
			for _, ch := range []int{1, 7, 31} {
				c.stingy(p, a.Seed, ch, pi)
			}
			res.Note("time %s (stingy): %.1fs", p.Name, time.Since(t0).Seconds())
		}
		protos = nil
	}
	for pi, p := range protos {
		if c.only != "" && !strings.HasPrefix(p.Name, c.only) {
			continue
		}
		t0 := time.Now()
		for si, seed := range seeds {
			if p.Heavy && si > 0 {
				continue
			}
			A := c.run(p, seed, nil, 0)
			if A == nil {
				continue
			}
			if dump {
				c.dump(p, A)
			}
			if A.Err != "" {
				c.res.Note("%s seed %d: base run did not complete: %s", p.Name, seed, A.Err)
				c.mismatch("corr", p.Name+"-base-run-failed", A.Err, caseText(p.Name, seed, 0, "a"), "C07 base run", false)
				continue
			}
			c.res.Count(p.Name+"/base", caseText(p.Name, seed, 0, "a"), true)
			c.tie(p, seed, 0, "a", A)
			if dump {
				continue
			}
			for _, j := range A.IDs {
				B := c.run(p, seed, map[sharing.ID]string{j: "b"}, 0)
				if B == nil {
					continue
				}
				c.pairCheck(p, seed, j, A, B)
				if B.Err == "" {
					c.tie(p, seed, j, "b", B)
				}
			}
			if p.Signing && si == 0 {
				n := nSess
				if p.Heavy {
					n = 2
					if c.a.Tier == "thorough" {
						n = 4
					}
				}
				runs := []*obs{A}
				for s := 1; s < n; s++ {
					S := c.run(p, seed, labelsAll(A.IDs, fmt.Sprintf("s%d", s)), 0)
					if S == nil {
						continue
					}
					if S.Err == "" {
						c.tie(p, seed, 0, fmt.Sprintf("s%d", s), S)
					}
					runs = append(runs, S)
				}
				c.freshCheck(p, seed, runs)
			}
			// the per-read tape-sensitivity family
			if si == 0 {
				maxPer := 8
				var positions []int
				for pos := range A.IDs {
					positions = append(positions, pos)
				}
				if a.Tier == "thorough" || a.Search {
					maxPer = 24
				} else if p.Heavy {
					maxPer = 5
					positions = []int{pi % len(A.IDs)}
				}
				if !(p.NoQuickStingy && a.Tier != "thorough" && !a.Search) {
					c.sensitivity(p, seed, A, maxPer, positions)
				}
			}
			// the stingy-source family: tapes that serve at most k bytes per Read call
			if si == 0 && !(p.NoQuickStingy && a.Tier != "thorough" && !a.Search) {
				chunks := []int{[]int{1, 7, 31}[pi%3]}
				if a.Tier == "thorough" || a.Search {
					chunks = []int{1, 7, 31}
				}
				for ci, ch := range chunks {
					c.stingy(p, seed, ch, pi+ci)
				}
			}
		}
		res.Note("time %s: %.1fs", p.Name, time.Since(t0).Seconds())
	}
	if c.only == "" || strings.HasPrefix(c.only, "subctx") {
		t0 := time.Now()
		c.subctxFamily(a.Seed)
		c.shiftedWire(a.Seed)
		res.Note("time subctx: %.1fs", time.Since(t0).Seconds())
	}
	c.runModel()
	keys := make([]string, 0, len(c.specs))
	for k := range c.specs {
		keys = append(keys, k)
	}
	sort.Strings(keys)
	for _, k := range keys {
		res.Note("observed draws %s: %s", k, c.specs[k])
	}
	if a.Out != "" {
		res.Write(a.Out)
	} else {
		for _, m := range res.Mismatches {
			fmt.Printf("MISMATCH %s %s: %s\n", m.Kind, m.Key, m.Detail)
		}
		fmt.Printf("evaluations=%d distinct=%d mismatches=%d notes=%d\n", res.Evaluations, res.DistinctNontrivial, len(res.Mismatches), len(res.Notes))
		if dump {
			for _, n := range res.Notes {
				fmt.Println("note:", n)
			}
		}
	}
}

// parseReplay reads "case: <proto> seed=<n> ..." from a replay file.
func parseReplay(path string) (string, int64, bool) {
	b, err := os.ReadFile(path)
	if err != nil {
		return "", 0, false
	}
	for _, line := range strings.Split(string(b), "\n") {
		line = strings.TrimSpace(line)
		if !strings.HasPrefix(line, "case:") {
			continue
		}
		f := strings.Fields(strings.TrimPrefix(line, "case:"))
		if len(f) < 2 {
			return "", 0, false
		}
		var seed int64
		for _, x := range f[1:] {
			if strings.HasPrefix(x, "seed=") {
				fmt.Sscanf(x[5:], "%d", &seed)
			}
		}
		return f[0], seed, true
	}
	return "", 0, false
}
