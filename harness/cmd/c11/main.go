// c11 — correspondence harness for property C11 (router: exact routing under every
// delivery order; echo broadcast consistency).  See /verif/DESIGN.md §5 C11.
//
// The router under test runs over a harness Delivery whose arrival order is chosen by
// the checker.  Serialised schedules run inside a testing/synctest bubble: after every
// harness operation synctest.Wait() returns once every goroutine of the router (reader,
// receivers) is durably blocked, so the sequence of the router's atomic steps is known
// without sleeping and "did this ReceiveFrom return yet" is an exact observable.  The
// same operation list is replayed in the model extracted from coq/model/Router.v.
package main

import (
	"context"
	"errors"
	"fmt"
	"os"
	"os/exec"
	"path/filepath"
	"runtime"
	"sort"
	"strconv"
	"strings"
	"sync"
	"sync/atomic"
	"testing"
	"testing/synctest"
	"time"

	"github.com/bronlabs/bron-crypto/pkg/base"
	"github.com/bronlabs/bron-crypto/pkg/base/datastructures/hashmap"
	"github.com/bronlabs/bron-crypto/pkg/base/datastructures/hashset"
	"github.com/bronlabs/bron-crypto/pkg/base/serde"
	"github.com/bronlabs/bron-crypto/pkg/mpc/sharing"
	"github.com/bronlabs/bron-crypto/pkg/network"
	"github.com/bronlabs/bron-crypto/pkg/network/echo"

	"verif/harness/internal/vh"
)

const selfID = 9 // the party owning the router under test (member of every quorum used here)

// ---- operations -------------------------------------------------------------------------

type op struct {
	kind    byte // R D C U S E X
	rid     int
	from    uint64
	ns      []string
	cid     string
	payload []byte
	froms   []uint64
	pause   int
	pre     bool
}

func nsText(ns []string) string {
	if len(ns) == 0 {
		return "_"
	}
	p := make([]string, len(ns))
	for i, n := range ns {
		p[i] = vh.Hex([]byte(n))
	}
	return strings.Join(p, ".")
}

func idsText(ids []uint64, sep string) string {
	if len(ids) == 0 {
		return "_"
	}
	p := make([]string, len(ids))
	for i, x := range ids {
		p[i] = strconv.FormatUint(x, 10)
	}
	return strings.Join(p, sep)
}

func (o op) text() string {
	switch o.kind {
	case 'R':
		pre := "0"
		if o.pre {
			pre = "1"
		}
		return fmt.Sprintf("R,%d,%s,%s,%s,%d,%s", o.rid, nsText(o.ns), vh.Hex([]byte(o.cid)), idsText(o.froms, "+"), o.pause, pre)
	case 'D':
		return fmt.Sprintf("D,%d,%s,%s,%s", o.from, nsText(o.ns), vh.Hex([]byte(o.cid)), vh.Hex(o.payload))
	case 'C':
		return fmt.Sprintf("C,%d", o.rid)
	case 'U':
		return fmt.Sprintf("U,%d", o.rid)
	case 'X':
		return fmt.Sprintf("X,%d", o.from)
	default:
		return string(o.kind)
	}
}

func parseNS(s string) []string {
	if s == "_" || s == "" {
		return nil
	}
	var r []string
	for _, h := range strings.Split(s, ".") {
		r = append(r, string(vh.UnHex(h)))
	}
	return r
}

func parseIDs(s, sep string) []uint64 {
	if s == "_" || s == "" {
		return nil
	}
	var r []uint64
	for _, x := range strings.Split(s, sep) {
		v, _ := strconv.ParseUint(x, 10, 64)
		r = append(r, v)
	}
	return r
}

func parseOp(s string) op {
	f := strings.Split(s, ",")
	switch f[0] {
	case "R":
		rid, _ := strconv.Atoi(f[1])
		pause, _ := strconv.Atoi(f[5])
		return op{kind: 'R', rid: rid, ns: parseNS(f[2]), cid: string(vh.UnHex(f[3])), froms: parseIDs(f[4], "+"), pause: pause, pre: f[6] == "1"}
	case "D":
		from, _ := strconv.ParseUint(f[1], 10, 64)
		return op{kind: 'D', from: from, ns: parseNS(f[2]), cid: string(vh.UnHex(f[3])), payload: vh.UnHex(f[4])}
	case "C", "U":
		rid, _ := strconv.Atoi(f[1])
		return op{kind: f[0][0], rid: rid}
	case "X":
		from, _ := strconv.ParseUint(f[1], 10, 64)
		return op{kind: 'X', from: from}
	default:
		return op{kind: f[0][0]}
	}
}

type sched struct {
	quorum []uint64
	ops    []op
}

func (s sched) text() string {
	p := make([]string, len(s.ops))
	for i, o := range s.ops {
		p[i] = o.text()
	}
	ops := strings.Join(p, ";")
	if ops == "" {
		ops = "_"
	}
	return idsText(s.quorum, ",") + " " + ops
}

func parseSched(s string) sched {
	f := strings.SplitN(strings.TrimSpace(s), " ", 2)
	sc := sched{quorum: parseIDs(f[0], ",")}
	if len(f) > 1 && f[1] != "_" {
		for _, o := range strings.Split(f[1], ";") {
			sc.ops = append(sc.ops, parseOp(o))
		}
	}
	return sc
}

// ---- deliveries ----------------------------------------------------------------------------

type inMsg struct {
	from sharing.ID
	data []byte
	err  error
}

// ctlDelivery is the Delivery of the router under test.  Receive hands over exactly the
// messages the checker injects, in the checker's order.  It deliberately does not stop on
// context cancellation (the interface allows that), so the reader keeps running after Close
// like the model's reader; it ends when the harness closes the channel.
type ctlDelivery struct {
	self    sharing.ID
	quorum  []sharing.ID
	in      chan inMsg
	waiting atomic.Bool
	sent    func(to sharing.ID, data []byte) // outgoing traffic (echo scenarios)
}

func (d *ctlDelivery) PartyID() sharing.ID  { return d.self }
func (d *ctlDelivery) Quorum() []sharing.ID { return d.quorum }
func (d *ctlDelivery) Send(_ context.Context, to sharing.ID, m []byte) error {
	if d.sent != nil {
		d.sent(to, append([]byte(nil), m...))
	}
	return nil
}
func (d *ctlDelivery) Receive(_ context.Context) (sharing.ID, []byte, error) {
	d.waiting.Store(true)
	m, ok := <-d.in
	d.waiting.Store(false)
	if !ok {
		return 0, nil, errors.New("harness delivery closed")
	}
	return m.from, m.data, m.err
}

// wire produces the bytes a party's router puts on the wire for (namespace path, id, payload)
// through the public API: NewRouter(capture).Namespaced(..)...SendTo(..).
type wire struct {
	mu      sync.Mutex
	routers map[uint64]*network.Router
	caps    map[uint64]*ctlDelivery
	last    []byte
}

func newWire() *wire {
	return &wire{routers: map[uint64]*network.Router{}, caps: map[uint64]*ctlDelivery{}}
}

func (w *wire) encode(from uint64, ns []string, cid string, payload []byte) []byte {
	w.mu.Lock()
	defer w.mu.Unlock()
	rt, ok := w.routers[from]
	if !ok {
		d := &ctlDelivery{self: sharing.ID(from), quorum: []sharing.ID{sharing.ID(from), selfID}}
		d.sent = func(_ sharing.ID, data []byte) { w.last = data }
		rt = network.NewRouter(d)
		w.routers[from] = rt
		w.caps[from] = d
	}
	v := rt
	for _, n := range ns {
		v = v.Namespaced(n)
	}
	w.last = nil
	if err := v.SendTo(context.Background(), cid, map[sharing.ID][]byte{selfID: payload}); err != nil {
		panic("SendTo failed: " + err.Error())
	}
	return w.last
}

// ---- one receive call -------------------------------------------------------------------------

type rcv struct {
	rid      int
	key      string // reference key: (namespace path, id) as a tuple
	froms    []uint64
	pause    int
	cancel   context.CancelFunc
	resCh    chan string
	calls    atomic.Int32
	held     atomic.Bool
	release  chan struct{}
	released bool
	result   string
	when     int
	returned bool
	canc     bool
}

// hookCtx lets the checker hold a receiver between its locked scan and its select: the
// select evaluates ctx.Done() after the lock is released.  Only used for pause > 0.
type hookCtx struct {
	context.Context
	r *rcv
}

func (h *hookCtx) Done() <-chan struct{} {
	n := int(h.r.calls.Add(1))
	if h.r.pause > 0 && n == h.r.pause {
		h.r.held.Store(true)
		<-h.r.release
		h.r.held.Store(false)
	}
	return h.Context.Done()
}

func classify(res map[sharing.ID][]byte, err error) string {
	if err == nil {
		ids := make([]uint64, 0, len(res))
		for id := range res {
			ids = append(ids, uint64(id))
		}
		sort.Slice(ids, func(i, j int) bool { return ids[i] < ids[j] })
		p := make([]string, len(ids))
		for i, id := range ids {
			p[i] = fmt.Sprintf("%d=%s", id, vh.Hex(res[sharing.ID(id)]))
		}
		return "ok[" + strings.Join(p, "|") + "]"
	}
	switch {
	case errors.Is(err, network.ErrDuplicateMessage):
		ids := base.GetMaliciousIdentities[sharing.ID](err)
		p := make([]string, len(ids))
		for i, id := range ids {
			p[i] = strconv.FormatUint(uint64(id), 10)
		}
		sort.Strings(p)
		return "conflict(" + strings.Join(p, "+") + ")"
	case errors.Is(err, network.ErrRouterClosed):
		return "closed"
	case errors.Is(err, network.ErrReceiveBufferFull):
		return "bufferfull"
	case errors.Is(err, network.ErrInvalidArgument):
		return "concurrent"
	case errors.Is(err, context.Canceled):
		return "cancelled"
	case errors.Is(err, errReader):
		return "reader"
	default:
		// decode failures and other latched reader failures
		return "reader"
	}
}

var errReader = errors.New("harness: delivery failure")

func refKey(ns []string, cid string) string { return strings.Join(ns, "\x00") + "\x01" + cid }

// ---- reference bookkeeping for the property's own predicate ------------------------------------

// ref re-states the property on the harness side, independently of the Coq model: per
// (namespace path, id) and member sender the first payload handed to the reader since the
// last consumption, and the senders that retransmitted something different before consumption.
type ref struct {
	members  map[uint64]bool
	pending  map[string]map[uint64][]byte
	conflict map[string]map[uint64]bool
	total    int
	closed   bool // Close / reader failure happened: receives must fail or complete
	voided   bool // precondition of the property left (buffer bound reached)
	fails    []string
}

func newRef(quorum []uint64) *ref {
	r := &ref{members: map[uint64]bool{}, pending: map[string]map[uint64][]byte{}, conflict: map[string]map[uint64]bool{}}
	for _, q := range quorum {
		r.members[q] = true
	}
	return r
}

func (r *ref) deposit(from uint64, key string, p []byte) {
	if !r.members[from] {
		return
	}
	if r.pending[key] == nil {
		r.pending[key] = map[uint64][]byte{}
	}
	if old, ok := r.pending[key][from]; ok {
		if string(old) != string(p) {
			if r.conflict[key] == nil {
				r.conflict[key] = map[uint64]bool{}
			}
			r.conflict[key][from] = true
		}
		return
	}
	if r.total >= bufferBound {
		r.voided = true
		return
	}
	r.pending[key][from] = p
	r.total++
}

func dedupIDs(ids []uint64) []uint64 {
	seen := map[uint64]bool{}
	var r []uint64
	for _, x := range ids {
		if !seen[x] {
			seen[x] = true
			r = append(r, x)
		}
	}
	sort.Slice(r, func(i, j int) bool { return r[i] < r[j] })
	return r
}

// returned evaluates the property on one completed ReceiveFrom.
func (r *ref) returned(rc *rcv, result string) {
	if r.voided {
		return
	}
	switch {
	case strings.HasPrefix(result, "ok["):
		want := dedupIDs(rc.froms)
		p := make([]string, len(want))
		okAll := true
		for i, f := range want {
			pl, ok := r.pending[rc.key][f]
			if !ok {
				okAll = false
			}
			p[i] = fmt.Sprintf("%d=%s", f, vh.Hex(pl))
		}
		exp := "ok[" + strings.Join(p, "|") + "]"
		if !okAll {
			r.fails = append(r.fails, fmt.Sprintf("payload-never-sent: r%d returned %s although a requested sender has no undelivered message under that id", rc.rid, result))
		} else if exp != result {
			r.fails = append(r.fails, fmt.Sprintf("wrong-payload: r%d returned %s, the senders sent %s under that id", rc.rid, result, exp))
		} else if len(r.conflict[rc.key]) > 0 {
			r.fails = append(r.fails, fmt.Sprintf("conflict-not-reported: r%d returned %s after a conflicting retransmission under that id", rc.rid, result))
		}
		for _, f := range want {
			if _, ok := r.pending[rc.key][f]; ok {
				delete(r.pending[rc.key], f)
				r.total--
			}
		}
	case strings.HasPrefix(result, "conflict("):
		ids := strings.TrimSuffix(strings.TrimPrefix(result, "conflict("), ")")
		good := ids != ""
		for _, x := range strings.Split(ids, "+") {
			v, err := strconv.ParseUint(x, 10, 64)
			if err != nil || !r.conflict[rc.key][v] {
				good = false
			}
		}
		if !good {
			r.fails = append(r.fails, fmt.Sprintf("wrong-blame: r%d failed with %s, conflicting senders under that id: %v", rc.rid, result, r.conflict[rc.key]))
		}
	case result == "bufferfull":
		// not voided: fewer undelivered messages than the bound were ever outstanding
		r.fails = append(r.fails, fmt.Sprintf("bufferfull-below-bound: r%d failed with buffer-full although only %d (< %d) messages were undelivered", rc.rid, r.total, bufferBound))
	case result == "closed" || result == "reader":
		if !r.closed {
			r.fails = append(r.fails, fmt.Sprintf("spurious-failure: r%d failed with %s although the router was neither closed nor did its delivery fail", rc.rid, result))
		}
	case result == "cancelled":
		if !rc.canc {
			r.fails = append(r.fails, fmt.Sprintf("spurious-cancel: r%d reported cancellation, its context was never cancelled", rc.rid))
		}
	}
}

// mustHaveReturned: the receive has everything it needs to terminate.
func (r *ref) mustHaveReturned(rc *rcv) bool {
	if r.voided {
		return false
	}
	if rc.canc || r.closed || len(r.conflict[rc.key]) > 0 {
		return true
	}
	for _, f := range dedupIDs(rc.froms) {
		if _, ok := r.pending[rc.key][f]; !ok {
			return false
		}
	}
	return true
}

var bufferBound = 10000 // documented bound; replaced by the regenerated constant at start-up

// ---- serialised execution inside a synctest bubble ------------------------------------------------

type outcome struct {
	results   string   // "r0@3:ok[..] r1@-:parked" — compared with the model
	propFails []string // violations of the property's own predicate
	skipped   int      // D operations that found no reader
}

var hooksSupported = true

func runSerial(t *testing.T, sc sched) (out outcome) {
	w := newWire()
	// wire bytes are produced outside the bubble (no goroutines involved)
	type enc struct{ data []byte }
	encs := make([]enc, len(sc.ops))
	for i, o := range sc.ops {
		if o.kind == 'D' {
			encs[i] = enc{w.encode(o.from, o.ns, o.cid, o.payload)}
		}
	}
	synctest.Test(t, func(t *testing.T) {
		q := make([]sharing.ID, len(sc.quorum))
		for i, x := range sc.quorum {
			q[i] = sharing.ID(x)
		}
		d := &ctlDelivery{self: selfID, quorum: q, in: make(chan inMsg)}
		rt := network.NewRouter(d)
		rf := newRef(sc.quorum)
		var rcvs []*rcv
		byRid := map[int]*rcv{}
		poll := func(idx int) {
			synctest.Wait()
			for _, r := range rcvs {
				if r.returned {
					continue
				}
				select {
				case res := <-r.resCh:
					r.returned, r.result, r.when = true, res, idx
					rf.returned(r, res)
				default:
				}
			}
			for _, r := range rcvs {
				if !r.returned && !r.held.Load() && rf.mustHaveReturned(r) {
					rf.fails = append(rf.fails, fmt.Sprintf("deadlock: r%d still blocked after op %d although its messages were deposited / it was cancelled / the router failed", r.rid, idx))
					r.returned, r.result, r.when = true, "stuck", idx
				}
			}
		}
		for idx, o := range sc.ops {
			switch o.kind {
			case 'R':
				r := &rcv{rid: o.rid, key: refKey(o.ns, o.cid), froms: o.froms, pause: o.pause, resCh: make(chan string, 1), release: make(chan struct{}), result: "parked", when: -1}
				if !hooksSupported {
					r.pause = 0
				}
				base, cancel := context.WithCancel(context.Background())
				r.cancel = cancel
				var ctx context.Context = base
				if r.pause > 0 {
					ctx = &hookCtx{base, r}
				}
				if o.pre {
					cancel()
					r.canc = true
				}
				rcvs = append(rcvs, r)
				byRid[o.rid] = r
				v := rt
				for _, n := range o.ns {
					v = v.Namespaced(n)
				}
				froms := make([]sharing.ID, len(o.froms))
				for i, f := range o.froms {
					froms[i] = sharing.ID(f)
				}
				cidStr := o.cid
				go func() {
					var res map[sharing.ID][]byte
					var err error
					if p := vh.Safely(func() { res, err = v.ReceiveFrom(ctx, cidStr, froms...) }); p != "" {
						r.resCh <- "panic"
						return
					}
					r.resCh <- classify(res, err)
				}()
			case 'D':
				if d.waiting.Load() {
					d.in <- inMsg{from: sharing.ID(o.from), data: encs[idx].data}
					rf.deposit(o.from, refKey(o.ns, o.cid), o.payload)
				} else {
					out.skipped++
				}
			case 'X':
				if d.waiting.Load() {
					d.in <- inMsg{from: sharing.ID(o.from), data: []byte{0xff, 0x00, 0x13}}
					if rf.members[o.from] {
						rf.closed = true
					}
				}
			case 'E':
				if d.waiting.Load() {
					d.in <- inMsg{err: errReader}
					rf.closed = true
				}
			case 'C':
				if r := byRid[o.rid]; r != nil {
					r.cancel()
					if !r.returned {
						r.canc = true
					}
				}
			case 'U':
				if r := byRid[o.rid]; r != nil && !r.released {
					r.released = true
					close(r.release)
				}
			case 'S':
				rt.Close()
				rf.closed = true
			}
			poll(idx)
		}
		// results, then tear everything down so that the bubble can end
		sort.SliceStable(rcvs, func(i, j int) bool { return rcvs[i].rid < rcvs[j].rid })
		parts := make([]string, len(rcvs))
		for i, r := range rcvs {
			when := "-"
			if r.when >= 0 {
				when = strconv.Itoa(r.when)
			}
			parts[i] = fmt.Sprintf("r%d@%s:%s", r.rid, when, r.result)
		}
		out.results = strings.Join(parts, " ")
		out.propFails = rf.fails
		for _, r := range rcvs {
			if !r.released {
				r.released = true
				close(r.release)
			}
			r.cancel()
		}
		rt.Close()
		close(d.in)
		synctest.Wait()
	})
	return out
}

// ---- generators -------------------------------------------------------------------------------------

type gcase struct {
	class string
	sc    sched
}

func permutations(n int, f func([]int)) {
	p := make([]int, n)
	for i := range p {
		p[i] = i
	}
	var rec func(k int)
	rec = func(k int) {
		if k == n {
			f(p)
			return
		}
		for i := k; i < n; i++ {
			p[k], p[i] = p[i], p[k]
			rec(k + 1)
			p[k], p[i] = p[i], p[k]
		}
	}
	rec(0)
}

// systematic: one target receive on (ns "a", id "bc") expecting k senders; arrivals are the k
// expected messages plus up to two extras (identical retransmission, conflicting retransmission,
// same sender under the other id / under the other namespace — chosen so that the full ids would
// collide if the separator were dropped —, a non-member); every arrival order, every placement of
// the receive among the arrivals, every placement of a cancellation after it; probe receives at the
// end show that nothing was lost and that the other mailboxes got exactly their own messages.
func genSystematic(thorough bool) []gcase {
	quorum := []uint64{1, 2, 3, selfID}
	nsA, nsB := []string{"a"}, []string{"ab"}
	cidA, cidB := "bc", "c"
	type extra struct {
		name string
		o    op
	}
	extras := []extra{
		{"same", op{kind: 'D', from: 1, ns: nsA, cid: cidA, payload: []byte{0x11}}},
		{"conflict", op{kind: 'D', from: 1, ns: nsA, cid: cidA, payload: []byte{0xee}}},
		{"otherid", op{kind: 'D', from: 1, ns: nsA, cid: cidB, payload: []byte{0xc1}}},
		{"otherns", op{kind: 'D', from: 1, ns: nsB, cid: cidB, payload: []byte{0xc2}}},
		{"nonmember", op{kind: 'D', from: 7, ns: nsA, cid: cidA, payload: []byte{0x77}}},
	}
	var subsets [][]int
	subsets = append(subsets, nil)
	for i := range extras {
		subsets = append(subsets, []int{i})
	}
	for i := range extras {
		for j := i + 1; j < len(extras); j++ {
			subsets = append(subsets, []int{i, j})
		}
	}
	seen := map[string]bool{}
	var res []gcase
	for k := 1; k <= 3; k++ {
		for _, sub := range subsets {
			if k == 3 && len(sub) > 1 && !thorough {
				continue
			}
			var msgs []op
			var froms []uint64
			for f := 1; f <= k; f++ {
				msgs = append(msgs, op{kind: 'D', from: uint64(f), ns: nsA, cid: cidA, payload: []byte{byte(0x10 + f)}})
				froms = append(froms, uint64(f))
			}
			name := fmt.Sprintf("sys-k%d", k)
			for _, e := range sub {
				msgs = append(msgs, extras[e].o)
				name += "-" + extras[e].name
			}
			n := len(msgs)
			permutations(n, func(p []int) {
				for pos := 0; pos <= n; pos++ {
					// cancel placement: -1 none; c in pos..n = after c arrivals (c >= pos)
					for c := -1; c <= n; c++ {
						if c >= 0 && c < pos {
							continue
						}
						if c >= 0 && !thorough && k+len(sub) >= 4 && (c-pos)%2 == 1 {
							continue
						}
						var ops []op
						ops = append(ops, op{kind: 'R', rid: 0, ns: nil, cid: "boot"})
						for i := 0; i <= n; i++ {
							if i == pos {
								ops = append(ops, op{kind: 'R', rid: 1, ns: nsA, cid: cidA, froms: froms})
							}
							if i == c {
								ops = append(ops, op{kind: 'C', rid: 1})
							}
							if i < n {
								ops = append(ops, msgs[p[i]])
							}
						}
						ops = append(ops,
							op{kind: 'R', rid: 2, ns: nsA, cid: cidA, froms: froms},
							op{kind: 'C', rid: 2},
							op{kind: 'R', rid: 3, ns: nsA, cid: cidB, froms: []uint64{1}},
							op{kind: 'C', rid: 3},
							op{kind: 'R', rid: 4, ns: nsB, cid: cidB, froms: []uint64{1}},
							op{kind: 'C', rid: 4},
							op{kind: 'R', rid: 5, ns: nsB, cid: cidA, froms: []uint64{1}, pre: true})
						sc := sched{quorum, ops}
						t := sc.text()
						if !seen[t] {
							seen[t] = true
							res = append(res, gcase{name, sc})
						}
					}
				}
			})
		}
	}
	return res
}

// window: the receiver is held between its locked scan and its select (first park) while the
// decisive event happens, then released: the token / cancellation / failure must not be lost.
func genWindow() []gcase {
	quorum := []uint64{1, 2, selfID}
	var res []gcase
	ns := []string{"w"}
	for k := 1; k <= 2; k++ {
		var froms []uint64
		for f := 1; f <= k; f++ {
			froms = append(froms, uint64(f))
		}
		for variant := 0; variant < 10; variant++ {
			ops := []op{{kind: 'R', rid: 0, cid: "boot"}, {kind: 'R', rid: 1, ns: ns, cid: "x", froms: froms, pause: 1}}
			name := ""
			switch variant {
			case 0:
				name = "deposit"
				for f := 1; f <= k; f++ {
					ops = append(ops, op{kind: 'D', from: uint64(f), ns: ns, cid: "x", payload: []byte{byte(f)}})
				}
			case 1:
				name = "cancel"
				ops = append(ops, op{kind: 'C', rid: 1})
			case 2:
				name = "close"
				ops = append(ops, op{kind: 'S'})
			case 3:
				name = "readerr"
				ops = append(ops, op{kind: 'E'})
			case 4:
				name = "conflict"
				ops = append(ops, op{kind: 'D', from: 1, ns: ns, cid: "x", payload: []byte{1}}, op{kind: 'D', from: 1, ns: ns, cid: "x", payload: []byte{2}})
			case 6, 7, 8, 9:
				// the set completes in the window and then the router fails / the call is cancelled /
				// a conflict arrives: the scan's priority (poison > complete > failure > cancellation) decides
				name = []string{"deposit-close", "deposit-cancel", "deposit-readerr", "deposit-conflict"}[variant-6]
				for f := 1; f <= k; f++ {
					ops = append(ops, op{kind: 'D', from: uint64(f), ns: ns, cid: "x", payload: []byte{byte(f)}})
				}
				switch variant {
				case 6:
					ops = append(ops, op{kind: 'S'})
				case 7:
					ops = append(ops, op{kind: 'C', rid: 1})
				case 8:
					ops = append(ops, op{kind: 'E'})
				default:
					ops = append(ops, op{kind: 'D', from: 1, ns: ns, cid: "x", payload: []byte{0xee}})
				}
			case 5:
				name = "deposit-dup"
				for f := 1; f <= k; f++ {
					ops = append(ops, op{kind: 'D', from: uint64(f), ns: ns, cid: "x", payload: []byte{byte(f)}})
					ops = append(ops, op{kind: 'D', from: uint64(f), ns: ns, cid: "x", payload: []byte{byte(f)}})
				}
			}
			ops = append(ops, op{kind: 'U', rid: 1})
			res = append(res, gcase{fmt.Sprintf("window-%s-k%d", name, k), sched{quorum, ops}})
			// second park held: first deposit wakes, second arrives in the window
			if variant == 0 && k == 2 {
				ops2 := []op{{kind: 'R', rid: 0, cid: "boot"}, {kind: 'R', rid: 1, ns: ns, cid: "x", froms: froms, pause: 2},
					{kind: 'D', from: 1, ns: ns, cid: "x", payload: []byte{1}}, {kind: 'D', from: 2, ns: ns, cid: "x", payload: []byte{2}}, {kind: 'U', rid: 1}}
				res = append(res, gcase{"window-deposit-second-park", sched{quorum, ops2}})
			}
		}
	}
	return res
}

// random long schedules over several namespaces / ids with identical and conflicting
// retransmissions, non-member senders, concurrent receives on one id, duplicate and empty
// sender lists, pauses, cancellations, and (rarely) Close / reader failure / garbage.
func genRandom(seed int64, count int, search bool) []gcase {
	var res []gcase
	nss := [][]string{nil, {"a"}, {"ab"}, {"a", "b"}, {"a", "bc"}, {"x", "y", "z"}}
	cids := []string{"c", "bc", "b", "x:1", ""}
	pool := [][]byte{nil, {0}, {1}, {1, 2}, {0xff}, []byte("payload-A"), []byte("payload-B")}
	for i := 0; i < count; i++ {
		stream := "random"
		if search {
			stream = "search"
		}
		r := vh.NewRng(seed, "C11", stream, i)
		nm := 2 + r.Intn(3)
		quorum := []uint64{selfID}
		for m := 1; m <= nm; m++ {
			quorum = append(quorum, uint64(m))
		}
		senders := append([]uint64{}, quorum[1:]...)
		senders = append(senders, 7, 8)
		// a small working set of mailboxes makes collisions of interest frequent
		type box struct {
			ns  []string
			cid string
		}
		nb := 1 + r.Intn(4)
		var boxesL []box
		for b := 0; b < nb; b++ {
			boxesL = append(boxesL, box{vh.Pick(r, nss), vh.Pick(r, cids)})
		}
		n := 8 + r.Intn(40)
		if i%10 == 0 {
			n = 80 + r.Intn(120)
		}
		var ops []op
		if !r.Chance(1, 12) {
			ops = append(ops, op{kind: 'R', rid: 0, cid: "boot"})
		}
		rid := 1
		fatalAt := -1
		if r.Chance(1, 6) {
			fatalAt = n/2 + r.Intn(n/2)
		}
		for len(ops) < n {
			b := vh.Pick(r, boxesL)
			if len(ops) == fatalAt {
				switch r.Intn(3) {
				case 0:
					ops = append(ops, op{kind: 'S'})
				case 1:
					ops = append(ops, op{kind: 'E'})
				default:
					ops = append(ops, op{kind: 'X', from: vh.Pick(r, senders)})
				}
				continue
			}
			switch x := r.Intn(100); {
			case x < 55:
				from := vh.Pick(r, senders)
				if r.Chance(4, 5) {
					from = senders[r.Intn(nm)]
				}
				ops = append(ops, op{kind: 'D', from: from, ns: b.ns, cid: b.cid, payload: vh.Pick(r, pool)})
			case x < 80:
				var froms []uint64
				switch r.Intn(10) {
				case 0: // empty
				case 1: // with a duplicate
					f := senders[r.Intn(nm)]
					froms = []uint64{f, f}
				case 2: // includes a non-member: can never complete
					froms = []uint64{senders[r.Intn(nm)], 7}
				default:
					for _, s := range senders[:nm] {
						if r.Chance(1, 2) {
							froms = append(froms, s)
						}
					}
					if len(froms) == 0 {
						froms = []uint64{senders[r.Intn(nm)]}
					}
				}
				o := op{kind: 'R', rid: rid, ns: b.ns, cid: b.cid, froms: froms}
				if r.Chance(1, 8) {
					o.pause = 1 + r.Intn(2)
				}
				if r.Chance(1, 15) {
					o.pre = true
				}
				rid++
				ops = append(ops, o)
			case x < 92:
				if rid > 1 {
					ops = append(ops, op{kind: 'C', rid: 1 + r.Intn(rid-1)})
				}
			default:
				if rid > 1 {
					ops = append(ops, op{kind: 'U', rid: 1 + r.Intn(rid-1)})
				}
			}
		}
		res = append(res, gcase{"random", sched{quorum, ops}})
	}
	return res
}

// two receives on different mailboxes (2 ids x 2 namespaces), arrivals interleaved at random
func genTwoReceivers(seed int64, count int) []gcase {
	var res []gcase
	quorum := []uint64{1, 2, 3, selfID}
	keys := []struct {
		ns  []string
		cid string
	}{{[]string{"a"}, "bc"}, {[]string{"a"}, "c"}, {[]string{"ab"}, "c"}, {[]string{"ab"}, "bc"}}
	for i := 0; i < count; i++ {
		r := vh.NewRng(seed, "C11", "two", i)
		k1 := r.Intn(4)
		k2 := (k1 + 1 + r.Intn(3)) % 4
		var items []op
		items = append(items, op{kind: 'R', rid: 1, ns: keys[k1].ns, cid: keys[k1].cid, froms: []uint64{1, 2}})
		items = append(items, op{kind: 'R', rid: 2, ns: keys[k2].ns, cid: keys[k2].cid, froms: []uint64{2, 3}})
		for _, k := range []int{k1, k2} {
			for f := uint64(1); f <= 3; f++ {
				items = append(items, op{kind: 'D', from: f, ns: keys[k].ns, cid: keys[k].cid, payload: []byte{byte(k), byte(f)}})
			}
		}
		if r.Chance(1, 2) {
			items = append(items, op{kind: 'D', from: 2, ns: keys[k1].ns, cid: keys[k1].cid, payload: []byte{byte(k1), 2}})
		}
		if r.Chance(1, 3) {
			items = append(items, op{kind: 'D', from: 2, ns: keys[k2].ns, cid: keys[k2].cid, payload: []byte{0xbd}})
		}
		for j := len(items) - 1; j > 0; j-- {
			k := r.Intn(j + 1)
			items[j], items[k] = items[k], items[j]
		}
		ops := append([]op{{kind: 'R', rid: 0, cid: "boot"}}, items...)
		ops = append(ops, op{kind: 'C', rid: 1}, op{kind: 'C', rid: 2})
		res = append(res, gcase{"two-receivers", sched{quorum, ops}})
	}
	return res
}

// buffer bound: fill the router to the bound, consume, refill, then exceed it
func genOverflow(bound int) []gcase {
	if bound > 20000 || bound < 1 {
		return nil
	}
	per := 100
	nm := per
	quorum := []uint64{selfID}
	for m := 1; m <= nm; m++ {
		quorum = append(quorum, uint64(m))
	}
	mk := func(extra int) sched {
		ops := []op{{kind: 'R', rid: 0, cid: "boot"}, {kind: 'R', rid: 1, ns: []string{"park"}, cid: "p", froms: []uint64{1}}}
		total := bound + extra
		for i := 0; i < total; i++ {
			ops = append(ops, op{kind: 'D', from: uint64(1 + i%per), ns: []string{"o"}, cid: strconv.Itoa(i / per), payload: []byte{byte(i), byte(i >> 8)}})
			if i == bound-1 {
				// exactly at the bound: consume one mailbox (frees `per` slots or fewer) and keep going
				var all []uint64
				lastBox := (bound - 1) / per
				for j := lastBox * per; j < bound; j++ {
					all = append(all, uint64(1+j%per))
				}
				ops = append(ops, op{kind: 'R', rid: 2, ns: []string{"o"}, cid: strconv.Itoa(lastBox), froms: all})
				// refill what was consumed
				for j := lastBox * per; j < bound; j++ {
					ops = append(ops, op{kind: 'D', from: uint64(1 + j%per), ns: []string{"o"}, cid: strconv.Itoa(lastBox), payload: []byte{9}})
				}
				// an identical retransmission at the bound is absorbed, not an overflow
				ops = append(ops, op{kind: 'D', from: 1, ns: []string{"o"}, cid: "0", payload: []byte{0, 0}})
			}
		}
		ops = append(ops, op{kind: 'R', rid: 3, ns: []string{"o"}, cid: "0", froms: []uint64{1}})
		return sched{quorum, ops}
	}
	return []gcase{{"at-bound", mk(0)}, {"overflow", mk(1)}}
}

// ---- comparison ------------------------------------------------------------------------------------------

type evalRes struct {
	impl  outcome
	model string
}

func modelResults(a vh.Args, kind string, texts []string) ([]string, error) {
	lines := make([]string, len(texts))
	for i, t := range texts {
		lines[i] = fmt.Sprintf("%s %d %s", kind, i, t)
	}
	out, err := vh.Driver(a.Driver, lines)
	if err != nil {
		return nil, err
	}
	res := make([]string, len(out))
	for i, l := range out {
		f := strings.SplitN(l, " ", 3)
		if len(f) == 3 {
			res[i] = f[2]
		}
	}
	return res, nil
}

func failKey(f string) string {
	if i := strings.Index(f, ":"); i > 0 {
		return f[:i]
	}
	return "prop"
}

// shrink removes operations (chunks first, then single ones) while the schedule still fails in
// the same way; bounded by a run budget and a time limit so that huge schedules stay cheap.
func shrink(t *testing.T, a vh.Args, sc sched, stillFails func(sched) bool) sched {
	budget := 400 // candidate runs
	work := 600000 // operations executed over all candidate runs
	spend := func(n int) bool {
		if budget <= 0 || work <= 0 {
			return false
		}
		budget--
		work -= n
		return true
	}
	for chunk := len(sc.ops) / 2; chunk >= 1; chunk /= 2 {
		for i := len(sc.ops) - chunk; i >= 0; i -= chunk {
			if len(sc.ops)-chunk < 1 || i+chunk > len(sc.ops) {
				continue
			}
			if !spend(len(sc.ops)) {
				return sc
			}
			cand := sched{sc.quorum, append(append([]op{}, sc.ops[:i]...), sc.ops[i+chunk:]...)}
			if stillFails(cand) {
				sc = cand
			}
		}
	}
	for pass := 0; pass < 2; pass++ {
		for i := len(sc.ops) - 1; i >= 0 && len(sc.ops) > 1; i-- {
			if i >= len(sc.ops) {
				continue
			}
			if !spend(len(sc.ops)) {
				return sc
			}
			cand := sched{sc.quorum, append(append([]op{}, sc.ops[:i]...), sc.ops[i+1:]...)}
			if stillFails(cand) {
				sc = cand
			}
		}
	}
	return sc
}

func evalSerial(t *testing.T, a vh.Args, res *vh.Result, cases []gcase) {
	texts := make([]string, len(cases))
	for i, c := range cases {
		texts[i] = c.sc.text()
	}
	model, err := modelResults(a, "S", texts)
	if err != nil {
		res.Mismatch(vh.Mismatch{ID: "driver", Kind: "corr", Key: "model-driver-failed", Detail: err.Error(), What: "extracted router model could not be evaluated"})
		return
	}
	reported := map[string]int{}
	for i, c := range cases {
		out := runSerial(t, c.sc)
		nontrivial := strings.Contains(out.results, "ok[") || strings.Contains(out.results, "conflict(")
		res.Count(c.class, texts[i], nontrivial)
		corr := out.results != model[i]
		if !corr && len(out.propFails) == 0 {
			continue
		}
		key := "router-model-mismatch"
		kind := "corr"
		if len(out.propFails) > 0 {
			key = failKey(out.propFails[0])
			if !corr {
				kind = "prop"
			}
		}
		if reported[key] >= 3 {
			continue
		}
		reported[key]++
		wantProp := len(out.propFails) > 0
		small := shrink(t, a, c.sc, func(s sched) bool {
			o := runSerial(t, s)
			if wantProp {
				return len(o.propFails) > 0 && failKey(o.propFails[0]) == key
			}
			m, err := modelResults(a, "S", []string{s.text()})
			return err == nil && o.results != m[0] && len(o.propFails) == 0
		})
		so := runSerial(t, small)
		sm, _ := modelResults(a, "S", []string{small.text()})
		smodel := ""
		if len(sm) > 0 {
			smodel = sm[0]
		}
		res.Mismatch(vh.Mismatch{
			ID: fmt.Sprintf("%s-%d", c.class, i), Kind: kind, Key: key,
			Detail:   fmt.Sprintf("implementation: %s || model: %s || property predicate: %s", so.results, smodel, strings.Join(so.propFails, "; ")),
			Case:     "S " + small.text(),
			PropFail: len(so.propFails) > 0,
			What:     "correspondence router.go <-> coq/model/Router.v (C11_recv_exact, C11_dup_absorbed, C11_conflict_poisons, C11_cancel_loses_nothing, C11_no_lost_wakeup)",
		})
	}
}

// ---- echo broadcast over real routers ----------------------------------------------------------------------

type hpart struct{}
type hmsg struct {
	V []byte `cbor:"v"`
}

func (m *hmsg) Validate(*hpart, sharing.ID) error { return nil }

type echoCase struct {
	quorum []uint64
	eq     uint64 // 0 = nobody equivocates
	groupA []uint64
	msgs   map[uint64][]byte
	m2     []byte
	seed   int64
	idx    int
	dup    bool
}

func (e echoCase) text() string {
	ids := append([]uint64{}, e.quorum...)
	p := make([]string, len(ids))
	for i, id := range ids {
		b, err := serde.MarshalCBOR(&hmsg{V: e.msgs[id]})
		if err != nil {
			panic(err)
		}
		p[i] = fmt.Sprintf("%d=%s", id, vh.Hex(b))
	}
	b2, _ := serde.MarshalCBOR(&hmsg{V: e.m2})
	return fmt.Sprintf("%s %d %s %s %s", idsText(e.quorum, ","), e.eq, idsText(e.groupA, ","), strings.Join(p, ","), vh.Hex(b2))
}

// runEcho: every party runs echo.ExchangeEchoBroadcast over its own router; the hub delivers the
// sent messages one at a time in an order drawn from the seed, optionally re-delivering
// duplicates.  The equivocator is two honest-looking faces: face 1 (message msgs[eq]) only reaches
// group A, face 2 (message m2) only reaches the others; both faces see all incoming traffic.
func runEcho(t *testing.T, e echoCase) (string, []string) {
	var results string
	var fails []string
	synctest.Test(t, func(t *testing.T) {
		r := vh.NewRng(e.seed, "C11", "echo-order", e.idx)
		type pend struct {
			from, to uint64
			face     int
			data     []byte
		}
		var mu sync.Mutex
		var pool []pend
		q := make([]sharing.ID, len(e.quorum))
		for i, x := range e.quorum {
			q[i] = sharing.ID(x)
		}
		qs := hashset.NewComparable(q...).Freeze()
		inA := map[uint64]bool{}
		for _, x := range e.groupA {
			inA[x] = true
		}
		type party struct {
			id   uint64
			face int
			d    *ctlDelivery
			rt   *network.Router
			res  chan string
		}
		var parties []*party
		mk := func(id uint64, face int, msg []byte) {
			p := &party{id: id, face: face, res: make(chan string, 1)}
			p.d = &ctlDelivery{self: sharing.ID(id), quorum: q, in: make(chan inMsg)}
			p.d.sent = func(to sharing.ID, data []byte) {
				if face == 1 && !inA[uint64(to)] || face == 2 && inA[uint64(to)] {
					return
				}
				mu.Lock()
				pool = append(pool, pend{id, uint64(to), face, data})
				mu.Unlock()
			}
			p.rt = network.NewRouter(p.d)
			parties = append(parties, p)
			go func() {
				out, err := echo.ExchangeEchoBroadcast[*hmsg, *hpart](context.Background(), p.rt.Namespaced("sess"), "r1", qs, &hmsg{V: msg})
				if err != nil {
					p.res <- "failed"
					return
				}
				m := map[sharing.ID][]byte{}
				for id, v := range out.Iter() {
					b, _ := serde.MarshalCBOR(v)
					m[id] = b
				}
				p.res <- classify(m, nil)
			}()
		}
		for _, id := range e.quorum {
			if id == e.eq {
				mk(id, 1, e.msgs[id])
				mk(id, 2, e.m2)
			} else {
				mk(id, 0, e.msgs[id])
			}
		}
		synctest.Wait()
		for steps := 0; steps < 10000; steps++ {
			mu.Lock()
			if len(pool) == 0 {
				mu.Unlock()
				break
			}
			i := r.Intn(len(pool))
			m := pool[i]
			if !(e.dup && r.Chance(1, 4)) {
				pool = append(pool[:i], pool[i+1:]...)
			}
			mu.Unlock()
			for _, p := range parties {
				if p.id == m.to && p.d.waiting.Load() {
					p.d.in <- inMsg{from: sharing.ID(m.from), data: m.data}
				}
			}
			synctest.Wait()
		}
		var parts []string
		got := map[uint64]string{}
		for _, p := range parties {
			if p.face != 0 {
				continue
			}
			select {
			case x := <-p.res:
				got[p.id] = x
			default:
				got[p.id] = "stuck"
				fails = append(fails, fmt.Sprintf("deadlock: party %d did not finish echo broadcast although every message was delivered", p.id))
			}
			parts = append(parts, fmt.Sprintf("%d:%s", p.id, got[p.id]))
		}
		results = strings.Join(parts, " ")
		// agreement among honest acceptors, on every sender
		var acc []uint64
		for id, x := range got {
			if strings.HasPrefix(x, "ok[") {
				acc = append(acc, id)
			}
		}
		sort.Slice(acc, func(i, j int) bool { return acc[i] < acc[j] })
		view := func(x string) map[string]string {
			m := map[string]string{}
			for _, kv := range strings.Split(strings.TrimSuffix(strings.TrimPrefix(x, "ok["), "]"), "|") {
				if f := strings.SplitN(kv, "=", 2); len(f) == 2 {
					m[f[0]] = f[1]
				}
			}
			return m
		}
		for i := 0; i < len(acc); i++ {
			for j := i + 1; j < len(acc); j++ {
				vi, vj := view(got[acc[i]]), view(got[acc[j]])
				for s, p := range vi {
					if p2, ok := vj[s]; ok && p2 != p {
						fails = append(fails, fmt.Sprintf("echo-disagreement: parties %d and %d both accepted but hold %s and %s from sender %s", acc[i], acc[j], p, p2, s))
					}
				}
			}
		}
		// honest senders' own messages are what acceptors hold
		for _, a := range acc {
			for s, p := range view(got[a]) {
				sid, _ := strconv.ParseUint(s, 10, 64)
				if sid != e.eq {
					b, _ := serde.MarshalCBOR(&hmsg{V: e.msgs[sid]})
					if vh.Hex(b) != p {
						fails = append(fails, fmt.Sprintf("echo-wrong-payload: party %d holds %s from honest sender %d", a, p, sid))
					}
				}
			}
		}
		for _, p := range parties {
			p.rt.Close()
			close(p.d.in)
		}
		synctest.Wait()
	})
	return results, fails
}

// roundByRound drives the real echo.Participant round functions directly (no router, no runner):
// every party's Round1/Round2/Round3 with exactly the inputs the case prescribes; the equivocator
// is two participants (faces), face 1 heard by group A, face 2 by the others.
func roundByRound(e echoCase) string {
	type part = echo.Participant[*hmsg, *hpart]
	type r1m = *echo.Round1P2P[*hmsg, *hpart]
	type r2m = *echo.Round2P2P[*hmsg, *hpart]
	q := make([]sharing.ID, len(e.quorum))
	for i, x := range e.quorum {
		q[i] = sharing.ID(x)
	}
	qs := hashset.NewComparable(q...).Freeze()
	inA := map[uint64]bool{}
	for _, x := range e.groupA {
		inA[x] = true
	}
	type pf struct {
		id   uint64
		face int
		p    *part
		r1   map[sharing.ID]r1m
		r2   map[sharing.ID]r2m
		fail bool
	}
	var ps []*pf
	for _, id := range e.quorum {
		faces := []int{0}
		if id == e.eq {
			faces = []int{1, 2}
		}
		for _, f := range faces {
			p, err := echo.NewParticipant[*hmsg, *hpart](sharing.ID(id), qs)
			if err != nil {
				return "error"
			}
			ps = append(ps, &pf{id: id, face: f, p: p, r1: map[sharing.ID]r1m{}, r2: map[sharing.ID]r2m{}})
		}
	}
	heard := func(src *pf, dst uint64) bool {
		return src.face == 0 || src.face == 1 && inA[dst] || src.face == 2 && !inA[dst]
	}
	for _, src := range ps {
		msg := e.msgs[src.id]
		if src.face == 2 {
			msg = e.m2
		}
		out, err := src.p.Round1(&hmsg{V: msg})
		if err != nil {
			return "error"
		}
		for _, dst := range ps {
			if dst.id != src.id && heard(src, dst.id) {
				if m, ok := out.Get(sharing.ID(dst.id)); ok {
					dst.r1[sharing.ID(src.id)] = m
				}
			}
		}
	}
	for _, src := range ps {
		out, err := src.p.Round2(hashmap.NewImmutableComparableFromNativeLike(src.r1))
		if err != nil {
			src.fail = true
			continue
		}
		for _, dst := range ps {
			if dst.id != src.id && heard(src, dst.id) {
				if m, ok := out.Get(sharing.ID(dst.id)); ok {
					dst.r2[sharing.ID(src.id)] = m
				}
			}
		}
	}
	var parts []string
	for _, p := range ps {
		if p.face != 0 {
			continue
		}
		r := "failed"
		if !p.fail {
			if out, err := p.p.Round3(hashmap.NewImmutableComparableFromNativeLike(p.r2)); err == nil {
				m := map[sharing.ID][]byte{}
				for id, v := range out.Iter() {
					b, _ := serde.MarshalCBOR(v)
					m[id] = b
				}
				r = classify(m, nil)
			}
		}
		parts = append(parts, fmt.Sprintf("%d:%s", p.id, r))
	}
	return strings.Join(parts, " ")
}

func genEcho(seed int64, count int) []echoCase {
	var res []echoCase
	for i := 0; i < count; i++ {
		r := vh.NewRng(seed, "C11", "echo", i)
		n := 3 + r.Intn(3)
		var quorum []uint64
		for k := 1; k <= n; k++ {
			quorum = append(quorum, uint64(k*3))
		}
		e := echoCase{quorum: quorum, msgs: map[uint64][]byte{}, seed: seed, idx: i, dup: r.Chance(1, 2)}
		for _, id := range quorum {
			e.msgs[id] = r.Bytes(1 + r.Intn(6))
		}
		if i%4 != 0 {
			e.eq = vh.Pick(r, quorum)
			e.m2 = r.Bytes(1 + r.Intn(6))
			if r.Chance(1, 6) {
				e.m2 = e.msgs[e.eq] // two faces, same message: not an equivocation
			}
			for _, id := range quorum {
				if id != e.eq && r.Chance(1, 2) {
					e.groupA = append(e.groupA, id)
				}
			}
		}
		res = append(res, e)
	}
	return res
}

func evalEcho(t *testing.T, a vh.Args, res *vh.Result, cases []echoCase) {
	texts := make([]string, len(cases))
	for i, c := range cases {
		texts[i] = c.text()
	}
	model, err := modelResults(a, "E", texts)
	if err != nil {
		res.Mismatch(vh.Mismatch{ID: "driver", Kind: "corr", Key: "model-driver-failed", Detail: err.Error(), What: "extracted echo model could not be evaluated"})
		return
	}
	reported := map[string]int{}
	for i, c := range cases {
		got, fails := runEcho(t, c)
		if rbr := ""; vh.Safely(func() { rbr = roundByRound(c) }) != "" || rbr != got {
			fails = append(fails, fmt.Sprintf("runner-vs-rounds: echo runner over routers ended with %s, the same protocol driven round by round with %s", got, rbr))
		}
		class := "echo-honest"
		if c.eq != 0 {
			class = "echo-equivocator"
		}
		res.Count(class, texts[i], true)
		if got == model[i] && len(fails) == 0 {
			continue
		}
		key := "echo-model-mismatch"
		kind := "corr"
		if len(fails) > 0 {
			key = failKey(fails[0])
			if got == model[i] {
				kind = "prop"
			}
		}
		if reported[key] >= 3 {
			continue
		}
		reported[key]++
		dup := 0
		if c.dup {
			dup = 1
		}
		res.Mismatch(vh.Mismatch{ID: fmt.Sprintf("echo-%d", i), Kind: kind, Key: key,
			Detail:   fmt.Sprintf("implementation: %s || model: %s || property predicate: %s", got, model[i], strings.Join(fails, "; ")),
			Case:     fmt.Sprintf("E %d %d %d %s", c.seed, c.idx, dup, texts[i]),
			PropFail: len(fails) > 0,
			What:     "correspondence echo/rounds.go <-> coq/model/Echo.v (C11_echo_agreement)"})
	}
}

// ---- real concurrency (thorough tier) -------------------------------------------------------------------------

type raceCase struct {
	quorum []uint64
	deps   []op
	rcvs   []op
	idx    int
}

func (c raceCase) text() string {
	d := make([]string, len(c.deps))
	for i, o := range c.deps {
		d[i] = o.text()
	}
	r := make([]string, len(c.rcvs))
	for i, o := range c.rcvs {
		r[i] = fmt.Sprintf("%d,%s,%s,%s", o.rid, nsText(o.ns), vh.Hex([]byte(o.cid)), idsText(o.froms, "+"))
	}
	ds, rs := strings.Join(d, ";"), strings.Join(r, ";")
	if ds == "" {
		ds = "_"
	}
	if rs == "" {
		rs = "_"
	}
	return idsText(c.quorum, ",") + " " + ds + " " + rs
}

func genRace(seed int64, count int) []raceCase {
	var res []raceCase
	nss := [][]string{nil, {"a"}, {"ab"}, {"a", "b"}}
	cids := []string{"c", "bc", "x"}
	for i := 0; i < count; i++ {
		r := vh.NewRng(seed, "C11", "race", i)
		quorum := []uint64{selfID, 1, 2, 3}
		type key struct {
			ns  []string
			cid string
		}
		var keys []key
		seen := map[string]bool{}
		for len(keys) < 1+r.Intn(5) {
			k := key{vh.Pick(r, nss), vh.Pick(r, cids)}
			if !seen[refKey(k.ns, k.cid)] {
				seen[refKey(k.ns, k.cid)] = true
				keys = append(keys, k)
			}
		}
		c := raceCase{quorum: quorum, idx: i}
		for j, k := range keys {
			var froms []uint64
			for f := uint64(1); f <= 3; f++ {
				if r.Chance(2, 3) {
					froms = append(froms, f)
				}
			}
			if len(froms) == 0 {
				froms = []uint64{1}
			}
			c.rcvs = append(c.rcvs, op{kind: 'R', rid: j, ns: k.ns, cid: k.cid, froms: froms})
			for f := uint64(1); f <= 3; f++ {
				p := []byte{byte(j), byte(f)}
				c.deps = append(c.deps, op{kind: 'D', from: f, ns: k.ns, cid: k.cid, payload: p})
				if r.Chance(1, 3) {
					c.deps = append(c.deps, op{kind: 'D', from: f, ns: k.ns, cid: k.cid, payload: p})
				}
				if r.Chance(1, 6) {
					c.deps = append(c.deps, op{kind: 'D', from: f, ns: k.ns, cid: k.cid, payload: []byte{0xbd, byte(f)}})
				}
			}
			if r.Chance(1, 3) {
				c.deps = append(c.deps, op{kind: 'D', from: 7, ns: k.ns, cid: k.cid, payload: []byte{7}})
			}
		}
		for j := len(c.deps) - 1; j > 0; j-- {
			k := r.Intn(j + 1)
			c.deps[j], c.deps[k] = c.deps[k], c.deps[j]
		}
		res = append(res, c)
	}
	return res
}

// runRace: receivers and the feeder race freely (no handshakes); every receive eventually has all
// its messages, so each must return within a generous timeout.
func runRace(c raceCase, yieldSeed int64) map[int]string {
	w := newWire()
	q := make([]sharing.ID, len(c.quorum))
	for i, x := range c.quorum {
		q[i] = sharing.ID(x)
	}
	d := &ctlDelivery{self: selfID, quorum: q, in: make(chan inMsg, len(c.deps)+1)}
	rt := network.NewRouter(d)
	datas := make([][]byte, len(c.deps))
	for i, o := range c.deps {
		datas[i] = w.encode(o.from, o.ns, o.cid, o.payload)
	}
	var wg sync.WaitGroup
	var feeder sync.WaitGroup
	var mu sync.Mutex
	results := make([]string, len(c.rcvs))
	cancels := make([]context.CancelFunc, len(c.rcvs))
	start := make(chan struct{})
	for i, o := range c.rcvs {
		wg.Add(1)
		ctx, cancel := context.WithCancel(context.Background())
		cancels[i] = cancel
		go func() {
			defer wg.Done()
			<-start
			y := vh.NewRng(yieldSeed, "C11", "yield", c.idx*100+i)
			for k := y.Intn(4); k > 0; k-- {
				runtime.Gosched()
			}
			v := rt
			for _, n := range o.ns {
				v = v.Namespaced(n)
			}
			froms := make([]sharing.ID, len(o.froms))
			for j, f := range o.froms {
				froms[j] = sharing.ID(f)
			}
			res, err := v.ReceiveFrom(ctx, o.cid, froms...)
			mu.Lock()
			if results[i] == "" {
				results[i] = classify(res, err)
			}
			mu.Unlock()
		}()
	}
	feeder.Add(1)
	go func() {
		defer feeder.Done()
		<-start
		y := vh.NewRng(yieldSeed, "C11", "yield-feeder", c.idx)
		for i, o := range c.deps {
			if y.Chance(1, 3) {
				runtime.Gosched()
			}
			d.in <- inMsg{from: sharing.ID(o.from), data: datas[i]}
		}
	}()
	close(start)
	feeder.Wait()
	// every message is with the reader now: each receive must return by itself.  Only if one does
	// not, time matters: after a generous wait it is recorded as `timeout` and then cancelled.
	done := make(chan struct{})
	go func() { wg.Wait(); close(done) }()
	select {
	case <-done:
	case <-time.After(raceTimeout):
		mu.Lock()
		for i := range results {
			if results[i] == "" {
				results[i] = "timeout"
			}
		}
		mu.Unlock()
		for _, cancel := range cancels {
			cancel()
		}
		<-done
	}
	for _, cancel := range cancels {
		cancel()
	}
	rt.Close()
	close(d.in)
	m := map[int]string{}
	for i, o := range c.rcvs {
		m[o.rid] = results[i]
	}
	return m
}

var raceTimeout = 60 * time.Second

func evalRace(a vh.Args, res *vh.Result, cases []raceCase, procs []int) {
	texts := make([]string, len(cases))
	for i, c := range cases {
		texts[i] = c.text()
	}
	model, err := modelResults(a, "A", texts)
	if err != nil {
		res.Mismatch(vh.Mismatch{ID: "driver", Kind: "corr", Key: "model-driver-failed", Detail: err.Error(), What: "extracted router model could not be evaluated"})
		return
	}
	reported := 0
	timeouts := 0
	for _, p := range procs {
		old := runtime.GOMAXPROCS(p)
		for i, c := range cases {
			if timeouts > 0 {
				break // a receive that never returns costs a full timeout: one witness is enough
			}
			got := runRace(c, a.Seed+int64(p))
			allowed := map[string][]string{}
			for _, f := range strings.Fields(model[i]) {
				kv := strings.SplitN(f, ":", 2)
				allowed[kv[0]] = strings.Split(kv[1], ";")
			}
			res.Count(fmt.Sprintf("race-gomaxprocs-%d", p), fmt.Sprintf("%d %s", p, texts[i]), true)
			for rid, g := range got {
				ok := false
				for _, x := range allowed[fmt.Sprintf("r%d", rid)] {
					if x == g {
						ok = true
					}
				}
				if g == "timeout" {
					timeouts++
				}
				if !ok && (reported < 3 || g == "timeout" && timeouts == 1) {
					reported++
					key := "race-result-not-allowed"
					if g == "timeout" {
						key = "deadlock"
					}
					res.Mismatch(vh.Mismatch{ID: fmt.Sprintf("race-%d-%d", p, i), Kind: "corr", Key: key,
						Detail:   fmt.Sprintf("GOMAXPROCS=%d: r%d returned %s; the model allows %v", p, rid, g, allowed[fmt.Sprintf("r%d", rid)]),
						Case:     "A " + texts[i],
						PropFail: true,
						What:     "router results under real concurrency are among those the model allows (C11_recv_exact, C11_no_lost_wakeup)"})
				}
			}
		}
		runtime.GOMAXPROCS(old)
	}
}

// raceDetectorRun builds this harness with -race (needs cgo) and runs the racing scenarios in it.
func raceDetectorRun(a vh.Args, res *vh.Result) {
	root := os.Getenv("VERIF_ROOT")
	if root == "" {
		res.Note("race detector: VERIF_ROOT not set, skipped")
		return
	}
	bin := filepath.Join(root, "harness", "bin", "c11-race")
	cmd := exec.Command("go1.26", "build", "-race", "-tags", "purego,verif", "-o", bin, "./cmd/c11")
	cmd.Dir = filepath.Join(root, "harness")
	cmd.Env = append(os.Environ(), "CGO_ENABLED=1")
	if out, err := cmd.CombinedOutput(); err != nil {
		res.Note("race detector: `go1.26 build -race` not available here (%v: %s); the racing scenarios ran without it", err, strings.TrimSpace(lastLines(string(out), 3)))
		return
	}
	out := filepath.Join(root, "run", fmt.Sprintf("C11-race-%d.json", os.Getpid()))
	cmd = exec.Command(bin, "-seed", strconv.FormatInt(a.Seed, 10), "-tier", "racechild", "-driver", a.Driver, "-out", out)
	cmd.Env = append(os.Environ(), "GORACE=halt_on_error=0 exitcode=0")
	b, err := cmd.CombinedOutput()
	os.Remove(out)
	if err != nil {
		res.Note("race detector run failed: %v", err)
		return
	}
	n := strings.Count(string(b), "WARNING: DATA RACE")
	res.Note("race detector (go1.26 build -race; racing receivers/reader under GOMAXPROCS 1 and 16, a sample of serialised schedules and echo runs): %d data race report(s)", n)
	if n > 0 {
		res.Mismatch(vh.Mismatch{ID: "race-detector", Kind: "prop", Key: "data-race", Detail: lastLines(string(b), 40), Case: "racechild seed " + strconv.FormatInt(a.Seed, 10), PropFail: true,
			What: "no data race in the router under racing receivers/reader (Go memory model assumption of the atomic-step model)"})
	}
}

func lastLines(s string, n int) string {
	l := strings.Split(strings.TrimSpace(s), "\n")
	if len(l) > n {
		l = l[len(l)-n:]
	}
	return strings.Join(l, " | ")
}

// ---- main -----------------------------------------------------------------------------------------------------

func probeHooks(t *testing.T) bool {
	o := runSerial(t, sched{[]uint64{1, selfID}, []op{{kind: 'R', rid: 1, cid: "probe", froms: []uint64{1}, pause: 1}, {kind: 'D', from: 1, cid: "probe", payload: []byte{1}}}})
	// with the hook honoured the receive is still held after the deposit
	return strings.Contains(o.results, "r1@-:parked")
}

func body(t *testing.T, a vh.Args) {
	res := vh.NewResult("C11", a.Seed, a.Tier)
	res.Rule = "router: operation lists (launch ReceiveFrom / hand one message to the reader / cancel / release a held receiver / Close / delivery failure / garbage) run against pkg/network.Router over a checker-controlled Delivery inside a testing/synctest bubble (quiescence after every operation), replayed in the extracted model; compared: for every ReceiveFrom the operation after which it returned and its result (payload per sender as hex | error class | blamed id | still parked). Systematic: all arrival orders x receive placement x cancellation placement for k<=3 senders with identical/conflicting retransmission, other-id, other-namespace, non-member extras; held-receiver windows; random long schedules; buffer bound. Echo: echo.ExchangeEchoBroadcast over real routers with a two-faced broadcaster, delivery order and duplication drawn from the seed, compared with coq/model/Echo.v and with the real echo.Participant rounds driven directly (runner vs round by round). Runner family: session setup, Gennaro DKG, Lindell22 (BIP-340) and DKLs23/bbot signing run by their real runners (exchange + echo broadcast) over real routers on the checker-controlled Delivery, 3 parties, under in-order / random / duplicating / link-starving delivery and two concurrent instances in different namespaces, each party's output compared with the round-by-round drive (harness/internal/drive) of the same protocol on the same tapes; with a conflicting retransmission, an altered echo round-1 payload, or a two-faced party (the protocol run twice on different tapes, one run heard by one victim, the other by everybody else) the honest parties must abort (blaming nobody else) or agree. Non-trivial = some receive returned payloads or a blamed conflict."
	defer func() {
		res.Write(a.Out)
	}()

	// regenerated constants as the model sees them
	if k, err := vh.Driver(a.Driver, []string{"K"}); err == nil {
		f := strings.Fields(k[0])
		if len(f) == 3 {
			if v, err := strconv.Atoi(f[1]); err == nil {
				bufferBound = v
			}
			res.Note("regenerated constants: maxReceiveBufferSize=%s notifyCapacity=%s", f[1], f[2])
		}
	}

	if a.Replay != "" {
		replay(t, a, res)
		return
	}
	if a.Tier == "runners" { // development aid: only the runner-refinement family
		evalRunners(t, a, res)
		return
	}
	if a.Tier == "racechild" {
		// race-detector build: racing scenarios plus a sample of the serialised schedules and echo
		// runs (the detector works from happens-before, so serialised runs expose races as well)
		evalRace(a, res, genRace(a.Seed, 300), []int{1, 16})
		hooksSupported = probeHooks(t)
		var cases []gcase
		cases = append(cases, genWindow()...)
		cases = append(cases, genRandom(a.Seed, 400, false)...)
		cases = append(cases, genTwoReceivers(a.Seed, 100)...)
		evalSerial(t, a, res, cases)
		evalEcho(t, a, res, genEcho(a.Seed, 40))
		return
	}

	hooksSupported = probeHooks(t)
	if !hooksSupported {
		res.Note("the implementation does not evaluate ctx.Done() when parking: held-receiver schedules degrade to plain ones")
	}

	thorough := a.Tier == "thorough"
	var cases []gcase
	cases = append(cases, genWindow()...)
	cases = append(cases, genSystematic(thorough)...)
	nRandom, nTwo, nEcho := 1500, 400, 120
	if thorough {
		nRandom, nTwo, nEcho = 20000, 4000, 1500
	}
	if a.Search {
		cases = append(genWindow(), genRandom(a.Seed, 15000, true)...)
		nTwo, nEcho = 0, 1000
	} else {
		cases = append(cases, genRandom(a.Seed, nRandom, false)...)
		cases = append(cases, genTwoReceivers(a.Seed, nTwo)...)
		cases = append(cases, genOverflow(bufferBound)...)
	}
	evalSerial(t, a, res, cases)
	evalEcho(t, a, res, genEcho(a.Seed, nEcho))
	evalRunners(t, a, res)

	// real concurrency: a short sample in the quick tier, the full one (and -race) in the thorough tier
	if !a.Search {
		nRace := 60
		if thorough {
			nRace = 1500
		}
		evalRace(a, res, genRace(a.Seed, nRace), []int{1, 16})
		if thorough {
			raceDetectorRun(a, res)
		}
	}
}

func replay(t *testing.T, a vh.Args, res *vh.Result) {
	b, err := os.ReadFile(a.Replay)
	if err != nil {
		res.Note("cannot read replay file: %v", err)
		return
	}
	for _, line := range strings.Split(string(b), "\n") {
		if !strings.HasPrefix(line, "case: ") {
			continue
		}
		c := strings.TrimPrefix(line, "case: ")
		switch {
		case strings.HasPrefix(c, "S "):
			hooksSupported = probeHooks(t)
			evalSerial(t, a, res, []gcase{{"replay", parseSched(strings.TrimPrefix(c, "S "))}})
		case strings.HasPrefix(c, "E "):
			f := strings.Fields(c)
			seed, _ := strconv.ParseInt(f[1], 10, 64)
			idx, _ := strconv.Atoi(f[2])
			for _, e := range genEcho(seed, idx+1)[idx:] {
				evalEcho(t, a, res, []echoCase{e})
			}
		case strings.HasPrefix(c, "P "):
			evalRunners(t, a, res) // the runner family is small: re-run it as a whole
		default:
			res.Note("replay of this case kind re-runs the whole tier")
		}
	}
}

func main() {
	a := vh.ParseArgs()
	testing.Main(func(string, string) (bool, error) { return true, nil },
		[]testing.InternalTest{{Name: "C11", F: func(t *testing.T) {
			body(t, a)
			os.Exit(0)
		}}}, nil, nil)
}
