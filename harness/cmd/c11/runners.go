// runners.go — runner-refinement family of the C11 harness: real protocols (session setup,
// Gennaro DKG, Lindell22 signing, DKLs23/bbot signing) executed by their REAL runners
// (network.Runner: exchange + echo broadcast) over real network.Routers on the
// checker-controlled Delivery, under chosen delivery orders, and compared, party by party,
// with the round-by-round drive of the SAME protocol on the SAME tapes
// (verif/harness/internal/drive/*).
package main

import (
	"context"
	"crypto/sha256"
	"fmt"
	"sort"
	"strings"
	"sync"
	"testing"
	"testing/synctest"

	"github.com/bronlabs/bron-crypto/pkg/base"
	"github.com/bronlabs/bron-crypto/pkg/base/curves/k256"
	"github.com/bronlabs/bron-crypto/pkg/base/datastructures/hashmap"
	"github.com/bronlabs/bron-crypto/pkg/base/datastructures/hashset"
	"github.com/bronlabs/bron-crypto/pkg/base/serde"
	rgen "github.com/bronlabs/bron-crypto/pkg/mpc/dkg/gennaro"
	rsess "github.com/bronlabs/bron-crypto/pkg/mpc/session"
	"github.com/bronlabs/bron-crypto/pkg/mpc/sharing"
	rdkls "github.com/bronlabs/bron-crypto/pkg/mpc/signatures/ecdsa/dkls23"
	dklskeygen "github.com/bronlabs/bron-crypto/pkg/mpc/signatures/ecdsa/dkls23/keygen"
	"github.com/bronlabs/bron-crypto/pkg/mpc/signatures/ecdsa/dkls23/signing_bbot"
	rl22 "github.com/bronlabs/bron-crypto/pkg/mpc/signatures/schnorr/lindell22"
	l22keygen "github.com/bronlabs/bron-crypto/pkg/mpc/signatures/schnorr/lindell22/keygen"
	l22signing "github.com/bronlabs/bron-crypto/pkg/mpc/signatures/schnorr/lindell22/signing"
	"github.com/bronlabs/bron-crypto/pkg/network"
	"github.com/bronlabs/bron-crypto/pkg/proofs/sigma/compiler/fiatshamir"
	"github.com/bronlabs/bron-crypto/pkg/signatures/ecdsa"
	"github.com/bronlabs/bron-crypto/pkg/signatures/schnorrlike/bip340"

	"verif/harness/internal/drive"
	ddkls "verif/harness/internal/drive/dkls23"
	dgen "verif/harness/internal/drive/gennaro"
	"verif/harness/internal/drive/keys"
	dl22 "verif/harness/internal/drive/lindell22"
	dsess "verif/harness/internal/drive/session"
	"verif/harness/internal/vh"
)

const runnerProp = "C11" // the tapes of runner and round-by-round runs are keyed by (seed, this, party)

var runnerPolicy = "T:2:1,2,3"
var runnerIDs = []sharing.ID{1, 2, 3}

// ---- one protocol instance -------------------------------------------------------------------

// instance is one protocol run (one seed): what the round-by-round drive produced, and how to run
// one party through the real runner.
type instance struct {
	proto string
	seed  int64
	ns    []string
	// want[id]: canonical output of party id in the round-by-round drive on the same tapes; want[0]
	// the aggregate (signature) where there is one.  wantErr: the drive itself failed (then nothing is compared)
	want    map[sharing.ID]string
	wantErr string
	// start runs the real runner of party id over rt and returns the party's canonical output text
	start func(id sharing.ID, label string, ctx context.Context, rt *network.Router) (string, error)
	// common projects an output text to the part all parties must agree on ("" = nothing)
	common func(string) string
	// finish: aggregate of the runner outputs (signature text + validity), called when every party returned ok
	finish func() (agg string, problems []string)
	// deterministic: the party outputs are a function of the tapes alone (compared for equality);
	// otherwise only the aggregate / validity / agreement are compared
	deterministic bool
}

// newTape: label "a" is the tape the round-by-round drive uses; the second face of a two-faced
// party runs on label "b" (a different, equally valid stream of randomness).
func newTape(seed int64, id sharing.ID, label string) *drive.Tape {
	return drive.NewTape(vh.NewRng(seed, runnerProp, "tape/"+label, int(id)))
}

// -- session setup

func sessionInstance(seed int64) *instance {
	in := &instance{proto: "session", seed: seed, deterministic: true}
	tr := dsess.Run(dsess.Config{Seed: seed, Prop: runnerProp, Quorum: runnerIDs})
	defer dsess.Forget(tr)
	in.want = map[sharing.ID]string{}
	for _, id := range runnerIDs {
		if v := tr.Verdicts[id]; v.Class != "ok" {
			in.wantErr = fmt.Sprintf("party %d: %s %s", id, v.Class, v.Detail)
		}
		in.want[id] = tr.Outputs[id]
	}
	quorum := hashset.NewComparable(runnerIDs...).Freeze()
	in.start = func(id sharing.ID, label string, ctx context.Context, rt *network.Router) (string, error) {
		r, err := rsess.NewSessionRunner(id, quorum, newTape(seed, id, label))
		if err != nil {
			return "", err
		}
		sc, err := r.Run(ctx, rt, nil)
		if err != nil {
			return "", err
		}
		return dsess.OutputText(sc), nil
	}
	// session id and transcript are common; the pairwise seeds are compared pair by pair in check()
	in.common = func(s string) string {
		if i := strings.Index(s, ";seeds="); i >= 0 {
			return s[:i]
		}
		return s
	}
	return in
}

// -- Gennaro DKG (k256, 2-of-3, Fiat–Shamir)

func gennaroInstance(seed int64) *instance {
	in := &instance{proto: "gennaro", seed: seed, deterministic: true}
	pol, err := keys.ParsePolicy(runnerPolicy)
	if err != nil {
		in.wantErr = err.Error()
		return in
	}
	ac, err := pol.Build()
	if err != nil {
		in.wantErr = err.Error()
		return in
	}
	group := k256.NewCurve()
	tr := dgen.Run(dgen.Config[*k256.Point, *k256.Scalar]{Seed: seed, Prop: runnerProp, Group: group, AC: ac, Compiler: fiatshamir.Name})
	defer dgen.Forget(tr)
	in.want = map[sharing.ID]string{}
	for _, id := range runnerIDs {
		if v := tr.Verdicts[id]; v.Class != "ok" {
			in.wantErr = fmt.Sprintf("party %d: %s %s", id, v.Class, v.Detail)
		}
		in.want[id] = tr.Outputs[id]
	}
	// the same session contexts the drive used (its own session run is deterministic in the seed)
	st := dsess.RunFull(dsess.Config{Seed: seed, Prop: runnerProp + "/session", Quorum: runnerIDs})
	in.start = func(id sharing.ID, label string, ctx context.Context, rt *network.Router) (string, error) {
		sc := st.Ctx[id]
		if sc == nil {
			return "", fmt.Errorf("no session context")
		}
		r, err := rgen.NewRunner(sc.Clone(), group, ac, fiatshamir.Name, &dgen.LockedReader{R: newTape(seed, id, label)})
		if err != nil {
			return "", err
		}
		shard, err := r.Run(ctx, rt, nil)
		if err != nil {
			return "", err
		}
		return dgen.ShardText(shard), nil
	}
	in.common = func(s string) string { return s } // public key, verification vector, public shares
	return in
}

// -- Lindell22 signing (BIP-340 over secp256k1)

func lindell22Instance(seed int64) *instance {
	in := &instance{proto: "lindell22", seed: seed, deterministic: true}
	msg := []byte(fmt.Sprintf("c11 runner refinement %d", seed))
	common := keys.Common{Seed: seed, Prop: runnerProp, Quorum: runnerIDs, Session: "seeded", Message: msg}
	tr := dl22.Run(dl22.Config{Common: common, Policy: runnerPolicy, Variant: "bip340"})
	res := dl22.Full(tr)
	defer dl22.Forget(tr)
	in.want = map[sharing.ID]string{}
	if res.SetupErr != "" {
		in.wantErr = res.SetupErr
		return in
	}
	partialText := func(e, r, s string) string { return fmt.Sprintf("e=%s;R=%s;s=%s", e, r, s) }
	for _, id := range runnerIDs {
		if v := tr.Verdicts[id]; v.Class != "ok" {
			in.wantErr = fmt.Sprintf("party %d: %s %s", id, v.Class, v.Detail)
		}
		if p := res.Partials[id]; p != nil {
			in.want[id] = partialText(vh.ZHex(p.E), vh.Hex(p.R), vh.ZHex(p.S))
		}
	}
	if res.Sig != nil {
		in.want[0] = fmt.Sprintf("wire=%s;lib=%s", vh.Hex(res.Sig.Wire), res.Sig.Lib)
	}
	// the same setup as the drive: scheme, dealer, shards, seeded contexts
	scheme, err := bip340.NewScheme(vh.NewRng(seed, runnerProp, "scheme", 0))
	if err != nil {
		in.wantErr = err.Error()
		return in
	}
	pol, _ := keys.ParsePolicy(runnerPolicy)
	group := k256.NewCurve()
	dealt, err := keys.Material[*k256.Point, *k256.Scalar](common, group, pol)
	if err != nil {
		in.wantErr = err.Error()
		return in
	}
	shards := map[sharing.ID]*rl22.Shard[*k256.Point, *k256.Scalar]{}
	for _, id := range runnerIDs {
		sh, err := l22keygen.NewShard(dealt.Shards[id])
		if err != nil {
			in.wantErr = err.Error()
			return in
		}
		shards[id] = sh
	}
	ctxs, err := keys.Contexts(common)
	if err != nil {
		in.wantErr = err.Error()
		return in
	}
	variant := scheme.Variant()
	bmsg := bip340.Message(msg)
	var mu sync.Mutex
	psigs := map[sharing.ID]*rl22.PartialSignature[*k256.Point, *k256.Scalar]{}
	in.start = func(id sharing.ID, label string, ctx context.Context, rt *network.Router) (string, error) {
		r, err := l22signing.NewRunner[*k256.Point, *k256.Scalar, bip340.Message](ctxs[id].Clone(), shards[id], fiatshamir.Name, variant, bmsg, newTape(seed, id, label))
		if err != nil {
			return "", err
		}
		ps, err := r.Run(ctx, rt, nil)
		if err != nil {
			return "", err
		}
		if label == "a" {
			mu.Lock()
			psigs[id] = ps
			mu.Unlock()
		}
		return partialText(vh.ZHex(ps.Sig.E.Cardinal().Big()), vh.Hex(ps.Sig.R.Bytes()), vh.ZHex(ps.Sig.S.Cardinal().Big())), nil
	}
	in.finish = func() (string, []string) {
		mu.Lock()
		defer mu.Unlock()
		at := hashmap.NewComparable[sharing.ID, *rl22.PartialSignature[*k256.Point, *k256.Scalar]]()
		for id, ps := range psigs {
			at.Put(id, ps)
		}
		agg, err := l22signing.NewAggregator(shards[runnerIDs[0]].PublicKeyMaterial(), scheme)
		if err != nil {
			return "", []string{"aggregator: " + err.Error()}
		}
		sig, err := agg.Aggregate(at.Freeze(), bmsg)
		if err != nil {
			return "", []string{"the partial signatures of the runners do not aggregate: " + err.Error()}
		}
		wire, _ := variant.SerializeSignature(sig)
		lib := "reject"
		if vf, err := scheme.Verifier(); err == nil && vf.Verify(sig, shards[runnerIDs[0]].PublicKey(), bmsg) == nil {
			lib = "ok"
		}
		var problems []string
		if lib != "ok" {
			problems = append(problems, "the aggregated signature of the runners does not verify")
		}
		return fmt.Sprintf("wire=%s;lib=%s", vh.Hex(wire), lib), problems
	}
	return in
}

// -- DKLs23 signing, bbot multiplier (secp256k1, SHA-256)

type dklsPartialDTO struct {
	R *k256.Point  `cbor:"r"`
	U *k256.Scalar `cbor:"u"`
	W *k256.Scalar `cbor:"w"`
}

func dkls23Instance(seed int64) *instance {
	in := &instance{proto: "dkls23", seed: seed, deterministic: true}
	msg := []byte(fmt.Sprintf("c11 runner refinement %d", seed))
	common := keys.Common{Seed: seed, Prop: runnerProp, Quorum: runnerIDs, Session: "seeded", Message: msg}
	tr := ddkls.Run(ddkls.Config{Common: common, Policy: runnerPolicy, Curve: "k256", Hash: "sha256", Multiplier: "bbot"})
	res := ddkls.Full(tr)
	defer ddkls.Forget(tr)
	in.want = map[sharing.ID]string{}
	if res.SetupErr != "" {
		in.wantErr = res.SetupErr
		return in
	}
	for _, id := range runnerIDs {
		if v := tr.Verdicts[id]; v.Class != "ok" {
			in.wantErr = fmt.Sprintf("party %d: %s %s", id, v.Class, v.Detail)
		}
		in.want[id] = tr.Outputs[id]
	}
	in.want[0] = tr.Outputs[0] + ";lib=" + res.LibOK
	curve := k256.NewCurve()
	suite, err := ecdsa.NewSuite(curve, sha256.New)
	if err != nil {
		in.wantErr = err.Error()
		return in
	}
	pol, _ := keys.ParsePolicy(runnerPolicy)
	dealt, err := keys.Material[*k256.Point, *k256.Scalar](common, curve, pol)
	if err != nil {
		in.wantErr = err.Error()
		return in
	}
	shards := map[sharing.ID]*rdkls.Shard[*k256.Point, *k256.BaseFieldElement, *k256.Scalar]{}
	for _, id := range runnerIDs {
		sh, err := dklskeygen.NewShard(dealt.Shards[id])
		if err != nil {
			in.wantErr = err.Error()
			return in
		}
		shards[id] = sh
	}
	ctxs, err := keys.Contexts(common)
	if err != nil {
		in.wantErr = err.Error()
		return in
	}
	var mu sync.Mutex
	partials := map[sharing.ID]*rdkls.PartialSignature[*k256.Point, *k256.BaseFieldElement, *k256.Scalar]{}
	in.start = func(id sharing.ID, label string, ctx context.Context, rt *network.Router) (string, error) {
		r, err := signing_bbot.NewRunner(ctxs[id].Clone(), suite, shards[id], msg, newTape(seed, id, label))
		if err != nil {
			return "", err
		}
		ps, err := r.Run(ctx, rt, nil)
		if err != nil {
			return "", err
		}
		if label == "a" {
			mu.Lock()
			partials[id] = ps
			mu.Unlock()
		}
		data, err := serde.MarshalCBOR(ps)
		if err != nil {
			return "", err
		}
		dto, err := serde.UnmarshalCBOR[*dklsPartialDTO](data)
		if err != nil {
			return "", err
		}
		return fmt.Sprintf("R=%s;u=%s;w=%s", vh.Hex(dto.R.ToCompressed()), vh.ZHex(dto.U.Cardinal().Big()), vh.ZHex(dto.W.Cardinal().Big())), nil
	}
	in.finish = func() (string, []string) {
		mu.Lock()
		defer mu.Unlock()
		var at []*rdkls.PartialSignature[*k256.Point, *k256.BaseFieldElement, *k256.Scalar]
		for _, id := range runnerIDs {
			if ps := partials[id]; ps != nil {
				at = append(at, ps)
			}
		}
		pk, err := ecdsa.NewPublicKey(dealt.PK)
		if err != nil {
			return "", []string{"public key: " + err.Error()}
		}
		sig, err := rdkls.Aggregate(suite, pk, msg, at...)
		if err != nil {
			return "", []string{"the partial signatures of the runners do not aggregate: " + err.Error()}
		}
		lib := "reject"
		if vf, err := ecdsa.NewVerifier(suite); err == nil && vf.Verify(sig, pk, msg) == nil {
			lib = "ok"
		}
		v := -1
		if sig.V() != nil {
			v = int(*sig.V())
		}
		var problems []string
		if lib != "ok" {
			problems = append(problems, "the aggregated signature of the runners does not verify")
		}
		return fmt.Sprintf("r=%s;s=%s;v=%d;lib=%s", vh.ZHex(sig.R().Cardinal().Big()), vh.ZHex(sig.S().Cardinal().Big()), v, lib), problems
	}
	return in
}

// ---- the hub: routers of all parties on checker-controlled deliveries -----------------------------

type hubMode struct {
	name    string
	random  bool // (b) pick the next message at random among everything in flight (all ids, rounds, instances)
	dup     bool // (c) identical retransmissions: a delivered message stays in flight with probability 1/3
	delay   bool // (d) one directed link is starved: its messages are delivered only when nothing else is in flight
	two     bool // (e) two concurrent instances in different namespaces on the same routers
	tamper  string // "" | "conflict" (a differing retransmission of one message) | "equivocate" (echo round 1 payload altered for one recipient) | "twoface" (the cheater runs the protocol twice on different tapes; one run talks to the victim, the other to everybody else)
	cheater sharing.ID
}

func (m hubMode) text() string { return m.name }

type wireMsg struct {
	From          sharing.ID `cbor:"from"`
	CorrelationID string     `cbor:"correlationID"`
	Payload       []byte     `cbor:"payload"`
}

type flight struct {
	from, to sharing.ID
	data     []byte
	seq      int
	cid      string
}

func cidOf(data []byte) string {
	if wm, err := serde.UnmarshalCBOR[wireMsg](data); err == nil {
		return wm.CorrelationID
	}
	return ""
}

type partyResult struct {
	out   string
	err   error
	done  bool
	panic string
}

// runHub executes the instances' runners for every party concurrently inside a synctest bubble and
// delivers the traffic in the order the mode prescribes.  Returns per instance, per party results.
func runHub(t *testing.T, insts []*instance, mode hubMode, seed int64, idx int) (results []map[sharing.ID]*partyResult, stats string) {
	results = make([]map[sharing.ID]*partyResult, len(insts))
	synctest.Test(t, func(t *testing.T) {
		r := vh.NewRng(seed, "C11", "runner-order/"+mode.name, idx)
		var mu sync.Mutex
		// pool: messages in flight in a canonical order.  Parties run in parallel between two
		// quiescent points, so the order in which their sends reach the hub is not reproducible:
		// sends are collected in `incoming` and merged, sorted by content, at the next quiescent point.
		var pool, incoming []flight
		seq := 0
		tampered := false
		q := append([]sharing.ID(nil), runnerIDs...)
		// endpoints: one per party; a two-faced cheater has two (face "a" talks to the victim only,
		// face "b" to everybody else; both hear everything addressed to the party)
		type endpoint struct {
			id    sharing.ID
			label string
			d     *ctlDelivery
			rt    *network.Router
		}
		var eps []*endpoint
		// the starved link of mode (d), the victim of the tampering
		slowFrom, slowTo := runnerIDs[r.Intn(len(runnerIDs))], runnerIDs[0]
		for slowTo == slowFrom {
			slowTo = runnerIDs[r.Intn(len(runnerIDs))]
		}
		victim := runnerIDs[0]
		for victim == mode.cheater {
			victim = runnerIDs[r.Intn(len(runnerIDs))]
		}
		tamperAt := 1 + r.Intn(6)
		nFrom := 0
		type epSpec struct {
			id    sharing.ID
			label string
		}
		var specs []epSpec
		for _, id := range runnerIDs {
			specs = append(specs, epSpec{id, "a"})
			if mode.tamper == "twoface" && id == mode.cheater {
				specs = append(specs, epSpec{id, "b"})
			}
		}
		for _, sp := range specs {
			id, label := sp.id, sp.label
			d := &ctlDelivery{self: id, quorum: q, in: make(chan inMsg)}
			d.sent = func(to sharing.ID, data []byte) {
				mu.Lock()
				defer mu.Unlock()
				if mode.tamper == "twoface" && id == mode.cheater && (label == "a") != (to == victim) {
					return // this face is not heard by this recipient
				}
				seq++
				incoming = append(incoming, flight{id, to, data, seq, cidOf(data)})
				if mode.tamper == "" || mode.tamper == "twoface" || id != mode.cheater || to != victim || tampered {
					return
				}
				wm, err := serde.UnmarshalCBOR[wireMsg](data)
				if err != nil || len(wm.Payload) == 0 {
					return
				}
				switch mode.tamper {
				case "conflict":
					nFrom++
					if nFrom != tamperAt {
						return
					}
					wm.Payload = append([]byte(nil), wm.Payload...)
					wm.Payload[len(wm.Payload)-1] ^= 1
					if alt, err := serde.MarshalCBOR(&wm); err == nil {
						tampered = true
						seq++
						incoming = append(incoming, flight{id, to, alt, seq, wm.CorrelationID}) // a second, different message under the same id
					}
				case "equivocate":
					if !strings.Contains(wm.CorrelationID, "EchoRound1P2P") {
						return
					}
					wm.Payload = append([]byte(nil), wm.Payload...)
					wm.Payload[len(wm.Payload)-1] ^= 1
					if alt, err := serde.MarshalCBOR(&wm); err == nil {
						tampered = true
						incoming[len(incoming)-1].data = alt // the victim gets a different round-1 payload than the others
					}
				}
			}
			eps = append(eps, &endpoint{id, label, d, network.NewRouter(d)})
		}
		ctx, cancel := context.WithCancel(context.Background())
		for k, in := range insts {
			results[k] = map[sharing.ID]*partyResult{}
			for _, ep := range eps {
				pr := &partyResult{}
				if ep.label == "a" {
					results[k][ep.id] = pr // the second face of a cheater is not an observed party
				}
				rt := ep.rt
				for _, n := range in.ns {
					rt = rt.Namespaced(n)
				}
				id, label := ep.id, ep.label
				go func() {
					var out string
					var err error
					p := vh.Safely(func() { out, err = in.start(id, label, ctx, rt) })
					mu.Lock()
					pr.out, pr.err, pr.panic, pr.done = out, err, p, true
					mu.Unlock()
				}()
			}
		}
		delivered, dups := 0, 0
		for steps := 0; steps < 200000; steps++ {
			synctest.Wait()
			mu.Lock()
			sort.Slice(incoming, func(i, j int) bool {
				a, b := incoming[i], incoming[j]
				if a.from != b.from {
					return a.from < b.from
				}
				if a.to != b.to {
					return a.to < b.to
				}
				if a.cid != b.cid {
					return a.cid < b.cid
				}
				return string(a.data) < string(b.data)
			})
			pool = append(pool, incoming...)
			incoming = nil
			if len(pool) == 0 {
				mu.Unlock()
				break
			}
			// candidates: everything, except the starved link while anything else is in flight
			cand := make([]int, 0, len(pool))
			for i, f := range pool {
				if mode.delay && f.from == slowFrom && f.to == slowTo {
					continue
				}
				cand = append(cand, i)
			}
			if len(cand) == 0 {
				for i := range pool {
					cand = append(cand, i)
				}
			}
			i := cand[0]
			if mode.random {
				i = cand[r.Intn(len(cand))]
			}
			f := pool[i]
			if mode.dup && r.Chance(1, 3) && dups < 400 {
				dups++ // stays in flight: it will be delivered again
			} else {
				pool = append(pool[:i], pool[i+1:]...)
			}
			mu.Unlock()
			for _, ep := range eps {
				if ep.id == f.to && ep.d.waiting.Load() {
					ep.d.in <- inMsg{from: f.from, data: f.data}
					delivered++
				}
			}
		}
		synctest.Wait()
		stats = fmt.Sprintf("delivered=%d dups=%d", delivered, dups)
		// snapshot, then tear down (parties still blocked end with a cancellation that is not recorded)
		mu.Lock()
		for k := range results {
			for id, pr := range results[k] {
				cp := *pr
				results[k][id] = &cp
			}
		}
		mu.Unlock()
		cancel()
		for _, ep := range eps {
			ep.rt.Close()
			close(ep.d.in)
		}
		synctest.Wait()
	})
	return results, stats
}

// ---- evaluation ---------------------------------------------------------------------------------------

func blamed(err error) []uint64 {
	var ids []uint64
	for _, id := range base.GetMaliciousIdentities[sharing.ID](err) {
		ids = append(ids, uint64(id))
	}
	sort.Slice(ids, func(i, j int) bool { return ids[i] < ids[j] })
	return dedupIDs(ids)
}

// checkRun compares one hub run with the round-by-round drive.
func checkRun(in *instance, mode hubMode, res map[sharing.ID]*partyResult) (obs string, fails []string) {
	var parts []string
	allOK := true
	anyErr := false
	for _, id := range runnerIDs {
		pr := res[id]
		switch {
		case !pr.done:
			parts = append(parts, fmt.Sprintf("%d:stuck", id))
			allOK = false
		case pr.panic != "":
			parts = append(parts, fmt.Sprintf("%d:panic", id))
			allOK, anyErr = false, true
			fails = append(fails, fmt.Sprintf("runner-%s-inconsistent: party %d panicked in its runner: %s", in.proto, id, pr.panic))
		case pr.err != nil:
			parts = append(parts, fmt.Sprintf("%d:abort%v", id, blamed(pr.err)))
			allOK, anyErr = false, true
		default:
			h := sha256.Sum256([]byte(pr.out))
			parts = append(parts, fmt.Sprintf("%d:ok:%s", id, vh.Hex(h[:6])))
		}
	}
	obs = strings.Join(parts, " ")
	honest := func(id sharing.ID) bool { return mode.tamper == "" || id != mode.cheater }

	// deadlock: every message was delivered, nobody aborted, and an (honest) runner is still blocked
	for _, id := range runnerIDs {
		if honest(id) && !res[id].done && !anyErr {
			fails = append(fails, fmt.Sprintf("runner-%s-deadlock: party %d never returned although every message was delivered and no party aborted", in.proto, id))
		}
	}
	if mode.tamper == "" {
		// honest run: every party must end exactly as in the round-by-round drive
		for _, id := range runnerIDs {
			pr := res[id]
			if !pr.done {
				continue
			}
			if pr.err != nil {
				fails = append(fails, fmt.Sprintf("runner-%s-output-differs: party %d aborted in the runner (%s), the round-by-round drive on the same tapes completed", in.proto, id, firstLine(pr.err.Error())))
				continue
			}
			if pr.panic == "" && in.deterministic && pr.out != in.want[id] {
				fails = append(fails, fmt.Sprintf("runner-%s-output-differs: party %d runner output %s, round by round %s", in.proto, id, clip(pr.out), clip(in.want[id])))
			}
		}
		if allOK && in.finish != nil {
			agg, problems := in.finish()
			for _, p := range problems {
				fails = append(fails, fmt.Sprintf("runner-%s-inconsistent: %s", in.proto, p))
			}
			if in.deterministic && len(problems) == 0 && agg != in.want[0] {
				fails = append(fails, fmt.Sprintf("runner-%s-output-differs: aggregate of the runner outputs %s, round by round %s", in.proto, clip(agg), clip(in.want[0])))
			}
			obs += " agg:" + clip(agg)
		}
	} else {
		// one party's traffic was tampered with: honest parties abort blaming nobody but it, or
		// complete; completers agree on the common part of the output
		for _, id := range runnerIDs {
			pr := res[id]
			if !honest(id) || !pr.done || pr.err == nil {
				continue
			}
			for _, b := range blamed(pr.err) {
				if sharing.ID(b) != mode.cheater {
					fails = append(fails, fmt.Sprintf("runner-%s-inconsistent: honest party %d blames honest party %d (tampered traffic came from %d only)", in.proto, id, b, mode.cheater))
				}
			}
		}
	}
	// agreement among the (honest) parties that completed
	if in.common != nil {
		var first sharing.ID
		for _, id := range runnerIDs {
			pr := res[id]
			if !honest(id) || !pr.done || pr.err != nil || pr.panic != "" {
				continue
			}
			if first == 0 {
				first = id
				continue
			}
			if in.common(pr.out) != in.common(res[first].out) {
				fails = append(fails, fmt.Sprintf("runner-%s-inconsistent: parties %d and %d both completed with different common outputs: %s vs %s", in.proto, first, id, clip(in.common(res[first].out)), clip(in.common(pr.out))))
			}
		}
	}
	return obs, fails
}

func firstLine(s string) string {
	if i := strings.IndexByte(s, '\n'); i >= 0 {
		s = s[:i]
	}
	return clip(s)
}

func clip(s string) string {
	if len(s) > 160 {
		return s[:160] + "…"
	}
	return s
}

// runnerModes: the delivery regimes of the family.
func runnerModes() []hubMode {
	return []hubMode{
		{name: "inorder"},
		{name: "random", random: true},
		{name: "dup", random: true, dup: true},
		{name: "delay", delay: true},
		{name: "delay-random-dup", random: true, dup: true, delay: true},
		{name: "two-instances", random: true, dup: true, two: true},
	}
}

func tamperModes() []hubMode {
	var ms []hubMode
	for _, c := range runnerIDs {
		ms = append(ms, hubMode{name: fmt.Sprintf("conflict-from-%d", c), random: true, tamper: "conflict", cheater: c})
		ms = append(ms, hubMode{name: fmt.Sprintf("equivocate-from-%d", c), random: true, tamper: "equivocate", cheater: c})
		ms = append(ms, hubMode{name: fmt.Sprintf("twoface-%d", c), random: true, tamper: "twoface", cheater: c})
	}
	return ms
}

type runnerPlan struct {
	mk     func(int64) *instance
	seeds  int
	modes  []string // names of runnerModes to use ("*" = all)
	tamper bool
}

// evalRunners runs the family and reports mismatches.
func evalRunners(t *testing.T, a vh.Args, res *vh.Result) {
	thorough := a.Tier == "thorough"
	plans := []runnerPlan{
		{mk: sessionInstance, seeds: 2, modes: []string{"*"}, tamper: true},
		{mk: lindell22Instance, seeds: 1, modes: []string{"*"}, tamper: true},
		{mk: gennaroInstance, seeds: 1, modes: []string{"delay-random-dup", "two-instances"}},
		{mk: dkls23Instance, seeds: 1, modes: []string{"delay-random-dup"}},
	}
	if thorough {
		plans = []runnerPlan{
			{mk: sessionInstance, seeds: 25, modes: []string{"*"}, tamper: true},
			{mk: lindell22Instance, seeds: 6, modes: []string{"*"}, tamper: true},
			{mk: gennaroInstance, seeds: 3, modes: []string{"*"}, tamper: true},
			{mk: dkls23Instance, seeds: 2, modes: []string{"*"}},
		}
	}
	if a.Search {
		plans = []runnerPlan{
			{mk: sessionInstance, seeds: 40, modes: []string{"*"}, tamper: true},
			{mk: lindell22Instance, seeds: 6, modes: []string{"*"}, tamper: true},
			{mk: gennaroInstance, seeds: 2, modes: []string{"*"}},
			{mk: dkls23Instance, seeds: 1, modes: []string{"inorder", "delay-random-dup"}},
		}
	}
	reported := map[string]int{}
	tally := map[string]int{}
	sample := map[string]string{}
	defer func() {
		var ks []string
		for k, v := range tally {
			ks = append(ks, fmt.Sprintf("%s=%d", k, v))
		}
		sort.Strings(ks)
		res.Note("runner family: party outcomes %s", strings.Join(ks, " "))
		var ss []string
		for k, v := range sample {
			ss = append(ss, k+": "+v)
		}
		sort.Strings(ss)
		res.Note("runner family samples: %s", strings.Join(ss, " || "))
	}()
	for _, pl := range plans {
		for s := 0; s < pl.seeds; s++ {
			seed := a.Seed*1000 + int64(s)
			inst := pl.mk(seed)
			if inst.wantErr != "" {
				res.Note("runner family: round-by-round drive of %s (seed %d) did not complete: %s — skipped", inst.proto, seed, clip(inst.wantErr))
				continue
			}
			var second *instance
			modes := runnerModes()
			if pl.tamper {
				modes = append(modes, tamperModes()...)
			}
			for mi, mode := range modes {
				use := mode.tamper != ""
				for _, n := range pl.modes {
					if n == "*" || n == mode.name {
						use = true
					}
				}
				if !use {
					continue
				}
				insts := []*instance{inst}
				inst.ns = nil
				if mode.two {
					if second == nil {
						second = pl.mk(seed + 500)
					}
					if second.wantErr != "" {
						continue
					}
					inst.ns, second.ns = []string{"i1"}, []string{"i2"}
					insts = append(insts, second)
				}
				out, stats := runHub(t, insts, mode, a.Seed, s*100+mi)
				for k, in := range insts {
					obs, fails := checkRun(in, mode, out[k])
					text := fmt.Sprintf("%s seed=%d mode=%s inst=%d", in.proto, in.seed, mode.text(), k)
					res.Count("runner-"+in.proto+"-"+mode.name, text, true)
					kind := "honest"
					if mode.tamper != "" {
						kind = mode.tamper
					}
					for _, id := range runnerIDs {
						pr := out[k][id]
						switch {
						case !pr.done:
							tally[kind+":stuck"]++
						case pr.err != nil && len(blamed(pr.err)) > 0:
							tally[kind+":abort-with-blame"]++
						case pr.err != nil:
							tally[kind+":abort"]++
						default:
							tally[kind+":ok"]++
						}
					}
					if _, ok := sample[in.proto+"/"+kind]; !ok || (kind != "honest" && strings.Contains(obs, "abort") && !strings.Contains(sample[in.proto+"/"+kind], "abort")) {
						sample[in.proto+"/"+kind] = mode.name + " " + obs + " " + stats
					}
					if len(fails) == 0 {
						continue
					}
					key := failKey(fails[0])
					if reported[key] >= 2 {
						continue
					}
					reported[key]++
					res.Mismatch(vh.Mismatch{ID: "runner-" + text, Kind: "prop", Key: key,
						Detail:   fmt.Sprintf("runners over routers: %s (%s) || %s", obs, stats, strings.Join(fails, "; ")),
						Case:     "P " + text,
						PropFail: true,
						What:     "runner refinement: the protocol run by its runner over routers ends as the round-by-round drive on the same tapes (C11_runner_refines_rounds, C11_recv_exact, C11_echo_agreement)"})
				}
			}
		}
	}
}
