// Package gennaro drives the real Gennaro DKG of /repo/pkg/mpc/dkg/gennaro
// (Participant.Round1..Round3) round by round, exactly as the package's own
// testutils.DoGennaroDKG does, under the shared conventions of
// verif/harness/internal/drive.
//
//	res := gennaro.RunFull(gennaro.Config[E, S]{Seed: s, Prop: "C03", Group: g, AC: ac, Compiler: fiatshamir.Name})
//	tr  := gennaro.Run(cfg)            // same, returns only the trace
//	res  = gennaro.Full[E, S](tr)      // typed result of a trace returned by Run
//	res.Shards[id]                     // *mpc.BaseShard[E, S] of every party that completed
//
// Conventions
//
//   - Parties are the shareholders of cfg.AC (ascending).  Every party has its own
//     recording drive.Tape over vh.NewRng(cfg.Seed, cfg.Prop, "tape/"+label, int(id));
//     label = cfg.Labels[id], default "a".  Two runs that differ only in one party's
//     label differ only in that party's randomness.  tape.Mark is "r0" during
//     NewParticipant and "r1".."r3" while the party executes Round1..Round3.
//     Tape layout of Round1 (what the model reads): with D = MSP().D() columns, read 0 is
//     the secret, reads 1..D the secret column (entry 0 is overwritten by the secret),
//     read D+1 the blinding secret, reads D+2..2D+1 the blinding column (entry 0
//     overwritten); every read is (bits(q)+128+7)/8 bytes, little endian, reduced mod q.
//     The reads after that belong to the sigma-protocol provers.
//   - Access structure: cfg.AC, or per party cfg.ACs[id] when given (each party's own, independently
//     constructed object for the same policy); the party list is cfg.AC.Shareholders().
//   - Session contexts: cfg.Ctxs if given (the driver clones nothing: one context per
//     party, consumed), otherwise the real session setup is run through
//     verif/harness/internal/drive/session with Prop = cfg.Prop+"/session" and the same
//     seed and labels.
//   - Round numbers of messages are the number of the round function that PRODUCED them:
//     round 1: Round1Broadcast (To == 0) and Round1Unicast (To == recipient),
//     round 2: Round2Broadcast (To == 0).  Round3 produces the *mpc.BaseShard.
//     Every message is passed, once per recipient, through drive.Pass (CBOR round trip +
//     hook), senders ascending, then recipients ascending; the broadcast of a sender is
//     passed before its unicast to the same recipient.
//   - Every party step runs inside drive.Step: an error / panic becomes the party's
//     verdict and the party stops (it neither sends nor receives afterwards); the others
//     continue as far as they can (they will find its message missing).  A dropped message
//     is absent from the inbox; an undecodable one makes the recipient reject without blame
//     in the receiving round.
//   - Trace.Outputs[id] of a party that completed: ShardText(shard) =
//     "pk=<hex>;vv=<hex>,..;pks=<id>:<hex>|<hex>,.." (group elements by Bytes(), public
//     shares by ascending holder; the private share is NOT in the text, use Shards).
//   - The party reads its tape through LockedReader (a mutex around the tape): the library's
//     sigand composition (batch Okamoto in Round1) computes its D branch commitments in
//     goroutines that all read the party's prng.  Shares, vectors and keys are read before
//     that and are a deterministic function of the tape; which tape bytes become which
//     Okamoto nonce (r1 reads after the first 2+2D) depends on goroutine scheduling, so the
//     proof bytes are not reproducible.
//   - The driver itself starts no goroutines; no `testing` import.
package gennaro

import (
	"fmt"
	"io"
	"sort"
	"strings"
	"sync"

	"github.com/bronlabs/bron-crypto/pkg/base/algebra"
	ds "github.com/bronlabs/bron-crypto/pkg/base/datastructures"
	"github.com/bronlabs/bron-crypto/pkg/base/datastructures/hashmap"
	"github.com/bronlabs/bron-crypto/pkg/mpc"
	rg "github.com/bronlabs/bron-crypto/pkg/mpc/dkg/gennaro"
	rsess "github.com/bronlabs/bron-crypto/pkg/mpc/session"
	"github.com/bronlabs/bron-crypto/pkg/mpc/sharing"
	"github.com/bronlabs/bron-crypto/pkg/mpc/sharing/accessstructures"
	"github.com/bronlabs/bron-crypto/pkg/proofs/sigma/compiler"

	"verif/harness/internal/drive"
	dsess "verif/harness/internal/drive/session"
	"verif/harness/internal/vh"
)

// Proto is Trace.Proto / Msg.Proto of this driver.
const Proto = "gennaro"

// Config of one run.
type Config[E algebra.PrimeGroupElement[E, S], S algebra.PrimeFieldElement[S]] struct {
	Seed   int64
	Prop   string                // property id the tapes are keyed by, e.g. "C03"
	Labels map[sharing.ID]string // tape label per party, default "a"
	Hook   drive.Hook            // nil = honest delivery
	Group  algebra.PrimeGroup[E, S]
	AC     accessstructures.Monotone // parties = AC.Shareholders()
	// ACs, if set, gives a party its OWN access-structure object (independently constructed for the
	// same policy, as every party does in a deployment); parties without an entry use AC.
	ACs      map[sharing.ID]accessstructures.Monotone
	Compiler compiler.Name // fiatshamir.Name, fischlin.Name, randfischlin.Name
	Ctxs     map[sharing.ID]*rsess.Context
}

// Result is everything a check may want from one run (typed).
type Result[E algebra.PrimeGroupElement[E, S], S algebra.PrimeFieldElement[S]] struct {
	Trace  *drive.Trace
	IDs    []sharing.ID // ascending
	Parts  map[sharing.ID]*rg.Participant[E, S]
	Shards map[sharing.ID]*mpc.BaseShard[E, S]
	// messages AS SENT (before the hook)
	R1B map[sharing.ID]*rg.Round1Broadcast[E, S]
	R1U map[sharing.ID]map[sharing.ID]*rg.Round1Unicast[E, S]
	R2B map[sharing.ID]*rg.Round2Broadcast[E, S]
	// SessionTrace is the trace of the session setup (nil when cfg.Ctxs was given)
	SessionTrace *drive.Trace
}

var (
	regMu sync.Mutex
	reg   = map[*drive.Trace]any{}
)

// Run executes the protocol and returns the trace; Full(trace) gives the typed result.
func Run[E algebra.PrimeGroupElement[E, S], S algebra.PrimeFieldElement[S]](cfg Config[E, S]) *drive.Trace {
	res := RunFull(cfg)
	regMu.Lock()
	reg[res.Trace] = res
	regMu.Unlock()
	return res.Trace
}

// Full returns the typed result belonging to a trace returned by Run (nil otherwise).
func Full[E algebra.PrimeGroupElement[E, S], S algebra.PrimeFieldElement[S]](tr *drive.Trace) *Result[E, S] {
	regMu.Lock()
	defer regMu.Unlock()
	r, _ := reg[tr].(*Result[E, S])
	return r
}

// Shards returns the shards of the parties that completed the run that produced tr.
func Shards[E algebra.PrimeGroupElement[E, S], S algebra.PrimeFieldElement[S]](tr *drive.Trace) map[sharing.ID]*mpc.BaseShard[E, S] {
	if r := Full[E, S](tr); r != nil {
		return r.Shards
	}
	return nil
}

// Forget releases what Run remembered about tr.
func Forget(tr *drive.Trace) {
	regMu.Lock()
	delete(reg, tr)
	regMu.Unlock()
}

// ShardText is the canonical public text of a shard (see package comment).
func ShardText[E algebra.PrimeGroupElement[E, S], S algebra.PrimeFieldElement[S]](sh *mpc.BaseShard[E, S]) string {
	var sb strings.Builder
	sb.WriteString("pk=" + vh.Hex(sh.PublicKeyValue().Bytes()))
	var vv []string
	for e := range sh.VerificationVector().Value().Iter() {
		vv = append(vv, vh.Hex(e.Bytes()))
	}
	sb.WriteString(";vv=" + strings.Join(vv, ","))
	pks := map[sharing.ID]string{}
	for id, ls := range sh.PublicKeyShares().Iter() {
		var p []string
		for _, e := range ls.Value() {
			p = append(p, vh.Hex(e.Bytes()))
		}
		pks[id] = strings.Join(p, "|")
	}
	var parts []string
	for _, id := range drive.SortedIDs(pks) {
		parts = append(parts, fmt.Sprintf("%d:%s", uint64(id), pks[id]))
	}
	sb.WriteString(";pks=" + strings.Join(parts, ","))
	return sb.String()
}

// LockedReader serialises Read calls on an io.Reader (the recording tape).
type LockedReader struct {
	mu sync.Mutex
	R  io.Reader
}

func (l *LockedReader) Read(p []byte) (int, error) {
	l.mu.Lock()
	defer l.mu.Unlock()
	return l.R.Read(p)
}

func freeze[M any](m map[sharing.ID]M) ds.Map[sharing.ID, M] {
	h := hashmap.NewComparable[sharing.ID, M]()
	for k, v := range m {
		h.Put(k, v)
	}
	return h.Freeze()
}

func acOf(ac accessstructures.Monotone, acs map[sharing.ID]accessstructures.Monotone, id sharing.ID) accessstructures.Monotone {
	if a, ok := acs[id]; ok && a != nil {
		return a
	}
	return ac
}

func label(labels map[sharing.ID]string, id sharing.ID) string {
	if l, ok := labels[id]; ok && l != "" {
		return l
	}
	return "a"
}

// RunFull executes the protocol and returns the typed result.
func RunFull[E algebra.PrimeGroupElement[E, S], S algebra.PrimeFieldElement[S]](cfg Config[E, S]) *Result[E, S] {
	tr := drive.NewTrace(Proto)
	ids := cfg.AC.Shareholders().List()
	sort.Slice(ids, func(i, j int) bool { return ids[i] < ids[j] })
	res := &Result[E, S]{
		Trace: tr, IDs: ids,
		Parts:  map[sharing.ID]*rg.Participant[E, S]{},
		Shards: map[sharing.ID]*mpc.BaseShard[E, S]{},
		R1B:    map[sharing.ID]*rg.Round1Broadcast[E, S]{},
		R1U:    map[sharing.ID]map[sharing.ID]*rg.Round1Unicast[E, S]{},
		R2B:    map[sharing.ID]*rg.Round2Broadcast[E, S]{},
	}
	ctxs := cfg.Ctxs
	if ctxs == nil {
		st := dsess.RunFull(dsess.Config{Seed: cfg.Seed, Prop: cfg.Prop + "/session", Quorum: ids, Labels: cfg.Labels})
		res.SessionTrace = st.Trace
		ctxs = st.Ctx
	}
	alive := func(id sharing.ID) bool {
		v, ok := tr.Verdicts[id]
		return res.Parts[id] != nil && (!ok || v.Class == "ok")
	}

	// construction (round 0)
	for _, id := range ids {
		tape := drive.NewTape(vh.NewRng(cfg.Seed, cfg.Prop, "tape/"+label(cfg.Labels, id), int(id)))
		tape.Mark = "r0"
		tr.Tapes[id] = tape
		drive.Step(tr, id, 0, func() error {
			ctx := ctxs[id]
			if ctx == nil {
				return fmt.Errorf("no session context for party %d", uint64(id))
			}
			p, err := rg.NewParticipant(ctx, cfg.Group, acOf(cfg.AC, cfg.ACs, id), cfg.Compiler, &LockedReader{R: tape})
			if err != nil {
				return err
			}
			res.Parts[id] = p
			return nil
		})
	}

	// ---- round 1
	for _, id := range ids {
		if !alive(id) {
			continue
		}
		tr.Tapes[id].Mark = "r1"
		drive.Step(tr, id, 1, func() error {
			b, u, err := res.Parts[id].Round1()
			if err != nil {
				return err
			}
			res.R1B[id] = b
			res.R1U[id] = map[sharing.ID]*rg.Round1Unicast[E, S]{}
			for to, m := range u.Iter() {
				res.R1U[id][to] = m
			}
			return nil
		})
	}
	in1b, in1u := DeliverBU(tr, cfg.Hook, 1, ids, alive, res.R1B, res.R1U)

	// ---- round 2
	for _, id := range ids {
		if !alive(id) {
			continue
		}
		tr.Tapes[id].Mark = "r2"
		drive.Step(tr, id, 2, func() error {
			b, err := res.Parts[id].Round2(freeze(in1b[id]), freeze(in1u[id]))
			if err != nil {
				return err
			}
			res.R2B[id] = b
			return nil
		})
	}
	in2b, _ := DeliverBU[*rg.Round2Broadcast[E, S], struct{}](tr, cfg.Hook, 2, ids, alive, res.R2B, nil)

	// ---- round 3
	for _, id := range ids {
		if !alive(id) {
			continue
		}
		tr.Tapes[id].Mark = "r3"
		drive.Step(tr, id, 3, func() error {
			sh, err := res.Parts[id].Round3(freeze(in2b[id]))
			if err != nil {
				return err
			}
			res.Shards[id] = sh
			return nil
		})
		if sh := res.Shards[id]; sh != nil {
			if p := vh.Safely(func() { tr.Outputs[id] = ShardText(sh) }); p != "" {
				tr.Notes = append(tr.Notes, fmt.Sprintf("output text of %d panicked: %s", uint64(id), p))
			}
		}
	}
	return res
}

// DeliverBU passes the round's broadcasts and unicasts (either may be nil) to every
// recipient through drive.Pass: senders ascending, then recipients ascending, broadcast
// before unicast.  A recipient that was alive before delivery started keeps receiving
// during this delivery even if an undecodable message stops it (verdict in round+1).
func DeliverBU[B any, U any](tr *drive.Trace, hook drive.Hook, round int, ids []sharing.ID, alive func(sharing.ID) bool,
	outB map[sharing.ID]B, outU map[sharing.ID]map[sharing.ID]U) (inB map[sharing.ID]map[sharing.ID]B, inU map[sharing.ID]map[sharing.ID]U) {
	inB = map[sharing.ID]map[sharing.ID]B{}
	inU = map[sharing.ID]map[sharing.ID]U{}
	for _, id := range ids {
		inB[id] = map[sharing.ID]B{}
		inU[id] = map[sharing.ID]U{}
	}
	wasAlive := map[sharing.ID]bool{}
	for _, id := range ids {
		wasAlive[id] = alive(id)
	}
	for _, from := range ids {
		if !wasAlive[from] {
			continue
		}
		for _, to := range ids {
			if to == from || !wasAlive[to] {
				continue
			}
			if outB != nil {
				if m, ok := outB[from]; ok {
					got, dropped, err := drive.Pass(tr, hook, round, from, 0, to, m)
					switch {
					case err != nil:
						drive.Step(tr, to, round+1, func() error { return err })
					case !dropped:
						inB[to][from] = got
					}
				}
			}
			if outU != nil {
				if m, ok := outU[from][to]; ok {
					got, dropped, err := drive.Pass(tr, hook, round, from, to, to, m)
					switch {
					case err != nil:
						drive.Step(tr, to, round+1, func() error { return err })
					case !dropped:
						inU[to][from] = got
					}
				}
			}
		}
	}
	return inB, inU
}
