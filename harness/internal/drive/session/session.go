// Package session drives the real session-setup protocol of
// /repo/pkg/mpc/session (Participant.Round1..Round4) round by round, exactly as
// the package's own rounds_test.go does, under the shared conventions of
// verif/harness/internal/drive.
//
//	res := session.RunFull(session.Config{Seed: s, Prop: "C10", Quorum: ids})
//	tr  := session.Run(cfg)                 // same, returns only the trace
//	ctx := session.Contexts(tr)             // contexts of the parties that completed
//
// Conventions
//
//   - Every party has its own recording drive.Tape over the stream
//     vh.NewRng(cfg.Seed, cfg.Prop, "tape/"+label, int(id)); label = cfg.Labels[id],
//     default "a".  Two runs that differ only in one party's label differ only in
//     that party's randomness (C07).  tape.Mark is "r1".."r4" while the party
//     executes Round1..Round4.
//   - Rounds and wire messages.  Round numbers of messages are the number of the
//     round function that PRODUCED them:
//     round 1: Round1Broadcast (To == 0),
//     round 2: Round2Broadcast (To == 0) and Round2P2P (To == recipient),
//     round 3: Round3P2P (To == recipient).
//     Round4 produces the *session.Context.  Every message is passed, once per
//     recipient, through drive.Pass(trace, cfg.Hook, round, from, to, rcpt, msg)
//     (CBOR round trip + hook), senders ascending, then recipients ascending; for a
//     round with broadcast and unicast the broadcast of a sender is passed before
//     its unicast to the same recipient.
//   - Every party step runs inside drive.Step: an error / panic becomes the party's
//     verdict and the party stops (it neither sends nor receives afterwards).  Peers
//     of a stopped party find its message missing in the next round and reject
//     (network.ValidateIncomingMessages blames the absent sender) — this is what the
//     real round functions do and it is recorded as such.
//   - A message the hook drops is simply absent from the recipient's inbox.  A
//     message that no longer decodes makes the recipient reject without blame in
//     the receiving round (this is what network.ReceiveUnicast / echo do with an
//     undecodable payload).
//   - Trace.Outputs[id] for a party that completed:
//     "sid=<hex32>;tx=<hex32>;seeds=<peer>:<hex16>,..." where tx is
//     ExtractBytes(ExtractLabel, 32) on a CLONE of the context's transcript and the
//     per-peer value is the first 16 bytes of SHA-256 over the first 32 bytes read
//     from Seeds()[peer] (Seeds() hands out clones; the context is not consumed).
//   - Deterministic, no goroutines, no `testing` import.
package session

import (
	"crypto/sha256"
	"fmt"
	"sort"
	"strings"
	"sync"

	ds "github.com/bronlabs/bron-crypto/pkg/base/datastructures"
	"github.com/bronlabs/bron-crypto/pkg/base/datastructures/hashmap"
	"github.com/bronlabs/bron-crypto/pkg/base/datastructures/hashset"
	rsess "github.com/bronlabs/bron-crypto/pkg/mpc/session"
	"github.com/bronlabs/bron-crypto/pkg/mpc/sharing"

	"verif/harness/internal/drive"
	"verif/harness/internal/vh"
)

// Proto is Trace.Proto / Msg.Proto of this driver.
const Proto = "session"

// ExtractLabel is the label of the transcript extract recorded in Trace.Outputs.
const ExtractLabel = "verif-session-extract"

// Config of one run.
type Config struct {
	Seed   int64
	Prop   string                // property id the tapes are keyed by, e.g. "C10"
	Quorum []sharing.ID          // distinct, non-zero, any order, at least 2
	Labels map[sharing.ID]string // tape label per party, default "a"
	Hook   drive.Hook            // nil = honest delivery
}

// Result is everything a check may want from one run (typed).
type Result struct {
	Trace  *drive.Trace
	Quorum []sharing.ID // ascending
	Ctx    map[sharing.ID]*rsess.Context
	// messages AS SENT (before the hook), by sender (and recipient)
	R1B map[sharing.ID]*rsess.Round1Broadcast
	R2B map[sharing.ID]*rsess.Round2Broadcast
	R2U map[sharing.ID]map[sharing.ID]*rsess.Round2P2P
	R3U map[sharing.ID]map[sharing.ID]*rsess.Round3P2P
	// messages AS DELIVERED (after CBOR + hook), by recipient, then sender; a dropped or
	// undecodable message is absent
	InR1B map[sharing.ID]map[sharing.ID]*rsess.Round1Broadcast
	InR2B map[sharing.ID]map[sharing.ID]*rsess.Round2Broadcast
	InR2U map[sharing.ID]map[sharing.ID]*rsess.Round2P2P
	InR3U map[sharing.ID]map[sharing.ID]*rsess.Round3P2P
	// Undec[id] = r: a message delivered to id as input of round r did not decode (the
	// party rejected in round r without running the round function)
	Undec map[sharing.ID]int
}

var (
	regMu sync.Mutex
	reg   = map[*drive.Trace]*Result{}
)

// Run executes the protocol and returns the trace.  Contexts(trace) gives the contexts.
func Run(cfg Config) *drive.Trace {
	res := RunFull(cfg)
	regMu.Lock()
	reg[res.Trace] = res
	regMu.Unlock()
	return res.Trace
}

// Contexts returns the session contexts of the parties that completed the run that
// produced tr (nil if tr did not come from Run).  The map is the driver's own: clone a
// context (ctx.Clone()) before consuming its transcript.
func Contexts(tr *drive.Trace) map[sharing.ID]*rsess.Context {
	regMu.Lock()
	defer regMu.Unlock()
	if r, ok := reg[tr]; ok {
		return r.Ctx
	}
	return nil
}

// Full returns the typed result belonging to a trace returned by Run.
func Full(tr *drive.Trace) *Result {
	regMu.Lock()
	defer regMu.Unlock()
	return reg[tr]
}

// Forget releases what Run remembered about tr (long-running searches should call it).
func Forget(tr *drive.Trace) {
	regMu.Lock()
	delete(reg, tr)
	regMu.Unlock()
}

// OutputText is the canonical output text of one context (see package comment).
func OutputText(ctx *rsess.Context) string {
	var sb strings.Builder
	sid := ctx.SessionID()
	sb.WriteString("sid=" + vh.Hex(sid[:]))
	tx, err := ctx.Transcript().Clone().ExtractBytes(ExtractLabel, 32)
	if err != nil {
		sb.WriteString(";tx=ERR")
	} else {
		sb.WriteString(";tx=" + vh.Hex(tx))
	}
	seeds := ctx.Seeds()
	ids := drive.SortedIDs(seeds)
	parts := make([]string, 0, len(ids))
	for _, id := range ids {
		buf := make([]byte, 32)
		if _, err := seeds[id].Read(buf); err != nil {
			parts = append(parts, fmt.Sprintf("%d:ERR", uint64(id)))
			continue
		}
		h := sha256.Sum256(buf)
		parts = append(parts, fmt.Sprintf("%d:%s", uint64(id), vh.Hex(h[:16])))
	}
	sb.WriteString(";seeds=" + strings.Join(parts, ","))
	return sb.String()
}

func freeze[M any](m map[sharing.ID]M) ds.Map[sharing.ID, M] {
	h := hashmap.NewComparable[sharing.ID, M]()
	for k, v := range m {
		h.Put(k, v)
	}
	return h.Freeze()
}

// RunFull executes the protocol and returns the typed result.
func RunFull(cfg Config) *Result {
	tr := drive.NewTrace(Proto)
	ids := append([]sharing.ID(nil), cfg.Quorum...)
	sort.Slice(ids, func(i, j int) bool { return ids[i] < ids[j] })
	res := &Result{
		Trace: tr, Quorum: ids,
		Ctx: map[sharing.ID]*rsess.Context{},
		R1B: map[sharing.ID]*rsess.Round1Broadcast{},
		R2B: map[sharing.ID]*rsess.Round2Broadcast{},
		R2U: map[sharing.ID]map[sharing.ID]*rsess.Round2P2P{},
		R3U: map[sharing.ID]map[sharing.ID]*rsess.Round3P2P{},
	}
	quorum := hashset.NewComparable(ids...).Freeze()

	parts := map[sharing.ID]*rsess.Participant{}
	alive := func(id sharing.ID) bool {
		v, ok := tr.Verdicts[id]
		return parts[id] != nil && (!ok || v.Class == "ok")
	}

	// construction (round 0)
	for _, id := range ids {
		label := "a"
		if l, ok := cfg.Labels[id]; ok && l != "" {
			label = l
		}
		tape := drive.NewTape(vh.NewRng(cfg.Seed, cfg.Prop, "tape/"+label, int(id)))
		tape.Mark = "r0"
		tr.Tapes[id] = tape
		drive.Step(tr, id, 0, func() error {
			p, err := rsess.NewParticipant(id, quorum, tape)
			if err != nil {
				return err
			}
			parts[id] = p
			return nil
		})
	}

	// ---- round 1
	for _, id := range ids {
		if !alive(id) {
			continue
		}
		tr.Tapes[id].Mark = "r1"
		drive.Step(tr, id, 1, func() error {
			b, err := parts[id].Round1()
			if err != nil {
				return err
			}
			res.R1B[id] = b
			return nil
		})
	}
	in1 := deliverB(tr, cfg.Hook, 1, ids, alive, res.R1B)
	res.InR1B = in1

	// ---- round 2
	for _, id := range ids {
		if !alive(id) {
			continue
		}
		tr.Tapes[id].Mark = "r2"
		drive.Step(tr, id, 2, func() error {
			b, u, err := parts[id].Round2(freeze(in1[id]))
			if err != nil {
				return err
			}
			res.R2B[id] = b
			res.R2U[id] = map[sharing.ID]*rsess.Round2P2P{}
			for to, m := range u.Iter() {
				res.R2U[id][to] = m
			}
			return nil
		})
	}
	in2b, in2u := deliverBU(tr, cfg.Hook, 2, ids, alive, res.R2B, res.R2U)
	res.InR2B, res.InR2U = in2b, in2u

	// ---- round 3
	for _, id := range ids {
		if !alive(id) {
			continue
		}
		tr.Tapes[id].Mark = "r3"
		drive.Step(tr, id, 3, func() error {
			u, err := parts[id].Round3(freeze(in2b[id]), freeze(in2u[id]))
			if err != nil {
				return err
			}
			res.R3U[id] = map[sharing.ID]*rsess.Round3P2P{}
			for to, m := range u.Iter() {
				res.R3U[id][to] = m
			}
			return nil
		})
	}
	_, in3u := deliverBU[*rsess.Round2Broadcast](tr, cfg.Hook, 3, ids, alive, nil, res.R3U)
	res.InR3U = in3u
	res.Undec = map[sharing.ID]int{}
	for _, id := range ids {
		if v, ok := tr.Verdicts[id]; ok && v.Class == "reject" && strings.HasPrefix(v.Detail, "undecodable message") {
			res.Undec[id] = v.Round
		}
	}

	// ---- round 4
	for _, id := range ids {
		if !alive(id) {
			continue
		}
		tr.Tapes[id].Mark = "r4"
		drive.Step(tr, id, 4, func() error {
			ctx, err := parts[id].Round4(freeze(in3u[id]))
			if err != nil {
				return err
			}
			res.Ctx[id] = ctx
			return nil
		})
		if ctx := res.Ctx[id]; ctx != nil {
			if p := vh.Safely(func() { tr.Outputs[id] = OutputText(ctx) }); p != "" {
				tr.Notes = append(tr.Notes, fmt.Sprintf("output text of %d panicked: %s", uint64(id), p))
			}
		}
	}
	return res
}

func deliverB[B any](tr *drive.Trace, hook drive.Hook, round int, ids []sharing.ID, alive func(sharing.ID) bool, out map[sharing.ID]B) map[sharing.ID]map[sharing.ID]B {
	b, _ := deliverBU[B, struct{}](tr, hook, round, ids, alive, out, nil)
	return b
}

// deliverBU passes the round's broadcasts and unicasts to every recipient.
func deliverBU[B any, U any](tr *drive.Trace, hook drive.Hook, round int, ids []sharing.ID, alive func(sharing.ID) bool,
	outB map[sharing.ID]B, outU map[sharing.ID]map[sharing.ID]U) (inB map[sharing.ID]map[sharing.ID]B, inU map[sharing.ID]map[sharing.ID]U) {
	inB = map[sharing.ID]map[sharing.ID]B{}
	inU = map[sharing.ID]map[sharing.ID]U{}
	for _, id := range ids {
		inB[id] = map[sharing.ID]B{}
		inU[id] = map[sharing.ID]U{}
	}
	// a recipient that was alive before delivery started keeps receiving (and being
	// recorded) during this delivery even if an undecodable message stops it.
	wasAlive := map[sharing.ID]bool{}
	for _, id := range ids {
		wasAlive[id] = alive(id)
	}
	for _, from := range ids {
		if !wasAlive[from] {
			continue
		}
		for _, to := range ids {
			if to == from || !wasAlive[to] {
				continue
			}
			if outB != nil {
				if m, ok := outB[from]; ok {
					got, dropped, err := drive.Pass(tr, hook, round, from, 0, to, m)
					switch {
					case err != nil:
						drive.Step(tr, to, round+1, func() error { return err })
					case !dropped:
						inB[to][from] = got
					}
				}
			}
			if outU != nil {
				if m, ok := outU[from][to]; ok {
					got, dropped, err := drive.Pass(tr, hook, round, from, to, to, m)
					switch {
					case err != nil:
						drive.Step(tr, to, round+1, func() error { return err })
					case !dropped:
						inU[to][from] = got
					}
				}
			}
		}
	}
	return inB, inU
}
