// Package cggmp21 drives the real CGGMP21 threshold-ECDSA online signing of /repo
// (pkg/mpc/signatures/ecdsa/cggmp21/signing: Cosigner.Round1..Round4) round by round — the
// same sequence the package's runner executes — under the conventions of
// verif/harness/internal/drive.
//
//	res := cggmp21.RunFull(cfg);  tr := cggmp21.Run(cfg);  cggmp21.Full(tr)
//
// Conventions
//
//   - Key material: stored trusted-dealer shards (Paillier-Blum + ring-Pedersen keys of
//     base.IFCKeyLength bits) from <root>/corpus/c01 via drive/keys.LoadCggmp for
//     (cfg.Curve, cfg.Policy); a missing file is reported in Result.SetupErr.
//   - Per-party recording tapes ("new" during NewCosigner, "r1".."r4").
//   - Messages: round 1: Round1Broadcast + Round1P2P, round 2: Round2Broadcast + Round2P2P,
//     round 3: Round3Broadcast, round 4: the PartialSignature, passed to the aggregator as a
//     broadcast with recipient 0.  A red alert (Round4 returning a RedAlertParticipant) is
//     recorded as the party's verdict "reject" (it never happens in an honest run).
//   - Aggregator 0 is signing.NewNonCosigningAggregator(curve).Aggregate (the cosigning
//     aggregator is only reachable through the networked runner).
//   - Trace.Outputs[id] = "Gamma=<compressed hex>;sigma=<hex>", Outputs[0] = "r=..;s=..;v=..".
//   - No `testing` import; deterministic given the stored key material.
package cggmp21

import (
	"fmt"
	"math/big"
	"sync"

	"github.com/bronlabs/bron-crypto/pkg/base/algebra"
	"github.com/bronlabs/bron-crypto/pkg/base/curves"
	"github.com/bronlabs/bron-crypto/pkg/base/curves/k256"
	"github.com/bronlabs/bron-crypto/pkg/base/curves/p256"
	rsess "github.com/bronlabs/bron-crypto/pkg/mpc/session"
	"github.com/bronlabs/bron-crypto/pkg/mpc/sharing"
	rcg "github.com/bronlabs/bron-crypto/pkg/mpc/signatures/ecdsa/cggmp21"
	"github.com/bronlabs/bron-crypto/pkg/mpc/signatures/ecdsa/cggmp21/signing"
	"github.com/bronlabs/bron-crypto/pkg/signatures/ecdsa"

	"verif/harness/internal/drive"
	ddkls "verif/harness/internal/drive/dkls23"
	"verif/harness/internal/drive/keys"
	"verif/harness/internal/vh"
)

// Config of one run.
type Config struct {
	keys.Common
	Policy string
	Curve  string
	Hash   string
}

// Partial is a party's partial signature.
type Partial struct {
	Gamma []byte
	Sigma *big.Int
}

// Sig is the aggregate.
type Sig struct {
	R, S *big.Int
	V    int
}

// Result is the typed outcome.
type Result struct {
	Trace    *drive.Trace
	Quorum   []sharing.ID
	Order    *big.Int
	Secret   *big.Int
	PKX, PKY *big.Int
	Partials map[sharing.ID]*Partial
	Sig      *Sig
	LibOK    string
	SetupErr string
	BaseMul  func(k *big.Int) []byte
}

var (
	regMu sync.Mutex
	reg   = map[*drive.Trace]*Result{}
)

func Run(cfg Config) *drive.Trace {
	res := RunFull(cfg)
	regMu.Lock()
	reg[res.Trace] = res
	regMu.Unlock()
	return res.Trace
}

func Full(tr *drive.Trace) *Result {
	regMu.Lock()
	defer regMu.Unlock()
	return reg[tr]
}

func Forget(tr *drive.Trace) {
	regMu.Lock()
	delete(reg, tr)
	regMu.Unlock()
}

// RunFull executes the protocol.
func RunFull(cfg Config) *Result {
	switch cfg.Curve {
	case "", "k256":
		return run[*k256.Point, *k256.BaseFieldElement, *k256.Scalar](cfg, "k256", k256.NewCurve())
	case "p256":
		return run[*p256.Point, *p256.BaseFieldElement, *p256.Scalar](cfg, "p256", p256.NewCurve())
	}
	e := keys.NewEngine("cggmp21", cfg.Common)
	return &Result{Trace: e.Tr, SetupErr: "unknown curve " + cfg.Curve}
}

func run[P curves.Point[P, B, S], B algebra.PrimeFieldElement[B], S algebra.PrimeFieldElement[S]](cfg Config, curveName string, curve ecdsa.Curve[P, B, S]) *Result {
	e := keys.NewEngine("cggmp21", cfg.Common)
	res := &Result{Trace: e.Tr, Quorum: e.IDs, Partials: map[sharing.ID]*Partial{}, LibOK: "-"}
	fail := func(format string, a ...any) *Result {
		res.SetupErr = fmt.Sprintf(format, a...)
		e.Tr.Notes = append(e.Tr.Notes, "setup: "+res.SetupErr)
		return res
	}
	hf, err := ddkls.HashFunc(cfg.Hash)
	if err != nil {
		return fail("%v", err)
	}
	suite, err := ecdsa.NewSuite(curve, hf)
	if err != nil {
		return fail("suite: %v", err)
	}
	res.Order = curve.Order().Big()
	res.BaseMul = func(k *big.Int) []byte {
		s, err := suite.ScalarField().FromWideBytes(new(big.Int).Mod(k, res.Order).Bytes())
		if err != nil {
			return nil
		}
		return curve.ScalarBaseMul(s).ToCompressed()
	}
	var mat *keys.CggmpMaterial[P, B, S]
	if p := vh.Safely(func() { mat, err = keys.LoadCggmp[P, B, S](curveName, cfg.Policy) }); p != "" {
		return fail("loading key material panicked: %s", p)
	}
	if err != nil {
		return fail("key material missing: %v", err)
	}
	res.Secret = new(big.Int).SetBytes(mat.Secret)
	shards := map[sharing.ID]*rcg.Shard[P, B, S]{}
	for _, id := range e.IDs {
		sh, ok := mat.Shards[id]
		if !ok {
			return fail("quorum member %d holds no shard", uint64(id))
		}
		shards[id] = sh
		if x, err := sh.PublicKeyValue().AffineX(); err == nil {
			res.PKX = x.Cardinal().Big()
		}
		if y, err := sh.PublicKeyValue().AffineY(); err == nil {
			res.PKY = y.Cardinal().Big()
		}
	}
	var ctxs map[sharing.ID]*rsess.Context
	if p := vh.Safely(func() { ctxs, err = keys.Contexts(cfg.Common) }); p != "" {
		return fail("session contexts panicked: %s", p)
	}
	if err != nil {
		return fail("session contexts: %v", err)
	}

	cs := map[sharing.ID]*signing.Cosigner[P, B, S]{}
	e.Construct(func(id sharing.ID) error {
		c, err := signing.NewCosigner(ctxs[id], suite, shards[id], e.Tr.Tapes[id])
		if err != nil {
			return err
		}
		cs[id] = c
		return nil
	})
	b1 := map[sharing.ID]*signing.Round1Broadcast[P, B, S]{}
	u1 := map[sharing.ID]map[sharing.ID]*signing.Round1P2P[P, B, S]{}
	e.Each(1, func(id sharing.ID) error {
		b, u, err := cs[id].Round1()
		if err != nil {
			return err
		}
		b1[id], u1[id] = b, keys.Thaw(u)
		return nil
	})
	ib1, iu1 := keys.Deliver(e, 1, b1, u1)
	b2 := map[sharing.ID]*signing.Round2Broadcast[P, B, S]{}
	u2 := map[sharing.ID]map[sharing.ID]*signing.Round2P2P[P, B, S]{}
	e.Each(2, func(id sharing.ID) error {
		b, u, err := cs[id].Round2(keys.Freeze(ib1[id]), keys.Freeze(iu1[id]))
		if err != nil {
			return err
		}
		b2[id], u2[id] = b, keys.Thaw(u)
		return nil
	})
	ib2, iu2 := keys.Deliver(e, 2, b2, u2)
	b3 := map[sharing.ID]*signing.Round3Broadcast[P, B, S]{}
	e.Each(3, func(id sharing.ID) error {
		b, err := cs[id].Round3(keys.Freeze(ib2[id]), keys.Freeze(iu2[id]))
		if err != nil {
			return err
		}
		b3[id] = b
		return nil
	})
	ib3, _ := keys.Deliver[*signing.Round3Broadcast[P, B, S], keys.None](e, 3, b3, nil)
	psigs := map[sharing.ID]*rcg.PartialSignature[P, B, S]{}
	e.Each(4, func(id sharing.ID) error {
		ps, alert, err := cs[id].Round4(keys.Freeze(ib3[id]), cfg.Message)
		if err != nil {
			return err
		}
		if alert != nil {
			return fmt.Errorf("red alert raised in an honest run")
		}
		psigs[id] = ps
		return nil
	})
	atAgg := map[sharing.ID]*rcg.PartialSignature[P, B, S]{}
	for _, id := range e.IDs {
		ps, ok := psigs[id]
		if !ok || ps == nil {
			continue
		}
		p := &Partial{Gamma: ps.Gamma.ToCompressed(), Sigma: ps.Sigma.Cardinal().Big()}
		res.Partials[id] = p
		e.Tr.Outputs[id] = fmt.Sprintf("Gamma=%s;sigma=%s", vh.Hex(p.Gamma), vh.ZHex(p.Sigma))
		got, dropped, err := drive.Pass(e.Tr, e.Hook, 4, id, 0, 0, ps)
		if err != nil || dropped {
			continue
		}
		atAgg[id] = got
	}
	var sig *ecdsa.Signature[S]
	drive.Step(e.Tr, 0, 5, func() error {
		agg, err := signing.NewNonCosigningAggregator(curve)
		if err != nil {
			return err
		}
		sig, err = agg.Aggregate(atAgg)
		return err
	})
	if sig != nil {
		res.Sig = &Sig{R: sig.R().Cardinal().Big(), S: sig.S().Cardinal().Big(), V: -1}
		if v := sig.V(); v != nil {
			res.Sig.V = *v
		}
		e.Tr.Outputs[0] = fmt.Sprintf("r=%s;s=%s;v=%d", vh.ZHex(res.Sig.R), vh.ZHex(res.Sig.S), res.Sig.V)
		res.LibOK = "reject"
		p := vh.Safely(func() {
			vf, err := ecdsa.NewVerifier(suite)
			if err != nil {
				return
			}
			var any *rcg.Shard[P, B, S]
			for _, id := range e.IDs {
				any = shards[id]
				break
			}
			if vf.Verify(sig, any.PublicKey(), cfg.Message) == nil {
				res.LibOK = "ok"
			}
		})
		if p != "" {
			res.LibOK = "panic"
		}
	}
	return res
}
