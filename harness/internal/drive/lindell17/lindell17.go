// Package lindell17 drives the real Lindell17 two-party ECDSA signing of /repo
// (pkg/mpc/signatures/ecdsa/lindell17/signing: PrimaryCosigner.Round1/3/5,
// SecondaryCosigner.Round2/4) exactly as the package's signing_test.go runSigning does,
// under the conventions of verif/harness/internal/drive.
//
//	res := lindell17.RunFull(cfg);  tr := lindell17.Run(cfg);  lindell17.Full(tr)
//
// Conventions
//
//   - cfg.Quorum has exactly two members; cfg.Quorum[0] is the PRIMARY, cfg.Quorum[1] the
//     secondary.  cfg.Compiler "fischlin" (default) | "randfischlin".
//   - Key material: stored trusted-dealer shards (Paillier keys of base.IFCKeyLength bits) from
//     <root>/corpus/c01 via drive/keys.LoadL17 for (cfg.Curve, cfg.Policy); if the file is
//     missing Result.SetupErr says so (drive/keys.GenerateL17 makes it; never in the quick tier).
//   - Per-party recording tapes ("new" during New*Cosigner; "r1","r3","r5" for the primary,
//     "r2","r4" for the secondary).  The primary's first read tagged r1 is k1, the secondary's
//     first read tagged r2 is k2.
//   - Messages: round k carries Round<k>OutputP2P from the party that ran round k to the other.
//   - Only the primary obtains an output: Trace.Outputs[primary] = "r=<hex>;s=<hex>;v=<n>".
//   - The result also carries what a check needs for the model tie: the primary's share
//     components and reconstruction coefficients for the quorum, the secondary's additive share
//     and PRZS zero share (computed with the library on a clone of its context), the Paillier
//     modulus N of the primary and the integer plaintext of c3 (decrypted with the primary's
//     stored secret key, symmetric representative).
//   - No `testing` import; deterministic.
package lindell17

import (
	"fmt"
	"math/big"
	"sync"

	"github.com/bronlabs/bron-crypto/pkg/base/algebra"
	"github.com/bronlabs/bron-crypto/pkg/base/curves"
	"github.com/bronlabs/bron-crypto/pkg/base/curves/k256"
	"github.com/bronlabs/bron-crypto/pkg/base/curves/p256"
	"github.com/bronlabs/bron-crypto/pkg/hashing"
	rsess "github.com/bronlabs/bron-crypto/pkg/mpc/session"
	"github.com/bronlabs/bron-crypto/pkg/mpc/sharing"
	"github.com/bronlabs/bron-crypto/pkg/mpc/sharing/accessstructures/unanimity"
	"github.com/bronlabs/bron-crypto/pkg/mpc/sharing/scheme/kw"
	"github.com/bronlabs/bron-crypto/pkg/mpc/sharing/vss/feldman"
	"github.com/bronlabs/bron-crypto/pkg/mpc/signatures/ecdsa/lindell17/signing"
	"github.com/bronlabs/bron-crypto/pkg/mpc/zero/przs"
	"github.com/bronlabs/bron-crypto/pkg/proofs/sigma/compiler"
	"github.com/bronlabs/bron-crypto/pkg/proofs/sigma/compiler/fischlin"
	"github.com/bronlabs/bron-crypto/pkg/proofs/sigma/compiler/randfischlin"
	"github.com/bronlabs/bron-crypto/pkg/signatures/ecdsa"

	"verif/harness/internal/drive"
	ddkls "verif/harness/internal/drive/dkls23"
	"verif/harness/internal/drive/keys"
	"verif/harness/internal/vh"
)

// Config of one run.
type Config struct {
	keys.Common
	Policy   string
	Curve    string // "k256" | "p256"
	Hash     string
	Compiler string // "fischlin" | "randfischlin"
}

// Sig is the primary's output.
type Sig struct {
	R, S *big.Int
	V    int
}

// Result is the typed outcome.
type Result struct {
	Trace              *drive.Trace
	Primary, Secondary sharing.ID
	Order              *big.Int
	Secret             *big.Int
	PKX, PKY           *big.Int
	M                  *big.Int
	Sig                *Sig
	LibOK              string
	LibStrict          string
	X1                 []*big.Int // primary's share components (plaintexts of the encrypted shares)
	Lam                []*big.Int // primary's reconstruction coefficients for the quorum
	X2                 *big.Int   // secondary's additive share for the quorum
	Zeta2              *big.Int   // secondary's PRZS zero share
	N                  *big.Int   // primary's Paillier modulus
	C3                 *big.Int   // integer plaintext of c3 (symmetric representative), nil if unavailable
	SetupErr           string
	BaseXY             func(k *big.Int) (x, y *big.Int)
}

var (
	regMu sync.Mutex
	reg   = map[*drive.Trace]*Result{}
)

func Run(cfg Config) *drive.Trace {
	res := RunFull(cfg)
	regMu.Lock()
	reg[res.Trace] = res
	regMu.Unlock()
	return res.Trace
}

func Full(tr *drive.Trace) *Result {
	regMu.Lock()
	defer regMu.Unlock()
	return reg[tr]
}

func Forget(tr *drive.Trace) {
	regMu.Lock()
	delete(reg, tr)
	regMu.Unlock()
}

// RunFull executes the protocol.
func RunFull(cfg Config) *Result {
	switch cfg.Curve {
	case "", "k256":
		return run[*k256.Point, *k256.BaseFieldElement, *k256.Scalar](cfg, "k256", k256.NewCurve())
	case "p256":
		return run[*p256.Point, *p256.BaseFieldElement, *p256.Scalar](cfg, "p256", p256.NewCurve())
	}
	e := keys.NewEngine("lindell17", cfg.Common)
	return &Result{Trace: e.Tr, SetupErr: "unknown curve " + cfg.Curve}
}

func run[P curves.Point[P, B, S], B algebra.PrimeFieldElement[B], S algebra.PrimeFieldElement[S]](cfg Config, curveName string, curve ecdsa.Curve[P, B, S]) *Result {
	e := keys.NewEngine("lindell17", cfg.Common)
	res := &Result{Trace: e.Tr, LibOK: "-", LibStrict: "-"}
	fail := func(format string, a ...any) *Result {
		res.SetupErr = fmt.Sprintf(format, a...)
		e.Tr.Notes = append(e.Tr.Notes, "setup: "+res.SetupErr)
		return res
	}
	if len(cfg.Quorum) != 2 {
		return fail("Lindell17 needs a quorum of two, got %d", len(cfg.Quorum))
	}
	pid, sid := cfg.Quorum[0], cfg.Quorum[1]
	res.Primary, res.Secondary = pid, sid
	hf, err := ddkls.HashFunc(cfg.Hash)
	if err != nil {
		return fail("%v", err)
	}
	suite, err := ecdsa.NewSuite(curve, hf)
	if err != nil {
		return fail("suite: %v", err)
	}
	res.Order = curve.Order().Big()
	res.BaseXY = func(k *big.Int) (*big.Int, *big.Int) {
		s, err := suite.ScalarField().FromWideBytes(new(big.Int).Mod(k, res.Order).Bytes())
		if err != nil {
			return nil, nil
		}
		pt := curve.ScalarBaseMul(s)
		x, e1 := pt.AffineX()
		y, e2 := pt.AffineY()
		if e1 != nil || e2 != nil {
			return nil, nil
		}
		return x.Cardinal().Big(), y.Cardinal().Big()
	}
	var nic compiler.Name
	switch cfg.Compiler {
	case "", "fischlin":
		nic = fischlin.Name
	case "randfischlin":
		nic = randfischlin.Name
	default:
		return fail("unknown compiler %q", cfg.Compiler)
	}
	var mat *keys.L17Material[P, B, S]
	if p := vh.Safely(func() { mat, err = keys.LoadL17[P, B, S](curveName, cfg.Policy) }); p != "" {
		return fail("loading key material panicked: %s", p)
	}
	if err != nil {
		return fail("key material missing: %v", err)
	}
	pshard, ok1 := mat.Shards[pid]
	sshard, ok2 := mat.Shards[sid]
	if !ok1 || !ok2 {
		return fail("quorum member holds no shard")
	}
	res.Secret = new(big.Int).SetBytes(mat.Secret)
	if x, err := pshard.PublicKeyValue().AffineX(); err == nil {
		res.PKX = x.Cardinal().Big()
	}
	if y, err := pshard.PublicKeyValue().AffineY(); err == nil {
		res.PKY = y.Cardinal().Big()
	}
	if d, err := hashing.Hash(hf, cfg.Message); err == nil {
		if m, err := ecdsa.DigestToScalar(suite.ScalarField(), d); err == nil {
			res.M = m.Cardinal().Big()
		}
	}
	var ctxs map[sharing.ID]*rsess.Context
	if p := vh.Safely(func() { ctxs, err = keys.Contexts(cfg.Common) }); p != "" {
		return fail("session contexts panicked: %s", p)
	}
	if err != nil {
		return fail("session contexts: %v", err)
	}
	// what the model tie needs, computed with the library on clones
	vh.Safely(func() {
		for _, v := range pshard.Share().Value() {
			res.X1 = append(res.X1, v.Cardinal().Big())
		}
		if lam, err := pshard.MSP().ReconstructionCoefficients(pid, pid, sid); err == nil {
			for _, l := range lam {
				res.Lam = append(res.Lam, l.Cardinal().Big())
			}
		}
		if z, err := przs.SampleZeroShare(ctxs[sid].Clone(), suite.ScalarField()); err == nil {
			res.Zeta2 = z.Value().Cardinal().Big()
		}
		kws, err := kw.NewInducedScheme(sshard.MSP())
		if err != nil {
			return
		}
		fs, err := feldman.NewSchemeFromKW(curve, kws)
		if err != nil {
			return
		}
		q, err := unanimity.NewUnanimityAccessStructure(keys.IDSet([]sharing.ID{pid, sid}))
		if err != nil {
			return
		}
		if a, err := fs.ConvertShareToAdditive(sshard.Share(), q); err == nil {
			res.X2 = a.Value().Cardinal().Big()
		}
		res.N = pshard.PaillierSecretKey().Public().Group().N().Big()
	})

	var pc *signing.PrimaryCosigner[P, B, S]
	var sc *signing.SecondaryCosigner[P, B, S]
	e.Construct(func(id sharing.ID) error {
		var err error
		if id == pid {
			pc, err = signing.NewPrimaryCosigner(ctxs[id], suite, sid, pshard, nic, e.Tr.Tapes[id])
		} else {
			sc, err = signing.NewSecondaryCosigner(ctxs[id], suite, pid, sshard, nic, e.Tr.Tapes[id])
		}
		return err
	})
	var r1 *signing.Round1OutputP2P[P, B, S]
	var r2 *signing.Round2OutputP2P[P, B, S]
	var r3 *signing.Round3OutputP2P[P, B, S]
	var r4 *signing.Round4OutputP2P[P, B, S]
	var sig *ecdsa.Signature[S]
	e.One(1, pid, func() (err error) { r1, err = pc.Round1(); return err })
	got1 := deliverOne(e, 1, pid, sid, r1)
	e.One(2, sid, func() (err error) {
		if got1 == nil {
			return fmt.Errorf("round 1 message missing")
		}
		r2, err = sc.Round2(got1)
		return err
	})
	got2 := deliverOne(e, 2, sid, pid, r2)
	e.One(3, pid, func() (err error) {
		if got2 == nil {
			return fmt.Errorf("round 2 message missing")
		}
		r3, err = pc.Round3(got2)
		return err
	})
	got3 := deliverOne(e, 3, pid, sid, r3)
	e.One(4, sid, func() (err error) {
		if got3 == nil {
			return fmt.Errorf("round 3 message missing")
		}
		r4, err = sc.Round4(got3, cfg.Message)
		return err
	})
	got4 := deliverOne(e, 4, sid, pid, r4)
	e.One(5, pid, func() (err error) {
		if got4 == nil {
			return fmt.Errorf("round 4 message missing")
		}
		sig, err = pc.Round5(got4, cfg.Message)
		return err
	})
	if got4 != nil && got4.C3 != nil {
		vh.Safely(func() {
			if pt, err := pshard.PaillierSecretKey().Decrypt(got4.C3); err == nil {
				res.C3 = pt.Normalise().Big()
			}
		})
	}
	if sig != nil {
		res.Sig = &Sig{R: sig.R().Cardinal().Big(), S: sig.S().Cardinal().Big(), V: -1}
		if v := sig.V(); v != nil {
			res.Sig.V = *v
		}
		e.Tr.Outputs[pid] = fmt.Sprintf("r=%s;s=%s;v=%d", vh.ZHex(res.Sig.R), vh.ZHex(res.Sig.S), res.Sig.V)
		pk, err := ecdsa.NewPublicKey(pshard.PublicKeyValue())
		if err == nil {
			res.LibOK = verify(suite, sig, pk, cfg.Message, false)
			res.LibStrict = verify(suite, sig, pk, cfg.Message, true)
		}
	}
	return res
}

// deliverOne passes a single unicast through drive.Pass.
func deliverOne[M any](e *keys.Engine, round int, from, to sharing.ID, m *M) *M {
	if m == nil || !e.Alive(from) || !e.Alive(to) {
		return nil
	}
	got, dropped, err := drive.Pass(e.Tr, e.Hook, round, from, to, to, m)
	if err != nil {
		drive.Step(e.Tr, to, round+1, func() error { return err })
		return nil
	}
	if dropped {
		return nil
	}
	return got
}

func verify[P curves.Point[P, B, S], B algebra.PrimeFieldElement[B], S algebra.PrimeFieldElement[S]](suite *ecdsa.Suite[P, B, S], sig *ecdsa.Signature[S], pk *ecdsa.PublicKey[P, B, S], msg []byte, strict bool) string {
	out := "reject"
	p := vh.Safely(func() {
		vf, err := ecdsa.NewVerifier(suite)
		if err != nil {
			return
		}
		if strict {
			if err := ecdsa.VerifyNonMalleably(vf); err != nil {
				return
			}
		}
		if vf.Verify(sig, pk, msg) == nil {
			out = "ok"
		}
	})
	if p != "" {
		return "panic"
	}
	return out
}
