// Package dkls23 drives the real DKLs23 threshold-ECDSA signing protocol of /repo
// (pkg/mpc/signatures/ecdsa/dkls23, signing_bbot and signing_softspoken) round by round,
// exactly as the packages' own rounds_test.go / round_test.go do, under the conventions of
// verif/harness/internal/drive.
//
//	res := dkls23.RunFull(cfg)      // typed result
//	tr  := dkls23.Run(cfg)          // the trace only; dkls23.Full(tr) gives the typed result
//
// Conventions
//
//   - Key material: drive/keys.Material — the trusted dealer (stream vh.NewRng(Seed, Prop, "deal", 0))
//     or, with cfg.KeySource = "gennaro", the real Gennaro DKG among all holders —
//     for cfg.Policy over cfg.Curve ("k256" | "p256"); the hash is cfg.Hash ("sha256" | "sha384" |
//     "sha512" | "sha3-256" | "sha3-384" | "sha3-512": narrower, equal and wider than the scalar field).  Every holder gets a shard; the parties of cfg.Quorum sign.
//   - Every party of the quorum has its own recording drive.Tape over
//     vh.NewRng(Seed, Prop, "tape/"+label, int(id)), label = cfg.Labels[id] (default "a").
//     tape.Mark is "new" during NewCosigner and "r<k>" while the party executes Round<k>.
//   - Multiplier "bbot":  Round1..Round4; messages of round k (produced by Round<k>):
//     1: Round1Broadcast + Round1P2P, 2: Round2Broadcast + Round2P2P, 3: Round3Broadcast + Round3P2P,
//     4: the PartialSignature, passed to the aggregator as a broadcast with recipient 0.
//     Multiplier "softspoken": Round1..Round5; 1: Round1P2P, 2: Round2P2P, 3: Round3Broadcast +
//     Round3P2P, 4: Round4Broadcast + Round4P2P, 5: the PartialSignature.
//     Every message goes once per recipient through drive.Pass (CBOR round trip + hook).
//   - Every party step runs inside drive.Step; a party stops after its first non-ok verdict.
//   - cfg.API = "runner": the parties are made with signing_{bbot,softspoken}.NewRunner and run
//     concurrently through network.Router over an in-memory transport (drive/keys.RunRunners);
//     messages then do not pass through drive.Pass and the tape mark is "run" throughout.
//   - Aggregation: dkls23.Aggregate is a public function of (suite, pk, message, partial
//     signatures); it is run by "aggregator 0" on the partial signatures in ascending sender
//     order and once more on the reversed order (id 0 output must not depend on the order;
//     Result.Sig2).  Verdict of the aggregator is Trace.Verdicts[0].
//   - Trace.Outputs[id] = "R=<compressed hex>;u=<hex>;w=<hex>" (the party's partial signature),
//     Trace.Outputs[0] = "r=<hex>;s=<hex>;v=<0..3>".
//   - No `testing` import; deterministic for a fixed Config.
package dkls23

import (
	"crypto/sha256"
	"crypto/sha3"
	"crypto/sha512"
	"fmt"
	"hash"
	"math/big"
	"strings"
	"sync"
	"time"

	"github.com/bronlabs/bron-crypto/pkg/base/algebra"
	"github.com/bronlabs/bron-crypto/pkg/base/curves"
	"github.com/bronlabs/bron-crypto/pkg/base/curves/k256"
	"github.com/bronlabs/bron-crypto/pkg/base/curves/p256"
	"github.com/bronlabs/bron-crypto/pkg/base/serde"
	"github.com/bronlabs/bron-crypto/pkg/hashing"
	rsess "github.com/bronlabs/bron-crypto/pkg/mpc/session"
	"github.com/bronlabs/bron-crypto/pkg/mpc/sharing"
	"github.com/bronlabs/bron-crypto/pkg/mpc/sharing/accessstructures/unanimity"
	"github.com/bronlabs/bron-crypto/pkg/mpc/sharing/scheme/kw"
	"github.com/bronlabs/bron-crypto/pkg/mpc/sharing/vss/feldman"
	rdkls "github.com/bronlabs/bron-crypto/pkg/mpc/signatures/ecdsa/dkls23"
	"github.com/bronlabs/bron-crypto/pkg/mpc/signatures/ecdsa/dkls23/keygen"
	"github.com/bronlabs/bron-crypto/pkg/mpc/signatures/ecdsa/dkls23/signing_bbot"
	"github.com/bronlabs/bron-crypto/pkg/mpc/signatures/ecdsa/dkls23/signing_softspoken"
	"github.com/bronlabs/bron-crypto/pkg/mpc/zero/przs"
	"github.com/bronlabs/bron-crypto/pkg/network"
	"github.com/bronlabs/bron-crypto/pkg/signatures/ecdsa"

	"verif/harness/internal/drive"
	"verif/harness/internal/drive/keys"
	"verif/harness/internal/vh"
)

// Config of one run.
type Config struct {
	keys.Common
	Policy     string // keys policy text
	Curve      string // "k256" | "p256"
	Hash       string // "sha256" | "sha3-256" | "sha512"
	Multiplier string // "bbot" | "softspoken"
}

// Partial is a party's partial signature as it leaves Round4/Round5.
type Partial struct {
	R    []byte // compressed point
	U, W *big.Int
}

// Sig is the aggregate.
type Sig struct {
	R, S *big.Int
	V    int // -1 if absent
}

// Result is the typed outcome of a run.
type Result struct {
	Trace    *drive.Trace
	Quorum   []sharing.ID // ascending
	Order    *big.Int     // group order q
	Secret   *big.Int     // the dealer's secret x
	PKX, PKY *big.Int     // affine public key
	Digest   []byte       // hash of the message under cfg.Hash
	M        *big.Int     // DigestToScalar(digest) as the library computes it
	Partials map[sharing.ID]*Partial
	// what the theorem's key-share hypotheses speak about, computed with the library on the same
	// shares / on clones of the same contexts: ConvertShareToAdditive(share_i, quorum) and the PRZS
	// zero share zeta_i (the cosigner's c.state.sk is Additive[i] + Zeta[i])
	Additive  map[sharing.ID]*big.Int
	Zeta      map[sharing.ID]*big.Int
	Sig       *Sig                             // Aggregate on ascending order (nil if it failed)
	Sig2      *Sig                             // Aggregate on descending order
	LibOK     string                           // library verifier (ecdsa.NewVerifier(suite)) on Sig for (message, pk): "ok" | "reject" | "panic" | "-"
	LibStrict string                           // the same verifier with ecdsa.VerifyNonMalleably
	SetupErr  string                           // non-empty if key material / contexts could not be made
	BaseMul   func(k *big.Int) []byte          // compressed k·G on cfg.Curve (the implementation's curve)
	BaseXY    func(k *big.Int) (x, y *big.Int) // affine coordinates of k·G (nil, nil for the identity)
}

var (
	regMu sync.Mutex
	reg   = map[*drive.Trace]*Result{}
)

// Run executes the protocol and returns the trace; Full(trace) gives the typed result.
func Run(cfg Config) *drive.Trace {
	res := RunFull(cfg)
	regMu.Lock()
	reg[res.Trace] = res
	regMu.Unlock()
	return res.Trace
}

// Full returns the typed result belonging to a trace returned by Run.
func Full(tr *drive.Trace) *Result {
	regMu.Lock()
	defer regMu.Unlock()
	return reg[tr]
}

// Forget releases what Run remembered.
func Forget(tr *drive.Trace) {
	regMu.Lock()
	delete(reg, tr)
	regMu.Unlock()
}

// HashFunc maps a hash name to its constructor.
func HashFunc(name string) (func() hash.Hash, error) {
	switch name {
	case "", "sha256":
		return sha256.New, nil
	case "sha512":
		return sha512.New, nil
	case "sha384":
		return sha512.New384, nil
	case "sha3-256":
		return func() hash.Hash { return sha3.New256() }, nil
	case "sha3-384":
		return func() hash.Hash { return sha3.New384() }, nil
	case "sha3-512":
		return func() hash.Hash { return sha3.New512() }, nil
	}
	return nil, fmt.Errorf("unknown hash %q", name)
}

// RunFull executes the protocol and returns the typed result.
func RunFull(cfg Config) *Result {
	switch cfg.Curve {
	case "", "k256":
		return run[*k256.Point, *k256.BaseFieldElement, *k256.Scalar](cfg, k256.NewCurve())
	case "p256":
		return run[*p256.Point, *p256.BaseFieldElement, *p256.Scalar](cfg, p256.NewCurve())
	}
	e := keys.NewEngine("dkls23-"+cfg.Multiplier, cfg.Common)
	return &Result{Trace: e.Tr, SetupErr: "unknown curve " + cfg.Curve}
}

type psDTO[P any, S any] struct {
	R P `cbor:"r"`
	U S `cbor:"u"`
	W S `cbor:"w"`
}

func big_[S algebra.PrimeFieldElement[S]](s S) *big.Int { return s.Cardinal().Big() }

func run[P curves.Point[P, B, S], B algebra.PrimeFieldElement[B], S algebra.PrimeFieldElement[S]](cfg Config, curve ecdsa.Curve[P, B, S]) *Result {
	mult := cfg.Multiplier
	if mult == "" {
		mult = "bbot"
	}
	e := keys.NewEngine("dkls23-"+mult, cfg.Common)
	res := &Result{Trace: e.Tr, Quorum: e.IDs, Partials: map[sharing.ID]*Partial{}, LibOK: "-", LibStrict: "-"}
	fail := func(format string, a ...any) *Result {
		res.SetupErr = fmt.Sprintf(format, a...)
		e.Tr.Notes = append(e.Tr.Notes, "setup: "+res.SetupErr)
		return res
	}
	hf, err := HashFunc(cfg.Hash)
	if err != nil {
		return fail("%v", err)
	}
	suite, err := ecdsa.NewSuite(curve, hf)
	if err != nil {
		return fail("suite: %v", err)
	}
	res.Order = curve.Order().Big()
	res.BaseMul = func(k *big.Int) []byte {
		s, err := suite.ScalarField().FromWideBytes(new(big.Int).Mod(k, res.Order).Bytes())
		if err != nil {
			return nil
		}
		return curve.ScalarBaseMul(s).ToCompressed()
	}
	res.BaseXY = func(k *big.Int) (*big.Int, *big.Int) {
		s, err := suite.ScalarField().FromWideBytes(new(big.Int).Mod(k, res.Order).Bytes())
		if err != nil {
			return nil, nil
		}
		pt := curve.ScalarBaseMul(s)
		x, e1 := pt.AffineX()
		y, e2 := pt.AffineY()
		if e1 != nil || e2 != nil {
			return nil, nil
		}
		return x.Cardinal().Big(), y.Cardinal().Big()
	}
	pol, err := keys.ParsePolicy(cfg.Policy)
	if err != nil {
		return fail("policy: %v", err)
	}
	var dealt *keys.Dealt[P, S]
	if p := vh.Safely(func() { dealt, err = keys.Material[P, S](cfg.Common, curve, pol) }); p != "" {
		return fail("dealer panicked: %s", p)
	}
	if err != nil {
		return fail("dealer: %v", err)
	}
	res.Secret = big_(dealt.Secret)
	if x, err := dealt.PK.AffineX(); err == nil {
		res.PKX = x.Cardinal().Big()
	}
	if y, err := dealt.PK.AffineY(); err == nil {
		res.PKY = y.Cardinal().Big()
	}
	if d, err := hashing.Hash(hf, cfg.Message); err == nil {
		res.Digest = d
		if m, err := ecdsa.DigestToScalar(suite.ScalarField(), d); err == nil {
			res.M = big_(m)
		}
	}
	shards := map[sharing.ID]*rdkls.Shard[P, B, S]{}
	for _, id := range e.IDs {
		bs, ok := dealt.Shards[id]
		if !ok {
			return fail("quorum member %d holds no shard", uint64(id))
		}
		sh, err := keygen.NewShard(bs)
		if err != nil {
			return fail("keygen.NewShard(%d): %v", uint64(id), err)
		}
		shards[id] = sh
	}
	var ctxs map[sharing.ID]*rsess.Context
	if p := vh.Safely(func() { ctxs, err = keys.Contexts(cfg.Common) }); p != "" {
		return fail("session contexts panicked: %s", p)
	}
	if err != nil {
		return fail("session contexts: %v", err)
	}

	res.Additive, res.Zeta = map[sharing.ID]*big.Int{}, map[sharing.ID]*big.Int{}
	vh.Safely(func() {
		quorum, err := unanimity.NewUnanimityAccessStructure(keys.IDSet(e.IDs))
		if err != nil {
			return
		}
		for _, id := range e.IDs {
			kws, err := kw.NewInducedScheme(shards[id].MSP())
			if err != nil {
				return
			}
			fs, err := feldman.NewSchemeFromKW(curve, kws)
			if err != nil {
				return
			}
			if a, err := fs.ConvertShareToAdditive(shards[id].Share(), quorum); err == nil {
				res.Additive[id] = big_(a.Value())
			}
			if z, err := przs.SampleZeroShare(ctxs[id].Clone(), suite.ScalarField()); err == nil {
				res.Zeta[id] = big_(z.Value())
			}
		}
	})
	partials := map[sharing.ID]*rdkls.PartialSignature[P, B, S]{}
	if cfg.API == "runner" {
		runners := map[sharing.ID]network.Runner[*rdkls.PartialSignature[P, B, S]]{}
		e.Construct(func(id sharing.ID) error {
			var r network.Runner[*rdkls.PartialSignature[P, B, S]]
			var err error
			switch mult {
			case "bbot":
				r, err = signing_bbot.NewRunner(ctxs[id], suite, shards[id], cfg.Message, e.Tr.Tapes[id])
			case "softspoken":
				r, err = signing_softspoken.NewRunner(ctxs[id], suite, shards[id], cfg.Message, e.Tr.Tapes[id])
			default:
				err = fmt.Errorf("unknown multiplier %q", mult)
			}
			if err != nil {
				return err
			}
			runners[id] = r
			return nil
		})
		for id, ps := range keys.RunRunners(e, runners, 20*time.Minute) {
			partials[id] = ps
		}
		mult += "/runner"
	}
	switch mult {
	case "bbot/runner", "softspoken/runner":
		mult = strings.TrimSuffix(mult, "/runner")
	case "bbot":
		runBbot(e, cfg, suite, shards, ctxs, partials)
	case "softspoken":
		runSoft(e, cfg, suite, shards, ctxs, partials)
	default:
		return fail("unknown multiplier %q", mult)
	}

	// the parties' outputs, and their way to the aggregator
	last := 4
	if mult == "softspoken" {
		last = 5
	}
	var atAgg []*rdkls.PartialSignature[P, B, S]
	for _, id := range e.IDs {
		ps, ok := partials[id]
		if !ok || ps == nil {
			continue
		}
		if data, err := serde.MarshalCBOR(ps); err == nil {
			if dto, err := serde.UnmarshalCBOR[*psDTO[P, S]](data); err == nil {
				p := &Partial{R: dto.R.ToCompressed(), U: big_(dto.U), W: big_(dto.W)}
				res.Partials[id] = p
				e.Tr.Outputs[id] = fmt.Sprintf("R=%s;u=%s;w=%s", vh.Hex(p.R), vh.ZHex(p.U), vh.ZHex(p.W))
			}
		}
		got, dropped, err := drive.Pass(e.Tr, e.Hook, last, id, 0, 0, ps)
		if err != nil || dropped {
			continue
		}
		atAgg = append(atAgg, got)
	}
	pk, err := ecdsa.NewPublicKey(dealt.PK)
	if err != nil {
		return fail("public key: %v", err)
	}
	var sig *ecdsa.Signature[S]
	drive.Step(e.Tr, 0, last+1, func() error {
		var err error
		sig, err = rdkls.Aggregate(suite, pk, cfg.Message, atAgg...)
		return err
	})
	toSig := func(s *ecdsa.Signature[S]) *Sig {
		if s == nil {
			return nil
		}
		out := &Sig{R: big_(s.R()), S: big_(s.S()), V: -1}
		if v := s.V(); v != nil {
			out.V = *v
		}
		return out
	}
	res.Sig = toSig(sig)
	if res.Sig != nil {
		e.Tr.Outputs[0] = fmt.Sprintf("r=%s;s=%s;v=%d", vh.ZHex(res.Sig.R), vh.ZHex(res.Sig.S), res.Sig.V)
		rev := make([]*rdkls.PartialSignature[P, B, S], len(atAgg))
		for i := range atAgg {
			rev[len(atAgg)-1-i] = atAgg[i]
		}
		var sig2 *ecdsa.Signature[S]
		vh.Safely(func() { sig2, _ = rdkls.Aggregate(suite, pk, cfg.Message, rev...) })
		res.Sig2 = toSig(sig2)
		res.LibOK = libVerify(suite, sig, pk, cfg.Message, false)
		res.LibStrict = libVerify(suite, sig, pk, cfg.Message, true)
	}
	return res
}

func libVerify[P curves.Point[P, B, S], B algebra.PrimeFieldElement[B], S algebra.PrimeFieldElement[S]](suite *ecdsa.Suite[P, B, S], sig *ecdsa.Signature[S], pk *ecdsa.PublicKey[P, B, S], msg []byte, strict bool) string {
	out := "reject"
	p := vh.Safely(func() {
		vf, err := ecdsa.NewVerifier(suite)
		if err != nil {
			return
		}
		if strict {
			if err := ecdsa.VerifyNonMalleably(vf); err != nil {
				return
			}
		}
		if vf.Verify(sig, pk, msg) == nil {
			out = "ok"
		}
	})
	if p != "" {
		return "panic"
	}
	return out
}

func runBbot[P curves.Point[P, B, S], B algebra.PrimeFieldElement[B], S algebra.PrimeFieldElement[S]](
	e *keys.Engine, cfg Config, suite *ecdsa.Suite[P, B, S], shards map[sharing.ID]*rdkls.Shard[P, B, S],
	ctxs map[sharing.ID]*rsess.Context, partials map[sharing.ID]*rdkls.PartialSignature[P, B, S]) {
	type C = signing_bbot.Cosigner[P, B, S]
	cs := map[sharing.ID]*C{}
	e.Construct(func(id sharing.ID) error {
		c, err := signing_bbot.NewCosigner(ctxs[id], suite, shards[id], e.Tr.Tapes[id])
		if err != nil {
			return err
		}
		cs[id] = c
		return nil
	})
	b1 := map[sharing.ID]*signing_bbot.Round1Broadcast[P, B, S]{}
	u1 := map[sharing.ID]map[sharing.ID]*signing_bbot.Round1P2P[P, B, S]{}
	e.Each(1, func(id sharing.ID) error {
		b, u, err := cs[id].Round1()
		if err != nil {
			return err
		}
		b1[id], u1[id] = b, keys.Thaw(u)
		return nil
	})
	ib1, iu1 := keys.Deliver(e, 1, b1, u1)
	b2 := map[sharing.ID]*signing_bbot.Round2Broadcast[P, B, S]{}
	u2 := map[sharing.ID]map[sharing.ID]*signing_bbot.Round2P2P[P, B, S]{}
	e.Each(2, func(id sharing.ID) error {
		b, u, err := cs[id].Round2(keys.Freeze(ib1[id]), keys.Freeze(iu1[id]))
		if err != nil {
			return err
		}
		b2[id], u2[id] = b, keys.Thaw(u)
		return nil
	})
	ib2, iu2 := keys.Deliver(e, 2, b2, u2)
	b3 := map[sharing.ID]*signing_bbot.Round3Broadcast[P, B, S]{}
	u3 := map[sharing.ID]map[sharing.ID]*signing_bbot.Round3P2P[P, B, S]{}
	e.Each(3, func(id sharing.ID) error {
		b, u, err := cs[id].Round3(keys.Freeze(ib2[id]), keys.Freeze(iu2[id]))
		if err != nil {
			return err
		}
		b3[id], u3[id] = b, keys.Thaw(u)
		return nil
	})
	ib3, iu3 := keys.Deliver(e, 3, b3, u3)
	e.Each(4, func(id sharing.ID) error {
		ps, err := cs[id].Round4(keys.Freeze(ib3[id]), keys.Freeze(iu3[id]), cfg.Message)
		if err != nil {
			return err
		}
		partials[id] = ps
		return nil
	})
}

func runSoft[P curves.Point[P, B, S], B algebra.PrimeFieldElement[B], S algebra.PrimeFieldElement[S]](
	e *keys.Engine, cfg Config, suite *ecdsa.Suite[P, B, S], shards map[sharing.ID]*rdkls.Shard[P, B, S],
	ctxs map[sharing.ID]*rsess.Context, partials map[sharing.ID]*rdkls.PartialSignature[P, B, S]) {
	type C = signing_softspoken.Cosigner[P, B, S]
	cs := map[sharing.ID]*C{}
	e.Construct(func(id sharing.ID) error {
		c, err := signing_softspoken.NewCosigner(ctxs[id], suite, shards[id], e.Tr.Tapes[id])
		if err != nil {
			return err
		}
		cs[id] = c
		return nil
	})
	u1 := map[sharing.ID]map[sharing.ID]*signing_softspoken.Round1P2P[P, B, S]{}
	e.Each(1, func(id sharing.ID) error {
		u, err := cs[id].Round1()
		if err != nil {
			return err
		}
		u1[id] = keys.Thaw(u)
		return nil
	})
	_, iu1 := keys.Deliver[keys.None](e, 1, nil, u1)
	u2 := map[sharing.ID]map[sharing.ID]*signing_softspoken.Round2P2P[P, B, S]{}
	e.Each(2, func(id sharing.ID) error {
		u, err := cs[id].Round2(keys.Freeze(iu1[id]))
		if err != nil {
			return err
		}
		u2[id] = keys.Thaw(u)
		return nil
	})
	_, iu2 := keys.Deliver[keys.None](e, 2, nil, u2)
	b3 := map[sharing.ID]*signing_softspoken.Round3Broadcast[P, B, S]{}
	u3 := map[sharing.ID]map[sharing.ID]*signing_softspoken.Round3P2P[P, B, S]{}
	e.Each(3, func(id sharing.ID) error {
		b, u, err := cs[id].Round3(keys.Freeze(iu2[id]))
		if err != nil {
			return err
		}
		b3[id], u3[id] = b, keys.Thaw(u)
		return nil
	})
	ib3, iu3 := keys.Deliver(e, 3, b3, u3)
	b4 := map[sharing.ID]*signing_softspoken.Round4Broadcast[P, B, S]{}
	u4 := map[sharing.ID]map[sharing.ID]*signing_softspoken.Round4P2P[P, B, S]{}
	e.Each(4, func(id sharing.ID) error {
		b, u, err := cs[id].Round4(keys.Freeze(ib3[id]), keys.Freeze(iu3[id]))
		if err != nil {
			return err
		}
		b4[id], u4[id] = b, keys.Thaw(u)
		return nil
	})
	ib4, iu4 := keys.Deliver(e, 4, b4, u4)
	e.Each(5, func(id sharing.ID) error {
		ps, err := cs[id].Round5(keys.Freeze(ib4[id]), keys.Freeze(iu4[id]), cfg.Message)
		if err != nil {
			return err
		}
		partials[id] = ps
		return nil
	})
}
