package keys

// flow.go — the round engine shared by the signing drivers (dkls23, lindell22, boldyreva,
// lindell17, cggmp21): per-party recording tapes, "run this step for every live party",
// delivery of one round's broadcasts and unicasts through drive.Pass, and session contexts.

import (
	"fmt"
	"sort"

	ds "github.com/bronlabs/bron-crypto/pkg/base/datastructures"
	"github.com/bronlabs/bron-crypto/pkg/base/datastructures/hashmap"
	"github.com/bronlabs/bron-crypto/pkg/base/datastructures/hashset"
	rsess "github.com/bronlabs/bron-crypto/pkg/mpc/session"
	"github.com/bronlabs/bron-crypto/pkg/mpc/sharing"

	"verif/harness/internal/drive"
	dsess "verif/harness/internal/drive/session"
	"verif/harness/internal/vh"
)

// Common is the part of a driver Config every signing driver shares.
type Common struct {
	Seed   int64
	Prop   string                // property id the tapes are keyed by ("C01", "C04", "C07")
	Labels map[sharing.ID]string // tape label per party, default "a"; two runs may differ in exactly one label
	Hook   drive.Hook            // nil = honest delivery
	Quorum []sharing.ID          // the signing quorum: distinct, any order
	// Session selects how the session contexts of the quorum are made:
	//   "real"   (default) the real session-setup protocol through drive/session (its tapes are keyed by Prop+"-session")
	//   "seeded" session.NewContext from a common seed and symmetric pairwise seeds drawn from
	//            vh.NewRng(Seed, Prop, "ctx", 0) — what pkg/mpc/session/testutils.MakeRandomContexts does
	Session string
	// KeySource selects where the key shares come from (drivers that deal fresh keys):
	// "" / "dealer" trusted dealer, "gennaro" / "canetti" the real DKG (see Material).
	KeySource string
	// API selects how the protocol is executed: "" / "rounds" round by round through drive.Pass,
	// "runner" through the package's networked runner (NewRunner + network.Router over an
	// in-memory transport, see RunRunners); drivers without a runner ignore it.
	API     string
	Message []byte
}

// Engine is the state of one run.
type Engine struct {
	Tr   *drive.Trace
	Hook drive.Hook
	IDs  []sharing.ID // quorum ascending
	made map[sharing.ID]bool
}

// NewEngine creates the trace and one recording tape per party of the quorum.
func NewEngine(proto string, c Common) *Engine {
	tr := drive.NewTrace(proto)
	ids := append([]sharing.ID(nil), c.Quorum...)
	sort.Slice(ids, func(i, j int) bool { return ids[i] < ids[j] })
	for _, id := range ids {
		label := "a"
		if l, ok := c.Labels[id]; ok && l != "" {
			label = l
		}
		t := drive.NewTape(vh.NewRng(c.Seed, c.Prop, "tape/"+label, int(id)))
		t.Mark = "new"
		tr.Tapes[id] = t
	}
	return &Engine{Tr: tr, Hook: c.Hook, IDs: ids, made: map[sharing.ID]bool{}}
}

// Alive: the party was constructed and has no non-ok verdict.
func (e *Engine) Alive(id sharing.ID) bool {
	v, ok := e.Tr.Verdicts[id]
	return e.made[id] && (!ok || v.Class == "ok")
}

// MarkMade marks a party as constructed (for drivers that construct inside a runner).
func (e *Engine) MarkMade(id sharing.ID) { e.made[id] = true }

// Construct runs the constructor step of every party (round 0, tape mark "new").
func (e *Engine) Construct(f func(id sharing.ID) error) {
	for _, id := range e.IDs {
		e.Tr.Tapes[id].Mark = "new"
		v := drive.Step(e.Tr, id, 0, func() error { return f(id) })
		if v.Class == "ok" {
			e.made[id] = true
		}
	}
}

// Each runs step f of round `round` for every live party, ascending, with tape mark "r<round>".
func (e *Engine) Each(round int, f func(id sharing.ID) error) {
	for _, id := range e.IDs {
		if !e.Alive(id) {
			continue
		}
		e.Tr.Tapes[id].Mark = fmt.Sprintf("r%d", round)
		drive.Step(e.Tr, id, round, func() error { return f(id) })
	}
}

// One runs step f for one party.
func (e *Engine) One(round int, id sharing.ID, f func() error) drive.Verdict {
	if !e.Alive(id) {
		return e.Tr.Verdicts[id]
	}
	e.Tr.Tapes[id].Mark = fmt.Sprintf("r%d", round)
	return drive.Step(e.Tr, id, round, f)
}

// AllOK reports whether every party of the quorum is alive.
func (e *Engine) AllOK() bool {
	for _, id := range e.IDs {
		if !e.Alive(id) {
			return false
		}
	}
	return true
}

// Freeze turns a native map into the library's immutable map.
func Freeze[M any](m map[sharing.ID]M) ds.Map[sharing.ID, M] {
	h := hashmap.NewComparable[sharing.ID, M]()
	for k, v := range m {
		h.Put(k, v)
	}
	return h.Freeze()
}

// Thaw copies a library map into a native map.
func Thaw[M any](m ds.Map[sharing.ID, M]) map[sharing.ID]M {
	out := map[sharing.ID]M{}
	if m == nil {
		return out
	}
	for k, v := range m.Iter() {
		out[k] = v
	}
	return out
}

// Deliver passes the broadcasts (outB, may be nil) and unicasts (outU[from][to], may be nil)
// produced by round `round` to every live recipient: senders ascending, recipients ascending,
// a sender's broadcast before its unicast to the same recipient. An undecodable message
// makes the recipient reject in round+1; a dropped message is absent from the inbox.
func Deliver[B any, U any](e *Engine, round int, outB map[sharing.ID]B, outU map[sharing.ID]map[sharing.ID]U) (inB map[sharing.ID]map[sharing.ID]B, inU map[sharing.ID]map[sharing.ID]U) {
	inB = map[sharing.ID]map[sharing.ID]B{}
	inU = map[sharing.ID]map[sharing.ID]U{}
	was := map[sharing.ID]bool{}
	for _, id := range e.IDs {
		inB[id] = map[sharing.ID]B{}
		inU[id] = map[sharing.ID]U{}
		was[id] = e.Alive(id)
	}
	for _, from := range e.IDs {
		if !was[from] {
			continue
		}
		for _, to := range e.IDs {
			if to == from || !was[to] {
				continue
			}
			if outB != nil {
				if m, ok := outB[from]; ok {
					got, dropped, err := drive.Pass(e.Tr, e.Hook, round, from, 0, to, m)
					switch {
					case err != nil:
						drive.Step(e.Tr, to, round+1, func() error { return err })
					case !dropped:
						inB[to][from] = got
					}
				}
			}
			if outU != nil {
				if m, ok := outU[from][to]; ok {
					got, dropped, err := drive.Pass(e.Tr, e.Hook, round, from, to, to, m)
					switch {
					case err != nil:
						drive.Step(e.Tr, to, round+1, func() error { return err })
					case !dropped:
						inU[to][from] = got
					}
				}
			}
		}
	}
	return inB, inU
}

// NoB / NoU are the type arguments to use for an absent broadcast / unicast in Deliver.
type None = struct{}

// Contexts makes the session contexts of the quorum (see Common.Session). The returned
// contexts are fresh (clones where they come from the session driver).
func Contexts(c Common) (map[sharing.ID]*rsess.Context, error) {
	ids := append([]sharing.ID(nil), c.Quorum...)
	sort.Slice(ids, func(i, j int) bool { return ids[i] < ids[j] })
	if len(ids) < 2 {
		return nil, fmt.Errorf("quorum of %d", len(ids))
	}
	switch c.Session {
	case "", "real":
		tr := dsess.Run(dsess.Config{Seed: c.Seed, Prop: c.Prop + "-session", Quorum: ids, Labels: c.Labels})
		defer dsess.Forget(tr)
		src := dsess.Contexts(tr)
		out := map[sharing.ID]*rsess.Context{}
		for _, id := range ids {
			ctx, ok := src[id]
			if !ok || ctx == nil {
				return nil, fmt.Errorf("session setup did not complete for %d: %s", uint64(id), tr.Verdicts[id].Detail)
			}
			out[id] = ctx.Clone()
		}
		return out, nil
	case "seeded":
		rng := vh.NewRng(c.Seed, c.Prop, "ctx", 0)
		quorum := hashset.NewComparable(ids...).Freeze()
		common := rng.Bytes(64)
		pair := map[sharing.ID]map[sharing.ID][]byte{}
		for _, id := range ids {
			pair[id] = map[sharing.ID][]byte{}
		}
		for i := range ids {
			for j := i + 1; j < len(ids); j++ {
				s := rng.Bytes(64)
				pair[ids[i]][ids[j]] = s
				pair[ids[j]][ids[i]] = s
			}
		}
		out := map[sharing.ID]*rsess.Context{}
		for _, id := range ids {
			ctx, err := rsess.NewContext(id, quorum, common, pair[id])
			if err != nil {
				return nil, fmt.Errorf("session.NewContext(%d): %w", uint64(id), err)
			}
			out[id] = ctx
		}
		return out, nil
	}
	return nil, fmt.Errorf("unknown session mode %q", c.Session)
}
