package keys

// cggmp21.go — CGGMP21 key material (MSP shares, Paillier-Blum keys and ring-Pedersen
// parameters of base.IFCKeyLength bits) generated once with the library's own trusted dealer
// (cggmp21/keygen/trusteddealer.Deal) and stored as CBOR under <root>/corpus/c01/.

import (
	"crypto/sha256"
	"encoding/hex"
	"fmt"
	"io"
	"os"
	"path/filepath"
	"sort"
	"sync"

	"github.com/bronlabs/bron-crypto/pkg/base"
	"github.com/bronlabs/bron-crypto/pkg/base/algebra"
	"github.com/bronlabs/bron-crypto/pkg/base/curves"
	"github.com/bronlabs/bron-crypto/pkg/base/serde"
	"github.com/bronlabs/bron-crypto/pkg/mpc/sharing"
	"github.com/bronlabs/bron-crypto/pkg/mpc/sharing/scheme/kw"
	"github.com/bronlabs/bron-crypto/pkg/mpc/sharing/vss/feldman"
	"github.com/bronlabs/bron-crypto/pkg/mpc/signatures/ecdsa/cggmp21"
	"github.com/bronlabs/bron-crypto/pkg/mpc/signatures/ecdsa/cggmp21/keygen/trusteddealer"
	"github.com/bronlabs/bron-crypto/pkg/signatures/ecdsa"
)

// CggmpPath is the corpus file of (curve, policy).
func CggmpPath(curve, policy string) string {
	h := sha256.Sum256([]byte(policy))
	return filepath.Join(Root(), "corpus", "c01", fmt.Sprintf("cggmp21-%s-%s.cbor", curve, hex.EncodeToString(h[:6])))
}

// CggmpMaterial is a stored dealing.
type CggmpMaterial[P curves.Point[P, B, S], B algebra.PrimeFieldElement[B], S algebra.PrimeFieldElement[S]] struct {
	Policy  Policy
	Holders []sharing.ID
	Shards  map[sharing.ID]*cggmp21.Shard[P, B, S]
	Secret  []byte
}

// LoadCggmp reads the stored material of (curve name, policy text).
func LoadCggmp[P curves.Point[P, B, S], B algebra.PrimeFieldElement[B], S algebra.PrimeFieldElement[S]](curveName, policy string) (*CggmpMaterial[P, B, S], error) {
	data, err := os.ReadFile(CggmpPath(curveName, policy))
	if err != nil {
		return nil, err
	}
	f, err := serde.UnmarshalCBOR[*l17File](data)
	if err != nil {
		return nil, fmt.Errorf("corpus file: %w", err)
	}
	if f.Policy != policy || f.Curve != curveName {
		return nil, fmt.Errorf("corpus file is for %s/%s", f.Curve, f.Policy)
	}
	pol, err := ParsePolicy(policy)
	if err != nil {
		return nil, err
	}
	m := &CggmpMaterial[P, B, S]{Policy: pol, Shards: map[sharing.ID]*cggmp21.Shard[P, B, S]{}, Secret: f.Secret}
	for id, b := range f.Shards {
		sh, err := serde.UnmarshalCBOR[*cggmp21.Shard[P, B, S]](b)
		if err != nil {
			return nil, fmt.Errorf("shard %d: %w", id, err)
		}
		m.Shards[sharing.ID(id)] = sh
		m.Holders = append(m.Holders, sharing.ID(id))
	}
	sort.Slice(m.Holders, func(i, j int) bool { return m.Holders[i] < m.Holders[j] })
	return m, nil
}

type lockedReader struct {
	mu sync.Mutex
	r  io.Reader
}

func (l *lockedReader) Read(p []byte) (int, error) {
	l.mu.Lock()
	defer l.mu.Unlock()
	return l.r.Read(p)
}

// GenerateCggmp deals with the library's trusted dealer (key length base.IFCKeyLength) and
// stores the result. Slow (minutes).
func GenerateCggmp[P curves.Point[P, B, S], B algebra.PrimeFieldElement[B], S algebra.PrimeFieldElement[S]](curve ecdsa.Curve[P, B, S], curveName, policy string, prng io.Reader) error {
	pol, err := ParsePolicy(policy)
	if err != nil {
		return err
	}
	ac, err := pol.Build()
	if err != nil {
		return err
	}
	shards, err := trusteddealer.Deal(curve, ac, base.IFCKeyLength, &lockedReader{r: prng})
	if err != nil {
		return fmt.Errorf("trusted dealer: %w", err)
	}
	f := &l17File{Policy: policy, Curve: curveName, Shards: map[uint64][]byte{}}
	var shares []*kw.Share[S]
	var any *cggmp21.Shard[P, B, S]
	for id, sh := range shards {
		b, err := serde.MarshalCBOR(sh)
		if err != nil {
			return fmt.Errorf("marshal shard %d: %w", id, err)
		}
		f.Shards[uint64(id)] = b
		shares = append(shares, sh.Share())
		any = sh
	}
	scheme, err := feldman.NewScheme(curve, ac)
	if err != nil {
		return err
	}
	sec, err := scheme.Reconstruct(shares...)
	if err != nil {
		return fmt.Errorf("reconstruct: %w", err)
	}
	if !curve.ScalarBaseMul(sec.Value()).Equal(any.PublicKeyValue()) {
		return fmt.Errorf("reconstructed key does not match the public key")
	}
	f.Secret = sec.Value().Cardinal().Big().Bytes()
	data, err := serde.MarshalCBOR(f)
	if err != nil {
		return err
	}
	if err := os.MkdirAll(filepath.Dir(CggmpPath(curveName, policy)), 0o755); err != nil {
		return err
	}
	return os.WriteFile(CggmpPath(curveName, policy), data, 0o644)
}
