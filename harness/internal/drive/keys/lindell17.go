package keys

// lindell17.go — Lindell17 key material (MSP shares + Paillier keys of the production key
// length, base.IFCKeyLength = 3072 bits) is expensive to generate, so it is generated once
// with the library's own trusted dealer (lindell17/keygen/trusted_dealer.DealRandom) and
// stored as CBOR under <root>/corpus/c01/.  LoadL17 reads a stored file; GenerateL17 makes
// and stores one (never called in the quick tier).

import (
	"crypto/sha256"
	"encoding/hex"
	"fmt"
	"io"
	"os"
	"path/filepath"
	"sort"

	"github.com/bronlabs/bron-crypto/pkg/base"
	"github.com/bronlabs/bron-crypto/pkg/base/algebra"
	"github.com/bronlabs/bron-crypto/pkg/base/curves"
	"github.com/bronlabs/bron-crypto/pkg/base/serde"
	"github.com/bronlabs/bron-crypto/pkg/mpc/sharing"
	"github.com/bronlabs/bron-crypto/pkg/mpc/sharing/scheme/kw"
	"github.com/bronlabs/bron-crypto/pkg/mpc/sharing/vss/feldman"
	"github.com/bronlabs/bron-crypto/pkg/mpc/signatures/ecdsa/lindell17"
	trusted_dealer "github.com/bronlabs/bron-crypto/pkg/mpc/signatures/ecdsa/lindell17/keygen/trusted_dealer"
	"github.com/bronlabs/bron-crypto/pkg/signatures/ecdsa"
)

// Root is the verif root directory (VERIF_ROOT, default /verif).
func Root() string {
	if r := os.Getenv("VERIF_ROOT"); r != "" {
		return r
	}
	return "/verif"
}

type l17File struct {
	Policy string            `cbor:"policy"`
	Curve  string            `cbor:"curve"`
	Secret []byte            `cbor:"secret"` // the dealt key, big-endian
	Shards map[uint64][]byte `cbor:"shards"` // CBOR of each lindell17.Shard
}

// L17Path is the corpus file of (curve, policy).
func L17Path(curve, policy string) string {
	h := sha256.Sum256([]byte(policy))
	return filepath.Join(Root(), "corpus", "c01", fmt.Sprintf("lindell17-%s-%s.cbor", curve, hex.EncodeToString(h[:6])))
}

// L17Material is a stored dealing.
type L17Material[P curves.Point[P, B, S], B algebra.PrimeFieldElement[B], S algebra.PrimeFieldElement[S]] struct {
	Policy  Policy
	Holders []sharing.ID
	Shards  map[sharing.ID]*lindell17.Shard[P, B, S]
	Secret  []byte
}

// LoadL17 reads the stored material of (curve name, policy text).
func LoadL17[P curves.Point[P, B, S], B algebra.PrimeFieldElement[B], S algebra.PrimeFieldElement[S]](curveName, policy string) (*L17Material[P, B, S], error) {
	data, err := os.ReadFile(L17Path(curveName, policy))
	if err != nil {
		return nil, err
	}
	f, err := serde.UnmarshalCBOR[*l17File](data)
	if err != nil {
		return nil, fmt.Errorf("corpus file: %w", err)
	}
	if f.Policy != policy || f.Curve != curveName {
		return nil, fmt.Errorf("corpus file is for %s/%s", f.Curve, f.Policy)
	}
	pol, err := ParsePolicy(policy)
	if err != nil {
		return nil, err
	}
	m := &L17Material[P, B, S]{Policy: pol, Shards: map[sharing.ID]*lindell17.Shard[P, B, S]{}, Secret: f.Secret}
	for id, b := range f.Shards {
		sh, err := serde.UnmarshalCBOR[*lindell17.Shard[P, B, S]](b)
		if err != nil {
			return nil, fmt.Errorf("shard %d: %w", id, err)
		}
		m.Shards[sharing.ID(id)] = sh
		m.Holders = append(m.Holders, sharing.ID(id))
	}
	sort.Slice(m.Holders, func(i, j int) bool { return m.Holders[i] < m.Holders[j] })
	return m, nil
}

// GenerateL17 deals with the library's trusted dealer (Paillier key length base.IFCKeyLength)
// and stores the result. Slow (minutes).
func GenerateL17[P curves.Point[P, B, S], B algebra.PrimeFieldElement[B], S algebra.PrimeFieldElement[S]](curve ecdsa.Curve[P, B, S], curveName, policy string, prng io.Reader) error {
	pol, err := ParsePolicy(policy)
	if err != nil {
		return err
	}
	ac, err := pol.Build()
	if err != nil {
		return err
	}
	shards, _, err := trusted_dealer.DealRandom(curve, ac, base.IFCKeyLength, prng)
	if err != nil {
		return fmt.Errorf("trusted dealer: %w", err)
	}
	f := &l17File{Policy: policy, Curve: curveName, Shards: map[uint64][]byte{}}
	var shares []*kw.Share[S]
	var any *lindell17.Shard[P, B, S]
	for id, sh := range shards.Iter() {
		b, err := serde.MarshalCBOR(sh)
		if err != nil {
			return fmt.Errorf("marshal shard %d: %w", id, err)
		}
		f.Shards[uint64(id)] = b
		shares = append(shares, sh.Share())
		any = sh
	}
	// the dealt key, reconstructed from all shares (the dealer does not hand it out)
	scheme, err := feldman.NewScheme(curve, ac)
	if err != nil {
		return err
	}
	sec, err := scheme.Reconstruct(shares...)
	if err != nil {
		return fmt.Errorf("reconstruct: %w", err)
	}
	if !curve.ScalarBaseMul(sec.Value()).Equal(any.PublicKeyValue()) {
		return fmt.Errorf("reconstructed key does not match the public key")
	}
	f.Secret = sec.Value().Cardinal().Big().Bytes()
	data, err := serde.MarshalCBOR(f)
	if err != nil {
		return err
	}
	if err := os.MkdirAll(filepath.Dir(L17Path(curveName, policy)), 0o755); err != nil {
		return err
	}
	return os.WriteFile(L17Path(curveName, policy), data, 0o644)
}
