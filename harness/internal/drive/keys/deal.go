package keys

import (
	"fmt"
	"io"
	"sort"

	"github.com/bronlabs/bron-crypto/pkg/base/algebra"
	"github.com/bronlabs/bron-crypto/pkg/mpc"
	"github.com/bronlabs/bron-crypto/pkg/mpc/sharing"
	"github.com/bronlabs/bron-crypto/pkg/mpc/sharing/accessstructures"
	"github.com/bronlabs/bron-crypto/pkg/mpc/sharing/vss/feldman"
	"github.com/bronlabs/bron-crypto/pkg/proofs/sigma/compiler/fiatshamir"

	"verif/harness/internal/drive"
	dcan "verif/harness/internal/drive/canetti"
	dgen "verif/harness/internal/drive/gennaro"
	"verif/harness/internal/vh"
)

// Dealt is what the trusted dealer hands out for one group: one base shard per holder,
// plus — because the dealer is trusted and this is a check — the dealt secret x and the
// public key x·G.  Deal is pkg/mpc/dkg/trusteddealer.Deal with the secret kept
// (feldman.NewScheme → DealRandom → mpc.NewBaseShard per holder).
type Dealt[G algebra.PrimeGroupElement[G, S], S algebra.PrimeFieldElement[S]] struct {
	Policy  Policy
	AC      accessstructures.Monotone
	Holders []sharing.ID // ascending
	Shards  map[sharing.ID]*mpc.BaseShard[G, S]
	Secret  S
	PK      G
}

// Deal runs the trusted dealer for policy p over group, reading randomness from prng.
func Deal[G algebra.PrimeGroupElement[G, S], S algebra.PrimeFieldElement[S]](group algebra.PrimeGroup[G, S], p Policy, prng io.Reader) (*Dealt[G, S], error) {
	ac, err := p.Build()
	if err != nil {
		return nil, fmt.Errorf("policy refused: %w", err)
	}
	scheme, err := feldman.NewScheme(group, ac)
	if err != nil {
		return nil, fmt.Errorf("feldman scheme: %w", err)
	}
	out, secret, err := scheme.DealRandom(prng)
	if err != nil {
		return nil, fmt.Errorf("deal: %w", err)
	}
	d := &Dealt[G, S]{Policy: p, AC: ac, Shards: map[sharing.ID]*mpc.BaseShard[G, S]{}, Secret: secret.Value()}
	for id, share := range out.Shares().Iter() {
		shard, err := mpc.NewBaseShard(share, out.VerificationMaterial(), scheme.MSP())
		if err != nil {
			return nil, fmt.Errorf("base shard %d: %w", id, err)
		}
		d.Shards[id] = shard
		d.Holders = append(d.Holders, id)
		d.PK = shard.PublicKeyValue()
	}
	sort.Slice(d.Holders, func(i, j int) bool { return d.Holders[i] < d.Holders[j] })
	if !group.ScalarBaseOp(d.Secret).Equal(d.PK) {
		return nil, fmt.Errorf("dealer: public key is not secret·G")
	}
	return d, nil
}

// Material produces key material for policy p over group from the source named by
// c.KeySource: "" / "dealer" — the trusted dealer above on the stream
// vh.NewRng(c.Seed, c.Prop, "deal", 0); "gennaro" / "canetti" — the real Gennaro resp. Canetti DKG
// among all holders of the policy, driven by drive/gennaro resp. drive/canetti (tapes keyed by
// c.Prop+"-dkg", seeded session contexts, Fiat–Shamir compiler for Gennaro); the joint secret is then reconstructed from all shares
// (it exists nowhere in a DKG) so that the check can tie signatures to the exponent model.
func Material[G algebra.PrimeGroupElement[G, S], S algebra.PrimeFieldElement[S]](c Common, group algebra.PrimeGroup[G, S], p Policy) (*Dealt[G, S], error) {
	switch c.KeySource {
	case "", "dealer":
		return Deal[G, S](group, p, vh.NewRng(c.Seed, c.Prop, "deal", 0))
	case "gennaro", "canetti":
		ac, err := p.Build()
		if err != nil {
			return nil, fmt.Errorf("policy refused: %w", err)
		}
		holders := p.Holders()
		ctxs, err := Contexts(Common{Seed: c.Seed, Prop: c.Prop + "-dkg", Quorum: holders, Session: "seeded"})
		if err != nil {
			return nil, fmt.Errorf("dkg contexts: %w", err)
		}
		var dkgShards map[sharing.ID]*mpc.BaseShard[G, S]
		var dkgTrace *drive.Trace
		if c.KeySource == "gennaro" {
			res := dgen.RunFull(dgen.Config[G, S]{Seed: c.Seed, Prop: c.Prop + "-dkg", Group: group, AC: ac, Compiler: fiatshamir.Name, Ctxs: ctxs})
			dkgShards, dkgTrace = res.Shards, res.Trace
		} else {
			res := dcan.RunFull(dcan.Config[G, S]{Seed: c.Seed, Prop: c.Prop + "-dkg", Group: group, AC: ac, Ctxs: ctxs})
			dkgShards, dkgTrace = res.Shards, res.Trace
		}
		d := &Dealt[G, S]{Policy: p, AC: ac, Shards: map[sharing.ID]*mpc.BaseShard[G, S]{}, Holders: holders}
		scheme, err := feldman.NewScheme(group, ac)
		if err != nil {
			return nil, err
		}
		var shares []*feldman.Share[S]
		for _, id := range holders {
			sh, ok := dkgShards[id]
			if !ok || sh == nil {
				return nil, fmt.Errorf("%s DKG did not complete for %d: %s", c.KeySource, uint64(id), dkgTrace.Verdicts[id].Detail)
			}
			d.Shards[id] = sh
			d.PK = sh.PublicKeyValue()
			shares = append(shares, sh.Share())
		}
		sec, err := scheme.Reconstruct(shares...)
		if err != nil {
			return nil, fmt.Errorf("reconstructing the DKG key: %w", err)
		}
		d.Secret = sec.Value()
		if !group.ScalarBaseOp(d.Secret).Equal(d.PK) {
			return nil, fmt.Errorf("dkg: public key is not secret·G")
		}
		return d, nil
	}
	return nil, fmt.Errorf("unknown key source %q", c.KeySource)
}
