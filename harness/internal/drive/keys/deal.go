package keys

import (
	"fmt"
	"io"
	"sort"

	"github.com/bronlabs/bron-crypto/pkg/base/algebra"
	"github.com/bronlabs/bron-crypto/pkg/mpc"
	"github.com/bronlabs/bron-crypto/pkg/mpc/sharing"
	"github.com/bronlabs/bron-crypto/pkg/mpc/sharing/accessstructures"
	"github.com/bronlabs/bron-crypto/pkg/mpc/sharing/vss/feldman"
)

// Dealt is what the trusted dealer hands out for one group: one base shard per holder,
// plus — because the dealer is trusted and this is a check — the dealt secret x and the
// public key x·G.  Deal is pkg/mpc/dkg/trusteddealer.Deal with the secret kept
// (feldman.NewScheme → DealRandom → mpc.NewBaseShard per holder).
type Dealt[G algebra.PrimeGroupElement[G, S], S algebra.PrimeFieldElement[S]] struct {
	Policy  Policy
	AC      accessstructures.Monotone
	Holders []sharing.ID // ascending
	Shards  map[sharing.ID]*mpc.BaseShard[G, S]
	Secret  S
	PK      G
}

// Deal runs the trusted dealer for policy p over group, reading randomness from prng.
func Deal[G algebra.PrimeGroupElement[G, S], S algebra.PrimeFieldElement[S]](group algebra.PrimeGroup[G, S], p Policy, prng io.Reader) (*Dealt[G, S], error) {
	ac, err := p.Build()
	if err != nil {
		return nil, fmt.Errorf("policy refused: %w", err)
	}
	scheme, err := feldman.NewScheme(group, ac)
	if err != nil {
		return nil, fmt.Errorf("feldman scheme: %w", err)
	}
	out, secret, err := scheme.DealRandom(prng)
	if err != nil {
		return nil, fmt.Errorf("deal: %w", err)
	}
	d := &Dealt[G, S]{Policy: p, AC: ac, Shards: map[sharing.ID]*mpc.BaseShard[G, S]{}, Secret: secret.Value()}
	for id, share := range out.Shares().Iter() {
		shard, err := mpc.NewBaseShard(share, out.VerificationMaterial(), scheme.MSP())
		if err != nil {
			return nil, fmt.Errorf("base shard %d: %w", id, err)
		}
		d.Shards[id] = shard
		d.Holders = append(d.Holders, id)
		d.PK = shard.PublicKeyValue()
	}
	sort.Slice(d.Holders, func(i, j int) bool { return d.Holders[i] < d.Holders[j] })
	if !group.ScalarBaseOp(d.Secret).Equal(d.PK) {
		return nil, fmt.Errorf("dealer: public key is not secret·G")
	}
	return d, nil
}
