// Package keys builds the key material the signing drivers need: access structures from a
// small canonical policy text, trusted-dealer shards per signature scheme (the dealer's
// secret is kept so that a check can tie the signature to the exponent model), and
// pre-generated Lindell17 shards (Paillier keys) stored under /verif/corpus/c01.
//
// Policy text (the same notation as the C02 harness):
//
//	T:<t>:<id>,<id>,...                 threshold t of the listed holders
//	U:<id>,<id>,...                     unanimity
//	N:<id>,..|<id>,..|...               CNF given by its maximal unqualified sets
//	H:<t>:<ids>|<t>:<ids>|...           hierarchical conjunctive threshold (cumulative thresholds)
//	G:g<t>[<node>,<node>,...]           threshold-gate tree; a node is an id or a gate
//
// IDs are decimal uint64. No `testing` import; deterministic.
package keys

import (
	"fmt"
	"sort"
	"strconv"
	"strings"

	ds "github.com/bronlabs/bron-crypto/pkg/base/datastructures"
	"github.com/bronlabs/bron-crypto/pkg/base/datastructures/hashset"
	"github.com/bronlabs/bron-crypto/pkg/mpc/sharing"
	"github.com/bronlabs/bron-crypto/pkg/mpc/sharing/accessstructures"
	"github.com/bronlabs/bron-crypto/pkg/mpc/sharing/accessstructures/boolexpr"
	"github.com/bronlabs/bron-crypto/pkg/mpc/sharing/accessstructures/cnf"
	"github.com/bronlabs/bron-crypto/pkg/mpc/sharing/accessstructures/hierarchical"
	"github.com/bronlabs/bron-crypto/pkg/mpc/sharing/accessstructures/threshold"
	"github.com/bronlabs/bron-crypto/pkg/mpc/sharing/accessstructures/unanimity"
)

// Tree is a threshold-gate tree.
type Tree struct {
	Leaf bool
	ID   uint64
	T    int
	Cs   []*Tree
}

// Level is one level of a hierarchical policy.
type Level struct {
	T   int
	IDs []uint64
}

// Policy is an access structure as data.
type Policy struct {
	Fam    byte // 'T' 'U' 'N' 'H' 'G'
	T      int
	IDs    []uint64
	Sets   [][]uint64
	Levels []Level
	Root   *Tree
}

func idsText(ids []uint64) string {
	p := make([]string, len(ids))
	for i, x := range ids {
		p[i] = strconv.FormatUint(x, 10)
	}
	return strings.Join(p, ",")
}

// IDsText renders sharing IDs as "a,b,c".
func IDsText(ids []sharing.ID) string {
	p := make([]string, len(ids))
	for i, x := range ids {
		p[i] = strconv.FormatUint(uint64(x), 10)
	}
	return strings.Join(p, ",")
}

// ParseIDs parses "a,b,c".
func ParseIDs(s string) ([]sharing.ID, error) {
	if s == "" || s == "-" {
		return nil, nil
	}
	var out []sharing.ID
	for _, f := range strings.Split(s, ",") {
		x, err := strconv.ParseUint(f, 10, 64)
		if err != nil {
			return nil, fmt.Errorf("bad id %q", f)
		}
		out = append(out, sharing.ID(x))
	}
	return out, nil
}

func parseU(s string) ([]uint64, error) {
	ids, err := ParseIDs(s)
	if err != nil {
		return nil, err
	}
	out := make([]uint64, len(ids))
	for i, x := range ids {
		out[i] = uint64(x)
	}
	return out, nil
}

func (t *Tree) text() string {
	if t.Leaf {
		return strconv.FormatUint(t.ID, 10)
	}
	p := make([]string, len(t.Cs))
	for i, c := range t.Cs {
		p[i] = c.text()
	}
	return fmt.Sprintf("g%d[%s]", t.T, strings.Join(p, ","))
}

// Text is the canonical policy text.
func (p Policy) Text() string {
	switch p.Fam {
	case 'T':
		return fmt.Sprintf("T:%d:%s", p.T, idsText(p.IDs))
	case 'U':
		return "U:" + idsText(p.IDs)
	case 'N':
		parts := make([]string, len(p.Sets))
		for i, s := range p.Sets {
			parts[i] = idsText(s)
		}
		return "N:" + strings.Join(parts, "|")
	case 'H':
		parts := make([]string, len(p.Levels))
		for i, l := range p.Levels {
			parts[i] = fmt.Sprintf("%d:%s", l.T, idsText(l.IDs))
		}
		return "H:" + strings.Join(parts, "|")
	default:
		return "G:" + p.Root.text()
	}
}

func parseTree(s string) (*Tree, error) {
	pos := 0
	number := func() string {
		st := pos
		for pos < len(s) && s[pos] >= '0' && s[pos] <= '9' {
			pos++
		}
		return s[st:pos]
	}
	var node func() (*Tree, error)
	node = func() (*Tree, error) {
		if pos < len(s) && s[pos] == 'g' {
			pos++
			t, err := strconv.Atoi(number())
			if err != nil || pos >= len(s) || s[pos] != '[' {
				return nil, fmt.Errorf("bad gate at %d", pos)
			}
			pos++
			n := &Tree{T: t}
			for {
				if pos >= len(s) {
					return nil, fmt.Errorf("unterminated gate")
				}
				c, err := node()
				if err != nil {
					return nil, err
				}
				n.Cs = append(n.Cs, c)
				if pos < len(s) && s[pos] == ',' {
					pos++
					continue
				}
				if pos < len(s) && s[pos] == ']' {
					pos++
					return n, nil
				}
				return nil, fmt.Errorf("bad tree at %d", pos)
			}
		}
		x, err := strconv.ParseUint(number(), 10, 64)
		if err != nil {
			return nil, fmt.Errorf("bad leaf at %d", pos)
		}
		return &Tree{Leaf: true, ID: x}, nil
	}
	t, err := node()
	if err != nil {
		return nil, err
	}
	if pos != len(s) {
		return nil, fmt.Errorf("trailing text in tree")
	}
	return t, nil
}

// ParsePolicy parses the canonical text.
func ParsePolicy(s string) (Policy, error) {
	if len(s) < 3 || s[1] != ':' {
		return Policy{}, fmt.Errorf("bad policy %q", s)
	}
	rest := s[2:]
	switch s[0] {
	case 'T':
		f := strings.SplitN(rest, ":", 2)
		if len(f) != 2 {
			return Policy{}, fmt.Errorf("bad threshold policy")
		}
		t, err := strconv.Atoi(f[0])
		if err != nil {
			return Policy{}, err
		}
		ids, err := parseU(f[1])
		return Policy{Fam: 'T', T: t, IDs: ids}, err
	case 'U':
		ids, err := parseU(rest)
		return Policy{Fam: 'U', IDs: ids}, err
	case 'N':
		p := Policy{Fam: 'N'}
		for _, x := range strings.Split(rest, "|") {
			ids, err := parseU(x)
			if err != nil {
				return p, err
			}
			p.Sets = append(p.Sets, ids)
		}
		return p, nil
	case 'H':
		p := Policy{Fam: 'H'}
		for _, x := range strings.Split(rest, "|") {
			f := strings.SplitN(x, ":", 2)
			if len(f) != 2 {
				return p, fmt.Errorf("bad level")
			}
			t, err := strconv.Atoi(f[0])
			if err != nil {
				return p, err
			}
			ids, err := parseU(f[1])
			if err != nil {
				return p, err
			}
			p.Levels = append(p.Levels, Level{t, ids})
		}
		return p, nil
	case 'G':
		t, err := parseTree(rest)
		return Policy{Fam: 'G', Root: t}, err
	}
	return Policy{}, fmt.Errorf("unknown family %q", s[:1])
}

func (t *Tree) leaves(out *[]uint64) {
	if t.Leaf {
		*out = append(*out, t.ID)
		return
	}
	for _, c := range t.Cs {
		c.leaves(out)
	}
}

// Holders returns every ID the policy mentions, ascending and distinct.
func (p Policy) Holders() []sharing.ID {
	var all []uint64
	switch p.Fam {
	case 'T', 'U':
		all = append(all, p.IDs...)
	case 'N':
		for _, s := range p.Sets {
			all = append(all, s...)
		}
	case 'H':
		for _, l := range p.Levels {
			all = append(all, l.IDs...)
		}
	default:
		p.Root.leaves(&all)
	}
	m := map[uint64]bool{}
	var out []sharing.ID
	for _, x := range all {
		if !m[x] {
			m[x] = true
			out = append(out, sharing.ID(x))
		}
	}
	sort.Slice(out, func(i, j int) bool { return out[i] < out[j] })
	return out
}

func (t *Tree) mapIDs(f func(uint64) uint64) *Tree {
	if t.Leaf {
		return &Tree{Leaf: true, ID: f(t.ID)}
	}
	n := &Tree{T: t.T}
	for _, c := range t.Cs {
		n.Cs = append(n.Cs, c.mapIDs(f))
	}
	return n
}

func mapSlice(ids []uint64, f func(uint64) uint64) []uint64 {
	out := make([]uint64, len(ids))
	for i, x := range ids {
		out[i] = f(x)
	}
	return out
}

// MapIDs renames the holders.
func (p Policy) MapIDs(f func(uint64) uint64) Policy {
	q := Policy{Fam: p.Fam, T: p.T}
	q.IDs = mapSlice(p.IDs, f)
	for _, s := range p.Sets {
		q.Sets = append(q.Sets, mapSlice(s, f))
	}
	for _, l := range p.Levels {
		q.Levels = append(q.Levels, Level{l.T, mapSlice(l.IDs, f)})
	}
	if p.Root != nil {
		q.Root = p.Root.mapIDs(f)
	}
	return q
}

// IDSet builds a frozen set.
func IDSet(ids []sharing.ID) ds.Set[sharing.ID] {
	return hashset.NewComparable(ids...).Freeze()
}

func uset(ids []uint64) ds.Set[sharing.ID] {
	x := make([]sharing.ID, len(ids))
	for i, v := range ids {
		x[i] = sharing.ID(v)
	}
	return hashset.NewComparable(x...).Freeze()
}

func (t *Tree) node() *boolexpr.Node {
	if t.Leaf {
		return boolexpr.ID(sharing.ID(t.ID))
	}
	cs := make([]*boolexpr.Node, len(t.Cs))
	for i, c := range t.Cs {
		cs[i] = c.node()
	}
	return boolexpr.Threshold(t.T, cs...)
}

// Build calls the family's constructor of the library.
func (p Policy) Build() (accessstructures.Monotone, error) {
	switch p.Fam {
	case 'T':
		if p.T < 0 {
			return nil, fmt.Errorf("negative threshold")
		}
		ac, err := threshold.NewThresholdAccessStructure(uint(p.T), uset(p.IDs))
		if err != nil {
			return nil, err
		}
		return ac, nil
	case 'U':
		ac, err := unanimity.NewUnanimityAccessStructure(uset(p.IDs))
		if err != nil {
			return nil, err
		}
		return ac, nil
	case 'N':
		sets := make([]ds.Set[sharing.ID], len(p.Sets))
		for i, s := range p.Sets {
			sets[i] = uset(s)
		}
		ac, err := cnf.NewCNFAccessStructure(sets...)
		if err != nil {
			return nil, err
		}
		return ac, nil
	case 'H':
		ls := make([]*hierarchical.ThresholdLevel, len(p.Levels))
		for i, l := range p.Levels {
			ids := make([]sharing.ID, len(l.IDs))
			for j, v := range l.IDs {
				ids[j] = sharing.ID(v)
			}
			ls[i] = hierarchical.WithLevel(l.T, ids...)
		}
		ac, err := hierarchical.NewHierarchicalConjunctiveThresholdAccessStructure(ls...)
		if err != nil {
			return nil, err
		}
		return ac, nil
	case 'G':
		ac, err := boolexpr.NewThresholdGateAccessStructure(p.Root.node())
		if err != nil {
			return nil, err
		}
		return ac, nil
	}
	return nil, fmt.Errorf("unknown family")
}

func (t *Tree) eval(s map[uint64]bool) bool {
	if t.Leaf {
		return s[t.ID]
	}
	c := 0
	for _, ch := range t.Cs {
		if ch.eval(s) {
			c++
		}
	}
	return c >= t.T
}

// Qualified evaluates the declared semantics of the policy on a set of distinct holders
// (independent of the library).
func (p Policy) Qualified(set []sharing.ID) bool {
	s := map[uint64]bool{}
	for _, x := range set {
		s[uint64(x)] = true
	}
	switch p.Fam {
	case 'T':
		return len(s) >= p.T
	case 'U':
		return len(s) == len(p.Holders())
	case 'N':
		for _, u := range p.Sets {
			um := map[uint64]bool{}
			for _, x := range u {
				um[x] = true
			}
			sub := true
			for x := range s {
				if !um[x] {
					sub = false
					break
				}
			}
			if sub {
				return false
			}
		}
		return true
	case 'H':
		cum := map[uint64]bool{}
		for _, l := range p.Levels {
			for _, x := range l.IDs {
				cum[x] = true
			}
			c := 0
			for x := range s {
				if cum[x] {
					c++
				}
			}
			if c < l.T {
				return false
			}
		}
		return true
	default:
		return p.Root.eval(s)
	}
}

// Minimal reports whether set is a minimal qualified set of the policy.
func (p Policy) Minimal(set []sharing.ID) bool {
	if !p.Qualified(set) {
		return false
	}
	for i := range set {
		sub := append(append([]sharing.ID(nil), set[:i]...), set[i+1:]...)
		if p.Qualified(sub) {
			return false
		}
	}
	return true
}

// QualifiedSets enumerates all qualified subsets of the holders (holders ascending; subsets
// in increasing bitmask order). Only for small policies (≤ 16 holders).
func (p Policy) QualifiedSets() [][]sharing.ID {
	hs := p.Holders()
	if len(hs) > 16 {
		return nil
	}
	var out [][]sharing.ID
	for m := 1; m < 1<<len(hs); m++ {
		var s []sharing.ID
		for i, h := range hs {
			if m>>i&1 == 1 {
				s = append(s, h)
			}
		}
		if p.Qualified(s) {
			out = append(out, s)
		}
	}
	return out
}
