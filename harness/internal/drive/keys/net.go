package keys

// net.go — running a protocol through its networked runner API (network.Runner) over an
// in-memory transport: one buffered channel per party, a network.Router per party, every
// runner in its own goroutine (as pkg/network/testutils.TestExecuteRunners does, without the
// `testing` dependency).  Messages do not pass through drive.Pass in this mode (the router
// frames them itself; C11 covers routing) — the trace records tapes, verdicts and outputs.

import (
	"context"
	"fmt"
	"sync"
	"time"

	"github.com/bronlabs/bron-crypto/pkg/mpc/sharing"
	"github.com/bronlabs/bron-crypto/pkg/network"

	"verif/harness/internal/drive"
	"verif/harness/internal/vh"
)

type memMsg struct {
	from    sharing.ID
	payload []byte
}

type memDelivery struct {
	id     sharing.ID
	quorum []sharing.ID
	in     <-chan memMsg
	out    map[sharing.ID]chan<- memMsg
}

func (d *memDelivery) PartyID() sharing.ID  { return d.id }
func (d *memDelivery) Quorum() []sharing.ID { return d.quorum }

func (d *memDelivery) Send(ctx context.Context, to sharing.ID, payload []byte) error {
	ch, ok := d.out[to]
	if !ok {
		return fmt.Errorf("no channel for recipient %d", uint64(to))
	}
	p := append([]byte(nil), payload...)
	select {
	case <-ctx.Done():
		return ctx.Err()
	case ch <- memMsg{from: d.id, payload: p}:
		return nil
	}
}

func (d *memDelivery) Receive(ctx context.Context) (sharing.ID, []byte, error) {
	select {
	case <-ctx.Done():
		return 0, nil, ctx.Err()
	case m := <-d.in:
		return m.from, m.payload, nil
	}
}

// RunRunners executes one runner per party concurrently over the in-memory transport and
// records each party's verdict (round 1) in the trace. A runner that has not returned after
// the timeout is cancelled and gets the verdict "timeout".
func RunRunners[O any](e *Engine, runners map[sharing.ID]network.Runner[O], timeout time.Duration) map[sharing.ID]O {
	chans := map[sharing.ID]chan memMsg{}
	for _, id := range e.IDs {
		chans[id] = make(chan memMsg, 1024)
	}
	ctx, cancel := context.WithTimeout(context.Background(), timeout)
	defer cancel()
	type ret struct {
		out   O
		err   error
		panic string
	}
	rets := map[sharing.ID]*ret{}
	var mu sync.Mutex
	var wg sync.WaitGroup
	for _, id := range e.IDs {
		r, ok := runners[id]
		if !ok || !e.Alive(id) {
			continue
		}
		e.Tr.Tapes[id].Mark = "run"
		out := map[sharing.ID]chan<- memMsg{}
		for _, o := range e.IDs {
			if o != id {
				out[o] = chans[o]
			}
		}
		d := &memDelivery{id: id, quorum: append([]sharing.ID(nil), e.IDs...), in: chans[id], out: out}
		wg.Add(1)
		go func() {
			defer wg.Done()
			res := &ret{}
			res.panic = vh.Safely(func() {
				rt := network.NewRouter(d)
				defer rt.Close()
				res.out, res.err = r.Run(ctx, rt, nil)
			})
			mu.Lock()
			rets[id] = res
			mu.Unlock()
		}()
	}
	wg.Wait()
	outs := map[sharing.ID]O{}
	for _, id := range e.IDs {
		res, ok := rets[id]
		if !ok {
			continue
		}
		v := drive.Step(e.Tr, id, 1, func() error {
			if res.panic != "" {
				panic(res.panic)
			}
			return res.err
		})
		if v.Class == "ok" {
			outs[id] = res.out
		} else if ctx.Err() != nil {
			e.Tr.Verdicts[id] = drive.Verdict{Class: "timeout", Round: 1, Detail: v.Detail}
		}
	}
	return outs
}
